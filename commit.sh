#!/bin/sh
# regenerate Gen from the (clean) repository before committing /verif
set -e
cd /verif
test -z "$(git -C /repo status --porcelain)" || { echo "/repo not clean"; exit 1; }
bin/verifextract -repo /repo -out lean/SamVerif/Gen -report work/x.json >/dev/null
git add -A
git commit -qm "$1"
git log --oneline | head -1
