#!/bin/sh
# regenerate Gen from the (clean) repository and refresh stale evidence before committing /verif
set -e
cd /verif
test -z "$(git -C /repo status --porcelain)" || { echo "/repo not clean"; exit 1; }
bin/verifextract -repo /repo -out lean/SamVerif/Gen -report work/x.json >/dev/null
head=$(git -C /repo log --format=%h -1)
# evidence written while a seeded change was applied (or by a failing run) must not be committed: re-run those checks
for f in evidence/*.json; do
  id=$(basename "$f" .json)
  stale=$(python3 - "$f" "$head" <<'PY'
import json,sys
e=json.load(open(sys.argv[1]))
c=e.get('coverage',{})
bad = e.get('violations',0) or c.get('discharged')!=c.get('obligations') or 'dirty' in str(e.get('repo','')) or e.get('tier')!='quick'
print('1' if bad else '0')
PY
)
  if [ "$stale" = "1" ]; then
    echo "refreshing evidence of $id"
    ./check "$id" --tier quick | tail -1
  fi
done
git add -A
git commit -qm "$1"
git log --oneline | head -1
