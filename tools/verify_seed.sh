#!/bin/bash
# verify_seed.sh <dir with patch.diff, demo *_test.go, meta.json> : confirm in a scratch worktree of /repo HEAD that
#  (1) the demo passes without the patch, (2) fails with it, (3) the package's existing tests still pass with it.
set -u
export GOFLAGS=-mod=mod GOPROXY=off GOSUMDB=off GOTOOLCHAIN=local
d=$(readlink -f "$1"); name=$(echo "$d" | tr '/' '_')
wt=/tmp/vs_$$_$name
git -C /repo worktree add -q --detach "$wt" HEAD || exit 2
trap 'git -C /repo worktree remove --force "$wt" >/dev/null 2>&1' EXIT
patch="$d/patch.diff"; [ -f "$d/patch_rebased.diff" ] && patch="$d/patch_rebased.diff"
pkg=$(python3 -c "import json,sys;print(json.load(open('$d/meta.json')).get('demo_pkg_dir','').strip('/'))")
pkg=${pkg#/tmp/seed/*/}; pkg=${pkg#./}
demo=$(ls "$d"/*_test.go | head -1)
run=$(grep -o 'func Test[A-Za-z0-9_]*' "$demo" | sed 's/func //' | paste -sd'|')
cp "$d"/*_test.go "$wt/$pkg/" || { echo "RESULT $d copy-failed pkg=$pkg"; exit 2; }
cd "$wt"
timeout 300 go test -count=1 -vet=off -timeout 200s -run "^($run)\$" "./$pkg/" > "$wt/.pre.log" 2>&1; pre=$?
if ! git apply --check "$patch" 2>/dev/null; then echo "RESULT $d patch-does-not-apply pre=$pre"; exit 3; fi
git apply "$patch"
timeout 300 go test -count=1 -vet=off -timeout 200s -run "^($run)\$" "./$pkg/" > "$wt/.post.log" 2>&1; post=$?
rm -f "$wt/$pkg"/verif_demo_*_test.go
changed=$(git diff --name-only | xargs -n1 dirname | sort -u | sed 's|^|./|;s|$|/|' | paste -sd' ')
timeout 600 go test -count=1 -vet=off -timeout 500s $changed > "$wt/.suite.log" 2>&1; suite=$?
echo "RESULT $d pre=$pre post=$post suite=$suite pkgs=[$changed]"
[ $pre -ne 0 ] && tail -5 "$wt/.pre.log" | sed 's/^/   pre: /'
[ $suite -ne 0 ] && grep -E "^(--- FAIL|FAIL|panic)" "$wt/.suite.log" | head -5 | sed 's/^/   suite: /'
exit 0
