#!/bin/bash
# seed_check.sh <seed dir | patch file> <Cxx> [check args…]
# Runs ./check Cxx against a scratch copy of /repo HEAD with the change applied, from a scratch copy of
# /verif's working tree — /repo and /verif themselves are not touched, so this can run beside other checks.
set -u
src="$1"; pid="$2"; shift 2
patch="$src"
if [ -d "$src" ]; then patch="$src/patch.diff"; [ -f "$src/patch_rebased.diff" ] && patch="$src/patch_rebased.diff"; fi
patch=$(readlink -f "$patch")
base=/tmp/sc_$$
mkdir -p "$base"
trap 'git -C /repo worktree remove --force "$base/repo" >/dev/null 2>&1; rm -rf "$base"' EXIT
git -C /repo worktree add -q --detach "$base/repo" HEAD || exit 2
if ! git -C "$base/repo" apply "$patch" 2>/dev/null; then echo "SEED $src: patch does not apply"; exit 3; fi
rsync -a --exclude work --exclude replays --exclude .git --exclude seeded --exclude .check.lock /verif/ "$base/verif/"
sed -i "s|=> /repo|=> $base/repo|" "$base/verif/harness/go.mod"
[ -f "$base/verif/extract/go.mod" ] && sed -i "s|=> /repo|=> $base/repo|" "$base/verif/extract/go.mod"
cd "$base/verif" && mkdir -p work replays
VERIF_REPO="$base/repo" timeout 3000 ./check "$pid" "$@" 2>&1 | grep -E "VIOLATION|KNOWN|→|broken|obligation|no longer" | tail -40
for f in $(ls -t replays 2>/dev/null | head -2); do echo "--- $f"; head -6 "replays/$f" | cut -c1-400; done
