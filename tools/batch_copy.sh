#!/bin/bash
# batch_copy.sh <log name> <check args…> -- <ids…>: runs ./check for each id from a scratch copy of /verif's working tree
# (so that the tree can be edited meanwhile); log and replays are copied to /verif/work/.
name="$1"; shift
args=(); while [ "$1" != "--" ]; do args+=("$1"); shift; done; shift
base=/tmp/vb_$name
rm -rf "$base"; mkdir -p "$base"
rsync -a --exclude work --exclude replays --exclude .git --exclude seeded --exclude hunt --exclude .check.lock /verif/ "$base/verif/"
cd "$base/verif" && mkdir -p work replays
mkdir -p /verif/work/batch_$name
for id in "$@"; do
  timeout 3000 ./check "$id" "${args[@]}" 2>&1 | grep -E "VIOLATION|KNOWN|→|broken|no longer" | cut -c1-400 >> /verif/work/batch_$name.log
  cp replays/* /verif/work/batch_$name/ 2>/dev/null; rm -f replays/*
done
echo DONE >> /verif/work/batch_$name.log
rm -rf "$base"
