#!/bin/bash
# revert_sweep.sh: every repair of the hunting round taken out again must be reported by its check with a concrete input.
cd /verif
declare -A CHECK=( [F-01b]=C01 [F-02g]=C09 [F-04d]=C04 [F-07f]=C07 [F-08e]=C08 [F-10a]=C10 [F-13c]=C13 [F-14d]=C14 [F-15e]=C15 [F-17d]=C17 [F-18a]=C18 [F-18b]=C18 [F-19c]=C19 [F-09k]=C09 [F-08f]=C08 [F-09l]=C09 [F-11i]=C11 [F-08g]=C08 [F-08h]=C08 [F-08i]=C08 [F-08j]=C08 [F-08k]=C08 [F-07g]=C07 [F-14e]=C14 )
for f in seeded/reverts/F-*.diff; do
  id=$(basename $f .diff)
  out=$(tools/seed_check.sh $f ${CHECK[$id]} 2>&1 | grep -E "→|^c[0-9]+\." | tail -2 | cut -c1-160 | tr '\n' ' ')
  echo "$id ${CHECK[$id]}: $out"
done
