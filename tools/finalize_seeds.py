#!/usr/bin/env python3
"""Copy confirmed seeded changes from seeded/incoming/<P>/<x> to seeded/<P><x>/ with an extended meta.json.
A change is kept when tools/verify_seed.sh confirmed it on /repo's HEAD (work/seed_verify2.log):
demo passes without the patch (pre=0), fails with it (post!=0), the touched packages' own tests pass with it (suite=0)."""
import json, os, re, shutil, subprocess, sys
ROOT = "/verif"
log = open(os.path.join(ROOT, "work/seed_verify2.log")).read()
res = {}
for m in re.finditer(r"RESULT (\S+)/(C\d\d)/([ab]) (.*)", log):
    res[(m.group(2), m.group(3))] = m.group(4)
caught = json.load(open(os.path.join(ROOT, "tools/seed_caught.json")))
head = subprocess.check_output(["git", "-C", "/repo", "log", "--format=%h", "-1"]).decode().strip()
kept, dropped = [], []
for (p, x), r in sorted(res.items()):
    src = os.path.join(ROOT, "seeded/incoming", p, x)
    mm = re.search(r"pre=(\d+) post=(\d+) suite=(\d+)", r)
    ok = bool(mm) and mm.group(1) == "0" and mm.group(2) != "0" and mm.group(3) == "0"
    if not ok:
        dropped.append((p + x, r)); continue
    dst = os.path.join(ROOT, "seeded", p + x)
    shutil.rmtree(dst, ignore_errors=True); os.makedirs(dst)
    rebased = os.path.exists(os.path.join(src, "patch_rebased.diff"))
    shutil.copy(os.path.join(src, "patch_rebased.diff" if rebased else "patch.diff"), os.path.join(dst, "patch.diff"))
    if rebased: shutil.copy(os.path.join(src, "patch.diff"), os.path.join(dst, "original_patch.diff"))
    for f in os.listdir(src):
        if f.endswith("_test.go"): shutil.copy(os.path.join(src, f), os.path.join(dst, f))
    meta = json.load(open(os.path.join(src, "meta.json")))
    meta.update({
        "property": p,
        "rebased_onto_fixes": rebased,
        "confirmed_on_repo_head": head,
        "confirmation": {"demo_without_patch": "pass", "demo_with_patch": "fail", "package_tests_with_patch": "pass", "raw": r},
        "what_i_ran": "tools/verify_seed.sh seeded/incoming/%s/%s  (scratch worktree of /repo HEAD under /tmp, removed afterwards); "
                      "then: git -C /repo apply seeded/%s/patch.diff && ./check <id> --tier quick ; git -C /repo checkout -- ." % (p, x, p + x),
        "caught_by": caught.get(p + x, "not run"),
    })
    json.dump(meta, open(os.path.join(dst, "meta.json"), "w"), indent=1)
    kept.append(p + x)
print("kept", len(kept), " ".join(kept))
for d in dropped: print("dropped", d)
