#!/usr/bin/env python3
"""Re-freeze the quoted statement lists of a Props file after a change to /repo that was read and understood
(a "fix:" commit): every conjunct `Gen.<Mod>.<name> =\n      [ … ]` of lean/SamVerif/Props/<Cxx>.lean gets the
current text of that definition in lean/SamVerif/Gen/<Mod>.lean.

   tools/refreeze.py Cxx [Cyy …]

Prints what changed.  The frozen text is "what the model was written against": run this only together with the
matching change of the model (or the note why the model is not affected)."""
import re, sys, os
ROOT = os.path.dirname(os.path.dirname(os.path.abspath(__file__)))
cache = {}
def gen_defs(mod):
    if mod not in cache:
        src = open(f"{ROOT}/lean/SamVerif/Gen/{mod}.lean").read()
        cache[mod] = dict(re.findall(r"^def (\w+) : List String :=\n((?:  .*\n)+)", src, re.M))
    return cache[mod]
for cxx in sys.argv[1:]:
    pf = f"{ROOT}/lean/SamVerif/Props/{cxx}.lean"
    t = open(pf).read()
    changed = []
    def repl(m):
        mod, name, old = m.group(1), m.group(2), m.group(3)
        d = gen_defs(mod).get(name)
        if d is None:
            print(f"{cxx}: Gen.{mod}.{name} no longer exists"); return m.group(0)
        body = "\n".join("      " + l.strip() for l in d.rstrip("\n").split("\n"))
        tail = old[len(old.rstrip()):]          # keep what followed the list (" ∧", " := by", …) intact
        # the list ends at the closing bracket; what follows on that line is kept
        k = old.rstrip().rfind("]")
        after = old.rstrip()[k + 1:]
        new = body + after + tail
        if new != old:
            changed.append(f"Gen.{mod}.{name}")
        return f"Gen.{mod}.{name} =\n{new}"
    t2 = re.sub(r"Gen\.(\w+)\.(\w+) =\n((?:      .*\n)+)", repl, t)
    if t2 != t:
        open(pf, "w").write(t2)
    print(f"{cxx}: re-froze {len(changed)}: {', '.join(changed)}")
