#!/usr/bin/env python3
"""Regenerate /verif/MANIFEST.json from tools/claims.json (one entry per claimed property)."""
import json, os, subprocess
ROOT = os.path.dirname(os.path.dirname(os.path.abspath(__file__)))
props = [json.loads(l) for l in open(os.path.join(ROOT, "properties.jsonl"))]
claims = json.load(open(os.path.join(ROOT, "tools", "claims.json")))
hooks = subprocess.run(["git", "-C", "/repo", "log", "--format=%h %s"], capture_output=True, text=True).stdout.splitlines()
hook_commits = [l.split()[0] for l in hooks if l.split(" ", 1)[1].startswith("verif:")]
claimed = [p["id"] for p in props if p["id"] in claims["checks"]]
m = {
    "version": 1,
    "setup_cmd": "./setup.sh",
    "hooks": {
        "guard": "verif",
        "enable": "go build -tags verif (Go build tag `verif`; hook files are *_verif.go with //go:build verif)",
        "baseline_off_cmd": "cd /repo && go test -mod=mod -json -vet=off -count=1 -timeout 25m ./...",
        "source_commits": hook_commits,
        "add_only": True,
    },
    "engines": [
        {"name": "samverif-lean", "path": "/verif/lean", "serves_properties": claimed,
         "kind_free_text": "Lean 4 models, specs and theorems (lake project; core Lean, single Mathlib modules only in proof files)"},
        {"name": "extract", "path": "/verif/extract", "serves_properties": claimed,
         "kind_free_text": "go/ast extractor regenerating lean/SamVerif/Gen/*.lean from /repo on every run (tables, constants, small function bodies, structural facts)"},
        {"name": "harness", "path": "/verif/harness", "serves_properties": claimed,
         "kind_free_text": "Go correspondence harness calling the real code in-process (-tags verif), piped through the compiled Lean driver (model + spec verdict per case)"},
    ],
    "checks": [],
    "not_applicable": [],
    "notes": claims.get("notes", ""),
}
for p in props:
    pid = p["id"]
    c = claims["checks"].get(pid)
    if c is None:
        m["not_applicable"].append({"property_id": pid, "reason": claims["pending"].get(pid, "check not yet built in this revision (work in progress, see DESIGN.md §8 build order)")})
        continue
    m["checks"].append({
        "property_id": pid,
        "quick_cmd": "./check %s --tier quick" % pid,
        "thorough_cmd": "./check %s --tier thorough" % pid,
        "evidence_file": "/verif/evidence/%s.json" % pid,
        "replay_cmd_template": "./check %s --replay {path}" % pid,
        "engine": "samverif-lean",
        "level_claimed": {"category": "proof", "text": c["text"], "design_ref": "DESIGN.md §4 " + pid},
        "level_note": c["note"],
        "technique": c["technique"],
    })
json.dump(m, open(os.path.join(ROOT, "MANIFEST.json"), "w"), indent=1)
print("MANIFEST: %d checks, %d not_applicable" % (len(m["checks"]), len(m["not_applicable"])))
