#!/usr/bin/env python3
"""Freeze the statement lists of a generated module as the expectation of a Props file:

   tools/mk_expect.py <GenModule> <Cxx> [name …]

writes (or replaces) theorem `code_matches_model` in lean/SamVerif/Props/<Cxx>.lean, comparing
every (or the named) definition of lean/SamVerif/Gen/<GenModule>.lean with its current text.
Run it only after reading the diff of the source: the text frozen here is "what the model was
written against"."""
import re, sys, os
ROOT = os.path.dirname(os.path.dirname(os.path.abspath(__file__)))
args = sys.argv[1:]
thm_name = "code_matches_model"
if "--name" in args:
    i = args.index("--name"); thm_name = args[i + 1]; del args[i:i + 2]
gen, cxx, only = args[0], args[1], args[2:]
src = open(f"{ROOT}/lean/SamVerif/Gen/{gen}.lean").read()
defs = re.findall(r"^def (\w+) : List String :=\n((?:  .*\n)+)", src, re.M)
defs = [(n, b) for n, b in defs if not only or n in only]
assert defs, "no definitions found"
parts = []
for n, b in defs:
    body = "\n".join("      " + l.strip() if i else "      " + l.strip() for i, l in enumerate(b.rstrip("\n").split("\n")))
    parts.append(f"    Gen.{gen}.{n} =\n{body}")
thm = ("/-- **The code the model was written against.** The statements of the modelled functions,\n"
       "regenerated from the current source on every run, are the ones the model was written against;\n"
       "any edit to one of them makes this obligation fail and starts a search for a failing input. -/\n"
       f"theorem {thm_name} :\n" + " ∧\n".join(parts) + " := by\n"
       "  refine ⟨" + ", ".join(["rfl"] * len(defs)) + "⟩\n" if len(defs) > 1 else
       "/-- **The code the model was written against.** -/\n"
       f"theorem {thm_name} :\n{parts[0]} := rfl\n")
pf = f"{ROOT}/lean/SamVerif/Props/{cxx}.lean"
t = open(pf).read()
ns = f"SamVerif.Props.{cxx}"
t = re.sub(r"/-- \*\*The code the model was written against\.\*\*(?:(?!/-- ).)*?theorem " + thm_name + r" :.*?(?=\n/-- |\nend " + re.escape(ns) + r"\b(?!\w))", "", t, flags=re.S)
k = [m.start() for m in re.finditer(r"^end " + re.escape(ns) + r"$", t, re.M)][-1]
t = t[:k].rstrip("\n") + "\n\n" + thm + "\n" + t[k:]
imp = f"import SamVerif.Gen.{gen}\n"
if imp not in t:
    lines = t.split("\n")
    idx = max(i for i, l in enumerate(lines) if l.startswith("import "))
    lines.insert(idx + 1, imp.rstrip("\n"))
    t = "\n".join(lines)
pa = f"#print axioms {ns}.{thm_name}"
if pa not in t:
    t = t.rstrip("\n") + "\n" + pa + "\n"
open(pf, "w").write(t)
print(f"{cxx}: {thm_name} over {len(defs)} definitions of Gen.{gen}")
