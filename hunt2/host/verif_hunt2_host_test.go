package hc

import (
	"fmt"
	"net"
	"sync"
	"testing"
	"time"

	"github.com/samaritan-proxy/samaritan/host"
	"github.com/samaritan-proxy/samaritan/pb/config/hc"
)

// guarded runs f and turns a panic into a returned value, so that a crash of
// the product code is reported as a test failure and not as a dead test binary.
func hunt2Guarded(f func()) (panicked interface{}) {
	defer func() { panicked = recover() }()
	f()
	return nil
}

// Defect 1.
// hc.proto documents "if the checker is null, then TCP checker will be
// selected", HealthCheck.Validate() accepts such a section, NewMonitor handles
// it. ResetHealthCheck (what tcpProc.OnSvcConfigUpdate calls for every change
// of the health_check section of a running service, proc/tcp/proc.go:297)
// calls a method on the nil oneof interface: monitor.go:102
// `config.Checker.Equal(...)`. The panic is raised on the controller's event
// goroutine: the whole proxy dies.
func TestVerifHunt2ResetHealthCheckWithoutChecker(t *testing.T) {
	set := host.NewSet(host.New("127.0.0.1:1"))
	// a running service whose health check names a checker ...
	running := &hc.HealthCheck{
		Interval:      time.Hour,
		Timeout:       time.Second,
		FallThreshold: 3,
		RiseThreshold: 3,
		Checker:       &hc.HealthCheck_TcpChecker{TcpChecker: &hc.TCPChecker{}},
	}
	m, err := NewMonitor(running, set, nil)
	if err != nil || m == nil {
		t.Fatalf("NewMonitor: %v %v", m, err)
	}
	m.Start()
	defer m.Stop()

	// ... is updated to a section without one (the documented way to ask for the
	// TCP checker); only the interval differs otherwise.
	update := &hc.HealthCheck{
		Interval:      30 * time.Minute,
		Timeout:       time.Second,
		FallThreshold: 3,
		RiseThreshold: 3,
	}
	if err := update.Validate(); err != nil {
		t.Fatalf("the update is not a valid configuration: %v", err)
	}
	// the same section is fine for a new service
	if m2, err := NewMonitor(update, set, nil); err != nil || m2 == nil {
		t.Fatalf("NewMonitor refuses the section: %v %v", m2, err)
	}

	var resetErr error
	if p := hunt2Guarded(func() { resetErr = m.ResetHealthCheck(update) }); p != nil {
		t.Fatalf("ResetHealthCheck with a valid section without checker panicked: %v", p)
	}
	if resetErr != nil {
		t.Fatalf("ResetHealthCheck: %v", resetErr)
	}
	if m.config != update {
		t.Fatalf("the update was not taken over")
	}
}

// Defect 2.
// An atcp action whose `send` (or `expect`) is absent passes every Validate()
// (no rule on the two fields, hc.pb.validate.go:518-520); "wait for the
// banner" is the natural use. atcp.NewChecker hands the empty slice to
// decodePayload, which reads b[0] (atcp/config_actions.go, decodePayload first
// line): index out of range, on the controller's goroutine, both when the
// service is created (NewMonitor) and when it is updated (ResetHealthCheck).
func TestVerifHunt2AtcpActionWithoutSend(t *testing.T) {
	set := host.NewSet(host.New("127.0.0.1:1"))
	cfg := &hc.HealthCheck{
		Interval:      time.Hour,
		Timeout:       time.Second,
		FallThreshold: 3,
		RiseThreshold: 3,
		Checker: &hc.HealthCheck_AtcpChecker{AtcpChecker: &hc.ATCPChecker{
			Action: []*hc.ATCPChecker_Action{{Expect: []byte(`"220 "`)}},
		}},
	}
	if err := cfg.Validate(); err != nil {
		t.Fatalf("not a valid configuration: %v", err)
	}
	var (
		m   *Monitor
		err error
	)
	if p := hunt2Guarded(func() { m, err = NewMonitor(cfg, set, nil) }); p != nil {
		t.Fatalf("NewMonitor with an expect-only atcp action panicked: %v", p)
	}
	// refusing the section with an error is acceptable, crashing is not.
	t.Logf("NewMonitor: monitor=%v err=%v", m != nil, err)

	// the same through an update of a running monitor
	m, err = NewMonitor(&hc.HealthCheck{
		Interval: time.Hour, Timeout: time.Second,
		Checker: &hc.HealthCheck_TcpChecker{TcpChecker: &hc.TCPChecker{}},
	}, set, nil)
	if err != nil {
		t.Fatal(err)
	}
	m.Start()
	defer m.Stop()
	if p := hunt2Guarded(func() { err = m.ResetHealthCheck(cfg) }); p != nil {
		t.Fatalf("ResetHealthCheck with an expect-only atcp action panicked: %v", p)
	}
	t.Logf("ResetHealthCheck: err=%v", err)
}

// hunt2Silent accepts connections and never answers: a TCP connect succeeds, a
// redis PING gets no PONG.
type hunt2Silent struct {
	lis   net.Listener
	mu    sync.Mutex
	conns []net.Conn
}

func newHunt2Silent(t *testing.T) *hunt2Silent {
	lis, err := net.Listen("tcp", "127.0.0.1:0")
	if err != nil {
		t.Fatal(err)
	}
	s := &hunt2Silent{lis: lis}
	go func() {
		for {
			c, err := lis.Accept()
			if err != nil {
				return
			}
			s.mu.Lock()
			s.conns = append(s.conns, c)
			s.mu.Unlock()
		}
	}()
	return s
}

func (s *hunt2Silent) stop() {
	s.lis.Close()
	s.mu.Lock()
	for _, c := range s.conns {
		c.Close()
	}
	s.mu.Unlock()
}

// Defect 3.
// A strategy update that is REJECTED (ResetHealthCheck returns an error, the
// processor keeps its old configuration, proc/tcp/proc.go:297-301) nevertheless
// replaces the running checker by the plain TCP checker (monitor.go:105). From
// then on the health of every host is decided by check results of a checker
// that is in no configuration: a backend that accepts connections but does not
// speak the protocol, correctly held unhealthy by the configured redis checker,
// is marked healthy and gets traffic again.
func TestVerifHunt2RejectedUpdateSwapsChecker(t *testing.T) {
	backend := newHunt2Silent(t)
	defer backend.stop()

	h := host.New(backend.lis.Addr().String())
	set := host.NewSet(h)
	configured := &hc.HealthCheck{
		Interval:      time.Hour, // rounds are driven by hand below
		Timeout:       150 * time.Millisecond,
		FallThreshold: 1,
		RiseThreshold: 1,
		Checker:       &hc.HealthCheck_RedisChecker{RedisChecker: &hc.RedisChecker{}},
	}
	m, err := NewMonitor(configured, set, nil)
	if err != nil || m == nil {
		t.Fatalf("NewMonitor: %v %v", m, err)
	}
	// the monitor's own rounds, without waiting for the ticker
	for i := 0; i < 3; i++ {
		m.checkHosts()
	}
	if h.IsHealthy() || len(set.Healthy()) != 0 {
		t.Fatalf("setup: the silent backend should be unhealthy for the redis checker")
	}

	// an update with a malformed atcp payload (not a quoted string): rejected.
	bad := &hc.HealthCheck{
		Interval:      time.Hour,
		Timeout:       150 * time.Millisecond,
		FallThreshold: 1,
		RiseThreshold: 1,
		Checker: &hc.HealthCheck_AtcpChecker{AtcpChecker: &hc.ATCPChecker{
			Action: []*hc.ATCPChecker_Action{{Send: []byte(`PING`), Expect: []byte(`"PONG"`)}},
		}},
	}
	if err := m.ResetHealthCheck(bad); err == nil {
		t.Fatalf("setup: the malformed update should be rejected")
	}
	if m.config != configured {
		t.Fatalf("setup: a rejected update must leave the configuration alone")
	}

	// the configuration in force is still the redis checker, the backend still
	// answers no PING: whatever the number of rounds, it must stay unhealthy.
	for i := 0; i < 4; i++ {
		m.checkHosts()
	}
	if h.IsHealthy() || len(set.Healthy()) != 0 {
		t.Fatalf("after a REJECTED update the backend that answers no PING is reported usable: healthy=%v usable=%v checker=%s",
			h.IsHealthy(), set.Healthy(), fmt.Sprintf("%T", m.checker))
	}
}
