package redis

// Hunt, round 2, area "filters / codec / scan / hot keys".
//
// TestVerifHunt2FiltNullBulkArgumentReachesBackend (C11)
//   A null bulk string ("$-1") is decoded as an ordinary request argument
//   (codec.go decodeBulkString returns nil for -1, request.go IsValid only looks
//   at the type) and is written to the backend as "$-1" again (codec.go
//   encodeBulkBytes). Redis treats a negative bulk length inside a command as a
//   protocol error: it answers "-ERR Protocol error: invalid bulk length" and
//   CLOSES the connection. That connection is the one all downstream clients
//   share for the node, so every request of every other client that is queued
//   behind the poisoned one is answered with an error by the proxy.
//
// TestVerifHunt2FiltReadBackAfterCompressionSectionRemoved (C13)
//   Values written while compression was on come back as raw frames once the
//   compression section has been taken out of the configuration: the reply hook
//   that decompresses is only registered while a section is present.
//
// TestVerifHunt2FiltScanAcrossFirstRoutingLoad (C18)
//   A SCAN iteration that starts before the first CLUSTER NODES answer has been
//   loaded walks over the hosts, the next call over the masters: the node index
//   in the cursor means another node, a master is never visited.

import (
	"bufio"
	"bytes"
	"fmt"
	"io"
	"net"
	"sort"
	"strconv"
	"strings"
	"sync"
	"sync/atomic"
	"testing"
	"time"

	"github.com/samaritan-proxy/samaritan/host"
	"github.com/samaritan-proxy/samaritan/pb/common"
	"github.com/samaritan-proxy/samaritan/pb/config/protocol"
	pbredis "github.com/samaritan-proxy/samaritan/pb/config/protocol/redis"
	"github.com/samaritan-proxy/samaritan/pb/config/service"
	"github.com/samaritan-proxy/samaritan/proc"
	"github.com/samaritan-proxy/samaritan/proc/internal/log"
	_ "github.com/samaritan-proxy/samaritan/proc/redis/compressor/snappy"
	"github.com/samaritan-proxy/samaritan/stats"
	"github.com/samaritan-proxy/samaritan/utils"
)

// ---------------------------------------------------------------------------
// a backend that reads commands the way Redis does (networking.c,
// processMultibulkBuffer): "*<n>" then n times "$<len>" + payload; a bulk length
// that is not a number, is negative or exceeds 512 MB is answered with
// "-ERR Protocol error: invalid bulk length" and the connection is closed.
// ---------------------------------------------------------------------------

type hunt2Node struct {
	t *testing.T
	l net.Listener

	mu          sync.Mutex
	strs        map[string][]byte
	hashes      map[string]map[string][]byte
	protoErrors int
	cmds        []string
	clusterText string                         // reply to CLUSTER NODES ("" = error)
	scanPages   map[uint64]hunt2Page           // node cursor -> page
	slow        map[string]time.Duration       // GET <key> is answered after this long
	extra       func(args [][]byte) *RespValue // optional override
}

type hunt2Page struct {
	next uint64
	keys []string
}

func newHunt2Node(t *testing.T) *hunt2Node {
	t.Helper()
	l, err := net.Listen("tcp", "127.0.0.1:0")
	if err != nil {
		t.Fatal(err)
	}
	n := &hunt2Node{
		t:      t,
		l:      l,
		strs:   make(map[string][]byte),
		hashes: make(map[string]map[string][]byte),
		slow:   make(map[string]time.Duration),
	}
	go func() {
		for {
			conn, err := l.Accept()
			if err != nil {
				return
			}
			go n.serve(conn)
		}
	}()
	return n
}

func (n *hunt2Node) Addr() string { return n.l.Addr().String() }
func (n *hunt2Node) Close()       { n.l.Close() }

// readCommand reads one command as Redis does. ok=false, perr!="" : protocol error.
func hunt2ReadCommand(br *bufio.Reader) (args [][]byte, perr string, err error) {
	line, err := br.ReadString('\n')
	if err != nil {
		return nil, "", err
	}
	line = strings.TrimRight(line, "\r\n")
	if len(line) == 0 || line[0] != '*' {
		return nil, "", fmt.Errorf("inline command %q: the proxy never sends those", line)
	}
	cnt, cerr := strconv.ParseInt(line[1:], 10, 64)
	if cerr != nil || cnt > 1024*1024 {
		return nil, "Protocol error: invalid multibulk length", nil
	}
	for i := int64(0); i < cnt; i++ {
		line, err = br.ReadString('\n')
		if err != nil {
			return nil, "", err
		}
		line = strings.TrimRight(line, "\r\n")
		if len(line) == 0 || line[0] != '$' {
			return nil, fmt.Sprintf("Protocol error: expected '$', got '%c'", line[0]), nil
		}
		ll, lerr := strconv.ParseInt(line[1:], 10, 64)
		if lerr != nil || ll < 0 || ll > 512*1024*1024 {
			return nil, "Protocol error: invalid bulk length", nil
		}
		buf := make([]byte, ll+2)
		if _, err = io.ReadFull(br, buf); err != nil {
			return nil, "", err
		}
		args = append(args, buf[:ll])
	}
	return args, "", nil
}

func (n *hunt2Node) serve(conn net.Conn) {
	defer conn.Close()
	br := bufio.NewReader(conn)
	enc := newEncoder(conn, 4096)
	for {
		args, perr, err := hunt2ReadCommand(br)
		if err != nil {
			return
		}
		if perr != "" {
			// what Redis does: reply, then close (CLIENT_CLOSE_AFTER_REPLY)
			n.mu.Lock()
			n.protoErrors++
			n.mu.Unlock()
			enc.Encode(newError("ERR " + perr)) //nolint:errcheck
			enc.Flush()                         //nolint:errcheck
			return
		}
		if len(args) == 0 {
			continue
		}
		reply := n.exec(args)
		if err := enc.Encode(reply); err != nil {
			return
		}
		if err := enc.Flush(); err != nil {
			return
		}
	}
}

func (n *hunt2Node) exec(args [][]byte) *RespValue {
	cmd := strings.ToLower(string(args[0]))
	n.mu.Lock()
	n.cmds = append(n.cmds, cmd)
	extra := n.extra
	n.mu.Unlock()
	if extra != nil {
		if r := extra(args); r != nil {
			return r
		}
	}
	switch cmd {
	case "readonly", "asking":
		return newSimpleString("OK")
	case "cluster":
		n.mu.Lock()
		txt := n.clusterText
		n.mu.Unlock()
		if txt == "" {
			return newError("ERR This instance has cluster support disabled")
		}
		return newBulkString(txt)
	case "set":
		if len(args) < 3 {
			return newError("ERR wrong number of arguments for 'set' command")
		}
		n.mu.Lock()
		n.strs[string(args[1])] = append([]byte{}, args[2]...)
		n.mu.Unlock()
		return newSimpleString("OK")
	case "get":
		if len(args) != 2 {
			return newError("ERR wrong number of arguments for 'get' command")
		}
		n.mu.Lock()
		d := n.slow[string(args[1])]
		n.mu.Unlock()
		if d > 0 {
			time.Sleep(d)
		}
		n.mu.Lock()
		v, ok := n.strs[string(args[1])]
		n.mu.Unlock()
		if !ok {
			return &RespValue{Type: BulkString}
		}
		return newBulkBytes(append([]byte{}, v...))
	case "hset":
		if len(args) < 4 || len(args)%2 != 0 {
			return newError("ERR wrong number of arguments for 'hset' command")
		}
		n.mu.Lock()
		h := n.hashes[string(args[1])]
		if h == nil {
			h = make(map[string][]byte)
			n.hashes[string(args[1])] = h
		}
		added := int64(0)
		for i := 2; i+1 < len(args); i += 2 {
			if _, ok := h[string(args[i])]; !ok {
				added++
			}
			h[string(args[i])] = append([]byte{}, args[i+1]...)
		}
		n.mu.Unlock()
		return newInteger(added)
	case "hget":
		if len(args) != 3 {
			return newError("ERR wrong number of arguments for 'hget' command")
		}
		n.mu.Lock()
		v, ok := n.hashes[string(args[1])][string(args[2])]
		n.mu.Unlock()
		if !ok {
			return &RespValue{Type: BulkString}
		}
		return newBulkBytes(append([]byte{}, v...))
	case "scan":
		if len(args) < 2 {
			return newError("ERR wrong number of arguments for 'scan' command")
		}
		cur, err := strconv.ParseUint(string(args[1]), 10, 64)
		n.mu.Lock()
		page, ok := n.scanPages[cur]
		n.mu.Unlock()
		if err != nil || !ok {
			return newError("ERR invalid cursor")
		}
		keys := make([]RespValue, 0, len(page.keys))
		for _, k := range page.keys {
			keys = append(keys, *newBulkString(k))
		}
		return newArray(*newBulkString(strconv.FormatUint(page.next, 10)), *newArray(keys...))
	default:
		return newError("ERR unknown command '" + cmd + "'")
	}
}

func (n *hunt2Node) ProtoErrors() int {
	n.mu.Lock()
	defer n.mu.Unlock()
	return n.protoErrors
}

func hunt2SvcConfig(option *protocol.RedisOption) *service.Config {
	return &service.Config{
		Listener: &service.Listener{
			Address: &common.Address{Ip: "127.0.0.1", Port: 0},
		},
		ConnectTimeout:  utils.DurationPtr(time.Second),
		IdleTimeout:     utils.DurationPtr(10 * time.Minute),
		Protocol:        protocol.Redis,
		ProtocolOptions: &service.Config_RedisOption{RedisOption: option},
	}
}

func newHunt2Proc(t *testing.T, option *protocol.RedisOption, hosts ...string) *redisProc {
	t.Helper()
	hs := make([]*host.Host, 0, len(hosts))
	for _, a := range hosts {
		hs = append(hs, host.New(a))
	}
	name := fmt.Sprintf("hunt2filt.%d", time.Now().UnixNano())
	p, err := newRedisProc(name, hunt2SvcConfig(option), hs,
		proc.NewStats(stats.CreateScope("service."+name)), log.New("["+name+"]"))
	if err != nil {
		t.Fatal(err)
	}
	return p
}

// hunt2Do sends one request through the real request path of the processor.
func hunt2Do(t *testing.T, p *redisProc, args ...string) *RespValue {
	t.Helper()
	raw := newRawRequest(newStringArray(args...))
	p.handleRequest(raw)
	select {
	case <-raw.done:
	case <-time.After(5 * time.Second):
		t.Fatalf("%.40q: no reply after 5s", args)
	}
	return raw.Response()
}

func hunt2Describe(v *RespValue) string {
	if v == nil {
		return "<nil>"
	}
	switch v.Type {
	case Error:
		return "error " + strconv.Quote(string(v.Text))
	case Integer:
		return strconv.FormatInt(v.Int, 10)
	case Array:
		s := "["
		for i := range v.Array {
			if i > 0 {
				s += " "
			}
			s += hunt2Describe(&v.Array[i])
		}
		return s + "]"
	default:
		if v.Text == nil {
			return "(nil)"
		}
		t := string(v.Text)
		if len(t) > 60 {
			return strconv.Quote(t[:60]) + fmt.Sprintf("...(%d bytes)", len(t))
		}
		return strconv.Quote(t)
	}
}

// hunt2Client is a downstream client on a real socket.
type hunt2Client struct {
	conn net.Conn
	dec  *decoder
}

func hunt2Dial(t *testing.T, addr string) *hunt2Client {
	t.Helper()
	conn, err := net.DialTimeout("tcp", addr, time.Second)
	if err != nil {
		t.Fatal(err)
	}
	return &hunt2Client{conn: conn, dec: newDecoder(conn, 4096)}
}

func (c *hunt2Client) Send(t *testing.T, raw string) {
	t.Helper()
	if _, err := c.conn.Write([]byte(raw)); err != nil {
		t.Fatal(err)
	}
}

func (c *hunt2Client) Recv(t *testing.T, what string) *RespValue {
	t.Helper()
	c.conn.SetReadDeadline(time.Now().Add(5 * time.Second)) //nolint:errcheck
	v, err := c.dec.Decode()
	if err != nil {
		t.Fatalf("%s: no reply: %v", what, err)
	}
	return v
}

// ---------------------------------------------------------------------------
// C11
// ---------------------------------------------------------------------------

func TestVerifHunt2FiltNullBulkArgumentReachesBackend(t *testing.T) {
	node := newHunt2Node(t)
	defer node.Close()
	node.strs["a"] = []byte("va")
	node.strs["b"] = []byte("vb")
	node.strs["slow"] = []byte("vs")
	node.slow["slow"] = 400 * time.Millisecond

	p := newHunt2Proc(t, &protocol.RedisOption{}, node.Addr())
	if err := p.Start(); err != nil {
		t.Fatal(err)
	}
	defer p.Stop() //nolint:errcheck
	// wait for the listener
	deadline := time.Now().Add(3 * time.Second)
	for {
		c, err := net.DialTimeout("tcp", p.Address(), 200*time.Millisecond)
		if err == nil {
			c.Close()
			break
		}
		if time.Now().After(deadline) {
			t.Fatalf("listener: %v", err)
		}
		time.Sleep(10 * time.Millisecond)
	}

	victim1 := hunt2Dial(t, p.Address())
	defer victim1.conn.Close()
	victim2 := hunt2Dial(t, p.Address())
	defer victim2.conn.Close()
	attacker := hunt2Dial(t, p.Address())
	defer attacker.conn.Close()

	// warm up: the backend connection exists, everybody is served.
	victim1.Send(t, "*2\r\n$3\r\nGET\r\n$1\r\na\r\n")
	if v := victim1.Recv(t, "warm-up GET a"); string(v.Text) != "va" {
		t.Fatalf("warm-up GET a = %s", hunt2Describe(v))
	}
	// let the start-up CLUSTER NODES attempts pass (they are answered with an error)
	time.Sleep(100 * time.Millisecond)

	// 1. a command that keeps the node busy for 400 ms: what follows waits in the
	//    node's socket buffer, as behind any slow command of a real node.
	victim1.Send(t, "*2\r\n$3\r\nGET\r\n$4\r\nslow\r\n")
	time.Sleep(60 * time.Millisecond)
	// 2. the attacker: GET with a null bulk string as key. Well-formed RESP, but
	//    not a command a Redis server accepts.
	attacker.Send(t, "*2\r\n$3\r\nGET\r\n$-1\r\n")
	time.Sleep(60 * time.Millisecond)
	// 3. another client, an ordinary request.
	victim2.Send(t, "*2\r\n$3\r\nGET\r\n$1\r\nb\r\n")

	rs := victim1.Recv(t, "GET slow")
	ra := attacker.Recv(t, "attacker's GET")
	rb := victim2.Recv(t, "GET b")
	t.Logf("GET slow -> %s", hunt2Describe(rs))
	t.Logf("attacker's GET $-1 -> %s", hunt2Describe(ra))
	t.Logf("GET b (other client) -> %s", hunt2Describe(rb))
	t.Logf("protocol errors seen by the node (each one closes the shared connection): %d", node.ProtoErrors())

	if ra.Type != Error {
		t.Errorf("the offending request was not answered with an error: %s", hunt2Describe(ra))
	}
	if n := node.ProtoErrors(); n != 0 {
		t.Errorf("the proxy forwarded a null bulk string ($-1) inside a command: the node saw %d protocol error(s) and closed the connection shared by all clients", n)
	}
	if rb.Type == Error || string(rb.Text) != "vb" {
		t.Errorf("GET b of an uninvolved client: got %s, want \"vb\" - it was lost with the backend connection the attacker's request made the node close", hunt2Describe(rb))
	}
}

// ---------------------------------------------------------------------------
// C13
// ---------------------------------------------------------------------------

func TestVerifHunt2FiltReadBackAfterCompressionSectionRemoved(t *testing.T) {
	node := newHunt2Node(t)
	defer node.Close()

	on := &protocol.RedisOption{Compression: &pbredis.Compression{
		Enable: true, Algorithm: pbredis.Compression_SNAPPY, Threshold: 64,
	}}
	p := newHunt2Proc(t, on, node.Addr())
	go p.u.Serve()
	defer p.u.Stop()

	value := strings.Repeat("0", 1024)
	hvalue := strings.Repeat("samaritan ", 100)

	if v := hunt2Do(t, p, "SET", "k", value); v.Type == Error {
		t.Fatalf("SET: %s", hunt2Describe(v))
	}
	if v := hunt2Do(t, p, "HSET", "h", "f", hvalue); v.Type == Error {
		t.Fatalf("HSET: %s", hunt2Describe(v))
	}
	node.mu.Lock()
	stored := append([]byte{}, node.strs["k"]...)
	node.mu.Unlock()
	if !bytes.HasPrefix(stored, cpsHdrs[pbredis.Compression_SNAPPY]) || len(stored) >= len(value) {
		t.Fatalf("precondition: the node should hold a frame, holds %d bytes %.20q", len(stored), stored)
	}
	if v := hunt2Do(t, p, "GET", "k"); string(v.Text) != value {
		t.Fatalf("GET while enabled: %s", hunt2Describe(v))
	}

	check := func(stage string) {
		t.Helper()
		if v := hunt2Do(t, p, "GET", "k"); string(v.Text) != value {
			t.Errorf("%s: GET k returned %s, want the 1024 bytes that were written", stage, hunt2Describe(v))
		}
		if v := hunt2Do(t, p, "HGET", "h", "f"); string(v.Text) != hvalue {
			t.Errorf("%s: HGET h f returned %s, want the 1000 bytes that were written", stage, hunt2Describe(v))
		}
	}

	// switched off with the flag: fine.
	off := &protocol.RedisOption{Compression: &pbredis.Compression{
		Enable: false, Algorithm: pbredis.Compression_SNAPPY, Threshold: 64,
	}}
	if err := p.OnSvcConfigUpdate(hunt2SvcConfig(off)); err != nil {
		t.Fatal(err)
	}
	check("compression switched off (enable=false)")

	// switched off by taking the section out again (the state every service
	// is in before compression is configured for the first time).
	if err := p.OnSvcConfigUpdate(hunt2SvcConfig(&protocol.RedisOption{})); err != nil {
		t.Fatal(err)
	}
	check("compression switched off (section removed)")
}

// ---------------------------------------------------------------------------
// C18
// ---------------------------------------------------------------------------

func TestVerifHunt2FiltScanAcrossFirstRoutingLoad(t *testing.T) {
	// TestScanRequestResponse (same binary) uses the global terminating reply as a
	// node's reply, whose cursor Convert's hook then rewrites in place; no product
	// path does that. Start from the real one.
	respScanTerm = newArray(*newBulkString("0"), *newArray([]RespValue{}...))

	// three nodes; the sorted addresses decide which one is the replica: the first
	// host is a replica of the last one.
	nodes := []*hunt2Node{newHunt2Node(t), newHunt2Node(t), newHunt2Node(t)}
	sort.Slice(nodes, func(i, j int) bool { return nodes[i].Addr() < nodes[j].Addr() })
	for _, n := range nodes {
		defer n.Close()
	}
	replica, m1, m2 := nodes[0], nodes[1], nodes[2]
	m1.scanPages = map[uint64]hunt2Page{0: {0, []string{"m1-key"}}}
	m2.scanPages = map[uint64]hunt2Page{0: {0, []string{"m2-key"}}}
	replica.scanPages = m2.scanPages // a replica holds what its master holds

	clusterNodes := fmt.Sprintf(
		"1111111111111111111111111111111111111111 %s@1 master - 0 0 1 connected 0-8191\n"+
			"2222222222222222222222222222222222222222 %s@1 master - 0 0 2 connected 8192-16383\n"+
			"3333333333333333333333333333333333333333 %s@1 slave 2222222222222222222222222222222222222222 0 0 2 connected\n",
		m1.Addr(), m2.Addr(), replica.Addr())
	for _, n := range nodes {
		n.clusterText = clusterNodes
		// the node takes 300 ms to answer the first CLUSTER NODES (a busy node, a
		// distant one, one that is still loading its data set, ...)
		n.extra = func(args [][]byte) *RespValue {
			if strings.EqualFold(string(args[0]), "cluster") {
				time.Sleep(300 * time.Millisecond)
			}
			return nil
		}
	}

	p := newHunt2Proc(t, &protocol.RedisOption{}, replica.Addr(), m1.Addr(), m2.Addr())
	go p.u.Serve() // what redisProc.Start does, next to starting the listener
	defer p.u.Stop()
	for i := 0; atomic.LoadInt32(&p.u.started) == 0; i++ {
		if i > 1000 {
			t.Fatal("upstream does not start")
		}
		time.Sleep(time.Millisecond)
	}

	seen := map[string]int{}
	calls, retries := 0, 0
	// scan is what a client does: one SCAN, tried again after a moment when the
	// answer is an error (as clients do for -LOADING, -TRYAGAIN, ...).
	scan := func(cursor string) string {
		for {
			v := hunt2Do(t, p, "SCAN", cursor)
			if v.Type == Error {
				if retries++; retries > 100 {
					t.Fatalf("SCAN %s: still %s", cursor, hunt2Describe(v))
				}
				time.Sleep(50 * time.Millisecond)
				continue
			}
			if v.Type != Array || len(v.Array) != 2 {
				t.Fatalf("SCAN reply: %s", hunt2Describe(v))
			}
			calls++
			for _, k := range v.Array[1].Array {
				seen[string(k.Text)]++
			}
			return string(v.Array[0].Text)
		}
	}

	// the client's first call arrives 50 ms after the start: the routing table has
	// not been loaded yet (listener and upstream are started concurrently).
	time.Sleep(50 * time.Millisecond)
	cursor := scan("0")
	// the client works on the first batch for a while; meanwhile the first
	// CLUSTER NODES answer arrives.
	time.Sleep(500 * time.Millisecond)
	for cursor != "0" {
		if calls > 20 {
			t.Fatalf("SCAN does not terminate, cursor %s", cursor)
		}
		cursor = scan(cursor)
	}
	t.Logf("iteration complete after %d calls (%d answered with an error and tried again), keys returned: %v", calls, retries, seen)
	for _, k := range []string{"m1-key", "m2-key"} {
		if seen[k] == 0 {
			t.Errorf("the iteration reached cursor 0 without ever returning %q, a key stored on a master of the (unchanging) cluster", k)
		}
	}
}
