package tcp

import (
	"fmt"
	"io"
	"net"
	"runtime/debug"
	"testing"
	"time"

	"github.com/samaritan-proxy/samaritan/host"
	"github.com/samaritan-proxy/samaritan/pb/common"
	"github.com/samaritan-proxy/samaritan/pb/config/hc"
	"github.com/samaritan-proxy/samaritan/pb/config/service"
)

// hunt2EchoServer accepts connections and echoes what it reads until EOF.
func hunt2EchoServer(t *testing.T) (addr string, stop func()) {
	ln, err := net.Listen("tcp", "127.0.0.1:0")
	if err != nil {
		t.Fatal(err)
	}
	go func() {
		for {
			c, err := ln.Accept()
			if err != nil {
				return
			}
			go func() {
				io.Copy(c, c)
				c.Close()
			}()
		}
	}()
	return ln.Addr().String(), func() { ln.Close() }
}

// A health check section without an explicit checker is valid (HealthCheck.Validate
// accepts it, hc.newChecker falls back to the TCP checker, the monitor's own default
// is built that way). A configuration update that changes such a health check (here:
// only its interval) must be applied while established relays keep working. On the
// current code hc.Monitor.ResetHealthCheck calls Equal on the nil checker interface
// and panics; in the product that panic is raised on the controller's event goroutine
// and takes the whole process, i.e. every relay of every service, down.
func TestVerifHunt2HealthCheckUpdateWithoutChecker(t *testing.T) {
	backend, stopBackend := hunt2EchoServer(t)
	defer stopBackend()

	idle := 10 * time.Minute
	cfg := newServiceConfig()
	cfg.IdleTimeout = &idle
	cfg.HealthCheck = &hc.HealthCheck{
		Interval:      time.Second,
		Timeout:       time.Second,
		FallThreshold: 3,
		RiseThreshold: 3,
		// no checker: TCP checker by default
	}
	if err := cfg.Validate(); err != nil {
		t.Fatalf("the starting configuration is supposed to be valid: %v", err)
	}

	testProc(t, cfg, []*host.Host{host.New(backend)}, func(p *tcpProc) {
		conn, err := net.Dial("tcp", p.Address())
		if err != nil {
			t.Fatal(err)
		}
		defer conn.Close()
		roundTrip := func(msg string) error {
			conn.SetDeadline(time.Now().Add(2 * time.Second))
			if _, err := conn.Write([]byte(msg)); err != nil {
				return err
			}
			buf := make([]byte, len(msg))
			if _, err := io.ReadFull(conn, buf); err != nil {
				return err
			}
			if string(buf) != msg {
				return fmt.Errorf("got %q, want %q", buf, msg)
			}
			return nil
		}
		if err := roundTrip("before"); err != nil {
			t.Fatalf("relay before the update: %v", err)
		}

		newCfg := newServiceConfig()
		newCfg.IdleTimeout = &idle
		newCfg.HealthCheck = &hc.HealthCheck{
			Interval:      2 * time.Second, // the only change
			Timeout:       time.Second,
			FallThreshold: 3,
			RiseThreshold: 3,
		}
		if err := newCfg.Validate(); err != nil {
			t.Fatalf("the new configuration is supposed to be valid: %v", err)
		}

		var (
			updateErr error
			panicked  interface{}
			stack     []byte
		)
		func() {
			defer func() {
				if r := recover(); r != nil {
					panicked = r
					stack = debug.Stack()
				}
			}()
			updateErr = p.OnSvcConfigUpdate(newCfg)
		}()
		if panicked != nil {
			t.Fatalf("OnSvcConfigUpdate with a valid health check (no explicit checker) panicked: %v\n"+
				"(the controller calls it on its event goroutine without recover: the process dies)\n%s", panicked, stack)
		}
		if updateErr != nil {
			t.Fatalf("OnSvcConfigUpdate: %v", updateErr)
		}
		if got := p.Config().GetHealthCheck().GetInterval(); got != 2*time.Second {
			t.Fatalf("the update was not applied: interval %v", got)
		}
		if err := roundTrip("after"); err != nil {
			t.Fatalf("relay after the update: %v", err)
		}
	})
}

func hunt2ListenerConfig(limit uint32) *service.Listener {
	return &service.Listener{
		Address:         &common.Address{Ip: "127.0.0.1", Port: 0},
		ConnectionLimit: limit,
	}
}

// hunt2Served tells whether a fresh connection through the proxy is relayed
// (echo answered) or turned away (closed without an answer).
func hunt2Served(t *testing.T, addr string) (net.Conn, bool) {
	conn, err := net.Dial("tcp", addr)
	if err != nil {
		t.Fatal(err)
	}
	conn.SetDeadline(time.Now().Add(2 * time.Second))
	if _, err := conn.Write([]byte("ping")); err != nil {
		conn.Close()
		return nil, false
	}
	buf := make([]byte, 4)
	if _, err := io.ReadFull(conn, buf); err != nil {
		conn.Close()
		return nil, false
	}
	return conn, true
}

// The connection limit is part of the service configuration, and a configuration
// update is accepted (nil error) and reported back by Config(). The listener keeps
// the *service.Listener section of the configuration the processor was built with,
// so the limit in force is the first one for ever:
//   - raised 1 -> 3: the 2nd and 3rd connection are under the configured limit and
//     are turned away;
//   - lowered 0 (none) -> 1: a 2nd connection exceeds the configured limit and is served.
func TestVerifHunt2ConnectionLimitUpdate(t *testing.T) {
	backend, stopBackend := hunt2EchoServer(t)
	defer stopBackend()
	idle := 10 * time.Minute

	t.Run("raised", func(t *testing.T) {
		cfg := newServiceConfig()
		cfg.HealthCheck = nil
		cfg.IdleTimeout = &idle
		cfg.Listener = hunt2ListenerConfig(1)
		testProc(t, cfg, []*host.Host{host.New(backend)}, func(p *tcpProc) {
			a, ok := hunt2Served(t, p.Address())
			if !ok {
				t.Fatal("first connection under limit 1 not served")
			}
			defer a.Close()
			if b, ok := hunt2Served(t, p.Address()); ok {
				b.Close()
				t.Fatal("second connection served under limit 1")
			}

			newCfg := newServiceConfig()
			newCfg.HealthCheck = nil
			newCfg.IdleTimeout = &idle
			newCfg.Listener = hunt2ListenerConfig(3)
			if err := p.OnSvcConfigUpdate(newCfg); err != nil {
				t.Fatalf("OnSvcConfigUpdate: %v", err)
			}
			if got := p.Config().GetListener().GetConnectionLimit(); got != 3 {
				t.Fatalf("configured limit is %d after the update", got)
			}
			for i := 2; i <= 3; i++ {
				c, ok := hunt2Served(t, p.Address())
				if !ok {
					t.Fatalf("connection %d turned away although the configured limit is 3 (cx_restricted=%d)",
						i, p.stats.Downstream.CxRestricted.Value())
				}
				defer c.Close()
			}
			if c, ok := hunt2Served(t, p.Address()); ok {
				c.Close()
				t.Fatal("a 4th connection served under limit 3")
			}
		})
	})

	t.Run("lowered", func(t *testing.T) {
		cfg := newServiceConfig()
		cfg.HealthCheck = nil
		cfg.IdleTimeout = &idle
		cfg.Listener = hunt2ListenerConfig(0)
		testProc(t, cfg, []*host.Host{host.New(backend)}, func(p *tcpProc) {
			newCfg := newServiceConfig()
			newCfg.HealthCheck = nil
			newCfg.IdleTimeout = &idle
			newCfg.Listener = hunt2ListenerConfig(1)
			if err := p.OnSvcConfigUpdate(newCfg); err != nil {
				t.Fatalf("OnSvcConfigUpdate: %v", err)
			}
			a, ok := hunt2Served(t, p.Address())
			if !ok {
				t.Fatal("first connection under limit 1 not served")
			}
			defer a.Close()
			if b, ok := hunt2Served(t, p.Address()); ok {
				b.Close()
				t.Fatalf("2 connections served at once although the configured limit is 1 (cx_active=%d)",
					p.stats.Downstream.CxActive.Value())
			}
		})
	})
}
