//go:build verif
// +build verif

package controller

// Hunting round 2, area "conf" (config store, discovery clients, controller, proc.New).
// Every test drives the REAL configuration store (through its three update
// handlers, re-exported under the verif tag), the REAL controller event loop and
// the REAL tcp / redis processors over loopback sockets.

import (
	"bufio"
	"fmt"
	"net"
	"strings"
	"testing"
	"time"

	"github.com/samaritan-proxy/samaritan/config"
	"github.com/samaritan-proxy/samaritan/pb/common"
	"github.com/samaritan-proxy/samaritan/pb/config/protocol"
	"github.com/samaritan-proxy/samaritan/pb/config/service"
)

// h2Backend answers every connection with "<tag>\r\n" as soon as it has read
// something, then keeps the connection open until the peer closes it.
type h2Backend struct {
	ln  net.Listener
	tag string
}

func newH2Backend(t *testing.T, tag string) *h2Backend {
	ln, err := net.Listen("tcp", "127.0.0.1:0")
	if err != nil {
		t.Fatal(err)
	}
	b := &h2Backend{ln: ln, tag: tag}
	go func() {
		for {
			conn, err := ln.Accept()
			if err != nil {
				return
			}
			go func(conn net.Conn) {
				defer conn.Close()
				buf := make([]byte, 4096)
				for {
					if _, err := conn.Read(buf); err != nil {
						return
					}
					if _, err := conn.Write([]byte(b.tag + "\r\n")); err != nil {
						return
					}
				}
			}(conn)
		}
	}()
	return b
}

func (b *h2Backend) endpoint(typ service.Endpoint_Type) *service.Endpoint {
	addr := b.ln.Addr().(*net.TCPAddr)
	return &service.Endpoint{
		Address: &common.Address{Ip: "127.0.0.1", Port: uint32(addr.Port)},
		Type:    typ,
	}
}

func h2FreePort(t *testing.T) uint32 {
	ln, err := net.Listen("tcp", "127.0.0.1:0")
	if err != nil {
		t.Fatal(err)
	}
	defer ln.Close()
	return uint32(ln.Addr().(*net.TCPAddr).Port)
}

func h2Config(port uint32, p protocol.Protocol) *service.Config {
	return &service.Config{
		Listener: &service.Listener{Address: &common.Address{Ip: "127.0.0.1", Port: port}},
		Protocol: p,
	}
}

// h2Ask sends one line to addr and returns the first line of the answer ("" and
// an error if the port does not accept or nothing comes back in time).
func h2Ask(addr, line string) (string, error) {
	conn, err := net.DialTimeout("tcp", addr, time.Second)
	if err != nil {
		return "", err
	}
	defer conn.Close()
	conn.SetDeadline(time.Now().Add(2 * time.Second))
	if _, err := conn.Write([]byte(line)); err != nil {
		return "", err
	}
	res, err := bufio.NewReader(conn).ReadString('\n')
	return strings.TrimSpace(res), err
}

// h2Eventually polls f for at most d.
func h2Eventually(d time.Duration, f func() bool) bool {
	deadline := time.Now().Add(d)
	for {
		if f() {
			return true
		}
		if time.Now().After(deadline) {
			return false
		}
		time.Sleep(50 * time.Millisecond)
	}
}

// h2Settled waits until the controller has taken every event out of the
// store's channel and has finished handling the last one: a barrier service is
// announced behind them and its processor awaited.
func h2Settled(t *testing.T, store *config.Config, ctl *Controller, n int) {
	name := fmt.Sprintf("barrier-%d", n)
	store.VerifDependencyUpdate([]*service.Service{{Name: name}}, nil)
	store.VerifSvcConfigUpdate(name, h2Config(h2FreePort(t), protocol.TCP))
	store.VerifSvcEndpointUpdate(name, []*service.Endpoint{
		{Address: &common.Address{Ip: "127.0.0.1", Port: 1}},
	}, nil)
	if !h2Eventually(5*time.Second, func() bool { _, ok := ctl.GetProc(name); return ok }) {
		t.Fatalf("the controller did not get to the barrier service %s", name)
	}
}

const h2Ping = "*1\r\n$4\r\nPING\r\n"

// Defect 1: a configuration update which changes the listener (or the protocol)
// of a running service is never applied.
func TestVerifHunt2ConfListenerOrProtocolChangeNeverApplied(t *testing.T) {
	t.Run("listener", func(t *testing.T) {
		store := config.VerifNewStore(64)
		ctl, _ := New(store.Subscribe())
		ctl.Start()
		defer ctl.Stop()

		backend := newH2Backend(t, "backend")
		defer backend.ln.Close()
		portA, portB := h2FreePort(t), h2FreePort(t)
		addrA := fmt.Sprintf("127.0.0.1:%d", portA)
		addrB := fmt.Sprintf("127.0.0.1:%d", portB)

		store.VerifDependencyUpdate([]*service.Service{{Name: "svc"}}, nil)
		store.VerifSvcConfigUpdate("svc", h2Config(portA, protocol.TCP))
		store.VerifSvcEndpointUpdate("svc", []*service.Endpoint{backend.endpoint(service.Endpoint_MAIN)}, nil)
		if !h2Eventually(5*time.Second, func() bool { res, _ := h2Ask(addrA, "x\r\n"); return res == "backend" }) {
			t.Fatalf("set-up: the service is not served on its first listener %s", addrA)
		}

		// the latest configuration: the same service listens on port B.
		store.VerifSvcConfigUpdate("svc", h2Config(portB, protocol.TCP))
		h2Settled(t, store, ctl, 1)

		servedOnB := h2Eventually(3*time.Second, func() bool { res, _ := h2Ask(addrB, "x\r\n"); return res == "backend" })
		resA, errA := h2Ask(addrA, "x\r\n")
		p, ok := ctl.GetProc("svc")
		if !ok {
			t.Fatalf("no processor for svc")
		}
		latest := store.VerifDump()["svc"].Config.Listener.Address
		if !servedOnB || errA == nil {
			t.Errorf("latest configuration of svc: listener %s:%d; the processor reports Config().Listener=%v but Address()=%s; "+
				"served on the new listener %s: %v; old listener %s still answers: %q (err %v)",
				latest.Ip, latest.Port, p.Config().GetListener().GetAddress(), p.Address(), addrB, servedOnB, addrA, resA, errA)
		}
	})

	t.Run("protocol", func(t *testing.T) {
		store := config.VerifNewStore(64)
		ctl, _ := New(store.Subscribe())
		ctl.Start()
		defer ctl.Stop()

		backend := newH2Backend(t, "-ERR answered by the backend")
		defer backend.ln.Close()
		port := h2FreePort(t)
		addr := fmt.Sprintf("127.0.0.1:%d", port)

		store.VerifDependencyUpdate([]*service.Service{{Name: "svc"}}, nil)
		store.VerifSvcConfigUpdate("svc", h2Config(port, protocol.TCP))
		store.VerifSvcEndpointUpdate("svc", []*service.Endpoint{backend.endpoint(service.Endpoint_MAIN)}, nil)
		if !h2Eventually(5*time.Second, func() bool { res, _ := h2Ask(addr, h2Ping); return strings.HasPrefix(res, "-ERR answered") }) {
			t.Fatalf("set-up: the service is not served as a TCP service on %s", addr)
		}

		// the latest configuration: the service is a Redis service. A Redis
		// processor answers PING itself, a TCP processor hands it to the backend.
		store.VerifSvcConfigUpdate("svc", h2Config(port, protocol.Redis))
		h2Settled(t, store, ctl, 1)

		var last string
		if !h2Eventually(3*time.Second, func() bool { last, _ = h2Ask(addr, h2Ping); return last == "+PONG" }) {
			p, _ := ctl.GetProc("svc")
			t.Errorf("latest configuration of svc: protocol %v; the processor reports Config().Protocol=%v, but PING is still answered by the backend through a TCP relay: %q",
				store.VerifDump()["svc"].Config.Protocol, p.Config().GetProtocol(), last)
		}
	})
}

// Defect 2: an endpoint update which announces a known address with another
// type (MAIN -> BACKUP) is dropped by the store; store and processor keep the
// old type for ever.
func TestVerifHunt2ConfEndpointTypeChangeDropped(t *testing.T) {
	store := config.VerifNewStore(64)
	ctl, _ := New(store.Subscribe())
	ctl.Start()
	defer ctl.Stop()

	b1, b2 := newH2Backend(t, "one"), newH2Backend(t, "two")
	defer b1.ln.Close()
	defer b2.ln.Close()
	port := h2FreePort(t)
	addr := fmt.Sprintf("127.0.0.1:%d", port)

	store.VerifDependencyUpdate([]*service.Service{{Name: "svc"}}, nil)
	store.VerifSvcConfigUpdate("svc", h2Config(port, protocol.TCP)) // ROUND_ROBIN
	store.VerifSvcEndpointUpdate("svc", []*service.Endpoint{
		b1.endpoint(service.Endpoint_MAIN), b2.endpoint(service.Endpoint_MAIN),
	}, nil)
	if !h2Eventually(5*time.Second, func() bool { res, _ := h2Ask(addr, "x\r\n"); return res != "" }) {
		t.Fatalf("set-up: the service is not served on %s", addr)
	}

	// the latest endpoint set: "one" is a backup now, "two" is the only main host.
	store.VerifSvcEndpointUpdate("svc", []*service.Endpoint{b1.endpoint(service.Endpoint_BACKUP)}, nil)
	h2Settled(t, store, ctl, 1)

	var stored service.Endpoint_Type
	for _, e := range store.VerifDump()["svc"].Endpoints {
		if e.Address.Equal(b1.endpoint(0).Address) {
			stored = e.Type
		}
	}
	hits := map[string]int{}
	for i := 0; i < 10; i++ {
		res, err := h2Ask(addr, "x\r\n")
		if err != nil {
			t.Fatalf("request %d: %v", i, err)
		}
		hits[res]++
	}
	if stored != service.Endpoint_BACKUP || hits["one"] != 0 {
		t.Errorf("endpoint 'one' was announced as BACKUP while main host 'two' is up: the store holds it as %v, "+
			"and of 10 connections %d went to 'one', %d to 'two' (want 0 / 10)", stored, hits["one"], hits["two"])
	}
}

// Defect 3: an endpoint without address (an Endpoint message without field 1 on
// the wire) is stored and announced; the controller dereferences the missing
// address in its only event loop.
func TestVerifHunt2ConfEndpointWithoutAddressKillsTheEventLoop(t *testing.T) {
	store := config.VerifNewStore(64)
	ctl, _ := New(store.Subscribe()) // not started: events are handled here, one by one, to catch the panic

	backend := newH2Backend(t, "backend")
	defer backend.ln.Close()

	store.VerifDependencyUpdate([]*service.Service{{Name: "good"}, {Name: "bad"}}, nil)
	store.VerifSvcConfigUpdate("good", h2Config(h2FreePort(t), protocol.TCP))
	store.VerifSvcConfigUpdate("bad", h2Config(h2FreePort(t), protocol.TCP))
	store.VerifSvcEndpointUpdate("good", []*service.Endpoint{backend.endpoint(service.Endpoint_MAIN)}, nil)
	store.VerifSvcEndpointUpdate("bad", []*service.Endpoint{{}}, nil) // no address
	store.VerifSvcEndpointUpdate("bad", []*service.Endpoint{backend.endpoint(service.Endpoint_MAIN)}, nil)

	evts := store.Subscribe()
	for len(evts) > 0 {
		evt := <-evts
		func() {
			defer func() {
				if r := recover(); r != nil {
					t.Errorf("handling %T%+v panicked in the controller's event loop (the process would be gone): %v", evt, evt, r)
				}
			}()
			ctl.VerifHandleEvent(evt)
		}()
	}
	for _, p := range ctl.GetAllProcs() {
		p.Stop()
	}
	if _, ok := ctl.GetProc("good"); !ok {
		t.Errorf("service 'good' has no processor")
	}
}
