package redis

import (
	"bytes"
	"fmt"
	"net"
	"runtime"
	"strings"
	"sync"
	"sync/atomic"
	"testing"
	"time"

	"github.com/samaritan-proxy/samaritan/host"
	"github.com/samaritan-proxy/samaritan/pb/common"
	"github.com/samaritan-proxy/samaritan/pb/config/protocol"
	"github.com/samaritan-proxy/samaritan/pb/config/service"
	"github.com/samaritan-proxy/samaritan/proc"
	"github.com/samaritan-proxy/samaritan/proc/internal/log"
	"github.com/samaritan-proxy/samaritan/stats"
	"github.com/samaritan-proxy/samaritan/utils"
)

// hunt2SessBackend is a scripted Redis node: every decoded request is handed to
// reply, whose result (if any) is written back.
type hunt2SessBackend struct {
	l     net.Listener
	mu    sync.Mutex
	conns []net.Conn
}

func newHunt2SessBackend(t *testing.T, reply func(req *RespValue) []byte) *hunt2SessBackend {
	l, err := net.Listen("tcp", "127.0.0.1:0")
	if err != nil {
		t.Fatal(err)
	}
	b := &hunt2SessBackend{l: l}
	go func() {
		for {
			conn, err := l.Accept()
			if err != nil {
				return
			}
			b.mu.Lock()
			b.conns = append(b.conns, conn)
			b.mu.Unlock()
			go func(conn net.Conn) {
				dec := newDecoder(conn, 4096)
				for {
					v, err := dec.Decode()
					if err != nil {
						return
					}
					if out := reply(v); out != nil {
						if _, err := conn.Write(out); err != nil {
							return
						}
					}
				}
			}(conn)
		}
	}()
	return b
}

func (b *hunt2SessBackend) Addr() string { return b.l.Addr().String() }

func (b *hunt2SessBackend) Close() {
	b.l.Close()
	b.mu.Lock()
	for _, c := range b.conns {
		c.Close()
	}
	b.mu.Unlock()
}

// hunt2SessKey returns a key (with the given prefix) whose slot lies in [lo, hi].
func hunt2SessKey(prefix string, n *int, lo, hi int) string {
	for {
		*n++
		k := fmt.Sprintf("%s%d", prefix, *n)
		if s := int(crc16([]byte(k)) & (slotNum - 1)); lo <= s && s <= hi {
			return k
		}
	}
}

func hunt2SessStacks(substrs ...string) []string {
	buf := make([]byte, 4<<20)
	buf = buf[:runtime.Stack(buf, true)]
	var out []string
next:
	for _, g := range strings.Split(string(buf), "\n\n") {
		for _, s := range substrs {
			if !strings.Contains(g, s) {
				continue next
			}
		}
		lines := strings.Split(g, "\n")
		if len(lines) > 14 {
			lines = lines[:14]
		}
		out = append(out, strings.Join(lines, "\n"))
	}
	return out
}

// A cluster of one silent node S (it reads, but neither answers nor hangs up: a
// node stuck in a long script, a stopped process) and a few nodes A1..Ak that
// are migrating a slot to S and therefore answer -ASK <slot> <S>.
//
// 1. One downstream connection sends an MGET of 2100 keys that live on S. After
//    1024 + 1 + 1024 per-key requests the queues of the connection to S are full;
//    the session's reader waits for room in client.send - holding the read side
//    of that connection's groupMu (client.Send).
// 2. Another downstream connection sends one GET per node Ai. Each Ai answers
//    -ASK: the read loop of the connection to Ai follows the redirection and
//    calls Send(ASKING, GET) of the connection to S, i.e. groupMu.Lock() - and
//    waits there for the session of step 1, which waits for S. That wait looks
//    at nothing: not at the quit latch of the connection to Ai, which the
//    repair of F-09j (9cd2b0b, request.abort) made Send give up on.
// 3. The host A1 is removed, then the service is stopped. Both must return.
func TestVerifHunt2SessAskFollowerWaitsForGroupLock(t *testing.T) {
	const askers = 4

	silent := newHunt2SessBackend(t, func(*RespValue) []byte { return nil })
	defer silent.Close()
	ask := []byte(fmt.Sprintf("-ASK 1 %s\r\n", silent.Addr()))

	var (
		hosts    []*host.Host
		backends []*hunt2SessBackend
		nodes    bytes.Buffer // CLUSTER NODES
		nodesMu  sync.Mutex
		served   int32 // CLUSTER NODES replies handed out
	)
	for i := 0; i < askers; i++ {
		b := newHunt2SessBackend(t, func(req *RespValue) []byte {
			if len(req.Array) > 0 {
				switch strings.ToLower(string(req.Array[0].Text)) {
				case "readonly":
					return []byte("+OK\r\n")
				case "cluster":
					atomic.AddInt32(&served, 1)
					nodesMu.Lock()
					defer nodesMu.Unlock()
					return []byte(fmt.Sprintf("$%d\r\n%s\r\n", nodes.Len(), nodes.String()))
				}
			}
			return ask
		})
		backends = append(backends, b)
		hosts = append(hosts, host.New(b.Addr()))
	}
	defer func() {
		for _, b := range backends {
			b.Close()
		}
	}()
	// Ai owns the slots i*1000 .. i*1000+999, S owns 8192..16383.
	nodesMu.Lock()
	for i, b := range backends {
		fmt.Fprintf(&nodes, "%040d %s master - 0 1528688887753 7 connected %d-%d\n", i+1, b.Addr(), i*1000, i*1000+999)
	}
	fmt.Fprintf(&nodes, "%040d %s master - 0 1528688887753 7 connected 8192-16383\n", 99, silent.Addr())
	nodesMu.Unlock()

	pl, err := net.Listen("tcp", "127.0.0.1:0")
	if err != nil {
		t.Fatal(err)
	}
	port := pl.Addr().(*net.TCPAddr).Port
	pl.Close()

	svcCfg := &service.Config{
		Listener: &service.Listener{
			Address: &common.Address{Ip: "127.0.0.1", Port: uint32(port)},
		},
		ConnectTimeout:  utils.DurationPtr(time.Second),
		Protocol:        protocol.Redis,
		ProtocolOptions: &service.Config_RedisOption{RedisOption: &protocol.RedisOption{}},
	}
	p, err := newRedisProc("hunt2sess", svcCfg, hosts,
		proc.NewStats(stats.CreateScope("service.hunt2sess")), log.New("[hunt2sess]"))
	if err != nil {
		t.Fatal(err)
	}
	if err := p.Start(); err != nil {
		t.Fatal(err)
	}
	stopped := make(chan struct{})
	cleanup := func() {
		// let everything go so that the test binary can finish.
		silent.Close()
		select {
		case <-stopped:
		default:
			go p.Stop()
		}
	}

	// wait for the routing table.
	deadline := time.Now().Add(10 * time.Second)
	for atomic.LoadInt32(&served) == 0 {
		if time.Now().After(deadline) {
			t.Fatal("setup: the routing table was never asked for")
		}
		time.Sleep(20 * time.Millisecond)
	}
	time.Sleep(300 * time.Millisecond) // the reply is parsed and stored

	dial := func() net.Conn {
		addr := fmt.Sprintf("127.0.0.1:%d", port)
		var conn net.Conn
		for try := 0; try < 100; try++ {
			if conn, err = net.Dial("tcp", addr); err == nil {
				return conn
			}
			time.Sleep(20 * time.Millisecond)
		}
		t.Fatal(err)
		return nil
	}

	// step 1: fill the connection to S from a session.
	const keys = 2100
	var mget bytes.Buffer
	fmt.Fprintf(&mget, "*%d\r\n$4\r\nMGET\r\n", keys+1)
	n := 0
	for i := 0; i < keys; i++ {
		k := hunt2SessKey("s", &n, 8192, 16383)
		fmt.Fprintf(&mget, "$%d\r\n%s\r\n", len(k), k)
	}
	c1 := dial()
	defer c1.Close()
	if _, err := c1.Write(mget.Bytes()); err != nil {
		t.Fatal(err)
	}
	deadline = time.Now().Add(20 * time.Second)
	for {
		c, ok := p.u.loadClients()[silent.Addr()]
		if ok && len(c.pendingReqs) == cap(c.pendingReqs) && len(c.processingReqs) == cap(c.processingReqs) {
			break
		}
		if time.Now().After(deadline) {
			cleanup()
			t.Fatalf("setup: the silent node's connection never filled up")
		}
		time.Sleep(20 * time.Millisecond)
	}
	time.Sleep(200 * time.Millisecond)

	// step 2: one GET per asking node, from another downstream connection.
	c2 := dial()
	defer c2.Close()
	var gets bytes.Buffer
	for i := 0; i < askers; i++ {
		m := 0
		k := hunt2SessKey(fmt.Sprintf("a%d-", i), &m, i*1000, i*1000+999)
		fmt.Fprintf(&gets, "*2\r\n$3\r\nGET\r\n$%d\r\n%s\r\n", len(k), k)
	}
	if _, err := c2.Write(gets.Bytes()); err != nil {
		t.Fatal(err)
	}
	deadline = time.Now().Add(10 * time.Second)
	for len(hunt2SessStacks("handleRedirection", "(*client).Send")) < askers {
		if time.Now().After(deadline) {
			cleanup()
			t.Fatalf("setup: the read loops never followed the redirections")
		}
		time.Sleep(20 * time.Millisecond)
	}
	time.Sleep(200 * time.Millisecond)

	// step 3a: remove the host A1 (what the controller does on an endpoint
	// update, in its only event loop).
	removed := make(chan struct{})
	go func() {
		p.OnSvcHostRemove([]*host.Host{host.New(backends[0].Addr())})
		close(removed)
	}()
	failed := false
	select {
	case <-removed:
	case <-time.After(5 * time.Second):
		failed = true
		t.Errorf("the removal of a host did not return within 5s (S stays silent):\n%s",
			strings.Join(hunt2SessStacks("handleRedirection", "(*client).Send"), "\n\n"))
	}

	// step 3b: stop the service.
	go func() {
		p.Stop()
		close(stopped)
	}()
	select {
	case <-stopped:
	case <-time.After(5 * time.Second):
		failed = true
		t.Errorf("Stop of the Redis service did not return within 5s; stuck:\n%s",
			strings.Join(hunt2SessStacks("(*client).Stop"), "\n\n"))
	}
	if failed {
		silent.Close()
		select {
		case <-stopped:
		case <-time.After(10 * time.Second):
			t.Errorf("Stop did not even return after the silent node hung up")
		}
	}
}
