package redis

// Hunting round 2, area "upstream side of the Redis proxy".
//
// TestVerifHunt2UpstRefreshWedgedBySilentNode
//	the slot refresher waits without limit for the CLUSTER NODES answer of the node it
//	picked; a node that is frozen (connection open, bytes acknowledged by its kernel,
//	nothing answered - a stopped process, a frozen VM: the usual reason for a failover)
//	wedges it for good. The failover that replaces that very node is never learned:
//	every later request for its slots is sent to the frozen node although the new
//	owner is up.
//
// TestVerifHunt2UpstFailedReplicaKeepsGettingReads
//	parseClusterNodes ignores the flags column: a replica the cluster itself reports as
//	failed ("slave,fail") stays a read candidate. Under the REPLICA strategy with that
//	one replica every read is answered with a connect error, for ever, although the
//	owning master is up and chooseHost has a fall-back to the master for "no replica".
//
// TestVerifHunt2UpstDemotedMasterKeepsServingReads
//	every backend connection is put into READONLY mode when it is made ("harmless to the
//	master node"). It stops being harmless when the master is demoted: after a manual
//	failover (CLUSTER FAILOVER: the roles swap, both nodes stay up, the connection
//	stays) the former master answers the reads of that connection itself instead of
//	MOVED. Under the MASTER strategy and read traffic nothing ever redirects, nothing
//	triggers a refresh: the reads are executed by a replica until the periodic refresh.
//
// All tests drive a real redisProc (listener, sessions, upstream) through its sockets;
// the nodes are small in-process fakes that speak RESP and behave like Redis Cluster
// nodes for GET/SET/READONLY/CLUSTER NODES.

import (
	"bytes"
	"fmt"
	"net"
	"strings"
	"sync"
	"testing"
	"time"

	"github.com/samaritan-proxy/samaritan/host"
	"github.com/samaritan-proxy/samaritan/pb/common"
	"github.com/samaritan-proxy/samaritan/pb/config/protocol"
	pbredis "github.com/samaritan-proxy/samaritan/pb/config/protocol/redis"
	"github.com/samaritan-proxy/samaritan/pb/config/service"
	"github.com/samaritan-proxy/samaritan/proc"
	"github.com/samaritan-proxy/samaritan/proc/internal/log"
	"github.com/samaritan-proxy/samaritan/stats"
	"github.com/samaritan-proxy/samaritan/utils"
)

// ---------------------------------------------------------------------------
// a small fake cluster: the slot space is cut in two halves, each owned by one node.

type h2Cluster struct {
	mu      sync.Mutex
	nodes   []*h2Node
	owner   [2]int      // owner[h] = index of the master of half h (0: 0-8191, 1: 8192-16383), -1: nobody
	replOf  map[int]int // replica index -> master index
	failed  map[int]bool
	store   map[string][]byte // the data (replication is instantaneous)
	cmdSeq  int
	stopped bool
}

type h2Entry struct {
	seq int
	cmd string
}

type h2Node struct {
	c      *h2Cluster
	idx    int
	ln     net.Listener
	addr   string
	frozen bool // reads everything, answers nothing, keeps its connections
	down   bool
	log    []h2Entry
	moved  int
	conns  []net.Conn
}

func newH2Cluster(t *testing.T, n int) *h2Cluster {
	t.Helper()
	c := &h2Cluster{
		owner:  [2]int{-1, -1},
		replOf: make(map[int]int),
		failed: make(map[int]bool),
		store:  make(map[string][]byte),
	}
	for i := 0; i < n; i++ {
		ln, err := net.Listen("tcp", "127.0.0.1:0")
		if err != nil {
			t.Fatal(err)
		}
		nd := &h2Node{c: c, idx: i, ln: ln, addr: ln.Addr().String()}
		c.nodes = append(c.nodes, nd)
		go nd.accept()
	}
	return c
}

func (c *h2Cluster) close() {
	c.mu.Lock()
	c.stopped = true
	var conns []net.Conn
	for _, n := range c.nodes {
		n.ln.Close()
		conns = append(conns, n.conns...)
	}
	c.mu.Unlock()
	for _, cn := range conns {
		cn.Close()
	}
}

// crash takes node i down for good: listener and connections closed.
func (c *h2Cluster) crash(i int) {
	c.mu.Lock()
	n := c.nodes[i]
	n.down = true
	n.ln.Close()
	conns := n.conns
	n.conns = nil
	c.mu.Unlock()
	for _, cn := range conns {
		cn.Close()
	}
}

func (n *h2Node) accept() {
	for {
		conn, err := n.ln.Accept()
		if err != nil {
			return
		}
		n.c.mu.Lock()
		if n.down || n.c.stopped {
			n.c.mu.Unlock()
			conn.Close()
			continue
		}
		n.conns = append(n.conns, conn)
		n.c.mu.Unlock()
		go n.serve(conn)
	}
}

func (n *h2Node) serve(conn net.Conn) {
	defer conn.Close()
	dec := newDecoder(conn, 4096)
	readonly := false
	for {
		v, err := dec.Decode()
		if err != nil {
			return
		}
		if v.Type != Array || len(v.Array) == 0 {
			return
		}
		reply := n.exec(v, &readonly)
		if reply == nil {
			continue // frozen: nothing is answered, the connection stays
		}
		if _, err := conn.Write(encode(reply)); err != nil {
			return
		}
	}
}

func h2Slot(key []byte) int { return int(crc16(hashtag(key)) & (slotNum - 1)) }

func (n *h2Node) exec(v *RespValue, readonly *bool) *RespValue {
	c := n.c
	c.mu.Lock()
	defer c.mu.Unlock()
	cmd := strings.ToLower(string(v.Array[0].Text))
	c.cmdSeq++
	n.log = append(n.log, h2Entry{seq: c.cmdSeq, cmd: cmd})
	if n.frozen {
		return nil
	}
	switch cmd {
	case "readonly":
		*readonly = true
		return newSimpleString("OK")
	case "readwrite":
		*readonly = false
		return newSimpleString("OK")
	case "asking":
		return newSimpleString("OK")
	case "cluster":
		return newBulkString(c.nodesTextLocked())
	case "get", "set":
	default:
		return newError("ERR unknown command '" + cmd + "'")
	}
	key := v.Array[1].Text
	slot := h2Slot(key)
	own := c.owner[slot/8192]
	_, iAmReplica := c.replOf[n.idx]
	serveHere := own == n.idx && !iAmReplica
	// a replica serves the reads of a READONLY connection for the slots of its master
	// (cluster.c, getNodeByQuery: CLIENT_READONLY && !is_write_command && myself->slaveof == n).
	if !serveHere && iAmReplica && *readonly && cmd == "get" && c.replOf[n.idx] == own {
		serveHere = true
	}
	if !serveHere {
		if own < 0 {
			return newError("CLUSTERDOWN Hash slot not served")
		}
		n.moved++
		return newError(fmt.Sprintf("MOVED %d %s", slot, c.nodes[own].addr))
	}
	if cmd == "set" {
		c.store[string(key)] = append([]byte{}, v.Array[2].Text...)
		return newSimpleString("OK")
	}
	val, ok := c.store[string(key)]
	if !ok {
		return newNullBulkString()
	}
	return newBulkBytes(val)
}

// nodesTextLocked renders CLUSTER NODES the way Redis does (the view is the same on every node).
func (c *h2Cluster) nodesTextLocked() string {
	var b strings.Builder
	id := func(i int) string { return fmt.Sprintf("%040d", i+1) }
	for i, n := range c.nodes {
		port := n.addr[strings.LastIndex(n.addr, ":")+1:]
		link := "connected"
		fail := ""
		if c.failed[i] {
			fail, link = ",fail", "disconnected"
		}
		if m, isReplica := c.replOf[i]; isReplica {
			fmt.Fprintf(&b, "%s %s@1%s slave%s %s 0 1528688887753 %d %s\n", id(i), n.addr, port, fail, id(m), m+1, link)
			continue
		}
		fmt.Fprintf(&b, "%s %s@1%s master%s - 0 1528688887753 %d %s", id(i), n.addr, port, fail, i+1, link)
		if c.owner[0] == i {
			b.WriteString(" 0-8191")
		}
		if c.owner[1] == i {
			b.WriteString(" 8192-16383")
		}
		b.WriteString("\n")
	}
	return b.String()
}

// count returns how many times node i received cmd with a sequence number above seq.
func (c *h2Cluster) count(i int, cmd string, seq int) int {
	c.mu.Lock()
	defer c.mu.Unlock()
	k := 0
	for _, e := range c.nodes[i].log {
		if e.seq > seq && e.cmd == cmd {
			k++
		}
	}
	return k
}

func (c *h2Cluster) seq() int {
	c.mu.Lock()
	defer c.mu.Unlock()
	return c.cmdSeq
}

// ---------------------------------------------------------------------------
// the proxy under test and a downstream client

func h2StartProc(t *testing.T, name string, strategy pbredis.ReadStrategy, addrs ...string) *redisProc {
	t.Helper()
	cfg := &service.Config{
		Listener: &service.Listener{
			Address: &common.Address{Ip: "127.0.0.1", Port: 0},
		},
		ConnectTimeout: utils.DurationPtr(500 * time.Millisecond),
		IdleTimeout:    utils.DurationPtr(10 * time.Minute),
		Protocol:       protocol.Redis,
		ProtocolOptions: &service.Config_RedisOption{RedisOption: &protocol.RedisOption{
			ReadStrategy: strategy,
		}},
	}
	var hosts []*host.Host
	for _, a := range addrs {
		hosts = append(hosts, host.New(a))
	}
	p, err := newRedisProc(name, cfg, hosts, proc.NewStats(stats.CreateScope("service."+name)), log.New("["+name+"]"))
	if err != nil {
		t.Fatal(err)
	}
	if err := p.Start(); err != nil {
		t.Fatal(err)
	}
	deadline := time.Now().Add(5 * time.Second)
	for {
		if a := p.Address(); a != "" {
			if cn, err := net.Dial("tcp", a); err == nil {
				cn.Close()
				break
			}
		}
		if time.Now().After(deadline) {
			t.Fatal("the proxy does not listen")
		}
		time.Sleep(10 * time.Millisecond)
	}
	return p
}

func h2StopProc(t *testing.T, p *redisProc) {
	done := make(chan struct{})
	go func() {
		p.Stop() //nolint:errcheck
		close(done)
	}()
	select {
	case <-done:
	case <-time.After(10 * time.Second):
		t.Log("note: Stop of the proxy did not return within 10 s")
	}
}

// h2Do sends one command over a new downstream connection and returns the reply,
// or an error when none arrives within wait.
func h2Do(addr string, wait time.Duration, args ...string) (*RespValue, error) {
	conn, err := net.DialTimeout("tcp", addr, time.Second)
	if err != nil {
		return nil, err
	}
	defer conn.Close()
	if _, err := conn.Write(encode(newStringArray(args...))); err != nil {
		return nil, err
	}
	conn.SetReadDeadline(time.Now().Add(wait)) //nolint:errcheck
	return newDecoder(conn, 4096).Decode()
}

func h2Show(v *RespValue, err error) string {
	if err != nil {
		return "no reply: " + err.Error()
	}
	switch v.Type {
	case Error:
		return "-" + string(v.Text)
	case SimpleString:
		return "+" + string(v.Text)
	case BulkString:
		if v.Text == nil {
			return "(nil)"
		}
		return fmt.Sprintf("%q", v.Text)
	}
	return fmt.Sprintf("%v", v)
}

// h2Key returns a key of the wanted half of the slot space.
func h2Key(half int) string {
	for i := 0; ; i++ {
		k := fmt.Sprintf("key%d", i)
		if h2Slot([]byte(k))/8192 == half {
			return k
		}
	}
}

func h2WaitTable(t *testing.T, p *redisProc) {
	t.Helper()
	deadline := time.Now().Add(10 * time.Second)
	for p.u.slots[0] == nil || p.u.slots[slotNum-1] == nil {
		if time.Now().After(deadline) {
			t.Fatal("the routing table was never loaded")
		}
		time.Sleep(20 * time.Millisecond)
	}
}

func h2Timers(freq, minRate time.Duration) func() {
	f, m := slotsRefFreq, slotsRefMinRate
	slotsRefFreq, slotsRefMinRate = freq, minRate
	return func() { slotsRefFreq, slotsRefMinRate = f, m }
}

// ---------------------------------------------------------------------------

// Layout: node 0 = master of 0-8191, node 1 = its replica, node 2 = master of 8192-16383;
// all three are hosts of the service. Node 0 freezes. The periodic refresh (period
// shortened to 150 ms) sooner or later asks node 0 for CLUSTER NODES - the test waits
// until it has. Then the cluster fails over: node 1 owns 0-8191, node 0 is "master,fail".
// From here on every reachable node reports the new layout and the new owner is up, so
// within a bounded number of refresh periods a GET for a key of 0-8191 has to be served.
func TestVerifHunt2UpstRefreshWedgedBySilentNode(t *testing.T) {
	defer h2Timers(150*time.Millisecond, 50*time.Millisecond)()

	c := newH2Cluster(t, 3)
	defer c.close()
	c.owner = [2]int{0, 2}
	c.replOf[1] = 0

	p := h2StartProc(t, "hunt2wedge", pbredis.ReadStrategy_MASTER, c.nodes[0].addr, c.nodes[1].addr, c.nodes[2].addr)
	defer h2StopProc(t, p)
	h2WaitTable(t, p)

	key := h2Key(0)
	if v, err := h2Do(p.Address(), 2*time.Second, "set", key, "v1"); err != nil || v.Type != SimpleString {
		t.Fatalf("SET before the fault: %s", h2Show(v, err))
	}

	// node 0 freezes.
	c.mu.Lock()
	c.nodes[0].frozen = true
	frozenAt := c.cmdSeq
	c.mu.Unlock()

	// wait until a refresh round has picked the frozen node (each round picks one of the
	// three hosts at random; rounds that pick another node succeed and change nothing).
	deadline := time.Now().Add(30 * time.Second)
	for c.count(0, "cluster", frozenAt) == 0 {
		if time.Now().After(deadline) {
			t.Skip("inconclusive: no refresh round picked the frozen node within 30 s")
		}
		time.Sleep(20 * time.Millisecond)
	}

	// the cluster fails over: node 1 takes the slots of node 0.
	c.mu.Lock()
	delete(c.replOf, 1)
	c.owner[0] = 1
	c.failed[0] = true
	failoverAt := c.cmdSeq
	c.mu.Unlock()
	t0 := time.Now()

	// a client asks for the key, once every 250 ms, each time over a new connection.
	const observe = 40 * time.Second
	probes := 0
	var last string
	for time.Since(t0) < observe {
		probes++
		v, err := h2Do(p.Address(), time.Second, "get", key)
		last = h2Show(v, err)
		if err == nil && v.Type == BulkString && bytes.Equal(v.Text, []byte("v1")) {
			t.Logf("served by the new owner %.1f s after the failover (probe %d)", time.Since(t0).Seconds(), probes)
			return
		}
		time.Sleep(250 * time.Millisecond)
	}
	inst := p.u.slots[h2Slot([]byte(key))]
	t.Fatalf("%d GETs in the %v after the failover, none served (last: %s); the routing table still names %s (frozen node %s, new owner %s); "+
		"CLUSTER NODES requests since the failover: %d to node 1, %d to node 2, with a refresh period of %v: the refresher is still waiting for the frozen node's answer",
		probes, observe, last, inst.Addr, c.nodes[0].addr, c.nodes[1].addr,
		c.count(1, "cluster", failoverAt), c.count(2, "cluster", failoverAt), slotsRefFreq)
}

// Layout after a failover and a crash: node 1 (the promoted replica) is the master of all
// slots and up; node 0, the former master, had come back as its replica and then died:
// CLUSTER NODES lists it as "slave,fail". Read strategy REPLICA. A single Redis server
// answers every GET with the value; the owning node is reachable, the cluster is not down.
func TestVerifHunt2UpstFailedReplicaKeepsGettingReads(t *testing.T) {
	defer h2Timers(150*time.Millisecond, 50*time.Millisecond)()

	c := newH2Cluster(t, 2)
	defer c.close()
	// node 0 is the master of everything, node 1 its replica.
	c.owner = [2]int{0, 0}
	c.replOf[1] = 0

	p := h2StartProc(t, "hunt2failrep", pbredis.ReadStrategy_REPLICA, c.nodes[0].addr, c.nodes[1].addr)
	defer h2StopProc(t, p)
	h2WaitTable(t, p)

	key := h2Key(1)
	if v, err := h2Do(p.Address(), 2*time.Second, "set", key, "v1"); err != nil || v.Type != SimpleString {
		t.Fatalf("SET before the faults: %s", h2Show(v, err))
	}
	if v, err := h2Do(p.Address(), 2*time.Second, "get", key); err != nil || !bytes.Equal(v.Text, []byte("v1")) {
		t.Fatalf("GET before the faults: %s", h2Show(v, err))
	}

	// failover: node 1 is promoted, node 0 becomes its replica ...
	c.mu.Lock()
	delete(c.replOf, 1)
	c.owner = [2]int{1, 1}
	c.replOf[0] = 1
	c.mu.Unlock()
	// ... and then dies for good; the cluster marks it failed.
	c.crash(0)
	c.mu.Lock()
	c.failed[0] = true
	crashedAt := c.cmdSeq
	c.mu.Unlock()

	// let the proxy load the new layout (several refresh rounds have asked node 1 since).
	deadline := time.Now().Add(20 * time.Second)
	for c.count(1, "cluster", crashedAt) < 3 {
		if time.Now().After(deadline) {
			t.Fatal("no refresh after the crash")
		}
		// traffic makes the proxy notice the dead node (a failed connect triggers a refresh).
		h2Do(p.Address(), time.Second, "get", key) //nolint:errcheck
		time.Sleep(100 * time.Millisecond)
	}
	inst := p.u.slots[h2Slot([]byte(key))]
	if inst == nil || inst.Addr != c.nodes[1].addr {
		t.Fatalf("the routing table does not name the new master: %+v", inst)
	}

	const n = 20
	bad := 0
	var sample string
	for i := 0; i < n; i++ {
		v, err := h2Do(p.Address(), 2*time.Second, "get", key)
		if err != nil || v.Type != BulkString || !bytes.Equal(v.Text, []byte("v1")) {
			bad++
			sample = h2Show(v, err)
		}
	}
	if bad != 0 {
		var reps []string
		for _, r := range inst.Replicas {
			reps = append(reps, r.Addr)
		}
		t.Fatalf("%d of %d GETs were not answered with the value (e.g. %s) although the owning master %s is up and served CLUSTER NODES %d times since the crash; "+
			"read candidates of the slot: replicas %v - the node the cluster reports as slave,fail",
			bad, n, sample, c.nodes[1].addr, c.count(1, "cluster", crashedAt), reps)
	}
}

// Layout: node 0 = master of all slots, node 1 = its replica, read strategy MASTER, the
// refresh period at its product value (2 min). A manual failover swaps the roles; both
// nodes stay up, so the proxy's connection to node 0 (in READONLY mode, like every
// backend connection) stays too. The fake answers as Redis does: a replica executes the
// read-only commands of a READONLY connection for its master's slots, everything else
// is answered MOVED.
func TestVerifHunt2UpstDemotedMasterKeepsServingReads(t *testing.T) {
	defer h2Timers(2*time.Minute, 50*time.Millisecond)()

	c := newH2Cluster(t, 2)
	defer c.close()
	c.owner = [2]int{0, 0}
	c.replOf[1] = 0

	p := h2StartProc(t, "hunt2demoted", pbredis.ReadStrategy_MASTER, c.nodes[0].addr, c.nodes[1].addr)
	defer h2StopProc(t, p)
	h2WaitTable(t, p)

	key := h2Key(0)
	if v, err := h2Do(p.Address(), 2*time.Second, "set", key, "v1"); err != nil || v.Type != SimpleString {
		t.Fatalf("SET before the failover: %s", h2Show(v, err))
	}
	if v, err := h2Do(p.Address(), 2*time.Second, "get", key); err != nil || !bytes.Equal(v.Text, []byte("v1")) {
		t.Fatalf("GET before the failover: %s", h2Show(v, err))
	}

	// manual failover: node 1 is the master now, node 0 its replica.
	c.mu.Lock()
	delete(c.replOf, 1)
	c.owner = [2]int{1, 1}
	c.replOf[0] = 1
	swappedAt := c.cmdSeq
	c.mu.Unlock()

	// read traffic for 3 s; the first second is grace for "a bounded number of refresh
	// rounds triggered by the first redirection".
	t0 := time.Now()
	var late int
	for time.Since(t0) < 3*time.Second {
		if time.Since(t0) > time.Second && late == 0 {
			late = c.seq()
		}
		if v, err := h2Do(p.Address(), 2*time.Second, "get", key); err != nil || !bytes.Equal(v.Text, []byte("v1")) {
			t.Fatalf("GET after the failover: %s", h2Show(v, err))
		}
		time.Sleep(20 * time.Millisecond)
	}
	onReplica, onMaster := c.count(0, "get", late), c.count(1, "get", late)
	if onReplica != 0 {
		c.mu.Lock()
		moved := c.nodes[0].moved
		c.mu.Unlock()
		t.Fatalf("read strategy MASTER, 1-3 s after the roles were swapped: %d GETs executed by the replica %s, %d by the master %s "+
			"(since the swap: %d/%d); MOVED replies of the demoted node: %d; the routing table still names %s",
			onReplica, c.nodes[0].addr, onMaster, c.nodes[1].addr,
			c.count(0, "get", swappedAt), c.count(1, "get", swappedAt), moved, p.u.slots[h2Slot([]byte(key))].Addr)
	}
}
