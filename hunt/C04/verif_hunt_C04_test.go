//go:build verif
// +build verif

package redis

// Hunt C04: "slot migration is invisible to clients".
//
// upstream.handleRedirection follows an ASK with two separate sends to the target
// node's connection: first ASKING, then the command. The connection is shared by
// every goroutine of the proxy, so a request that another client addresses to the
// target directly can be enqueued between the two. Redis clears the ASKING flag
// after the next command, whatever it is: the stranger uses the flag up, the
// redirected command arrives without it, is answered MOVED (back to the source),
// and goes round again: source, ASK, ASKING, target. While it does, the commands
// the same client had pipelined BEHIND it overtake it on the target.
//
// The cluster below is a faithful little model of two Redis Cluster masters
// (per-connection ASKING flag, MIGRATING / IMPORTING slots, MOVED / ASK).

import (
	"bytes"
	"fmt"
	"net"
	"strings"
	"sync"
	"sync/atomic"
	"testing"
	"time"

	"github.com/samaritan-proxy/samaritan/host"
	"github.com/samaritan-proxy/samaritan/pb/common"
	"github.com/samaritan-proxy/samaritan/pb/config/protocol"
	"github.com/samaritan-proxy/samaritan/pb/config/service"
	"github.com/samaritan-proxy/samaritan/proc"
	"github.com/samaritan-proxy/samaritan/proc/internal/log"
	"github.com/samaritan-proxy/samaritan/stats"
	"github.com/samaritan-proxy/samaritan/utils"
)

type huntC04Cluster struct {
	mu    sync.Mutex
	nodes []*huntC04Node
	log   []string // arrivals on all nodes, in the order they were executed
}

type huntC04Node struct {
	cl        *huntC04Cluster
	name      string
	id        string
	l         net.Listener
	data      map[string]string
	owned     map[int]bool
	migrating map[int]*huntC04Node // slot -> target
	importing map[int]*huntC04Node // slot -> source
}

func huntC04Slot(key string) int { return int(crc16(hashtag([]byte(key))) & (slotNum - 1)) }

func (cl *huntC04Cluster) addNode(t *testing.T, name string) *huntC04Node {
	l, err := net.Listen("tcp", "127.0.0.1:0")
	if err != nil {
		t.Fatal(err)
	}
	n := &huntC04Node{
		cl: cl, name: name, id: strings.Repeat(name, 40)[:40], l: l,
		data: map[string]string{}, owned: map[int]bool{},
		migrating: map[int]*huntC04Node{}, importing: map[int]*huntC04Node{},
	}
	cl.nodes = append(cl.nodes, n)
	go func() {
		for {
			conn, err := l.Accept()
			if err != nil {
				return
			}
			go n.serve(conn)
		}
	}()
	return n
}

func (n *huntC04Node) addr() string { return n.l.Addr().String() }

func (cl *huntC04Cluster) owner(slot int) *huntC04Node {
	for _, n := range cl.nodes {
		if n.owned[slot] {
			return n
		}
	}
	return nil
}

// clusterNodes renders CLUSTER NODES (cl.mu held).
func (cl *huntC04Cluster) clusterNodes() string {
	var b strings.Builder
	for _, n := range cl.nodes {
		fmt.Fprintf(&b, "%s %s@1%s master - 0 1528688887753 7 connected", n.id, n.addr(), "0000")
		start := -1
		for s := 0; s <= slotNum; s++ {
			if s < slotNum && n.owned[s] {
				if start < 0 {
					start = s
				}
				continue
			}
			if start >= 0 {
				if start == s-1 {
					fmt.Fprintf(&b, " %d", start)
				} else {
					fmt.Fprintf(&b, " %d-%d", start, s-1)
				}
				start = -1
			}
		}
		for s, to := range n.migrating {
			fmt.Fprintf(&b, " [%d->-%s]", s, to.id)
		}
		for s, from := range n.importing {
			fmt.Fprintf(&b, " [%d-<-%s]", s, from.id)
		}
		b.WriteString("\n")
	}
	return b.String()
}

// serve is one client connection of a node: commands are executed one after the
// other, the ASKING flag belongs to the connection and lasts for one command.
func (n *huntC04Node) serve(conn net.Conn) {
	defer conn.Close()
	dec := newDecoder(conn, 4096)
	asking := false
	for {
		v, err := dec.Decode()
		if err != nil {
			return
		}
		if v.Type != Array || len(v.Array) == 0 {
			conn.Write(encode(newError("ERR protocol"))) //nolint:errcheck
			continue
		}
		args := make([]string, len(v.Array))
		for i := range v.Array {
			args[i] = string(v.Array[i].Text)
		}
		cmd := strings.ToLower(args[0])
		reply := n.exec(cmd, args, &asking)
		if _, err := conn.Write(encode(reply)); err != nil {
			return
		}
	}
}

func (n *huntC04Node) exec(cmd string, args []string, asking *bool) *RespValue {
	cl := n.cl
	cl.mu.Lock()
	defer cl.mu.Unlock()
	switch cmd {
	case "asking":
		*asking = true
		cl.log = append(cl.log, n.name+": ASKING")
		return newSimpleString("OK")
	case "readonly":
		return newSimpleString("OK")
	case "cluster":
		return newBulkString(cl.clusterNodes())
	}
	// every other command uses the flag up (redis: resetClient clears CLIENT_ASKING).
	hadAsking := *asking
	*asking = false
	if len(args) < 2 {
		return newError("ERR wrong number of arguments")
	}
	key := args[1]
	slot := huntC04Slot(key)
	_, exists := n.data[key]
	verdict := ""
	var reply *RespValue
	switch {
	case n.owned[slot]:
		if to, ok := n.migrating[slot]; ok && !exists {
			reply = newError(fmt.Sprintf("ASK %d %s", slot, to.addr()))
			verdict = "-> ASK " + to.name
		}
	case n.importing[slot] != nil && hadAsking:
		// execute here
	default:
		o := cl.owner(slot)
		reply = newError(fmt.Sprintf("MOVED %d %s", slot, o.addr()))
		verdict = "-> MOVED " + o.name
	}
	if reply == nil {
		switch cmd {
		case "get":
			if val, ok := n.data[key]; ok {
				reply = newBulkString(val)
				verdict = "-> " + val
			} else {
				reply = newNullBulkString()
				verdict = "-> nil"
			}
		case "set":
			n.data[key] = args[2]
			reply = newSimpleString("OK")
			verdict = "-> OK"
		default:
			reply = newError("ERR unknown command")
		}
	}
	cl.log = append(cl.log, fmt.Sprintf("%s: [asking=%v] %s %s", n.name, hadAsking, strings.Join(args, " "), verdict))
	return reply
}

func (cl *huntC04Cluster) dumpLog() string {
	cl.mu.Lock()
	defer cl.mu.Unlock()
	return "  " + strings.Join(cl.log, "\n  ")
}

type huntC04Fixture struct {
	cl     *huntC04Cluster
	s, t   *huntC04Node
	p      *redisProc
	ka, kb string
}

// huntC04Setup: node S owns slots 0-8191, node T owns 8192-16383; slot(ka), one
// of S's, is being migrated to T (MIGRATING on S, IMPORTING on T, no key moved
// yet and ka does not exist); kb is a key of one of T's own slots.
func huntC04Setup(t *testing.T) *huntC04Fixture {
	cl := &huntC04Cluster{}
	s := cl.addNode(t, "S")
	tt := cl.addNode(t, "T")
	for i := 0; i < slotNum; i++ {
		if i < slotNum/2 {
			s.owned[i] = true
		} else {
			tt.owned[i] = true
		}
	}
	var ka, kb string
	for i := 0; ka == "" || kb == ""; i++ {
		k := fmt.Sprintf("key%d", i)
		if huntC04Slot(k) < slotNum/2 {
			if ka == "" {
				ka = k
			}
		} else if kb == "" {
			kb = k
		}
	}
	a := huntC04Slot(ka)
	s.migrating[a] = tt
	tt.importing[a] = s
	tt.data[kb] = "vb"

	cfg := &service.Config{
		Listener: &service.Listener{
			Address: &common.Address{Ip: "127.0.0.1", Port: 0},
		},
		ConnectTimeout: utils.DurationPtr(time.Second),
		Protocol:       protocol.Redis,
		ProtocolOptions: &service.Config_RedisOption{
			RedisOption: &protocol.RedisOption{},
		},
	}
	name := fmt.Sprintf("huntC04.%d", time.Now().UnixNano())
	// only S is a seed host: CLUSTER NODES never travels on T's connection.
	p, err := newRedisProc(name, cfg, []*host.Host{host.New(s.addr())},
		proc.NewStats(stats.CreateScope("service."+name)), log.New("["+name+"]"))
	if err != nil {
		t.Fatal(err)
	}
	if err := p.Start(); err != nil {
		t.Fatal(err)
	}
	// wait for the routing table
	deadline := time.Now().Add(5 * time.Second)
	for p.u.slots[huntC04Slot(ka)] == nil || p.u.slots[huntC04Slot(kb)] == nil {
		if time.Now().After(deadline) {
			t.Fatal("test setup: no routing table")
		}
		time.Sleep(5 * time.Millisecond)
	}
	return &huntC04Fixture{cl: cl, s: s, t: tt, p: p, ka: ka, kb: kb}
}

func (f *huntC04Fixture) close() {
	done := make(chan struct{})
	go func() { f.p.Stop(); close(done) }() //nolint:errcheck
	select {
	case <-done:
	case <-time.After(5 * time.Second):
	}
	f.s.l.Close()
	f.t.l.Close()
}

type huntC04Conn struct {
	conn net.Conn
	dec  *decoder
}

func huntC04Dial(t *testing.T, addr string) *huntC04Conn {
	conn, err := net.Dial("tcp", addr)
	if err != nil {
		t.Fatal(err)
	}
	return &huntC04Conn{conn: conn, dec: newDecoder(conn, 4096)}
}

// pipeline writes all commands in one go and then reads as many replies.
func (c *huntC04Conn) pipeline(t *testing.T, cmds ...[]string) []*RespValue {
	var b bytes.Buffer
	for _, cmd := range cmds {
		b.Write(encode(newStringArray(cmd...)))
	}
	c.conn.SetDeadline(time.Now().Add(10 * time.Second)) //nolint:errcheck
	if _, err := c.conn.Write(b.Bytes()); err != nil {
		t.Fatal(err)
	}
	var out []*RespValue
	for range cmds {
		v, err := c.dec.Decode()
		if err != nil {
			t.Fatalf("no reply from the proxy: %v", err)
		}
		out = append(out, v)
	}
	return out
}

func huntC04Show(v *RespValue) string {
	switch v.Type {
	case Integer:
		return fmt.Sprintf(":%d", v.Int)
	case Error:
		return "-" + string(v.Text)
	case BulkString:
		if v.Text == nil {
			return "(nil)"
		}
		return fmt.Sprintf("%q", v.Text)
	default:
		return string(v.Text)
	}
}

// The forced schedule. Client 1 pipelines SET ka v1, GET ka: a single Redis
// server answers OK, "v1". Client 2 reads kb (which lives on T) exactly between
// the ASKING and the SET that the proxy sends to T for client 1.
func TestVerifHuntC04AskingPairInterleaved(t *testing.T) {
	f := huntC04Setup(t)
	defer f.close()
	defer VerifSetPause(nil)

	c1 := huntC04Dial(t, f.p.Address())
	defer c1.conn.Close()
	c2 := huntC04Dial(t, f.p.Address())
	defer c2.conn.Close()

	// warm up: the connection to T exists, kb is served by T directly.
	if r := c2.pipeline(t, []string{"get", f.kb}); huntC04Show(r[0]) != `"vb"` {
		t.Fatalf("test setup: GET kb = %s", huntC04Show(r[0]))
	}

	// park the second send to T (the redirected SET; the first one is its ASKING).
	var (
		armed   int32 = 1
		sendsT  int32
		blocked = make(chan struct{})
		release = make(chan struct{})
	)
	tAddr := f.t.addr()
	VerifSetPause(func(point string, obj interface{}) {
		if point != "client.send.checked" || atomic.LoadInt32(&armed) == 0 {
			return
		}
		c, ok := obj.(*client)
		if !ok || c.conn == nil || c.conn.RemoteAddr().String() != tAddr {
			return
		}
		if atomic.AddInt32(&sendsT, 1) == 2 {
			close(blocked)
			<-release
		}
	})

	type res struct{ r []*RespValue }
	resc := make(chan res, 1)
	go func() {
		resc <- res{c1.pipeline(t, []string{"set", f.ka, "v1"}, []string{"get", f.ka})}
	}()

	select {
	case <-blocked:
	case <-time.After(5 * time.Second):
		t.Fatalf("test setup: the redirected SET never reached T's connection\n%s", f.cl.dumpLog())
	}
	// client 2's request goes to T directly. On the current code it is answered at
	// once: it is on T's connection behind client 1's ASKING. (A repaired proxy may
	// keep it waiting until the pair is complete: do not wait for it for ever.)
	res2 := make(chan string, 1)
	go func() {
		res2 <- huntC04Show(c2.pipeline(t, []string{"get", f.kb})[0])
	}()
	got2 := ""
	select {
	case got2 = <-res2:
	case <-time.After(300 * time.Millisecond):
	}
	atomic.StoreInt32(&armed, 0)
	close(release)
	if got2 == "" {
		select {
		case got2 = <-res2:
		case <-time.After(10 * time.Second):
			t.Fatalf("client 2 got no reply\n%s", f.cl.dumpLog())
		}
	}
	if got2 != `"vb"` {
		t.Errorf("GET kb = %s", got2)
	}

	var got []*RespValue
	select {
	case r := <-resc:
		got = r.r
	case <-time.After(15 * time.Second):
		t.Fatalf("client 1 got no replies\n%s", f.cl.dumpLog())
	}
	final := c1.pipeline(t, []string{"get", f.ka})

	t.Logf("arrivals:\n%s", f.cl.dumpLog())
	t.Logf("client 1: SET %s v1 -> %s ; GET %s -> %s ; later GET -> %s",
		f.ka, huntC04Show(got[0]), f.ka, huntC04Show(got[1]), huntC04Show(final[0]))
	if huntC04Show(got[0]) != "OK" {
		t.Errorf("SET %s v1: a single server replies OK, the proxy replied %s", f.ka, huntC04Show(got[0]))
	}
	if huntC04Show(got[1]) != `"v1"` {
		t.Errorf("pipelined SET %s v1, GET %s on one connection: a single server replies \"v1\" to the GET, "+
			"the proxy replied %s (the GET overtook the SET, whose ASKING was used up by another client's request)",
			f.ka, f.ka, huntC04Show(got[1]))
	}
}

// The same without any hook: client 1 pipelines SET k v1, SET k v2, GET k on fresh
// keys of the migrating slot while other clients read kb from T. Informative: says
// how often the natural schedule hits the window.
func TestVerifHuntC04AskingPairNatural(t *testing.T) {
	f := huntC04Setup(t)
	defer f.close()

	stop := make(chan struct{})
	var wg sync.WaitGroup
	for i := 0; i < 4; i++ {
		wg.Add(1)
		go func() {
			defer wg.Done()
			c := huntC04Dial(t, f.p.Address())
			defer c.conn.Close()
			batch := make([][]string, 16)
			for j := range batch {
				batch[j] = []string{"get", f.kb}
			}
			for {
				select {
				case <-stop:
					return
				default:
				}
				c.pipeline(t, batch...)
			}
		}()
	}

	c1 := huntC04Dial(t, f.p.Address())
	defer c1.conn.Close()
	tag := "{" + f.ka + "}"
	bad, rounds := 0, 300
	firstBad := ""
	for i := 0; i < rounds; i++ {
		k := fmt.Sprintf("%sn%d", tag, i)
		r := c1.pipeline(t, []string{"set", k, "v1"}, []string{"set", k, "v2"}, []string{"get", k})
		fin := c1.pipeline(t, []string{"get", k})
		if huntC04Show(r[2]) != `"v2"` || huntC04Show(fin[0]) != `"v2"` {
			bad++
			if firstBad == "" {
				firstBad = fmt.Sprintf("round %d: SET v1 -> %s, SET v2 -> %s, GET -> %s, later GET -> %s",
					i, huntC04Show(r[0]), huntC04Show(r[1]), huntC04Show(r[2]), huntC04Show(fin[0]))
			}
		}
	}
	close(stop)
	wg.Wait()
	if bad > 0 {
		t.Errorf("%d of %d rounds of SET k v1, SET k v2, GET k answered differently from a single server; %s",
			bad, rounds, firstBad)
	}
}
