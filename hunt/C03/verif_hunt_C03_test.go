package redis

// Hunt C03: "on a stable cluster the proxy behaves like a single Redis server".
//
// A pipeline of INCRs of ONE key, sent over ONE downstream connection right after
// the proxy has started, is answered out of order (e.g. 2,1,3,...) although the
// cluster's slot layout never changes: while the routing table has not been loaded
// yet, chooseHost picks an independent random seed host for every request, a request
// that lands on the non-owner comes back with MOVED and is re-sent to the owner
// behind later requests of the same connection that were sent to the owner directly.

import (
	"fmt"
	"net"
	"os"
	"strings"
	"sync"
	"sync/atomic"
	"testing"
	"time"

	"github.com/samaritan-proxy/samaritan/host"
	"github.com/samaritan-proxy/samaritan/pb/common"
	"github.com/samaritan-proxy/samaritan/pb/config/protocol"
	"github.com/samaritan-proxy/samaritan/pb/config/service"
	"github.com/samaritan-proxy/samaritan/proc"
	"github.com/samaritan-proxy/samaritan/proc/internal/log"
	"github.com/samaritan-proxy/samaritan/stats"
	"github.com/samaritan-proxy/samaritan/utils"
)

// huntC03Cluster is a two-node Redis Cluster with a fixed layout: node 0 owns the
// slots 0-8191, node 1 the slots 8192-16383. Every connection is served strictly in
// order, like a Redis connection. The data is one map, as in "a single Redis server
// holding all the data": a node executes a keyed command only when it owns the slot
// and answers MOVED otherwise.
type huntC03Cluster struct {
	t         *testing.T
	lns       [2]net.Listener
	nodesWait time.Duration // time a node takes to answer CLUSTER NODES

	mu    sync.Mutex
	data  map[string]int64
	log   []string // executed commands: "<node> <cmd> <key>"
	moved int32
	wg    sync.WaitGroup
}

func newHuntC03Cluster(t *testing.T, nodesWait time.Duration) *huntC03Cluster {
	c := &huntC03Cluster{t: t, nodesWait: nodesWait, data: make(map[string]int64)}
	for i := range c.lns {
		ln, err := net.Listen("tcp", "127.0.0.1:0")
		if err != nil {
			t.Fatal(err)
		}
		c.lns[i] = ln
	}
	for i := range c.lns {
		c.wg.Add(1)
		go c.accept(i)
	}
	return c
}

func (c *huntC03Cluster) addr(i int) string { return c.lns[i].Addr().String() }

func (c *huntC03Cluster) owner(slot int) int {
	if slot < 8192 {
		return 0
	}
	return 1
}

func (c *huntC03Cluster) clusterNodes() string {
	return fmt.Sprintf("%040d %s@1 master - 0 0 1 connected 0-8191\n", 1, c.addr(0)) +
		fmt.Sprintf("%040d %s@2 master - 0 0 2 connected 8192-16383\n", 2, c.addr(1))
}

func (c *huntC03Cluster) accept(i int) {
	defer c.wg.Done()
	for {
		conn, err := c.lns[i].Accept()
		if err != nil {
			return
		}
		c.wg.Add(1)
		go func() {
			defer c.wg.Done()
			defer conn.Close()
			c.serve(i, conn)
		}()
	}
}

func (c *huntC03Cluster) serve(node int, conn net.Conn) {
	dec := newDecoder(conn, 4096)
	enc := newEncoder(conn, 4096)
	for {
		v, err := dec.Decode()
		if err != nil {
			return
		}
		var reply *RespValue
		cmd := strings.ToLower(string(v.Array[0].Text))
		switch cmd {
		case "readonly":
			reply = newSimpleString("OK")
		case "cluster":
			time.Sleep(c.nodesWait)
			reply = newBulkString(c.clusterNodes())
		case "incr":
			key := v.Array[1].Text
			slot := int(crc16(hashtag(key)) & (slotNum - 1))
			if o := c.owner(slot); o != node {
				atomic.AddInt32(&c.moved, 1)
				reply = &RespValue{Type: Error, Text: []byte(fmt.Sprintf("MOVED %d %s", slot, c.addr(o)))}
				break
			}
			c.mu.Lock()
			c.data[string(key)]++
			n := c.data[string(key)]
			c.log = append(c.log, fmt.Sprintf("%d incr %s -> %d", node, key, n))
			c.mu.Unlock()
			reply = newInteger(n)
		default:
			reply = &RespValue{Type: Error, Text: []byte("ERR unknown command")}
		}
		if enc.Encode(reply) != nil || enc.Flush() != nil {
			return
		}
	}
}

func (c *huntC03Cluster) close() {
	for _, ln := range c.lns {
		ln.Close()
	}
}

func huntC03Proc(t *testing.T, c *huntC03Cluster) *redisProc {
	svcCfg := &service.Config{
		Listener: &service.Listener{
			Address: &common.Address{Ip: "127.0.0.1", Port: 0},
		},
		ConnectTimeout: utils.DurationPtr(time.Second),
		Protocol:       protocol.Redis,
	}
	hosts := []*host.Host{host.New(c.addr(0)), host.New(c.addr(1))}
	name := fmt.Sprintf("huntC03.%d", time.Now().UnixNano())
	p, err := newRedisProc(name, svcCfg, hosts,
		proc.NewStats(stats.CreateScope("service."+name)), log.New("["+name+"]"))
	if err != nil {
		t.Fatal(err)
	}
	return p
}

// huntC03Run starts a proxy in front of the cluster, sends n pipelined "INCR k" over
// one connection as soon as the proxy listens, and returns the replies in the order
// they were received.
func huntC03Run(t *testing.T, nodesWait time.Duration, n int) (got []int64, c *huntC03Cluster) {
	c = newHuntC03Cluster(t, nodesWait)
	p := huntC03Proc(t, c)
	if err := p.Start(); err != nil {
		t.Fatal(err)
	}
	stopped := make(chan struct{})
	defer func() {
		go func() { p.Stop(); close(stopped) }() //nolint:errcheck
		select {
		case <-stopped:
		case <-time.After(5 * time.Second):
			t.Error("proxy did not stop")
		}
		c.close()
	}()

	// the listener binds in its own goroutine
	deadline := time.Now().Add(3 * time.Second)
	for p.Address() == "" {
		if time.Now().After(deadline) {
			t.Fatal("proxy does not listen")
		}
		time.Sleep(100 * time.Microsecond)
	}
	conn, err := net.Dial("tcp", p.Address())
	if err != nil {
		t.Fatal(err)
	}
	defer conn.Close()

	var pipeline []byte
	for i := 0; i < n; i++ {
		pipeline = append(pipeline, "*2\r\n$4\r\nINCR\r\n$1\r\nk\r\n"...)
	}
	if _, err := conn.Write(pipeline); err != nil {
		t.Fatal(err)
	}

	conn.SetReadDeadline(time.Now().Add(10 * time.Second)) //nolint:errcheck
	dec := newDecoder(conn, 4096)
	for i := 0; i < n; i++ {
		v, err := dec.Decode()
		if err != nil {
			t.Fatalf("reply %d: %v", i, err)
		}
		if v.Type != Integer {
			t.Fatalf("reply %d: not an integer: %q", i, v.String())
		}
		got = append(got, v.Int)
	}
	return got, c
}

func huntC03Check(t *testing.T, got []int64, c *huntC03Cluster) {
	t.Helper()
	ok := true
	for i, v := range got {
		// a single Redis server answers the i-th INCR of a connection's pipeline with i+1.
		if v != int64(i+1) {
			ok = false
		}
	}
	if !ok {
		c.mu.Lock()
		defer c.mu.Unlock()
		t.Errorf("pipelined INCR k over one connection on a cluster whose layout never changed:\n"+
			" replies  %v\n a single Redis server answers 1..%d in order\n MOVED answers: %d\n node log: %v",
			got, len(got), atomic.LoadInt32(&c.moved), c.log)
	}
}

// The nodes take 200ms to answer CLUSTER NODES (a large cluster, a loaded node, a slow
// link), which only keeps the window open long enough to make the test independent
// of scheduling: the layout itself never changes.
func TestVerifHuntC03ColdStartPipelineReordered(t *testing.T) {
	got, c := huntC03Run(t, 200*time.Millisecond, 20)
	huntC03Check(t, got, c)
}

// Same with nodes that answer CLUSTER NODES at once: the window is a connect plus one
// round trip, the failure depends on scheduling. Only run on demand (HUNT_C03_FAST=1).
func TestVerifHuntC03ColdStartPipelineReorderedFastNodes(t *testing.T) {
	if os.Getenv("HUNT_C03_FAST") == "" {
		t.Skip("set HUNT_C03_FAST=1")
	}
	got, c := huntC03Run(t, 0, 20)
	huntC03Check(t, got, c)
}
