package tcp

import (
	"fmt"
	"io"
	"net"
	"testing"
	"time"

	"github.com/samaritan-proxy/samaritan/host"
)

// Hunt C06: the "removed" latch of a host object (host.Host.removeCh) is
// one-shot and never re-armed. A host object that was removed from the set and
// is added again (Remove(h); Add(h), or ReplaceAll with a list that contains a
// currently stored object - the project's own host tests do both) is a current,
// healthy member whose WaitRemoved() channel is already closed. The balancer
// keeps selecting it, and the watcher of every connection relayed to it
// (proc/tcp/proc.go:134-140) fires at once and closes both sides: no
// connection to that host survives, for ever.

func huntC06EchoBackend(t *testing.T) (addr string, stop func()) {
	ln, err := net.Listen("tcp", "127.0.0.1:0")
	if err != nil {
		t.Fatal(err)
	}
	go func() {
		for {
			c, err := ln.Accept()
			if err != nil {
				return
			}
			go func(c net.Conn) {
				defer c.Close()
				io.Copy(c, c)
			}(c)
		}
	}()
	return ln.Addr().String(), func() { ln.Close() }
}

// huntC06RoundTrips makes n echo round trips over one fresh connection through the proxy.
func huntC06RoundTrips(proxyAddr string, n int) error {
	conn, err := net.DialTimeout("tcp", proxyAddr, time.Second)
	if err != nil {
		return fmt.Errorf("dial proxy: %v", err)
	}
	defer conn.Close()
	for i := 0; i < n; i++ {
		msg := []byte(fmt.Sprintf("ping-%02d", i))
		conn.SetDeadline(time.Now().Add(2 * time.Second))
		if _, err := conn.Write(msg); err != nil {
			return fmt.Errorf("round trip %d: write: %v", i, err)
		}
		buf := make([]byte, len(msg))
		if _, err := io.ReadFull(conn, buf); err != nil {
			return fmt.Errorf("round trip %d: read: %v", i, err)
		}
		if string(buf) != string(msg) {
			return fmt.Errorf("round trip %d: got %q, want %q", i, buf, msg)
		}
		time.Sleep(20 * time.Millisecond)
	}
	return nil
}

func huntC06IsMember(p *tcpProc, h *host.Host) bool {
	for _, m := range p.hostSet.Healthy() {
		if m == h {
			return true
		}
	}
	return false
}

func huntC06Latched(h *host.Host) bool {
	select {
	case <-h.WaitRemoved():
		return true
	default:
		return false
	}
}

// Remove a host, then add the same object again.
func TestVerifHuntC06ReaddedHostIsUnusable(t *testing.T) {
	addr, stop := huntC06EchoBackend(t)
	defer stop()

	cfg := newServiceConfig()
	cfg.IdleTimeout = durationPtr(5 * time.Second)
	h := host.New(addr)

	testProc(t, cfg, []*host.Host{h}, func(p *tcpProc) {
		// sanity: the relay works.
		if err := huntC06RoundTrips(p.Address(), 3); err != nil {
			t.Fatalf("before the removal the relay must work: %v", err)
		}

		if err := p.OnSvcHostRemove([]*host.Host{h}); err != nil {
			t.Fatal(err)
		}
		if len(p.hostSet.Healthy()) != 0 {
			t.Fatalf("after the removal no host must be usable")
		}
		if err := p.OnSvcHostAdd([]*host.Host{h}); err != nil {
			t.Fatal(err)
		}
		if !huntC06IsMember(p, h) {
			t.Fatalf("the host added again must be a usable member")
		}

		if huntC06Latched(h) {
			t.Errorf("host %s is a current healthy member, yet its WaitRemoved() channel is closed", h)
		}
		for i := 0; i < 3; i++ {
			if err := huntC06RoundTrips(p.Address(), 5); err != nil {
				t.Errorf("connection %d to the only (current, healthy) host was cut: %v", i, err)
			}
		}
	})
}

// ReplaceAll with a list that contains a currently stored object.
func TestVerifHuntC06ReplaceAllWithStoredHost(t *testing.T) {
	addr, stop := huntC06EchoBackend(t)
	defer stop()

	cfg := newServiceConfig()
	cfg.IdleTimeout = durationPtr(5 * time.Second)
	h := host.New(addr)

	testProc(t, cfg, []*host.Host{h}, func(p *tcpProc) {
		if err := huntC06RoundTrips(p.Address(), 3); err != nil {
			t.Fatalf("before the replacement the relay must work: %v", err)
		}
		if err := p.OnSvcAllHostReplace(p.hostSet.All()); err != nil {
			t.Fatal(err)
		}
		if !huntC06IsMember(p, h) {
			t.Fatalf("the host must still be a usable member")
		}
		if huntC06Latched(h) {
			t.Errorf("host %s is a current healthy member, yet its WaitRemoved() channel is closed", h)
		}
		if err := huntC06RoundTrips(p.Address(), 5); err != nil {
			t.Errorf("connection to the only (current, healthy) host was cut: %v", err)
		}
	})
}

func durationPtr(d time.Duration) *time.Duration { return &d }
