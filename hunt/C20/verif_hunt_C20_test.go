package tcp

import (
	"io"
	"net"
	"testing"
	"time"

	"github.com/samaritan-proxy/samaritan/host"
	"github.com/samaritan-proxy/samaritan/proc"
	"github.com/samaritan-proxy/samaritan/stats"
)

// Property C20: whenever a service is quiescent (no connection or request in
// flight) its active-connection gauge is zero and its total connections equal its
// destroyed connections.
//
// The statistics are kept in a process-wide store keyed by a scope name that
// proc.New derives from the service name by replacing every '.' with '_'
// (proc/proc.go:103). The controller keys its processors by the raw service name
// (controller/controller.go:118-127), so the two different services "hunt.c20"
// and "hunt_c20" can run side by side - and they get the SAME scope, i.e. the same
// Counter and Gauge objects (stats.CreateScope returns the existing scope,
// kirk91/stats store.go CreateScope). A connection that is open on one of them is
// therefore "active" on the other one, which is quiescent (and even stopped).

func huntC20Counter(name string) uint64 {
	for _, c := range stats.Counters() {
		if c.Name() == name {
			return c.Value()
		}
	}
	return 0 // a counter that was never touched is not listed
}

func huntC20Gauge(name string) uint64 {
	for _, g := range stats.Gauges() {
		if g.Name() == name {
			return g.Value()
		}
	}
	return 0
}

func huntC20WaitAddr(t *testing.T, p proc.Proc) string {
	t.Helper()
	deadline := time.Now().Add(5 * time.Second)
	for p.Address() == "" {
		if time.Now().After(deadline) {
			t.Fatal("service did not start listening")
		}
		time.Sleep(time.Millisecond)
	}
	return p.Address()
}

func huntC20Echo(t *testing.T, c net.Conn) {
	t.Helper()
	c.SetDeadline(time.Now().Add(5 * time.Second))
	if _, err := c.Write([]byte("x")); err != nil {
		t.Fatal(err)
	}
	if _, err := io.ReadFull(c, make([]byte, 1)); err != nil {
		t.Fatal(err)
	}
	c.SetDeadline(time.Time{})
}

func TestVerifHuntC20ScopeSharedByTwoServices(t *testing.T) {
	// an echo backend
	backend, err := net.Listen("tcp", "127.0.0.1:0")
	if err != nil {
		t.Fatal(err)
	}
	defer backend.Close()
	go func() {
		for {
			c, err := backend.Accept()
			if err != nil {
				return
			}
			go func() {
				defer c.Close()
				io.Copy(c, c) //nolint:errcheck
			}()
		}
	}()

	newSvc := func(name string) proc.Proc {
		cfg := newServiceConfig()
		cfg.HealthCheck = nil
		idle := time.Minute
		cfg.IdleTimeout = &idle
		p, err := proc.New(name, cfg, []*host.Host{host.New(backend.Addr().String())})
		if err != nil {
			t.Fatalf("proc.New(%q): %v", name, err)
		}
		if err := p.Start(); err != nil {
			t.Fatal(err)
		}
		return p
	}

	// two different services, as the controller would run them side by side
	svcA := newSvc("hunt.c20")
	addrA := huntC20WaitAddr(t, svcA)
	svcB := newSvc("hunt_c20")
	addrB := huntC20WaitAddr(t, svcB)
	bStopped := false
	defer func() {
		if !bStopped {
			svcB.Stop()
		}
	}()

	// the statistics of service "hunt.c20": service.<name, '.' replaced by '_'>.
	const scopeA = "service.hunt_c20."
	cxTotal := func() uint64 { return huntC20Counter(scopeA + "downstream.cx_total") }
	cxDestroy := func() uint64 { return huntC20Counter(scopeA + "downstream.cx_destroy_total") }
	cxActive := func() uint64 { return huntC20Gauge(scopeA + "downstream.cx_active") }
	upTotal := func() uint64 { return huntC20Counter(scopeA + "upstream.cx_total") }
	upDestroy := func() uint64 { return huntC20Counter(scopeA + "upstream.cx_destroy_total") }
	upActive := func() uint64 { return huntC20Gauge(scopeA + "upstream.cx_active") }

	// the store outlives a test run (go test -count=N): count from here.
	base := cxDestroy()

	// service A: one complete connection
	ca, err := net.Dial("tcp", addrA)
	if err != nil {
		t.Fatal(err)
	}
	huntC20Echo(t, ca)
	ca.Close()
	deadline := time.Now().Add(5 * time.Second)
	for cxDestroy() != base+1 && time.Now().Before(deadline) {
		time.Sleep(time.Millisecond)
	}
	if cxTotal() != base+1 || cxDestroy() != base+1 || cxActive() != 0 || upTotal() != upDestroy() || upActive() != 0 {
		t.Fatalf("baseline of service A: down total=%d destroy=%d active=%d, up total=%d destroy=%d active=%d",
			cxTotal(), cxDestroy(), cxActive(), upTotal(), upDestroy(), upActive())
	}

	// service B: one connection that stays open
	cb, err := net.Dial("tcp", addrB)
	if err != nil {
		t.Fatal(err)
	}
	defer cb.Close()
	huntC20Echo(t, cb) // the relay of B is established, B's counters are final

	// service A has no connection in flight: it is quiescent.
	check := func(when string) {
		t.Helper()
		if a := cxActive(); a != 0 {
			t.Errorf("%s: service hunt.c20 is quiescent but downstream cx_active = %d", when, a)
		}
		if tot, d := cxTotal(), cxDestroy(); tot != d {
			t.Errorf("%s: service hunt.c20 is quiescent but downstream cx_total = %d, cx_destroy_total = %d", when, tot, d)
		}
		if a := upActive(); a != 0 {
			t.Errorf("%s: service hunt.c20 is quiescent but upstream cx_active = %d", when, a)
		}
		if tot, d := upTotal(), upDestroy(); tot != d {
			t.Errorf("%s: service hunt.c20 is quiescent but upstream cx_total = %d, cx_destroy_total = %d", when, tot, d)
		}
	}
	check("A idle, B has one open connection")

	// ... and the history of A ends with A being stopped.
	stopped := make(chan struct{})
	go func() {
		svcA.Stop()
		close(stopped)
	}()
	select {
	case <-stopped:
	case <-time.After(10 * time.Second):
		t.Fatal("Stop of service A hangs")
	}
	check("A stopped, B has one open connection")

	// the connection of B still works: it really is in flight on B, not on A.
	huntC20Echo(t, cb)

	// when B is quiescent too everything balances again (so the check above did
	// not fail because of a lost decrement, but because of the shared counters).
	cb.Close()
	svcB.Stop()
	bStopped = true
	if cxActive() != 0 || cxTotal() != cxDestroy() {
		t.Logf("after both services are quiescent: total=%d destroy=%d active=%d", cxTotal(), cxDestroy(), cxActive())
	}
}
