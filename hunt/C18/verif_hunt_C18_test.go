package redis

// Hunt for property C18 (SCAN through the proxy).
//
// Main finding (TestVerifHuntC18CursorPastLastNodeIsAnError and
// TestVerifHuntC18CursorOfHighNodeIndexDoesNotRoundTrip): the proxy WRITES the
// composite cursor as an unsigned 64 bit number (request.go, Convert:
// strconv.FormatUint) but READS the client's cursor as a signed one
// (request.go, newScanRequest: btoi64 -> strconv.ParseInt). Every cursor whose
// node index has its top bit set (node index >= 32768, cursor >= 2^63) is
// answered with "invalid cursor" instead of the terminating reply, and the
// cursors the proxy itself hands out for such node indexes cannot be fed back.
//
// Second finding (TestVerifHuntC18ScanReplyKeyNamesAreDecompressed): with a
// compression section in the configuration (even with enable=false) the
// decompression hook of the compress filter is run over the SCAN reply, so a
// key whose NAME is a valid compression frame is reported under another name.

import (
	"fmt"
	"net"
	"sort"
	"strconv"
	"sync"
	"testing"
	"time"

	"github.com/samaritan-proxy/samaritan/host"
	"github.com/samaritan-proxy/samaritan/pb/common"
	"github.com/samaritan-proxy/samaritan/pb/config/protocol"
	pbredis "github.com/samaritan-proxy/samaritan/pb/config/protocol/redis"
	"github.com/samaritan-proxy/samaritan/pb/config/service"
	"github.com/samaritan-proxy/samaritan/proc"
	"github.com/samaritan-proxy/samaritan/proc/internal/log"
	_ "github.com/samaritan-proxy/samaritan/proc/redis/compressor/snappy"
	"github.com/samaritan-proxy/samaritan/stats"
	"github.com/samaritan-proxy/samaritan/utils"
)

// huntC18Page is one step of a node's own SCAN iteration.
type huntC18Page struct {
	next uint64
	keys []string
}

// huntC18Node is a simulated Redis node: it answers READONLY and SCAN.
type huntC18Node struct {
	l     net.Listener
	pages map[uint64]huntC18Page // node cursor -> page

	mu    sync.Mutex
	scans [][]string // the SCAN commands received (all arguments)
}

func newHuntC18Node(t *testing.T, pages map[uint64]huntC18Page) *huntC18Node {
	t.Helper()
	l, err := net.Listen("tcp", "127.0.0.1:0")
	if err != nil {
		t.Fatal(err)
	}
	n := &huntC18Node{l: l, pages: pages}
	go func() {
		for {
			conn, err := l.Accept()
			if err != nil {
				return
			}
			go n.serve(conn)
		}
	}()
	return n
}

func (n *huntC18Node) serve(conn net.Conn) {
	defer conn.Close()
	dec := newDecoder(conn, 4096)
	enc := newEncoder(conn, 4096)
	for {
		v, err := dec.Decode()
		if err != nil {
			return
		}
		var reply *RespValue
		args := make([]string, 0, len(v.Array))
		for _, a := range v.Array {
			args = append(args, string(a.Text))
		}
		switch {
		case len(args) >= 2 && (args[0] == "scan" || args[0] == "SCAN"):
			n.mu.Lock()
			n.scans = append(n.scans, args)
			n.mu.Unlock()
			cur, err := strconv.ParseUint(args[1], 10, 64)
			page, ok := n.pages[cur]
			if err != nil || !ok {
				reply = newError("ERR invalid cursor")
				break
			}
			keys := make([]RespValue, 0, len(page.keys))
			for _, k := range page.keys {
				keys = append(keys, *newBulkString(k))
			}
			reply = newArray(
				*newBulkString(strconv.FormatUint(page.next, 10)),
				*newArray(keys...),
			)
		default:
			reply = newSimpleString("OK")
		}
		if err := enc.Encode(reply); err != nil {
			return
		}
		if err := enc.Flush(); err != nil {
			return
		}
	}
}

func (n *huntC18Node) Scans() [][]string {
	n.mu.Lock()
	defer n.mu.Unlock()
	return append([][]string{}, n.scans...)
}

func newHuntC18Proc(t *testing.T, option *protocol.RedisOption, nodes ...*huntC18Node) *redisProc {
	t.Helper()
	svcCfg := &service.Config{
		Listener: &service.Listener{
			Address: &common.Address{Ip: "127.0.0.1", Port: 0},
		},
		ConnectTimeout:  utils.DurationPtr(time.Second),
		Protocol:        protocol.Redis,
		ProtocolOptions: &service.Config_RedisOption{RedisOption: option},
	}
	hosts := make([]*host.Host, 0, len(nodes))
	for _, n := range nodes {
		hosts = append(hosts, host.New(n.l.Addr().String()))
	}
	name := fmt.Sprintf("huntc18.%d", time.Now().UnixNano())
	p, err := newRedisProc(name, svcCfg, hosts,
		proc.NewStats(stats.CreateScope("service."+name)), log.New("["+name+"]"))
	if err != nil {
		t.Fatal(err)
	}
	return p
}

// huntC18Scan sends one SCAN through the real request path of the processor.
func huntC18Scan(t *testing.T, p *redisProc, args ...string) *RespValue {
	t.Helper()
	raw := newRawRequest(newStringArray(append([]string{"SCAN"}, args...)...))
	p.handleRequest(raw)
	select {
	case <-raw.done:
	case <-time.After(5 * time.Second):
		t.Fatalf("SCAN %v: no reply after 5s", args)
	}
	return raw.Response()
}

func huntC18IsTerm(v *RespValue) bool {
	return v != nil && v.Type == Array && len(v.Array) == 2 &&
		string(v.Array[0].Text) == "0" &&
		v.Array[1].Type == Array && len(v.Array[1].Array) == 0
}

func huntC18Describe(v *RespValue) string {
	if v == nil {
		return "<nil>"
	}
	switch v.Type {
	case Error:
		return "error " + strconv.Quote(string(v.Text))
	case Array:
		s := "["
		for i := range v.Array {
			if i > 0 {
				s += " "
			}
			s += huntC18Describe(&v.Array[i])
		}
		return s + "]"
	default:
		return strconv.Quote(string(v.Text))
	}
}

// huntC18ResetTermReply undoes what the existing TestScanRequestResponse/"finished
// in current node" does when it runs earlier in the same binary: it uses the global
// respScanTerm as a node's reply, and Convert's hook rewrites the cursor of that
// reply in place (to 2<<48). No product path does that; without the reset the
// terminating reply seen here would be the polluted one.
func huntC18ResetTermReply() {
	respScanTerm = newArray(
		*newBulkString("0"),
		*newArray([]RespValue{}...),
	)
}

func huntC18ThreeNodes(t *testing.T) []*huntC18Node {
	huntC18ResetTermReply()
	const top = uint64(1)<<48 - 1
	return []*huntC18Node{
		newHuntC18Node(t, map[uint64]huntC18Page{
			0:       {next: top, keys: []string{"a1", "a2"}},
			top:     {next: 1 << 47, keys: []string{}},
			1 << 47: {next: 0, keys: []string{"a3"}},
		}),
		newHuntC18Node(t, map[uint64]huntC18Page{
			0: {next: 0, keys: []string{}},
		}),
		newHuntC18Node(t, map[uint64]huntC18Page{
			0:  {next: 17, keys: []string{"c1"}},
			17: {next: 0, keys: []string{"c2", "c3"}},
		}),
	}
}

// The whole iteration over three nodes works (this part passes); then the
// client supplies cursors whose node index is far past the last node and has
// its top bit set. Expected: the terminating reply. Current code: an error.
func TestVerifHuntC18CursorPastLastNodeIsAnError(t *testing.T) {
	nodes := huntC18ThreeNodes(t)
	for _, n := range nodes {
		defer n.l.Close()
	}
	p := newHuntC18Proc(t, &protocol.RedisOption{}, nodes...)
	defer p.u.Stop()

	// 1. sanity: a complete iteration terminates and returns every key.
	got := map[string]int{}
	cursor := "0"
	calls := 0
	for {
		calls++
		if calls > 50 {
			t.Fatalf("iteration does not terminate, cursor %s", cursor)
		}
		v := huntC18Scan(t, p, cursor, "MATCH", "*", "COUNT", "7")
		if v.Type != Array || len(v.Array) != 2 {
			t.Fatalf("call %d (cursor %s): unexpected reply %s", calls, cursor, huntC18Describe(v))
		}
		for _, k := range v.Array[1].Array {
			got[string(k.Text)]++
		}
		cursor = string(v.Array[0].Text)
		if cursor == "0" {
			break
		}
	}
	keys := make([]string, 0, len(got))
	for k := range got {
		keys = append(keys, k)
	}
	sort.Strings(keys)
	if fmt.Sprint(keys) != "[a1 a2 a3 c1 c2 c3]" {
		t.Fatalf("keys returned by the iteration: %v", keys)
	}
	for i, n := range nodes {
		for _, s := range n.Scans() {
			if fmt.Sprint(s[2:]) != "[MATCH * COUNT 7]" {
				t.Fatalf("node %d: MATCH/COUNT not passed through: %v", i, s)
			}
		}
	}

	// 2. cursors past the last node (3 nodes; node index >= 3).
	past := []uint64{
		uint64(3) << 48,            // the cursor the proxy itself hands out after the last node
		uint64(0x7fff)<<48 | 5,     // node index 32767: highest index below the sign bit
		uint64(0x8000) << 48,       // node index 32768 = 2^63
		uint64(0x8000)<<48 | 7,     // node index 32768, node cursor 7
		uint64(0xfffe)<<48 | 1<<47, // node index 65534
		^uint64(0),                 // 2^64-1, the largest cursor Redis itself accepts
	}
	failed := 0
	for _, c := range past {
		text := strconv.FormatUint(c, 10)
		v := huntC18Scan(t, p, text)
		if !huntC18IsTerm(v) {
			failed++
			t.Errorf("SCAN %s (node index %d, 3 nodes): want the terminating reply [\"0\" []], got %s",
				text, c>>48, huntC18Describe(v))
		}
	}
	if failed > 0 {
		t.Logf("%d of %d cursors past the last node were answered with an error", failed, len(past))
	}
}

// White-box: what Convert's reply hook hands to the client must be accepted by
// newScanRequest and give back the same (node index, node cursor).
func TestVerifHuntC18CursorOfHighNodeIndexDoesNotRoundTrip(t *testing.T) {
	type tc struct {
		idx        uint16 // node that is being scanned
		nodeCursor uint64 // cursor in the request to it
		nodeNext   uint64 // cursor in the node's reply
	}
	const top = uint64(1)<<48 - 1
	cases := []tc{
		{idx: 0, nodeCursor: 0, nodeNext: top},
		{idx: 5, nodeCursor: top, nodeNext: 0},
		{idx: 32766, nodeCursor: 3, nodeNext: 0},   // -> (32767, 0): still below 2^63
		{idx: 32767, nodeCursor: 3, nodeNext: 0},   // -> (32768, 0) = 2^63
		{idx: 32767, nodeCursor: 3, nodeNext: top}, // -> (32767, 2^48-1) = 2^63-1
	}
	// requests to a node with index >= 32768 cannot even be built from text on
	// the current code, so the scanRequest is built directly for them.
	direct := []tc{
		{idx: 32768, nodeCursor: 0, nodeNext: 12},
		{idx: 40000, nodeCursor: 12, nodeNext: top},
		{idx: 65534, nodeCursor: 1, nodeNext: 0},
	}

	check := func(c tc, scanReq *scanRequest) {
		_, sreq := scanReq.Convert()
		if s := string(sreq.Body().Array[1].Text); s != strconv.FormatUint(c.nodeCursor, 10) {
			t.Errorf("node %d: cursor sent to the node is %s, want %d", c.idx, s, c.nodeCursor)
		}
		sreq.SetResponse(newArray(
			*newBulkString(strconv.FormatUint(c.nodeNext, 10)),
			*newArray(*newBulkString("k")),
		))
		handed := string(scanReq.raw.Response().Array[0].Text)

		wantIdx, wantCur := c.idx, c.nodeNext
		if c.nodeNext == 0 {
			wantIdx++
		}
		next, err := newScanRequest(newRawRequest(newStringArray("scan", handed)))
		if err != nil {
			t.Errorf("node %d, node reply cursor %d: the proxy hands out cursor %s and then rejects it: %v",
				c.idx, c.nodeNext, handed, err)
			return
		}
		if next.nodeIdx != wantIdx || next.nodeCursor != wantCur {
			t.Errorf("cursor %s decodes to (%d,%d), want (%d,%d)", handed, next.nodeIdx, next.nodeCursor, wantIdx, wantCur)
		}
	}

	for _, c := range cases {
		text := strconv.FormatUint(uint64(c.idx)<<48|c.nodeCursor, 10)
		scanReq, err := newScanRequest(newRawRequest(newStringArray("scan", text)))
		if err != nil {
			t.Errorf("cursor %s rejected: %v", text, err)
			continue
		}
		check(c, scanReq)
	}
	for _, c := range direct {
		raw := newRawRequest(newStringArray("scan", "0"))
		check(c, &scanRequest{raw: raw, nodeIdx: c.idx, nodeCursor: c.nodeCursor})
	}
}

// Second finding: a compression section in the configuration (enable=false is
// enough) makes the client run the decompression hook over SCAN replies, which
// contain key NAMES only. A key whose name is a valid frame is renamed.
func TestVerifHuntC18ScanReplyKeyNamesAreDecompressed(t *testing.T) {
	stored := compress(pbredis.Compression_SNAPPY, "ghost") // the NAME of a key on the node
	node := newHuntC18Node(t, map[uint64]huntC18Page{
		0: {next: 0, keys: []string{"plain", stored}},
	})
	defer node.l.Close()
	p := newHuntC18Proc(t, &protocol.RedisOption{
		Compression: &pbredis.Compression{Enable: false, Algorithm: pbredis.Compression_SNAPPY, Threshold: 1},
	}, node)
	defer p.u.Stop()

	v := huntC18Scan(t, p, "0")
	if v.Type != Array || len(v.Array) != 2 {
		t.Fatalf("unexpected reply %s", huntC18Describe(v))
	}
	got := map[string]bool{}
	for _, k := range v.Array[1].Array {
		got[string(k.Text)] = true
	}
	if got["ghost"] {
		t.Errorf("SCAN returned the key %q, which is stored on no node", "ghost")
	}
	if !got[stored] {
		t.Errorf("SCAN did not return the key %q, which is stored on the node; reply %s", stored, huntC18Describe(v))
	}
}
