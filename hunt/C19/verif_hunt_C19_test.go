package redis

import (
	"net"
	"strings"
	"sync"
	"testing"
	"time"

	"github.com/samaritan-proxy/samaritan/host"
)

// The hot-key counter of a backend address is shared by name between the old and the
// new connection to that address (hotkey.Collector.AllocCounter returns the registered
// counter), but it is unregistered and reset by whichever connection is stopped
// (client.Stop -> FilterChain.Reset -> hotKeyFilter.Destroy -> Counter.Free).
//
// A connection that ends by itself (the node closes it) does not free the counter, the
// next connection to the address shares it. OnHostRemove / resetAllClients stop the
// clients of a snapshot of the table one after the other: when the old connection of a
// snapshot is stopped after its successor has been made, Stop frees the counter the
// successor is counting into. From then on the live connection counts into a counter
// the collector does not know: nothing that is accessed through it is ever reported by
// HOTKEY again, for as long as that connection lives.

// huntC19Backend answers every request with +OK. Its connections are tracked, so that
// closing it does not wait for connections the proxy has forgotten about.
type huntC19Server struct {
	l     net.Listener
	mu    sync.Mutex
	conns []net.Conn
}

func huntC19Backend(t *testing.T) *huntC19Server {
	l, err := net.Listen("tcp", "127.0.0.1:0")
	if err != nil {
		t.Fatal(err)
	}
	s := &huntC19Server{l: l}
	go func() {
		for {
			conn, err := l.Accept()
			if err != nil {
				return
			}
			s.mu.Lock()
			s.conns = append(s.conns, conn)
			s.mu.Unlock()
			go func() {
				defer conn.Close()
				dec := newDecoder(conn, 4096)
				for {
					if _, err := dec.Decode(); err != nil {
						return
					}
					if _, err := conn.Write([]byte("+OK\r\n")); err != nil {
						return
					}
				}
			}()
		}
	}()
	return s
}

func (s *huntC19Server) Addr() string { return s.l.Addr().String() }

func (s *huntC19Server) Shutdown() {
	s.l.Close()
	s.CloseConns()
}

// CloseConns closes the connections accepted so far, the node keeps listening.
func (s *huntC19Server) CloseConns() {
	s.mu.Lock()
	for _, c := range s.conns {
		c.Close()
	}
	s.mu.Unlock()
}

func huntC19HotKeyReply(u *upstream) string {
	raw := newRawRequest(newStringArray("hotkey"))
	handleHotKey(u, raw)
	return string(raw.Response().Text)
}

func huntC19GetFrom(u *upstream, addr, key string) *simpleRequest {
	req := newSimpleRequest(newStringArray("get", key))
	u.MakeRequestToHost(addr, req) // what slot routing and MOVED redirection call
	return req
}

func huntC19WaitSimple(t *testing.T, req *simpleRequest) {
	t.Helper()
	select {
	case <-req.done:
	case <-time.After(5 * time.Second):
		t.Fatal("request not answered")
	}
	if req.Response().Type == Error {
		t.Fatalf("unexpected error reply: %s", req.Response().Text)
	}
}

func TestVerifHuntC19LiveConnectionCounterFreedByOldConnection(t *testing.T) {
	nodeA, nodeB := huntC19Backend(t), huntC19Backend(t)
	defer nodeA.Shutdown()
	defer nodeB.Shutdown()
	addrA, addrB := nodeA.Addr(), nodeB.Addr()

	u := newTestUpstream(nil)
	if err := u.OnHostAdd(host.New(addrA), host.New(addrB)); err != nil {
		t.Fatal(err)
	}
	stop := make(chan struct{})
	defer close(stop)
	go u.hkc.Run(stop) // the real collector: collects every 10s
	defer func() {
		for _, c := range u.loadClients() {
			c.Stop()
		}
	}()

	// 1. traffic to both nodes.
	for i := 0; i < 20; i++ {
		huntC19WaitSimple(t, huntC19GetFrom(u, addrA, "warm"))
		huntC19WaitSimple(t, huntC19GetFrom(u, addrB, "other"))
	}
	oldA, oldB := u.loadClients()[addrA], u.loadClients()[addrB]
	if oldA == nil || oldB == nil {
		t.Fatal("no clients")
	}

	// 2. a response on the connection to B takes a while to be delivered (the hooks of a
	// request run in the read loop of the backend connection), so stopping B takes a while.
	release := make(chan struct{})
	entered := make(chan struct{})
	slow := newSimpleRequest(newStringArray("get", "slow"))
	slow.RegisterHook(func(*simpleRequest) {
		close(entered)
		<-release
	})
	u.MakeRequestToHost(addrB, slow)
	<-entered

	// 3. B and A are taken out of the host list: snapshot of the table, Stop(B), Stop(A).
	removed := make(chan struct{})
	go func() {
		u.OnHostRemove(host.New(addrB), host.New(addrA)) //nolint:errcheck
		close(removed)
	}()
	select {
	case <-oldB.quit: // Stop(B) has begun, the snapshot has been taken
	case <-time.After(5 * time.Second):
		t.Fatal("Stop(B) not started")
	}

	// 4. node A restarts: the old connection ends by itself and leaves the table.
	nodeA.CloseConns()
	deadline := time.Now().Add(5 * time.Second)
	for u.loadClients()[addrA] != nil {
		if time.Now().After(deadline) {
			t.Fatal("old client of A not removed")
		}
		time.Sleep(time.Millisecond)
	}
	select {
	case <-oldA.done:
	case <-time.After(5 * time.Second):
		t.Fatal("old client of A not done")
	}

	// 5. A still owns slots: the next request makes a new connection to it.
	huntC19WaitSimple(t, huntC19GetFrom(u, addrA, "probe"))
	cur := u.loadClients()[addrA]
	if cur == nil || cur == oldA {
		t.Fatalf("expected a new client for A, got %p (old %p)", cur, oldA)
	}

	// 6. Stop(B) finishes, Stop(old A) follows and frees "its" counter.
	close(release)
	select {
	case <-removed:
	case <-time.After(5 * time.Second):
		t.Fatal("OnHostRemove did not return")
	}

	// 7. a key becomes very hot on the live connection to A.
	for i := 0; i < 2000; i++ {
		huntC19WaitSimple(t, huntC19GetFrom(u, addrA, "hot"))
	}

	// 8. after a full collection period HOTKEY must list it.
	var reply string
	end := time.Now().Add(12 * time.Second)
	for time.Now().Before(end) {
		reply = huntC19HotKeyReply(u)
		if strings.Contains(reply, "keyname: hot") {
			return
		}
		for i := 0; i < 50; i++ { // keep it hot
			huntC19WaitSimple(t, huntC19GetFrom(u, addrA, "hot"))
		}
		time.Sleep(100 * time.Millisecond)
	}
	if u.loadClients()[addrA] != cur {
		t.Fatal("client of A changed during the test")
	}
	t.Fatalf("key \"hot\" was read >2000 times through the live connection to %s, "+
		"HOTKEY does not list it after a full collection period:\n%s", addrA, reply)
}
