package redis

import (
	"fmt"
	"net"
	"sort"
	"strings"
	"sync"
	"testing"
	"time"

	"github.com/samaritan-proxy/samaritan/host"
	"github.com/samaritan-proxy/samaritan/pb/common"
	"github.com/samaritan-proxy/samaritan/pb/config/protocol"
	pbredis "github.com/samaritan-proxy/samaritan/pb/config/protocol/redis"
	"github.com/samaritan-proxy/samaritan/pb/config/service"
	"github.com/samaritan-proxy/samaritan/proc"
	"github.com/samaritan-proxy/samaritan/proc/internal/log"
	"github.com/samaritan-proxy/samaritan/stats"
	"github.com/samaritan-proxy/samaritan/utils"
)

// huntC14Node is a minimal node of a simulated Redis Cluster: it speaks RESP,
// keeps a log of the command names it receives and answers the few commands the
// test needs.
type huntC14Node struct {
	role  string // "master" or "replica"
	l     net.Listener
	nodes func() string // CLUSTER NODES text
	keys  []string      // what SCAN returns

	mu  sync.Mutex
	log []string
}

func newHuntC14Node(t *testing.T, role string, keys []string) *huntC14Node {
	l, err := net.Listen("tcp", "127.0.0.1:0")
	if err != nil {
		t.Fatal(err)
	}
	n := &huntC14Node{role: role, l: l, keys: keys}
	go n.serve()
	return n
}

func (n *huntC14Node) Addr() string { return n.l.Addr().String() }

func (n *huntC14Node) Log() []string {
	n.mu.Lock()
	defer n.mu.Unlock()
	return append([]string{}, n.log...)
}

func (n *huntC14Node) serve() {
	for {
		conn, err := n.l.Accept()
		if err != nil {
			return
		}
		go n.handle(conn)
	}
}

func (n *huntC14Node) handle(conn net.Conn) {
	defer conn.Close()
	dec := newDecoder(conn, 4096)
	enc := newEncoder(conn, 4096)
	for {
		v, err := dec.Decode()
		if err != nil {
			return
		}
		name := strings.ToLower(string(v.Array[0].Text))
		n.mu.Lock()
		n.log = append(n.log, name)
		n.mu.Unlock()

		var reply *RespValue
		switch name {
		case "readonly", "set":
			reply = newSimpleString("OK")
		case "cluster":
			reply = newBulkString(n.nodes())
		case "get":
			reply = newBulkString("v")
		case "scan":
			// the whole key space of this node in one page: next cursor 0.
			reply = newArray(*newBulkString("0"), *newStringArray(n.keys...))
		default:
			reply = newError("ERR unknown command")
		}
		if enc.Encode(reply) != nil || enc.Flush() != nil {
			return
		}
	}
}

// A full SCAN iteration through the proxy, read strategy MASTER, cluster of one
// master and one replica, both known to the proxy as hosts of the service (what a
// service registry delivers for a Redis Cluster).
//
// Expected by C14: "only read-only commands may go to replicas, and then only to
// replicas of the owning master and only when the strategy permits it" - under the
// MASTER strategy the replica must not receive anything but the proxy's own
// READONLY / CLUSTER NODES. Actual: handleScan walks over upstream.Hosts() (every
// healthy host, whatever its role) and sends SCAN to the replica as well; the
// client gets every key twice.
func TestVerifHuntC14ScanGoesToReplicaUnderMasterStrategy(t *testing.T) {
	oldFreq, oldMin := slotsRefFreq, slotsRefMinRate
	slotsRefFreq, slotsRefMinRate = time.Minute, 20*time.Millisecond
	defer func() { slotsRefFreq, slotsRefMinRate = oldFreq, oldMin }()
	// TestScanRequestResponse of the package hands the shared respScanTerm to a request
	// hook that rewrites its cursor: start from a clean one whatever ran before.
	oldTerm := respScanTerm
	respScanTerm = newArray(*newBulkString("0"), *newArray([]RespValue{}...))
	defer func() { respScanTerm = oldTerm }()

	keys := []string{"k1", "k2", "k3"}
	master := newHuntC14Node(t, "master", keys)
	replica := newHuntC14Node(t, "replica", keys) // a replica holds the same keys
	defer master.l.Close()
	defer replica.l.Close()
	nodes := func() string {
		return fmt.Sprintf("%s %s master - 0 1528688887753 7 connected 0-16383\n"+
			"%s %s slave %s 0 1528688887753 7 connected\n",
			strings.Repeat("a", 40), master.Addr(),
			strings.Repeat("b", 40), replica.Addr(), strings.Repeat("a", 40))
	}
	master.nodes, replica.nodes = nodes, nodes

	for _, strategy := range []pbredis.ReadStrategy{pbredis.ReadStrategy_MASTER} {
		svcCfg := &service.Config{
			Listener: &service.Listener{
				Address: &common.Address{Ip: "127.0.0.1", Port: 0},
			},
			ConnectTimeout: utils.DurationPtr(time.Second),
			Protocol:       protocol.Redis,
			ProtocolOptions: &service.Config_RedisOption{RedisOption: &protocol.RedisOption{
				ReadStrategy: strategy,
			}},
		}
		hosts := []*host.Host{host.New(master.Addr()), host.New(replica.Addr())}
		p, err := newRedisProc("huntc14", svcCfg, hosts,
			proc.NewStats(stats.CreateScope(fmt.Sprintf("service.huntc14.%d", time.Now().UnixNano()))), log.New("[huntc14]"))
		if err != nil {
			t.Fatal(err)
		}
		go p.u.Serve()
		defer p.u.Stop()

		// wait until the routing table is known (so that nothing below is the
		// "no slot information yet" fallback).
		deadline := time.Now().Add(5 * time.Second)
		for p.u.stats.NewChild("slots_refresh").Counter("success_total").Value() == 0 {
			if time.Now().After(deadline) {
				t.Fatal("slots were never refreshed")
			}
			time.Sleep(5 * time.Millisecond)
		}
		if inst := p.u.slots[0]; inst == nil || inst.Addr != master.Addr() ||
			len(inst.Replicas) != 1 || inst.Replicas[0].Addr != replica.Addr() {
			t.Fatalf("unexpected routing table: %+v", inst)
		}

		// a real downstream session.
		cconn, sconn := net.Pipe()
		go p.handleConn(sconn)
		defer cconn.Close()
		cconn.SetDeadline(time.Now().Add(10 * time.Second)) //nolint:errcheck
		enc := newEncoder(cconn, 4096)
		dec := newDecoder(cconn, 4096)
		do := func(args ...string) *RespValue {
			if err := enc.Encode(newStringArray(args...)); err != nil {
				t.Fatal(err)
			}
			if err := enc.Flush(); err != nil {
				t.Fatal(err)
			}
			v, err := dec.Decode()
			if err != nil {
				t.Fatalf("%v: %v", args, err)
			}
			return v
		}

		// control: keyed reads and writes respect the strategy.
		for i := 0; i < 20; i++ {
			if v := do("GET", fmt.Sprintf("key%d", i)); v.Type != BulkString {
				t.Fatalf("GET: %v", v)
			}
		}
		do("SET", "a", "1")

		// the full iteration, as every SCAN user does it.
		var got []string
		cursor := "0"
		for n := 0; ; n++ {
			if n > 16 {
				t.Fatal("SCAN does not terminate")
			}
			v := do("SCAN", cursor)
			if v.Type != Array || len(v.Array) != 2 {
				t.Fatalf("SCAN %s: %v", cursor, v)
			}
			for _, k := range v.Array[1].Array {
				got = append(got, string(k.Text))
			}
			cursor = string(v.Array[0].Text)
			if cursor == "0" {
				break
			}
		}

		var foreign []string
		for _, name := range replica.Log() {
			if name != "readonly" && name != "cluster" {
				foreign = append(foreign, name)
			}
		}
		sort.Strings(got)
		t.Logf("strategy %v: master log %v", strategy, master.Log())
		t.Logf("strategy %v: replica log %v", strategy, replica.Log())
		t.Logf("strategy %v: keys returned by the iteration: %v", strategy, got)
		if len(foreign) != 0 {
			t.Errorf("read strategy %v: the replica %s received client commands %v; "+
				"the strategy permits nothing on replicas", strategy, replica.Addr(), foreign)
		}
		if len(got) != len(keys) {
			t.Errorf("read strategy %v: the iteration returned %d keys %v, the cluster holds %d (%v)",
				strategy, len(got), got, len(keys), keys)
		}
	}
}
