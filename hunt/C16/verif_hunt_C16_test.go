package config

// Hunt C16: a dependency that is removed while the *dependency* stream is down is
// never unsubscribed from the service-config / service-endpoint streams (and never
// reported to the dependency hook), although all three streams are up again.
//
// The discovery server below is a real gRPC server. It is stateless per stream, as
// the protocol forces it to be: DependencyDiscoveryRequest carries only the instance,
// so on every new StreamDependencies call the server can do nothing but send the
// whole current dependency set as `added` and differences afterwards.

import (
	"fmt"
	"net"
	"sort"
	"strings"
	"sync"
	"testing"
	"time"

	"google.golang.org/grpc"
	"google.golang.org/grpc/codes"
	"google.golang.org/grpc/status"

	"github.com/samaritan-proxy/samaritan/pb/api"
	"github.com/samaritan-proxy/samaritan/pb/config/bootstrap"
	"github.com/samaritan-proxy/samaritan/pb/config/service"
)

type huntC16DepSession struct {
	updates chan *api.DependencyDiscoveryResponse
	kill    chan struct{}
}

type huntC16Server struct {
	mu         sync.Mutex
	deps       map[string]struct{}
	sessions   map[*huntC16DepSession]struct{}
	depStreams int // number of dependency streams which got their initial set
	// subscribe requests minus unsubscribe requests of the current config / endpoint stream.
	cfgSub map[string]struct{}
	etSub  map[string]struct{}
}

func huntC16Svcs(names ...string) []*service.Service {
	out := make([]*service.Service, 0, len(names))
	for _, n := range names {
		out = append(out, &service.Service{Name: n})
	}
	return out
}

func huntC16Keys(m map[string]struct{}) string {
	keys := make([]string, 0, len(m))
	for k := range m {
		keys = append(keys, k)
	}
	sort.Strings(keys)
	return strings.Join(keys, ",")
}

func (s *huntC16Server) StreamDependencies(_ *api.DependencyDiscoveryRequest, stream api.DiscoveryService_StreamDependenciesServer) error {
	sess := &huntC16DepSession{
		updates: make(chan *api.DependencyDiscoveryResponse, 64),
		kill:    make(chan struct{}),
	}
	s.mu.Lock()
	names := make([]string, 0, len(s.deps))
	for n := range s.deps {
		names = append(names, n)
	}
	s.sessions[sess] = struct{}{}
	s.mu.Unlock()

	// the whole current set first.
	if err := stream.Send(&api.DependencyDiscoveryResponse{Added: huntC16Svcs(names...)}); err != nil {
		return err
	}
	s.mu.Lock()
	s.depStreams++
	s.mu.Unlock()

	for {
		select {
		case resp := <-sess.updates:
			if err := stream.Send(resp); err != nil {
				return err
			}
		case <-sess.kill:
			return status.Error(codes.Unavailable, "dependency stream broken by the test")
		case <-stream.Context().Done():
			return stream.Context().Err()
		}
	}
}

func (s *huntC16Server) StreamSvcConfigs(stream api.DiscoveryService_StreamSvcConfigsServer) error {
	sub := make(map[string]struct{})
	s.mu.Lock()
	s.cfgSub = sub
	s.mu.Unlock()
	for {
		req, err := stream.Recv()
		if err != nil {
			return err
		}
		s.mu.Lock()
		for _, n := range req.SvcNamesSubscribe {
			sub[n] = struct{}{}
		}
		for _, n := range req.SvcNamesUnsubscribe {
			delete(sub, n)
		}
		s.mu.Unlock()
	}
}

func (s *huntC16Server) StreamSvcEndpoints(stream api.DiscoveryService_StreamSvcEndpointsServer) error {
	sub := make(map[string]struct{})
	s.mu.Lock()
	s.etSub = sub
	s.mu.Unlock()
	for {
		req, err := stream.Recv()
		if err != nil {
			return err
		}
		s.mu.Lock()
		for _, n := range req.SvcNamesSubscribe {
			sub[n] = struct{}{}
		}
		for _, n := range req.SvcNamesUnsubscribe {
			delete(sub, n)
		}
		s.mu.Unlock()
	}
}

// removeDep removes a dependency and tells every live dependency stream about it.
func (s *huntC16Server) removeDep(name string) {
	s.mu.Lock()
	defer s.mu.Unlock()
	delete(s.deps, name)
	for sess := range s.sessions {
		sess.updates <- &api.DependencyDiscoveryResponse{Removed: huntC16Svcs(name)}
	}
}

// breakDepStreamsAndRemove breaks every dependency stream and removes the dependency
// while no dependency stream exists (the client comes back about a second later).
func (s *huntC16Server) breakDepStreamsAndRemove(name string) {
	s.mu.Lock()
	defer s.mu.Unlock()
	for sess := range s.sessions {
		close(sess.kill)
		delete(s.sessions, sess)
	}
	delete(s.deps, name)
}

func (s *huntC16Server) state() (deps, cfg, et string, depStreams int) {
	s.mu.Lock()
	defer s.mu.Unlock()
	return huntC16Keys(s.deps), huntC16Keys(s.cfgSub), huntC16Keys(s.etSub), s.depStreams
}

func TestVerifHuntC16DependencyRemovedWhileDependencyStreamDown(t *testing.T) {
	l, err := net.Listen("tcp", "127.0.0.1:0")
	if err != nil {
		t.Fatal(err)
	}
	defer l.Close()

	srv := &huntC16Server{
		deps:     map[string]struct{}{"a": {}, "b": {}, "c": {}},
		sessions: make(map[*huntC16DepSession]struct{}),
	}
	gs := grpc.NewServer()
	api.RegisterDiscoveryServiceServer(gs, srv)
	go gs.Serve(l) //nolint:errcheck
	defer gs.Stop()

	b := &bootstrap.Bootstrap{
		Instance:            mockInstance(),
		DynamicSourceConfig: &bootstrap.ConfigSource{Endpoint: l.Addr().String()},
	}
	d, err := newDynamicSource(b)
	if err != nil {
		t.Fatal(err)
	}

	// the client's own view of its dependencies, as the config store would keep it.
	var viewMu sync.Mutex
	view := make(map[string]struct{})
	d.SetDependencyHook(func(added, removed []*service.Service) {
		viewMu.Lock()
		defer viewMu.Unlock()
		for _, svc := range added {
			view[svc.Name] = struct{}{}
		}
		for _, svc := range removed {
			delete(view, svc.Name)
		}
	})
	clientView := func() string {
		viewMu.Lock()
		defer viewMu.Unlock()
		return huntC16Keys(view)
	}

	served := make(chan struct{})
	go func() {
		defer close(served)
		d.Serve()
	}()
	defer func() {
		d.Stop()
		<-served
	}()

	waitFor := func(what string, timeout time.Duration, want string, minDepStreams int) error {
		deadline := time.Now().Add(timeout)
		for {
			deps, cfg, et, n := srv.state()
			v := clientView()
			if deps == want && cfg == want && et == want && v == want && n >= minDepStreams {
				return nil
			}
			if time.Now().After(deadline) {
				return fmt.Errorf("%s: after %s: server's dependency set={%s} dependency streams served=%d; "+
					"subscribed on config stream={%s} on endpoint stream={%s}; client's dependency view={%s}; want all = {%s}",
					what, timeout, deps, n, cfg, et, v, want)
			}
			time.Sleep(10 * time.Millisecond)
		}
	}

	// 1. all streams up, everything subscribed.
	if err := waitFor("initial", 5*time.Second, "a,b,c", 1); err != nil {
		t.Fatal(err)
	}
	// 2. control: a removal while the dependency stream is up is followed.
	srv.removeDep("c")
	if err := waitFor("removal of c with the dependency stream up", 5*time.Second, "a,b", 1); err != nil {
		t.Fatal(err)
	}
	// 3. the dependency stream fails; b is removed before the client is back.
	srv.breakDepStreamsAndRemove("b")
	// 4. the client re-establishes the dependency stream (second stream served) and
	//    is told the whole current set {a}. The config and endpoint streams were
	//    never down. Give it ten seconds to bring the subscriptions to {a}.
	if err := waitFor("removal of b while the dependency stream was down", 10*time.Second, "a", 2); err != nil {
		t.Fatal(err)
	}
}
