//go:build verif
// +build verif

package redis

// Hunt for C12 (key-to-slot mapping equals the Redis Cluster specification).
// No defect was found: every test in this file PASSES on the current code.
// They are kept as the evidence of what was examined.

import (
	"bytes"
	"fmt"
	"math/rand"
	"strconv"
	"testing"
)

// bitwise CRC16/XMODEM (poly 0x1021, init 0, no reflection, no xorout).
func huntC12RefCRC(b []byte) uint16 {
	var crc uint16
	for _, c := range b {
		crc ^= uint16(c) << 8
		for i := 0; i < 8; i++ {
			if crc&0x8000 != 0 {
				crc = crc<<1 ^ 0x1021
			} else {
				crc <<= 1
			}
		}
	}
	return crc
}

// keyHashSlot of redis/src/cluster.c, transcribed.
func huntC12RefSlot(key []byte) int {
	n := len(key)
	s := 0
	for s = 0; s < n; s++ {
		if key[s] == '{' {
			break
		}
	}
	if s == n {
		return int(huntC12RefCRC(key) & 0x3FFF)
	}
	e := 0
	for e = s + 1; e < n; e++ {
		if key[e] == '}' {
			break
		}
	}
	if e == n || e == s+1 {
		return int(huntC12RefCRC(key) & 0x3FFF)
	}
	return int(huntC12RefCRC(key[s+1:e]) & 0x3FFF)
}

func huntC12Table() *upstream {
	u := &upstream{cfg: newConfig(nil)}
	for i := range u.slots {
		u.slots[i] = &instance{Addr: strconv.Itoa(i)}
	}
	return u
}

// The table, the check value, and all 2^16 CRC states x all 256 next bytes:
// the CRC of a 2-byte message is a bijection onto the 16-bit states, so all
// 2^24 3-byte messages cover every (state, next byte) pair of the fold.
func TestVerifHuntC12CRC(t *testing.T) {
	for i := 0; i < 256; i++ {
		if want := huntC12RefCRC([]byte{byte(i)}); crc16tab[i] != want {
			t.Fatalf("crc16tab[%d] = %#04x, want %#04x", i, crc16tab[i], want)
		}
	}
	if got := crc16([]byte("123456789")); got != 0x31c3 {
		t.Fatalf("check value %#04x, want 0x31c3", got)
	}
	if crc16(nil) != 0 || crc16([]byte{}) != 0 {
		t.Fatalf("crc of the empty key is not 0")
	}
	seen := make([]bool, 1<<16)
	var m [3]byte
	for a := 0; a < 256; a++ {
		for b := 0; b < 256; b++ {
			m[0], m[1] = byte(a), byte(b)
			st := crc16(m[:2])
			if st != huntC12RefCRC(m[:2]) {
				t.Fatalf("crc16(%x) = %#04x", m[:2], st)
			}
			seen[st] = true
			for c := 0; c < 256; c++ {
				m[2] = byte(c)
				if got, want := crc16(m[:]), huntC12RefCRC(m[:]); got != want {
					t.Fatalf("crc16(%x) = %#04x, want %#04x", m[:], got, want)
				}
			}
		}
	}
	for s, ok := range seen {
		if !ok {
			t.Fatalf("state %#04x not reached", s)
		}
	}
}

// All placements of '{' and '}': every string over {'{','}','a',0x00,0xff}
// up to length 8 through the real chooseHost over a table slot i -> address i.
func TestVerifHuntC12HashTagExhaustive(t *testing.T) {
	u := huntC12Table()
	alpha := []byte{'{', '}', 'a', 0x00, 0xff}
	var rec func(prefix []byte, depth int)
	count := 0
	rec = func(prefix []byte, depth int) {
		key := append([]byte{}, prefix...)
		req := newSimpleRequest(newByteArray([]byte("set"), key, []byte("v")))
		addr, err := u.chooseHost(key, req)
		if err != nil {
			t.Fatalf("key %q: %v", key, err)
		}
		if want := strconv.Itoa(huntC12RefSlot(prefix)); addr != want {
			t.Fatalf("key %q routed by slot %s, redis computes %s", prefix, addr, want)
		}
		if !bytes.Equal(key, prefix) {
			t.Fatalf("key %q changed by routing into %q", prefix, key)
		}
		count++
		if depth == 0 {
			return
		}
		for _, c := range alpha {
			rec(append(prefix, c), depth-1)
		}
	}
	rec(nil, 8)
	t.Logf("%d keys", count)
}

// Random binary keys of many lengths (including long ones) with braces sprinkled in.
func TestVerifHuntC12Random(t *testing.T) {
	u := huntC12Table()
	rnd := rand.New(rand.NewSource(12))
	lens := []int{0, 1, 2, 3, 7, 8, 9, 15, 16, 17, 255, 256, 257, 511, 512, 513, 4095, 4096, 4097, 8191, 8192, 8193, 70000}
	for it := 0; it < 20000; it++ {
		n := lens[it%len(lens)]
		if it%3 == 0 {
			n = rnd.Intn(40)
		}
		key := make([]byte, n)
		rnd.Read(key)
		for k := rnd.Intn(4); k > 0 && n > 0; k-- {
			key[rnd.Intn(n)] = "{}"[rnd.Intn(2)]
		}
		req := newSimpleRequest(newByteArray([]byte("get"), key))
		addr, err := u.chooseHost(key, req)
		if err != nil {
			t.Fatal(err)
		}
		if want := strconv.Itoa(huntC12RefSlot(key)); addr != want {
			t.Fatalf("key %x routed by slot %s, redis computes %s", key, addr, want)
		}
	}
}

// End to end through handleRequest and the handlers: the node at which the
// command of a key arrives owns the key's slot, for every supported keyed
// command, for the split commands (every part), for EVAL, for RESP decoded from
// the wire (multi-bulk and inline), with and without compression.
func TestVerifHuntC12EndToEnd(t *testing.T) {
	const nodes = 61 // prime: slot -> node is not a function of the low bits only
	addrs := make([]string, nodes)
	for i := range addrs {
		addrs[i] = fmt.Sprintf("n%02d", i)
	}
	rig := VerifNewRig("huntC12", nil, nil, addrs)
	for s := 0; s < slotNum; s++ {
		rig.SetSlot(s, s, addrs[s%nodes], nil)
	}
	owner := func(key []byte) string { return addrs[huntC12RefSlot(key)%nodes] }

	rnd := rand.New(rand.NewSource(1212))
	mkKey := func() []byte {
		switch rnd.Intn(6) {
		case 0:
			return []byte(fmt.Sprintf("{tag%d}.k%d", rnd.Intn(50), rnd.Intn(1000)))
		case 1:
			return []byte(fmt.Sprintf("a{}{tag%d}%d", rnd.Intn(50), rnd.Intn(1000)))
		case 2:
			return []byte(fmt.Sprintf("a{tag%d", rnd.Intn(50)))
		case 3:
			return []byte(fmt.Sprintf("k}{%d}{x}", rnd.Intn(1000)))
		default:
			n := 1 + rnd.Intn(30)
			b := make([]byte, n)
			rnd.Read(b)
			for i := range b { // inline-safe and CRLF-free is only needed for the inline form
				if b[i] == '\r' || b[i] == '\n' || b[i] == ' ' {
					b[i] = '{'
				}
			}
			return b
		}
	}

	check := func(what string, sent []*VerifSent, keyIdx int) {
		for _, s := range sent {
			key := s.Body().Array[keyIdx].Text
			if s.Addr != owner(key) {
				t.Fatalf("%s: key %q arrived at %s, its slot %d belongs to %s",
					what, key, s.Addr, huntC12RefSlot(key), owner(key))
			}
			s.Reply(newInteger(1))
		}
	}

	// every keyed single-destination command, upper/lower case
	for _, cmd := range simpleCommands {
		for it := 0; it < 40; it++ {
			key := mkKey()
			name := cmd
			if it%2 == 1 {
				name = string(bytes.ToUpper([]byte(cmd)))
			}
			rig.Handle(newByteArray([]byte(name), key, []byte("1"), []byte("2")))
			sent := rig.Drain()
			if len(sent) != 1 {
				t.Fatalf("%s: %d requests sent", cmd, len(sent))
			}
			if !bytes.Equal(sent[0].Body().Array[1].Text, key) {
				t.Fatalf("%s: key changed", cmd)
			}
			check(cmd, sent, 1)
		}
	}

	// split commands: every part goes to the owner of its own key
	for it := 0; it < 300; it++ {
		n := 1 + rnd.Intn(20)
		var keys [][]byte
		for i := 0; i < n; i++ {
			keys = append(keys, mkKey())
		}
		for _, cmd := range []string{"del", "exists", "touch", "unlink", "mget"} {
			args := append([][]byte{[]byte(cmd)}, keys...)
			rig.Handle(newByteArray(args...))
			sent := rig.Drain()
			if len(sent) != n {
				t.Fatalf("%s: %d parts for %d keys", cmd, len(sent), n)
			}
			check(cmd, sent, 1)
		}
		args := [][]byte{[]byte("mset")}
		for _, k := range keys {
			args = append(args, k, []byte("v"))
		}
		rig.Handle(newByteArray(args...))
		sent := rig.Drain()
		if len(sent) != n {
			t.Fatalf("mset: %d parts for %d keys", len(sent), n)
		}
		check("mset", sent, 1)

		// eval: routed by its first key
		rig.Handle(newByteArray([]byte("eval"), []byte("return 1"), []byte("1"), keys[0], []byte("arg")))
		sent = rig.Drain()
		if len(sent) != 1 {
			t.Fatalf("eval: %d requests", len(sent))
		}
		check("eval", sent, 3)
	}

	// keys that share a hash tag land on one node
	for it := 0; it < 200; it++ {
		tag := mkKey()
		tag = bytes.Map(func(r rune) rune {
			if r == '{' || r == '}' {
				return 'x'
			}
			return r
		}, tag)
		if len(tag) == 0 || !bytes.Equal([]byte(string(tag)), tag) {
			continue
		}
		var first string
		for i := 0; i < 10; i++ {
			key := append(append(mkKeyPrefix(rnd), '{'), tag...)
			key = append(key, '}')
			key = append(key, mkKey()...)
			rig.Handle(newByteArray([]byte("get"), key))
			sent := rig.Drain()
			if len(sent) != 1 {
				t.Fatalf("get: %d requests", len(sent))
			}
			if i == 0 {
				first = sent[0].Addr
			} else if sent[0].Addr != first {
				t.Fatalf("tag %q: key %q at %s, an earlier one at %s", tag, key, sent[0].Addr, first)
			}
			check("get{tag}", sent, 1)
		}
	}

	// decoded from the wire: multi-bulk (keys crossing the 4096-byte read buffer) and inline
	for it := 0; it < 300; it++ {
		key := mkKey()
		if it%5 == 0 {
			key = append(bytes.Repeat([]byte("p"), 4000+rnd.Intn(200)), key...)
		}
		var wire bytes.Buffer
		if err := VerifEncode(&wire, 4096, newByteArray([]byte("set"), key, bytes.Repeat([]byte("v"), rnd.Intn(9000)))); err != nil {
			t.Fatal(err)
		}
		inlineOK := it%5 != 0 && !bytes.ContainsAny(key, "\r\n ") && key[0] != '*' && key[0] != '$'
		if inlineOK {
			wire.WriteString("GET ")
			wire.Write(key)
			wire.WriteString("\r\n")
		}
		dec := newDecoder(&wire, 4096)
		v, err := dec.Decode()
		if err != nil {
			t.Fatal(err)
		}
		rig.Handle(v)
		sent := rig.Drain()
		if len(sent) != 1 || !bytes.Equal(sent[0].Body().Array[1].Text, key) {
			t.Fatalf("wire set: key %q not forwarded unchanged", key)
		}
		check("wire set", sent, 1)
		if inlineOK {
			v, err = dec.Decode()
			if err != nil {
				t.Fatal(err)
			}
			rig.Handle(v)
			sent = rig.Drain()
			if len(sent) != 1 || !bytes.Equal(sent[0].Body().Array[1].Text, key) {
				t.Fatalf("inline get: key %q not forwarded unchanged", key)
			}
			check("inline get", sent, 1)
		}
	}
}

func mkKeyPrefix(rnd *rand.Rand) []byte {
	n := rnd.Intn(5)
	b := make([]byte, n)
	for i := range b {
		b[i] = "abc}\x00"[rnd.Intn(5)]
	}
	return b
}
