//go:build verif
// +build verif

package controller

// Hunt for property C08: "running services converge to the configured services and endpoints".
//
// Every test replays a history through the REAL configuration store (config.Config, fed through
// the verif wrappers of its three update handlers) and the REAL controller event loop
// (Controller.Start), and then compares the processors with the store.
//
// Run:  go test -tags verif -run TestVerifHuntC08 -count=1 ./controller/

import (
	"fmt"
	"sort"
	"sync"
	"testing"
	"time"

	"github.com/samaritan-proxy/samaritan/config"
	"github.com/samaritan-proxy/samaritan/host"
	"github.com/samaritan-proxy/samaritan/pb/common"
	"github.com/samaritan-proxy/samaritan/pb/config/protocol"
	"github.com/samaritan-proxy/samaritan/pb/config/service"
	"github.com/samaritan-proxy/samaritan/proc"
)

// huntProc is a recording processor: it keeps the configuration and the host set it was told.
type huntProc struct {
	mu    sync.Mutex
	name  string
	cfg   *service.Config
	hosts map[string]*host.Host
}

func newHuntProc(name string, cfg *service.Config, hosts []*host.Host) (proc.Proc, error) {
	p := &huntProc{name: name, cfg: cfg, hosts: make(map[string]*host.Host, len(hosts))}
	for _, h := range hosts {
		p.hosts[h.Addr] = h
	}
	return p, nil
}

func (p *huntProc) Name() string    { return p.name }
func (p *huntProc) Address() string { return "" }
func (p *huntProc) Config() *service.Config {
	p.mu.Lock()
	defer p.mu.Unlock()
	return p.cfg
}
func (p *huntProc) OnSvcHostAdd(hosts []*host.Host) error {
	p.mu.Lock()
	defer p.mu.Unlock()
	for _, h := range hosts {
		p.hosts[h.Addr] = h
	}
	return nil
}
func (p *huntProc) OnSvcHostRemove(hosts []*host.Host) error {
	p.mu.Lock()
	defer p.mu.Unlock()
	for _, h := range hosts {
		delete(p.hosts, h.Addr)
	}
	return nil
}
func (p *huntProc) OnSvcAllHostReplace(hosts []*host.Host) error {
	p.mu.Lock()
	defer p.mu.Unlock()
	p.hosts = make(map[string]*host.Host, len(hosts))
	for _, h := range hosts {
		p.hosts[h.Addr] = h
	}
	return nil
}
func (p *huntProc) OnSvcConfigUpdate(cfg *service.Config) error {
	p.mu.Lock()
	defer p.mu.Unlock()
	p.cfg = cfg
	return nil
}
func (p *huntProc) Start() error      { return nil }
func (p *huntProc) StopListen() error { return nil }
func (p *huntProc) Stop() error       { return nil }
func (p *huntProc) addrs() map[string]bool {
	p.mu.Lock()
	defer p.mu.Unlock()
	out := make(map[string]bool, len(p.hosts))
	for a := range p.hosts {
		out[a] = true
	}
	return out
}

func huntCfg(port uint32, proto protocol.Protocol) *service.Config {
	return &service.Config{
		Listener: &service.Listener{Address: &common.Address{Ip: "127.0.0.1", Port: port}},
		Protocol: proto,
	}
}

func huntEndpoint(i int) *service.Endpoint {
	return &service.Endpoint{Address: &common.Address{
		Ip:   fmt.Sprintf("10.%d.%d.%d", (i>>16)&0xff, (i>>8)&0xff, i&0xff),
		Port: 6379,
	}}
}

func huntAddr(e *service.Endpoint) string {
	return fmt.Sprintf("%s:%d", e.Address.Ip, e.Address.Port)
}

// huntBarrier waits until the controller has handled every event emitted so far: a further
// service is announced through the store, and events are handled in order.
func huntBarrier(t *testing.T, store *config.Config, ctl *Controller, name string) {
	t.Helper()
	store.VerifDependencyUpdate([]*service.Service{{Name: name}}, nil)
	store.VerifSvcConfigUpdate(name, huntCfg(0, protocol.TCP))
	store.VerifSvcEndpointUpdate(name, []*service.Endpoint{huntEndpoint(0)}, nil)
	deadline := time.Now().Add(30 * time.Second)
	for {
		if _, ok := ctl.GetProc(name); ok {
			return
		}
		if time.Now().After(deadline) {
			t.Fatalf("controller did not drain its events in 30s")
		}
		time.Sleep(time.Millisecond)
	}
}

func huntSetNewProc(f func(string, *service.Config, []*host.Host) (proc.Proc, error)) func() {
	old := newProc
	newProc = f
	return func() { newProc = old }
}

// ---------------------------------------------------------------------------------------------
// 1. The add event shares the endpoint slice with the store.
//
// config.go:257-263 puts sw.Endpoints itself into the SvcAddEvent; config.go:220 later removes an
// endpoint with append(sw.Endpoints[:i], sw.Endpoints[i+1:]...), which moves the tail of the very
// same backing array one place to the left. The controller goroutine walks that array in
// endpointsToHosts (controller.go:275-286, called from handleSvcAdd controller.go:100-105) with no
// lock in common with the store. When the move overtakes the walk, the walk skips one endpoint:
// the processor is created without a host which nobody removed, and no later event adds it.
func TestVerifHuntC08AddEventAliasesStoreEndpoints(t *testing.T) {
	defer huntSetNewProc(newHuntProc)()

	const n = 30000
	const removals = 40
	store := config.VerifNewStore(256)
	ctl, err := New(store.Subscribe())
	if err != nil {
		t.Fatal(err)
	}

	eps := make([]*service.Endpoint, n)
	for i := range eps {
		eps[i] = huntEndpoint(i + 1)
	}
	store.VerifDependencyUpdate([]*service.Service{{Name: "svc"}}, nil)
	store.VerifSvcConfigUpdate("svc", huntCfg(0, protocol.TCP))
	store.VerifSvcEndpointUpdate("svc", eps, nil) // -> SvcAddEvent{Endpoints: sw.Endpoints}

	// the controller is slower than the store: it starts on the add event only now, while the
	// discovery stream goes on delivering removals of single endpoints (the first ones of the list).
	ctl.Start()
	defer ctl.Stop()
	for i := 0; i < removals; i++ {
		store.VerifSvcEndpointUpdate("svc", nil, []*service.Endpoint{eps[i]})
		time.Sleep(200 * time.Microsecond)
	}
	huntBarrier(t, store, ctl, "barrier")

	want := make(map[string]bool)
	for _, e := range store.VerifDump()["svc"].Endpoints {
		want[huntAddr(e)] = true
	}
	if len(want) != n-removals {
		t.Fatalf("test mistake: store has %d endpoints, expected %d", len(want), n-removals)
	}
	p, ok := ctl.GetProc("svc")
	if !ok {
		t.Fatalf("no processor for svc")
	}
	got := p.(*huntProc).addrs()
	var missing, extra []string
	for a := range want {
		if !got[a] {
			missing = append(missing, a)
		}
	}
	for a := range got {
		if !want[a] {
			extra = append(extra, a)
		}
	}
	sort.Strings(missing)
	sort.Strings(extra)
	if len(missing) != 0 || len(extra) != 0 {
		t.Fatalf("C08 violated: after all events were handled the processor has %d hosts, the store %d endpoints; "+
			"%d endpoints of the store are missing in the processor (first: %v), %d hosts are not in the store (first: %v)",
			len(got), len(want), len(missing), huntFirst(missing), len(extra), huntFirst(extra))
	}
}

func huntFirst(s []string) []string {
	if len(s) > 5 {
		return s[:5]
	}
	return s
}

// ---------------------------------------------------------------------------------------------
// 2. A configuration update that carries no configuration (nil), then a valid one.
//
// A map entry without a value in SvcConfigDiscoveryResponse.updated unmarshals to a nil
// *service.Config (pb/api/discovery.pb.go, "var mapvalue *service.Config") and discovery.go:167-169
// hands it to the hook as it is. config.go:183-196: the nil is stored; at the next update oldCfg is
// nil, so NO config event is emitted, only an add event - which controller.go:100-103 ignores
// because the processor exists. The processor never receives the latest configuration.
func TestVerifHuntC08ConfigAfterNilConfigIsLost(t *testing.T) {
	defer huntSetNewProc(newHuntProc)()

	store := config.VerifNewStore(64)
	ctl, err := New(store.Subscribe())
	if err != nil {
		t.Fatal(err)
	}
	ctl.Start()
	defer ctl.Stop()

	c1 := huntCfg(0, protocol.TCP)
	c2 := huntCfg(0, protocol.TCP)
	c2.LbPolicy = service.LoadBalancePolicy_LEAST_CONNECTION

	store.VerifDependencyUpdate([]*service.Service{{Name: "svc"}}, nil)
	store.VerifSvcConfigUpdate("svc", c1)
	store.VerifSvcEndpointUpdate("svc", []*service.Endpoint{huntEndpoint(1)}, nil)
	store.VerifSvcConfigUpdate("svc", nil)
	store.VerifSvcConfigUpdate("svc", c2)
	huntBarrier(t, store, ctl, "barrier")

	latest := store.VerifDump()["svc"].Config
	if latest != c2 {
		t.Fatalf("test mistake: the store's latest configuration is not c2")
	}
	p, ok := ctl.GetProc("svc")
	if !ok {
		t.Fatalf("no processor for svc")
	}
	if got := p.Config(); !latest.Equal(got) {
		t.Fatalf("C08 violated: the processor's configuration is not the latest one:\n processor: %v\n store:     %v", got, latest)
	}
}

// ---------------------------------------------------------------------------------------------
// 3. A first configuration which passes Validate() but from which no processor can be made
// (protocol MySQL is in the enum, so config.pb.validate.go accepts it; proc.New has no builder for
// it: proc/proc.go:98-101), later replaced by a TCP configuration. config.go:189-196 announces the
// service again only when the previous configuration was nil or failed Validate(); here it emits a
// config event only, which controller.go:218-223 drops because there is no processor. The real
// proc.New / TCP processor are used here.
func TestVerifHuntC08NoProcessorAfterUnbuildableConfigCorrected(t *testing.T) {
	store := config.VerifNewStore(64)
	ctl, err := New(store.Subscribe())
	if err != nil {
		t.Fatal(err)
	}
	ctl.Start()
	defer ctl.Stop()

	bad := huntCfg(0, protocol.MySQL)
	if err := bad.Validate(); err != nil {
		t.Fatalf("test mistake: the MySQL configuration is expected to be valid: %v", err)
	}
	good := huntCfg(0, protocol.TCP)

	store.VerifDependencyUpdate([]*service.Service{{Name: "svc"}}, nil)
	store.VerifSvcConfigUpdate("svc", bad)
	store.VerifSvcEndpointUpdate("svc", []*service.Endpoint{huntEndpoint(1)}, nil)
	store.VerifSvcConfigUpdate("svc", good)
	huntBarrier(t, store, ctl, "barrier")

	d := store.VerifDump()["svc"]
	if d.Config.Validate() != nil || d.Endpoints == nil {
		t.Fatalf("test mistake: svc must have a valid configuration and an endpoint list")
	}
	p, ok := ctl.GetProc("svc")
	if !ok {
		t.Fatalf("C08 violated: svc has a valid configuration (%v) and %d endpoint(s), but no processor is running for it",
			d.Config, len(d.Endpoints))
	}
	if !p.Config().Equal(d.Config) {
		t.Fatalf("C08 violated: processor configuration %v, store %v", p.Config(), d.Config)
	}
}
