package host

import (
	"fmt"
	"runtime"
	"sync"
	"sync/atomic"
	"testing"
	"time"
)

// ReplaceAll ("replaces the internal hosts atomicly") publishes one cached usable
// slice per removed and per added host, and Healthy() reads that cache without the
// lock. A reader running beside a ReplaceAll whose old and new content is the SAME
// list (N healthy main hosts + N healthy backup hosts) therefore sees usable lists
// that are correct neither before nor after the replacement: a shorter list, an
// empty list ("No available host" in the TCP proxy), or backup hosts although
// N main hosts are healthy all the time.
func TestVerifHuntC15ReplaceAllPublishesIntermediateUsableLists(t *testing.T) {
	const (
		nMain  = 300
		rounds = 200
	)
	mk := func() []*Host {
		hosts := make([]*Host, 0, 2*nMain)
		for i := 0; i < nMain; i++ {
			hosts = append(hosts, NewWithType(fmt.Sprintf("10.0.%d.%d:80", i/250, i%250+1), TypeMain))
			hosts = append(hosts, NewWithType(fmt.Sprintf("10.9.%d.%d:80", i/250, i%250+1), TypeBackup))
		}
		return hosts
	}
	set := NewSet(mk()...)
	if got := len(set.Healthy()); got != nMain {
		t.Fatalf("setup: %d usable hosts, want %d", got, nMain)
	}

	var (
		stop       int32
		reads      int64
		wrong      int64 // reads that returned something else than the nMain main hosts
		minLen     int64 = nMain
		backupSeen int64
		wg         sync.WaitGroup
	)
	for r := 0; r < 2; r++ {
		wg.Add(1)
		go func() {
			defer wg.Done()
			for atomic.LoadInt32(&stop) == 0 {
				hosts := set.Healthy()
				atomic.AddInt64(&reads, 1)
				// before and after every ReplaceAll of this test the usable hosts
				// are exactly the nMain main hosts.
				bad := len(hosts) != nMain
				for _, h := range hosts {
					if h.Type != TypeMain {
						atomic.StoreInt64(&backupSeen, 1)
						bad = true
					}
				}
				if bad {
					atomic.AddInt64(&wrong, 1)
					for {
						m := atomic.LoadInt64(&minLen)
						if int64(len(hosts)) >= m || atomic.CompareAndSwapInt64(&minLen, m, int64(len(hosts))) {
							break
						}
					}
				}
				runtime.Gosched()
			}
		}()
	}

	deadline := time.Now().Add(30 * time.Second)
	done := 0
	for ; done < rounds && atomic.LoadInt64(&wrong) == 0 && time.Now().Before(deadline); done++ {
		set.ReplaceAll(mk()) // same addresses, same types, all healthy
	}
	atomic.StoreInt32(&stop, 1)
	wg.Wait()

	if n := atomic.LoadInt64(&wrong); n != 0 {
		t.Fatalf("after %d ReplaceAll calls with unchanged content: %d of %d reads of Healthy() did not return the %d main hosts that are usable at every moment; shortest list seen: %d hosts; backup host reported as usable: %v",
			done, n, atomic.LoadInt64(&reads), nMain, atomic.LoadInt64(&minLen), atomic.LoadInt64(&backupSeen) == 1)
	}
	// the end state must be right in any case
	if got := len(set.Healthy()); got != nMain {
		t.Fatalf("end: %d usable hosts, want %d", got, nMain)
	}
}

// The same for Add: one call that adds several main hosts to a set that so far
// serves from its backup host must switch readers from [backup] to [all new main
// hosts], not through lists holding only some of the hosts of the call.
func TestVerifHuntC15AddPublishesPartOfTheBatch(t *testing.T) {
	const (
		nMain  = 300
		rounds = 200
	)
	var (
		mu        sync.Mutex
		violation string
	)
	for round := 0; round < rounds && violation == ""; round++ {
		set := NewSet(NewWithType("10.9.9.9:80", TypeBackup))
		batch := make([]*Host, 0, nMain)
		for i := 0; i < nMain; i++ {
			batch = append(batch, NewWithType(fmt.Sprintf("10.0.%d.%d:80", i/250, i%250+1), TypeMain))
		}
		var stop int32
		var wg sync.WaitGroup
		wg.Add(1)
		go func() {
			defer wg.Done()
			for atomic.LoadInt32(&stop) == 0 {
				hosts := set.Healthy()
				ok := len(hosts) == nMain || (len(hosts) == 1 && hosts[0].Type == TypeBackup)
				if !ok {
					mu.Lock()
					violation = fmt.Sprintf("round %d: reader saw %d usable hosts; one Add of %d main hosts allows only 1 (backup) or %d", round, len(hosts), nMain, nMain)
					mu.Unlock()
					return
				}
				runtime.Gosched()
			}
		}()
		set.Add(batch...)
		atomic.StoreInt32(&stop, 1)
		wg.Wait()
	}
	if violation != "" {
		t.Fatal(violation)
	}
}
