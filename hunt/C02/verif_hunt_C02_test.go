package redis

// Hunt C02: a backend connection's reader that follows a redirection (MOVED/ASK)
// calls Send on ANOTHER backend connection from inside its own read loop
// (loopRead -> handleResp -> onRedirection -> upstream.MakeRequestToHost -> client.Send).
// That Send only gives up when the TARGET connection quits. When the target is
// alive but slow/silent and its queues are full, the reader of the ORIGIN connection
// is parked there and no longer notices that its own connection was closed, removed
// or stopped: client.Start never reaches drainRequests, so everything queued on the
// origin connection is never answered, and client.Stop (OnHostRemove, OnHostReplace,
// upstream.Stop) never returns.
//
// The same blind Send parks the slot refresher (doSlotsRefresh), which upstream.Serve
// waits for BEFORE it tells any backend connection to quit: upstream.Stop hangs.

import (
	"bufio"
	"fmt"
	"io"
	"io/ioutil"
	"net"
	"sync"
	"sync/atomic"
	"testing"
	"time"

	"github.com/samaritan-proxy/samaritan/host"
	"github.com/samaritan-proxy/samaritan/pb/common"
	"github.com/samaritan-proxy/samaritan/pb/config/protocol"
	"github.com/samaritan-proxy/samaritan/pb/config/service"
	"github.com/samaritan-proxy/samaritan/proc"
	"github.com/samaritan-proxy/samaritan/proc/internal/log"
	"github.com/samaritan-proxy/samaritan/stats"
	"github.com/samaritan-proxy/samaritan/utils"
)

// silent backend: takes everything, answers nothing (after the READONLY handshake
// done by the mock), keeps the connection open until release is closed.
func huntC02SilentBackend(t *testing.T, release chan struct{}) *mockRedisInstance {
	return newMockRedisInstance(t, func(conn net.Conn) {
		go io.Copy(ioutil.Discard, conn) //nolint:errcheck
		<-release
	})
}

// backend that answers every request with "MOVED 1 <target>".
func huntC02MovedBackend(t *testing.T, target string) *mockRedisInstance {
	return newMockRedisInstance(t, func(conn net.Conn) {
		dec := newDecoder(conn, 8192)
		bw := bufio.NewWriter(conn)
		for {
			if _, err := dec.Decode(); err != nil {
				return
			}
			fmt.Fprintf(bw, "-MOVED 1 %s\r\n", target)
			if err := bw.Flush(); err != nil {
				return
			}
		}
	})
}

func huntC02WaitFull(t *testing.T, u *upstream, addr string) *client {
	t.Helper()
	deadline := time.Now().Add(20 * time.Second)
	for time.Now().Before(deadline) {
		if c, ok := u.loadClients()[addr]; ok &&
			len(c.pendingReqs) == cap(c.pendingReqs) &&
			len(c.processingReqs) == cap(c.processingReqs) {
			return c
		}
		time.Sleep(5 * time.Millisecond)
	}
	t.Fatalf("test setup: the queues of the silent backend %s never filled up", addr)
	return nil
}

func huntC02Done(r *simpleRequest) bool {
	select {
	case <-r.done:
		return true
	default:
		return false
	}
}

// Host removal (and, identically, loss of the backend connection): the requests
// queued on the removed backend's connection must be answered with an error.
func TestVerifHuntC02RedirectingReaderIgnoresOwnQuit(t *testing.T) {
	release := make(chan struct{})
	instB := huntC02SilentBackend(t, release)
	instA := huntC02MovedBackend(t, instB.Addr())

	u := newTestUpstream(nil)
	serveDone := make(chan struct{})
	go func() {
		u.Serve()
		close(serveDone)
	}()
	var once sync.Once
	cleanup := func() {
		once.Do(func() {
			close(release) // B closes its connections: everything unwinds
			u.Stop()
			<-serveDone
			instA.Shutdown()
			instB.Shutdown()
		})
	}
	defer cleanup()

	// B takes 1024 (processing) + 1 (in its writer's hand) + 1024 (pending) = 2049
	// redirected requests; the 2050th parks A's reader in B.Send; `extra` more stay
	// queued on A's connection (A's backend has even answered them).
	const extra = 50
	total := 2*1024 + 1 + 1 + extra
	reqs := make([]*simpleRequest, total)
	var sent int32
	go func() {
		for i := range reqs {
			reqs[i] = newSimpleRequest(newStringArray("get", fmt.Sprintf("k%d", i)))
		}
		for i := range reqs {
			u.MakeRequestToHost(instA.Addr(), reqs[i])
			atomic.AddInt32(&sent, 1)
		}
	}()
	huntC02WaitFull(t, u, instB.Addr())
	for atomic.LoadInt32(&sent) != int32(total) {
		time.Sleep(5 * time.Millisecond)
	}
	time.Sleep(300 * time.Millisecond)
	tail := reqs[total-extra:]
	for _, r := range tail {
		if huntC02Done(r) {
			t.Fatal("test setup: a request queued on A has been answered already")
		}
	}

	// the host A is removed (the same happens when A's backend resets the connection).
	removed := make(chan struct{})
	go func() {
		u.OnHostRemove(host.New(instA.Addr())) //nolint:errcheck
		close(removed)
	}()

	var failed []string
	select {
	case <-removed:
	case <-time.After(5 * time.Second):
		failed = append(failed, "OnHostRemove(A) has not returned after 5s: "+
			"client.Stop waits for A's reader, which is parked in B.Send")
	}
	deadline := time.Now().Add(5 * time.Second)
	unanswered := 0
	for _, r := range tail {
		for !huntC02Done(r) && time.Now().Before(deadline) {
			time.Sleep(5 * time.Millisecond)
		}
		if !huntC02Done(r) {
			unanswered++
		}
	}
	if unanswered > 0 {
		failed = append(failed, fmt.Sprintf("%d of the %d requests queued on the removed "+
			"backend's connection were never answered (A's connection is closed, its drain never ran)",
			unanswered, extra))
	}
	if len(failed) > 0 {
		// show that it is only B going away that releases them
		cleanup()
		for _, f := range failed {
			t.Error(f)
		}
	}
}

// Proxy shutdown: upstream.Serve stops the backend connections one after the other
// (map order) and waits for each; a connection whose reader is parked in the Send of
// a connection that comes later in that order is waited for for ever.
func TestVerifHuntC02StopWithRedirectingReaders(t *testing.T) {
	release := make(chan struct{})
	instB := huntC02SilentBackend(t, release)
	const nA = 7 // B is visited first (the only harmless order) in about 1 of 8 runs
	var instAs []*mockRedisInstance
	for i := 0; i < nA; i++ {
		instAs = append(instAs, huntC02MovedBackend(t, instB.Addr()))
	}

	u := newTestUpstream(nil)
	serveDone := make(chan struct{})
	go func() {
		u.Serve()
		close(serveDone)
	}()

	// every A gets more than B can take: every A's reader ends up parked in B.Send.
	perA := 2*1024 + 1 + 1 + 10
	var mu sync.Mutex
	var all []*simpleRequest
	for _, a := range instAs {
		addr := a.Addr()
		go func() {
			for i := 0; i < perA; i++ {
				r := newSimpleRequest(newStringArray("get", fmt.Sprintf("k%d", i)))
				mu.Lock()
				all = append(all, r)
				mu.Unlock()
				u.MakeRequestToHost(addr, r)
			}
		}()
	}
	huntC02WaitFull(t, u, instB.Addr())
	time.Sleep(500 * time.Millisecond)

	stopped := make(chan struct{})
	go func() {
		u.Stop()
		close(stopped)
	}()
	hung := false
	select {
	case <-stopped:
	case <-time.After(8 * time.Second):
		hung = true
	}
	unanswered := 0
	if !hung {
		time.Sleep(200 * time.Millisecond)
		mu.Lock()
		for _, r := range all {
			if !huntC02Done(r) {
				unanswered++
			}
		}
		mu.Unlock()
	}
	close(release)
	<-stopped
	<-serveDone
	for _, a := range instAs {
		a.Shutdown()
	}
	instB.Shutdown()
	if hung {
		t.Fatal("upstream.Stop has not returned after 8s (it did once the silent backend closed its connection): " +
			"Serve waits for a connection whose reader is parked in the Send of a connection it has not told to quit yet")
	}
	if unanswered > 0 {
		t.Fatalf("%d requests unanswered after Stop", unanswered)
	}
}

// Proxy shutdown, second way in: the slot refresher is parked in the same Send, and
// Serve waits for the refresher before it tells any backend connection to quit.
func TestVerifHuntC02StopWithRefresherInSend(t *testing.T) {
	oldFreq, oldMin := slotsRefFreq, slotsRefMinRate
	slotsRefFreq, slotsRefMinRate = time.Hour, 1500*time.Millisecond
	defer func() { slotsRefFreq, slotsRefMinRate = oldFreq, oldMin }()

	release := make(chan struct{})
	// answers the first request (the first CLUSTER NODES) with an error, then turns silent.
	instB := newMockRedisInstance(t, func(conn net.Conn) {
		dec := newDecoder(conn, 8192)
		if _, err := dec.Decode(); err != nil {
			return
		}
		conn.Write([]byte("-ERR not now\r\n")) //nolint:errcheck
		go func() {
			for {
				if _, err := dec.Decode(); err != nil {
					return
				}
			}
		}()
		<-release
	})

	u := newTestUpstream(nil, host.New(instB.Addr()))
	serveDone := make(chan struct{})
	go func() {
		u.Serve()
		close(serveDone)
	}()

	// the first refresh fails (and asks for another one); the refresher now sleeps
	// slotsRefMinRate. Fill B's queues meanwhile.
	deadline := time.Now().Add(5 * time.Second)
	for {
		if _, ok := u.loadClients()[instB.Addr()]; ok {
			break
		}
		if time.Now().After(deadline) {
			t.Fatal("test setup: no connection to B")
		}
		time.Sleep(time.Millisecond)
	}
	time.Sleep(100 * time.Millisecond)
	total := 2*1024 + 1
	for i := 0; i < total; i++ {
		u.MakeRequestToHost(instB.Addr(), newSimpleRequest(newStringArray("get", "k")))
	}
	huntC02WaitFull(t, u, instB.Addr())
	// the refresher wakes up and sends CLUSTER NODES to B: parked in B.Send.
	time.Sleep(slotsRefMinRate + 500*time.Millisecond)

	stopped := make(chan struct{})
	go func() {
		u.Stop()
		close(stopped)
	}()
	hung := false
	select {
	case <-stopped:
	case <-time.After(5 * time.Second):
		hung = true
	}
	close(release)
	<-stopped
	<-serveDone
	instB.Shutdown()
	if hung {
		t.Fatal("upstream.Stop has not returned after 5s (it did once the silent backend closed its connection): " +
			"Serve waits for the slot refresher, which is parked in client.Send on a connection that Serve tells to quit only afterwards")
	}
}

// End to end (real listener, real sessions, downstream TCP connections): one big MGET
// through a backend A that redirects every key to a slow backend B parks A's reader;
// three GETs of another client are then queued on A's connection. The host A is
// removed: the three GETs must be answered (with an error). They are not, and
// OnSvcHostRemove never returns.
func TestVerifHuntC02EndToEndHostRemoval(t *testing.T) {
	release := make(chan struct{})
	instB := huntC02SilentBackend(t, release)
	instA := huntC02MovedBackend(t, instB.Addr())

	svcCfg := &service.Config{
		Listener: &service.Listener{
			Address: &common.Address{Ip: "127.0.0.1", Port: 0},
		},
		ConnectTimeout:  utils.DurationPtr(time.Second),
		Protocol:        protocol.Redis,
		ProtocolOptions: &service.Config_RedisOption{RedisOption: &protocol.RedisOption{}},
	}
	hostA := host.New(instA.Addr())
	p, err := newRedisProc("huntc02", svcCfg, []*host.Host{hostA},
		proc.NewStats(stats.CreateScope("service.huntc02")), log.New("[huntc02]"))
	if err != nil {
		t.Fatal(err)
	}
	if err := p.Start(); err != nil {
		t.Fatal(err)
	}
	time.Sleep(200 * time.Millisecond)

	c1, err := net.Dial("tcp", p.Address())
	if err != nil {
		t.Fatal(err)
	}
	defer c1.Close()
	// MGET with 2100 keys: 2100 children, every one of them redirected by A to B.
	args := []string{"mget"}
	for i := 0; i < 2100; i++ {
		args = append(args, fmt.Sprintf("k%d", i))
	}
	if _, err := c1.Write(encode(newStringArray(args...))); err != nil {
		t.Fatal(err)
	}
	huntC02WaitFull(t, p.u, instB.Addr())
	time.Sleep(300 * time.Millisecond)

	c2, err := net.Dial("tcp", p.Address())
	if err != nil {
		t.Fatal(err)
	}
	defer c2.Close()
	for i := 0; i < 3; i++ {
		if _, err := c2.Write(encode(newStringArray("get", fmt.Sprintf("x%d", i)))); err != nil {
			t.Fatal(err)
		}
	}
	time.Sleep(300 * time.Millisecond)

	removed := make(chan struct{})
	go func() {
		p.OnSvcHostRemove([]*host.Host{hostA}) //nolint:errcheck
		close(removed)
	}()

	var failed []string
	c2.SetReadDeadline(time.Now().Add(5 * time.Second)) //nolint:errcheck
	dec := newDecoder(c2, 4096)
	got := 0
	for ; got < 3; got++ {
		if _, err := dec.Decode(); err != nil {
			break
		}
	}
	if got < 3 {
		failed = append(failed, fmt.Sprintf("the second client got %d of 3 replies within 5s after the removal of the host "+
			"on whose connection its requests were queued", got))
	}
	select {
	case <-removed:
	case <-time.After(time.Second):
		failed = append(failed, "OnSvcHostRemove has not returned")
	}

	close(release)
	<-removed
	p.Stop() //nolint:errcheck
	instA.Shutdown()
	instB.Shutdown()
	for _, f := range failed {
		t.Error(f)
	}
}
