package redis

import (
	"bytes"
	"fmt"
	"net"
	"runtime"
	"strings"
	"sync/atomic"
	"testing"
	"time"

	"github.com/samaritan-proxy/samaritan/host"
	"github.com/samaritan-proxy/samaritan/pb/common"
	"github.com/samaritan-proxy/samaritan/pb/config/protocol"
	"github.com/samaritan-proxy/samaritan/pb/config/service"
	"github.com/samaritan-proxy/samaritan/proc"
	"github.com/samaritan-proxy/samaritan/proc/internal/log"
	"github.com/samaritan-proxy/samaritan/stats"
	"github.com/samaritan-proxy/samaritan/utils"
)

// A backend that, for a short while, answers every GET with "-MOVED 1 <its own
// address>" (a redirection cycle, as two nodes with stale views of each other
// produce during a failover) and afterwards answers normally.
//
// One downstream client sends a single MGET with 3000 keys while the cycle
// lasts. The read loop of the backend connection follows every MOVED by calling
// client.Send on its OWN connection (upstream.handleRedirection ->
// MakeRequestToHost -> client.Send). As soon as pendingReqs (1024) and
// processingReqs (1024) are full, the read loop waits for room in pendingReqs,
// the write loop waits for room in processingReqs, and only the read loop could
// make room there: the backend connection is dead-locked, it is neither closed
// nor answered, and every other downstream connection that needs this backend
// hangs in client.Send for ever - also long after the backend has become sane.
func TestVerifHuntC11RedirectionCycleWedgesBackendConnection(t *testing.T) {
	const (
		cycleFor = 1500 * time.Millisecond
		patience = 10 * time.Second
		keys     = 3000
	)

	// ---- backend
	bl, err := net.Listen("tcp", "127.0.0.1:0")
	if err != nil {
		t.Fatal(err)
	}
	defer bl.Close()
	backendAddr := bl.Addr().String()
	saneAt := time.Now().Add(cycleFor)
	var moved, served int64
	go func() {
		for {
			conn, err := bl.Accept()
			if err != nil {
				return
			}
			go func(conn net.Conn) {
				defer conn.Close()
				dec := newDecoder(conn, 8192)
				for {
					v, err := dec.Decode()
					if err != nil {
						return
					}
					var reply string
					switch strings.ToLower(string(v.Array[0].Text)) {
					case "readonly":
						reply = "+OK\r\n"
					case "get":
						if time.Now().Before(saneAt) {
							atomic.AddInt64(&moved, 1)
							reply = "-MOVED 1 " + backendAddr + "\r\n"
						} else {
							atomic.AddInt64(&served, 1)
							reply = "$1\r\nv\r\n"
						}
					default: // CLUSTER NODES: this is not a cluster
						reply = "-ERR This instance has cluster support disabled\r\n"
					}
					if _, err := conn.Write([]byte(reply)); err != nil {
						return
					}
				}
			}(conn)
		}
	}()

	// ---- proxy: the real processor, sessions served over real sockets
	svcCfg := &service.Config{
		Listener: &service.Listener{
			Address: &common.Address{Ip: "127.0.0.1", Port: 0},
		},
		ConnectTimeout:  utils.DurationPtr(time.Second),
		Protocol:        protocol.Redis,
		ProtocolOptions: &service.Config_RedisOption{RedisOption: &protocol.RedisOption{}},
	}
	p, err := newRedisProc("huntC11", svcCfg, []*host.Host{host.New(backendAddr)},
		proc.NewStats(stats.CreateScope("service.huntC11")), log.New("[huntC11]"))
	if err != nil {
		t.Fatal(err)
	}
	upDone := make(chan struct{})
	go func() {
		p.u.Serve()
		close(upDone)
	}()
	defer func() {
		stopped := make(chan struct{})
		go func() {
			p.u.Stop()
			<-upDone
			close(stopped)
		}()
		select {
		case <-stopped:
		case <-time.After(patience):
			// a further symptom of the same dead-lock: the slot refresh loop hangs in
			// client.Send too, so upstream.Serve never gets to stop the clients.
			t.Errorf("upstream.Stop did not return within %v", patience)
			for _, c := range p.u.loadClients() {
				go c.Stop() // release everything, so that the test binary can go on
			}
			<-stopped
		}
	}()

	fl, err := net.Listen("tcp", "127.0.0.1:0")
	if err != nil {
		t.Fatal(err)
	}
	defer fl.Close()
	go func() {
		for {
			conn, err := fl.Accept()
			if err != nil {
				return
			}
			go p.handleConn(conn)
		}
	}()

	// ---- client 1: one MGET with many keys, while the cycle lasts
	c1, err := net.Dial("tcp", fl.Addr().String())
	if err != nil {
		t.Fatal(err)
	}
	defer c1.Close()
	var mget bytes.Buffer
	fmt.Fprintf(&mget, "*%d\r\n$4\r\nMGET\r\n", keys+1)
	for i := 0; i < keys; i++ {
		k := fmt.Sprintf("key%d", i)
		fmt.Fprintf(&mget, "$%d\r\n%s\r\n", len(k), k)
	}
	if _, err := c1.Write(mget.Bytes()); err != nil {
		t.Fatal(err)
	}
	c1Reply := make(chan error, 1)
	go func() {
		_, err := newDecoder(c1, 8192).Decode()
		c1Reply <- err
	}()

	// ---- the cycle is over: the backend answers every GET normally from now on
	time.Sleep(time.Until(saneAt) + 500*time.Millisecond)

	// ---- client 2: another connection, one plain GET
	c2, err := net.Dial("tcp", fl.Addr().String())
	if err != nil {
		t.Fatal(err)
	}
	defer c2.Close()
	if _, err := c2.Write([]byte("*2\r\n$3\r\nGET\r\n$5\r\nother\r\n")); err != nil {
		t.Fatal(err)
	}
	c2.SetReadDeadline(time.Now().Add(patience)) //nolint:errcheck
	v, err := newDecoder(c2, 4096).Decode()
	if err != nil {
		buf := make([]byte, 4<<20)
		buf = buf[:runtime.Stack(buf, true)]
		var stuck []string
		for _, g := range strings.Split(string(buf), "\n\n") {
			if strings.Contains(g, "handleRedirection") || strings.Contains(g, "(*client).loopWrite") {
				stuck = append(stuck, g)
			}
		}
		t.Fatalf("another connection got no reply to GET within %v, %v after the backend stopped redirecting (%v).\n"+
			"backend sent %d MOVED replies and served %d GETs\n"+
			"backend connection goroutines:\n%s",
			patience, patience+500*time.Millisecond, err,
			atomic.LoadInt64(&moved), atomic.LoadInt64(&served), strings.Join(stuck, "\n\n"))
	}
	t.Logf("client 2 got %q (type %c)", v.Text, v.Type)

	select {
	case err := <-c1Reply:
		if err != nil {
			t.Fatalf("client 1: %v", err)
		}
	case <-time.After(patience):
		t.Fatalf("client 1 got no reply to its MGET within %v", patience)
	}
}
