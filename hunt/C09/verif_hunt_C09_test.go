package redis

import (
	"bytes"
	"fmt"
	"net"
	"runtime"
	"strings"
	"sync"
	"testing"
	"time"

	"github.com/samaritan-proxy/samaritan/host"
	"github.com/samaritan-proxy/samaritan/pb/common"
	"github.com/samaritan-proxy/samaritan/pb/config/protocol"
	"github.com/samaritan-proxy/samaritan/pb/config/service"
	"github.com/samaritan-proxy/samaritan/proc"
	"github.com/samaritan-proxy/samaritan/proc/internal/log"
	"github.com/samaritan-proxy/samaritan/stats"
	"github.com/samaritan-proxy/samaritan/utils"
)

// huntC09Backend is a scripted Redis node: every decoded request is handed to
// reply, whose result (if any) is written back.
type huntC09Backend struct {
	l     net.Listener
	mu    sync.Mutex
	conns []net.Conn
}

func newHuntC09Backend(t *testing.T, reply func(req *RespValue) []byte) *huntC09Backend {
	l, err := net.Listen("tcp", "127.0.0.1:0")
	if err != nil {
		t.Fatal(err)
	}
	b := &huntC09Backend{l: l}
	go func() {
		for {
			conn, err := l.Accept()
			if err != nil {
				return
			}
			b.mu.Lock()
			b.conns = append(b.conns, conn)
			b.mu.Unlock()
			go func(conn net.Conn) {
				dec := newDecoder(conn, 4096)
				for {
					v, err := dec.Decode()
					if err != nil {
						return
					}
					if out := reply(v); out != nil {
						if _, err := conn.Write(out); err != nil {
							return
						}
					}
				}
			}(conn)
		}
	}()
	return b
}

func (b *huntC09Backend) Addr() string { return b.l.Addr().String() }

func (b *huntC09Backend) Close() {
	b.l.Close()
	b.mu.Lock()
	for _, c := range b.conns {
		c.Close()
	}
	b.mu.Unlock()
}

// A Redis service whose nodes redirect (MOVED) to a node that reads but never
// answers. Once the silent node's connection has its queues full (1024 pending +
// 1024 in flight + 1 in the writer's hand), the read loop of every redirecting
// node's connection waits in Send of the silent node's connection. Stop of the
// service must still return.
func TestVerifHuntC09StopWithReadLoopsWaitingOnSilentNode(t *testing.T) {
	const redirectors = 15

	// the silent node: reads everything, never answers, never hangs up.
	silent := newHuntC09Backend(t, func(*RespValue) []byte { return nil })
	defer silent.Close()
	moved := []byte(fmt.Sprintf("-MOVED 1 %s\r\n", silent.Addr()))

	var hosts []*host.Host
	var backends []*huntC09Backend
	for i := 0; i < redirectors; i++ {
		b := newHuntC09Backend(t, func(req *RespValue) []byte {
			if len(req.Array) > 0 && strings.EqualFold(string(req.Array[0].Text), "readonly") {
				return []byte("+OK\r\n")
			}
			return moved
		})
		backends = append(backends, b)
		hosts = append(hosts, host.New(b.Addr()))
	}
	defer func() {
		for _, b := range backends {
			b.Close()
		}
	}()

	// a free port for the service
	pl, err := net.Listen("tcp", "127.0.0.1:0")
	if err != nil {
		t.Fatal(err)
	}
	port := pl.Addr().(*net.TCPAddr).Port
	pl.Close()

	svcCfg := &service.Config{
		Listener: &service.Listener{
			Address: &common.Address{Ip: "127.0.0.1", Port: uint32(port)},
		},
		ConnectTimeout:  utils.DurationPtr(time.Second),
		Protocol:        protocol.Redis,
		ProtocolOptions: &service.Config_RedisOption{RedisOption: &protocol.RedisOption{}},
	}
	p, err := newRedisProc("huntC09", svcCfg, hosts,
		proc.NewStats(stats.CreateScope("service.huntC09")), log.New("[huntC09]"))
	if err != nil {
		t.Fatal(err)
	}
	if err := p.Start(); err != nil {
		t.Fatal(err)
	}

	// three downstream connections, each with one MGET of 2100 keys: 6300 requests
	// spread over the redirecting nodes, all redirected to the silent one.
	var mget bytes.Buffer
	const keys = 2100
	fmt.Fprintf(&mget, "*%d\r\n$4\r\nMGET\r\n", keys+1)
	for i := 0; i < keys; i++ {
		k := fmt.Sprintf("key%d", i)
		fmt.Fprintf(&mget, "$%d\r\n%s\r\n", len(k), k)
	}
	addr := fmt.Sprintf("127.0.0.1:%d", port)
	for i := 0; i < 3; i++ {
		var conn net.Conn
		for try := 0; try < 100; try++ {
			if conn, err = net.Dial("tcp", addr); err == nil {
				break
			}
			time.Sleep(20 * time.Millisecond)
		}
		if err != nil {
			t.Fatal(err)
		}
		defer conn.Close()
		if _, err := conn.Write(mget.Bytes()); err != nil {
			t.Fatal(err)
		}
	}

	// wait until the silent node's connection is full, then a little longer so that
	// the read loops of the redirecting connections have run into it.
	deadline := time.Now().Add(20 * time.Second)
	for {
		c, ok := p.u.loadClients()[silent.Addr()]
		if ok && len(c.pendingReqs) == cap(c.pendingReqs) && len(c.processingReqs) == cap(c.processingReqs) {
			break
		}
		if time.Now().After(deadline) {
			t.Fatalf("setup: the silent node's connection never filled up")
		}
		time.Sleep(20 * time.Millisecond)
	}
	time.Sleep(300 * time.Millisecond)

	stopped := make(chan struct{})
	go func() {
		p.Stop()
		close(stopped)
	}()
	select {
	case <-stopped:
	case <-time.After(5 * time.Second):
		buf := make([]byte, 1<<20)
		buf = buf[:runtime.Stack(buf, true)]
		var stuck []string
		for _, g := range strings.Split(string(buf), "\n\n") {
			if strings.Contains(g, "(*client).Stop") || strings.Contains(g, "handleRedirection") {
				lines := strings.Split(g, "\n")
				if len(lines) > 12 {
					lines = lines[:12]
				}
				stuck = append(stuck, strings.Join(lines, "\n"))
			}
		}
		if len(stuck) > 3 {
			stuck = stuck[:3]
		}
		t.Errorf("Stop of the Redis service did not return within 5s; the port is still open: %v\n%s",
			huntC09PortOpen(addr), strings.Join(stuck, "\n\n"))
		// let everything go so that the test binary can finish.
		silent.Close()
		select {
		case <-stopped:
		case <-time.After(10 * time.Second):
			t.Errorf("Stop did not even return after the silent node hung up")
		}
		return
	}
	if huntC09PortOpen(addr) {
		t.Errorf("the listening port is still open after Stop")
	}
}

func huntC09PortOpen(addr string) bool {
	c, err := net.DialTimeout("tcp", addr, time.Second)
	if err != nil {
		return false
	}
	c.Close()
	return true
}
