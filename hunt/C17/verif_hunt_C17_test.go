package hotrestart

import (
	"fmt"
	"net"
	"reflect"
	"sync"
	"syscall"
	"testing"
	"time"
)

// The control socket is a SOCK_STREAM unix socket (net.Listen("unix", ...)), so
// a read returns whatever bytes have arrived, not one frame. readMessage
// (rpc.go:154-173) does one read of up to 4096 bytes, decodes the FIRST frame
// and throws the rest of the bytes away. A child that sends its requests
// without waiting for each reply (or writes two frames with one write) has
// every frame after the first one of a read silently dropped: the step is not
// performed and no reply (not even "unknown") is ever sent.

type huntC17Inst struct {
	id, parent int

	mu    sync.Mutex
	calls []string

	adminEntered chan struct{} // closed when ShutdownAdmin is entered
	adminGate    chan struct{} // ShutdownAdmin returns once this is closed
}

func (i *huntC17Inst) record(s string) {
	i.mu.Lock()
	i.calls = append(i.calls, s)
	i.mu.Unlock()
}

func (i *huntC17Inst) snapshot() []string {
	i.mu.Lock()
	defer i.mu.Unlock()
	return append([]string(nil), i.calls...)
}

// waitCalls waits until n steps have been recorded (the terminate reply is
// sent before kill is called, hotrestart.go:184-185) and returns what is there.
func (i *huntC17Inst) waitCalls(n int) []string {
	for end := time.Now().Add(time.Second); time.Now().Before(end); time.Sleep(time.Millisecond) {
		if c := i.snapshot(); len(c) >= n {
			return c
		}
	}
	return i.snapshot()
}

func (i *huntC17Inst) ID() int       { return i.id }
func (i *huntC17Inst) ParentID() int { return i.parent }
func (i *huntC17Inst) ShutdownAdmin() {
	i.record("admin")
	if i.adminEntered != nil {
		close(i.adminEntered)
		<-i.adminGate
	}
}
func (i *huntC17Inst) DrainListeners()    { i.record("drain") }
func (i *huntC17Inst) ShutdownLocalConf() { i.record("localconf") }
func (i *huntC17Inst) Shutdown()          {}

// huntC17ReadReplies reads raw bytes from the child side of the control
// socket and splits them into frames itself, until want frames have been
// seen or the deadline passes. It returns the reply types in order.
func huntC17ReadReplies(conn net.Conn, want int, d time.Duration) []messageType {
	var (
		buf   []byte
		types []messageType
	)
	deadline := time.Now().Add(d)
	tmp := make([]byte, 4096)
	for len(types) < want {
		conn.SetReadDeadline(deadline)
		n, err := conn.Read(tmp)
		buf = append(buf, tmp[:n]...)
		for len(buf) >= 3 {
			l := int(buf[1])<<8 | int(buf[2])
			if len(buf) < 3+l {
				break
			}
			types = append(types, messageType(buf[0]))
			buf = buf[3+l:]
		}
		if err != nil {
			break
		}
	}
	return types
}

func huntC17Frame(m *message) []byte {
	b := []byte{byte(m.Type), byte(m.Len >> 8), byte(m.Len)}
	return append(b, m.Data...)
}

func huntC17Start(t *testing.T, id int, inst *huntC17Inst) (*Restarter, *net.UnixConn, func()) {
	oldKill := kill
	kill = func(int, syscall.Signal) error {
		inst.record("kill")
		return nil
	}
	inst.id, inst.parent = id, -1
	pr, err := New(inst)
	if err != nil {
		kill = oldKill
		t.Fatal(err)
	}
	c, err := net.Dial("unix", genDomainSocketName(id))
	if err != nil {
		pr.Shutdown()
		kill = oldKill
		t.Fatal(err)
	}
	return pr, c.(*net.UnixConn), func() {
		c.Close()
		pr.Shutdown()
		kill = oldKill
	}
}

// Two well-formed request frames handed to the stream socket with ONE write:
// drain-listeners followed by terminate. Nothing about the schedule matters.
func TestVerifHuntC17TwoFramesOneWrite(t *testing.T) {
	inst := &huntC17Inst{}
	_, conn, cleanup := huntC17Start(t, 917001, inst)
	defer cleanup()

	b := append(huntC17Frame(newDrainParentListenersRequest()), huntC17Frame(newTerminateParentRequest())...)
	if _, err := conn.Write(b); err != nil {
		t.Fatal(err)
	}

	got := huntC17ReadReplies(conn, 2, 2*time.Second)
	wantReplies := []messageType{drainListenersReply, terminateReply}
	wantCalls := []string{"drain", "kill"}
	calls := inst.waitCalls(len(wantCalls))
	if !reflect.DeepEqual(got, wantReplies) || !reflect.DeepEqual(calls, wantCalls) {
		t.Fatalf("two requests in one write: replies %v (want %v), steps %v (want %v)",
			got, wantReplies, calls, wantCalls)
	}
}

// The real child sequence (admin, listeners, terminate - samaritan.go:115-129)
// sent by a child that does not wait for the replies. The old process is
// slow in stopping its admin API; meanwhile the two later requests arrive,
// each with its own sendMessage call. When the old process comes back it
// finds both in one read and forgets the second.
func TestVerifHuntC17PipelinedSequence(t *testing.T) {
	inst := &huntC17Inst{adminEntered: make(chan struct{}), adminGate: make(chan struct{})}
	_, conn, cleanup := huntC17Start(t, 917002, inst)
	defer cleanup()

	if err := sendMessage(conn, newShutdownParentAdminRequest()); err != nil {
		t.Fatal(err)
	}
	select {
	case <-inst.adminEntered:
	case <-time.After(2 * time.Second):
		close(inst.adminGate)
		t.Fatal("admin request not dispatched")
	}
	if err := sendMessage(conn, newDrainParentListenersRequest()); err != nil {
		t.Fatal(err)
	}
	if err := sendMessage(conn, newTerminateParentRequest()); err != nil {
		t.Fatal(err)
	}
	close(inst.adminGate)

	got := huntC17ReadReplies(conn, 3, 2*time.Second)
	wantReplies := []messageType{shutdownAdminReply, drainListenersReply, terminateReply}
	wantCalls := []string{"admin", "drain", "kill"}
	calls := inst.waitCalls(len(wantCalls))
	if !reflect.DeepEqual(got, wantReplies) || !reflect.DeepEqual(calls, wantCalls) {
		t.Fatalf("pipelined hand-over: replies %v (want %v), steps %v (want %v)",
			got, wantReplies, calls, wantCalls)
	}
}

// A request with an unknown type directly behind a known one must still be
// answered with the unknown reply.
func TestVerifHuntC17UnknownBehindKnown(t *testing.T) {
	inst := &huntC17Inst{}
	_, conn, cleanup := huntC17Start(t, 917003, inst)
	defer cleanup()

	b := append(huntC17Frame(newShutdownParentLocalConfRequest()), 0x7f, 0, 0)
	if _, err := conn.Write(b); err != nil {
		t.Fatal(err)
	}
	got := huntC17ReadReplies(conn, 2, 2*time.Second)
	want := []messageType{shutdownLocalConfReply, unknownReply}
	if !reflect.DeepEqual(got, want) {
		t.Fatalf("replies %v, want %v (steps %v)", fmt.Sprint(got), fmt.Sprint(want), inst.snapshot())
	}
}
