package redis

// Hunt C07: the backend connections of the Redis upstream never get the TCP user
// timeout that newClient means to give them, because upstream.createClient hands
// newClient the *netutil.Conn wrapper returned by netutil.Dial and
// syscall.SetTCPUserTimeout silently does nothing for anything that is not a
// *net.TCPConn. A backend connection that is lost without FIN/RST (peer crashed,
// flow dropped by a firewall, peer hung) is therefore never given up: the dead
// connection stays in the connection table and every later request for that
// address waits behind it, although the backend accepts new connections.

import (
	"bytes"
	"fmt"
	"net"
	"os"
	"os/exec"
	"sync"
	"sync/atomic"
	"testing"
	"time"

	"github.com/samaritan-proxy/samaritan/host"
	netutil "github.com/samaritan-proxy/samaritan/proc/internal/net"
	"github.com/samaritan-proxy/samaritan/proc/internal/syscall"
)

// rawConnOf returns the socket under a backend connection of the upstream.
func huntC07RawConn(c *client) net.Conn {
	if w, ok := c.conn.(*netutil.Conn); ok {
		return w.Conn
	}
	return c.conn
}

// 1. The direct observation: the connection made by the production path
// (getClient -> createClient -> netutil.Dial -> newClient) has no user timeout.
func TestVerifHuntC07UserTimeoutOnDialedConn(t *testing.T) {
	l, err := net.Listen("tcp", "127.0.0.1:0")
	if err != nil {
		t.Fatal(err)
	}
	defer l.Close()

	u := newTestUpstream(nil, host.New(l.Addr().String()))
	c, err := u.getClient(l.Addr().String())
	if err != nil {
		t.Fatal(err)
	}
	defer c.Stop()

	opt, err := syscall.GetTCPUserTimeout(huntC07RawConn(c))
	if err != nil {
		t.Fatal(err)
	}
	if opt < 0 {
		t.Skip("TCP_USER_TIMEOUT not supported on this platform")
	}
	if opt != 10000 {
		t.Fatalf("TCP_USER_TIMEOUT of a backend connection made by createClient is %d ms, want 10000 ms "+
			"(newClient asks for 10s, but SetTCPUserTimeout ignores the *netutil.Conn wrapper)", opt)
	}
}

// huntC07Backend is a node whose FIRST accepted connection is dead (what arrives is
// never read, nothing is ever answered, the connection is never closed), while every
// later connection is served: +OK for every command.
type huntC07Backend struct {
	l        net.Listener
	accepted int32
	mu       sync.Mutex
	conns    []net.Conn
}

func newHuntC07Backend(t *testing.T) *huntC07Backend {
	l, err := net.Listen("tcp", "127.0.0.1:0")
	if err != nil {
		t.Fatal(err)
	}
	b := &huntC07Backend{l: l}
	go func() {
		for {
			conn, err := l.Accept()
			if err != nil {
				return
			}
			b.mu.Lock()
			b.conns = append(b.conns, conn)
			b.mu.Unlock()
			if atomic.AddInt32(&b.accepted, 1) == 1 {
				continue // the dead one
			}
			go func() {
				dec := newDecoder(conn, 4096)
				for {
					if _, err := dec.Decode(); err != nil {
						return
					}
					if _, err := conn.Write([]byte("+OK\r\n")); err != nil {
						return
					}
				}
			}()
		}
	}()
	return b
}

func (b *huntC07Backend) Close() {
	b.l.Close()
	b.mu.Lock()
	for _, c := range b.conns {
		c.Close()
	}
	b.mu.Unlock()
}

func huntC07Wait(reqs []*simpleRequest, d time.Duration) (answered int) {
	deadline := time.After(d)
	for _, r := range reqs {
		select {
		case <-r.done:
			answered++
		case <-deadline:
			// count what is done without waiting any longer
			for _, r2 := range reqs[answered:] {
				select {
				case <-r2.done:
					answered++
				default:
				}
			}
			return answered
		}
	}
	return answered
}

// 2. Behaviour, without privileges: the peer of the first connection stops reading
// (hung process). Once its window is closed the kernel gives the connection up after
// the user timeout (10s) - if it has been set. Then the connection removes itself
// from the table, the waiting requests are answered with an error and the next
// request is served over a new connection. On the current code nothing of this
// happens: the requests wait for ever (window probes are acknowledged, so not even
// tcp_retries2 ends the connection).
func TestVerifHuntC07HungConnectionIsGivenUp(t *testing.T) {
	b := newHuntC07Backend(t)
	defer b.Close()
	addr := b.l.Addr().String()

	u := newTestUpstream(nil, host.New(addr))
	defer func() {
		for _, c := range u.loadClients() {
			go c.Stop()
		}
	}()

	// 600 SETs of 64 KiB: far more than the socket buffers of both ends take.
	val := bytes.Repeat([]byte("x"), 64<<10)
	var reqs []*simpleRequest
	for i := 0; i < 600; i++ {
		r := newSimpleRequest(newByteArray([]byte("set"), []byte(fmt.Sprintf("k%d", i)), val))
		reqs = append(reqs, r)
		u.MakeRequestToHost(addr, r)
	}

	start := time.Now()
	n := huntC07Wait(reqs, 25*time.Second)
	if n != len(reqs) {
		t.Fatalf("%v after the peer of the backend connection stopped reading, %d of %d requests are still unanswered "+
			"and the dead connection is still in the table (%d entries): the 10s TCP user timeout was never set",
			time.Since(start).Round(time.Second), len(reqs)-n, len(reqs), len(u.loadClients()))
	}
	t.Logf("dead connection given up after %v", time.Since(start).Round(time.Millisecond))

	// healed: the next request goes over a new connection and is served.
	deadline := time.Now().Add(5 * time.Second)
	for {
		r := newSimpleRequest(newByteArray([]byte("set"), []byte("a"), []byte("b")))
		u.MakeRequestToHost(addr, r)
		if huntC07Wait([]*simpleRequest{r}, 3*time.Second) == 1 && r.Response().Type == SimpleString {
			break
		}
		if time.Now().After(deadline) {
			t.Fatalf("no request served over a new connection after the dead one was given up (accepted=%d)",
				atomic.LoadInt32(&b.accepted))
		}
		time.Sleep(50 * time.Millisecond)
	}
	if got := atomic.LoadInt32(&b.accepted); got < 2 {
		t.Fatalf("expected a second connection, accepted=%d", got)
	}
}

// 3. Behaviour, faithful (needs root and iptables; set VERIF_HUNT_IPTABLES=1): the
// established backend connection is lost silently - every packet of its 4-tuple is
// dropped, as after a peer crash or an expired firewall/NAT entry - while the node
// stays reachable for new connections. One small request is sent. With the user
// timeout the connection is given up after 10s, the request gets its error reply
// and the next request is served over a new connection; on the current code the
// request (and every later one for that address) waits for tcp_retries2 (~15 min).
func TestVerifHuntC07SilentlyLostConnectionHeals(t *testing.T) {
	if os.Getenv("VERIF_HUNT_IPTABLES") == "" {
		t.Skip("set VERIF_HUNT_IPTABLES=1 (root, iptables) to run")
	}
	b := newHuntC07Backend(t)
	defer b.Close()
	atomic.StoreInt32(&b.accepted, 1) // every connection is served here
	addr := b.l.Addr().String()
	_, srvPort, _ := net.SplitHostPort(addr)

	u := newTestUpstream(nil, host.New(addr))
	defer func() {
		for _, c := range u.loadClients() {
			go c.Stop()
		}
	}()

	// establish the connection and see it work.
	r0 := newSimpleRequest(newByteArray([]byte("set"), []byte("a"), []byte("b")))
	u.MakeRequestToHost(addr, r0)
	if huntC07Wait([]*simpleRequest{r0}, 3*time.Second) != 1 || r0.Response().Type != SimpleString {
		t.Fatalf("warm-up request failed: %v", r0.Response())
	}
	c := u.loadClients()[addr]
	_, cliPort, _ := net.SplitHostPort(huntC07RawConn(c).LocalAddr().String())

	rules := [][]string{
		{"INPUT", "-i", "lo", "-p", "tcp", "--sport", cliPort, "--dport", srvPort, "-j", "DROP"},
		{"INPUT", "-i", "lo", "-p", "tcp", "--sport", srvPort, "--dport", cliPort, "-j", "DROP"},
	}
	for _, r := range rules {
		if out, err := exec.Command("iptables", append([]string{"-I"}, r...)...).CombinedOutput(); err != nil {
			t.Skipf("iptables: %v %s", err, out)
		}
		r := r
		defer exec.Command("iptables", append([]string{"-D"}, r...)...).Run() //nolint:errcheck
	}

	start := time.Now()
	r1 := newSimpleRequest(newByteArray([]byte("set"), []byte("a"), []byte("b")))
	u.MakeRequestToHost(addr, r1)
	if huntC07Wait([]*simpleRequest{r1}, 25*time.Second) != 1 {
		t.Fatalf("%v after the backend connection was lost silently the request is still unanswered and the dead "+
			"connection is still in the table, although the node accepts new connections", time.Since(start).Round(time.Second))
	}
	t.Logf("lost connection given up after %v: %s", time.Since(start).Round(time.Millisecond), r1.Response().Text)

	deadline := time.Now().Add(5 * time.Second)
	for {
		r := newSimpleRequest(newByteArray([]byte("set"), []byte("a"), []byte("b")))
		u.MakeRequestToHost(addr, r)
		if huntC07Wait([]*simpleRequest{r}, 3*time.Second) == 1 && r.Response().Type == SimpleString {
			return
		}
		if time.Now().After(deadline) {
			t.Fatal("no request served over a new connection after the lost one was given up")
		}
		time.Sleep(50 * time.Millisecond)
	}
}
