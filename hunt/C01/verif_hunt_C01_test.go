package redis

import (
	"bytes"
	"io"
	"net"
	"strings"
	"sync"
	"testing"
	"time"

	"github.com/samaritan-proxy/samaritan/utils"
)

// huntC01Backend is a minimal Redis node: it answers READONLY with +OK and hands
// every other command to onCmd, which returns the bytes to write back (after
// waiting for as long as it likes).
type huntC01Backend struct {
	l     net.Listener
	onCmd func(cmd []string) []byte
	wg    sync.WaitGroup
	mu    sync.Mutex
	conns []net.Conn
}

func newHuntC01Backend(t *testing.T, onCmd func(cmd []string) []byte) *huntC01Backend {
	t.Helper()
	l, err := net.Listen("tcp", "127.0.0.1:0")
	if err != nil {
		t.Fatal(err)
	}
	b := &huntC01Backend{l: l, onCmd: onCmd}
	b.wg.Add(1)
	go func() {
		defer b.wg.Done()
		for {
			conn, err := l.Accept()
			if err != nil {
				return
			}
			b.mu.Lock()
			b.conns = append(b.conns, conn)
			b.mu.Unlock()
			b.wg.Add(1)
			go func() {
				defer b.wg.Done()
				defer conn.Close()
				dec := newDecoder(conn, 4096)
				for {
					v, err := dec.Decode()
					if err != nil {
						return
					}
					cmd := make([]string, 0, len(v.Array))
					for _, a := range v.Array {
						cmd = append(cmd, string(a.Text))
					}
					var out []byte
					if strings.EqualFold(cmd[0], "readonly") {
						out = []byte("+OK\r\n")
					} else {
						out = b.onCmd(cmd)
					}
					if out == nil {
						continue
					}
					if _, err := conn.Write(out); err != nil {
						return
					}
				}
			}()
		}
	}()
	return b
}

func (b *huntC01Backend) Addr() string { return b.l.Addr().String() }

func (b *huntC01Backend) Close() {
	b.l.Close()
	b.mu.Lock()
	for _, c := range b.conns {
		c.Close()
	}
	b.mu.Unlock()
	b.wg.Wait()
}

// TestVerifHuntC01ReplyHeldBackBehindSilentNode:
//
// one downstream connection pipelines  GET a  (slot of node A)  and  GET b
// (slot of node B).  Node A answers, node B stays silent.  The reply of the
// first request is complete and it is the head of the connection's queue, so
// the proxy has to write it.  It does not: session.loopWrite encodes it into
// its bufio.Writer, sees that another request is queued, skips the Flush and
// then blocks on the completion of the second request.  The first reply stays
// in the user-space buffer for as long as node B is silent (for ever, if B
// never answers).
func TestVerifHuntC01ReplyHeldBackBehindSilentNode(t *testing.T) {
	bGot := make(chan struct{})     // node B has received GET b
	bRelease := make(chan struct{}) // lets node B answer at last
	var bGotOnce, relOnce sync.Once
	release := func() { relOnce.Do(func() { close(bRelease) }) }
	defer release()

	nodeA := newHuntC01Backend(t, func(cmd []string) []byte {
		// answer only once the second request is on its way to node B (and, a
		// moment later, in the session's queue): a legal relative delay.
		<-bGot
		time.Sleep(200 * time.Millisecond)
		return []byte("$1\r\nA\r\n")
	})
	defer nodeA.Close()
	nodeB := newHuntC01Backend(t, func(cmd []string) []byte {
		bGotOnce.Do(func() { close(bGot) })
		<-bRelease
		return []byte("$1\r\nB\r\n")
	})
	defer nodeB.Close()

	p := newRedisTestProc(t)
	p.cfg.Config.ConnectTimeout = utils.DurationPtr(time.Second)
	slotOf := func(key string) int { return int(crc16(hashtag([]byte(key))) & (slotNum - 1)) }
	if slotOf("a") == slotOf("b") {
		t.Fatal("test keys share a slot")
	}
	p.u.slots[slotOf("a")] = &instance{ID: "A", Addr: nodeA.Addr()}
	p.u.slots[slotOf("b")] = &instance{ID: "B", Addr: nodeB.Addr()}
	defer func() {
		for _, c := range p.u.loadClients() {
			c.Stop()
		}
	}()

	// a real TCP connection between the client and the session.
	l, err := net.Listen("tcp", "127.0.0.1:0")
	if err != nil {
		t.Fatal(err)
	}
	defer l.Close()
	cli, err := net.Dial("tcp", l.Addr().String())
	if err != nil {
		t.Fatal(err)
	}
	defer cli.Close()
	srv, err := l.Accept()
	if err != nil {
		t.Fatal(err)
	}
	s := newSession(p, srv)
	sessDone := make(chan struct{})
	go func() {
		s.Serve()
		close(sessDone)
	}()
	defer func() {
		cli.Close()
		select {
		case <-sessDone:
		case <-time.After(5 * time.Second):
			t.Error("session did not end")
		}
	}()

	// the pipeline, in one write.
	pipeline := append(encode(newStringArray("GET", "a")), encode(newStringArray("GET", "b"))...)
	if _, err := cli.Write(pipeline); err != nil {
		t.Fatal(err)
	}

	select {
	case <-bGot:
	case <-time.After(5 * time.Second):
		t.Fatal("node B never received GET b")
	}

	// node A answers 200ms after that. Give the proxy 3 seconds to hand the
	// first reply to the client while node B is still silent.
	want1 := []byte("$1\r\nA\r\n")
	got1 := make([]byte, len(want1))
	cli.SetReadDeadline(time.Now().Add(3 * time.Second)) //nolint:errcheck
	n, err := io.ReadFull(cli, got1)
	heldBack := false
	if err != nil {
		heldBack = true
		t.Errorf("reply 1 (answered by node A long ago) was not written while node B is silent: "+
			"read %d bytes %q, err=%v", n, got1[:n], err)
	} else if !bytes.Equal(got1, want1) {
		t.Fatalf("reply 1 = %q, want %q", got1, want1)
	}

	// control: as soon as node B answers, everything arrives, in order. This
	// shows that the scenario is sound and that reply 1 was only sitting in
	// the session's write buffer.
	release()
	rest := []byte("$1\r\nB\r\n")
	if heldBack {
		rest = append(append([]byte{}, want1[n:]...), rest...)
	}
	got := make([]byte, len(rest))
	cli.SetReadDeadline(time.Now().Add(3 * time.Second)) //nolint:errcheck
	if _, err := io.ReadFull(cli, got); err != nil {
		t.Fatalf("after node B answered: %v (got %q)", err, got)
	}
	if !bytes.Equal(got, rest) {
		t.Fatalf("after node B answered: got %q, want %q", got, rest)
	}
	if heldBack {
		t.Logf("both replies arrived together only after node B answered: %q", got)
	}
}
