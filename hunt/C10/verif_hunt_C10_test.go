package redis

import (
	"bytes"
	"fmt"
	"io"
	"testing"
	"testing/iotest"
)

// huntC10LastWithErr delivers data in chunks of at most chunk bytes. The read
// that delivers the last bytes of the stream returns them together with the
// final error (n > 0, err != nil), which the io.Reader contract allows
// ("It may return the (non-nil) error from the same call or return the error
// (and n == 0) from a subsequent call. ... Callers should always process the
// n > 0 bytes returned before considering the error err.").
// crypto/tls.Conn does this for data followed by close_notify, and
// testing/iotest.DataErrReader exists to test callers for it.
type huntC10LastWithErr struct {
	data  []byte
	chunk int
	err   error
}

func (r *huntC10LastWithErr) Read(p []byte) (int, error) {
	if len(r.data) == 0 {
		return 0, r.err
	}
	n := r.chunk
	if n > len(p) {
		n = len(p)
	}
	if n > len(r.data) {
		n = len(r.data)
	}
	copy(p, r.data[:n])
	r.data = r.data[n:]
	if len(r.data) == 0 {
		return n, r.err
	}
	return n, nil
}

func huntC10DecodeAll(rd io.Reader, bufSize int) ([]string, error) {
	dec := newDecoder(rd, bufSize)
	var got []string
	for i := 0; i < 100; i++ {
		v, err := dec.Decode()
		if err != nil {
			return got, err
		}
		var b bytes.Buffer
		enc := newEncoder(&b, 4096)
		if err := enc.Encode(v); err != nil {
			return got, err
		}
		enc.Flush()
		got = append(got, b.String())
	}
	return got, fmt.Errorf("no end")
}

// The same byte stream, split into reads in different ways, must decode to the
// same messages. It does when the end of the stream is signalled by a separate
// (0, io.EOF) read, but every message contained in a read that also carries
// the error is lost.
func TestVerifHuntC10LastReadWithError(t *testing.T) {
	msgs := []string{
		"+OK\r\n",
		":-9223372036854775808\r\n",
		"$5\r\nhello\r\n",
		"*2\r\n$3\r\nGET\r\n$1\r\nk\r\n",
		"PING\r\n",
		"-ERR last\r\n",
	}
	stream := []byte{}
	for _, m := range msgs {
		stream = append(stream, m...)
	}
	// inline "PING" re-encodes as its array form
	want := append([]string{}, msgs...)
	want[4] = "*1\r\n$4\r\nPING\r\n"

	// reference: the end of the stream comes in a read of its own
	ref, err := huntC10DecodeAll(bytes.NewReader(stream), 4096)
	if err != io.EOF || fmt.Sprint(ref) != fmt.Sprint(want) {
		t.Fatalf("reference run: got %q, %v", ref, err)
	}

	bad := 0
	check := func(name string, rd io.Reader, bufSize int) {
		got, err := huntC10DecodeAll(rd, bufSize)
		if err != io.EOF || fmt.Sprint(got) != fmt.Sprint(want) {
			bad++
			if bad <= 6 { // the rest look the same
				t.Errorf("%s: decoded only %d of %d messages, then %v: %q", name, len(got), len(want), err, got)
			}
		}
	}
	// the standard library's reader for exactly this case
	check("iotest.DataErrReader/4096", iotest.DataErrReader(bytes.NewReader(stream)), 4096)
	check("iotest.DataErrReader/8192", iotest.DataErrReader(bytes.NewReader(stream)), 8192)
	// every chunk size: only the position of the last read differs
	for chunk := 1; chunk <= len(stream); chunk++ {
		for _, bs := range []int{32, 4096, 8192} {
			check(fmt.Sprintf("chunk=%d/buf=%d", chunk, bs),
				&huntC10LastWithErr{data: stream, chunk: chunk, err: io.EOF}, bs)
		}
	}
	if bad > 0 {
		t.Errorf("%d ways of splitting the same stream into reads lost messages", bad)
	}
}
