package redis

import (
	"bytes"
	"fmt"
	"runtime"
	"sync"
	"testing"
	"time"

	"github.com/samaritan-proxy/samaritan/pb/config/protocol"
	pbredis "github.com/samaritan-proxy/samaritan/pb/config/protocol/redis"
	"github.com/samaritan-proxy/samaritan/pb/config/service"
)

// Compression is switched off by an operator the plain way: the compression
// section is taken out of the service configuration (redisProc.OnSvcConfigUpdate
// -> config.Update). Backend writers are filtering requests at that time.
//
// compressFilter.Do reads the compression section twice: once for the "is there a
// section at all" test and once more, after the reply hook has been registered,
// to look at Enable. When the update lands between the two reads the second read
// yields nil and `cfg.Enable` is a nil pointer dereference - in production inside
// client.loopWrite, which has no recover, so the whole proxy process dies and
// neither this write nor anything else is answered.
//
// The test plays exactly that history: a goroutine stands for the configuration
// updates (section present <-> section absent, both are valid configurations),
// the test goroutine stands for one backend writer that runs SET requests
// through the real filter. Whatever the interleaving, every request must come
// out of the filter either untouched or as a correct frame, and the filter must
// not panic.
func TestVerifHuntC13SectionRemovedWhileFiltering(t *testing.T) {
	if runtime.GOMAXPROCS(0) < 2 {
		t.Skip("needs two CPUs to let an update land inside the filter")
	}

	mk := func(cps *pbredis.Compression) *service.Config {
		return &service.Config{
			Protocol: protocol.Redis,
			ProtocolOptions: &service.Config_RedisOption{
				RedisOption: &protocol.RedisOption{Compression: cps},
			},
		}
	}
	with := mk(&pbredis.Compression{Enable: true, Algorithm: pbredis.Compression_SNAPPY, Threshold: 64})
	without := mk(nil)

	cfg := newConfig(with)
	f := newCompressFilter(cfg)
	cf := f.(*compressFilter)

	stop := make(chan struct{})
	var wg sync.WaitGroup
	wg.Add(1)
	go func() { // the configuration updates
		defer wg.Done()
		for {
			select {
			case <-stop:
				return
			default:
			}
			cfg.Update(without)
			cfg.Update(with)
		}
	}()
	defer func() {
		close(stop)
		wg.Wait()
	}()

	orig := bytes.Repeat([]byte("0"), 1024)
	hdr := cpsHdrs[pbredis.Compression_SNAPPY]

	deadline := time.Now().Add(3 * time.Second)
	n := 0
	for time.Now().Before(deadline) {
		n++
		val := append([]byte{}, orig...)
		req := newSimpleRequest(newByteArray([]byte("set"), []byte("k"), val))

		var panicked interface{}
		func() {
			defer func() { panicked = recover() }()
			f.Do("set", req)
		}()
		if panicked != nil {
			t.Fatalf("request %d: compressFilter.Do panicked while the compression section was being removed: %v\n"+
				"(in production this is client.loopWrite: the proxy process exits)", n, panicked)
		}

		// what would go to the backend: the original, or a frame of the original.
		got := req.Body().Array[2].Text
		if bytes.Equal(got, orig) {
			continue
		}
		if !bytes.HasPrefix(got, hdr) || len(got) >= len(orig) {
			t.Fatalf("request %d: neither the original nor a shorter frame: % x", n, got[:16])
		}
		back, err := cf.decompress(got)
		if err != nil || !bytes.Equal(back, orig) {
			t.Fatalf("request %d: frame does not give the original back: %v", n, err)
		}
	}
	fmt.Printf("C13 hunt: %d requests filtered without a panic\n", n)
}
