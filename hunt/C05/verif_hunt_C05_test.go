package tcp

import (
	"fmt"
	"io"
	"math/rand"
	"net"
	"os"
	"sync"
	"testing"
	"time"

	"github.com/samaritan-proxy/samaritan/host"
	"github.com/samaritan-proxy/samaritan/utils"
)

// ---- helpers ----

type huntSide struct {
	sendLen    int           // bytes to send
	seed       int64         // content seed of what this side sends
	wMax       int           // max write chunk
	wPause     time.Duration // pause between writes (0: none)
	rMax       int           // max read chunk
	rPause     time.Duration // pause between reads
	startDelay time.Duration // before first write
	readDelay  time.Duration // before first read
	fullClose  bool          // after sending: wait for peer EOF then Close (always); if true, do NOT CloseWrite, just stop sending and Close after reading peer EOF
}

func huntData(seed int64, n int) []byte {
	r := rand.New(rand.NewSource(seed))
	b := make([]byte, n)
	r.Read(b)
	return b
}

type huntResult struct {
	got    int
	err    error // first mismatch / read error other than EOF
	werr   error
	sawEOF bool
}

// runs one side: concurrently sends its stream (then CloseWrite) and reads the
// peer's stream until EOF, comparing.
func huntRun(conn net.Conn, me huntSide, peer huntSide, rnd *rand.Rand) huntResult {
	var res huntResult
	var wg sync.WaitGroup
	wg.Add(1)
	wseed := rnd.Int63()
	go func() {
		defer wg.Done()
		r := rand.New(rand.NewSource(wseed))
		data := huntData(me.seed, me.sendLen)
		time.Sleep(me.startDelay)
		for off := 0; off < len(data); {
			n := 1 + r.Intn(me.wMax)
			if off+n > len(data) {
				n = len(data) - off
			}
			if _, err := conn.Write(data[off : off+n]); err != nil {
				res.werr = fmt.Errorf("write at %d: %v", off, err)
				return
			}
			off += n
			if me.wPause > 0 {
				time.Sleep(me.wPause)
			}
		}
		if !me.fullClose {
			if err := conn.(*net.TCPConn).CloseWrite(); err != nil {
				res.werr = fmt.Errorf("closewrite: %v", err)
			}
		}
	}()

	want := huntData(peer.seed, peer.sendLen)
	time.Sleep(me.readDelay)
	buf := make([]byte, me.rMax)
	conn.SetReadDeadline(time.Now().Add(20 * time.Second))
	for {
		n := 1 + rnd.Intn(me.rMax)
		k, err := conn.Read(buf[:n])
		for i := 0; i < k; i++ {
			if res.got+i >= len(want) {
				res.err = fmt.Errorf("extra byte at %d", res.got+i)
				break
			}
			if buf[i] != want[res.got+i] {
				res.err = fmt.Errorf("mismatch at %d", res.got+i)
				break
			}
		}
		res.got += k
		if res.err != nil {
			break
		}
		if err == io.EOF {
			res.sawEOF = true
			break
		}
		if err != nil {
			res.err = fmt.Errorf("read after %d: %v", res.got, err)
			break
		}
		if me.rPause > 0 {
			time.Sleep(me.rPause)
		}
	}
	if res.err == nil && res.got != len(want) {
		res.err = fmt.Errorf("EOF after %d of %d bytes", res.got, len(want))
	}
	wg.Wait()
	conn.Close()
	return res
}

type huntBackend struct {
	ln      net.Listener
	mu      sync.Mutex
	proxied map[string]bool // local addrs of proxy-dialed conns
	conns   chan net.Conn
}

func newHuntBackend(t *testing.T) *huntBackend {
	ln, err := newLocalListener()
	if err != nil {
		t.Fatal(err)
	}
	b := &huntBackend{ln: ln, proxied: map[string]bool{}, conns: make(chan net.Conn, 128)}
	go func() {
		for {
			c, err := ln.Accept()
			if err != nil {
				return
			}
			go func() {
				// health-check connections are not dialed through dialTimeout
				for i := 0; i < 100; i++ {
					b.mu.Lock()
					ok := b.proxied[c.RemoteAddr().String()]
					b.mu.Unlock()
					if ok {
						b.conns <- c
						return
					}
					time.Sleep(5 * time.Millisecond)
				}
				c.Close()
			}()
		}
	}()
	return b
}

func (b *huntBackend) hookDial() func() {
	saved := dialTimeout
	dialTimeout = func(network, address string, timeout time.Duration) (net.Conn, error) {
		c, err := net.DialTimeout(network, address, timeout)
		if err == nil {
			b.mu.Lock()
			b.proxied[c.LocalAddr().String()] = true
			b.mu.Unlock()
		}
		return c, err
	}
	return func() { dialTimeout = saved }
}

func huntOne(t *testing.T, p *tcpProc, b *huntBackend, name string, cl, sv huntSide, seed int64) bool {
	var sres huntResult
	sdone := make(chan struct{})
	go func() {
		defer close(sdone)
		select {
		case c := <-b.conns:
			sres = huntRun(c, sv, cl, rand.New(rand.NewSource(seed+1)))
		case <-time.After(10 * time.Second):
			sres.err = fmt.Errorf("no backend connection")
		}
	}()
	conn, err := net.Dial("tcp", p.Address())
	if err != nil {
		t.Fatal(err)
	}
	cres := huntRun(conn, cl, sv, rand.New(rand.NewSource(seed)))
	<-sdone
	ok := true
	if cres.err != nil || cres.werr != nil {
		t.Errorf("%s: client: recv err=%v, send err=%v (got %d of %d)", name, cres.err, cres.werr, cres.got, sv.sendLen)
		ok = false
	}
	if sres.err != nil || sres.werr != nil {
		t.Errorf("%s: backend: recv err=%v, send err=%v (got %d of %d)", name, sres.err, sres.werr, sres.got, cl.sendLen)
		ok = false
	}
	return ok
}

// Exploration (passes on the current code): random lengths, chunkings, pacing and
// half-close orders, no gap longer than the idle timeout. HUNT_EXPLORE=1 to run.
func TestVerifHuntC05Explore(t *testing.T) {
	if os.Getenv("HUNT_EXPLORE") == "" {
		t.Skip("set HUNT_EXPLORE=1")
	}
	b := newHuntBackend(t)
	defer b.ln.Close()
	defer b.hookDial()()

	cfg := newServiceConfig()
	cfg.IdleTimeout = utils.DurationPtr(5 * time.Second)
	hosts := []*host.Host{host.New(b.ln.Addr().String())}

	testProc(t, cfg, hosts, func(p *tcpProc) {
		rnd := rand.New(rand.NewSource(42))
		lens := []int{0, 1, 100, 16383, 16384, 16385, 32768, 100000, 1 << 20, 5 << 20}
		pauses := []time.Duration{0, 0, 0, time.Millisecond, 3 * time.Millisecond}
		chunks := []int{1, 7, 512, 16384, 16385, 65536, 1 << 20}
		var wg sync.WaitGroup
		sem := make(chan struct{}, 1)
		for i := 0; i < 150; i++ {
			mk := func() huntSide {
				s := huntSide{
					sendLen: lens[rnd.Intn(len(lens))],
					seed:    rnd.Int63(),
					wMax:    chunks[rnd.Intn(len(chunks))],
					rMax:    chunks[rnd.Intn(len(chunks))],
					wPause:  pauses[rnd.Intn(len(pauses))],
					rPause:  pauses[rnd.Intn(len(pauses))],
				}
				if s.wMax < 100 && s.sendLen > 100000 {
					s.wMax = 4096
				}
				if s.wPause > 0 && s.sendLen/s.wMax > 500 {
					s.wPause = 0
				}
				if s.rPause > 0 {
					s.rMax = 65536
				}
				if rnd.Intn(4) == 0 {
					s.startDelay = time.Duration(rnd.Intn(300)) * time.Millisecond
				}
				if rnd.Intn(4) == 0 {
					s.readDelay = time.Duration(rnd.Intn(300)) * time.Millisecond
				}
				return s
			}
			cl, sv := mk(), mk()
			name := fmt.Sprintf("#%d cl=%+v sv=%+v", i, cl, sv)
			seed := rnd.Int63()
			sem <- struct{}{}
			wg.Add(1)
			go func() {
				defer wg.Done()
				defer func() { <-sem }()
				huntOne(t, p, b, name, cl, sv, seed)
			}()
		}
		wg.Wait()
	})
}

// The defect.
//
// idle timeout 500ms.  The client sends one byte and then only listens; the
// backend (which reads until end-of-stream and is not disturbed by the client's
// half-close) sends one byte every 50ms, so the backend->client direction is
// never idle.  After 500ms the proxy ends the client->backend direction
// (pipeConn: CloseWrite on the backend, CloseRead on the client socket) and
// keeps relaying backend->client.  At 800ms the client sends one more byte
// (late=true).  Nobody reads it: it stays in the receive queue of the proxy's
// client socket.  The backend then sends a 2 MiB tail and finishes; the client
// is a slow reader, so most of the tail is still in the send queue of the
// proxy's client socket when both directions have ended and the proxy closes
// the socket.  Closing a TCP socket with unread input makes the kernel send RST
// and discard the send queue: the client gets ~100 KiB of the 2 MiB and then
// ECONNRESET instead of the remaining bytes and end-of-stream.
//
// With late=false (control) everything is the same but the one late byte, and
// the client receives every byte and then EOF.
func huntLateByte(t *testing.T, late bool) {
	b := newHuntBackend(t)
	defer b.ln.Close()
	defer b.hookDial()()

	cfg := newServiceConfig()
	cfg.IdleTimeout = utils.DurationPtr(500 * time.Millisecond)
	hosts := []*host.Host{host.New(b.ln.Addr().String())}
	const head, tail = 20, 2 << 20

	testProc(t, cfg, hosts, func(p *tcpProc) {
		goAhead := make(chan struct{})
		sdone := make(chan error, 1)
		data := huntData(7, head+tail)
		go func() {
			var c net.Conn
			select {
			case c = <-b.conns:
			case <-time.After(10 * time.Second):
				sdone <- fmt.Errorf("no backend connection")
				return
			}
			defer c.Close()
			// the backend reads the client's stream to its end
			rdone := make(chan struct{})
			go func() { io.Copy(io.Discard, c); close(rdone) }()
			// keep the backend->client direction busy
			off := 0
			tick := time.NewTicker(50 * time.Millisecond)
			defer tick.Stop()
		loop:
			for {
				select {
				case <-tick.C:
					if off < head {
						c.Write(data[off : off+1])
						off++
					}
				case <-goAhead:
					break loop
				}
			}
			_, err := c.Write(data[off:])
			if err == nil {
				err = c.(*net.TCPConn).CloseWrite()
			}
			select {
			case <-rdone:
			case <-time.After(5 * time.Second):
			}
			sdone <- err
		}()

		conn, err := net.Dial("tcp", p.Address())
		if err != nil {
			t.Fatal(err)
		}
		defer conn.Close()
		if _, err := conn.Write([]byte("R")); err != nil {
			t.Fatal(err)
		}
		got := 0
		buf := make([]byte, 4096)
		start := time.Now()
		passed := false
		conn.SetReadDeadline(time.Now().Add(20 * time.Second))
		for {
			if !passed && time.Since(start) > 800*time.Millisecond {
				passed = true
				if late {
					if _, err := conn.Write([]byte("L")); err != nil {
						t.Fatalf("late write: %v", err)
					}
				}
				time.Sleep(50 * time.Millisecond)
				close(goAhead)
				// a slow reader: both directions end while the tail is still queued in the proxy
				time.Sleep(1500 * time.Millisecond)
			}
			n, err := conn.Read(buf)
			for i := 0; i < n; i++ {
				if got+i >= len(data) || buf[i] != data[got+i] {
					t.Fatalf("wrong byte at %d", got+i)
				}
			}
			got += n
			if err != nil {
				if err != io.EOF || got != len(data) {
					t.Errorf("client received %d of the %d bytes the backend sent, then: %v", got, len(data), err)
				}
				break
			}
		}
		conn.Close()
		if err := <-sdone; err != nil {
			t.Errorf("backend: %v", err)
		}
	})
}

func TestVerifHuntC05LateByteControl(t *testing.T) { huntLateByte(t, false) }

func TestVerifHuntC05LateByte(t *testing.T) { huntLateByte(t, true) }
