#!/bin/sh
# Build the verification framework from files on disk only (offline).
set -e
cd "$(dirname "$0")"
export GOFLAGS=-mod=mod GOPROXY=off GOSUMDB=off GOTOOLCHAIN=local CGO_ENABLED=0
mkdir -p bin work evidence replays
(cd extract && go build -o ../bin/verifextract .)
./bin/verifextract -repo "${VERIF_REPO:-/repo}" -out lean/SamVerif/Gen -report work/extract-setup.json || true
cp "${VERIF_REPO:-/repo}/go.sum" harness/go.sum
(cd harness && go build -tags verif -o ../bin/samharness ./cmd/samharness)
(cd lean && lake build SamVerif samdriver)
echo "setup ok"
