// Package hx is the common part of the correspondence harness: one PRNG, one
// op-line writer, statistics for the evidence file.
package hx

import (
	"bufio"
	"encoding/hex"
	"encoding/json"
	"fmt"
	"hash/fnv"
	"math/rand"
	"os"
	"path/filepath"
	"sort"
	"strconv"
	"strings"
	"time"
)

// Prop is what every property runner implements.
type Prop interface {
	// Rule describes how cases are generated and which count as non-trivial.
	Rule() string
	// Gen generates cases and calls r.Do for each.
	Gen(r *Run)
	// Exec runs one op line (without the " => …" part) against the real code and
	// returns the canonical implementation output.
	Exec(op string) string
}

// Violation is something the harness itself observed on the implementation that
// the property forbids (a crash, a hang, a trace the Go-side oracle rejects).
type Violation struct {
	Op   string `json:"op"`
	What string `json:"what"`
}

type Run struct {
	deadline time.Time
	PropID   string
	Seed     int64
	Tier     string
	Rng      *rand.Rand
	P        Prop

	cur      string // file holding the op being executed
	w        *bufio.Writer
	f        *os.File
	evals    int
	distinct map[uint64]struct{}
	samples  []string
	hist     map[string]int
	viol     []Violation
	notes    []string
	exhaust  bool
}

func NewRun(id string, seed int64, tier, outDir string, p Prop) (*Run, error) {
	if err := os.MkdirAll(outDir, 0o755); err != nil {
		return nil, err
	}
	f, err := os.Create(filepath.Join(outDir, "ops.txt"))
	if err != nil {
		return nil, err
	}
	r := &Run{PropID: id, Seed: seed, Tier: tier, Rng: rand.New(rand.NewSource(seed)), P: p,
		w: bufio.NewWriterSize(f, 1<<20), f: f, distinct: map[uint64]struct{}{}, hist: map[string]int{}, cur: filepath.Join(outDir, "current.op")}
	if n, err := strconv.Atoi(os.Getenv("VERIF_MAXSEC")); err == nil && n > 0 {
		r.deadline = time.Now().Add(time.Duration(n) * time.Second)
	}
	return r, nil
}

// Thorough reports whether the thorough tier was requested.
func (r *Run) Thorough() bool { return r.Tier == "thorough" }

// N picks a budget by tier.
func (r *Run) N(quick, thorough int) int {
	if r.Thorough() {
		return thorough
	}
	return quick
}

// Do executes op on the implementation and records "op => out".
// nontrivial: whether this case is non-trivial by the property's rule.
// tags are counted in the histogram.
func (r *Run) Do(op string, nontrivial bool, tags ...string) string {
	if !r.deadline.IsZero() && time.Now().After(r.deadline) {
		// VERIF_MAXSEC: a bounded search run; what was generated so far is what gets checked
		r.hist["skipped-after-deadline"]++
		return ""
	}
	// the op in hand is on disk before it runs: if it takes the whole process down, the check knows which one it was
	if r.cur != "" {
		os.WriteFile(r.cur, []byte(op), 0o644)
	}
	// Ops with real sockets and timeouts (a 300 ms connect timeout, pauses that let a goroutine reach a channel) assume a
	// machine that schedules this process.  A ticking goroutine measures the longest gap it saw while the op ran; an op
	// that ran while the process was not scheduled for more than 100 ms is executed again (at most twice) and only the last
	// execution counts.  What is repeated is the whole op on a fresh fixture, whatever its outcome was.
	var out string
	for try := 0; ; try++ {
		starveReset()
		out = r.P.Exec(op)
		if try >= 2 || starveMax() < 100*time.Millisecond {
			break
		}
		r.hist["rerun-after-starvation"]++
		time.Sleep(200 * time.Millisecond)
	}
	fmt.Fprintf(r.w, "%s => %s\n", op, out)
	r.evals++
	if nontrivial {
		h := fnv.New64a()
		h.Write([]byte(op))
		r.distinct[h.Sum64()] = struct{}{}
	}
	for _, t := range tags {
		r.hist[t]++
	}
	if len(r.samples) < 6 && (nontrivial || r.evals <= 2) {
		s := op + " => " + out
		if len(s) > 400 {
			s = s[:400] + "…"
		}
		r.samples = append(r.samples, s)
	}
	return out
}

// Tag counts a histogram bucket without an op.
func (r *Run) Tag(t string) { r.hist[t]++ }

// Violate records an implementation-side violation found by the harness itself.
func (r *Run) Violate(op, what string) { r.viol = append(r.viol, Violation{op, what}) }

// Note adds a free-text note to the stats.
func (r *Run) Note(s string) { r.notes = append(r.notes, s) }

// Exhaustive marks that a finite space was enumerated completely.
func (r *Run) Exhaustive() { r.exhaust = true }

func (r *Run) Close(outDir string) error {
	if r.cur != "" {
		os.Remove(r.cur)
	}
	if err := r.w.Flush(); err != nil {
		return err
	}
	r.f.Close()
	keys := make([]string, 0, len(r.hist))
	for k := range r.hist {
		keys = append(keys, k)
	}
	sort.Strings(keys)
	hist := map[string]int{}
	for _, k := range keys {
		hist[k] = r.hist[k]
	}
	st := map[string]interface{}{
		"property_id":         r.PropID,
		"seed":                r.Seed,
		"tier":                r.Tier,
		"evaluations":         r.evals,
		"distinct_nontrivial": len(r.distinct),
		"rule":                r.P.Rule(),
		"samples":             r.samples,
		"histogram":           hist,
		"violations":          r.viol,
		"notes":               r.notes,
		"exhaustive":          r.exhaust,
	}
	b, _ := json.MarshalIndent(st, "", " ")
	return os.WriteFile(filepath.Join(outDir, "stats.json"), b, 0o644)
}

// Hex encodes bytes for the line protocol ("-" for empty).
func Hex(b []byte) string {
	if len(b) == 0 {
		return "-"
	}
	return hex.EncodeToString(b)
}

// Unhex decodes Hex.
func Unhex(s string) ([]byte, error) {
	if s == "-" {
		return []byte{}, nil
	}
	return hex.DecodeString(s)
}

// Fields splits an op line.
func Fields(op string) []string { return strings.Fields(op) }
