package hx

import (
	"fmt"
	"net"
	"sort"
	"sync"
	"time"

	"github.com/samaritan-proxy/samaritan/host"
	"github.com/samaritan-proxy/samaritan/pb/common"
	"github.com/samaritan-proxy/samaritan/pb/config/protocol"
	"github.com/samaritan-proxy/samaritan/pb/config/service"
	"github.com/samaritan-proxy/samaritan/proc"
	_ "github.com/samaritan-proxy/samaritan/proc/tcp" // registers the TCP builder
)

// Backend is a scripted TCP backend: every accepted connection is handed to Conns.
type Backend struct {
	L     net.Listener
	Addr  string
	Conns chan net.Conn
	mu    sync.Mutex
	n     int
}

func NewBackend() (*Backend, error) {
	l, err := net.Listen("tcp", "127.0.0.1:0")
	if err != nil {
		return nil, err
	}
	b := &Backend{L: l, Addr: l.Addr().String(), Conns: make(chan net.Conn, 256)}
	go func() {
		for {
			c, err := l.Accept()
			if err != nil {
				return
			}
			b.mu.Lock()
			b.n++
			b.mu.Unlock()
			b.Conns <- c
		}
	}()
	return b, nil
}

// Accepted is the number of connections accepted so far.
func (b *Backend) Accepted() int { b.mu.Lock(); defer b.mu.Unlock(); return b.n }

func (b *Backend) Close() { b.L.Close() }

var tcpSeq int

// NewTCPProc starts a real TCP processor (proc.New, public API) in front of the given hosts.
func NewTCPProc(policy service.LoadBalancePolicy, idle time.Duration, limit uint32, hosts []*host.Host) (proc.Proc, error) {
	tcpSeq++
	return NewTCPProcNamed(fmt.Sprintf("verif-tcp-%d", tcpSeq), policy, idle, limit, hosts)
}

// NewTCPProcNamed: the same under a given service name.
func NewTCPProcNamed(name string, policy service.LoadBalancePolicy, idle time.Duration, limit uint32, hosts []*host.Host) (proc.Proc, error) {
	ct := 500 * time.Millisecond
	cfg := &service.Config{
		Listener:        &service.Listener{Address: &common.Address{Ip: "127.0.0.1", Port: 0}, ConnectionLimit: limit},
		ConnectTimeout:  &ct,
		IdleTimeout:     &idle,
		LbPolicy:        policy,
		Protocol:        protocol.TCP,
		ProtocolOptions: &service.Config_TcpOption{TcpOption: &protocol.TCPOption{}},
	}
	p, err := proc.New(name, cfg, hosts)
	if err != nil {
		return nil, err
	}
	if err := p.Start(); err != nil {
		return nil, err
	}
	// wait for the listener to be bound
	// (Address reads the listener field without the lock Serve publishes it under: do not look while it is being written)
	time.Sleep(2 * time.Millisecond)
	for i := 0; i < 400 && p.Address() == ""; i++ {
		time.Sleep(time.Millisecond)
	}
	if p.Address() == "" {
		return nil, fmt.Errorf("listener not bound")
	}
	return p, nil
}

// SortedIndex maps addresses to their rank in ascending string order (the order of Set.Healthy()).
func SortedIndex(addrs []string) map[string]int {
	s := append([]string{}, addrs...)
	sort.Strings(s)
	m := map[string]int{}
	for i, a := range s {
		m[a] = i
	}
	return m
}
