package hx

import (
	"bufio"
	"fmt"
	"io"
	"os"
	"os/exec"
	"runtime/debug"
	"strings"
	"syscall"
	"time"
)

// Isolated executes op lines in child processes of this binary (`-childexec <prop>`): a crash,
// a fatal runtime error (stack overflow, out of memory under the address-space limit) or a hang
// of the code under test is an observable outcome of that op, not the end of the run.
type Isolated struct {
	Prop    string
	Timeout time.Duration // per op
	cmd     *exec.Cmd
	in      io.WriteCloser
	out     *bufio.Reader
	crash   string // file the child's runtime writes its fatal message to
}

func (c *Isolated) start() error {
	exe, err := os.Executable()
	if err != nil {
		return err
	}
	cmd := exec.Command(exe, "-childexec", c.Prop)
	if c.crash == "" {
		if f, err := os.CreateTemp("", "verif-crash-*.txt"); err == nil {
			c.crash = f.Name()
			f.Close()
		}
	}
	os.Truncate(c.crash, 0)
	cmd.Env = append(os.Environ(), "GOMEMLIMIT=3GiB", "VERIF_CHILD=1", "VERIF_CRASH_FILE="+c.crash)
	cmd.Stderr = nil
	in, err := cmd.StdinPipe()
	if err != nil {
		return err
	}
	out, err := cmd.StdoutPipe()
	if err != nil {
		return err
	}
	if err := cmd.Start(); err != nil {
		return err
	}
	c.cmd, c.in, c.out = cmd, in, bufio.NewReaderSize(out, 1<<20)
	return nil
}

func (c *Isolated) kill() {
	if c.cmd != nil {
		c.cmd.Process.Kill()
		c.cmd.Wait()
		c.cmd = nil
	}
}

// Exec runs one op in the child and returns its output, or `crashed <how>` / `timeout`.
func (c *Isolated) Exec(op string) string {
	if c.cmd == nil {
		if err := c.start(); err != nil {
			return "child-start-failed " + err.Error()
		}
	}
	if _, err := io.WriteString(c.in, op+"\n"); err != nil {
		c.kill()
		return "crashed write-to-child-failed"
	}
	type res struct {
		line string
		err  error
	}
	ch := make(chan res, 1)
	go func() {
		l, err := c.out.ReadString('\n')
		ch <- res{l, err}
	}()
	to := c.Timeout
	if to == 0 {
		to = 20 * time.Second
	}
	select {
	case r := <-ch:
		if r.err != nil {
			st := "unknown"
			if c.cmd != nil {
				err := c.cmd.Wait()
				if ee, ok := err.(*exec.ExitError); ok {
					if ws, ok := ee.Sys().(syscall.WaitStatus); ok && ws.Signaled() {
						st = "signal-" + ws.Signal().String()
					} else {
						st = fmt.Sprintf("exit-%d", ee.ExitCode())
					}
				}
				c.cmd = nil
			}
			// what the runtime said when it died (panic message or fatal error), first line
			why := ""
			if b, err := os.ReadFile(c.crash); err == nil {
				for _, l := range strings.Split(string(b), "\n") {
					if strings.HasPrefix(l, "panic:") || strings.HasPrefix(l, "fatal error:") || strings.HasPrefix(l, "runtime:") {
						if len(l) > 160 {
							l = l[:160]
						}
						why = " " + strings.ReplaceAll(l, " ", "_")
						break
					}
				}
			}
			return "crashed " + strings.ReplaceAll(st, " ", "-") + why
		}
		return strings.TrimRight(r.line, "\n")
	case <-time.After(to):
		c.kill()
		return "timeout"
	}
}

func (c *Isolated) Close() {
	c.kill()
	if c.crash != "" {
		os.Remove(c.crash)
		c.crash = ""
	}
}

// ChildLoop is the child side: executes ops from stdin with the property's Exec and prints one line each.
func ChildLoop(p Prop) {
	// address-space limit: a runaway allocation kills this child, not the machine
	var lim syscall.Rlimit
	lim.Cur, lim.Max = 10<<30, 10<<30
	syscall.Setrlimit(syscall.RLIMIT_AS, &lim)
	// the code under test logs to stdout/stderr: keep the protocol on a private descriptor
	proto, err := syscall.Dup(1)
	if err != nil {
		os.Exit(3)
	}
	if devnull, err := os.OpenFile(os.DevNull, os.O_WRONLY, 0); err == nil {
		syscall.Dup2(int(devnull.Fd()), 1)
		syscall.Dup2(int(devnull.Fd()), 2)
	}
	if cf := os.Getenv("VERIF_CRASH_FILE"); cf != "" {
		if f, err := os.OpenFile(cf, os.O_WRONLY|os.O_CREATE|os.O_TRUNC, 0o644); err == nil {
			debug.SetCrashOutput(f, debug.CrashOptions{})
		}
	}
	sc := bufio.NewScanner(os.Stdin)
	sc.Buffer(make([]byte, 1<<20), 1<<28)
	w := bufio.NewWriter(os.NewFile(uintptr(proto), "proto"))
	for sc.Scan() {
		out := p.Exec(sc.Text())
		w.WriteString(strings.ReplaceAll(out, "\n", " ") + "\n")
		w.Flush()
	}
}
