package hx

import (
	"bytes"
	"fmt"
	"io"
	"strconv"
	"strings"

	"github.com/samaritan-proxy/samaritan/proc/redis"
)

// Render prints a RespValue in the canonical text shared with the Lean driver:
// i<dec> s<hex> e<hex> n b<hex> N [v,v,…]; nil and empty are distinguished.
func Render(v *redis.RespValue) string {
	var sb strings.Builder
	render(&sb, v)
	return sb.String()
}

func render(sb *strings.Builder, v *redis.RespValue) {
	switch v.Type {
	case redis.Integer:
		sb.WriteString("i" + strconv.FormatInt(v.Int, 10))
	case redis.SimpleString:
		sb.WriteString("s" + Hex(v.Text))
	case redis.Error:
		sb.WriteString("e" + Hex(v.Text))
	case redis.BulkString:
		if v.Text == nil {
			sb.WriteString("n")
		} else {
			sb.WriteString("b" + Hex(v.Text))
		}
	case redis.Array:
		if v.Array == nil {
			sb.WriteString("N")
		} else {
			sb.WriteString("[")
			for i := range v.Array {
				if i > 0 {
					sb.WriteString(",")
				}
				render(sb, &v.Array[i])
			}
			sb.WriteString("]")
		}
	default:
		fmt.Fprintf(sb, "?%d", v.Type)
	}
}

// ParseValue parses the Render syntax.
func ParseValue(s string) (*redis.RespValue, error) {
	v, rest, err := parseValue(s)
	if err != nil {
		return nil, err
	}
	if rest != "" {
		return nil, fmt.Errorf("trailing %q", rest)
	}
	return v, nil
}

func tokenEnd(s string) int {
	for i := 0; i < len(s); i++ {
		if s[i] == ',' || s[i] == ']' {
			return i
		}
	}
	return len(s)
}

func parseValue(s string) (*redis.RespValue, string, error) {
	if s == "" {
		return nil, "", fmt.Errorf("empty value")
	}
	switch s[0] {
	case 'i':
		e := tokenEnd(s)
		n, err := strconv.ParseInt(s[1:e], 10, 64)
		if err != nil {
			return nil, "", err
		}
		return &redis.RespValue{Type: redis.Integer, Int: n}, s[e:], nil
	case 's', 'e', 'b':
		e := tokenEnd(s)
		b, err := Unhex(s[1:e])
		if err != nil {
			return nil, "", err
		}
		t := map[byte]redis.RespType{'s': redis.SimpleString, 'e': redis.Error, 'b': redis.BulkString}[s[0]]
		return &redis.RespValue{Type: t, Text: b}, s[e:], nil
	case 'n':
		return &redis.RespValue{Type: redis.BulkString}, s[1:], nil
	case 'N':
		return &redis.RespValue{Type: redis.Array}, s[1:], nil
	case '[':
		arr := []redis.RespValue{}
		rest := s[1:]
		if strings.HasPrefix(rest, "]") {
			return &redis.RespValue{Type: redis.Array, Array: arr}, rest[1:], nil
		}
		for {
			v, r, err := parseValue(rest)
			if err != nil {
				return nil, "", err
			}
			arr = append(arr, *v)
			if strings.HasPrefix(r, ",") {
				rest = r[1:]
				continue
			}
			if strings.HasPrefix(r, "]") {
				return &redis.RespValue{Type: redis.Array, Array: arr}, r[1:], nil
			}
			return nil, "", fmt.Errorf("expected , or ] at %q", r)
		}
	}
	return nil, "", fmt.Errorf("bad value %q", s)
}

// Wire is an independent RESP serialiser (not the code under test), used by
// generators and by the fake cluster.
func Wire(v *redis.RespValue) []byte {
	var b bytes.Buffer
	wire(&b, v)
	return b.Bytes()
}

func wire(b *bytes.Buffer, v *redis.RespValue) {
	switch v.Type {
	case redis.Integer:
		fmt.Fprintf(b, ":%d\r\n", v.Int)
	case redis.SimpleString:
		b.WriteByte('+')
		b.Write(v.Text)
		b.WriteString("\r\n")
	case redis.Error:
		b.WriteByte('-')
		b.Write(v.Text)
		b.WriteString("\r\n")
	case redis.BulkString:
		if v.Text == nil {
			b.WriteString("$-1\r\n")
		} else {
			fmt.Fprintf(b, "$%d\r\n", len(v.Text))
			b.Write(v.Text)
			b.WriteString("\r\n")
		}
	case redis.Array:
		if v.Array == nil {
			b.WriteString("*-1\r\n")
		} else {
			fmt.Fprintf(b, "*%d\r\n", len(v.Array))
			for i := range v.Array {
				wire(b, &v.Array[i])
			}
		}
	}
}

// ChunkReader delivers the given chunks, at most one chunk (or the part of it that
// fits) per Read, then io.EOF.
type ChunkReader struct {
	Chunks [][]byte
	Reads  int
	// ErrWithLast: the read that delivers the last bytes returns io.EOF together with them (io.Reader allows it;
	// crypto/tls and iotest.DataErrReader do it)
	ErrWithLast bool
}

func (c *ChunkReader) Read(p []byte) (int, error) {
	c.Reads++
	for len(c.Chunks) > 0 && len(c.Chunks[0]) == 0 {
		c.Chunks = c.Chunks[1:]
	}
	if len(c.Chunks) == 0 {
		return 0, io.EOF
	}
	n := copy(p, c.Chunks[0])
	c.Chunks[0] = c.Chunks[0][n:]
	if len(c.Chunks[0]) == 0 {
		c.Chunks = c.Chunks[1:]
	}
	if c.ErrWithLast {
		rest := 0
		for _, ch := range c.Chunks {
			rest += len(ch)
		}
		if rest == 0 {
			return n, io.EOF
		}
	}
	return n, nil
}
