package hx

import (
	"fmt"
	"time"

	"github.com/samaritan-proxy/samaritan/host"
	"github.com/samaritan-proxy/samaritan/pb/config/protocol"
	pbredis "github.com/samaritan-proxy/samaritan/pb/config/protocol/redis"
	"github.com/samaritan-proxy/samaritan/pb/config/service"
	"github.com/samaritan-proxy/samaritan/proc/redis"
)

var rigSeq int

// NodeAddr is the address of simulated node i (sorted order = index order).
func NodeAddr(i int) string { return fmt.Sprintf("n%05d:1", i) }

// RedisConfig builds a redis service config with the given read strategy.
func RedisConfig(strategy pbredis.ReadStrategy, compression *pbredis.Compression) *service.Config {
	d := time.Second
	return &service.Config{
		ConnectTimeout: &d,
		Protocol:       protocol.Redis,
		ProtocolOptions: &service.Config_RedisOption{RedisOption: &protocol.RedisOption{
			ReadStrategy: strategy,
			Compression:  compression,
		}},
	}
}

// NewRig builds a socket-less processor over nHosts seed hosts and queue-only
// connections to those and to extra addresses.
func NewRig(nHosts int, strategy pbredis.ReadStrategy, extra ...string) *redis.VerifRig {
	rigSeq++
	var hosts []*host.Host
	var addrs []string
	for i := 0; i < nHosts; i++ {
		hosts = append(hosts, host.New(NodeAddr(i)))
		addrs = append(addrs, NodeAddr(i))
	}
	addrs = append(addrs, extra...)
	return redis.VerifNewRig(fmt.Sprintf("rig%d", rigSeq), RedisConfig(strategy, nil), hosts, addrs)
}

// Bulks builds an array of bulk strings.
func Bulks(args ...[]byte) *redis.RespValue {
	arr := make([]redis.RespValue, len(args))
	for i, a := range args {
		arr[i] = redis.RespValue{Type: redis.BulkString, Text: a}
	}
	return &redis.RespValue{Type: redis.Array, Array: arr}
}
