package hx

import (
	"bytes"
	"fmt"
	"net"
	"sort"
	"strconv"
	"strings"
	"sync"
	"syscall"
	"time"

	"github.com/samaritan-proxy/samaritan/host"
	"github.com/samaritan-proxy/samaritan/pb/common"
	"github.com/samaritan-proxy/samaritan/pb/config/protocol"
	pbredis "github.com/samaritan-proxy/samaritan/pb/config/protocol/redis"
	"github.com/samaritan-proxy/samaritan/pb/config/service"
	"github.com/samaritan-proxy/samaritan/proc"
	"github.com/samaritan-proxy/samaritan/proc/redis"
)

// FakeCluster is a scripted Redis Cluster over real sockets: every node listens on a loopback
// port, keeps its own key space, answers CLUSTER NODES from the cluster's current layout and
// redirects with MOVED / ASK exactly as a Redis node does (including the one-shot ASKING flag
// per connection).  There is no redis-server in this sandbox; this stands in for it.
type FakeCluster struct {
	mu     sync.Mutex
	Nodes  []*FakeNode
	owner  [16384]int            // slot -> node index
	migr   map[int][2]int        // slot -> {source, target} while it is being migrated
	repl   map[int]int           // replica node index -> its master's index (listed in CLUSTER NODES)
	Log    []string              // every command a node executed: "<node>:<cmd> <key>[ asked]"
	Redir  int                   // MOVED / ASK replies sent so far
	belief map[[2]int]int        // {node, slot} -> the node it wrongly believes to own the slot (a lagging view)
	delay  map[int]time.Duration // node -> time it takes to answer a command
}

type FakeNode struct {
	c     *FakeCluster
	Idx   int
	Addr  string
	ln    net.Listener
	store map[string][]byte
	conns map[net.Conn]struct{}
	Up    bool
	// a node that hangs: a socket with a minimal backlog nobody accepts from, and the connections that fill it
	hangFd    int
	hangConns []net.Conn
}

// SlotOf is the cluster's key → slot function, written from the Redis Cluster specification and independent of the
// code under test: CRC16/XMODEM (polynomial 0x1021, initial value 0, no reflection) of the hash tag, modulo 16384.
func SlotOf(key []byte) int {
	k := key
	if i := bytes.IndexByte(key, '{'); i >= 0 {
		if j := bytes.IndexByte(key[i+1:], '}'); j > 0 {
			k = key[i+1 : i+1+j]
		}
	}
	var crc uint16
	for _, b := range k {
		crc ^= uint16(b) << 8
		for i := 0; i < 8; i++ {
			if crc&0x8000 != 0 {
				crc = crc<<1 ^ 0x1021
			} else {
				crc <<= 1
			}
		}
	}
	return int(crc) % 16384
}

func NewFakeCluster(n int) (*FakeCluster, error) {
	c := &FakeCluster{migr: map[int][2]int{}, repl: map[int]int{}, belief: map[[2]int]int{}, delay: map[int]time.Duration{}}
	for i := 0; i < n; i++ {
		nd := &FakeNode{c: c, Idx: i, store: map[string][]byte{}, conns: map[net.Conn]struct{}{}}
		ln, err := net.Listen("tcp", "127.0.0.1:0")
		if err != nil {
			return nil, err
		}
		nd.Addr = ln.Addr().String()
		nd.ln = ln
		nd.Up = true
		c.Nodes = append(c.Nodes, nd)
		go nd.serve(ln)
	}
	return c, nil
}

// Even spreads the slots over the first n nodes in contiguous ranges.
func (c *FakeCluster) Even(n int) {
	c.mu.Lock()
	defer c.mu.Unlock()
	per := 16384 / n
	for s := 0; s < 16384; s++ {
		o := s / per
		if o >= n {
			o = n - 1
		}
		c.owner[s] = o
	}
}

func (c *FakeCluster) Owner(slot int) int { c.mu.Lock(); defer c.mu.Unlock(); return c.owner[slot] }

// SetOwner hands a slot over at once (a finished migration / a resharding the proxy has not heard of).
func (c *FakeCluster) SetOwner(slot, node int) {
	c.mu.Lock()
	defer c.mu.Unlock()
	old := c.owner[slot]
	if _, busy := c.migr[slot]; old == node && !busy {
		return
	}
	// every key of the slot ends up on the new owner: those on the old owner and, when a migration of the slot was
	// under way (it is over with this), those already moved to its target
	from := []int{old}
	if m, busy := c.migr[slot]; busy {
		from = append(from, m[1])
	}
	for _, src := range from {
		if src == node {
			continue
		}
		for k, v := range c.Nodes[src].store {
			if SlotOf([]byte(k)) == slot {
				c.Nodes[node].store[k] = v
				delete(c.Nodes[src].store, k)
			}
		}
	}
	c.owner[slot] = node
	delete(c.migr, slot)
}

// Migrate starts migrating a slot to target (the owner becomes MIGRATING, the target IMPORTING).
func (c *FakeCluster) Migrate(slot, target int) {
	c.mu.Lock()
	defer c.mu.Unlock()
	if _, busy := c.migr[slot]; !busy && c.owner[slot] != target {
		c.migr[slot] = [2]int{c.owner[slot], target}
	}
}

// MoveKey moves one key of a migrating slot to the target.
func (c *FakeCluster) MoveKey(key string) {
	c.mu.Lock()
	defer c.mu.Unlock()
	m, ok := c.migr[SlotOf([]byte(key))]
	if !ok {
		return
	}
	if v, ok := c.Nodes[m[0]].store[key]; ok {
		c.Nodes[m[1]].store[key] = v
		delete(c.Nodes[m[0]].store, key)
	}
}

// Finalise ends the migration of a slot: remaining keys move, ownership changes.
func (c *FakeCluster) Finalise(slot int) {
	c.mu.Lock()
	m, ok := c.migr[slot]
	c.mu.Unlock()
	if ok {
		c.SetOwner(slot, m[1])
	}
}

// Believe makes node n answer MOVED <m> for a slot it does not own (its view of the layout lags).
func (c *FakeCluster) Believe(n, slot, m int) {
	c.mu.Lock()
	c.belief[[2]int{n, slot}] = m
	c.mu.Unlock()
}

// Delay makes node n take d to answer each command.
func (c *FakeCluster) Delay(n int, d time.Duration) { c.mu.Lock(); c.delay[n] = d; c.mu.Unlock() }

// Readdress restarts node n on a new port: same node id, same data, new address.
func (n *FakeNode) Readdress() error {
	old := n.Addr
	n.Down()
	var ln net.Listener
	for {
		l, err := net.Listen("tcp", "127.0.0.1:0")
		if err != nil {
			return err
		}
		if l.Addr().String() != old { // the kernel may hand the port that was just freed out again
			ln = l
			break
		}
		defer l.Close()
	}
	n.c.mu.Lock()
	n.Addr = ln.Addr().String()
	n.ln = ln
	n.Up = true
	n.c.mu.Unlock()
	go n.serve(ln)
	return nil
}

// AddReplica lists node r as a replica of node m (it holds a copy of m's data when promoted).
func (c *FakeCluster) AddReplica(r, m int) { c.mu.Lock(); c.repl[r] = m; c.mu.Unlock() }

// Failover: replica r takes over everything its master owned; the master goes down.
func (c *FakeCluster) Failover(r int) {
	c.mu.Lock()
	m, ok := c.repl[r]
	if !ok {
		c.mu.Unlock()
		return
	}
	for k, v := range c.Nodes[m].store {
		c.Nodes[r].store[k] = v
	}
	for s := range c.owner {
		if c.owner[s] == m {
			c.owner[s] = r
		}
	}
	// the promoted replica takes the master's place in migrations that were under way
	for s, mg := range c.migr {
		if mg[0] == m {
			mg[0] = r
		}
		if mg[1] == m {
			mg[1] = r
		}
		c.migr[s] = mg
	}
	delete(c.repl, r)
	c.mu.Unlock()
	c.Nodes[m].Down()
}

func (n *FakeNode) serve(ln net.Listener) {
	for {
		conn, err := ln.Accept()
		if err != nil {
			return
		}
		n.c.mu.Lock()
		if !n.Up || n.ln != ln {
			n.c.mu.Unlock()
			conn.Close()
			continue
		}
		n.conns[conn] = struct{}{}
		n.c.mu.Unlock()
		go n.handle(conn)
	}
}

// Down closes the listener and every connection of the node.
func (n *FakeNode) Down() {
	n.c.mu.Lock()
	if n.hangFd > 0 {
		for _, c := range n.hangConns {
			c.Close()
		}
		syscall.Close(n.hangFd)
		n.hangFd, n.hangConns = 0, nil
	}
	n.Up = false
	ln := n.ln
	n.ln = nil
	conns := n.conns
	n.conns = map[net.Conn]struct{}{}
	n.c.mu.Unlock()
	if ln != nil {
		ln.Close()
	}
	for c := range conns {
		if tc, ok := c.(*net.TCPConn); ok {
			tc.SetLinger(0)
		}
		c.Close()
	}
}

// Hang takes the node away in the nasty way: its connections are dropped and connects to its address neither succeed nor
// fail, they time out (a listening socket with a minimal backlog that nobody accepts from, filled up).
func (n *FakeNode) Hang() error {
	n.Down()
	_, ps, err := net.SplitHostPort(n.Addr)
	if err != nil {
		return err
	}
	port, _ := strconv.Atoi(ps)
	fd, err := syscall.Socket(syscall.AF_INET, syscall.SOCK_STREAM, 0)
	if err != nil {
		return err
	}
	syscall.SetsockoptInt(fd, syscall.SOL_SOCKET, syscall.SO_REUSEADDR, 1)
	for i := 0; i < 50; i++ {
		if err = syscall.Bind(fd, &syscall.SockaddrInet4{Port: port, Addr: [4]byte{127, 0, 0, 1}}); err == nil {
			break
		}
		time.Sleep(10 * time.Millisecond)
	}
	if err == nil {
		err = syscall.Listen(fd, 0)
	}
	if err != nil {
		syscall.Close(fd)
		return err
	}
	var conns []net.Conn
	for i := 0; i < 16; i++ {
		c, err := net.DialTimeout("tcp", n.Addr, 120*time.Millisecond)
		if err != nil {
			break
		}
		conns = append(conns, c)
	}
	n.c.mu.Lock()
	n.hangFd, n.hangConns = fd, conns
	n.c.mu.Unlock()
	return nil
}

// Reset drops every connection of the node but keeps it listening.
func (n *FakeNode) Reset() {
	n.c.mu.Lock()
	conns := n.conns
	n.conns = map[net.Conn]struct{}{}
	n.c.mu.Unlock()
	for c := range conns {
		if tc, ok := c.(*net.TCPConn); ok {
			tc.SetLinger(0)
		}
		c.Close()
	}
}

// Up makes the node listen again on its address (a restart that kept its data).
func (n *FakeNode) UpAgain() error {
	n.c.mu.Lock()
	if n.Up {
		n.c.mu.Unlock()
		return nil
	}
	if n.hangFd > 0 {
		for _, c := range n.hangConns {
			c.Close()
		}
		syscall.Close(n.hangFd)
		n.hangFd, n.hangConns = 0, nil
	}
	n.c.mu.Unlock()
	var ln net.Listener
	var err error
	for i := 0; i < 50; i++ {
		ln, err = net.Listen("tcp", n.Addr)
		if err == nil {
			break
		}
		time.Sleep(10 * time.Millisecond)
	}
	if err != nil {
		return err
	}
	n.c.mu.Lock()
	n.ln = ln
	n.Up = true
	n.c.mu.Unlock()
	go n.serve(ln)
	return nil
}

func (c *FakeCluster) Close() {
	for _, n := range c.Nodes {
		n.Down()
	}
}

// nodesText renders CLUSTER NODES (masters with their slot ranges, replicas with their master).
func (c *FakeCluster) nodesText(self int) string {
	var sb strings.Builder
	for i, n := range c.Nodes {
		id := fmt.Sprintf("%040d", i+1)
		flags := "master"
		if i == self {
			flags = "myself," + flags
		}
		if m, ok := c.repl[i]; ok {
			f := "slave"
			if i == self {
				f = "myself,slave"
			}
			fmt.Fprintf(&sb, "%s %s@1%s %s %040d 0 0 1 connected\n", id, n.Addr, portOf(n.Addr), f, m+1)
			continue
		}
		var ranges []string
		start := -1
		for s := 0; s <= 16384; s++ {
			mine := s < 16384 && c.owner[s] == i
			if mine && start < 0 {
				start = s
			}
			if !mine && start >= 0 {
				if s-1 == start {
					ranges = append(ranges, strconv.Itoa(start))
				} else {
					ranges = append(ranges, fmt.Sprintf("%d-%d", start, s-1))
				}
				start = -1
			}
		}
		fmt.Fprintf(&sb, "%s %s@1%s %s - 0 0 1 connected %s\n", id, n.Addr, portOf(n.Addr), flags, strings.Join(ranges, " "))
	}
	return sb.String()
}

func portOf(addr string) string { return addr[strings.LastIndex(addr, ":")+1:] }

func (n *FakeNode) handle(conn net.Conn) {
	defer func() {
		conn.Close()
		n.c.mu.Lock()
		delete(n.conns, conn)
		n.c.mu.Unlock()
	}()
	dec := redis.VerifNewDecoder(conn, 8192)
	asking := false
	for {
		v, err := dec.Decode()
		if err != nil {
			return
		}
		if v.Type != redis.Array || len(v.Array) == 0 {
			conn.Write([]byte("-ERR protocol\r\n"))
			continue
		}
		args := make([][]byte, len(v.Array))
		for i := range v.Array {
			args[i] = v.Array[i].Text
		}
		n.c.mu.Lock()
		d := n.c.delay[n.Idx]
		n.c.mu.Unlock()
		if d > 0 {
			time.Sleep(d)
		}
		reply, nowAsking := n.exec(args, asking)
		asking = nowAsking
		if _, err := conn.Write(Wire(reply)); err != nil {
			return
		}
	}
}

func errReply(s string) *redis.RespValue {
	return &redis.RespValue{Type: redis.Error, Text: []byte(s)}
}
func intReply(i int64) *redis.RespValue { return &redis.RespValue{Type: redis.Integer, Int: i} }
func okReply() *redis.RespValue {
	return &redis.RespValue{Type: redis.SimpleString, Text: []byte("OK")}
}
func bulkReply(b []byte) *redis.RespValue {
	if b == nil {
		return &redis.RespValue{Type: redis.BulkString, Text: nil}
	}
	return &redis.RespValue{Type: redis.BulkString, Text: append([]byte{}, b...)}
}

// exec runs one command on this node under the cluster lock.
func (n *FakeNode) exec(args [][]byte, asking bool) (*redis.RespValue, bool) {
	c := n.c
	c.mu.Lock()
	defer c.mu.Unlock()
	cmd := strings.ToLower(string(args[0]))
	switch cmd {
	case "cluster":
		if len(args) >= 2 && strings.EqualFold(string(args[1]), "nodes") {
			return bulkReply([]byte(c.nodesText(n.Idx))), false
		}
		return errReply("ERR unknown subcommand"), false
	case "readonly", "readwrite":
		return okReply(), false
	case "asking":
		return okReply(), true
	case "ping":
		return &redis.RespValue{Type: redis.SimpleString, Text: []byte("PONG")}, false
	}
	if len(args) < 2 {
		return errReply("ERR wrong number of arguments for '" + cmd + "' command"), false
	}
	key := string(args[1])
	slot := SlotOf(args[1])
	m, migrating := c.migr[slot]
	switch {
	case c.owner[slot] == n.Idx:
		if _, have := n.store[key]; migrating && m[0] == n.Idx && !have {
			c.Redir++
			return errReply(fmt.Sprintf("ASK %d %s", slot, c.Nodes[m[1]].Addr)), false
		}
	case migrating && m[1] == n.Idx && asking:
		// importing and asked: served here
	default:
		c.Redir++
		to := c.owner[slot]
		if b, ok := c.belief[[2]int{n.Idx, slot}]; ok && b != n.Idx {
			to = b
		}
		return errReply(fmt.Sprintf("MOVED %d %s", slot, c.Nodes[to].Addr)), false
	}
	entry := fmt.Sprintf("%d:%s %s", n.Idx, cmd, Hex(args[1]))
	if asking {
		entry += " asked"
	}
	c.Log = append(c.Log, entry)
	st := n.store
	switch cmd {
	case "get":
		v, ok := st[key]
		if !ok {
			return bulkReply(nil), false
		}
		return bulkReply(v), false
	case "set":
		if len(args) < 3 {
			return errReply("ERR wrong number of arguments for 'set' command"), false
		}
		st[key] = append([]byte{}, args[2]...)
		return okReply(), false
	case "setnx":
		if len(args) < 3 {
			return errReply("ERR wrong number of arguments for 'setnx' command"), false
		}
		if _, ok := st[key]; ok {
			return intReply(0), false
		}
		st[key] = append([]byte{}, args[2]...)
		return intReply(1), false
	case "getset":
		if len(args) < 3 {
			return errReply("ERR wrong number of arguments for 'getset' command"), false
		}
		old, ok := st[key]
		st[key] = append([]byte{}, args[2]...)
		if !ok {
			return bulkReply(nil), false
		}
		return bulkReply(old), false
	case "append":
		if len(args) < 3 {
			return errReply("ERR wrong number of arguments for 'append' command"), false
		}
		st[key] = append(append([]byte{}, st[key]...), args[2]...)
		return intReply(int64(len(st[key]))), false
	case "strlen":
		return intReply(int64(len(st[key]))), false
	case "incr":
		cur := int64(0)
		if v, ok := st[key]; ok {
			x, err := strconv.ParseInt(string(v), 10, 64)
			if err != nil {
				return errReply("ERR value is not an integer or out of range"), false
			}
			cur = x
		}
		if cur == 1<<63-1 {
			return errReply("ERR increment or decrement would overflow"), false
		}
		cur++
		st[key] = []byte(strconv.FormatInt(cur, 10))
		return intReply(cur), false
	case "del", "unlink":
		cnt := int64(0)
		for _, k := range args[1:] {
			if _, ok := st[string(k)]; ok {
				delete(st, string(k))
				cnt++
			}
		}
		return intReply(cnt), false
	case "exists", "touch":
		cnt := int64(0)
		for _, k := range args[1:] {
			if _, ok := st[string(k)]; ok {
				cnt++
			}
		}
		return intReply(cnt), false
	}
	return errReply("ERR unknown command '" + cmd + "'"), false
}

// Dump is the union of all key spaces, sorted (the "single server" view of the data).
func (c *FakeCluster) Dump() string {
	c.mu.Lock()
	defer c.mu.Unlock()
	var rows []string
	for _, n := range c.Nodes {
		if !n.Up {
			continue // a node that is down serves nothing (a replaced master keeps stale data)
		}
		for k, v := range n.store {
			if c.repl != nil {
				if _, isReplica := c.repl[n.Idx]; isReplica {
					continue
				}
			}
			if len(v) > 256 {
				rows = append(rows, fmt.Sprintf("%s=B%d.%04x", Hex([]byte(k)), len(v), redis.VerifCrc16(v)))
			} else {
				rows = append(rows, Hex([]byte(k))+"="+Hex(v))
			}
		}
	}
	sort.Strings(rows)
	return strings.Join(rows, ";")
}

// Snapshot returns the redirect counter and the length of the command log.
func (c *FakeCluster) Snapshot() (int, int) {
	c.mu.Lock()
	defer c.mu.Unlock()
	return c.Redir, len(c.Log)
}

// LogSince returns the commands executed since position p.
func (c *FakeCluster) LogSince(p int) []string {
	c.mu.Lock()
	defer c.mu.Unlock()
	return append([]string{}, c.Log[p:]...)
}

var redisProcSeq int

// NewRedisProc starts a real Redis processor (proc.New) in front of the cluster's first `seeds` nodes.
func NewRedisProc(c *FakeCluster, seeds int, strategy pbredis.ReadStrategy) (proc.Proc, error) {
	redisProcSeq++
	ct := 300 * time.Millisecond
	var hosts []*host.Host
	for i := 0; i < seeds && i < len(c.Nodes); i++ {
		hosts = append(hosts, host.New(c.Nodes[i].Addr))
	}
	cfg := &service.Config{
		Listener:        &service.Listener{Address: &common.Address{Ip: "127.0.0.1", Port: 0}},
		ConnectTimeout:  &ct,
		Protocol:        protocol.Redis,
		ProtocolOptions: &service.Config_RedisOption{RedisOption: &protocol.RedisOption{ReadStrategy: strategy}},
	}
	p, err := proc.New(fmt.Sprintf("verif-redis-%d", redisProcSeq), cfg, hosts)
	if err != nil {
		return nil, err
	}
	if err := p.Start(); err != nil {
		return nil, err
	}
	// (Address reads the listener field without the lock Serve publishes it under: do not look while it is being written)
	time.Sleep(2 * time.Millisecond)
	for i := 0; i < 400 && p.Address() == ""; i++ {
		time.Sleep(time.Millisecond)
	}
	if p.Address() == "" {
		return nil, fmt.Errorf("listener not bound")
	}
	return p, nil
}

// Client is a RESP client connection to a processor.
type Client struct {
	C   net.Conn
	dec *redis.VerifDecoder
}

func DialClient(addr string) (*Client, error) {
	c, err := net.DialTimeout("tcp", addr, time.Second)
	if err != nil {
		return nil, err
	}
	return &Client{C: c, dec: redis.VerifNewDecoder(c, 8192)}, nil
}

// Write sends one command without reading its reply.
func (c *Client) Write(args ...[]byte) error {
	_, err := c.C.Write(Wire(Bulks(args...)))
	return err
}

// Reply reads one reply.
func (c *Client) Reply() (*redis.RespValue, error) { return c.dec.Decode() }

// Do sends one command and reads one reply.
func (c *Client) Do(args ...[]byte) (*redis.RespValue, error) {
	var b bytes.Buffer
	b.Write(Wire(Bulks(args...)))
	if _, err := c.C.Write(b.Bytes()); err != nil {
		return nil, err
	}
	c.C.SetReadDeadline(time.Now().Add(3 * time.Second))
	return c.dec.Decode()
}
