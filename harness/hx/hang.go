package hx

import (
	"fmt"
	"net"
	"os"
	"syscall"
	"time"
)

// HangListener is an address whose connects neither succeed nor fail: a listening socket with a minimal backlog that nobody
// accepts from, filled up. Release starts accepting: the connects that were waiting complete with their next SYN
// retransmission (about one second after the first), every accepted connection is handed to serve.
type HangListener struct {
	Addr    string
	fd      int
	fillers []net.Conn
}

func NewHangListener() (*HangListener, error) {
	fd, err := syscall.Socket(syscall.AF_INET, syscall.SOCK_STREAM, 0)
	if err != nil {
		return nil, err
	}
	if err := syscall.Bind(fd, &syscall.SockaddrInet4{Addr: [4]byte{127, 0, 0, 1}}); err != nil {
		syscall.Close(fd)
		return nil, err
	}
	if err := syscall.Listen(fd, 0); err != nil {
		syscall.Close(fd)
		return nil, err
	}
	sa, err := syscall.Getsockname(fd)
	if err != nil {
		syscall.Close(fd)
		return nil, err
	}
	h := &HangListener{Addr: fmt.Sprintf("127.0.0.1:%d", sa.(*syscall.SockaddrInet4).Port), fd: fd}
	for i := 0; i < 16; i++ {
		c, err := net.DialTimeout("tcp", h.Addr, 120*time.Millisecond)
		if err != nil {
			break
		}
		h.fillers = append(h.fillers, c)
	}
	return h, nil
}

// Release closes the connections that filled the backlog and accepts from now on.
func (h *HangListener) Release(serve func(net.Conn)) {
	for _, c := range h.fillers {
		c.Close()
	}
	h.fillers = nil
	f := os.NewFile(uintptr(h.fd), "hang-listener")
	ln, err := net.FileListener(f)
	f.Close() // FileListener works on a duplicate
	h.fd = -1
	if err != nil {
		return
	}
	go func() {
		defer ln.Close()
		for {
			c, err := ln.Accept()
			if err != nil {
				return
			}
			go serve(c)
		}
	}()
	time.AfterFunc(5*time.Second, func() { ln.Close() })
}

func (h *HangListener) Close() {
	for _, c := range h.fillers {
		c.Close()
	}
	if h.fd >= 0 {
		syscall.Close(h.fd)
		h.fd = -1
	}
}
