package hx

import (
	"sync"
	"sync/atomic"
	"time"
)

var (
	starveOnce sync.Once
	starveGap  atomic.Int64
)

// starveReset starts (once) a goroutine that wakes every 5 ms and records the longest time between two wake-ups, and
// clears the record.
func starveReset() {
	starveOnce.Do(func() {
		go func() {
			last := time.Now()
			for {
				time.Sleep(5 * time.Millisecond)
				now := time.Now()
				if d := int64(now.Sub(last)); d > starveGap.Load() {
					starveGap.Store(d)
				}
				last = now
			}
		}()
	})
	starveGap.Store(0)
}

func starveMax() time.Duration { return time.Duration(starveGap.Load()) }
