package hx

import (
	"strings"
	"sync"

	"github.com/samaritan-proxy/samaritan/stats"
)

// Metrics returns a reader for the counters and gauges under a scope prefix ("service.<name>."):
// the metric objects are fetched by name (scopes and metrics are get-or-create in the stats store),
// never by scanning the process-wide store — that made long runs quadratic, the store keeps every
// scope ever created. Names ending in "_active" are gauges, all others counters.
func Metrics(prefix string) func(name string) uint64 {
	if !strings.HasSuffix(prefix, ".") {
		prefix += "."
	}
	var mu sync.Mutex
	cs := map[string]*stats.Counter{}
	gs := map[string]*stats.Gauge{}
	return func(name string) uint64 {
		mu.Lock()
		defer mu.Unlock()
		if c, ok := cs[name]; ok {
			return c.Value()
		}
		if g, ok := gs[name]; ok {
			return g.Value()
		}
		path, leaf := "", name
		if i := strings.LastIndex(name, "."); i >= 0 {
			path, leaf = name[:i+1], name[i+1:]
		}
		sc := stats.CreateScope(prefix + path)
		if strings.HasSuffix(leaf, "_active") {
			g := sc.Gauge(leaf)
			gs[name] = g
			return g.Value()
		}
		c := sc.Counter(leaf)
		cs[name] = c
		return c.Value()
	}
}

// DropScopes releases the statistics scopes of a processor the harness has stopped (the proxy itself
// never deletes them), so that runs with thousands of processors do not grow without bound.
func DropScopes(prefix string) {
	if !strings.HasSuffix(prefix, ".") {
		prefix += "."
	}
	// (the store deletes a parent whose count reaches one before its children's counts have: go through every
	// scope under the prefix, not only through the children lists)
	for round := 0; round < 16; round++ {
		left := 0
		for _, s := range stats.Scopes() {
			if strings.HasPrefix(s.Name(), prefix) {
				stats.DeleteScope(s)
				left++
			}
		}
		if left == 0 {
			return
		}
	}
}
