package main

import (
	"bytes"
	"fmt"
	"net"
	"os"
	"sort"
	"strconv"
	"strings"
	"sync"
	"time"

	"github.com/samaritan-proxy/samaritan/host"
	"github.com/samaritan-proxy/samaritan/pb/common"
	"github.com/samaritan-proxy/samaritan/pb/config/protocol"
	pbredis "github.com/samaritan-proxy/samaritan/pb/config/protocol/redis"
	"github.com/samaritan-proxy/samaritan/pb/config/service"
	"github.com/samaritan-proxy/samaritan/proc"
	"github.com/samaritan-proxy/samaritan/proc/redis"

	"verifharness/hx"
)

// C14: command dispatch and routing by role.
//
//	c14.cmd <M|R|B> <name hex> <n>   request = [name, a1, …, a(n-1)] with distinct arguments
//	   -> invalid | unsupported | answered <class> | scan | fwd <name hex>:<key index>:<role>,…   (role M = owning master, R = its replica, X = anything else)
type c14 struct {
	rigs map[string]*redis.VerifRig
}

func init() { props["C14"] = func() hx.Prop { return &c14{rigs: map[string]*redis.VerifRig{}} } }

func (*c14) Rule() string {
	return "command names: every supported name, the Redis command list, random names, names with non-ASCII bytes and runes that lower-case onto ASCII letters; each in lower/upper/mixed case, " +
		"with 1..6 request elements, under the three read strategies on a 3-master/6-replica layout; through the real handleRequest on a socket-less processor; " +
		"histories of read-strategy changes by configuration update with reads after each. " +
		"Non-trivial = name outside the supported set, or mixed case, or read-only under a non-MASTER strategy; distinct by op line"
}

const c14Masters = 3

func (c *c14) rig(strategy string) *redis.VerifRig {
	if r, ok := c.rigs[strategy]; ok {
		return r
	}
	s := map[string]pbredis.ReadStrategy{"M": pbredis.ReadStrategy_MASTER, "R": pbredis.ReadStrategy_REPLICA, "B": pbredis.ReadStrategy_BOTH}[strategy]
	var extra []string
	for i := 0; i < c14Masters; i++ {
		extra = append(extra, fmt.Sprintf("r%da:1", i), fmt.Sprintf("r%db:1", i))
	}
	r := hx.NewRig(c14Masters, s, extra...)
	per := 16384 / c14Masters
	for i := 0; i < c14Masters; i++ {
		hi := (i+1)*per - 1
		if i == c14Masters-1 {
			hi = 16383
		}
		r.SetSlot(i*per, hi, hx.NodeAddr(i), []string{fmt.Sprintf("r%da:1", i), fmt.Sprintf("r%db:1", i)})
	}
	c.rigs[strategy] = r
	return r
}

func c14Owner(key []byte) int {
	slot := int(redis.VerifCrc16(redis.VerifHashtag(key))) & (redis.VerifSlotNum - 1)
	per := 16384 / c14Masters
	o := slot / per
	if o >= c14Masters {
		o = c14Masters - 1
	}
	return o
}

// c14.topo <R|B> <assign1> <assign2> <reads>   two masters (m0 owns slots 0-8191, m1 the rest) and three replicas; assign = which
//
//	master each replica follows, e.g. 001.  The real doSlotsRefresh is run on the first layout, then on the second;
//	then <reads> GETs of keys in m0's slots -> the classes of the nodes they went to: M (m0), R (a replica that follows m0 now), X (anything else), sorted
func (c *c14) topo(f []string) string {
	if len(f) != 4 || (f[0] != "R" && f[0] != "B") || len(f[1]) != 3 || len(f[2]) != 3 {
		return "bad-op"
	}
	reads, err := strconv.Atoi(f[3])
	if err != nil || reads < 1 || reads > 200 {
		return "bad-op"
	}
	strat := map[string]pbredis.ReadStrategy{"R": pbredis.ReadStrategy_REPLICA, "B": pbredis.ReadStrategy_BOTH}[f[0]]
	masters := []string{hx.NodeAddr(0), hx.NodeAddr(1)}
	reps := []string{"r0:1", "r1:1", "r2:1"}
	rig := hx.NewRig(2, strat, reps...)
	defer hx.DropScopes(rig.ScopeName())
	layout := func(assign string) (*redis.RespValue, bool) {
		var sb strings.Builder
		fmt.Fprintf(&sb, "%040d %s@1 master - 0 0 1 connected 0-8191\n", 1, masters[0])
		fmt.Fprintf(&sb, "%040d %s@1 master - 0 0 1 connected 8192-16383\n", 2, masters[1])
		for i, ch := range assign {
			if ch != '0' && ch != '1' {
				return nil, false
			}
			fmt.Fprintf(&sb, "%040d %s@1 slave %040d 0 0 1 connected\n", 10+i, reps[i], int(ch-'0')+1)
		}
		return &redis.RespValue{Type: redis.BulkString, Text: []byte(sb.String())}, true
	}
	for _, a := range f[1:3] {
		l, ok := layout(a)
		if !ok {
			return "bad-op"
		}
		if err := rig.Refresh(l); err != nil {
			return "refresh-failed"
		}
	}
	var classes []string
	for i := 0; len(classes) < reads && i < 100000; i++ {
		key := []byte(fmt.Sprintf("t%d", i))
		if int(redis.VerifCrc16(redis.VerifHashtag(key)))&(redis.VerifSlotNum-1) > 8191 {
			continue
		}
		raw := rig.Handle(hx.Bulks([]byte("get"), key))
		sent := rig.Drain()
		if len(sent) != 1 {
			return "not-forwarded"
		}
		cl := "X"
		if sent[0].Addr == masters[0] {
			cl = "M"
		}
		for j, r := range reps {
			if sent[0].Addr == r && f[2][j] == '0' {
				cl = "R"
			}
		}
		classes = append(classes, cl)
		sent[0].Reply(&redis.RespValue{Type: redis.BulkString, Text: []byte("v")})
		_ = raw
	}
	sort.Strings(classes)
	// distinct classes with counts
	out := map[string]int{}
	for _, c := range classes {
		out[c]++
	}
	var parts []string
	for _, k := range []string{"M", "R", "X"} {
		if out[k] > 0 {
			parts = append(parts, k)
		}
	}
	return strings.Join(parts, "")
}

// c14.strat <M|R|B>… a history of read strategies set by configuration updates (the first is the start-up strategy) on two masters, each
// with a replica, the layout loaded once; after every change 30 GETs of keys in m0's slots
//
//	-> per strategy the classes of the nodes the reads went to (M owner, R its replica, X anything else), '|'-separated
func (c *c14) strat(f []string) string {
	if len(f) < 1 || len(f) > 8 {
		return "bad-op"
	}
	sm := map[string]pbredis.ReadStrategy{"M": pbredis.ReadStrategy_MASTER, "R": pbredis.ReadStrategy_REPLICA, "B": pbredis.ReadStrategy_BOTH}
	for _, s := range f {
		if _, ok := sm[s]; !ok {
			return "bad-op"
		}
	}
	masters := []string{hx.NodeAddr(0), hx.NodeAddr(1)}
	reps := []string{"r0:1", "r1:1"}
	rig := hx.NewRig(2, sm[f[0]], reps...)
	defer hx.DropScopes(rig.ScopeName())
	var sb strings.Builder
	fmt.Fprintf(&sb, "%040d %s@1 master - 0 0 1 connected 0-8191\n", 1, masters[0])
	fmt.Fprintf(&sb, "%040d %s@1 master - 0 0 1 connected 8192-16383\n", 2, masters[1])
	fmt.Fprintf(&sb, "%040d %s@1 slave %040d 0 0 1 connected\n", 10, reps[0], 1)
	fmt.Fprintf(&sb, "%040d %s@1 slave %040d 0 0 1 connected\n", 11, reps[1], 2)
	if err := rig.Refresh(&redis.RespValue{Type: redis.BulkString, Text: []byte(sb.String())}); err != nil {
		return "refresh-failed"
	}
	var phases []string
	ki := 0
	for pi, s := range f {
		if pi > 0 {
			rig.SetConfig(hx.RedisConfig(sm[s], nil))
		}
		seen := map[string]bool{}
		for n := 0; n < 30 && ki < 100000; ki++ {
			key := []byte(fmt.Sprintf("t%d", ki))
			if int(redis.VerifCrc16(redis.VerifHashtag(key)))&(redis.VerifSlotNum-1) > 8191 {
				continue
			}
			n++
			rig.Handle(hx.Bulks([]byte("get"), key))
			sent := rig.Drain()
			if len(sent) != 1 {
				return "not-forwarded"
			}
			switch sent[0].Addr {
			case masters[0]:
				seen["M"] = true
			case reps[0]:
				seen["R"] = true
			default:
				seen["X"] = true
			}
			sent[0].Reply(&redis.RespValue{Type: redis.BulkString, Text: []byte("v")})
			time.Sleep(50 * time.Microsecond) // the candidate is picked by the clock
		}
		ph := ""
		for _, k := range []string{"M", "R", "X"} {
			if seen[k] {
				ph += k
			}
		}
		phases = append(phases, ph)
	}
	return strings.Join(phases, "|")
}

// c14.scan <M|R|B> <masters> <replicas per master>   every master and every replica is a configured host, the routing table is
// known; a whole SCAN iteration from cursor 0 (every node answers cursor 0 and one key)
//
//	-> targets=<M<i> | R<i>.<j> | X, in call order> keys=<number of keys returned>
//
// an optional fourth argument gives the owner of each of eight equal slot ranges ("00221133": a digit per range, '-' = no node lists it);
// without it the masters own equal contiguous shares.
func (c *c14) scan(st, nmS, nrS, own string) string {
	nm, e1 := strconv.Atoi(nmS)
	nr, e2 := strconv.Atoi(nrS)
	strat, ok := map[string]pbredis.ReadStrategy{"M": pbredis.ReadStrategy_MASTER, "R": pbredis.ReadStrategy_REPLICA, "B": pbredis.ReadStrategy_BOTH}[st]
	if e1 != nil || e2 != nil || !ok || nm < 1 || nm > 8 || nr < 0 || nr > 3 {
		return "bad-op"
	}
	role := map[string]string{}
	var hosts []*host.Host
	var addrs []string
	for i := 0; i < nm; i++ {
		role[hx.NodeAddr(i)] = fmt.Sprintf("M%d", i)
		addrs = append(addrs, hx.NodeAddr(i))
		for j := 0; j < nr; j++ {
			// replica addresses sort between the masters: a walk over the sorted host list meets them
			a := fmt.Sprintf("n%05d:1r%d", i, j)
			role[a] = fmt.Sprintf("R%d.%d", i, j)
			addrs = append(addrs, a)
		}
	}
	for _, a := range addrs {
		hosts = append(hosts, host.New(a))
	}
	c14seq++
	rig := redis.VerifNewRig(fmt.Sprintf("c14scan-%d", c14seq), hx.RedisConfig(strat, nil), hosts, addrs)
	defer hx.DropScopes(rig.ScopeName())
	repsOf := func(i int) []string {
		var reps []string
		for j := 0; j < nr; j++ {
			reps = append(reps, fmt.Sprintf("n%05d:1r%d", i, j))
		}
		return reps
	}
	if own != "" {
		if len(own) != 8 {
			return "bad-op"
		}
		for r := 0; r < 8; r++ {
			if own[r] == '-' {
				continue
			}
			i := int(own[r] - '0')
			if i < 0 || i >= nm {
				return "bad-op"
			}
			rig.SetSlot(r*2048, r*2048+2047, hx.NodeAddr(i), repsOf(i))
		}
	} else {
		per := 16384 / nm
		for i := 0; i < nm; i++ {
			hi := (i+1)*per - 1
			if i == nm-1 {
				hi = 16383
			}
			rig.SetSlot(i*per, hi, hx.NodeAddr(i), repsOf(i))
		}
	}
	cursor := []byte("0")
	var targets []string
	keys := 0
	for step := 0; step < 64; step++ {
		raw := rig.Handle(hx.Bulks([]byte("scan"), cursor))
		for _, s := range rig.Drain() {
			r, ok := role[s.Addr]
			if !ok {
				r = "X"
			}
			targets = append(targets, r)
			s.Reply(&redis.RespValue{Type: redis.Array, Array: []redis.RespValue{
				{Type: redis.BulkString, Text: []byte("0")},
				{Type: redis.Array, Array: []redis.RespValue{{Type: redis.BulkString, Text: []byte("key@" + s.Addr)}}},
			}})
		}
		if !raw.Done() {
			return "hang"
		}
		resp := raw.Response()
		if resp.Type != redis.Array || len(resp.Array) != 2 {
			return "reply " + hx.Render(resp)
		}
		keys += len(resp.Array[1].Array)
		cursor = append([]byte{}, resp.Array[0].Text...)
		if string(cursor) == "0" {
			break
		}
	}
	return fmt.Sprintf("targets=%s keys=%d", strings.Join(targets, ","), keys)
}

// c14.flags <M|R|B> <flags of replica a> <flags of replica b>   one master with two replicas; the routing table is loaded from a CLUSTER
// NODES text in which the replicas carry the given flags columns ("slave", "slave,fail", "slave,fail?", "slave,noaddr", …); 60 GETs
//
//	-> reads=<the nodes that received them: M, Ra, Rb>
func (c *c14) flags(st, fa, fb string) string {
	strat, ok := map[string]pbredis.ReadStrategy{"M": pbredis.ReadStrategy_MASTER, "R": pbredis.ReadStrategy_REPLICA, "B": pbredis.ReadStrategy_BOTH}[st]
	if !ok {
		return "bad-op"
	}
	c14seq++
	m, ra, rb := hx.NodeAddr(0), "10.9.9.1:7001", "10.9.9.2:7002"
	rig := redis.VerifNewRig(fmt.Sprintf("c14flags-%d", c14seq), hx.RedisConfig(strat, nil), []*host.Host{host.New(m)}, []string{m, ra, rb})
	defer hx.DropScopes(rig.ScopeName())
	text := fmt.Sprintf("idm %s@1 myself,master - 0 0 1 connected 0-16383\nida %s@1 %s idm 0 0 1 connected\nidb %s@1 %s idm 0 0 1 connected\n", m, ra, fa, rb, fb)
	if err := rig.Refresh(&redis.RespValue{Type: redis.BulkString, Text: []byte(text)}); err != nil {
		return "refresh-failed"
	}
	seen := map[string]bool{}
	for i := 0; i < 60; i++ {
		rig.Handle(hx.Bulks([]byte("get"), []byte(fmt.Sprintf("k%d", i))))
		for _, s := range rig.Drain() {
			switch s.Addr {
			case m:
				seen["M"] = true
			case ra:
				seen["Ra"] = true
			case rb:
				seen["Rb"] = true
			default:
				seen["X"] = true
			}
			s.Reply(&redis.RespValue{Type: redis.BulkString, Text: []byte("v")})
		}
	}
	var out []string
	for _, k := range []string{"M", "Ra", "Rb", "X"} {
		if seen[k] {
			out = append(out, k)
		}
	}
	return "reads=" + strings.Join(out, ",")
}

// c14.demoted   two nodes that behave like Redis nodes in this respect: a replica answers a read for its master's slots with MOVED unless the
// connection has been put into READONLY mode, then it serves the read.  Node A is the master, B its replica; the proxy (strategy MASTER)
// has loaded the routing table and served some reads; then the roles are swapped by a manual failover, both nodes stay up; 40 more GETs.
//
//	-> replica-reads=<reads executed by the node that is a replica at that moment>/<reads> moved=<MOVED replies the nodes sent>
func (c *c14) demoted() string {
	var mu sync.Mutex
	master := 0
	replicaReads, reads, moved := 0, 0, 0
	lns := make([]net.Listener, 2)
	for i := range lns {
		ln, err := net.Listen("tcp", "127.0.0.1:0")
		if err != nil {
			return "sockerr"
		}
		defer ln.Close()
		lns[i] = ln
	}
	addr := func(i int) string { return lns[i].Addr().String() }
	nodesText := func() string {
		mu.Lock()
		defer mu.Unlock()
		m, r := master, 1-master
		return fmt.Sprintf("id%d %s@1 master - 0 0 1 connected 0-16383\nid%d %s@1 slave id%d 0 0 1 connected\n", m, addr(m), r, addr(r), m)
	}
	for i := range lns {
		go func(me int) {
			for {
				c, err := lns[me].Accept()
				if err != nil {
					return
				}
				go func(c net.Conn) {
					defer c.Close()
					readonly := false
					dec := redis.VerifNewDecoder(c, 4096)
					for {
						v, err := dec.Decode()
						if err != nil || len(v.Array) == 0 {
							return
						}
						cmd := strings.ToLower(string(v.Array[0].Text))
						rep := "-ERR unknown\r\n"
						switch cmd {
						case "readonly":
							readonly = true
							rep = "+OK\r\n"
						case "cluster":
							t := nodesText()
							rep = fmt.Sprintf("$%d\r\n%s\r\n", len(t), t)
						case "get":
							mu.Lock()
							isMaster := master == me
							switch {
							case isMaster:
								reads++
								rep = "$1\r\nv\r\n"
							case readonly:
								reads++
								replicaReads++
								rep = "$1\r\nv\r\n"
							default:
								moved++
								rep = "-MOVED 1 " + addr(master) + "\r\n"
							}
							mu.Unlock()
						}
						if _, err := c.Write([]byte(rep)); err != nil {
							return
						}
					}
				}(c)
			}
		}(i)
	}
	ct := time.Second
	cfg := &service.Config{
		Listener:        &service.Listener{Address: &common.Address{Ip: "127.0.0.1", Port: 0}},
		ConnectTimeout:  &ct,
		Protocol:        protocol.Redis,
		ProtocolOptions: &service.Config_RedisOption{RedisOption: &protocol.RedisOption{ReadStrategy: pbredis.ReadStrategy_MASTER}},
	}
	c14seq++
	p, err := proc.New(fmt.Sprintf("verif-c14d-%d-%d", os.Getpid(), c14seq), cfg, []*host.Host{host.New(addr(0)), host.New(addr(1))})
	if err != nil {
		return "procerr"
	}
	defer hx.DropScopes("service." + strings.Replace(p.Name(), ".", "_", -1) + ".")
	if err := p.Start(); err != nil {
		return "procerr"
	}
	defer p.Stop()
	time.Sleep(2 * time.Millisecond)
	for i := 0; i < 400 && p.Address() == ""; i++ {
		time.Sleep(time.Millisecond)
	}
	time.Sleep(100 * time.Millisecond)
	cl, err := hx.DialClient(p.Address())
	if err != nil {
		return "sockerr"
	}
	defer cl.C.Close()
	get := func(i int) bool {
		cl.C.SetDeadline(time.Now().Add(2 * time.Second))
		v, err := cl.Do([]byte("get"), []byte(fmt.Sprintf("k%d", i)))
		return err == nil && string(v.Text) == "v"
	}
	for i := 0; i < 10; i++ {
		if !get(i) {
			return "setup-failed"
		}
	}
	mu.Lock()
	if replicaReads != 0 {
		mu.Unlock()
		return "setup-failed(replica-read-before-the-swap)"
	}
	master = 1
	reads = 0
	mu.Unlock()
	for i := 0; i < 40; i++ {
		get(100 + i)
		time.Sleep(10 * time.Millisecond)
	}
	mu.Lock()
	defer mu.Unlock()
	return fmt.Sprintf("replica-reads=%d/%d moved=%d", replicaReads, reads, moved)
}

var c14seq int

func (c *c14) Exec(op string) string {
	f := hx.Fields(op)
	if len(f) >= 1 && f[0] == "c14.topo" {
		return recoverStr(func() string { return c.topo(f[1:]) })
	}
	if (len(f) == 4 || len(f) == 5) && f[0] == "c14.scan" {
		own := ""
		if len(f) == 5 {
			own = f[4]
		}
		return recoverStr(func() string { return c.scan(f[1], f[2], f[3], own) })
	}
	if len(f) == 1 && f[0] == "c14.demoted" {
		return recoverStr(c.demoted)
	}
	if len(f) == 4 && f[0] == "c14.flags" {
		return recoverStr(func() string { return c.flags(f[1], f[2], f[3]) })
	}
	if len(f) >= 2 && f[0] == "c14.strat" {
		return recoverStr(func() string { return c.strat(f[1:]) })
	}
	if len(f) != 4 || f[0] != "c14.cmd" {
		return "bad-op"
	}
	name, err := hx.Unhex(f[2])
	n, err2 := strconv.Atoi(f[3])
	if err != nil || err2 != nil || n < 1 || n > 40 || (f[1] != "M" && f[1] != "R" && f[1] != "B") {
		return "bad-op"
	}
	rig := c.rig(f[1])
	args := [][]byte{name}
	for i := 1; i < n; i++ {
		args = append(args, []byte(fmt.Sprintf("arg%d", i)))
	}
	if n >= 2 && strings.EqualFold(string(name), "scan") {
		args[1] = []byte("0") // a valid cursor, so that SCAN is forwarded (C18 covers cursors)
	}
	return recoverStr(func() string {
		raw := rig.Handle(hx.Bulks(args...))
		sent := rig.Drain()
		if len(sent) == 0 {
			if !raw.Done() {
				return "hang"
			}
			r := raw.Response()
			switch {
			case r.Type == redis.Error && string(r.Text) == "invalid request":
				return "invalid"
			case r.Type == redis.Error && strings.HasPrefix(string(r.Text), "ERR unsupported command"):
				return "unsupported"
			case r.Type == redis.Error:
				return "error " + hx.Hex(r.Text)
			case r.Type == redis.SimpleString && string(r.Text) == "PONG":
				return "answered pong"
			case r.Type == redis.SimpleString && string(r.Text) == "OK":
				return "answered ok"
			case r.Type == redis.BulkString && strings.HasPrefix(string(r.Text), "pid:"):
				return "answered info"
			case r.Type == redis.BulkString && strings.HasPrefix(string(r.Text), "Collect"):
				return "answered hotkey"
			case r.Type == redis.Array && len(r.Array) == 2 && r.Array[0].Type == redis.BulkString && r.Array[1].Type == redis.BulkString:
				return "answered time"
			}
			return "answered " + hx.Render(r)
		}
		type part struct {
			idx int
			s   string
		}
		var ps []part
		scan := false
		for _, s := range sent {
			b := s.Body()
			cname := b.Array[0].Text
			if strings.EqualFold(string(cname), "scan") && strings.EqualFold(string(name), "scan") {
				scan = true
			}
			// which request argument is this child's routing key?
			idx := -1
			var key []byte
			for _, cand := range []int{1, 3} {
				if cand < len(b.Array) {
					for j := 1; j < len(args); j++ {
						if bytes.Equal(b.Array[cand].Text, args[j]) && (cand == 1 || strings.EqualFold(string(cname), "eval")) {
							idx, key = j, args[j]
						}
					}
				}
				if idx >= 0 && !strings.EqualFold(string(cname), "eval") {
					break
				}
			}
			role := "X"
			if idx >= 0 {
				o := c14Owner(key)
				switch s.Addr {
				case hx.NodeAddr(o):
					role = "M"
				case fmt.Sprintf("r%da:1", o), fmt.Sprintf("r%db:1", o):
					role = "R"
				}
			}
			ps = append(ps, part{idx, fmt.Sprintf("%s:%d:%s", hx.Hex(cname), idx, role)})
			// answer so that the request completes and nothing is left queued
			s.Reply(&redis.RespValue{Type: redis.Integer, Int: 1})
		}
		rig.Drain()
		if scan {
			return "scan"
		}
		// the queues are drained connection by connection: order the children by key position
		sort.SliceStable(ps, func(i, j int) bool { return ps[i].idx < ps[j].idx })
		var parts []string
		for _, p := range ps {
			parts = append(parts, p.s)
		}
		return "fwd " + strings.Join(parts, ",")
	})
}

var redisCommandList = strings.Fields(`append asking auth bgrewriteaof bgsave bitcount bitfield bitop bitpos blpop brpop brpoplpush bzpopmax bzpopmin client cluster command config dbsize debug decr decrby del discard dump echo eval evalsha exec exists expire expireat flushall flushdb geoadd geodist geohash geopos georadius georadius_ro georadiusbymember georadiusbymember_ro get getbit getrange getset hdel hexists hget hgetall hincrby hincrbyfloat hkeys hlen hmget hmset hscan hset hsetnx hstrlen hvals incr incrby incrbyfloat info keys lastsave lindex linsert llen lolwut lpop lpush lpushx lrange lrem lset ltrim memory mget migrate module monitor move mset msetnx multi object persist pexpire pexpireat pfadd pfcount pfdebug pfmerge pfselftest ping post psetex psubscribe psync pttl publish pubsub punsubscribe quit randomkey readonly readwrite rename renamenx replconf replicaof restore restore-asking role rpop rpoplpush rpush rpushx sadd save scan scard script sdiff sdiffstore select set setbit setex setnx setrange shutdown sinter sinterstore sismember slaveof slowlog smembers smove sort spop srandmember srem sscan strlen subscribe substr sunion sunionstore swapdb sync time touch ttl type unlink unsubscribe unwatch wait watch xack xadd xclaim xdel xgroup xinfo xlen xpending xrange xread xreadgroup xrevrange xtrim zadd zcard zcount zincrby zinterstore zlexcount zpopmax zpopmin zrange zrangebylex zrangebyscore zrank zrem zremrangebylex zremrangebyrank zremrangebyscore zrevrange zrevrangebylex zrevrangebyscore zrevrank zscan zscore zunionstore hotkey`)

func (c *c14) Gen(r *hx.Run) {
	rng := r.Rng
	// replica sets that change between two refreshes while the masters stay the same
	for _, st := range []string{"R", "B"} {
		for _, a1 := range []string{"000", "001", "011", "111", "010"} {
			for _, a2 := range []string{"000", "001", "011", "111", "100"} {
				r.Do(fmt.Sprintf("c14.topo %s %s %s 40", st, a1, a2), a1 != a2, "topo")
				r.Do(fmt.Sprintf("c14.scan %s %d %d", st, 1+rng.Intn(5), rng.Intn(3)), true, "scan-roles")
				// scattered ownership: masters that own several ranges, masters that own nothing, ranges nobody lists
				nm := 2 + rng.Intn(5)
				own := make([]byte, 8)
				for k := range own {
					if k > 0 && rng.Intn(6) == 0 { // (at least one range is listed: with no slot known the walk is over the configured hosts)
						own[k] = '-'
					} else {
						own[k] = byte('0' + rng.Intn(nm))
					}
				}
				r.Do(fmt.Sprintf("c14.scan %s %d %d %s", st, nm, rng.Intn(3), own), true, "scan-roles")
			}
		}
	}
	// replicas the cluster reports as failed, without address, or only suspects
	fl := []string{"slave", "myself,slave", "slave,fail", "slave,fail?", "slave,noaddr", "slave,handshake", "slave,fail,noaddr"}
	for _, st := range []string{"M", "R", "B"} {
		for i := 0; i < r.N(6, 40); i++ {
			r.Do(fmt.Sprintf("c14.flags %s %s %s", st, fl[rng.Intn(len(fl))], fl[rng.Intn(len(fl))]), true, "replica-flags")
		}
	}
	for _, op := range []string{"c14.scan M 1 1", "c14.scan M 3 2", "c14.scan M 2 0", "c14.scan M 5 1"} {
		r.Do(op, true, "scan-roles")
	}
	// the read strategy changed by configuration updates, no slots refresh in between
	for _, h := range []string{"R M", "B M", "M R", "M B", "R B M", "B R M R", "R M R M"} {
		r.Do("c14.strat "+h, true, "strat")
	}
	for i := 0; i < r.N(10, 300); i++ {
		n := 2 + rng.Intn(5)
		var hs []string
		for j := 0; j < n; j++ {
			hs = append(hs, "MRB"[rng.Intn(3):][:1])
		}
		r.Do("c14.strat "+strings.Join(hs, " "), true, "strat")
	}
	casings := func(s string) []string {
		mixed := []byte(s)
		for i := range mixed {
			if rng.Intn(2) == 0 && mixed[i] >= 'a' && mixed[i] <= 'z' {
				mixed[i] -= 32
			}
		}
		return []string{s, strings.ToUpper(s), string(mixed)}
	}
	strategies := []string{"M", "R", "B"}
	for _, name := range redisCommandList {
		for ci, v := range casings(name) {
			for _, st := range strategies {
				ns := []int{1, 2, 3, 4, 5, 6}
				if !r.Thorough() {
					ns = []int{1 + rng.Intn(2), 3 + rng.Intn(4)}
				}
				for _, n := range ns {
					r.Do(fmt.Sprintf("c14.cmd %s %s %d", st, hx.Hex([]byte(v)), n), ci > 0 || st != "M", "list")
				}
			}
		}
	}
	// names that lower-case onto supported names only through non-ASCII runes, and other odd names
	odd := []string{"HKEYS", "hKeys", "İNCR", "İncr", "ZRANK", "GİT", "geı", "set\x00", " set", "set ", "se\xfft", "\xc3\x28get", "GET\r\n", "", "s", "setx", "xget",
		"georadiusbymember_ro", "GEORADIUSBYMEMBERX", "hkeys\xe2\x84\xaa", "\xe2\x84\xaa", "mget\x00", "MSET\t"}
	for _, v := range odd {
		for _, st := range strategies {
			r.Do(fmt.Sprintf("c14.cmd %s %s %d", st, hx.Hex([]byte(v)), 2+rng.Intn(3)), true, "odd")
		}
	}
	// random names
	for i := 0; i < r.N(600, 20000); i++ {
		l := 1 + rng.Intn(12)
		b := make([]byte, l)
		for j := range b {
			switch rng.Intn(6) {
			case 0:
				b[j] = byte(rng.Intn(256))
			case 1:
				b[j] = byte('A' + rng.Intn(26))
			default:
				b[j] = byte('a' + rng.Intn(26))
			}
		}
		if rng.Intn(3) == 0 {
			// a supported name with one byte changed / appended / dropped
			s := []byte(redisCommandList[rng.Intn(len(redisCommandList))])
			switch rng.Intn(3) {
			case 0:
				s[rng.Intn(len(s))] ^= byte(1 << uint(rng.Intn(8)))
			case 1:
				s = append(s, byte(rng.Intn(256)))
			default:
				s = s[:len(s)-1]
			}
			b = s
		}
		r.Do(fmt.Sprintf("c14.cmd %s %s %d", strategies[rng.Intn(3)], hx.Hex(b), 1+rng.Intn(6)), true, "random")
	}
}
