package main

import (
	"bytes"
	"fmt"
	"io/ioutil"
	"math/rand"
	"sort"
	"strconv"
	"strings"

	"github.com/golang/snappy"

	"github.com/samaritan-proxy/samaritan/host"
	pbredis "github.com/samaritan-proxy/samaritan/pb/config/protocol/redis"
	"github.com/samaritan-proxy/samaritan/proc/redis"

	"verifharness/hx"
)

// C13: transparent compression.
//
//	c13.run <seed> <step>…
//	  E<thr> enable compression (threshold thr) | D disable (configuration kept)
//	  W<cmd>.<key>.<len>.<class>.<clen>[.m]  write a value of length len and entropy class (z zeros, p periodic, r random, h header-like
//	       prefix, x crafted: header magic+algorithm, no CRLF, then a valid stream); clen = length of its snappy stream; .m = the write is redirected once
//	       -> w:raw | w:framed,short=<t|f>,decodes=<t|f>   (what reached the backend store for that value)
//	  R<cmd>.<key>  read back through get | hget | hgetall | hscan (values nested one level down) | hmget | hvals | mget | getset  -> r:ok | r:bad<len> | r:nil
//	c13.swap <seed> <n>  n SETs while another goroutine keeps removing and restoring the compression section; read back -> done=<n> bad=<k> | panic:…
//	  B<cmd>        a command disabled under compression -> b:rejected | b:sent
type c13 struct{}

func init() { props["C13"] = func() hx.Prop { return c13{} } }

func (c13) Rule() string {
	return "write/read histories through the real request path and the real filter chain (real snappy) over an in-harness key-value backend: all nine write commands and their value positions, " +
		"value lengths within +-8 of the threshold and up to 64 KiB, entropy classes (constant, periodic, random, header-like prefixes, crafted near-frames), enable/disable histories, redirected writes (second filter pass), " +
		"read back through GET/HGET/HGETALL/HSCAN/HMGET/HVALS/MGET/GETSET. Non-trivial = value length within +-8 of the threshold, or a redirected write, or a read after disable; distinct by op line"
}

var c13Hdr = []byte("(P$\x00\r\n")

func c13Value(seed int64, key string, n int, class byte) []byte {
	r := rand.New(rand.NewSource(seed*131 + int64(len(key))*7 + int64(key[len(key)-1])))
	b := make([]byte, n)
	switch class {
	case 'z':
		for i := range b {
			b[i] = '0'
		}
	case 'p':
		for i := range b {
			b[i] = "abcdefg"[i%7]
		}
	case 'r':
		r.Read(b)
	case 'h':
		// starts like the header but is not one (differs in the last header byte)
		r.Read(b)
		copy(b, []byte("(P$\x00\rX"))
	case 'x':
		// header magic + algorithm, then NOT CRLF, then a valid snappy stream of something else
		var fb bytes.Buffer
		w := snappy.NewBufferedWriter(&fb)
		w.Write(bytes.Repeat([]byte("decoy"), 40))
		w.Close()
		// exact length: nothing after the stream, so that a decompressor that skipped six bytes would succeed
		return append([]byte("(P$\x00ab"), fb.Bytes()...)
	}
	return b
}

func snappyLen(v []byte) int {
	var fb bytes.Buffer
	w := snappy.NewBufferedWriter(&fb)
	w.Write(v)
	w.Close()
	return fb.Len()
}

type kvStore struct {
	str  map[string][]byte
	hash map[string]map[string][]byte
}

// apply executes a forwarded command on the store and returns the reply.
func (s *kvStore) apply(b *redis.RespValue) *redis.RespValue {
	arg := func(i int) []byte {
		if i < len(b.Array) {
			return append([]byte{}, b.Array[i].Text...)
		}
		return nil
	}
	okv := &redis.RespValue{Type: redis.SimpleString, Text: []byte("OK")}
	bulk := func(v []byte) *redis.RespValue {
		if v == nil {
			return &redis.RespValue{Type: redis.BulkString}
		}
		return &redis.RespValue{Type: redis.BulkString, Text: append([]byte{}, v...)}
	}
	k := string(arg(1))
	cmd := strings.ToLower(string(arg(0)))
	switch cmd {
	case "set":
		s.str[k] = arg(2)
		return okv
	case "setnx":
		if _, ok := s.str[k]; ok {
			return &redis.RespValue{Type: redis.Integer, Int: 0}
		}
		s.str[k] = arg(2)
		return &redis.RespValue{Type: redis.Integer, Int: 1}
	case "getset":
		old := s.str[k]
		s.str[k] = arg(2)
		return bulk(old)
	case "setex", "psetex":
		s.str[k] = arg(3)
		return okv
	case "get":
		return bulk(s.str[k])
	case "hset", "hsetnx":
		if s.hash[k] == nil {
			s.hash[k] = map[string][]byte{}
		}
		s.hash[k][string(arg(2))] = arg(3)
		return &redis.RespValue{Type: redis.Integer, Int: 1}
	case "hmset":
		if s.hash[k] == nil {
			s.hash[k] = map[string][]byte{}
		}
		for i := 2; i+1 < len(b.Array); i += 2 {
			s.hash[k][string(arg(i))] = arg(i + 1)
		}
		return okv
	case "hget":
		return bulk(s.hash[k][string(arg(2))])
	case "hgetall", "hscan", "hvals":
		var fs []string
		for f := range s.hash[k] {
			fs = append(fs, f)
		}
		sort.Strings(fs)
		out := &redis.RespValue{Type: redis.Array, Array: []redis.RespValue{}}
		for _, f := range fs {
			if cmd != "hvals" {
				out.Array = append(out.Array, *bulk([]byte(f)))
			}
			out.Array = append(out.Array, *bulk(s.hash[k][f]))
		}
		if cmd == "hscan" {
			// [cursor, [field, value, …]]: the values sit one level down
			return &redis.RespValue{Type: redis.Array, Array: []redis.RespValue{*bulk([]byte("0")), *out}}
		}
		return out
	case "hmget":
		out := &redis.RespValue{Type: redis.Array, Array: []redis.RespValue{}}
		for i := 2; i < len(b.Array); i++ {
			out.Array = append(out.Array, *bulk(s.hash[k][string(arg(i))]))
		}
		return out
	}
	return &redis.RespValue{Type: redis.Error, Text: []byte("ERR unknown command")}
}

// swapRun: SETs go through the real request path and filter chain while another goroutine keeps replacing the configuration
// by one without a compression section and back; then everything is read back without the section.
func swapRun(seed int64, n int) string {
	return recoverStr(func() string {
		with := hx.RedisConfig(pbredis.ReadStrategy_MASTER, &pbredis.Compression{Enable: true, Threshold: 16})
		without := hx.RedisConfig(pbredis.ReadStrategy_MASTER, nil)
		rig := redis.VerifNewRig(fmt.Sprintf("c13s-%d", seed), with, []*host.Host{host.New(hx.NodeAddr(0))}, []string{hx.NodeAddr(0)})
		defer hx.DropScopes(rig.ScopeName())
		rig.SetSlot(0, 16383, hx.NodeAddr(0), nil)
		store := &kvStore{str: map[string][]byte{}, hash: map[string]map[string][]byte{}}
		stop := make(chan struct{})
		done := make(chan struct{})
		go func() {
			defer close(done)
			for {
				select {
				case <-stop:
					return
				default:
				}
				rig.SetConfig(without)
				rig.SetConfig(with)
			}
		}()
		pump := func() {
			for _, s := range rig.Drain() {
				if s.Filter() {
					s.Reply(store.apply(s.Body()))
				}
			}
		}
		val := func(i int) []byte { return append(bytes.Repeat([]byte("0"), 1024), []byte(strconv.Itoa(i))...) }
		res := func() (out string) {
			defer func() {
				if r := recover(); r != nil {
					out = "panic:" + strings.ReplaceAll(fmt.Sprint(r), " ", "_")
				}
			}()
			for i := 0; i < n; i++ {
				rig.Handle(hx.Bulks([]byte("set"), []byte(fmt.Sprintf("k%d", i)), val(i)))
				pump()
			}
			return ""
		}()
		close(stop)
		<-done
		if res != "" {
			return res
		}
		// switched off the documented way (section present, enable=false): a configuration without the section means
		// "this service never compressed" and leaves values alone
		rig.SetConfig(hx.RedisConfig(pbredis.ReadStrategy_MASTER, &pbredis.Compression{Enable: false, Threshold: 1}))
		bad := 0
		for i := 0; i < n; i++ {
			raw := rig.Handle(hx.Bulks([]byte("get"), []byte(fmt.Sprintf("k%d", i))))
			pump()
			if !raw.Done() || !bytes.Equal(raw.Response().Text, val(i)) {
				bad++
			}
		}
		return fmt.Sprintf("done=%d bad=%d", n, bad)
	})
}

func (c13) Exec(op string) string {
	f := hx.Fields(op)
	if len(f) == 3 && f[0] == "c13.swap" {
		seed, err1 := strconv.ParseInt(f[1], 10, 64)
		n, err2 := strconv.Atoi(f[2])
		if err1 != nil || err2 != nil {
			return "bad-op"
		}
		return swapRun(seed, n)
	}
	if len(f) < 3 || f[0] != "c13.run" {
		return "bad-op"
	}
	seed, err := strconv.ParseInt(f[1], 10, 64)
	if err != nil {
		return "bad-op"
	}
	return recoverStr(func() string {
		rig := redis.VerifNewRig(fmt.Sprintf("c13-%d", seed), hx.RedisConfig(pbredis.ReadStrategy_MASTER, &pbredis.Compression{Enable: false, Threshold: 1}),
			[]*host.Host{host.New(hx.NodeAddr(0)), host.New(hx.NodeAddr(1))}, []string{hx.NodeAddr(0), hx.NodeAddr(1)})
		defer hx.DropScopes(rig.ScopeName())
		rig.SetSlot(0, 16383, hx.NodeAddr(0), nil)
		store := &kvStore{str: map[string][]byte{}, hash: map[string]map[string][]byte{}}
		written := map[string][]byte{} // key (or key/field) -> original value
		// pump: run filter + backend for everything queued; redirectOnce: answer the first arrival with MOVED
		pump := func(redirectOnce bool) (sentToBackend int) {
			for round := 0; round < 6; round++ {
				sent := rig.Drain()
				if len(sent) == 0 {
					return
				}
				for _, s := range sent {
					if !s.Filter() {
						continue
					}
					if redirectOnce {
						redirectOnce = false
						s.Reply(&redis.RespValue{Type: redis.Error, Text: []byte("MOVED 1 " + hx.NodeAddr(1))})
						continue
					}
					sentToBackend++
					s.Reply(store.apply(s.Body()))
				}
			}
			return
		}
		var outs []string
		for _, st := range f[2:] {
			switch st[0] {
			case 'E':
				thr, _ := strconv.Atoi(st[1:])
				rig.SetConfig(hx.RedisConfig(pbredis.ReadStrategy_MASTER, &pbredis.Compression{Enable: true, Threshold: uint32(thr)}))
			case 'D':
				rig.SetConfig(hx.RedisConfig(pbredis.ReadStrategy_MASTER, &pbredis.Compression{Enable: false, Threshold: 1}))
			case 'W':
				p := strings.Split(st[1:], ".")
				if len(p) < 5 {
					return "bad-op"
				}
				cmd, key := p[0], p[1]
				n, _ := strconv.Atoi(p[2])
				class := p[3][0]
				moved := len(p) >= 6 && p[5] == "m"
				v := c13Value(seed, key, n, class)
				orig := append([]byte{}, v...)
				var args [][]byte
				storedAt := func() []byte { return store.str[key] }
				switch cmd {
				case "set", "setnx", "getset":
					args = [][]byte{[]byte(cmd), []byte(key), v}
					if cmd == "setnx" {
						delete(store.str, key)
					}
				case "setex", "psetex":
					args = [][]byte{[]byte(cmd), []byte(key), []byte("1000"), v}
				case "mset":
					args = [][]byte{[]byte(cmd), []byte(key), v, []byte(key + "_b"), []byte("small")}
				case "hset", "hsetnx":
					args = [][]byte{[]byte(cmd), []byte(key), []byte("f1"), v}
					storedAt = func() []byte { return store.hash[key]["f1"] }
					if cmd == "hsetnx" {
						delete(store.hash, key)
					}
				case "hmset":
					args = [][]byte{[]byte(cmd), []byte(key), []byte("f0"), []byte("tiny"), []byte("f1"), v}
					storedAt = func() []byte { return store.hash[key]["f1"] }
				default:
					return "bad-op"
				}
				raw := rig.Handle(hx.Bulks(args...))
				pump(moved)
				if !raw.Done() {
					outs = append(outs, "w:hang")
					continue
				}
				written[key] = orig
				got := storedAt()
				switch {
				case bytes.Equal(got, orig):
					outs = append(outs, "w:raw")
				case bytes.HasPrefix(got, c13Hdr):
					dec, err := ioutil.ReadAll(snappy.NewReader(bytes.NewReader(got[len(c13Hdr):])))
					outs = append(outs, fmt.Sprintf("w:framed,short=%s,decodes=%s", tf(len(got) < len(orig)), tf(err == nil && bytes.Equal(dec, orig))))
				default:
					outs = append(outs, fmt.Sprintf("w:other%d", len(got)))
				}
			case 'R':
				p := strings.Split(st[1:], ".")
				if len(p) < 2 {
					return "bad-op"
				}
				cmd, key := p[0], p[1]
				var args [][]byte
				switch cmd {
				case "get":
					args = [][]byte{[]byte("get"), []byte(key)}
				case "mget":
					args = [][]byte{[]byte("mget"), []byte(key + "_none"), []byte(key)}
				case "hget":
					args = [][]byte{[]byte("hget"), []byte(key), []byte("f1")}
				case "hgetall":
					args = [][]byte{[]byte("hgetall"), []byte(key)}
				case "hscan":
					args = [][]byte{[]byte("hscan"), []byte(key), []byte("0")}
				case "hvals":
					args = [][]byte{[]byte("hvals"), []byte(key)}
				case "hmget":
					args = [][]byte{[]byte("hmget"), []byte(key), []byte("nofield"), []byte("f1")}
				case "getset":
					args = [][]byte{[]byte("getset"), []byte(key), []byte("zz")}
				default:
					return "bad-op"
				}
				raw := rig.Handle(hx.Bulks(args...))
				pump(false)
				if !raw.Done() {
					outs = append(outs, "r:hang")
					continue
				}
				resp := raw.Response()
				var got []byte
				switch cmd {
				case "get", "hget", "getset":
					got = resp.Text
				case "mget":
					if len(resp.Array) == 2 {
						got = resp.Array[1].Text
					}
				case "hgetall":
					for i := 0; i+1 < len(resp.Array); i += 2 {
						if string(resp.Array[i].Text) == "f1" {
							got = resp.Array[i+1].Text
						}
					}
				case "hscan":
					if len(resp.Array) == 2 {
						in := resp.Array[1].Array
						for i := 0; i+1 < len(in); i += 2 {
							if string(in[i].Text) == "f1" {
								got = in[i+1].Text
							}
						}
					}
				case "hmget":
					if len(resp.Array) == 2 {
						got = resp.Array[1].Text
					}
				case "hvals":
					// values in field order: f1 is the last field of these scripts (hmset also writes f0)
					if n := len(resp.Array); n >= 1 {
						got = resp.Array[n-1].Text
					}
				}
				want, ok := written[key]
				if cmd == "getset" {
					written[key] = []byte("zz")
				}
				switch {
				case !ok || got == nil:
					outs = append(outs, "r:nil")
				case bytes.Equal(got, want):
					outs = append(outs, "r:ok")
				default:
					outs = append(outs, fmt.Sprintf("r:bad%d", len(got)))
				}
			case 'B':
				raw := rig.Handle(hx.Bulks([]byte(st[1:]), []byte("k"), []byte("1"), []byte("2")))
				n := pump(false)
				if raw.Done() && raw.Response().Type == redis.Error && n == 0 {
					outs = append(outs, "b:rejected")
				} else {
					outs = append(outs, "b:sent")
				}
			default:
				return "bad-op"
			}
		}
		if len(outs) == 0 {
			return "-"
		}
		return strings.Join(outs, " ")
	})
}

func tf(b bool) string {
	if b {
		return "t"
	}
	return "f"
}

func (c13) Gen(r *hx.Run) {
	rng := r.Rng
	writes := []string{"set", "setnx", "getset", "setex", "psetex", "mset", "hset", "hmset", "hsetnx"}
	readsFor := func(w string) []string {
		switch w {
		case "hset", "hmset", "hsetnx":
			return []string{"hget", "hgetall", "hscan", "hmget", "hvals"}
		}
		return []string{"get", "mget", "getset"}
	}
	classes := []byte{'z', 'p', 'r', 'h', 'x'}
	// the configuration is replaced (section removed and restored) while requests are being filtered
	for i := 0; i < r.N(3, 20); i++ {
		r.Do(fmt.Sprintf("c13.swap %d %d", rng.Intn(100000), 3000+rng.Intn(3000)), true, "config-swapped-while-filtering")
	}
	for i := 0; i < r.N(500, 12000); i++ {
		seed := rng.Intn(100000)
		thr := []int{1, 2, 8, 32, 64, 100, 512, 4096}[rng.Intn(8)]
		steps := []string{fmt.Sprintf("E%d", thr)}
		enabled := true
		nontriv := false
		nk := 0
		var keys []struct{ k, w string }
		for j := 0; j < 1+rng.Intn(6); j++ {
			switch x := rng.Intn(10); {
			case x < 5:
				w := writes[rng.Intn(len(writes))]
				nk++
				key := fmt.Sprintf("k%d%c", nk, 'a'+rng.Intn(26))
				n := thr + rng.Intn(17) - 8
				switch rng.Intn(4) {
				case 0:
					n = rng.Intn(80)
				case 1:
					n = []int{1024, 4096, 20000, 65536}[rng.Intn(4)]
				}
				if n < 0 {
					n = 0
				}
				class := classes[rng.Intn(len(classes))]
				if class == 'x' && n < 300 {
					n = 300
				}
				if class == 'h' && n < 6 {
					n = 6
				}
				v := c13Value(int64(seed), key, n, class)
				n = len(v)
				st := fmt.Sprintf("W%s.%s.%d.%c.%d", w, key, n, class, snappyLen(v))
				if rng.Intn(4) == 0 {
					st += ".m"
					nontriv = true
				}
				if n >= thr-8 && n <= thr+8 {
					nontriv = true
				}
				steps = append(steps, st)
				keys = append(keys, struct{ k, w string }{key, w})
			case x < 8 && len(keys) > 0:
				kw := keys[rng.Intn(len(keys))]
				rs := readsFor(kw.w)
				steps = append(steps, fmt.Sprintf("R%s.%s", rs[rng.Intn(len(rs))], kw.k))
				if !enabled {
					nontriv = true
				}
			case x == 8:
				if enabled {
					steps = append(steps, "D")
				} else {
					steps = append(steps, fmt.Sprintf("E%d", thr))
				}
				enabled = !enabled
			default:
				steps = append(steps, "B"+[]string{"append", "eval", "setbit", "getbit", "setrange", "getrange"}[rng.Intn(6)])
			}
		}
		// always read everything back at the end, once more after disabling
		for _, kw := range keys {
			steps = append(steps, fmt.Sprintf("R%s.%s", readsFor(kw.w)[0], kw.k))
		}
		r.Do(fmt.Sprintf("c13.run %d %s", seed, strings.Join(steps, " ")), nontriv, "run")
	}
}
