// Command samharness runs the real samaritan code (built from /repo's working tree
// with -tags verif) on generated or replayed op lines and writes
// "<op> => <implementation output>" lines for the Lean model driver.
//
//	samharness -prop C12 -seed 1 -tier quick -out DIR      generate + execute
//	samharness -prop C12 -replay FILE -out DIR             execute the op lines of FILE
package main

import (
	"bufio"
	"flag"
	"fmt"
	"os"
	"runtime"
	"runtime/pprof"
	"strings"

	"verifharness/hx"
)

var props = map[string]func() hx.Prop{}

func main() {
	prop := flag.String("prop", "", "property id (C01…C20)")
	seed := flag.Int64("seed", 1, "PRNG seed")
	tier := flag.String("tier", "quick", "quick|thorough")
	out := flag.String("out", "", "output directory")
	replay := flag.String("replay", "", "file of op lines to execute instead of generating")
	child := flag.String("childexec", "", "internal: execute op lines from stdin for this property (crash isolation)")
	flag.Parse()
	if *child != "" {
		mk, ok := props[strings.ToUpper(*child)+"-CHILD"]
		if !ok {
			mk, ok = props[strings.ToUpper(*child)]
		}
		if !ok {
			os.Exit(2)
		}
		hx.ChildLoop(mk())
		return
	}
	mk, ok := props[strings.ToUpper(*prop)]
	if !ok || *out == "" {
		fmt.Fprintln(os.Stderr, "usage: samharness -prop Cxx -out DIR [-seed N] [-tier T] [-replay FILE]")
		os.Exit(2)
	}
	p := mk()
	r, err := hx.NewRun(strings.ToUpper(*prop), *seed, *tier, *out, p)
	if err != nil {
		fmt.Fprintln(os.Stderr, err)
		os.Exit(2)
	}
	if *replay != "" {
		f, err := os.Open(*replay)
		if err != nil {
			fmt.Fprintln(os.Stderr, err)
			os.Exit(2)
		}
		sc := bufio.NewScanner(f)
		sc.Buffer(make([]byte, 1<<20), 1<<28)
		for sc.Scan() {
			line := strings.TrimSpace(sc.Text())
			if line == "" || strings.HasPrefix(line, "#") {
				continue
			}
			if i := strings.Index(line, " => "); i >= 0 {
				line = line[:i]
			}
			r.Do(line, true, "replay")
		}
		f.Close()
	} else {
		p.Gen(r)
	}
	if hp := os.Getenv("VERIF_HEAPPROF"); hp != "" {
		// where the harness itself keeps memory (long runs): go tool pprof -top <binary> <file>
		if f, err := os.Create(hp); err == nil {
			runtime.GC()
			pprof.WriteHeapProfile(f)
			f.Close()
		}
	}
	if err := r.Close(*out); err != nil {
		fmt.Fprintln(os.Stderr, err)
		os.Exit(2)
	}
}
