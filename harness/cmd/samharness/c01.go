package main

import (
	"bytes"
	"fmt"
	"math/rand"
	"net"
	"sort"
	"strconv"
	"strings"
	"sync"
	"time"

	pbredis "github.com/samaritan-proxy/samaritan/pb/config/protocol/redis"
	"github.com/samaritan-proxy/samaritan/proc/redis"

	"verifharness/hx"
)

// C01: replies come back in request order, exactly one per request.
//
//	c01.pipe <conns> <order> <frag> <req>…   <conns> client connections to real sessions of a socket-less processor over 3 backend nodes;
//	     every connection pipelines the same requests (its keys carry the connection number), written in <frag>-byte pieces (0 = at once);
//	     the backends answer in the order <order>: F oldest first across nodes, L newest node first, R<seed> random node (always FIFO within a node)
//	   a<k> GET of a key whose slot is being moved: the node it reaches first answers ASK, the next node serves it after ASKING
//	   g<k> GET key k      e<k> GET answered with an error     M<k>.<k>… MGET     D<k>.<k>… DEL     s<k> SET
//	   p PING    u unsupported command    n<hex> a command whose name is the given bytes
//	   -> per connection the replies read (canonical value text) separated by ','; connections separated by ' | '
//	c01.client <n> <chunk> <seed> <b|s|e|m>   (replies are bulk strings, simple strings, errors or a mix) n requests pipelined by 4 senders over one real backend connection; the backend answers each request
//	     with its own key, written in <chunk>-byte pieces -> mismatches=<k> unanswered=<k>
type c01 struct{}

func init() { props["C01"] = func() hx.Prop { return c01{} } }

func (c01) Rule() string {
	return "pipelines of 1..80 requests (more than the 32-entry in-flight queue) mixing GET/SET/MGET/DEL over keys on 3 nodes, locally answered and rejected commands, error replies and command names containing CR LF, " +
		"on 1..4 concurrent connections, request bytes fragmented at every size from 1 byte, backends answering oldest-first, newest-node-first and in random node order; " +
		"plus pipelines of 50..2000 requests over one real backend connection with fragmented replies. Non-trivial = more than one node involved with a non-FIFO answer order, or fragmentation, or more than 32 requests; distinct by op line"
}

const c01Nodes = 3

func c01Rig() *redis.VerifRig {
	r := hx.NewRig(c01Nodes, pbredis.ReadStrategy_MASTER)
	per := 16384 / c01Nodes
	for i := 0; i < c01Nodes; i++ {
		hi := (i+1)*per - 1
		if i == c01Nodes-1 {
			hi = 16383
		}
		r.SetSlot(i*per, hi, hx.NodeAddr(i), nil)
	}
	return r
}

func c01Key(conn int, k string) []byte { return []byte(fmt.Sprintf("c%d-k%s", conn, k)) }

// c01.held <n>   one connection pipelines n+1 GETs in one write: the first n for keys of one node, which answers at once, the last for a key of
// another node, which stays silent for 700 ms.  -> early=<replies read while the last node was still silent> all=<replies read in the end>
func (c01) held(n int) string {
	rig := c01Rig()
	defer hx.DropScopes(rig.ScopeName())
	ln, err := net.Listen("tcp", "127.0.0.1:0")
	if err != nil {
		return "sockerr"
	}
	defer ln.Close()
	go func() {
		for {
			c, err := ln.Accept()
			if err != nil {
				return
			}
			go rig.ServeConn(c)
		}
	}()
	// keys by node
	var fast [][]byte
	var slow []byte
	nodeOf := func(k []byte) int {
		return (int(redis.VerifCrc16(redis.VerifHashtag(k))) & (redis.VerifSlotNum - 1)) / (16384 / c01Nodes)
	}
	for i := 0; len(fast) < n || slow == nil; i++ {
		k := []byte(fmt.Sprintf("held-%d", i))
		switch {
		case nodeOf(k) == 0 && len(fast) < n:
			fast = append(fast, k)
		case nodeOf(k) == 1 && slow == nil:
			slow = k
		}
	}
	var b bytes.Buffer
	for _, k := range fast {
		b.Write(hx.Wire(hx.Bulks([]byte("get"), k)))
	}
	b.Write(hx.Wire(hx.Bulks([]byte("get"), slow)))
	c, err := net.DialTimeout("tcp", ln.Addr().String(), time.Second)
	if err != nil {
		return "sockerr"
	}
	defer c.Close()
	c.Write(b.Bytes())
	// the backends: wait until everything has arrived, answer node 0 at once
	var held []*redis.VerifSent
	got := 0
	deadline := time.Now().Add(3 * time.Second)
	for got < n+1 && time.Now().Before(deadline) {
		for _, s := range rig.Drain() {
			got++
			held = append(held, s)
		}
		time.Sleep(200 * time.Microsecond)
	}
	if got < n+1 {
		return "setup-failed"
	}
	var slowSent *redis.VerifSent
	for _, s := range held {
		if s.Addr == hx.NodeAddr(0) {
			s.Reply(&redis.RespValue{Type: redis.BulkString, Text: append([]byte("v:"), s.Body().Array[1].Text...)})
		} else {
			slowSent = s
		}
	}
	dec := redis.VerifNewDecoder(c, 4096)
	read := func(d time.Duration) int {
		k := 0
		for {
			c.SetReadDeadline(time.Now().Add(d))
			if _, err := dec.Decode(); err != nil {
				return k
			}
			k++
		}
	}
	early := read(700 * time.Millisecond)
	if slowSent != nil {
		slowSent.Reply(&redis.RespValue{Type: redis.BulkString, Text: []byte("v:slow")})
	}
	all := early
	if early < n+1 {
		// a fresh decoder state is not needed: a timed-out read leaves the decoder's buffer intact only if nothing was read;
		// count what arrives now on a new decoder over the same connection
		dec = redis.VerifNewDecoder(c, 4096)
		all += read(700 * time.Millisecond)
	}
	return fmt.Sprintf("early=%d all=%d", early, all)
}

// c01.prefix <cut>   one write carries a complete GET and the first <cut> bytes of a second one; the client waits for the first reply
// before it sends the rest (the backends answer at once).  -> early=<replies read before the rest was sent> all=<replies in the end>
func (c01) prefix(cut int) string {
	rig := c01Rig()
	defer hx.DropScopes(rig.ScopeName())
	ln, err := net.Listen("tcp", "127.0.0.1:0")
	if err != nil {
		return "sockerr"
	}
	defer ln.Close()
	go func() {
		for {
			c, err := ln.Accept()
			if err != nil {
				return
			}
			go rig.ServeConn(c)
		}
	}()
	stop := make(chan struct{})
	defer close(stop)
	go func() {
		for {
			select {
			case <-stop:
				return
			default:
			}
			for _, s := range rig.Drain() {
				s.Reply(&redis.RespValue{Type: redis.BulkString, Text: []byte("v")})
			}
			time.Sleep(200 * time.Microsecond)
		}
	}()
	c, err := net.DialTimeout("tcp", ln.Addr().String(), time.Second)
	if err != nil {
		return "sockerr"
	}
	defer c.Close()
	first := hx.Wire(hx.Bulks([]byte("get"), []byte("prefix-1")))
	second := hx.Wire(hx.Bulks([]byte("get"), []byte("prefix-2")))
	if cut < 1 || cut >= len(second) {
		return "bad-op"
	}
	c.Write(append(append([]byte{}, first...), second[:cut]...))
	count := func(d time.Duration) int {
		// replies are "$1\r\nv\r\n": seven bytes each
		got := 0
		buf := make([]byte, 64)
		c.SetReadDeadline(time.Now().Add(d))
		for {
			n, err := c.Read(buf)
			got += n
			if err != nil || got%7 == 0 && got > 0 {
				return got / 7
			}
		}
	}
	early := count(600 * time.Millisecond)
	c.Write(second[cut:])
	all := early
	if early < 2 {
		all += count(600 * time.Millisecond)
	}
	return fmt.Sprintf("early=%d all=%d", early, all)
}

// c01.half <n>   one connection writes n GETs and then finishes its own direction (shutdown of the write side, as `printf … | nc` does); the
// backends answer at once.  -> replies=<replies read before end-of-stream>
func (c01) half(n int) string {
	rig := c01Rig()
	defer hx.DropScopes(rig.ScopeName())
	ln, err := net.Listen("tcp", "127.0.0.1:0")
	if err != nil {
		return "sockerr"
	}
	defer ln.Close()
	go func() {
		for {
			c, err := ln.Accept()
			if err != nil {
				return
			}
			go rig.ServeConn(c)
		}
	}()
	stop := make(chan struct{})
	defer close(stop)
	go func() {
		for {
			select {
			case <-stop:
				return
			default:
			}
			for _, s := range rig.Drain() {
				s.Reply(&redis.RespValue{Type: redis.BulkString, Text: []byte("v")})
			}
			time.Sleep(200 * time.Microsecond)
		}
	}()
	c, err := net.DialTimeout("tcp", ln.Addr().String(), time.Second)
	if err != nil {
		return "sockerr"
	}
	defer c.Close()
	var b bytes.Buffer
	for i := 0; i < n; i++ {
		b.Write(hx.Wire(hx.Bulks([]byte("get"), []byte(fmt.Sprintf("half-%d", i)))))
	}
	c.Write(b.Bytes())
	c.(*net.TCPConn).CloseWrite()
	dec := redis.VerifNewDecoder(c, 4096)
	got := 0
	for {
		c.SetReadDeadline(time.Now().Add(2 * time.Second))
		if _, err := dec.Decode(); err != nil {
			break
		}
		got++
	}
	return fmt.Sprintf("replies=%d", got)
}

func (c01) pipe(f []string) string {
	if len(f) < 4 {
		return "bad-op"
	}
	conns, err := strconv.Atoi(f[0])
	frag, err2 := strconv.Atoi(f[2])
	if err != nil || err2 != nil || conns < 1 || conns > 8 || frag < 0 {
		return "bad-op"
	}
	order := f[1]
	var rng *rand.Rand
	if order[0] == 'R' {
		seed, err := strconv.ParseInt(order[1:], 10, 64)
		if err != nil {
			return "bad-op"
		}
		rng = rand.New(rand.NewSource(seed))
	} else if order != "F" && order != "L" {
		return "bad-op"
	}
	rig := c01Rig()
	defer hx.DropScopes(rig.ScopeName())
	// request bytes per connection
	build := func(conn int) ([]byte, int, bool) {
		var b bytes.Buffer
		n := 0
		for _, t := range f[3:] {
			var args [][]byte
			body := t[1:]
			switch t[0] {
			case 'g', 'e', 'a':
				args = [][]byte{[]byte("get"), c01Key(conn, body)}
				if t[0] == 'e' {
					args[1] = append([]byte("ERR-"), args[1]...)
				}
				if t[0] == 'a' {
					// the node it is sent to answers ASK: the slot is being moved to the next node, which serves it after ASKING
					args[1] = append([]byte("ASK-"), args[1]...)
				}
			case 's':
				args = [][]byte{[]byte("set"), c01Key(conn, body), []byte("val")}
			case 'M', 'D':
				args = [][]byte{[]byte(map[byte]string{'M': "mget", 'D': "del"}[t[0]])}
				for _, k := range strings.Split(body, ".") {
					if k == "" {
						return nil, 0, false
					}
					args = append(args, c01Key(conn, k))
				}
			case 'p':
				args = [][]byte{[]byte("ping")}
			case 'u':
				args = [][]byte{[]byte("nosuchcmd"), []byte("x")}
			case 'n':
				name, err := hx.Unhex(body)
				if err != nil {
					return nil, 0, false
				}
				args = [][]byte{name, []byte("x")}
			default:
				return nil, 0, false
			}
			b.Write(hx.Wire(hx.Bulks(args...)))
			n++
		}
		return b.Bytes(), n, true
	}
	type cconn struct {
		c    net.Conn
		done chan struct{}
		out  []string
	}
	var cs []*cconn
	ln, err := net.Listen("tcp", "127.0.0.1:0")
	if err != nil {
		return "sockerr"
	}
	defer ln.Close()
	go func() {
		for {
			c, err := ln.Accept()
			if err != nil {
				return
			}
			go rig.ServeConn(c)
		}
	}()
	stop := make(chan struct{})
	defer close(stop)
	// backend pump
	go func() {
		queues := map[string][]*redis.VerifSent{}
		asked := map[string]bool{} // node -> ASKING seen, counts for the next command on that node's connection
		var arrival []string       // node of each queued request, in arrival order
		for {
			select {
			case <-stop:
				return
			default:
			}
			sent := rig.Drain()
			for _, s := range sent {
				queues[s.Addr] = append(queues[s.Addr], s)
				arrival = append(arrival, s.Addr)
			}
			if len(arrival) == 0 {
				time.Sleep(200 * time.Microsecond)
				continue
			}
			// pick a node
			var node string
			switch {
			case rng != nil:
				var nodes []string
				for a, q := range queues {
					if len(q) > 0 {
						nodes = append(nodes, a)
					}
				}
				sort.Strings(nodes)
				node = nodes[rng.Intn(len(nodes))]
				// let more requests pile up now and then, so that orders actually differ
				if rng.Intn(3) == 0 {
					time.Sleep(300 * time.Microsecond)
				}
			case order == "L":
				node = arrival[len(arrival)-1]
			default:
				node = arrival[0]
			}
			s := queues[node][0]
			queues[node] = queues[node][1:]
			for i, a := range arrival {
				if a == node {
					arrival = append(arrival[:i], arrival[i+1:]...)
					break
				}
			}
			b := s.Body()
			cmd := strings.ToLower(string(b.Array[0].Text))
			key := []byte{}
			if len(b.Array) > 1 {
				key = b.Array[1].Text
			}
			switch {
			case cmd == "asking":
				asked[node] = true
				s.Reply(&redis.RespValue{Type: redis.SimpleString, Text: []byte("OK")})
			case bytes.HasPrefix(key, []byte("ASK-")) && !asked[node]:
				s.Reply(&redis.RespValue{Type: redis.Error, Text: []byte("ASK 1 " + hx.NodeAddr((nodeIndex(node)+1)%c01Nodes))})
			case bytes.HasPrefix(key, []byte("ASK-")):
				asked[node] = false
				s.Reply(&redis.RespValue{Type: redis.BulkString, Text: append([]byte("v:"), key...)})
			case bytes.HasPrefix(key, []byte("ERR-")):
				s.Reply(&redis.RespValue{Type: redis.Error, Text: append([]byte("ERR no "), key...)})
			case cmd == "get":
				s.Reply(&redis.RespValue{Type: redis.BulkString, Text: append([]byte("v:"), key...)})
			case cmd == "set":
				s.Reply(&redis.RespValue{Type: redis.SimpleString, Text: []byte("OK")})
			case cmd == "del":
				s.Reply(&redis.RespValue{Type: redis.Integer, Int: 1})
			default:
				s.Reply(&redis.RespValue{Type: redis.Error, Text: []byte("ERR harness: unexpected " + cmd)})
			}
		}
	}()
	var wg sync.WaitGroup
	for i := 0; i < conns; i++ {
		c, err := net.DialTimeout("tcp", ln.Addr().String(), time.Second)
		if err != nil {
			return "sockerr"
		}
		data, n, ok := build(i)
		if !ok {
			return "bad-op"
		}
		want := n // this connection's own number of requests (the readers run while later connections are set up)
		cc := &cconn{c: c, done: make(chan struct{})}
		cs = append(cs, cc)
		wg.Add(1)
		go func() { // writer
			defer wg.Done()
			if frag == 0 {
				c.Write(data)
				return
			}
			for p := 0; p < len(data); p += frag {
				e := p + frag
				if e > len(data) {
					e = len(data)
				}
				c.Write(data[p:e])
				if frag < 8 && p%64 == 0 {
					time.Sleep(50 * time.Microsecond)
				}
			}
		}()
		go func() { // reader: until nreq replies and then quiet, or quiet
			defer close(cc.done)
			dec := redis.VerifNewDecoder(c, 4096)
			for {
				d := 4 * time.Second // generous: a loaded machine must not look like a lost reply
				if len(cc.out) >= want {
					d = 120 * time.Millisecond
				}
				c.SetReadDeadline(time.Now().Add(d))
				v, err := dec.Decode()
				if err != nil {
					if ne, ok := err.(net.Error); !(ok && ne.Timeout()) {
						cc.out = append(cc.out, "!closed")
					}
					return
				}
				cc.out = append(cc.out, hx.Render(v))
				if len(cc.out) > want+8 {
					return
				}
			}
		}()
	}
	wg.Wait()
	var outs []string
	for _, cc := range cs {
		<-cc.done
		cc.c.Close()
		if len(cc.out) == 0 {
			outs = append(outs, "-")
		} else {
			outs = append(outs, strings.Join(cc.out, ","))
		}
	}
	return strings.Join(outs, " | ")
}

// client: one real backend connection; 4 senders pipeline n requests; the backend echoes each request's key in pieces.
func (c01) client(n, chunk int, seed int64, kind string) string {
	ln, err := net.Listen("tcp", "127.0.0.1:0")
	if err != nil {
		return "sockerr"
	}
	defer ln.Close()
	acc := make(chan net.Conn, 1)
	go func() {
		c, err := ln.Accept()
		if err == nil {
			acc <- c
		}
	}()
	conn, err := net.DialTimeout("tcp", ln.Addr().String(), time.Second)
	if err != nil {
		return "sockerr"
	}
	be := <-acc
	defer be.Close()
	cl, err := redis.VerifNewClient(conn)
	if err != nil {
		return "sockerr"
	}
	go cl.Start()
	rng := rand.New(rand.NewSource(seed))
	_ = rng
	go func() { // backend: answer every request with its key (READONLY with +OK)
		d := redis.VerifNewDecoder(be, 4096)
		var pend bytes.Buffer
		nth := 0
		for {
			v, err := d.Decode()
			if err != nil {
				return
			}
			if len(v.Array) >= 2 {
				t := redis.BulkString
				k := kind
				if k == "m" {
					k = []string{"b", "s", "e"}[nth%3]
				}
				nth++
				switch k {
				case "s":
					t = redis.SimpleString
				case "e":
					t = redis.Error
				}
				pend.Write(hx.Wire(&redis.RespValue{Type: t, Text: v.Array[1].Text}))
			} else {
				pend.WriteString("+OK\r\n")
			}
			data := pend.Bytes()
			for p := 0; p < len(data); p += chunk {
				e := p + chunk
				if e > len(data) {
					e = len(data)
				}
				if _, err := be.Write(data[p:e]); err != nil {
					return
				}
			}
			pend.Reset()
		}
	}()
	const senders = 4
	reqs := make([][]*redis.VerifSimple, senders)
	keys := make([][]string, senders)
	var wg sync.WaitGroup
	for s := 0; s < senders; s++ {
		wg.Add(1)
		go func(s int) {
			defer wg.Done()
			for i := s; i < n; i += senders {
				k := fmt.Sprintf("key-%d-%d", s, i)
				r := redis.VerifNewSimple(hx.Bulks([]byte("get"), []byte(k)))
				reqs[s] = append(reqs[s], r)
				keys[s] = append(keys[s], k)
				cl.SendReq(r)
			}
		}(s)
	}
	wg.Wait()
	deadline := time.Now().Add(5 * time.Second)
	mism, unans := 0, 0
	for s := range reqs {
		for i, r := range reqs[s] {
			for !r.Done() && time.Now().Before(deadline) {
				time.Sleep(time.Millisecond)
			}
			if !r.Done() {
				unans++
			} else if r.Response() == nil || string(r.Response().Text) != keys[s][i] {
				mism++
			}
		}
	}
	stopped := make(chan struct{})
	go func() { cl.Stop(); close(stopped) }()
	select {
	case <-stopped:
	case <-time.After(2 * time.Second):
	}
	return fmt.Sprintf("mismatches=%d unanswered=%d", mism, unans)
}

func (c c01) Exec(op string) string {
	if f := hx.Fields(op); len(f) == 2 && f[0] == "c01.prefix" {
		n, err := strconv.Atoi(f[1])
		if err != nil {
			return "bad-op"
		}
		return recoverStr(func() string { return c.prefix(n) })
	}
	if f := hx.Fields(op); len(f) == 2 && f[0] == "c01.half" {
		n, err := strconv.Atoi(f[1])
		if err != nil || n < 1 || n > 200 {
			return "bad-op"
		}
		return recoverStr(func() string { return c.half(n) })
	}
	if f := hx.Fields(op); len(f) == 2 && f[0] == "c01.held" {
		n, err := strconv.Atoi(f[1])
		if err != nil || n < 1 || n > 200 {
			return "bad-op"
		}
		return recoverStr(func() string { return c.held(n) })
	}
	f := hx.Fields(op)
	if len(f) < 2 {
		return "bad-op"
	}
	switch f[0] {
	case "c01.pipe":
		return recoverStr(func() string { return c.pipe(f[1:]) })
	case "c01.client":
		if len(f) != 5 || (f[4] != "b" && f[4] != "s" && f[4] != "e" && f[4] != "m") {
			return "bad-op"
		}
		n, e1 := strconv.Atoi(f[1])
		chunk, e2 := strconv.Atoi(f[2])
		seed, e3 := strconv.ParseInt(f[3], 10, 64)
		if e1 != nil || e2 != nil || e3 != nil || n < 1 || n > 20000 || chunk < 1 {
			return "bad-op"
		}
		return c.client(n, chunk, seed, f[4])
	}
	return "bad-op"
}

func (c c01) Gen(r *hx.Run) {
	rng := r.Rng
	hexs := func(s string) string { return hx.Hex([]byte(s)) }
	basic := []string{
		"1 F 0 g1", "1 F 0 g1 g2 g3", "1 L 0 g1 g2 g3 g4 g5 g6", "1 L 1 g1 g2 g3 g4 g5 g6", "1 L 0 M1.2.3.4.5.6 g1 D1.2.3 p g2",
		"1 F 0 u g1 p", "1 L 0 e1 g2 e3 g4", "1 F 0 a1", "1 L 0 g1 a2 g3 a4 g5", "2 R5 0 a1 g2 a3 g1 a2", "3 L 2 a1 a2 a3 g1 g2 g3", "2 L 3 g1 g2 g3 M1.2.3 p", "3 R7 2 g1 s2 M1.2.3.4 D1.2 p u e5",
		"1 F 0 n" + hexs("foo\r\nbar") + " g1", "1 F 0 g1 n" + hexs("a\r\n+OK") + " g2", "1 F 0 n" + hexs("x\ny") + " p", "1 L 0 g1 n" + hexs("\r\n\r\n") + " g2 p",
		"1 F 0 n" + hexs("get\r") + " p", "1 F 0 n" + hexs("'") + " p",
	}
	for _, b := range basic {
		r.Do("c01.pipe "+b, true, "basic")
	}
	// a complete request followed by a strict prefix of the next one in one read: its reply does not wait for the rest
	for _, cut := range []int{1, 4, 1 + rng.Intn(26), 26} {
		r.Do(fmt.Sprintf("c01.prefix %d", cut), true, "prefix-of-the-next-request")
	}
	// finished replies do not wait for a later request's silent node
	for _, n := range []int{1, 3, 1 + rng.Intn(40)} {
		r.Do(fmt.Sprintf("c01.held %d", n), true, "held-behind-silent-node")
	}
	gen := func(n, keys int) []string {
		var toks []string
		for i := 0; i < n; i++ {
			k := func() string { return strconv.Itoa(rng.Intn(keys)) }
			switch x := rng.Intn(20); {
			case x < 2:
				toks = append(toks, "a"+k())
			case x < 9:
				toks = append(toks, "g"+k())
			case x < 11:
				toks = append(toks, "s"+k())
			case x < 14:
				var ks []string
				for j := 0; j < 1+rng.Intn(6); j++ {
					ks = append(ks, k())
				}
				toks = append(toks, "M"+strings.Join(ks, "."))
			case x < 16:
				var ks []string
				for j := 0; j < 1+rng.Intn(4); j++ {
					ks = append(ks, k())
				}
				toks = append(toks, "D"+strings.Join(ks, "."))
			case x < 17:
				toks = append(toks, "e"+k())
			case x < 18:
				toks = append(toks, "p")
			case x < 19:
				toks = append(toks, "u")
			default:
				names := []string{"foo\r\nbar", "a\nb", "\r", "x\r\n-ERR y", "ok"}
				toks = append(toks, "n"+hexs(names[rng.Intn(len(names))]))
			}
		}
		return toks
	}
	for i := 0; i < r.N(120, 3000); i++ {
		n := 1 + rng.Intn(24)
		if rng.Intn(5) == 0 {
			n = 33 + rng.Intn(48)
		}
		conns := 1
		if rng.Intn(3) == 0 {
			conns = 2 + rng.Intn(3)
		}
		order := []string{"F", "L", fmt.Sprintf("R%d", rng.Intn(1000))}[rng.Intn(3)]
		frag := []int{0, 0, 1, 2, 3, 5, 7, 16, 64}[rng.Intn(9)]
		line := fmt.Sprintf("c01.pipe %d %s %d %s", conns, order, frag, strings.Join(gen(n, 12), " "))
		r.Do(line, order != "F" || frag > 0 || n > 32, "pipe")
	}
	for i := 0; i < r.N(6, 120); i++ {
		r.Do(fmt.Sprintf("c01.client %d %d %d %s", 50+rng.Intn(r.N(400, 1950)), []int{1, 2, 3, 7, 64, 4096}[rng.Intn(6)], rng.Int63n(1<<30), "bsem"[i%4:][:1]), true, "client")
	}
}
