package main

import (
	"fmt"
	"io"
	"net"
	"os"
	"strconv"
	"strings"
	"time"

	"github.com/samaritan-proxy/samaritan/host"
	pbredis "github.com/samaritan-proxy/samaritan/pb/config/protocol/redis"
	"github.com/samaritan-proxy/samaritan/pb/config/service"
	"github.com/samaritan-proxy/samaritan/proc"
	"github.com/samaritan-proxy/samaritan/proc/redis"

	"verifharness/hx"
)

// C20: statistics are conserved.
//
//	c20.rq <token>…    request history through the real handleRequest / MakeRequestToHost / handleResp /
//	                   handleRedirection of a socket-less Redis processor; counters read from the public stats store
//	   i invalid request      u unsupported command     p PING      h "get" without a key
//	   g:<plan> GET   s:<plan> SET   M:<plan>/<plan>… MGET   W:<plan>/… MSET   D:<plan>/… DEL
//	   Q  the upstream is told to quit (everything forwarded afterwards is refused)
//	   plan letters: o reply, e error reply, x malformed MOVED, c CLUSTERDOWN, f backend connection lost,
//	                 m MOVED to the other node, n MOVED to an address nobody listens on, a/A ASK (ASKING answered OK / error)
//	   -> ds=<total>,<success>,<failure> us=<…> moved=<n> cmd=<get>;<set>;<mget>;<mset>;<del>;<ping> (each total,success,error) [pending=<n>]
//	c20.cx <limit> <token>…   connection history through a real TCP processor (proc.New, public API) with one scripted backend
//	   o open a client connection   c<i> the client closes connection i   b<i> the backend closes its side of connection i
//	   d backend stops listening    u listens again     r remove the host (as the controller does)   a add it back
//	   D StopListen   S Stop
//	   (after the last token every connection is closed and the processor is stopped unless S occurred)
//	   -> ds=<total>,<destroyed>,<active>,<restricted> us=<total>,<destroyed>,<active>,<connect_fail> before the final stop
type c20 struct {
	rig *redis.VerifRig
}

func init() { props["C20"] = func() hx.Prop { return &c20{} } }

func (*c20) Rule() string {
	return "request histories of 1..12 requests mixing invalid, unsupported, locally answered, single-key and multi-key commands with per-child reply plans " +
		"(replies, errors, MOVED/ASK chains up to 4 hops, malformed redirections, CLUSTERDOWN, lost backend connections, redirection to a dead address, upstream quit); " +
		"connection histories of 1..10 actions on a real TCP processor (opens under and over the connection limit, closes from either side, backend down, host removal, StopListen, Stop with open connections). " +
		"Non-trivial = contains a redirection, a failure, a rejection or a stop with open connections; distinct by op line"
}

var c20Cmds = []string{"get", "set", "mget", "mset", "del", "ping"}

func (c *c20) execRq(toks []string) string {
	fresh := false
	for _, t := range toks {
		if t == "Q" {
			fresh = true
		}
	}
	rig := c.rig
	if rig == nil || fresh {
		rig = hx.NewRig(2, pbredis.ReadStrategy_MASTER)
		rig.SetSlot(0, 16383, hx.NodeAddr(0), nil)
		if !fresh {
			c.rig = rig
		}
	}
	prefix := rig.ScopeName()
	if fresh {
		defer hx.DropScopes(prefix)
	}
	metric := hx.Metrics(prefix)
	c20Names := []string{"downstream.rq_total", "downstream.rq_success_total", "downstream.rq_failure_total",
		"upstream.rq_total", "upstream.rq_success_total", "upstream.rq_failure_total", "upstream.moved"}
	for _, cn := range c20Cmds {
		c20Names = append(c20Names, "redis."+cn+".total", "redis."+cn+".success", "redis."+cn+".error")
	}
	snapshot := func() map[string]uint64 {
		m := map[string]uint64{}
		for _, n := range c20Names {
			m[n] = metric(n)
		}
		return m
	}
	before := snapshot()
	pending := 0
	for ri, t := range toks {
		if t == "Q" {
			rig.Quit()
			continue
		}
		name, plansStr := t, ""
		if i := strings.Index(t, ":"); i >= 0 {
			name, plansStr = t[:i], t[i+1:]
		}
		var plans [][]byte
		if plansStr != "" || strings.Contains(t, ":") {
			for _, p := range strings.Split(plansStr, "/") {
				plans = append(plans, []byte(p))
			}
		}
		key := func(j int) []byte { return []byte(fmt.Sprintf("k%d.%d", ri, j)) }
		var body *redis.RespValue
		cmd := ""
		switch name {
		case "i":
			body = &redis.RespValue{Type: redis.Array, Array: []redis.RespValue{{Type: redis.Integer, Int: 1}}}
		case "u":
			body = hx.Bulks([]byte("nosuchcmd"), []byte("x"))
		case "p":
			body = hx.Bulks([]byte("ping"))
		case "h":
			body = hx.Bulks([]byte("get"))
		case "g":
			cmd = "get"
			body = hx.Bulks([]byte("get"), key(0))
		case "s":
			cmd = "set"
			body = hx.Bulks([]byte("set"), key(0), []byte("v"))
		case "M", "D":
			cmd = map[string]string{"M": "mget", "D": "del"}[name]
			args := [][]byte{[]byte(cmd)}
			for j := range plans {
				args = append(args, key(j))
			}
			body = hx.Bulks(args...)
		case "W":
			cmd = "mset"
			args := [][]byte{[]byte(cmd)}
			for j := range plans {
				args = append(args, key(j), []byte("v"))
			}
			body = hx.Bulks(args...)
		default:
			return "bad-op"
		}
		if cmd != "" && (len(plans) == 0 || (len(plans) != 1 && (name == "g" || name == "s"))) {
			return "bad-op"
		}
		raw := rig.Handle(body)
		pos := make([]int, len(plans))
		var askReplies []bool // ASKING requests still to arrive: answered with an error?
		for rounds := 0; rounds < 64; rounds++ {
			sent := rig.Drain()
			if len(sent) == 0 {
				break
			}
			for _, s := range sent {
				b := s.Body()
				if len(b.Array) == 1 && strings.EqualFold(string(b.Array[0].Text), "asking") {
					bad := false
					if len(askReplies) > 0 {
						bad, askReplies = askReplies[0], askReplies[1:]
					}
					if bad {
						s.Reply(&redis.RespValue{Type: redis.Error, Text: []byte("ERR asking refused")})
					} else {
						s.Reply(&redis.RespValue{Type: redis.SimpleString, Text: []byte("OK")})
					}
					continue
				}
				j := -1
				if len(b.Array) >= 2 {
					k := string(b.Array[1].Text)
					if i := strings.LastIndex(k, "."); i >= 0 {
						j, _ = strconv.Atoi(k[i+1:])
					}
				}
				if j < 0 || j >= len(plans) {
					s.Reply(&redis.RespValue{Type: redis.Error, Text: []byte("ERR harness: unknown child")})
					continue
				}
				step := byte('o')
				if pos[j] < len(plans[j]) {
					step = plans[j][pos[j]]
					pos[j]++
				}
				other := hx.NodeAddr(1)
				if s.Addr == other {
					other = hx.NodeAddr(0)
				}
				errReply := func(t string) { s.Reply(&redis.RespValue{Type: redis.Error, Text: []byte(t)}) }
				switch step {
				case 'o':
					switch strings.ToLower(string(b.Array[0].Text)) {
					case "get":
						s.Reply(&redis.RespValue{Type: redis.BulkString, Text: []byte("v")})
					case "set":
						s.Reply(&redis.RespValue{Type: redis.SimpleString, Text: []byte("OK")})
					default:
						s.Reply(&redis.RespValue{Type: redis.Integer, Int: 1})
					}
				case 'm':
					errReply("MOVED 1 " + other)
				case 'n':
					errReply("MOVED 1 127.0.0.1:1")
				case 'a', 'A':
					askReplies = append(askReplies, step == 'A')
					errReply("ASK 1 " + other)
				case 'x':
					errReply("MOVED 1")
				case 'c':
					errReply("CLUSTERDOWN The cluster is down")
				case 'f':
					s.Fail()
				default:
					errReply("ERR scripted")
				}
			}
		}
		if !raw.Done() {
			pending++
		}
	}
	after := snapshot()
	d := func(k string) uint64 { return after[k] - before[k] }
	tri := func(p string, names ...string) string {
		return fmt.Sprintf("%d,%d,%d", d(p+names[0]), d(p+names[1]), d(p+names[2]))
	}
	var cmds []string
	for _, cn := range c20Cmds {
		cmds = append(cmds, tri("redis."+cn+".", "total", "success", "error"))
	}
	out := fmt.Sprintf("ds=%s us=%s moved=%d cmd=%s", tri("downstream.", "rq_total", "rq_success_total", "rq_failure_total"),
		tri("upstream.", "rq_total", "rq_success_total", "rq_failure_total"), d("upstream.moved"), strings.Join(cmds, ";"))
	if pending > 0 {
		out += fmt.Sprintf(" pending=%d", pending)
	}
	return out
}

func (c *c20) execCx(f []string) string {
	if len(f) < 2 {
		return "bad-op"
	}
	limit, err := strconv.Atoi(f[0])
	if err != nil || limit < 0 {
		return "bad-op"
	}
	ln, err := net.Listen("tcp", "127.0.0.1:0")
	if err != nil {
		return "sockerr"
	}
	addr := ln.Addr().String()
	accepted := make(chan net.Conn, 64)
	serve := func(l net.Listener) {
		for {
			c, err := l.Accept()
			if err != nil {
				return
			}
			accepted <- c
		}
	}
	go serve(ln)
	h := host.New(addr)
	p, err := hx.NewTCPProc(service.LoadBalancePolicy_ROUND_ROBIN, 5*time.Second, uint32(limit), []*host.Host{h})
	if err != nil {
		ln.Close()
		return "procerr"
	}
	defer hx.DropScopes("service." + p.Name() + ".") // runs after the Stop registered below
	prefix := "service." + p.Name() + "."
	metric := hx.Metrics(prefix)
	type pair struct{ cli, be net.Conn }
	var conns []*pair
	stopped := false
	closeAll := func() {
		for _, pr := range conns {
			if pr.cli != nil {
				pr.cli.Close()
			}
			if pr.be != nil {
				pr.be.Close()
			}
		}
	}
	defer func() {
		closeAll()
		if ln != nil {
			ln.Close()
		}
		if !stopped {
			p.Stop()
		}
	}()
	paddr := p.Address()
	// waitGone: the proxy closed its side of the client connection
	waitGone := func(c net.Conn) bool {
		c.SetReadDeadline(time.Now().Add(2 * time.Second))
		var b [1]byte
		_, err := c.Read(b[:])
		if ne, ok := err.(net.Error); ok && ne.Timeout() {
			return false
		}
		return err != nil
	}
	for _, a := range f[1:] {
		switch {
		case a == "o":
			cli, err := net.DialTimeout("tcp", paddr, time.Second)
			pr := &pair{}
			conns = append(conns, pr)
			if err != nil {
				continue // listener closed: refused
			}
			pr.cli = cli
			// either the backend sees a connection, or the proxy closes ours
			gone := make(chan bool, 1)
			go func() {
				cli.SetReadDeadline(time.Now().Add(3 * time.Second))
				var b [1]byte
				_, err := cli.Read(b[:])
				ne, ok := err.(net.Error)
				gone <- err != nil && !(ok && ne.Timeout())
			}()
			select {
			case be := <-accepted:
				pr.be = be
				cli.SetReadDeadline(time.Now()) // release the reader
				<-gone
				cli.SetReadDeadline(time.Time{})
			case g := <-gone:
				if !g {
					return "timeout-open"
				}
				cli.Close()
				pr.cli = nil
			}
		case a[0] == 'c' || a[0] == 'b':
			i, err := strconv.Atoi(a[1:])
			if err != nil || i < 0 || i >= len(conns) {
				return "bad-op"
			}
			pr := conns[i]
			if pr.cli == nil {
				continue
			}
			destroyedBefore := metric("downstream.cx_destroy_total")
			if a[0] == 'c' {
				pr.cli.Close()
				if pr.be != nil {
					waitGone(pr.be)
					pr.be.Close()
				}
			} else if pr.be != nil {
				pr.be.Close()
				waitGone(pr.cli)
				pr.cli.Close()
			} else {
				pr.cli.Close()
			}
			pr.cli, pr.be = nil, nil
			// the next action must see the registry without this connection
			for k := 0; k < 500 && metric("downstream.cx_destroy_total") == destroyedBefore; k++ {
				time.Sleep(2 * time.Millisecond)
			}
		case a == "d":
			if ln != nil {
				ln.Close()
				ln = nil
			}
		case a == "u":
			if ln == nil {
				l2, err := net.Listen("tcp", addr)
				if err != nil {
					return "sockerr"
				}
				ln = l2
				go serve(ln)
			}
		case a == "r":
			destroyedBefore := metric("downstream.cx_destroy_total")
			p.OnSvcHostRemove([]*host.Host{host.New(addr)})
			cut := uint64(0)
			for _, pr := range conns {
				if pr.cli != nil && pr.be != nil {
					waitGone(pr.cli)
					pr.cli.Close()
					pr.be.Close()
					pr.cli, pr.be = nil, nil
					cut++
				}
			}
			// the next action must see the registry without these connections (as after c<i> / b<i>)
			for k := 0; k < 500 && metric("downstream.cx_destroy_total") < destroyedBefore+cut; k++ {
				time.Sleep(2 * time.Millisecond)
			}
		case a == "a":
			p.OnSvcHostAdd([]*host.Host{host.New(addr)})
		case a == "D":
			p.StopListen()
		case a == "S":
			if !stopped {
				stopped = true
				done := make(chan struct{})
				go func() { p.Stop(); close(done) }()
				// Stop closes the downstream side only; the relay towards the client ends when the backend's side
				// ends (or after the idle timeout), so the backend hangs up shortly after Stop has begun
				time.Sleep(20 * time.Millisecond)
				for _, pr := range conns {
					if pr.be != nil {
						pr.be.Close()
					}
				}
				select {
				case <-done:
				case <-time.After(5 * time.Second):
					return "stop-hangs"
				}
				for _, pr := range conns {
					if pr.cli != nil {
						pr.cli.Close()
					}
					if pr.be != nil {
						pr.be.Close()
					}
					pr.cli, pr.be = nil, nil
				}
			}
		default:
			return "bad-op"
		}
	}
	// quiescence: close everything and wait for the counters to settle
	closeAll()
	for _, pr := range conns {
		pr.cli, pr.be = nil, nil
	}
	read := func() string {
		m := metric
		return fmt.Sprintf("ds=%d,%d,%d,%d us=%d,%d,%d,%d", m("downstream.cx_total"), m("downstream.cx_destroy_total"), int64(m("downstream.cx_active")), m("downstream.cx_restricted"),
			m("upstream.cx_total"), m("upstream.cx_destroy_total"), int64(m("upstream.cx_active")), m("upstream.cx_connect_fail"))
	}
	last := read()
	stable := 0
	for i := 0; i < 400 && stable < 15; i++ {
		time.Sleep(2 * time.Millisecond)
		cur := read()
		if cur == last {
			stable++
		} else {
			stable, last = 0, cur
		}
	}
	return last
}

// c20.names   two TCP services whose names differ only in "." against "_" run side by side (the controller keys them by name); service
// A serves one connection, which is closed; service B holds one open.  A is quiescent.
//
//	-> A: active=<downstream gauge> open=<downstream total - destroyed> up-active=<upstream gauge> up-open=<upstream total - destroyed>
var c20namesSeq int

func (c *c20) execNames() string {
	c20namesSeq++
	nameA := fmt.Sprintf("verif.c20n.%d.%d", os.Getpid(), c20namesSeq)
	nameB := fmt.Sprintf("verif.c20n_%d.%d", os.Getpid(), c20namesSeq)
	be, err := hx.NewBackend()
	if err != nil {
		return "sockerr"
	}
	defer be.Close()
	go func() {
		for bc := range be.Conns {
			go func(bc net.Conn) { io.Copy(bc, bc); bc.Close() }(bc)
		}
	}()
	mk := func(name string) (proc.Proc, error) {
		return hx.NewTCPProcNamed(name, service.LoadBalancePolicy_ROUND_ROBIN, time.Minute, 0, []*host.Host{host.New(be.Addr)})
	}
	pa, err := mk(nameA)
	if err != nil {
		return "procerr"
	}
	defer pa.Stop()
	pb, err := mk(nameB)
	if err != nil {
		return "procerr"
	}
	defer pb.Stop()
	scope := "service." + strings.Replace(nameA, ".", "_", -1) + "."
	defer hx.DropScopes(scope)
	defer hx.DropScopes("service." + strings.Replace(nameB, ".", "_", -1) + ".")
	m := hx.Metrics(scope)
	echo := func(addr string) (net.Conn, bool) {
		cn, err := net.DialTimeout("tcp", addr, time.Second)
		if err != nil {
			return nil, false
		}
		cn.Write([]byte("x"))
		cn.SetReadDeadline(time.Now().Add(2 * time.Second))
		b := make([]byte, 1)
		if _, err := io.ReadFull(cn, b); err != nil {
			cn.Close()
			return nil, false
		}
		return cn, true
	}
	ca, ok := echo(pa.Address())
	if !ok {
		return "sockerr"
	}
	ca.Close()
	for i := 0; i < 300 && m("downstream.cx_destroy_total") < 1; i++ {
		time.Sleep(5 * time.Millisecond)
	}
	cb, ok := echo(pb.Address())
	if !ok {
		return "sockerr"
	}
	defer cb.Close()
	time.Sleep(50 * time.Millisecond)
	return fmt.Sprintf("active=%d open=%d up-active=%d up-open=%d", m("downstream.cx_active"), m("downstream.cx_total")-m("downstream.cx_destroy_total"),
		m("upstream.cx_active"), m("upstream.cx_total")-m("upstream.cx_destroy_total"))
}

func (c *c20) Exec(op string) string {
	f := hx.Fields(op)
	if len(f) == 1 && f[0] == "c20.names" {
		return recoverStr(c.execNames)
	}
	if len(f) < 2 {
		return "bad-op"
	}
	switch f[0] {
	case "c20.names":
		return recoverStr(c.execNames)
	case "c20.rq":
		return recoverStr(func() string { return c.execRq(f[1:]) })
	case "c20.cx":
		return recoverStr(func() string { return c.execCx(f[1:]) })
	}
	return "bad-op"
}

func (c *c20) Gen(r *hx.Run) {
	rng := r.Rng
	finals := []byte("oexcf")
	plan := func() string {
		var b []byte
		hops := 0
		switch rng.Intn(5) {
		case 0, 1:
		case 2:
			hops = 1
		case 3:
			hops = 2
		case 4:
			hops = rng.Intn(5)
		}
		for i := 0; i < hops; i++ {
			b = append(b, "mmaAm"[rng.Intn(5)])
		}
		if rng.Intn(8) == 0 {
			b = append(b, 'n')
		} else if rng.Intn(3) > 0 {
			b = append(b, 'o')
		} else {
			b = append(b, finals[rng.Intn(len(finals))])
		}
		return string(b)
	}
	plans := func(n int) string {
		var ps []string
		for i := 0; i < n; i++ {
			ps = append(ps, plan())
		}
		return strings.Join(ps, "/")
	}
	// every single request kind alone, every plan letter alone
	for _, t := range []string{"i", "u", "p", "h", "Q g:o", "Q M:o/o", "g:o p Q p i"} {
		r.Do("c20.rq "+t, t != "p", "rq-basic")
	}
	for _, k := range []string{"g", "s", "M", "W", "D"} {
		for _, p := range []string{"o", "e", "x", "c", "f", "mo", "n", "ao", "Ao", "me", "mn", "aAmo", "mmmmo", "amf"} {
			r.Do(fmt.Sprintf("c20.rq %s:%s", k, p), p != "o", "rq-one")
			if k == "M" || k == "W" || k == "D" {
				r.Do(fmt.Sprintf("c20.rq %s:o/%s/o", k, p), true, "rq-multi")
			}
		}
	}
	for i := 0; i < r.N(300, 6000); i++ {
		var toks []string
		n := 1 + rng.Intn(12)
		quitAt := -1
		if rng.Intn(6) == 0 {
			quitAt = rng.Intn(n)
		}
		for j := 0; j < n; j++ {
			if j == quitAt {
				toks = append(toks, "Q")
			}
			switch rng.Intn(10) {
			case 0:
				toks = append(toks, "iuph"[rng.Intn(4):][:1])
			case 1, 2, 3:
				toks = append(toks, "g:"+plan())
			case 4, 5:
				toks = append(toks, "s:"+plan())
			case 6:
				toks = append(toks, "M:"+plans(1+rng.Intn(4)))
			case 7:
				toks = append(toks, "W:"+plans(1+rng.Intn(4)))
			default:
				toks = append(toks, "D:"+plans(1+rng.Intn(4)))
			}
		}
		line := "c20.rq " + strings.Join(toks, " ")
		r.Do(line, strings.ContainsAny(line, "maAnxcfeQiu"), "rq-hist")
	}
	// connection histories
	for _, t := range []string{"0 o", "0 o c0", "0 o b0", "0 o S", "0 o o S", "1 o o", "1 o o c0 o", "0 d o", "0 d o u o", "0 r o", "0 o r", "0 o r a o", "0 D o", "0 o D c0", "0 o D S", "2 o o o c1 o S", "0 S o"} {
		r.Do("c20.cx "+t, true, "cx-basic")
	}
	for i := 0; i < r.N(40, 1200); i++ {
		limit := []int{0, 0, 1, 2, 3}[rng.Intn(5)]
		n := 1 + rng.Intn(10)
		var toks []string
		opened := 0
		for j := 0; j < n; j++ {
			switch x := rng.Intn(16); {
			case x < 7 || opened == 0:
				toks = append(toks, "o")
				opened++
			case x < 10:
				toks = append(toks, fmt.Sprintf("c%d", rng.Intn(opened)))
			case x < 12:
				toks = append(toks, fmt.Sprintf("b%d", rng.Intn(opened)))
			case x == 12:
				toks = append(toks, "du"[rng.Intn(2):][:1])
			case x == 13:
				toks = append(toks, "ra"[rng.Intn(2):][:1])
			case x == 14:
				toks = append(toks, "D")
			default:
				toks = append(toks, "S")
			}
		}
		line := fmt.Sprintf("c20.cx %d %s", limit, strings.Join(toks, " "))
		r.Do(line, strings.ContainsAny(line, "SDdr") || limit > 0, "cx-hist")
	}
}
