package main

import (
	"fmt"
	"os"
	"strconv"
	"strings"
	"time"

	pbredis "github.com/samaritan-proxy/samaritan/pb/config/protocol/redis"
	"github.com/samaritan-proxy/samaritan/proc/redis"

	"verifharness/hx"
)

// The cluster script language shared by C03, C04 and C07: a real Redis processor (proc.New, real
// sockets) in front of a scripted cluster (hx.FakeCluster) of <nodes> nodes, slots spread evenly over
// the first <masters> of them; one or more client connections.
//
//	<prefix>.cl <nodes> <masters> <token>…
//	  commands (key ids: letters/digits → "key:<id>", or x<hex> for raw bytes; values hex, - = empty):
//	    g<k> GET   s<k>:<v> SET   n<k>:<v> SETNX   t<k>:<v> GETSET   a<k>:<v> APPEND   l<k> STRLEN   i<k> INCR
//	    d<k>.<k>… DEL   e<k>.<k>… EXISTS   m<k>.<k>… MGET   M<k>:<v>.<k>:<v>… MSET
//	  cluster events:
//	    X<n> node n goes down   U<n> comes back (same address, same data)   Z<n> drops its connections
//	    H<n> node n hangs: its connections are dropped, connects to it time out instead of being refused
//	    O<k>:<n> the slot of key k now belongs to node n (a resharding the proxy has not heard of)
//	    G<k>:<n> start migrating the slot of key k to node n   V<k> move key k   N<k> finish that migration
//	    P<r>:<m> node r is a replica of m   F<r> failover: replica r takes over, its master goes down
//	    A<n> node n restarts on a new address (same node id)   Y<k>:<n>:<m> node n believes the slot of key k belongs to m (a lagging view)
//	    D<n>:<ms> node n takes ms to answer each command   { … } the commands in between are written without waiting for their replies (pipelined)
//	    T<ms> (first token) minimum spacing of slot refreshes
//	    W wait for the slot refresh to settle   C continue on a new client connection
//	  -> the replies (canonical value text, '!' + reason when the client connection failed), ',' separated
//	     | r=<redirections caused by each command> | data=<union of all key spaces>
//
// clusterRender renders a reply; errors made by the proxy or the cluster machinery are reduced to their class
// (their text contains port numbers and varies with timing).
func clusterRender(v *redis.RespValue) string {
	if v.Type == redis.Error {
		t := string(v.Text)
		switch {
		case strings.HasPrefix(t, "dial tcp"):
			if os.Getenv("VERIF_RAWERR") != "" {
				return "Edial(" + strings.ReplaceAll(t, " ", "_") + ")"
			}
			return "Edial"
		case t == "backend exited":
			return "Eexit"
		case t == "upstream exited":
			return "Eupstream"
		case strings.HasPrefix(t, "MOVED "):
			return "Emoved"
		case strings.HasPrefix(t, "ASK "):
			return "Eask"
		case strings.HasPrefix(t, "CLUSTERDOWN"):
			return "Edown"
		case strings.Contains(t, "connection reset") || strings.Contains(t, "broken pipe") || strings.Contains(t, "EOF") || strings.Contains(t, "i/o timeout"):
			return "Eio"
		}
	}
	if v.Type == redis.BulkString && len(v.Text) > 256 {
		return fmt.Sprintf("B%d.%04x", len(v.Text), redis.VerifCrc16(v.Text))
	}
	if v.Type == redis.Array && v.Array != nil {
		var parts []string
		for i := range v.Array {
			parts = append(parts, clusterRender(&v.Array[i]))
		}
		return "[" + strings.Join(parts, ",") + "]"
	}
	return hx.Render(v)
}

// clusterMix is the layout formula (64-bit wrap-around arithmetic).
func clusterMix(seed, i uint64) uint64 { return ((seed+1)*(i+7)*2654435761 + i*40503) >> 7 }

// clusterPattern generates a value: byte i is (i*31 + seed + i/251) mod 256 (contains CR, LF and NUL).
func clusterPattern(n, seed int) []byte {
	b := make([]byte, n)
	for i := range b {
		b[i] = byte(i*31 + seed + i/251)
	}
	return b
}

func clusterKey(id string) []byte {
	if strings.HasPrefix(id, "x") {
		if b, err := hx.Unhex(id[1:]); err == nil {
			return b
		}
	}
	return []byte("key:" + id)
}

func clusterVal(v string) ([]byte, bool) {
	b, err := hx.Unhex(v)
	return b, err == nil
}

func clusterRun(f []string) string {
	if len(f) < 3 {
		return "bad-op"
	}
	nodes, e1 := strconv.Atoi(f[0])
	masters, e2 := strconv.Atoi(f[1])
	if e1 != nil || e2 != nil || nodes < 1 || nodes > 8 || masters < 1 || masters > nodes {
		return "bad-op"
	}
	minRate := 8 * time.Millisecond
	if len(f) > 2 && strings.HasPrefix(f[2], "T") {
		// T<ms>: the minimum spacing of slot refreshes for this run
		ms, err := strconv.Atoi(f[2][1:])
		if err != nil || ms < 1 || ms > 2000 {
			return "bad-op"
		}
		minRate = time.Duration(ms) * time.Millisecond
		f = append(append([]string{}, f[:2]...), f[3:]...)
	}
	of, om := redis.VerifSetRefreshTimers(10*time.Second, minRate)
	defer redis.VerifSetRefreshTimers(of, om)
	// (a refresh round gives up after 5 s in the product: scripts with a frozen node — Q<n> — would take minutes)
	defer redis.VerifSetRefreshTimeout(redis.VerifSetRefreshTimeout(150 * time.Millisecond))
	fc, err := hx.NewFakeCluster(nodes)
	if err != nil {
		return "sockerr"
	}
	defer fc.Close()
	fc.Even(masters)
	toks := f[2:]
	if len(toks) > 0 && strings.HasPrefix(toks[0], "L") {
		// L<seed>: a scattered layout, 64 chunks of 256 slots each given to a master by a fixed formula (the model uses the same)
		seed, err := strconv.ParseUint(toks[0][1:], 10, 32)
		if err != nil {
			return "bad-op"
		}
		for chunk := 0; chunk < 64; chunk++ {
			o := int(clusterMix(seed, uint64(chunk)) % uint64(masters))
			for s := chunk * 256; s < (chunk+1)*256; s++ {
				fc.SetOwner(s, o)
			}
		}
		toks = toks[1:]
	}
	p, err := hx.NewRedisProc(fc, masters, pbredis.ReadStrategy_MASTER)
	if err != nil {
		return "procerr"
	}
	defer hx.DropScopes("service." + p.Name() + ".") // runs after the Stop registered below
	defer func() {
		done := make(chan struct{})
		go func() { p.Stop(); close(done) }()
		select {
		case <-done:
		case <-time.After(3 * time.Second):
		}
	}()
	var metric func(string) uint64
	refreshes := func() uint64 {
		// the refresh counters are created by the first refresh: look them up until they exist, then keep the handles
		if metric == nil {
			metric = hx.Metrics("service." + p.Name() + ".")
		}
		return metric("upstream.slots_refresh.success_total")
	}
	settle := func() { time.Sleep(70 * time.Millisecond) }
	settle() // the routing table is loaded right after start
	cl, err := hx.DialClient(p.Address())
	if err != nil {
		return "sockerr"
	}
	defer func() { cl.C.Close() }()
	var replies, redirs []string
	pipelining := false
	var okAtOpen uint64
	redirAtOpen, repliesAtOpen := 0, 0
	var pending []string
	nodeArg := func(s string) (int, bool) {
		n, err := strconv.Atoi(s)
		return n, err == nil && n >= 0 && n < nodes
	}
	// awaitRefresh: a redirection or a failed connect has triggered a slot refresh: let it finish, so that what the next command
	// sees does not depend on a race between the client and the refresh loop (nor shares a connect attempt the loop has in flight)
	awaitRefresh := func(okBefore uint64) {
		// a redirection or a failed connect has triggered a slot refresh: let it finish, so that what the
		// next command sees does not depend on a race between the client and the refresh loop
		// (60 failed attempts in a row without a success: no configured host answers any more, nothing to wait for)
		failed0 := metric("upstream.slots_refresh.failure_total")
		hopeless := func() bool {
			return metric("upstream.slots_refresh.failure_total") >= failed0+60 && refreshes() == okBefore
		}
		for k := 0; k < 600+int(minRate/(2*time.Millisecond)) && refreshes() == okBefore && !hopeless(); k++ {
			time.Sleep(2 * time.Millisecond)
		}
		// several triggers may be queued behind one another (one per redirection): wait until the refresh loop is quiet
		started := func() uint64 { refreshes(); return metric("upstream.slots_refresh.total") }
		last, quiet := started(), 0
		need := 13 + int(minRate/(2*time.Millisecond))
		for k := 0; k < 1500 && quiet < need && !hopeless(); k++ {
			time.Sleep(2 * time.Millisecond)
			if cur := started(); cur == last {
				quiet++
			} else {
				last, quiet = cur, 0
			}
		}
	}
	for _, t := range toks {
		if t == "" {
			return "bad-op"
		}
		body := t[1:]
		var args [][]byte
		switch t[0] {
		case 'g', 'l', 'i':
			args = [][]byte{[]byte(map[byte]string{'g': "get", 'l': "strlen", 'i': "incr"}[t[0]]), clusterKey(body)}
		case 's', 'n', 't', 'a':
			kv := strings.SplitN(body, ":", 2)
			if len(kv) != 2 {
				return "bad-op"
			}
			v, ok := clusterVal(kv[1])
			if !ok {
				return "bad-op"
			}
			args = [][]byte{[]byte(map[byte]string{'s': "set", 'n': "setnx", 't': "getset", 'a': "append"}[t[0]]), clusterKey(kv[0]), v}
		case 'b':
			// b<k>:<len>:<seed>  SET key k to <len> generated bytes
			parts := strings.Split(body, ":")
			if len(parts) != 3 {
				return "bad-op"
			}
			n, e1 := strconv.Atoi(parts[1])
			sd, e2 := strconv.Atoi(parts[2])
			if e1 != nil || e2 != nil || n < 0 || n > 8<<20 {
				return "bad-op"
			}
			args = [][]byte{[]byte("set"), clusterKey(parts[0]), clusterPattern(n, sd)}
		case 'd', 'e', 'm':
			args = [][]byte{[]byte(map[byte]string{'d': "del", 'e': "exists", 'm': "mget"}[t[0]])}
			for _, k := range strings.Split(body, ".") {
				args = append(args, clusterKey(k))
			}
		case 'M':
			args = [][]byte{[]byte("mset")}
			for _, kvs := range strings.Split(body, ".") {
				kv := strings.SplitN(kvs, ":", 2)
				if len(kv) != 2 {
					return "bad-op"
				}
				v, ok := clusterVal(kv[1])
				if !ok {
					return "bad-op"
				}
				args = append(args, clusterKey(kv[0]), v)
			}
		case 'X', 'U', 'Z', 'F', 'H', 'Q':
			n, ok := nodeArg(body)
			if !ok {
				return "bad-op"
			}
			switch t[0] {
			case 'X':
				fc.Nodes[n].Down()
			case 'Q':
				// the node freezes: it keeps its connections and its port, reads, and answers nothing any more
				fc.Delay(n, time.Hour)
			case 'H':
				if err := fc.Nodes[n].Hang(); err != nil {
					return "sockerr"
				}
			case 'U':
				if err := fc.Nodes[n].UpAgain(); err != nil {
					return "sockerr"
				}
			case 'Z':
				fc.Nodes[n].Reset()
			case 'F':
				fc.Failover(n)
			}
			time.Sleep(15 * time.Millisecond)
			continue
		case 'O', 'G', 'P':
			kv := strings.SplitN(body, ":", 2)
			if len(kv) != 2 {
				return "bad-op"
			}
			n, ok := nodeArg(kv[1])
			if !ok {
				return "bad-op"
			}
			switch t[0] {
			case 'O':
				fc.SetOwner(hx.SlotOf(clusterKey(kv[0])), n)
			case 'G':
				fc.Migrate(hx.SlotOf(clusterKey(kv[0])), n)
			case 'P':
				r, ok := nodeArg(kv[0])
				if !ok {
					return "bad-op"
				}
				fc.AddReplica(r, n)
			}
			continue
		case 'A':
			n, ok := nodeArg(body)
			if !ok {
				return "bad-op"
			}
			if err := fc.Nodes[n].Readdress(); err != nil {
				return "sockerr"
			}
			time.Sleep(15 * time.Millisecond)
			continue
		case 'Y':
			// Y<k>:<n>:<m>  node n believes the slot of key k belongs to node m
			parts := strings.Split(body, ":")
			if len(parts) != 3 {
				return "bad-op"
			}
			n, ok1 := nodeArg(parts[1])
			m, ok2 := nodeArg(parts[2])
			if !ok1 || !ok2 {
				return "bad-op"
			}
			fc.Believe(n, hx.SlotOf(clusterKey(parts[0])), m)
			continue
		case 'D':
			parts := strings.Split(body, ":")
			if len(parts) != 2 {
				return "bad-op"
			}
			n, ok := nodeArg(parts[0])
			ms, err := strconv.Atoi(parts[1])
			if !ok || err != nil || ms < 0 || ms > 500 {
				return "bad-op"
			}
			fc.Delay(n, time.Duration(ms)*time.Millisecond)
			continue
		case '{', '}':
			if (t == "{") == pipelining || len(t) != 1 {
				return "bad-op"
			}
			if t == "{" {
				pipelining = true
				okAtOpen = refreshes()
				redirAtOpen, _ = fc.Snapshot()
				repliesAtOpen = len(replies)
			} else {
				pipelining = false
				// read the replies of everything that was written since '{'
				for _, pa := range pending {
					cl.C.SetReadDeadline(time.Now().Add(5 * time.Second))
					v, err := cl.Reply()
					if err != nil {
						replies = append(replies, "!"+strings.ReplaceAll(err.Error(), " ", "_"))
					} else {
						replies = append(replies, clusterRender(v))
					}
					redirs = append(redirs, "0")
					_ = pa
				}
				pending = nil
				time.Sleep(40 * time.Millisecond)
				if now, _ := fc.Snapshot(); now > redirAtOpen || strings.Contains(strings.Join(replies[repliesAtOpen:], ","), "Edial") {
					awaitRefresh(okAtOpen)
				}
			}
			continue
		case 'V':
			fc.MoveKey(string(clusterKey(body)))
			continue
		case 'N':
			fc.Finalise(hx.SlotOf(clusterKey(body)))
			continue
		case 'W':
			ok0 := refreshes()
			f0 := metric("upstream.slots_refresh.failure_total")
			settle()
			// a refresh loop that is failing and retrying (it asks a random configured host, some may be gone) is given
			// the time to hit a live one: until a success, or 60 failures in a row (then no configured host answers)
			if f1 := metric("upstream.slots_refresh.failure_total"); f1 != f0 && refreshes() == ok0 {
				for k := 0; k < 1500 && refreshes() == ok0 && metric("upstream.slots_refresh.failure_total") < f0+60; k++ {
					time.Sleep(2 * time.Millisecond)
				}
				if refreshes() != ok0 {
					time.Sleep(5 * time.Millisecond)
				}
			}
			continue
		case 'C':
			cl.C.Close()
			cl, err = hx.DialClient(p.Address())
			if err != nil {
				return "sockerr"
			}
			continue
		default:
			return "bad-op"
		}
		if pipelining {
			if err := cl.Write(args...); err != nil {
				return "sockerr"
			}
			pending = append(pending, t)
			continue
		}
		before, _ := fc.Snapshot()
		okBefore := refreshes()
		v, err := cl.Do(args...)
		after, _ := fc.Snapshot()
		redirs = append(redirs, strconv.Itoa(after-before))
		if err != nil {
			replies = append(replies, "!"+strings.ReplaceAll(strings.ReplaceAll(err.Error(), " ", "_"), ",", ";"))
			cl.C.Close()
			cl, err = hx.DialClient(p.Address())
			if err != nil {
				return "sockerr"
			}
			continue
		}
		rendered := clusterRender(v)
		replies = append(replies, rendered)
		if after > before || strings.Contains(rendered, "Edial") || strings.Contains(rendered, hx.Hex([]byte("finished with "))) {
			awaitRefresh(okBefore)
		}
	}
	if pipelining {
		return "bad-op" // '{' without '}'
	}
	out := strings.Join(replies, ",")
	if out == "" {
		out = "-"
	}
	return fmt.Sprintf("%s | r=%s | data=%s", out, strings.Join(redirs, ","), fc.Dump())
}
