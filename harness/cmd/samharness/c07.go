package main

import (
	"fmt"
	"os"
	"sort"
	"strconv"
	"strings"
	"syscall"
	"time"

	pbredis "github.com/samaritan-proxy/samaritan/pb/config/protocol/redis"
	"github.com/samaritan-proxy/samaritan/proc/redis"

	"verifharness/hx"
)

// C07: the proxy heals after connection loss and topology change (script language: cluster.go).
type c07 struct{}

func init() { props["C07"] = func() hx.Prop { return c07{} } }

func (c07) Rule() string {
	return "request streams against a scripted 3..4-node cluster over real sockets with backend connections reset, nodes going down and coming back on the same address, first connects refused, " +
		"and slots handed to another node behind the proxy's back; 4..30 steps. Non-trivial = contains a fault or a layout change; distinct by op line"
}

// c07.hol   head of line: a connect to node 2 hangs (its backlog is full) while the connection to node 0 is lost; a second client
// then asks for a key of node 0, which is up.   -> during=<reply while the connect to node 2 is pending> after=<reply once it has timed out>
// c07UserTimeout: the TCP user timeout of the connections the proxy holds to its backends, read from this process's own sockets
// (those whose peer is a node's address).  Without it a connection whose peer vanished without FIN/RST (or only stopped reading)
// stays in the connection table for the kernel's retransmission time (about 15 minutes), and every request for that node
// queues behind it although the node accepts new connections.   -> uto=<ms of each such connection, sorted> | none
func c07UserTimeout() string {
	fc, err := hx.NewFakeCluster(2)
	if err != nil {
		return "sockerr"
	}
	defer fc.Close()
	for s := 0; s < 16384; s++ {
		fc.SetOwner(s, s%2)
	}
	p, err := hx.NewRedisProc(fc, 2, pbredis.ReadStrategy_MASTER)
	if err != nil {
		return "procerr"
	}
	defer hx.DropScopes("service." + p.Name() + ".")
	defer func() {
		done := make(chan struct{})
		go func() { p.Stop(); close(done) }()
		select {
		case <-done:
		case <-time.After(3 * time.Second):
		}
	}()
	time.Sleep(70 * time.Millisecond)
	c1, err := hx.DialClient(p.Address())
	if err != nil {
		return "sockerr"
	}
	defer c1.C.Close()
	for _, k := range []string{"a", "b", "c", "d"} {
		if _, err := c1.Do([]byte("get"), clusterKey(k)); err != nil {
			return "setup-failed"
		}
	}
	nodes := map[string]bool{}
	for _, n := range fc.Nodes {
		nodes[n.Addr] = true
	}
	ents, err := os.ReadDir("/proc/self/fd")
	if err != nil {
		return "no-procfs"
	}
	var outs []int
	for _, e := range ents {
		fd, err := strconv.Atoi(e.Name())
		if err != nil {
			continue
		}
		sa, err := syscall.Getpeername(fd)
		if err != nil {
			continue
		}
		in4, ok := sa.(*syscall.SockaddrInet4)
		if !ok {
			continue
		}
		if !nodes[fmt.Sprintf("%d.%d.%d.%d:%d", in4.Addr[0], in4.Addr[1], in4.Addr[2], in4.Addr[3], in4.Port)] {
			continue
		}
		v, err := syscall.GetsockoptInt(fd, syscall.IPPROTO_TCP, 18 /* TCP_USER_TIMEOUT */)
		if err != nil {
			continue
		}
		outs = append(outs, v)
	}
	if len(outs) == 0 {
		return "none"
	}
	sort.Ints(outs)
	var ss []string
	for _, v := range outs {
		ss = append(ss, strconv.Itoa(v))
	}
	return "uto=" + strings.Join(ss, ",")
}

func c07HeadOfLine() string {
	fc, err := hx.NewFakeCluster(3)
	if err != nil {
		return "sockerr"
	}
	defer fc.Close()
	per := 16384 / 3
	for s := 0; s < 16384; s++ {
		o := s / per
		if o > 2 {
			o = 2
		}
		fc.SetOwner(s, o)
	}
	p, err := hx.NewRedisProc(fc, 3, pbredis.ReadStrategy_MASTER)
	if err != nil {
		return "procerr"
	}
	defer hx.DropScopes("service." + p.Name() + ".")
	defer func() {
		done := make(chan struct{})
		go func() { p.Stop(); close(done) }()
		select {
		case <-done:
		case <-time.After(3 * time.Second):
		}
	}()
	time.Sleep(70 * time.Millisecond) // the routing table is loaded right after start
	kb := keysByNode()
	k0, k2 := clusterKey(kb[0][0]), clusterKey(kb[2][0])
	c1, err := hx.DialClient(p.Address())
	if err != nil {
		return "sockerr"
	}
	defer c1.C.Close()
	if v, err := c1.Do([]byte("set"), k0, []byte("v0")); err != nil || clusterRender(v) != "s4f4b" {
		return "setup-failed"
	}
	if err := fc.Nodes[2].Hang(); err != nil {
		return "sockerr"
	}
	time.Sleep(20 * time.Millisecond)
	// client 1 asks for a key of node 2: its session sits in the connect (300 ms)
	if err := c1.Write([]byte("get"), k2); err != nil {
		return "sockerr"
	}
	time.Sleep(50 * time.Millisecond)
	fc.Nodes[0].Reset() // the connection to node 0 is lost; node 0 keeps listening
	time.Sleep(50 * time.Millisecond)
	c2, err := hx.DialClient(p.Address())
	if err != nil {
		return "sockerr"
	}
	defer c2.C.Close()
	render := func(v *redis.RespValue, err error) string {
		if err != nil {
			return "!" + strings.ReplaceAll(err.Error(), " ", "_")
		}
		return clusterRender(v)
	}
	during := render(c2.Do([]byte("get"), k0))
	c1.Reply() // the connect has timed out
	time.Sleep(30 * time.Millisecond)
	after := render(c2.Do([]byte("get"), k0))
	return fmt.Sprintf("during=%s after=%s", during, after)
}

func (c07) Exec(op string) string {
	f := hx.Fields(op)
	if len(f) == 1 && f[0] == "c07.uto" {
		return recoverStr(c07UserTimeout)
	}
	if len(f) == 1 && f[0] == "c07.hol" {
		return recoverStr(c07HeadOfLine)
	}
	if len(f) < 4 || f[0] != "c07.cl" {
		return "bad-op"
	}
	return recoverStr(func() string { return clusterRun(f[1:]) })
}

func (c07) Gen(r *hx.Run) {
	rng := r.Rng
	basic := []string{
		"3 3 sa:31 ga", "3 3 sa:31 Z0 Z1 Z2 ga ga", "3 3 sa:31 sb:32 sc:33 Z0 Z1 Z2 ga gb gc ga gb gc",
		"3 3 sa:31 X0 X1 X2 ga U0 U1 U2 W ga ga", "3 3 sa:31 sb:32 sc:33 X0 X1 X2 ga gb gc U0 U1 U2 W ga gb gc ga gb gc",
		"3 3 X0 X1 X2 sa:31 U0 U1 U2 W sa:31 ga", "3 3 sa:31 Oa:0 ga W ga ga", "3 3 sa:31 Oa:1 ga W ga ga", "3 3 sa:31 Oa:2 ga W ga ga",
		"3 3 sa:31 sb:32 Oa:1 Ob:2 ga gb W ga gb ga gb", "4 3 sa:31 Oa:3 ga W ga ga sa:32 ga",
		// a node comes back on another address under the same node id
		"3 3 sa:31 sb:32 sc:33 A0 ga gb gc W ga gb gc", "3 3 sa:31 sb:32 sc:33 A1 A2 ga gb gc ga gb gc W ga gb gc", "3 3 sa:31 A0 A1 A2 ga W ga A0 A1 A2 ga W ga",
		// two layout changes closer together than the minimum spacing of refreshes
		"3 3 T150 sa:31 sb:32 Oa:1 ga Ob:2 gb W W gb ga gb", "3 3 T150 sa:31 sb:32 sc:33 Oa:1 ga Ob:2 gb Oc:0 gc W W ga gb gc", "3 3 T300 sa:31 Oa:1 ga Oa:2 ga W W W ga ga",
		"3 3 T400 sa:31 Oa:1 ga W W ga ga", "3 3 T400 sa:31 sb:32 Oa:1 Ob:2 ga W gb W ga gb", "3 3 T400 sa:31 Oa:2 ga W ga Oa:0 ga W W ga",
	}
	// a node freezes (keeps its connection, answers nothing); a slot of another node is handed over behind the proxy's back: the refresh
	// the redirection triggers may ask the frozen node — the round is given up and the next one asks another node (F-07g)
	kbq := keysByNode()
	for i := 0; i < r.N(6, 30); i++ {
		fz := rng.Intn(3)
		from := (fz + 1) % 3
		to := (fz + 2) % 3
		k := kbq[from][rng.Intn(len(kbq[from]))]
		basic = append(basic, fmt.Sprintf("3 3 T20 s%s:31 Q%d O%s:%d g%s W g%s g%s", k, fz, k, to, k, k, k))
	}
	// connections to two nodes are lost while a connect to a third one is pending (it neither succeeds nor is refused)
	kb := keysByNode()
	for _, p := range [][3]int{{0, 1, 2}, {1, 2, 0}, {0, 2, 1}} {
		a, b, c := kb[p[0]][0], kb[p[1]][0], kb[p[2]][0]
		basic = append(basic,
			fmt.Sprintf("3 3 W s%s:31 s%s:32 s%s:33 H%d { g%s W Z%d Z%d } W g%s g%s g%s g%s U%d W g%s", a, b, c, p[2], c, p[0], p[1], a, b, a, b, p[2], c),
			fmt.Sprintf("3 3 W s%s:31 s%s:32 H%d { s%s:34 W Z%d W Z%d } g%s g%s U%d W g%s g%s", a, b, p[2], c, p[1], p[0], b, a, p[2], c, a))
	}
	for _, b := range basic {
		r.Do("c07.cl "+b, true, "basic")
	}
	r.Do("c07.uto", true, "user-timeout")
	// a request for a reachable node while a connect to another node hangs (F-07e)
	for i := 0; i < r.N(2, 12); i++ {
		r.Do("c07.hol", true, "head-of-line")
	}
	keys := []string{"a", "b", "c", "d", "e", "f", "g1", "h22"}
	for i := 0; i < r.N(40, 1200); i++ {
		n := 4 + rng.Intn(20)
		down := map[int]bool{}
		var toks []string
		for j := 0; j < n; j++ {
			k := keys[rng.Intn(len(keys))]
			switch x := rng.Intn(20); {
			case x < 7:
				toks = append(toks, "g"+k)
			case x < 11:
				toks = append(toks, fmt.Sprintf("s%s:%02x", k, 0x30+rng.Intn(10)))
			case x < 12:
				toks = append(toks, "i"+k+"n")
			case x < 14:
				toks = append(toks, fmt.Sprintf("Z%d", rng.Intn(3)))
			case x < 16:
				nd := rng.Intn(3)
				if down[nd] {
					toks = append(toks, fmt.Sprintf("U%d", nd), "W")
					down[nd] = false
				} else {
					toks = append(toks, fmt.Sprintf("X%d", nd))
					down[nd] = true
				}
			case x < 17:
				toks = append(toks, fmt.Sprintf("O%s:%d", k, rng.Intn(3)))
			case x < 18:
				nd := rng.Intn(3)
				if !down[nd] {
					toks = append(toks, fmt.Sprintf("A%d", nd))
				}
			default:
				toks = append(toks, "W")
			}
		}
		for nd := range down {
			if down[nd] {
				toks = append(toks, fmt.Sprintf("U%d", nd))
			}
		}
		toks = append(toks, "W")
		for _, k := range keys[:4] {
			toks = append(toks, "g"+k)
		}
		line := "c07.cl 3 3 " + strings.Join(toks, " ")
		r.Do(line, strings.ContainsAny(line, "XZOA"), "hist")
	}
}
