package main

import (
	"fmt"
	"strings"

	"verifharness/hx"
)

// C07: the proxy heals after connection loss and topology change (script language: cluster.go).
type c07 struct{}

func init() { props["C07"] = func() hx.Prop { return c07{} } }

func (c07) Rule() string {
	return "request streams against a scripted 3..4-node cluster over real sockets with backend connections reset, nodes going down and coming back on the same address, first connects refused, " +
		"and slots handed to another node behind the proxy's back; 4..30 steps. Non-trivial = contains a fault or a layout change; distinct by op line"
}

func (c07) Exec(op string) string {
	f := hx.Fields(op)
	if len(f) < 4 || f[0] != "c07.cl" {
		return "bad-op"
	}
	return recoverStr(func() string { return clusterRun(f[1:]) })
}

func (c07) Gen(r *hx.Run) {
	rng := r.Rng
	basic := []string{
		"3 3 sa:31 ga", "3 3 sa:31 Z0 Z1 Z2 ga ga", "3 3 sa:31 sb:32 sc:33 Z0 Z1 Z2 ga gb gc ga gb gc",
		"3 3 sa:31 X0 X1 X2 ga U0 U1 U2 W ga ga", "3 3 sa:31 sb:32 sc:33 X0 X1 X2 ga gb gc U0 U1 U2 W ga gb gc ga gb gc",
		"3 3 X0 X1 X2 sa:31 U0 U1 U2 W sa:31 ga", "3 3 sa:31 Oa:0 ga W ga ga", "3 3 sa:31 Oa:1 ga W ga ga", "3 3 sa:31 Oa:2 ga W ga ga",
		"3 3 sa:31 sb:32 Oa:1 Ob:2 ga gb W ga gb ga gb", "4 3 sa:31 Oa:3 ga W ga ga sa:32 ga",
		// a node comes back on another address under the same node id
		"3 3 sa:31 sb:32 sc:33 A0 ga gb gc W ga gb gc", "3 3 sa:31 sb:32 sc:33 A1 A2 ga gb gc ga gb gc W ga gb gc", "3 3 sa:31 A0 A1 A2 ga W ga A0 A1 A2 ga W ga",
		// two layout changes closer together than the minimum spacing of refreshes
		"3 3 T150 sa:31 sb:32 Oa:1 ga Ob:2 gb W W gb ga gb", "3 3 T150 sa:31 sb:32 sc:33 Oa:1 ga Ob:2 gb Oc:0 gc W W ga gb gc", "3 3 T300 sa:31 Oa:1 ga Oa:2 ga W W W ga ga",
		"3 3 T400 sa:31 Oa:1 ga W W ga ga", "3 3 T400 sa:31 sb:32 Oa:1 Ob:2 ga W gb W ga gb", "3 3 T400 sa:31 Oa:2 ga W ga Oa:0 ga W W ga",
	}
	// connections to two nodes are lost while a connect to a third one is pending (it neither succeeds nor is refused)
	kb := keysByNode()
	for _, p := range [][3]int{{0, 1, 2}, {1, 2, 0}, {0, 2, 1}} {
		a, b, c := kb[p[0]][0], kb[p[1]][0], kb[p[2]][0]
		basic = append(basic,
			fmt.Sprintf("3 3 W s%s:31 s%s:32 s%s:33 H%d { g%s W Z%d Z%d } W g%s g%s g%s g%s U%d W g%s", a, b, c, p[2], c, p[0], p[1], a, b, a, b, p[2], c),
			fmt.Sprintf("3 3 W s%s:31 s%s:32 H%d { s%s:34 W Z%d W Z%d } g%s g%s U%d W g%s g%s", a, b, p[2], c, p[1], p[0], b, a, p[2], c, a))
	}
	for _, b := range basic {
		r.Do("c07.cl "+b, true, "basic")
	}
	keys := []string{"a", "b", "c", "d", "e", "f", "g1", "h22"}
	for i := 0; i < r.N(40, 1200); i++ {
		n := 4 + rng.Intn(20)
		down := map[int]bool{}
		var toks []string
		for j := 0; j < n; j++ {
			k := keys[rng.Intn(len(keys))]
			switch x := rng.Intn(20); {
			case x < 7:
				toks = append(toks, "g"+k)
			case x < 11:
				toks = append(toks, fmt.Sprintf("s%s:%02x", k, 0x30+rng.Intn(10)))
			case x < 12:
				toks = append(toks, "i"+k+"n")
			case x < 14:
				toks = append(toks, fmt.Sprintf("Z%d", rng.Intn(3)))
			case x < 16:
				nd := rng.Intn(3)
				if down[nd] {
					toks = append(toks, fmt.Sprintf("U%d", nd), "W")
					down[nd] = false
				} else {
					toks = append(toks, fmt.Sprintf("X%d", nd))
					down[nd] = true
				}
			case x < 17:
				toks = append(toks, fmt.Sprintf("O%s:%d", k, rng.Intn(3)))
			case x < 18:
				nd := rng.Intn(3)
				if !down[nd] {
					toks = append(toks, fmt.Sprintf("A%d", nd))
				}
			default:
				toks = append(toks, "W")
			}
		}
		for nd := range down {
			if down[nd] {
				toks = append(toks, fmt.Sprintf("U%d", nd))
			}
		}
		toks = append(toks, "W")
		for _, k := range keys[:4] {
			toks = append(toks, "g"+k)
		}
		line := "c07.cl 3 3 " + strings.Join(toks, " ")
		r.Do(line, strings.ContainsAny(line, "XZOA"), "hist")
	}
}
