package main

import (
	"fmt"
	"runtime"
	"strings"
	"sync"
	"time"

	pbredis "github.com/samaritan-proxy/samaritan/pb/config/protocol/redis"
	"github.com/samaritan-proxy/samaritan/proc/redis"

	"verifharness/hx"
)

// C04: slot migration and failover are invisible to clients (script language: cluster.go).
// c04.strict runs the same script and applies the property to the letter (including the recorded finding F-04c).
type c04 struct{}

func init() { props["C04"] = func() hx.Prop { return c04{} } }

func (c04) Rule() string {
	return "command sequences against a scripted 4-node cluster (3 masters) over real sockets while slots are migrated key by key (migrating/importing, individual keys moved, ownership finalised), " +
		"handed over at once, and masters replaced by replicas; 4..30 steps over 8 keys spread over all nodes. Non-trivial = a command is issued while its slot is migrating or after a hand-over the proxy has not heard of; distinct by op line"
}

// c04.askpair   slot of key ka is migrating from node 0 to node 1 and ka is not on node 0 any more; client 1 pipelines SET ka v1, GET ka.
// The read loop of node 0's connection follows the ASK: ASKING, then the command.  If it hands them to node 1's connection in two
// steps it is parked between the two (pause point upstream.request.checked reached from handleRedirection for the second time — since
// cf7dbc3 there is only one step, nothing parks); client 2 then asks node 1 for kb; 300 ms later a parked resend goes on.
// ASKING counts for the next command only: whatever gets between the two takes it.
//
//	-> c1=<reply of SET>,<reply of GET> c2=<reply of GET kb> final=<GET ka afterwards>
func c04AskPair() string {
	fc, err := hx.NewFakeCluster(2)
	if err != nil {
		return "sockerr"
	}
	defer fc.Close()
	for s := 0; s < 16384; s++ {
		fc.SetOwner(s, s%2)
	}
	var ka, kb []byte
	for i := 0; ka == nil || kb == nil; i++ {
		k := []byte(fmt.Sprintf("key:p%d", i))
		if hx.SlotOf(k)%2 == 0 && ka == nil {
			ka = k
		} else if hx.SlotOf(k)%2 == 1 && kb == nil {
			kb = k
		}
	}
	p, err := hx.NewRedisProc(fc, 2, pbredis.ReadStrategy_MASTER)
	if err != nil {
		return "procerr"
	}
	defer hx.DropScopes("service." + p.Name() + ".")
	defer func() {
		done := make(chan struct{})
		go func() { p.Stop(); close(done) }()
		select {
		case <-done:
		case <-time.After(3 * time.Second):
		}
	}()
	time.Sleep(70 * time.Millisecond)
	c1, err := hx.DialClient(p.Address())
	if err != nil {
		return "sockerr"
	}
	defer c1.C.Close()
	c2, err := hx.DialClient(p.Address())
	if err != nil {
		return "sockerr"
	}
	defer c2.C.Close()
	if v, err := c2.Do([]byte("set"), kb, []byte("vb")); err != nil || clusterRender(v) != "s4f4b" {
		return "setup-failed"
	}
	fc.Migrate(hx.SlotOf(ka), 1)
	var mu sync.Mutex
	n := 0
	reached, release := make(chan struct{}), make(chan struct{})
	redis.VerifSetPause(func(point string, obj interface{}) {
		if point != "upstream.request.checked" {
			return
		}
		var pcs [32]uintptr
		k := runtime.Callers(2, pcs[:])
		fr := runtime.CallersFrames(pcs[:k])
		for {
			f, more := fr.Next()
			if strings.HasSuffix(f.Function, "(*upstream).handleRedirection") {
				mu.Lock()
				n++
				park := n == 2
				mu.Unlock()
				if park {
					close(reached)
					<-release
				}
				return
			}
			if !more {
				return
			}
		}
	})
	defer redis.VerifSetPause(nil)
	if err := c1.Write([]byte("set"), ka, []byte("v1")); err != nil {
		return "sockerr"
	}
	select {
	case <-reached:
	case <-time.After(400 * time.Millisecond):
		// the pair went to node 1's connection in one step
	}
	if err := c1.Write([]byte("get"), ka); err != nil {
		close(release)
		return "sockerr"
	}
	r2 := make(chan string, 1)
	go func() {
		v, err := c2.Do([]byte("get"), kb)
		if err != nil {
			r2 <- "!" + err.Error()
			return
		}
		r2 <- clusterRender(v)
	}()
	time.Sleep(300 * time.Millisecond)
	close(release)
	out := []string{}
	for i := 0; i < 2; i++ {
		c1.C.SetReadDeadline(time.Now().Add(3 * time.Second))
		v, err := c1.Reply()
		if err != nil {
			out = append(out, "!none")
			break
		}
		out = append(out, clusterRender(v))
	}
	got2 := "!none"
	select {
	case got2 = <-r2:
	case <-time.After(3 * time.Second):
	}
	fin := "!none"
	c1.C.SetReadDeadline(time.Now().Add(3 * time.Second))
	if v, err := c1.Do([]byte("get"), ka); err == nil {
		fin = clusterRender(v)
	}
	return fmt.Sprintf("c1=%s c2=%s final=%s", strings.Join(out, ","), got2, fin)
}

func (c04) Exec(op string) string {
	f := hx.Fields(op)
	if len(f) == 1 && f[0] == "c04.askpair" {
		return recoverStr(c04AskPair)
	}
	if len(f) < 4 || (f[0] != "c04.cl" && f[0] != "c04.strict") {
		return "bad-op"
	}
	return recoverStr(func() string { return clusterRun(f[1:]) })
}

// keysByNode returns key ids whose slot belongs to each of the 3 masters of an even layout.
func keysByNode() [3][]string {
	var out [3][]string
	for i := 0; i < 400 && (len(out[0]) < 4 || len(out[1]) < 4 || len(out[2]) < 4); i++ {
		id := fmt.Sprintf("q%d", i)
		o := hx.SlotOf(clusterKey(id)) / (16384 / 3)
		if o > 2 {
			o = 2
		}
		if len(out[o]) < 4 {
			out[o] = append(out[o], id)
		}
	}
	return out
}

func (c04) Gen(r *hx.Run) {
	for i := 0; i < r.N(2, 10); i++ {
		r.Do("c04.askpair", true, "asking-pair")
	}
	rng := r.Rng
	kb := keysByNode()
	a, b := kb[0][0], kb[1][0]
	basic := []string{
		fmt.Sprintf("4 3 s%s:31 G%s:1 g%s V%s g%s s%s:32 N%s g%s W g%s", a, a, a, a, a, a, a, a, a),
		fmt.Sprintf("4 3 G%s:2 g%s s%s:31 g%s N%s g%s W g%s", a, a, a, a, a, a, a),
		fmt.Sprintf("4 3 s%s:31 s%s:32 G%s:1 V%s m%s.%s d%s.%s m%s.%s", a, b, a, a, a, b, a, b, a, b),
		fmt.Sprintf("4 3 s%s:31 O%s:2 g%s a%s:32 W g%s", a, a, a, a, a),
		fmt.Sprintf("4 3 P3:0 s%s:31 F3 g%s W g%s g%s", a, a, a, a),
		fmt.Sprintf("4 3 P3:0 s%s:31 s%s:32 F3 g%s g%s W g%s g%s s%s:33 g%s", a, b, b, a, a, b, a, a),
		fmt.Sprintf("4 3 s%s:31 G%s:1 i%sn V%sn i%sn N%s i%sn", a, a, a, a, a, a, a),
	}
	c := kb[2][0]
	basic = append(basic,
		// three redirections for one command: stale table → a node with a lagging view → the owner, which is migrating the slot
		fmt.Sprintf("4 3 O%s:2 Y%s:0:1 G%s:3 g%s s%s:31 g%s N%s W g%s", a, a, a, a, a, a, a, a),
		fmt.Sprintf("4 3 s%s:31 O%s:2 Y%s:0:1 G%s:3 V%s g%s a%s:32 g%s", a, a, a, a, a, a, a, a),
		// a redirected command while the target's connection carries other traffic whose replies are still outstanding
		fmt.Sprintf("4 3 s%s:32 s%s:35 G%s:1 D1:60 { g%s g%s s%s:33 g%s g%s } D1:0 g%s g%s", b, c, a, b, a, a, b, a, a, b),
		fmt.Sprintf("4 3 s%s:32 G%s:1 D1:40 D0:10 { s%s:31 g%s s%s:34 g%s g%s } g%s", b, a, a, b, a, a, b, a),
	)
	basic = append(basic,
		// the owner of a key goes away and comes back on its address; a migration target does; errors only in between
		fmt.Sprintf("4 3 s%s:31 X1 g%s U1 g%s g%s", b, b, b, b),
		fmt.Sprintf("4 3 s%s:31 G%s:1 X1 s%sq:32 U1 s%sq:33 g%sq N%s g%s", a, a, a, a, a, a, a),
		fmt.Sprintf("4 3 s%s:31 O%s:1 X1 g%s U1 g%s W g%s", a, a, a, a, a),
	)
	// a burst of pipelined writes to one key, all redirected (ASK) to a node the proxy has never talked to: they must be
	// executed there in the order they were sent
	for _, k := range []string{a, b} {
		var sets []string
		for i := 0; i < 20; i++ {
			sets = append(sets, fmt.Sprintf("s%s:%02x", k, 0x41+i))
		}
		basic = append(basic,
			fmt.Sprintf("4 3 G%s:3 { %s g%s } g%s", k, strings.Join(sets, " "), k, k),
			fmt.Sprintf("4 3 s%s:30 G%s:3 V%s { %s g%s } N%s W g%s", k, k, k, strings.Join(sets[:12], " "), k, k, k))
	}
	for _, s := range basic {
		r.Do("c04.cl "+s, true, "basic")
	}
	var keys []string
	for _, l := range kb {
		keys = append(keys, l[:3]...)
	}
	for i := 0; i < r.N(40, 1500); i++ {
		n := 4 + rng.Intn(22)
		var toks []string
		migrating := map[string]bool{}
		failed := false
		down := -1
		// a slot is never handed to the master that has been replaced (it is down for good)
		target := func() int {
			if failed {
				return 1 + rng.Intn(2)
			}
			return rng.Intn(3)
		}
		for j := 0; j < n; j++ {
			k := keys[rng.Intn(len(keys))]
			switch x := rng.Intn(24); {
			case x < 6:
				toks = append(toks, "g"+k)
			case x < 10:
				toks = append(toks, fmt.Sprintf("s%s:%02x", k, 0x30+rng.Intn(10)))
			case x < 11:
				toks = append(toks, fmt.Sprintf("a%s:%02x", k, 0x41+rng.Intn(6)))
			case x < 12:
				toks = append(toks, "d"+k+"."+keys[rng.Intn(len(keys))])
			case x < 13:
				toks = append(toks, "m"+k+"."+keys[rng.Intn(len(keys))]+"."+keys[rng.Intn(len(keys))])
			case x < 14:
				toks = append(toks, fmt.Sprintf("M%s:%02x.%s:%02x", k, 0x61+rng.Intn(6), keys[rng.Intn(len(keys))], 0x61+rng.Intn(6)))
			case x < 17:
				toks = append(toks, fmt.Sprintf("G%s:%d", k, target()))
				migrating[k] = true
			case x < 19:
				toks = append(toks, "V"+k)
			case x < 21:
				toks = append(toks, "N"+k)
			case x < 22:
				toks = append(toks, fmt.Sprintf("O%s:%d", k, target()))
			case x < 23 && !failed:
				toks = append([]string{"P3:0"}, toks...)
				toks = append(toks, "F3")
				failed = true
			default:
				// a master goes away and comes back on its address: errors are justified only in between
				switch y := rng.Intn(3); {
				case y == 0 && down < 0 && !failed:
					down = 1 + rng.Intn(2)
					toks = append(toks, fmt.Sprintf("X%d", down))
				case y == 1 && down >= 0:
					toks = append(toks, fmt.Sprintf("U%d", down))
					down = -1
				default:
					toks = append(toks, "W")
				}
			}
		}
		if down >= 0 {
			toks = append(toks, fmt.Sprintf("U%d", down))
		}
		toks = append(toks, "W")
		for _, k := range keys[:5] {
			toks = append(toks, "g"+k)
		}
		line := "c04.cl 4 3 " + strings.Join(toks, " ")
		r.Do(line, strings.ContainsAny(line, "GOFX"), "hist")
	}
}
