package main

import (
	"fmt"
	"strings"

	"verifharness/hx"
)

// C04: slot migration and failover are invisible to clients (script language: cluster.go).
// c04.strict runs the same script and applies the property to the letter (including the recorded finding F-04c).
type c04 struct{}

func init() { props["C04"] = func() hx.Prop { return c04{} } }

func (c04) Rule() string {
	return "command sequences against a scripted 4-node cluster (3 masters) over real sockets while slots are migrated key by key (migrating/importing, individual keys moved, ownership finalised), " +
		"handed over at once, and masters replaced by replicas; 4..30 steps over 8 keys spread over all nodes. Non-trivial = a command is issued while its slot is migrating or after a hand-over the proxy has not heard of; distinct by op line"
}

func (c04) Exec(op string) string {
	f := hx.Fields(op)
	if len(f) < 4 || (f[0] != "c04.cl" && f[0] != "c04.strict") {
		return "bad-op"
	}
	return recoverStr(func() string { return clusterRun(f[1:]) })
}

// keysByNode returns key ids whose slot belongs to each of the 3 masters of an even layout.
func keysByNode() [3][]string {
	var out [3][]string
	for i := 0; i < 400 && (len(out[0]) < 4 || len(out[1]) < 4 || len(out[2]) < 4); i++ {
		id := fmt.Sprintf("q%d", i)
		o := hx.SlotOf(clusterKey(id)) / (16384 / 3)
		if o > 2 {
			o = 2
		}
		if len(out[o]) < 4 {
			out[o] = append(out[o], id)
		}
	}
	return out
}

func (c04) Gen(r *hx.Run) {
	rng := r.Rng
	kb := keysByNode()
	a, b := kb[0][0], kb[1][0]
	basic := []string{
		fmt.Sprintf("4 3 s%s:31 G%s:1 g%s V%s g%s s%s:32 N%s g%s W g%s", a, a, a, a, a, a, a, a, a),
		fmt.Sprintf("4 3 G%s:2 g%s s%s:31 g%s N%s g%s W g%s", a, a, a, a, a, a, a),
		fmt.Sprintf("4 3 s%s:31 s%s:32 G%s:1 V%s m%s.%s d%s.%s m%s.%s", a, b, a, a, a, b, a, b, a, b),
		fmt.Sprintf("4 3 s%s:31 O%s:2 g%s a%s:32 W g%s", a, a, a, a, a),
		fmt.Sprintf("4 3 P3:0 s%s:31 F3 g%s W g%s g%s", a, a, a, a),
		fmt.Sprintf("4 3 P3:0 s%s:31 s%s:32 F3 g%s g%s W g%s g%s s%s:33 g%s", a, b, b, a, a, b, a, a),
		fmt.Sprintf("4 3 s%s:31 G%s:1 i%sn V%sn i%sn N%s i%sn", a, a, a, a, a, a, a),
	}
	c := kb[2][0]
	basic = append(basic,
		// three redirections for one command: stale table → a node with a lagging view → the owner, which is migrating the slot
		fmt.Sprintf("4 3 O%s:2 Y%s:0:1 G%s:3 g%s s%s:31 g%s N%s W g%s", a, a, a, a, a, a, a, a),
		fmt.Sprintf("4 3 s%s:31 O%s:2 Y%s:0:1 G%s:3 V%s g%s a%s:32 g%s", a, a, a, a, a, a, a, a),
		// a redirected command while the target's connection carries other traffic whose replies are still outstanding
		fmt.Sprintf("4 3 s%s:32 s%s:35 G%s:1 D1:60 { g%s g%s s%s:33 g%s g%s } D1:0 g%s g%s", b, c, a, b, a, a, b, a, a, b),
		fmt.Sprintf("4 3 s%s:32 G%s:1 D1:40 D0:10 { s%s:31 g%s s%s:34 g%s g%s } g%s", b, a, a, b, a, a, b, a),
	)
	basic = append(basic,
		// the owner of a key goes away and comes back on its address; a migration target does; errors only in between
		fmt.Sprintf("4 3 s%s:31 X1 g%s U1 g%s g%s", b, b, b, b),
		fmt.Sprintf("4 3 s%s:31 G%s:1 X1 s%sq:32 U1 s%sq:33 g%sq N%s g%s", a, a, a, a, a, a, a),
		fmt.Sprintf("4 3 s%s:31 O%s:1 X1 g%s U1 g%s W g%s", a, a, a, a, a),
	)
	// a burst of pipelined writes to one key, all redirected (ASK) to a node the proxy has never talked to: they must be
	// executed there in the order they were sent
	for _, k := range []string{a, b} {
		var sets []string
		for i := 0; i < 20; i++ {
			sets = append(sets, fmt.Sprintf("s%s:%02x", k, 0x41+i))
		}
		basic = append(basic,
			fmt.Sprintf("4 3 G%s:3 { %s g%s } g%s", k, strings.Join(sets, " "), k, k),
			fmt.Sprintf("4 3 s%s:30 G%s:3 V%s { %s g%s } N%s W g%s", k, k, k, strings.Join(sets[:12], " "), k, k, k))
	}
	for _, s := range basic {
		r.Do("c04.cl "+s, true, "basic")
	}
	var keys []string
	for _, l := range kb {
		keys = append(keys, l[:3]...)
	}
	for i := 0; i < r.N(40, 1500); i++ {
		n := 4 + rng.Intn(22)
		var toks []string
		migrating := map[string]bool{}
		failed := false
		down := -1
		// a slot is never handed to the master that has been replaced (it is down for good)
		target := func() int {
			if failed {
				return 1 + rng.Intn(2)
			}
			return rng.Intn(3)
		}
		for j := 0; j < n; j++ {
			k := keys[rng.Intn(len(keys))]
			switch x := rng.Intn(24); {
			case x < 6:
				toks = append(toks, "g"+k)
			case x < 10:
				toks = append(toks, fmt.Sprintf("s%s:%02x", k, 0x30+rng.Intn(10)))
			case x < 11:
				toks = append(toks, fmt.Sprintf("a%s:%02x", k, 0x41+rng.Intn(6)))
			case x < 12:
				toks = append(toks, "d"+k+"."+keys[rng.Intn(len(keys))])
			case x < 13:
				toks = append(toks, "m"+k+"."+keys[rng.Intn(len(keys))]+"."+keys[rng.Intn(len(keys))])
			case x < 14:
				toks = append(toks, fmt.Sprintf("M%s:%02x.%s:%02x", k, 0x61+rng.Intn(6), keys[rng.Intn(len(keys))], 0x61+rng.Intn(6)))
			case x < 17:
				toks = append(toks, fmt.Sprintf("G%s:%d", k, target()))
				migrating[k] = true
			case x < 19:
				toks = append(toks, "V"+k)
			case x < 21:
				toks = append(toks, "N"+k)
			case x < 22:
				toks = append(toks, fmt.Sprintf("O%s:%d", k, target()))
			case x < 23 && !failed:
				toks = append([]string{"P3:0"}, toks...)
				toks = append(toks, "F3")
				failed = true
			default:
				// a master goes away and comes back on its address: errors are justified only in between
				switch y := rng.Intn(3); {
				case y == 0 && down < 0 && !failed:
					down = 1 + rng.Intn(2)
					toks = append(toks, fmt.Sprintf("X%d", down))
				case y == 1 && down >= 0:
					toks = append(toks, fmt.Sprintf("U%d", down))
					down = -1
				default:
					toks = append(toks, "W")
				}
			}
		}
		if down >= 0 {
			toks = append(toks, fmt.Sprintf("U%d", down))
		}
		toks = append(toks, "W")
		for _, k := range keys[:5] {
			toks = append(toks, "g"+k)
		}
		line := "c04.cl 4 3 " + strings.Join(toks, " ")
		r.Do(line, strings.ContainsAny(line, "GOFX"), "hist")
	}
}
