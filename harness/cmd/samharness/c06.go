package main

import (
	"fmt"
	"strconv"
	"strings"
	"sync"

	"github.com/samaritan-proxy/samaritan/host"
	"github.com/samaritan-proxy/samaritan/pb/config/service"
	"github.com/samaritan-proxy/samaritan/proc/verifexport"

	"verifharness/hx"
)

// C06: balancing policies over the candidate list.
//
//	c06.rr <n> <k>                       k sequential picks of a fresh round-robin balancer over n hosts -> indexes
//	c06.rand <n> <r,r,…>                 picks of the random balancer with scripted random numbers      -> indexes
//	c06.lc <conns,…> <r1.r2,r1.r2,…>     picks of the least-connection balancer (hosts with the given active connections)
//	c06.conc <n> <goroutines> <each>     concurrent round-robin picks (goroutines*each a multiple of n) -> per-host counts
type c06 struct{}

func init() { props["C06"] = func() hx.Prop { return c06{} } }

func (c06) Rule() string {
	return "the three real balancers (re-exported constructor) over host lists of size 1..9: sequential round-robin windows, scripted random numbers (0, boundaries, large), " +
		"least-connection with scripted samples and connection counts incl. ties; concurrent round-robin picks from 2..16 goroutines with exact per-host histograms. " +
		"Non-trivial = n >= 2, or >= 2 concurrent pickers; distinct by op line"
}

func mkHosts(n int) []*host.Host {
	hs := make([]*host.Host, n)
	for i := range hs {
		hs[i] = host.New(fmt.Sprintf("h%02d:1", i))
	}
	return hs
}

func idxOf(hs []*host.Host, h *host.Host) int {
	for i, x := range hs {
		if x == h {
			return i
		}
	}
	return -1
}

func (c06) Exec(op string) string {
	if strings.HasPrefix(op, "c15.") {
		// candidate lists come from the host set: its histories are part of this property too
		return c15{}.Exec(op)
	}
	f := hx.Fields(op)
	if len(f) < 3 {
		return "bad-op"
	}
	if f[0] == "c06.tcp" {
		return recoverStr(func() string { return execC06TCP(f) })
	}
	return recoverStr(func() string {
		switch f[0] {
		case "c06.rr":
			n, _ := strconv.Atoi(f[1])
			k, _ := strconv.Atoi(f[2])
			hs := mkHosts(n)
			b := verifexport.NewBalancer(service.LoadBalancePolicy_ROUND_ROBIN)
			var out []string
			for i := 0; i < k; i++ {
				h := b.PickHost(hs)
				if h == nil {
					out = append(out, "nil")
				} else {
					out = append(out, strconv.Itoa(idxOf(hs, h)))
				}
			}
			return strings.Join(out, ",")
		case "c06.rand":
			n, _ := strconv.Atoi(f[1])
			hs := mkHosts(n)
			b := verifexport.NewBalancer(service.LoadBalancePolicy_RANDOM)
			var out []string
			for _, rs := range strings.Split(f[2], ",") {
				r, err := strconv.Atoi(rs)
				if err != nil {
					return "bad-op"
				}
				verifexport.SetRandInt(func() int { return r })
				h := b.PickHost(hs)
				if h == nil {
					out = append(out, "nil")
				} else {
					out = append(out, strconv.Itoa(idxOf(hs, h)))
				}
			}
			return strings.Join(out, ",")
		case "c06.lc":
			var hs []*host.Host
			for i, cs := range strings.Split(f[1], ",") {
				cn, err := strconv.Atoi(cs)
				if err != nil {
					return "bad-op"
				}
				h := host.New(fmt.Sprintf("h%02d:1", i))
				for j := 0; j < cn; j++ {
					h.IncConnCount()
				}
				hs = append(hs, h)
			}
			b := verifexport.NewBalancer(service.LoadBalancePolicy_LEAST_CONNECTION)
			var out []string
			for _, ps := range strings.Split(f[2], ",") {
				p := strings.Split(ps, ".")
				if len(p) != 2 {
					return "bad-op"
				}
				r1, _ := strconv.Atoi(p[0])
				r2, _ := strconv.Atoi(p[1])
				calls := 0
				verifexport.SetRandInt(func() int {
					calls++
					if calls == 1 {
						return r1
					}
					return r2
				})
				out = append(out, strconv.Itoa(idxOf(hs, b.PickHost(hs))))
			}
			return strings.Join(out, ",")
		case "c06.conc":
			if len(f) != 4 {
				return "bad-op"
			}
			n, _ := strconv.Atoi(f[1])
			g, _ := strconv.Atoi(f[2])
			each, _ := strconv.Atoi(f[3])
			hs := mkHosts(n)
			b := verifexport.NewBalancer(service.LoadBalancePolicy_ROUND_ROBIN)
			counts := make([][]int, g)
			var wg sync.WaitGroup
			for i := 0; i < g; i++ {
				counts[i] = make([]int, n)
				wg.Add(1)
				go func(i int) {
					defer wg.Done()
					for j := 0; j < each; j++ {
						counts[i][idxOf(hs, b.PickHost(hs))]++
					}
				}(i)
			}
			wg.Wait()
			var out []string
			for h := 0; h < n; h++ {
				t := 0
				for i := 0; i < g; i++ {
					t += counts[i][h]
				}
				out = append(out, strconv.Itoa(t))
			}
			return strings.Join(out, ",")
		}
		return "bad-op"
	})
}

func (c06) Gen(r *hx.Run) {
	rng := r.Rng
	// host-set histories (which hosts are candidates at all): a reduced run of C15's generator
	c15{}.genSets(r, r.N(600, 10000))
	for n := 0; n <= 9; n++ {
		r.Do(fmt.Sprintf("c06.rr %d %d", n, 3*n+2), n >= 2, "rr")
	}
	for i := 0; i < r.N(300, 5000); i++ {
		n := 1 + rng.Intn(9)
		var rs []string
		for j := 0; j < 1+rng.Intn(6); j++ {
			v := []int{0, 1, n - 1, n, n + 1, 1 << 31, 1<<62 + 5, rng.Int()}[rng.Intn(8)]
			rs = append(rs, strconv.Itoa(v))
		}
		r.Do(fmt.Sprintf("c06.rand %d %s", n, strings.Join(rs, ",")), n >= 2, "rand")
	}
	for i := 0; i < r.N(400, 8000); i++ {
		n := 1 + rng.Intn(6)
		var cs, ps []string
		for j := 0; j < n; j++ {
			cs = append(cs, strconv.Itoa(rng.Intn(4)))
		}
		for j := 0; j < 1+rng.Intn(6); j++ {
			ps = append(ps, fmt.Sprintf("%d.%d", rng.Intn(3*n), rng.Intn(1<<40)))
		}
		r.Do(fmt.Sprintf("c06.lc %s %s", strings.Join(cs, ","), strings.Join(ps, ",")), n >= 2, "lc")
	}
	// end to end through a real TCP processor
	for i := 0; i < r.N(30, 400); i++ {
		n := rng.Intn(4)
		pol := "R"
		if rng.Intn(3) == 0 && n > 0 {
			pol = "L"
		}
		var acts []string
		member := make([]bool, n)
		for j := range member {
			member[j] = true
		}
		for j := 0; j < 2+rng.Intn(9); j++ {
			x := rng.Intn(12)
			switch {
			case x < 6 || n == 0:
				if pol == "L" {
					acts = append(acts, fmt.Sprintf("c%d.%d", rng.Intn(10), rng.Intn(10)))
				} else {
					acts = append(acts, "c")
				}
			case x == 6:
				acts = append(acts, fmt.Sprintf("d%d", rng.Intn(n)))
			case x == 7:
				acts = append(acts, fmt.Sprintf("u%d", rng.Intn(n)))
			case x == 8 || x == 9:
				acts = append(acts, fmt.Sprintf("r%d", rng.Intn(n)))
			case x == 10:
				acts = append(acts, fmt.Sprintf("a%d", rng.Intn(n)))
			default:
				acts = append(acts, "k")
			}
		}
		r.Do(fmt.Sprintf("c06.tcp %s %d %s", pol, n, strings.Join(acts, " ")), true, "tcp")
	}
	r.Do("c06.tcp L 2 d0 c0.0 c0.0 c0.0 u0 c1.1 c0.1 c0.1 c1.0", true, "tcp-dialfail")
	r.Do("c06.tcp R 2 c c c r1 c c a1 c c", true, "tcp-remove")
	r.Do("c06.tcp R 0 c c", true, "tcp-nohost")
	for i := 0; i < r.N(40, 400); i++ {
		n := 1 + rng.Intn(8)
		g := 2 + rng.Intn(15)
		each := n * (1 + rng.Intn(200))
		r.Do(fmt.Sprintf("c06.conc %d %d %d", n, g, each), true, "conc")
	}
}
