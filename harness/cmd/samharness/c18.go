package main

import (
	"bytes"
	"fmt"
	"math/rand"
	"strconv"
	"strings"

	"github.com/golang/snappy"
	"github.com/samaritan-proxy/samaritan/host"
	pbredis "github.com/samaritan-proxy/samaritan/pb/config/protocol/redis"
	"github.com/samaritan-proxy/samaritan/proc/redis"

	"verifharness/hx"
)

// C18: SCAN.
//
//	c18.step <nhosts> <node reply value> <cursor hex> [more args hex…]
//	   -> local <reply> | fwd <host index> <forwarded body> <final reply>|panic
//	c18.stepz …            the same on a processor whose configuration has a compression section (disabled): key names
//	                       in a SCAN reply are names, not values, and come back as the node sent them
//	c18.iter <script>      script: nodes separated by ';', entries ask>next separated by ','
//	   -> <reached 0> <client cursors hex,…> <keys hex,…>
type c18 struct{}

func init() { props["C18"] = func() hx.Prop { return c18{} } }

func (c18) Rule() string {
	return "single SCAN requests through the real handleRequest/handleScan on a socket-less processor: client cursors (0, packed (node,cursor) pairs, " +
		"boundaries of the 16/48-bit split, negative, huge, non-numeric), MATCH/COUNT arguments, node replies (cursors near 2^32 and 2^48, 0, malformed); " +
		"whole iterations over 0..6 nodes with scripted per-node cursor sequences. Non-trivial = iteration visits >= 2 nodes, or a node cursor >= 2^32, or the cursor is not plain 0; distinct by op line"
}

var rigCache = map[int]*redis.VerifRig{}
var rigCacheZ = map[int]*redis.VerifRig{}

// cachedRigZ: like cachedRig, with a compression section in the configuration.
func cachedRigZ(n int) (*redis.VerifRig, func()) {
	if r, ok := rigCacheZ[n]; ok {
		return r, func() {}
	}
	var hosts []*host.Host
	var addrs []string
	for i := 0; i < n; i++ {
		hosts = append(hosts, host.New(hx.NodeAddr(i)))
		addrs = append(addrs, hx.NodeAddr(i))
	}
	r := redis.VerifNewRig(fmt.Sprintf("c18z-%d", n), hx.RedisConfig(pbredis.ReadStrategy_MASTER, &pbredis.Compression{Enable: false, Threshold: 1}), hosts, addrs)
	if n <= 16 {
		rigCacheZ[n] = r
		return r, func() {}
	}
	return r, func() { hx.DropScopes(r.ScopeName()) }
}

// frameOf is a complete compression frame of v: a key may be named like that.
func frameOf(v []byte) []byte {
	var fb bytes.Buffer
	w := snappy.NewBufferedWriter(&fb)
	w.Write(v)
	w.Close()
	return append([]byte("(P$\x00\r\n"), fb.Bytes()...)
}

// cachedRig reuses one socket-less processor per small host count (SCAN keeps no state in it); a processor with hundreds of
// hosts is built for the op and released afterwards (release: the func returned).
func cachedRig(n int) (*redis.VerifRig, func()) {
	if r, ok := rigCache[n]; ok {
		return r, func() {}
	}
	r := hx.NewRig(n, pbredis.ReadStrategy_MASTER)
	if n <= 16 {
		rigCache[n] = r
		return r, func() {}
	}
	return r, func() { hx.DropScopes(r.ScopeName()) }
}

func nodeIndex(addr string) int {
	var i int
	fmt.Sscanf(addr, "n%05d:1", &i)
	return i
}

func scanOnce(rig *redis.VerifRig, args [][]byte, nodeReply func(idx int, body *redis.RespValue) *redis.RespValue) (kind string, idx int, body *redis.RespValue, resp *redis.RespValue, panicked string) {
	defer func() {
		if r := recover(); r != nil {
			panicked = fmt.Sprint(r)
		}
	}()
	raw := rig.Handle(hx.Bulks(append([][]byte{[]byte("scan")}, args...)...))
	sent := rig.Drain()
	if len(sent) == 0 {
		if !raw.Done() {
			return "hang", 0, nil, nil, ""
		}
		return "local", 0, nil, raw.Response(), ""
	}
	s := sent[0]
	// the backend connection's filter chain, as client.loopWrite runs it before encoding the request
	if !s.Filter() {
		if !raw.Done() {
			return "hang", 0, nil, nil, ""
		}
		return "local", 0, nil, raw.Response(), ""
	}
	idx = nodeIndex(s.Addr)
	// copy the forwarded body now (the request body is shared with the raw request)
	b := *s.Body()
	b.Array = append([]redis.RespValue{}, b.Array...)
	body = &b
	s.Reply(nodeReply(idx, body))
	if !raw.Done() {
		return "hang", idx, body, nil, ""
	}
	if hx.Render(raw.Response()) != hx.Render(raw.Final()) {
		// the reply object was modified after the request had been published
		return "fwd", idx, body, raw.Response(), "reply-mutated-after-completion:" + hx.Render(raw.Final())
	}
	return "fwd", idx, body, raw.Response(), ""
}

func (c18) Exec(op string) string {
	f := hx.Fields(op)
	switch {
	case len(f) >= 3 && (f[0] == "c18.step" || f[0] == "c18.stepz"):
		n, err := strconv.Atoi(f[1])
		if err != nil {
			return "bad-op"
		}
		reply, err := hx.ParseValue(f[2])
		if err != nil {
			return "bad-op"
		}
		var args [][]byte
		for _, h := range f[3:] {
			b, err := hx.Unhex(h)
			if err != nil {
				return "bad-op"
			}
			args = append(args, b)
		}
		rig, release := cachedRig(n)
		if f[0] == "c18.stepz" {
			rig, release = cachedRigZ(n)
		}
		defer release()
		kind, idx, body, resp, pan := scanOnce(rig, args, func(int, *redis.RespValue) *redis.RespValue { return reply })
		switch {
		case strings.HasPrefix(pan, "reply-mutated") && body != nil:
			return fmt.Sprintf("fwd %d %s %s %s", idx, hx.Render(body), hx.Render(resp), pan)
		case pan != "" && body != nil:
			return fmt.Sprintf("fwd %d %s panic", idx, hx.Render(body))
		case pan != "":
			return "panic " + strings.ReplaceAll(pan, " ", "_")
		case kind == "local":
			return "local " + hx.Render(resp)
		case kind == "fwd":
			return fmt.Sprintf("fwd %d %s %s", idx, hx.Render(body), hx.Render(resp))
		}
		return kind
	case len(f) == 2 && f[0] == "c18.iter":
		type ent struct {
			ask, next uint64
			key       string
		}
		var nodes [][]ent
		for _, ns := range strings.Split(f[1], ";") {
			if f[1] == "." {
				break // zero nodes
			}
			var es []ent
			if ns != "-" {
				for j, e := range strings.Split(ns, ",") {
					p := strings.Split(e, ">")
					if len(p) != 2 {
						return "bad-op"
					}
					a, err1 := strconv.ParseUint(p[0], 10, 64)
					b, err2 := strconv.ParseUint(p[1], 10, 64)
					if err1 != nil || err2 != nil {
						return "bad-op"
					}
					es = append(es, ent{a, b, fmt.Sprintf("k%d_%d", a, j)})
				}
			}
			nodes = append(nodes, es)
		}
		rig, release := cachedRig(len(nodes))
		defer release()
		cursor := []byte("0")
		var cursors, keys []string
		ok := false
		total := 2
		for _, n := range nodes {
			total += len(n)
		}
		for step := 0; step < total; step++ {
			bad := false
			kind, _, _, resp, pan := scanOnce(rig, [][]byte{cursor}, func(idx int, body *redis.RespValue) *redis.RespValue {
				nc, err := strconv.ParseUint(string(body.Array[1].Text), 10, 64)
				if err != nil || idx >= len(nodes) {
					bad = true
					return &redis.RespValue{Type: redis.Error, Text: []byte("ERR bad node cursor")}
				}
				for _, e := range nodes[idx] {
					if e.ask == nc {
						return &redis.RespValue{Type: redis.Array, Array: []redis.RespValue{
							{Type: redis.BulkString, Text: []byte(strconv.FormatUint(e.next, 10))},
							*hx.Bulks([]byte(e.key))}}
					}
				}
				bad = true
				return &redis.RespValue{Type: redis.Error, Text: []byte("ERR unknown node cursor")}
			})
			if pan != "" || bad || kind == "hang" || resp == nil || resp.Type != redis.Array || len(resp.Array) != 2 {
				break
			}
			cursor = append([]byte{}, resp.Array[0].Text...)
			cursors = append(cursors, hx.Hex(cursor))
			for _, k := range resp.Array[1].Array {
				keys = append(keys, hx.Hex(k.Text))
			}
			if string(cursor) == "0" {
				ok = true
				break
			}
		}
		return fmt.Sprintf("%v %s %s", ok, strings.Join(cursors, ","), strings.Join(keys, ","))
	}
	return "bad-op"
}

func genNodeCursor(rng *rand.Rand) uint64 {
	switch rng.Intn(6) {
	case 0:
		return uint64(1 + rng.Intn(100))
	case 1:
		return 1<<32 + uint64(rng.Intn(3)) - 1
	case 2:
		return 1<<48 - 1 - uint64(rng.Intn(3))
	case 3:
		return 1<<47 + uint64(rng.Intn(5)) - 2
	case 4:
		return uint64(rng.Int63n(1 << 48))
	default:
		return 1 + uint64(rng.Int63n(1<<20))
	}
}

func (c18) Gen(r *hx.Run) {
	rng := r.Rng
	h := func(s string) string { return hx.Hex([]byte(s)) }
	// 1. single steps
	for i := 0; i < r.N(3000, 60000); i++ {
		n := rng.Intn(7)
		if rng.Intn(20) == 0 {
			n = 300 + rng.Intn(1000)
		}
		var cur string
		switch rng.Intn(10) {
		case 0:
			cur = "0"
		case 1, 2, 3:
			idx := uint64(rng.Intn(n + 2))
			cur = strconv.FormatUint(idx<<48|genNodeCursor(rng), 10)
		case 4:
			cur = strconv.FormatUint(uint64(rng.Intn(n+2))<<48, 10)
		case 5:
			cur = []string{"-1", "-0", "+5", "9223372036854775807", "9223372036854775808", "18446744073709551615", "-9223372036854775808",
				"abc", "", "1e3", "0x10", " 1", "00000000000000000000007", "281474976710656", "281474976710655"}[rng.Intn(15)]
		case 6:
			cur = strconv.FormatInt(rng.Int63(), 10)
		case 7:
			cur = strconv.FormatInt(-rng.Int63(), 10)
		default:
			cur = strconv.FormatUint(genNodeCursor(rng), 10)
		}
		args := []string{h(cur)}
		switch rng.Intn(4) {
		case 0:
			args = append(args, h("MATCH"), h("user:*"))
		case 1:
			// every COUNT is the client's business: small, huge, beyond any sensible bound, not a number; any letter case
			cnt := []string{"1", "10", "100", "9999", "10000", "10001", "50000", "2147483647", "4294967296", "18446744073709551615", "0", "-1", "abc", "00100"}[rng.Intn(14)]
			args = append(args, h([]string{"COUNT", "count", "Count", "cOuNt"}[rng.Intn(4)]), h(cnt))
		case 2:
			args = append(args, h("match"), h("a*\r\n"), h("count"), h([]string{"7", "10001", "123456789"}[rng.Intn(3)]), h("TYPE"), h("zset"))
		}
		var rep string
		switch rng.Intn(12) {
		case 0:
			rep = "e" + h("ERR something")
		case 1:
			rep = "[b" + h("notanumber") + ",[]]"
		case 2:
			rep = "[b" + h("0") + ",[b" + h("k1") + ",b" + h("k2") + "]]"
		case 3:
			rep = "i5"
		case 4:
			rep = "[i7,[]]"
		case 5:
			rep = "n"
		case 6:
			rep = "[b" + h("-5") + ",[]]"
		default:
			rep = "[b" + h(strconv.FormatUint(genNodeCursor(rng), 10)) + ",[b" + h("key") + "]]"
		}
		r.Do(fmt.Sprintf("c18.step %d %s %s", n, rep, strings.Join(args, " ")), cur != "0", "step")
		if i%4 == 0 {
			// a key whose name is a complete compression frame, on a processor with a compression section
			fr := frameOf([]byte(fmt.Sprintf("another-key-%d", rng.Intn(1000))))
			repz := "[b" + h(strconv.FormatUint(genNodeCursor(rng), 10)) + ",[b" + h("key") + ",b" + hx.Hex(fr) + "]]"
			if n > 16 {
				n = 3
			}
			r.Do(fmt.Sprintf("c18.stepz %d %s %s", n, repz, strings.Join(args, " ")), true, "step-frame-named-key")
		}
	}
	// `SCAN` without a cursor
	r.Do("c18.step 3 n", true, "step-noargs")
	// 2. whole iterations over well-formed per-node paths
	for i := 0; i < r.N(400, 8000); i++ {
		n := rng.Intn(7)
		var parts []string
		nt := false
		for j := 0; j < n; j++ {
			steps := 1 + rng.Intn(4)
			ask := uint64(0)
			var es []string
			seen := map[uint64]bool{0: true}
			for k := 0; k < steps; k++ {
				next := uint64(0)
				if k != steps-1 {
					for {
						next = genNodeCursor(rng)
						if !seen[next] {
							break
						}
					}
					seen[next] = true
					if next >= 1<<32 {
						nt = true
					}
				}
				es = append(es, fmt.Sprintf("%d>%d", ask, next))
				ask = next
			}
			parts = append(parts, strings.Join(es, ","))
		}
		if n == 0 {
			parts = []string{"-"}
			// a single node with an empty script would be asked cursor 0 and not know it; use zero nodes instead
			r.Do("c18.iter .", false, "iter-empty")
			continue
		}
		r.Do("c18.iter "+strings.Join(parts, ";"), n >= 2 || nt, "iter")
	}
}
