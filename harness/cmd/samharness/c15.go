package main

import (
	"errors"
	"fmt"
	"sort"
	"strconv"
	"strings"
	"sync"
	"time"

	"github.com/samaritan-proxy/samaritan/host"
	"github.com/samaritan-proxy/samaritan/proc/verifexport"

	"verifharness/hx"
)

// C15: host set and health checking.
//
//	c15.set <op>…   a<objs> Add, r<objs> Remove, p<objs> ReplaceAll ("p-" = empty), h<id> MarkHostHealthy, u<id> MarkHostUnhealthy
//	                <objs> = <id>.<addr><m|b>[,…]; an id seen before denotes the same object
//	                H<id> / U<id> start MarkHostHealthy / MarkHostUnhealthy in its own goroutine and park it between the flag
//	                CAS and the lock (pause point set.mark.flagged): "c" when parked, "f" when the CAS failed;
//	                Y<id> lets the parked mark of <id> take the lock and finish: its result
//	   -> after every op: <t|f for marks>H[addr#id,…]  (Healthy()), at the end X[ids whose removal latch is closed]
//	      and, if a list returned by an earlier Healthy() has changed behind its reader's back, !published-lists-changed=<n>
//	c15.hc <rise> <fall> <outcomes>   one member host, scripted check outcomes (1 = ok, 0 = failed)
//	   -> per outcome h (healthy and listed) / u (unhealthy and not listed) / ! (flag and listing disagree)
type c15 struct{}

func init() { props["C15"] = func() hx.Prop { return c15{} } }

func (c15) Rule() string {
	return "op sequences on the real host.Set through its public API: adds (fresh objects, re-adds of stored objects, the same address with another type, duplicates within one call), " +
		"removals by stored object and by a fresh equal object (as the controller does), replacements, health marks incl. marks for removed/replaced objects; " +
		"every third history runs marks in two halves (goroutine parked between the flag CAS and the lock by a pause point) with other operations and other objects' marks in between; " +
		"health monitor with scripted check outcomes and thresholds 0..4. Non-trivial = history contains a type change, a duplicate address, or a mark for a non-member; distinct by op line"
}

type objTable struct {
	objs map[int]*host.Host
	ids  map[*host.Host]int
	// every list Healthy() has handed out, with what it said then: a reader may still be holding it
	held []heldList
}

type heldList struct {
	list []*host.Host
	was  string
}

func (t *objTable) render(hs []*host.Host) string {
	var p []string
	for _, h := range hs {
		id, ok := t.ids[h]
		ids := strconv.Itoa(id)
		if !ok {
			ids = "?"
		}
		a, _ := strconv.Atoi(strings.TrimPrefix(h.Addr, "a"))
		p = append(p, fmt.Sprintf("%d#%s", a, ids))
	}
	return "H[" + strings.Join(p, ",") + "]"
}

// changedLists counts the lists handed out earlier that no longer say what they said.
func (t *objTable) changedLists() int {
	n := 0
	for _, h := range t.held {
		if t.render(h.list) != h.was {
			n++
		}
	}
	return n
}

func (t *objTable) get(id int, addr int, main bool) *host.Host {
	if h, ok := t.objs[id]; ok {
		return h
	}
	typ := host.TypeMain
	if !main {
		typ = host.TypeBackup
	}
	h := host.NewWithType(fmt.Sprintf("a%03d", addr), typ)
	t.objs[id] = h
	t.ids[h] = id
	return h
}

func (t *objTable) parse(s string) ([]*host.Host, bool) {
	if s == "-" || s == "" {
		return nil, true
	}
	var out []*host.Host
	for _, e := range strings.Split(s, ",") {
		p := strings.SplitN(e, ".", 2)
		if len(p) != 2 || len(p[1]) < 2 {
			return nil, false
		}
		id, err1 := strconv.Atoi(p[0])
		addr, err2 := strconv.Atoi(p[1][:len(p[1])-1])
		k := p[1][len(p[1])-1]
		if err1 != nil || err2 != nil || (k != 'm' && k != 'b') {
			return nil, false
		}
		out = append(out, t.get(id, addr, k == 'm'))
	}
	return out, true
}

func (t *objTable) healthy(s *host.Set) string {
	hs := s.Healthy()
	out := t.render(hs)
	t.held = append(t.held, heldList{hs, out})
	return out
}

func (c15) Exec(op string) string {
	f := hx.Fields(op)
	if len(f) < 2 {
		return "bad-op"
	}
	switch f[0] {
	case "c15.swap":
		// c15.swap <main> <backup> <rounds> <mode>: readers poll the usable list while the set is replaced by an equal list
		// (mode r: ReplaceAll) or a batch of main hosts is added to a backup-only set (mode a)
		//   -> odd=<number of observed lists that are neither the list before nor the list after the call>
		if len(f) != 5 {
			return "bad-op"
		}
		nm, e1 := strconv.Atoi(f[1])
		nb, e2 := strconv.Atoi(f[2])
		rounds, e3 := strconv.Atoi(f[3])
		if e1 != nil || e2 != nil || e3 != nil || nm < 1 || nm > 2000 || nb < 0 || nb > 2000 || rounds < 1 || rounds > 200 {
			return "bad-op"
		}
		return recoverStr(func() string {
			mk := func() (main, backup []*host.Host) {
				for i := 0; i < nm; i++ {
					main = append(main, host.NewWithType(fmt.Sprintf("10.0.%d.%d:1", i/250, i%250), host.TypeMain))
				}
				for i := 0; i < nb; i++ {
					backup = append(backup, host.NewWithType(fmt.Sprintf("10.1.%d.%d:1", i/250, i%250), host.TypeBackup))
				}
				return
			}
			key := func(hs []*host.Host) string {
				var sb strings.Builder
				for _, h := range hs {
					sb.WriteString(h.Addr)
					sb.WriteByte(h.Type.String()[0])
					sb.WriteByte(',')
				}
				return sb.String()
			}
			odd := 0
			for r := 0; r < rounds; r++ {
				main, backup := mk()
				s := host.NewSet()
				var before string
				if f[4] == "a" {
					s.Add(backup...)
				} else {
					s.Add(append(append([]*host.Host{}, main...), backup...)...)
				}
				before = key(s.Healthy())
				stop := make(chan struct{})
				var wg sync.WaitGroup
				var mu sync.Mutex
				seen := map[string]struct{}{}
				for g := 0; g < 3; g++ {
					wg.Add(1)
					go func() {
						defer wg.Done()
						for {
							select {
							case <-stop:
								return
							default:
							}
							k := key(s.Healthy())
							mu.Lock()
							seen[k] = struct{}{}
							mu.Unlock()
						}
					}()
				}
				time.Sleep(time.Millisecond)
				if f[4] == "a" {
					s.Add(main...)
				} else {
					m2, b2 := mk()
					s.ReplaceAll(append(m2, b2...))
				}
				after := key(s.Healthy())
				close(stop)
				wg.Wait()
				for k := range seen {
					if k != before && k != after {
						odd++
					}
				}
			}
			return fmt.Sprintf("odd=%d", odd)
		})
	case "c15.set":
		return recoverStr(func() string {
			t := &objTable{objs: map[int]*host.Host{}, ids: map[*host.Host]int{}}
			s := host.NewSet()
			var outs []string
			// marks parked between their two halves
			type parkedMark struct {
				reached, release chan struct{}
				result           chan bool
			}
			var pmu sync.Mutex
			parked := map[*host.Host]*parkedMark{}
			if strings.ContainsAny(strings.Join(f[1:], " "), "HUY") {
				host.VerifSetPause(func(point string, obj interface{}) {
					h, ok := obj.(*host.Host)
					if !ok || point != "set.mark.flagged" {
						return
					}
					pmu.Lock()
					p := parked[h]
					pmu.Unlock()
					if p != nil {
						close(p.reached)
						<-p.release
					}
				})
				defer host.VerifSetPause(nil)
			}
			defer func() {
				pmu.Lock()
				for _, p := range parked {
					close(p.release)
				}
				pmu.Unlock()
			}()
			for _, tok := range f[1:] {
				ret := ""
				switch tok[0] {
				case 'a', 'r', 'p':
					objs, ok := t.parse(tok[1:])
					if !ok {
						return "bad-op"
					}
					switch tok[0] {
					case 'a':
						s.Add(objs...)
					case 'r':
						s.Remove(objs...)
					case 'p':
						s.ReplaceAll(objs)
					}
				case 'h', 'u':
					id, err := strconv.Atoi(tok[1:])
					h, ok := t.objs[id]
					pmu.Lock()
					_, busy := parked[h]
					pmu.Unlock()
					if err != nil || !ok || busy {
						return "bad-op"
					}
					var r bool
					if tok[0] == 'h' {
						r = s.MarkHostHealthy(h)
					} else {
						r = s.MarkHostUnhealthy(h)
					}
					ret = map[bool]string{true: "t", false: "f"}[r]
				case 'H', 'U':
					id, err := strconv.Atoi(tok[1:])
					h, ok := t.objs[id]
					pmu.Lock()
					_, busy := parked[h]
					pmu.Unlock()
					if err != nil || !ok || busy {
						return "bad-op"
					}
					p := &parkedMark{reached: make(chan struct{}), release: make(chan struct{}), result: make(chan bool, 1)}
					pmu.Lock()
					parked[h] = p
					pmu.Unlock()
					healthy := tok[0] == 'H'
					go func() {
						if healthy {
							p.result <- s.MarkHostHealthy(h)
						} else {
							p.result <- s.MarkHostUnhealthy(h)
						}
					}()
					select {
					case <-p.reached:
						ret = "c"
					case r := <-p.result:
						// the CAS failed: the call returned without reaching the lock
						ret = map[bool]string{true: "t", false: "f"}[r]
						pmu.Lock()
						delete(parked, h)
						pmu.Unlock()
					}
				case 'Y':
					id, err := strconv.Atoi(tok[1:])
					h, ok := t.objs[id]
					pmu.Lock()
					p := parked[h]
					delete(parked, h)
					pmu.Unlock()
					if err != nil || !ok || p == nil {
						return "bad-op"
					}
					close(p.release)
					ret = map[bool]string{true: "t", false: "f"}[<-p.result]
				default:
					return "bad-op"
				}
				outs = append(outs, ret+t.healthy(s))
			}
			pmu.Lock()
			left := len(parked)
			pmu.Unlock()
			if left != 0 {
				return "bad-op" // a mark still parked at the end of the script
			}
			var rem []int
			for id, h := range t.objs {
				select {
				case <-h.WaitRemoved():
					rem = append(rem, id)
				default:
				}
			}
			sort.Ints(rem)
			var rs []string
			for _, id := range rem {
				rs = append(rs, strconv.Itoa(id))
			}
			res := strings.Join(outs, "|") + " X[" + strings.Join(rs, ",") + "]"
			if n := t.changedLists(); n > 0 {
				res += fmt.Sprintf(" !published-lists-changed=%d", n)
			}
			return res
		})
	case "c15.hc":
		if len(f) != 4 {
			return "bad-op"
		}
		rise, err1 := strconv.Atoi(f[1])
		fall, err2 := strconv.Atoi(f[2])
		if err1 != nil || err2 != nil {
			return "bad-op"
		}
		return recoverStr(func() string {
			h := host.New("a001")
			s := host.NewSet(h)
			okNow := true
			m, err := verifexport.NewMonitor(uint32(rise), uint32(fall), s, func(string) error {
				if okNow {
					return nil
				}
				return errors.New("down")
			})
			if err != nil || m == nil {
				return "monitor-error"
			}
			var sb strings.Builder
			for _, c := range f[3] {
				okNow = c == '1'
				m.VerifCheckHosts()
				listed := len(s.Healthy()) == 1
				switch {
				case h.IsHealthy() && listed:
					sb.WriteByte('h')
				case !h.IsHealthy() && !listed:
					sb.WriteByte('u')
				default:
					sb.WriteByte('!')
				}
			}
			return sb.String()
		})
	}
	return "bad-op"
}

func (c15) Gen(r *hx.Run) {
	// readers during ReplaceAll / a batch Add
	for _, op := range []string{"c15.swap 300 300 4 r", "c15.swap 40 0 6 r", "c15.swap 200 100 4 a", "c15.swap 3 2 20 r"} {
		r.Do(op, true, "readers-during-replace")
	}
	c15{}.genSets(r, r.N(2500, 60000))
	c15{}.genHC(r)
}

func (c15) genSets(r *hx.Run, count int) {
	rng := r.Rng
	for i := 0; i < count; i++ {
		nextID := 0
		type ob struct {
			id, addr int
			main     bool
		}
		var known []ob
		mk := func(addr int, main bool) ob {
			nextID++
			o := ob{nextID, addr, main}
			known = append(known, o)
			return o
		}
		str := func(os []ob) string {
			if len(os) == 0 {
				return "-"
			}
			var p []string
			for _, o := range os {
				k := "m"
				if !o.main {
					k = "b"
				}
				p = append(p, fmt.Sprintf("%d.%d%s", o.id, o.addr, k))
			}
			return strings.Join(p, ",")
		}
		naddr := 1 + rng.Intn(4)
		n := 1 + rng.Intn(10)
		var toks []string
		nontriv := false
		// every third history has marks split in two halves with other operations in between
		conc := i%3 == 2
		inFlight := map[int]bool{}
		var flightOrder []int
		unhealthy := map[int]bool{} // the generator's own copy of the flags: a mark whose CAS fails is not parked
		for j := 0; j < n; j++ {
			if conc && len(known) > 0 && rng.Intn(3) == 0 {
				if len(flightOrder) > 0 && rng.Intn(2) == 0 {
					k := rng.Intn(len(flightOrder))
					id := flightOrder[k]
					flightOrder = append(flightOrder[:k], flightOrder[k+1:]...)
					delete(inFlight, id)
					toks = append(toks, fmt.Sprintf("Y%d", id))
					continue
				}
				o := known[rng.Intn(len(known))]
				if !inFlight[o.id] {
					un := rng.Intn(2) == 1
					toks = append(toks, fmt.Sprintf("%c%d", "HU"[map[bool]int{false: 0, true: 1}[un]], o.id))
					if unhealthy[o.id] != un {
						unhealthy[o.id] = un
						inFlight[o.id] = true
						flightOrder = append(flightOrder, o.id)
					}
					continue
				}
			}
			pick := func(fresh bool) ob {
				if !fresh && len(known) > 0 && rng.Intn(3) != 0 {
					return known[rng.Intn(len(known))]
				}
				main := rng.Intn(4) != 0
				return mk(1+rng.Intn(naddr), main)
			}
			switch x := rng.Intn(12); {
			case x < 4:
				k := 1 + rng.Intn(3)
				var os []ob
				for q := 0; q < k; q++ {
					os = append(os, pick(rng.Intn(3) != 0))
				}
				toks = append(toks, "a"+str(os))
			case x < 7:
				k := 1 + rng.Intn(2)
				var os []ob
				for q := 0; q < k; q++ {
					if rng.Intn(2) == 0 && len(known) > 0 {
						// controller style: a fresh object equal to a known one
						o := known[rng.Intn(len(known))]
						os = append(os, mk(o.addr, o.main))
					} else {
						os = append(os, pick(false))
					}
				}
				toks = append(toks, "r"+str(os))
			case x == 7:
				k := rng.Intn(4)
				var os []ob
				for q := 0; q < k; q++ {
					os = append(os, pick(true))
				}
				toks = append(toks, "p"+str(os))
			default:
				if len(known) == 0 {
					toks = append(toks, "a"+str([]ob{pick(true)}))
					continue
				}
				o := known[rng.Intn(len(known))]
				if inFlight[o.id] {
					continue // one mark per object at a time (the monitor checks a host once per round)
				}
				if rng.Intn(2) == 0 {
					toks = append(toks, fmt.Sprintf("u%d", o.id))
					unhealthy[o.id] = true
				} else {
					toks = append(toks, fmt.Sprintf("h%d", o.id))
					unhealthy[o.id] = false
				}
			}
		}
		for len(flightOrder) > 0 {
			k := rng.Intn(len(flightOrder))
			toks = append(toks, fmt.Sprintf("Y%d", flightOrder[k]))
			flightOrder = append(flightOrder[:k], flightOrder[k+1:]...)
		}
		if len(toks) == 0 {
			continue
		}
		seen := map[int]bool{}
		for _, o := range known {
			if seen[o.addr*2+map[bool]int{true: 1, false: 0}[o.main]^1] {
				nontriv = true
			}
			seen[o.addr*2+map[bool]int{true: 1, false: 0}[o.main]] = true
		}
		kind := "set"
		if strings.ContainsAny(strings.Join(toks, " "), "HU") {
			kind = "set-conc"
		}
		r.Do("c15.set "+strings.Join(toks, " "), nontriv || n >= 5, kind)
	}
}

func (c15) genHC(r *hx.Run) {
	rng := r.Rng
	for i := 0; i < r.N(400, 10000); i++ {
		rise, fall := rng.Intn(5), rng.Intn(5)
		n := 1 + rng.Intn(30)
		b := make([]byte, n)
		p := rng.Intn(100)
		for j := range b {
			if rng.Intn(100) < p {
				b[j] = '1'
			} else {
				b[j] = '0'
			}
		}
		r.Do(fmt.Sprintf("c15.hc %d %d %s", rise, fall, b), true, "hc")
	}
}
