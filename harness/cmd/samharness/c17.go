package main

import (
	"fmt"
	"net"
	"os"
	"strconv"
	"strings"
	"sync"
	"syscall"
	"time"

	"github.com/samaritan-proxy/samaritan/cmd/samaritan/hotrestart"

	"verifharness/hx"
)

// C17: hot-restart frames and hand-over order.
//
//	c17.read <hex datagram>          -> ok <typ> <len> <hexdata> | err | panic   (real readMessage over a unix socket)
//	c17.send <typ> <len> <hexdata>   -> hex of what sendMessage wrote
//	c17.seq  <children>              children ';'-separated, frames ','-separated: decimal type (well-formed request) or x<hex>
//	                                 -> per child the ordered log of instance calls (a:Name) and replies (r:type)
type c17 struct{}

func init() { props["C17"] = func() hx.Prop { return &c17{} } }

func (*c17) Rule() string {
	return "frames: every type 0..255 x declared length vs carried length on a dense grid (0..8 and 4088..4100 exhaustively, random elsewhere), sent over a real unix stream " +
		"socket to the real readMessage; sendMessage round trips; hand-over sequences of request types (known, unknown, malformed frames, children that disappear) against a real Restarter " +
		"with a recording Instance, every type byte 0..255 as a request. Non-trivial = declared length != carried length, or unknown type, or sequence length >= 2; distinct by op line"
}

var c17seq int

func sockPair() (*net.UnixConn, *net.UnixConn, func(), error) {
	c17seq++
	name := fmt.Sprintf("@verif_c17_%d_%d", os.Getpid(), c17seq)
	l, err := net.ListenUnix("unix", &net.UnixAddr{Name: name, Net: "unix"})
	if err != nil {
		return nil, nil, nil, err
	}
	a, err := net.DialUnix("unix", nil, &net.UnixAddr{Name: name, Net: "unix"})
	if err != nil {
		l.Close()
		return nil, nil, nil, err
	}
	b, err := l.AcceptUnix()
	if err != nil {
		l.Close()
		a.Close()
		return nil, nil, nil, err
	}
	return a, b, func() { a.Close(); b.Close(); l.Close() }, nil
}

type recInst struct {
	id   int
	mu   sync.Mutex
	log  []string
	slow time.Duration // DrainListeners takes this long and logs its end too
}

func (r *recInst) add(s string) { r.mu.Lock(); r.log = append(r.log, s); r.mu.Unlock() }
func (r *recInst) take() []string {
	r.mu.Lock()
	defer r.mu.Unlock()
	l := r.log
	r.log = nil
	return l
}
func (r *recInst) ID() int            { return r.id }
func (r *recInst) ParentID() int      { return 0 }
func (r *recInst) ShutdownAdmin()     { r.add("a:ShutdownAdmin") }
func (r *recInst) DrainListeners() {
	r.add("a:DrainListeners")
	if r.slow > 0 {
		time.Sleep(r.slow)
		r.add("e:DrainListeners")
	}
}
func (r *recInst) ShutdownLocalConf() { r.add("a:ShutdownLocalConf") }
func (r *recInst) Shutdown()          { r.add("a:Shutdown") }

func (*c17) Exec(op string) string {
	f := hx.Fields(op)
	switch {
	case len(f) == 2 && f[0] == "c17.read":
		d, err := hx.Unhex(f[1])
		if err != nil {
			return "bad-op"
		}
		a, b, closeAll, err := sockPair()
		if err != nil {
			return "sockerr"
		}
		defer closeAll()
		if len(d) == 0 {
			return "err" // nothing can be written: an empty read is EOF
		}
		if _, err := a.Write(d); err != nil {
			return "sockerr"
		}
		b.SetReadDeadline(time.Now().Add(2 * time.Second))
		typ, l, data, err := hotrestart.VerifReadMessage(b)
		if err != nil {
			if strings.HasPrefix(err.Error(), "panic:") {
				return "panic"
			}
			return "err"
		}
		return fmt.Sprintf("ok %d %d %s", typ, l, hx.Hex(data))
	case len(f) == 4 && f[0] == "c17.send":
		t, err1 := strconv.Atoi(f[1])
		l, err2 := strconv.Atoi(f[2])
		d, err3 := hx.Unhex(f[3])
		if err1 != nil || err2 != nil || err3 != nil {
			return "bad-op"
		}
		a, b, closeAll, err := sockPair()
		if err != nil {
			return "sockerr"
		}
		defer closeAll()
		if err := hotrestart.VerifSendMessage(a, uint8(t), uint16(l), d); err != nil {
			return "err"
		}
		buf := make([]byte, 70000)
		b.SetReadDeadline(time.Now().Add(2 * time.Second))
		n, err := b.Read(buf)
		if err != nil {
			return "sockerr"
		}
		return hx.Hex(buf[:n])
	case len(f) == 2 && (f[0] == "c17.pipe" || f[0] == "c17.burst"):
		// c17.burst <types>  the same child writes all its requests with one write: one read of the parent delivers all frames
		// c17.pipe <types>   one child that does not wait for the replies: it sends its next request 20 ms after the previous one, while a
		// requested drain takes 90 ms (logged at its beginning and its end)  -> acts=<actions in order> replies=<reply types in arrival order>
		c17seq++
		inst := &recInst{id: 900000 + os.Getpid()%50000*10 + c17seq%10 + c17seq*100000, slow: 90 * time.Millisecond}
		hotrestart.VerifSetKill(func(pid int, sig syscall.Signal) error { inst.add("a:kill"); return nil })
		r, err := hotrestart.New(inst)
		if err != nil {
			return "sockerr " + err.Error()
		}
		defer r.Shutdown()
		conn, err := net.DialUnix("unix", nil, &net.UnixAddr{Name: hotrestart.VerifSocketName(inst.id), Net: "unix"})
		if err != nil {
			return "sockerr " + err.Error()
		}
		defer conn.Close()
		var types []int
		for _, s := range strings.Split(f[1], ",") {
			t, err := strconv.Atoi(s)
			if err != nil || t < 0 || t > 255 || t == 7 {
				return "bad-op"
			}
			types = append(types, t)
		}
		var rmu sync.Mutex
		var replies []string
		done := make(chan struct{})
		go func() {
			defer close(done)
			buf := make([]byte, 4096)
			for len(replies) < len(types) {
				conn.SetReadDeadline(time.Now().Add(1500 * time.Millisecond))
				n, err := conn.Read(buf)
				if err != nil {
					return
				}
				// replies are 3-byte headers with a 2-byte payload here; several may arrive in one read
				for off := 0; off+3 <= n; {
					l := int(buf[off+1])<<8 | int(buf[off+2])
					rmu.Lock()
					replies = append(replies, fmt.Sprintf("r:%d", buf[off]))
					rmu.Unlock()
					off += 3 + l
				}
			}
		}()
		if f[0] == "c17.burst" {
			var all []byte
			for _, t := range types {
				all = append(all, byte(t), 0, 2, '{', '}')
			}
			conn.Write(all)
		} else {
			for i, t := range types {
				if i > 0 {
					// several requests may pile up behind a slow drain: the control socket is a stream, one read delivers them all
					time.Sleep(20 * time.Millisecond)
				}
				conn.Write(append([]byte{byte(t), 0, 2}, '{', '}'))
			}
		}
		<-done
		time.Sleep(20 * time.Millisecond)
		rmu.Lock()
		defer rmu.Unlock()
		return "acts=" + orDash(strings.Join(inst.take(), ",")) + " replies=" + orDash(strings.Join(replies, ","))
	case len(f) == 2 && f[0] == "c17.seq":
		c17seq++
		inst := &recInst{id: 900000 + os.Getpid()%50000*10 + c17seq%10 + c17seq*100000}
		hotrestart.VerifSetKill(func(pid int, sig syscall.Signal) error {
			time.Sleep(30 * time.Millisecond) // a reply sent before the kill is read (and logged) first
			inst.add("a:kill")
			return nil
		})
		r, err := hotrestart.New(inst)
		if err != nil {
			return "sockerr " + err.Error()
		}
		defer r.Shutdown()
		var outs []string
		for _, ch := range strings.Split(f[1], ";") {
			conn, err := net.DialUnix("unix", nil, &net.UnixAddr{Name: hotrestart.VerifSocketName(inst.id), Net: "unix"})
			if err != nil {
				return "sockerr " + err.Error()
			}
			var log []string
			if ch != "-" {
				for _, fr := range strings.Split(ch, ",") {
					var frame []byte
					if strings.HasPrefix(fr, "x") {
						frame, err = hx.Unhex(fr[1:])
						if err != nil {
							return "bad-op"
						}
					} else {
						t, err := strconv.Atoi(fr)
						if err != nil || t < 0 || t > 255 {
							return "bad-op"
						}
						frame = append([]byte{byte(t), 0, 2}, '{', '}')
					}
					if len(frame) > 0 {
						conn.Write(frame)
					}
					buf := make([]byte, 4096)
					conn.SetReadDeadline(time.Now().Add(250 * time.Millisecond))
					n, err := conn.Read(buf)
					time.Sleep(45 * time.Millisecond) // let a kill that follows its reply be logged
					log = append(log, inst.take()...)
					if err == nil && n >= 3 {
						// keep the order: actions logged before the reply was read come first
						rep := fmt.Sprintf("r:%d", buf[0])
						// a kill logged after the reply belongs after it
						if len(log) > 0 && log[len(log)-1] == "a:kill" && int(buf[0]) == 8 {
							log = append(log[:len(log)-1], rep, "a:kill")
						} else {
							log = append(log, rep)
						}
					}
				}
			}
			conn.Close()
			time.Sleep(10 * time.Millisecond)
			log = append(log, inst.take()...)
			if len(log) == 0 {
				outs = append(outs, "-")
			} else {
				outs = append(outs, strings.Join(log, ","))
			}
		}
		return strings.Join(outs, ";")
	}
	return "bad-op"
}

func (*c17) Gen(r *hx.Run) {
	rng := r.Rng
	frame := func(typ, declared, carried int) string {
		b := make([]byte, 3+carried)
		b[0], b[1], b[2] = byte(typ), byte(declared>>8), byte(declared)
		for i := 3; i < len(b); i++ {
			b[i] = byte(1 + rng.Intn(255))
		}
		return hx.Hex(b)
	}
	lens := []int{0, 1, 2, 3, 4, 5, 6, 7, 8, 100, 4088, 4089, 4090, 4091, 4092, 4093, 4094, 4095, 4096, 4097, 4098, 4099, 4100, 5000, 65535}
	// dense grid of declared vs carried lengths
	for _, d := range lens {
		for _, c := range lens {
			if c > 5000 {
				continue
			}
			if !r.Thorough() && d > 100 && c > 100 && (d-c > 6 || c-d > 6) && rng.Intn(3) != 0 {
				continue
			}
			r.Do("c17.read "+frame(1+rng.Intn(9), d, c), d != c, "read-grid")
		}
	}
	// all types
	for t := 0; t < 256; t++ {
		r.Do("c17.read "+frame(t, 2, 2), t == 0 || t > 9, "read-types")
	}
	// short and random
	r.Do("c17.read 01", true, "read-short")
	r.Do("c17.read 0100", true, "read-short")
	for i := 0; i < r.N(400, 20000); i++ {
		d := rng.Intn(4200)
		c := d + rng.Intn(9) - 4
		if rng.Intn(3) == 0 {
			c = rng.Intn(4300)
		}
		if c < 0 {
			c = 0
		}
		r.Do("c17.read "+frame(rng.Intn(256), d, c), d != c, "read-random")
	}
	// send
	for i := 0; i < r.N(150, 3000); i++ {
		n := lens[rng.Intn(len(lens)-2)]
		if rng.Intn(2) == 0 {
			n = rng.Intn(4094)
		}
		d := make([]byte, n)
		rng.Read(d)
		r.Do(fmt.Sprintf("c17.send %d %d %s", rng.Intn(256), n, hx.Hex(d)), n > 0, "send")
	}
	// hand-over sequences
	types := []string{"1", "3", "5", "7", "2", "9", "0", "200", "1", "5"}
	for i := 0; i < r.N(25, 300); i++ {
		nch := 1 + rng.Intn(3)
		var chs []string
		for c := 0; c < nch; c++ {
			nf := rng.Intn(5)
			var fs []string
			for k := 0; k < nf; k++ {
				switch rng.Intn(8) {
				case 0:
					fs = append(fs, "x"+frame(1+2*rng.Intn(4), 5, 2)) // truncated: must be skipped
				case 1:
					fs = append(fs, "x01") // too short
				default:
					fs = append(fs, types[rng.Intn(len(types))])
				}
			}
			if len(fs) == 0 {
				chs = append(chs, "-")
			} else {
				chs = append(chs, strings.Join(fs, ","))
			}
		}
		r.Do("c17.seq "+strings.Join(chs, ";"), true, "seq")
	}
	// every type byte as a request of its own child (replies and out-of-range values are requests nobody defined), and after a known one
	for t := 0; t < 256; t++ {
		r.Do(fmt.Sprintf("c17.seq %d", t), true, "seq-every-type")
		if t%5 == 0 {
			r.Do(fmt.Sprintf("c17.seq 1,%d,5", t), true, "seq-every-type")
		}
	}
	// a child that does not wait for the replies, with a slow drain
	for _, s := range []string{"5,1", "5,3,1", "1,5,3", "5,5,1", "3,5,200,1", "5"} {
		r.Do("c17.pipe "+s, true, "pipe")
	}
	for i := 0; i < r.N(4, 80); i++ {
		n := 2 + rng.Intn(4)
		var ts []string
		for j := 0; j < n; j++ {
			ts = append(ts, []string{"1", "3", "5", "5", "9", "200"}[rng.Intn(6)])
		}
		r.Do("c17.pipe "+strings.Join(ts, ","), true, "pipe")
		r.Do("c17.burst "+strings.Join(ts, ","), true, "burst")
	}
	for _, s := range []string{"5,1", "1,3,5", "5,200", "1,200,3"} {
		r.Do("c17.burst "+s, true, "burst")
	}
	// the canonical hand-over
	r.Do("c17.seq 1,5,7", true, "seq-canonical")
	r.Do("c17.seq 1,3,5,7", true, "seq-canonical")
}
