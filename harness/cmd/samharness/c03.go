package main

import (
	"fmt"
	"strconv"
	"strings"
	"time"

	pbredis "github.com/samaritan-proxy/samaritan/pb/config/protocol/redis"

	"verifharness/hx"
)

// C03: on a stable cluster the proxy behaves like a single Redis server (script language: cluster.go).
type c03 struct{}

func init() { props["C03"] = func() hx.Prop { return c03{} } }

func (c03) Rule() string {
	return "programs of 3..40 commands (GET SET SETNX GETSET APPEND STRLEN INCR DEL EXISTS MGET MSET) against a scripted stable cluster of 1..4 masters over real sockets, contiguous and scattered slot layouts, " +
		"1..3 client connections, keys and values with CR, LF, NUL, braces (hash tags), empty keys and values, values up to 1 MiB (4 MiB in the thorough tier). " +
		"Non-trivial = a multi-key command over more than one node, or a binary key/value, or a scattered layout; distinct by op line"
}

// c03.cold <n>   a two-node cluster with an unchanging layout, both nodes configured; every node takes 30 ms per command, so the first
// CLUSTER NODES answer is a while away when the first client arrives; it pipelines n INCR of one key on one connection.
//
//	-> vals=<the n replies>   (a single server answers 1,2,…,n)
func c03Cold(n int) string {
	fc, err := hx.NewFakeCluster(2)
	if err != nil {
		return "sockerr"
	}
	defer fc.Close()
	for s := 0; s < 16384; s++ {
		fc.SetOwner(s, s%2)
	}
	fc.Delay(0, 30*time.Millisecond)
	fc.Delay(1, 30*time.Millisecond)
	p, err := hx.NewRedisProc(fc, 2, pbredis.ReadStrategy_MASTER)
	if err != nil {
		return "procerr"
	}
	defer hx.DropScopes("service." + p.Name() + ".")
	defer func() {
		done := make(chan struct{})
		go func() { p.Stop(); close(done) }()
		select {
		case <-done:
		case <-time.After(3 * time.Second):
		}
	}()
	cl, err := hx.DialClient(p.Address())
	if err != nil {
		return "sockerr"
	}
	defer cl.C.Close()
	for i := 0; i < n; i++ {
		if err := cl.Write([]byte("incr"), []byte("key:cold")); err != nil {
			return "sockerr"
		}
	}
	var vals []string
	for i := 0; i < n; i++ {
		cl.C.SetReadDeadline(time.Now().Add(5 * time.Second))
		v, err := cl.Reply()
		if err != nil {
			vals = append(vals, "!none")
			break
		}
		vals = append(vals, clusterRender(v))
	}
	return "vals=" + strings.Join(vals, ",")
}

func (c03) Exec(op string) string {
	f := hx.Fields(op)
	if len(f) == 2 && f[0] == "c03.cold" {
		n, err := strconv.Atoi(f[1])
		if err != nil || n < 1 || n > 64 {
			return "bad-op"
		}
		return recoverStr(func() string { return c03Cold(n) })
	}
	if len(f) < 4 || f[0] != "c03.cl" {
		return "bad-op"
	}
	return recoverStr(func() string { return clusterRun(f[1:]) })
}

func (c03) Gen(r *hx.Run) {
	rng := r.Rng
	hex := func(s string) string { return hx.Hex([]byte(s)) }
	binKeys := []string{"x" + hex("a\r\nb"), "x" + hex("\x00"), "x" + hex("{tag}1"), "x" + hex("{tag}2"), "x" + hex("k{}x"), "x" + hex("\xff\xfe"), "x" + hex("*1\r\n$1\r\n"), "x" + hex(" "), "x" + hex("}{tag}1"), "x" + hex("a}b{c}d"), "x" + hex("}}{{x}}")}
	plain := []string{"a", "b", "c", "d", "e", "f", "g", "h", "i10", "j11"}
	vals := []string{"-", hex("v"), hex("\r\n"), hex("\x00\x01"), hex("+OK\r\n"), hex("$-1\r\n"), hex("123"), hex("-5"), hex("9223372036854775807"), hex("abc def")}
	basic := []string{
		"3 3 sa:31 ga gb", "3 3 Ma:31.b:32.c:33.d:34 ma.b.c.d.e da.b.e ea.b.c.d ma.b.c.d", "3 3 ia ia sa:" + hex("x") + " ia", "1 1 sa:31 ga ma.b da.a",
		"4 4 L7 Ma:31.b:32.c:33.d:34.e:35.f:36 ma.b.c.d.e.f la aa:3132 la ta:39 ga na:38 nz:38 gz",
		"3 3 L3 s" + binKeys[0] + ":" + vals[2] + " g" + binKeys[0] + " m" + binKeys[0] + "." + binKeys[1] + " s" + binKeys[2] + ":31 s" + binKeys[3] + ":32 m" + binKeys[2] + "." + binKeys[3],
		"3 3 ba:70000:3 ga la aa:31 la C ga",
		"3 3 L11 sx7d7b7461677d31:31 sx617d627b637d64:32 sx7d7d7b7b787d7d:33 mx7d7b7461677d31.x617d627b637d64.x7d7d7b7b787d7d",
		"3 3 { sa:31 sb:32 sc:33 ga gb gc ma.b.c } { sa:34 ga sb:35 gb } ga", "2 2 L5 bbig:1048576:9 gbig lbig dbig gbig",
	}
	kb := keysByNode()
	k0, k1, k2 := kb[0][0], kb[1][0], kb[2][0]
	basic = append(basic,
		// status replies of a fast node parked behind the reply of a slow node, while the fast node keeps answering
		fmt.Sprintf("3 3 s%s:%s D0:40 { g%s s%s:%s g%s s%s:%s g%s s%s:%s g%s g%s } D0:0 g%s g%s", k0, hex("zero"), k0, k1, hex("first"), k1, kb[1][1], hex("second-value"), kb[1][1], kb[1][2], hex("third"), kb[1][2], k2, k1, k0),
		fmt.Sprintf("3 3 D2:30 { g%s s%s:31 i%s i%s n%s:32 l%s s%s:33 g%s } g%s", k2, k1, kb[1][1], kb[1][1], k1, k1, k0, k0, k2),
	)
	for _, b := range basic {
		r.Do("c03.cl "+b, true, "basic")
	}
	for i := 0; i < r.N(60, 2500); i++ {
		masters := 1 + rng.Intn(4)
		head := fmt.Sprintf("%d %d", masters, masters)
		scattered := rng.Intn(2) == 0
		if scattered {
			head += fmt.Sprintf(" L%d", rng.Intn(1000))
		}
		keys := plain
		if rng.Intn(3) == 0 {
			keys = append(append([]string{}, plain[:4]...), binKeys...)
		}
		key := func() string { return keys[rng.Intn(len(keys))] }
		val := func() string { return vals[rng.Intn(len(vals))] }
		n := 3 + rng.Intn(38)
		var toks []string
		for j := 0; j < n; j++ {
			switch x := rng.Intn(30); {
			case x < 6:
				toks = append(toks, "g"+key())
			case x < 11:
				toks = append(toks, "s"+key()+":"+val())
			case x < 12:
				toks = append(toks, "n"+key()+":"+val())
			case x < 13:
				toks = append(toks, "t"+key()+":"+val())
			case x < 15:
				toks = append(toks, "a"+key()+":"+val())
			case x < 16:
				toks = append(toks, "l"+key())
			case x < 18:
				toks = append(toks, "i"+key())
			case x < 21:
				var ks []string
				for q := 0; q < 1+rng.Intn(5); q++ {
					ks = append(ks, key())
				}
				toks = append(toks, "de"[rng.Intn(2):][:1]+strings.Join(ks, "."))
			case x < 24:
				var ks []string
				for q := 0; q < 1+rng.Intn(6); q++ {
					ks = append(ks, key())
				}
				toks = append(toks, "m"+strings.Join(ks, "."))
			case x < 27:
				var kvs []string
				for q := 0; q < 1+rng.Intn(5); q++ {
					kvs = append(kvs, key()+":"+val())
				}
				toks = append(toks, "M"+strings.Join(kvs, "."))
			case x < 28:
				toks = append(toks, fmt.Sprintf("b%s:%d:%d", key(), []int{257, 4096, 70000, r.N(300000, 4<<20)}[rng.Intn(4)], rng.Intn(200)))
			default:
				toks = append(toks, "C")
			}
		}
		line := "c03.cl " + head + " " + strings.Join(toks, " ")
		r.Do(line, scattered || strings.Contains(line, "x") || strings.ContainsAny(line, "mMde"), "prog")
	}
}
