package main

import (
	"bytes"
	"fmt"
	"io"
	"net"
	"os"
	"runtime/debug"
	"strconv"
	"strings"
	"time"

	"github.com/golang/snappy"
	"github.com/samaritan-proxy/samaritan/host"
	"github.com/samaritan-proxy/samaritan/pb/common"
	"github.com/samaritan-proxy/samaritan/pb/config/protocol"
	pbredis "github.com/samaritan-proxy/samaritan/pb/config/protocol/redis"
	"github.com/samaritan-proxy/samaritan/pb/config/service"
	"github.com/samaritan-proxy/samaritan/proc"
	"github.com/samaritan-proxy/samaritan/proc/redis"

	"verifharness/hx"
)

// C11: no byte sequence crashes or wedges the proxy. Every op runs in a child process with an
// address-space limit and a deadline; `crashed …` and `timeout` are outcomes.
//
//	c11.deep <kind> <levels>       decode a deeply nested stream (a: "*1\r\n"×levels ":1\r\n"; b: "*1048576\r\n"×levels) -> err | ok | crashed | timeout
//	c11.line <kind> <n>            decode a line of n bytes without LF, then LF (i inline, s simple string, e error) -> ok <len> | err, peak memory class
//	c11.redir <hex error text>     a backend error reply through the real client.handleResp/handleRedirection -> replied <reply> | resent | panic
//	c11.nodes <hex text>           parseClusterNodes -> ok m=<masters> r=<replicas> s=<slots> | err | panic
//	c11.reply <e|d> <b|a> <hex>    a backend reply value (bulk string, or the value of an HGETALL pair) through the reply hooks of a processor with a
//	                               compression section (enabled / disabled but configured) -> replied <reply> | pending | panic
//	c11.null <cmd> <n> <i>         a request with a null bulk string as its i-th element -> rejected sent=0 | forwarded <wire hex>
//	c11.scan <reply value>         SCAN reply hook -> done <reply> | panic
//	c11.session <hex bytes>        bytes sent by a client to a real session; then a second client sends PING
//	                               -> first=<closed|open> replies=<n> errs=<n> second=<pong|dead>
type c11 struct {
	iso *hx.Isolated
}
type c11child struct{}

func init() {
	props["C11"] = func() hx.Prop { return &c11{iso: &hx.Isolated{Prop: "C11", Timeout: 25 * time.Second}} }
	props["C11-CHILD"] = func() hx.Prop { return c11child{} }
}

func (*c11) Rule() string {
	return "malformed and adversarial inputs at every parser: deeply nested arrays (up to 8M levels) and nested maximal array headers, unbounded lines, mutated RESP frames, " +
		"malformed MOVED/ASK/CLUSTERDOWN errors, reply values that are prefixes, mutations and truncations of a compression frame (compression enabled, or configured and disabled), malformed CLUSTER NODES replies (missing fields, unknown masters, huge slot ranges), malformed SCAN replies, arbitrary bytes on a real downstream session " +
		"followed by a PING on a second connection; each in a child process under an address-space limit and a deadline. Non-trivial = rejected for a reason other than plain EOF, or nests >= 3; distinct by op line"
}

func (c *c11) Exec(op string) string { return c.iso.Exec(op) }
func (c11child) Rule() string        { return "" }
func (c11child) Gen(*hx.Run)         {}

var c11seq int

// c11.cycle   a backend that answers every GET with a MOVED pointing at itself for 1.5 s and normally afterwards (a redirection that is
// well-formed and wrong).  Client 1 sends one MGET of 3000 keys; 0.5 s after the backend has turned sane client 2 asks for another key.
//
//	-> other=<served|hung> stop=<ok|hangs>
func c11Cycle() string {
	ln, err := net.Listen("tcp", "127.0.0.1:0")
	if err != nil {
		return "sockerr"
	}
	defer ln.Close()
	self := ln.Addr().String()
	saneAt := time.Now().Add(1500 * time.Millisecond)
	go func() {
		for {
			c, err := ln.Accept()
			if err != nil {
				return
			}
			go func(c net.Conn) {
				defer c.Close()
				dec := redis.VerifNewDecoder(c, 4096)
				for {
					v, err := dec.Decode()
					if err != nil {
						return
					}
					cmd := ""
					if len(v.Array) > 0 {
						cmd = strings.ToLower(string(v.Array[0].Text))
					}
					rep := "-ERR not now\r\n"
					switch {
					case cmd == "get" && time.Now().Before(saneAt):
						rep = "-MOVED 1 " + self + "\r\n"
					case cmd == "get":
						rep = "$1\r\nv\r\n"
					case cmd == "readonly" || cmd == "asking":
						rep = "+OK\r\n"
					}
					if _, err := c.Write([]byte(rep)); err != nil {
						return
					}
				}
			}(c)
		}
	}()
	ct := time.Second
	cfg := &service.Config{
		Listener:        &service.Listener{Address: &common.Address{Ip: "127.0.0.1", Port: 0}},
		ConnectTimeout:  &ct,
		Protocol:        protocol.Redis,
		ProtocolOptions: &service.Config_RedisOption{RedisOption: &protocol.RedisOption{ReadStrategy: pbredis.ReadStrategy_MASTER}},
	}
	c11seq++
	p, err := proc.New(fmt.Sprintf("verif-c11c-%d", c11seq), cfg, []*host.Host{host.New(self)})
	if err != nil {
		return "procerr"
	}
	defer hx.DropScopes("service." + p.Name() + ".")
	if err := p.Start(); err != nil {
		return "procerr"
	}
	time.Sleep(2 * time.Millisecond)
	for i := 0; i < 400 && p.Address() == ""; i++ {
		time.Sleep(time.Millisecond)
	}
	c1, err := hx.DialClient(p.Address())
	if err != nil {
		p.Stop()
		return "sockerr"
	}
	defer c1.C.Close()
	args := [][]byte{[]byte("mget")}
	for i := 0; i < 3000; i++ {
		args = append(args, []byte(fmt.Sprintf("k%d", i)))
	}
	go c1.Write(args...)
	time.Sleep(time.Until(saneAt) + 500*time.Millisecond)
	other := "hung"
	if c2, err := hx.DialClient(p.Address()); err == nil {
		defer c2.C.Close()
		c2.C.SetDeadline(time.Now().Add(3 * time.Second))
		if v, err := c2.Do([]byte("get"), []byte("other")); err == nil && string(v.Text) == "v" {
			other = "served"
		}
	}
	stopped := "hangs"
	done := make(chan struct{})
	go func() { p.Stop(); close(done) }()
	select {
	case <-done:
		stopped = "ok"
	case <-time.After(3 * time.Second):
	}
	return fmt.Sprintf("other=%s stop=%s", other, stopped)
}

func (c11child) Exec(op string) string {
	if op == "c11.cycle" {
		return recoverStr(c11Cycle)
	}
	f := hx.Fields(op)
	if len(f) < 2 {
		return "bad-op"
	}
	switch f[0] {
	case "c11.deep":
		if len(f) != 3 {
			return "bad-op"
		}
		levels, _ := strconv.Atoi(f[2])
		unit := "*1\r\n"
		if f[1] == "b" {
			unit = "*1048576\r\n"
		}
		data := append(bytes.Repeat([]byte(unit), levels), []byte(":1\r\n")...)
		d := redis.VerifNewDecoder(bytes.NewReader(data), 4096)
		_, err := d.Decode()
		d = nil
		debug.FreeOSMemory()
		if err != nil {
			return "err"
		}
		return "ok"
	case "c11.line":
		if len(f) != 3 {
			return "bad-op"
		}
		n, _ := strconv.Atoi(f[2])
		prefix := map[string]string{"i": "", "s": "+", "e": "-"}[f[1]]
		// stream the line without materialising it: a reader that yields n bytes of 'a' then CRLF
		r := io.MultiReader(strings.NewReader(prefix), &repeatReader{n: n}, strings.NewReader("\r\n"))
		d := redis.VerifNewDecoder(r, 4096)
		v, err := d.Decode()
		if err != nil {
			return "err"
		}
		l := len(v.Text)
		if v.Type == redis.Array && len(v.Array) > 0 {
			l = len(v.Array[0].Text)
		}
		return fmt.Sprintf("ok %d", l)
	case "c11.null":
		// c11.null <cmd> <n> <i>   a request of n elements whose i-th (0 = the command name) is a null bulk string ("$-1"), the others
		// ordinary arguments, decoded from wire bytes and handed to the real request path -> rejected sent=<requests forwarded> | forwarded …
		n, err1 := strconv.Atoi(f[2])
		i, err2 := strconv.Atoi(f[3])
		if len(f) != 4 || err1 != nil || err2 != nil || n < 1 || n > 8 || i < 0 || i >= n {
			return "bad-op"
		}
		return recoverStr(func() string {
			rig := hx.NewRig(2, pbredis.ReadStrategy_MASTER)
			defer hx.DropScopes(rig.ScopeName())
			rig.SetSlot(0, 16383, hx.NodeAddr(0), nil)
			var wire bytes.Buffer
			fmt.Fprintf(&wire, "*%d\r\n", n)
			for k := 0; k < n; k++ {
				arg := fmt.Sprintf("a%d", k)
				if k == 0 {
					arg = f[1]
				}
				if k == i {
					wire.WriteString("$-1\r\n")
				} else {
					fmt.Fprintf(&wire, "$%d\r\n%s\r\n", len(arg), arg)
				}
			}
			v, err := redis.VerifNewDecoder(bytes.NewReader(wire.Bytes()), 4096).Decode()
			if err != nil {
				return "undecodable"
			}
			raw := rig.Handle(v)
			sent := rig.Drain()
			if len(sent) > 0 {
				var ws []string
				for _, s := range sent {
					ws = append(ws, hx.Hex(hx.Wire(s.Body())))
				}
				return "forwarded " + strings.Join(ws, ",")
			}
			if !raw.Done() {
				return "pending"
			}
			if raw.Response().Type != redis.Error {
				return "answered " + hx.Render(raw.Response())
			}
			return "rejected sent=0"
		})
	case "c11.redir":
		text, err := hx.Unhex(f[1])
		if err != nil {
			return "bad-op"
		}
		return recoverStr(func() string {
			rig := hx.NewRig(2, pbredis.ReadStrategy_MASTER, "127.0.0.1:1")
			defer hx.DropScopes(rig.ScopeName())
			rig.SetSlot(0, 16383, hx.NodeAddr(0), nil)
			raw := rig.Handle(hx.Bulks([]byte("get"), []byte("k")))
			sent := rig.Drain()
			if len(sent) != 1 {
				return "not-forwarded"
			}
			sent[0].Reply(&redis.RespValue{Type: redis.Error, Text: text})
			if raw.Done() {
				return "replied " + hx.Render(raw.Response())
			}
			if len(rig.Drain()) > 0 {
				return "resent"
			}
			return "pending"
		})
	case "c11.nodes":
		text, err := hx.Unhex(f[1])
		if err != nil {
			return "bad-op"
		}
		return recoverStr(func() string {
			m, r, s, err := redis.VerifParseClusterNodes(string(text))
			if err != nil {
				return "err"
			}
			return fmt.Sprintf("ok m=%d r=%d s=%d", m, r, s)
		})
	case "c11.refresh":
		// the real doSlotsRefresh on a scripted CLUSTER NODES reply
		text, err := hx.Unhex(f[1])
		if err != nil {
			return "bad-op"
		}
		return recoverStr(func() string {
			rig := hx.NewRig(2, pbredis.ReadStrategy_MASTER)
			defer hx.DropScopes(rig.ScopeName())
			if err := rig.Refresh(&redis.RespValue{Type: redis.BulkString, Text: text}); err != nil {
				return "err"
			}
			return "ok"
		})
	case "c11.reply":
		if len(f) != 4 {
			return "bad-op"
		}
		val, err := hx.Unhex(f[3])
		if err != nil || (f[1] != "e" && f[1] != "d") || (f[2] != "b" && f[2] != "a") {
			return "bad-op"
		}
		return recoverStr(func() string {
			c11seq++
			rig := redis.VerifNewRig(fmt.Sprintf("c11-%d-%d", os.Getpid(), c11seq), hx.RedisConfig(pbredis.ReadStrategy_MASTER, &pbredis.Compression{Enable: f[1] == "e", Threshold: 1}),
				[]*host.Host{host.New(hx.NodeAddr(0)), host.New(hx.NodeAddr(1))}, []string{hx.NodeAddr(0), hx.NodeAddr(1)})
			defer hx.DropScopes(rig.ScopeName())
			rig.SetSlot(0, 16383, hx.NodeAddr(0), nil)
			cmd := "get"
			if f[2] == "a" {
				cmd = "hgetall"
			}
			raw := rig.Handle(hx.Bulks([]byte(cmd), []byte("k")))
			sent := rig.Drain()
			if len(sent) != 1 {
				return "not-forwarded"
			}
			sent[0].Filter()
			reply := &redis.RespValue{Type: redis.BulkString, Text: val}
			if f[2] == "a" {
				reply = &redis.RespValue{Type: redis.Array, Array: []redis.RespValue{{Type: redis.BulkString, Text: []byte("f")}, {Type: redis.BulkString, Text: val}}}
			}
			sent[0].Reply(reply)
			if raw.Done() {
				return "replied " + hx.Render(raw.Response())
			}
			return "pending"
		})
	case "c11.scan":
		return (c18{}).Exec("c18.step 3 " + f[1] + " " + hx.Hex([]byte("0")))
	case "c11.session":
		data, err := hx.Unhex(f[1])
		if err != nil {
			return "bad-op"
		}
		return recoverStr(func() string {
			rig := hx.NewRig(2, pbredis.ReadStrategy_MASTER)
			defer hx.DropScopes(rig.ScopeName())
			rig.SetSlot(0, 16383, hx.NodeAddr(0), nil)
			// backend pump: answer everything that gets forwarded with +OK
			stop := make(chan struct{})
			defer close(stop)
			go func() {
				for {
					select {
					case <-stop:
						return
					default:
					}
					for _, s := range rig.Drain() {
						s.Reply(&redis.RespValue{Type: redis.SimpleString, Text: []byte("OK")})
					}
					time.Sleep(200 * time.Microsecond)
				}
			}()
			dial := func() (net.Conn, chan struct{}) {
				a, b := net.Pipe()
				done := make(chan struct{})
				go func() { rig.ServeConn(b); close(done) }()
				return a, done
			}
			c1, done1 := dial()
			go func() { c1.Write(data) }()
			// read replies until quiet
			dec := redis.VerifNewDecoder(c1, 4096)
			replies, errs := 0, 0
			first := "open"
			for {
				c1.SetReadDeadline(time.Now().Add(150 * time.Millisecond))
				v, err := dec.Decode()
				if err != nil {
					if ne, ok := err.(net.Error); ok && ne.Timeout() {
						break
					}
					first = "closed"
					break
				}
				replies++
				if v.Type == redis.Error {
					errs++
				}
			}
			c1.Close()
			select {
			case <-done1:
			case <-time.After(2 * time.Second):
				return "session-did-not-end-after-close"
			}
			c2, _ := dial()
			defer c2.Close()
			go c2.Write([]byte("*1\r\n$4\r\nPING\r\n"))
			c2.SetReadDeadline(time.Now().Add(2 * time.Second))
			second := "dead"
			if v, err := redis.VerifNewDecoder(c2, 4096).Decode(); err == nil && string(v.Text) == "PONG" {
				second = "pong"
			}
			return fmt.Sprintf("first=%s replies=%d errs=%d second=%s", first, replies, errs, second)
		})
	}
	return "bad-op"
}

type repeatReader struct{ n int }

func (r *repeatReader) Read(p []byte) (int, error) {
	if r.n <= 0 {
		return 0, io.EOF
	}
	k := len(p)
	if k > r.n {
		k = r.n
	}
	for i := 0; i < k; i++ {
		p[i] = 'a'
	}
	r.n -= k
	return k, nil
}

func (c *c11) Gen(r *hx.Run) {
	defer c.iso.Close()
	rng := r.Rng
	h := func(s string) string { return hx.Hex([]byte(s)) }
	// 0. null bulk strings as request elements
	for _, cmd := range []string{"get", "set", "mget", "del", "ping", "hset", "eval", "scan"} {
		n := 2 + rng.Intn(4)
		r.Do(fmt.Sprintf("c11.null %s %d %d", cmd, n, rng.Intn(n)), true, "null-bulk-argument")
	}
	r.Do("c11.null get 2 1", true, "null-bulk-argument")
	r.Do("c11.null get 1 0", true, "null-bulk-argument")
	// 1. nesting depth and up-front allocation
	for _, lv := range []int{1, 2, 7, 31, 32, 33, 64, 1000, 100000} {
		r.Do(fmt.Sprintf("c11.deep a %d", lv), lv >= 3, "deep")
	}
	r.Do(fmt.Sprintf("c11.deep a %d", r.N(3000000, 8000000)), true, "deep-huge")
	for _, lv := range []int{1, 3, 33} {
		r.Do(fmt.Sprintf("c11.deep b %d", lv), true, "deep-alloc")
	}
	// 1b. reply values around the compression frame: every prefix of a real frame, mutated header bytes, truncated streams
	{
		var fb bytes.Buffer
		w := snappy.NewBufferedWriter(&fb)
		w.Write(bytes.Repeat([]byte("hot "), 30))
		w.Close()
		frame := append([]byte("(P$\x00\r\n"), fb.Bytes()...)
		var vals [][]byte
		for i := 0; i <= len(frame) && i <= 24; i++ {
			vals = append(vals, frame[:i])
		}
		vals = append(vals, frame, frame[:len(frame)-1], frame[:len(frame)/2])
		for i := 0; i < 6; i++ {
			m := append([]byte{}, frame...)
			m[i] ^= byte(1 + rng.Intn(255))
			vals = append(vals, m, m[:i+1])
		}
		for i := 0; i < r.N(12, 300); i++ {
			m := append([]byte{}, frame...)
			for k := 0; k < 1+rng.Intn(3); k++ {
				m[rng.Intn(len(m))] = byte(rng.Intn(256))
			}
			vals = append(vals, m[:rng.Intn(len(m)+1)])
		}
		for i, v := range vals {
			r.Do(fmt.Sprintf("c11.reply %s %s %s", "ed"[i%2:][:1], "ba"[(i/2)%2:][:1], orDash(hx.Hex(v))), true, "reply")
		}
	}
	// 2. unbounded lines
	for _, k := range []string{"i", "s", "e"} {
		for _, n := range []int{10, 4095, 4096, 65535, 65536, 65537, 1 << 20} {
			r.Do(fmt.Sprintf("c11.line %s %d", k, n), n > 4096, "line")
		}
		r.Do(fmt.Sprintf("c11.line %s %d", k, r.N(64<<20, 512<<20)), true, "line-huge")
	}
	// 3. redirection / clusterdown errors
	redir := []string{"MOVED", "MOVED ", "MOVED 1", "MOVED 1 ", "MOVED  1", "ASK", "ASK 1", "ask 1", "Moved 1", "MOVED 1 127.0.0.1:1", "ASK 1 127.0.0.1:1",
		"MOVED 1 127.0.0.1:1 extra", "MOVED x y", "MOVED 1 " + hx.NodeAddr(1), "ASK 1 " + hx.NodeAddr(1), "CLUSTERDOWN", "CLUSTERDOWN The cluster is down", "clusterdown x",
		"MOVED\t1\t" + hx.NodeAddr(1), "ERR unknown", "", " ", "a\u017fk 1 127.0.0.1:1", "A\u017fK 1 " + hx.NodeAddr(1), "\u212aMOVED 1 x", "clu\u017fterdown x", "MOVED 99999999999999999999 " + hx.NodeAddr(1), "MOVEDX 1 2", "ASKING 1 2", "MOVED 1 \x00"}
	for _, t := range redir {
		r.Do("c11.redir "+h(t), true, "redir")
	}
	for i := 0; i < r.N(100, 3000); i++ {
		t := redir[rng.Intn(len(redir))]
		b := []byte(t)
		if len(b) > 0 {
			switch rng.Intn(3) {
			case 0:
				b[rng.Intn(len(b))] = byte(rng.Intn(256))
			case 1:
				b = b[:rng.Intn(len(b)+1)]
			case 2:
				p := rng.Intn(len(b))
				b = append(append(append([]byte{}, b[:p]...), ' '), b[p:]...)
			}
		}
		r.Do("c11.redir "+hx.Hex(b), true, "redir-mut")
	}
	// 4. CLUSTER NODES replies
	good := "07c37dfeb235213a872192d90877d0cd55635b91 127.0.0.1:30004@31004 slave e7d1eecce10fd6bb5eb35b9f99a514335d9ba9ca 0 1426238317239 4 connected\n" +
		"e7d1eecce10fd6bb5eb35b9f99a514335d9ba9ca 127.0.0.1:30001@31001 myself,master - 0 0 1 connected 0-5460\n" +
		"67ed2db8d677e59ec4a4cefb06858cf2a1a89fa1 127.0.0.1:30002@31002 master - 0 1426238316232 2 connected 5461-10922 [5462->-abc]\n" +
		"292f8b365bb7edb5e285caf0b7e6ddc7265d2f4f 127.0.0.1:30003@31003 master - 0 1426238318243 3 connected 10923-16383\n"
	nodes := []string{good, "", "\n", "a b c", "aaa 127.0.0.1:7000@17000 slave bbb 0 0 1 connected\n", "aaa 127.0.0.1:7000 master - 0 0 1 connected 0-9999999999\n",
		"aaa 127.0.0.1:7000 master - 0 0 1 connected 5-1\n", "aaa 127.0.0.1:7000 master - 0 0 1 connected -1\n", "aaa 127.0.0.1:7000 master - 0 0 1 connected 16384\n",
		"aaa 127.0.0.1 master - 0 0 1 connected 1\n", "aaa 1:2:3 master - 0 0 1 connected 1\n", "aaa @ master - 0 0 1 connected 1\n", "aaa 127.0.0.1:7000 master - 0 0 1 connected\n",
		"aaa 127.0.0.1:7000 master - 0 0 1 connected 1-2-3\n", "aaa 127.0.0.1:7000 master - 0 0 1 connected [\n", "aaa 127.0.0.1:7000 master - 0 0 1 connected x\n",
		"aaa 127.0.0.1:7000 slave aaa 0 0 1 connected\n", "aaa 127.0.0.1:7000 master - 0 0 1 connected 0-16383\naaa 127.0.0.1:7001 master - 0 0 1 connected 0-16383\n",
		"aaa 127.0.0.1:7000 master - 0 0 1 connected 99999999999999999999\n", "aaa 127.0.0.1:7000 master - 0 0 1 connected 0-99999999999999999999\n"}
	for _, t := range nodes {
		r.Do("c11.nodes "+h(t), true, "nodes")
	}
	// the same kind of replies through the real slots refresh (table update included)
	for _, t := range []string{good, "aaa 127.0.0.1:7000 master - 0 0 1 connected 16384\n", "aaa 127.0.0.1:7000 master - 0 0 1 connected 0-16383 16384\n",
		"aaa 127.0.0.1:7000 master - 0 0 1 connected 16383 0\n", "aaa 127.0.0.1:7000 master - 0 0 1 connected 99999\n", "aaa 127.0.0.1:7000@17000 slave bbb 0 0 1 connected\n"} {
		r.Do("c11.refresh "+h(t), true, "refresh")
	}
	for i := 0; i < r.N(200, 5000); i++ {
		b := []byte(good)
		for k := 0; k < 1+rng.Intn(3); k++ {
			switch rng.Intn(4) {
			case 0:
				b[rng.Intn(len(b))] = " \n-:@[]0x"[rng.Intn(9)]
			case 1:
				p, q := rng.Intn(len(b)), rng.Intn(len(b))
				if p > q {
					p, q = q, p
				}
				b = append(append([]byte{}, b[:p]...), b[q:]...)
			case 2:
				lines := strings.Split(string(b), "\n")
				i := rng.Intn(len(lines))
				lines = append(lines[:i], lines[i+1:]...)
				b = []byte(strings.Join(lines, "\n"))
			case 3:
				if len(b) > 0 {
					b[rng.Intn(len(b))] = byte(rng.Intn(256))
				}
			}
			if len(b) == 0 {
				b = []byte("x")
			}
		}
		r.Do("c11.nodes "+hx.Hex(b), true, "nodes-mut")
	}
	// 5. SCAN replies
	for _, v := range []string{"[]", "[i1]", "[b" + h("7") + "]", "N", "n", "[[],[]]", "[b" + h("x") + ",[]]", "[N,N]", "e" + h("ERR"), "[b" + h("0") + "]", "i0", "[n,[]]"} {
		r.Do("c11.scan "+v, true, "scan")
	}
	// 6. raw bytes on a downstream session, then a PING on another connection
	sess := []string{"*1\r\n$4\r\nPING\r\n", "PING\r\n", "\r\n", " \r\n", "*0\r\n", "*-1\r\n", "$-1\r\n", ":1\r\n", "+OK\r\n", "*1\r\n:1\r\n", "*2\r\n$3\r\nget\r\n$-1\r\n",
		"*2\r\n$3\r\nget\r\n$1\r\nk\r\n", "*1048577\r\n", "$536870913\r\n", "*1\r\n$99\r\nab\r\n", "x\r\n+OK\r\n", "get k\r\nget k\r\n", "*3\r\n$3\r\nset\r\n$1\r\nk\r\n$1\r\nv\r\nBAD",
		"*1\r\n$4\r\nKEYS\r\n", "*2\r\n$9\r\nx\r\n+OK\r\ny\r\n$1\r\nk\r\n", strings.Repeat("*1\r\n", 200) + ":1\r\n", "*2\r\n$4\r\nscan\r\n$1\r\n0\r\n", "*1\r\n$6\r\nhotkey\r\n"}
	for _, t := range sess {
		r.Do("c11.session "+h(t), true, "session")
	}
	for i := 0; i < r.N(60, 1500); i++ {
		b := []byte(sess[rng.Intn(len(sess))] + sess[rng.Intn(len(sess))])
		for k := 0; k < rng.Intn(3); k++ {
			b[rng.Intn(len(b))] = byte(rng.Intn(256))
		}
		r.Do("c11.session "+hx.Hex(b), true, "session-mut")
	}
	_ = os.Getpid
}

func orDash(s string) string {
	if s == "" {
		return "-"
	}
	return s
}
