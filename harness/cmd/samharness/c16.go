package main

import (
	"context"
	"errors"
	"fmt"
	"io"
	"sort"
	"strconv"
	"strings"
	"sync"
	"time"

	"github.com/samaritan-proxy/samaritan/config"

	"verifharness/hx"
)

// C16: discovery subscriptions track the dependency set across stream failures.
//
//	c16.run <token>…   the real subscription client (the one behind the service-config and service-endpoint
//	                   discovery clients) with a scripted stream maker; its retry loop is replayed without the delay
//	   s<n> Subscribe(n)      u<n> Unsubscribe(n)
//	   C    the next stream creation succeeds; C<k>: and the k-th Send on that stream fails
//	   F    the next stream creation fails
//	   R    Recv fails on the current stream
//	   H    Send blocks from now on (changes pile up behind the sender)    L  Send is released
//	   K    a stream is created and the Send of its resubscription snapshot blocks until L (changes made meanwhile wait)
//	   -> per stream "<id>:" then its messages "+<subscribed names>-<unsubscribed names>" separated by ',' ; streams by '|' ;
//	      then " up=<0|1>" ; or "blocked@<step>" (a caller did not return) / "stalled@<step>" (an expected message never came)
//	c16.loop <n>       the real Run loop: n failing stream creations in a row are each followed by another attempt -> attempts>=<n>
type c16 struct{}

func init() { props["C16"] = func() hx.Prop { return c16{} } }

func (c16) Rule() string {
	return "subscription histories of 1..40 steps over 1..24 service names: subscribe/unsubscribe calls interleaved with stream creation failures, Send failures at chosen positions, Recv failures, " +
		"periods in which the Send of the resubscription snapshot blocks while callers change the set, " +
		"and periods in which Send blocks so that changes pile up (including the same name changed back and forth, and more than 16 pending changes while no stream exists). " +
		"Non-trivial = contains a failure, a blocked period or more than 16 pending changes; distinct by op line"
}

type c16msg struct {
	stream int
	sub    []string
	unsub  []string
}

type c16h struct {
	mu        sync.Mutex
	cond      *sync.Cond
	msgs      []c16msg
	entries   int // Send calls entered
	exits     int // Send calls returned
	holdCh    chan struct{}
	recvIn    map[int]bool
	decisions chan string // what the next stream creation does
	downs     int         // RunOnce returns
	streams   []*c16stream
}

type c16stream struct {
	h        *c16h
	id       int
	failAt   int
	sends    int
	recvFail chan struct{}
	once     sync.Once
	broken   bool
}

func (s *c16stream) breakIt() { s.once.Do(func() { close(s.recvFail) }) }

func (s *c16stream) Send(sub, unsub []string) error {
	h := s.h
	h.mu.Lock()
	s.sends++
	n := s.sends
	a, b := append([]string{}, sub...), append([]string{}, unsub...)
	sortNum(a)
	sortNum(b)
	h.msgs = append(h.msgs, c16msg{s.id, a, b})
	h.entries++
	ch := h.holdCh
	h.cond.Broadcast()
	h.mu.Unlock()
	if ch != nil {
		<-ch
	}
	var err error
	h.mu.Lock()
	if s.failAt == n {
		s.broken = true
		err = errors.New("scripted send failure")
	}
	h.exits++
	h.cond.Broadcast()
	h.mu.Unlock()
	if err != nil {
		s.breakIt()
	}
	return err
}

func (s *c16stream) Recv() error {
	h := s.h
	h.mu.Lock()
	h.recvIn[s.id] = true
	h.cond.Broadcast()
	h.mu.Unlock()
	<-s.recvFail
	return io.EOF
}

func sortNum(l []string) {
	sort.Slice(l, func(i, j int) bool {
		a, _ := strconv.Atoi(l[i])
		b, _ := strconv.Atoi(l[j])
		return a < b
	})
}

// waitFor waits until pred (evaluated under the lock) holds.
func (h *c16h) waitFor(d time.Duration, pred func() bool) bool {
	deadline := time.Now().Add(d)
	t := time.AfterFunc(d, func() { h.mu.Lock(); h.cond.Broadcast(); h.mu.Unlock() })
	defer t.Stop()
	h.mu.Lock()
	defer h.mu.Unlock()
	for !pred() {
		if time.Now().After(deadline) {
			return false
		}
		h.cond.Wait()
	}
	return true
}

func (c16) run(toks []string) string {
	h := &c16h{recvIn: map[int]bool{}, decisions: make(chan string)}
	h.cond = sync.NewCond(&h.mu)
	ctx, cancel := context.WithCancel(context.Background())
	maker := func(ctx context.Context) (config.VerifStream, error) {
		select {
		case d := <-h.decisions:
			if d == "F" {
				return nil, errors.New("scripted creation failure")
			}
			failAt, _ := strconv.Atoi(d[1:])
			h.mu.Lock()
			s := &c16stream{h: h, id: len(h.streams) + 1, failAt: failAt, recvFail: make(chan struct{})}
			h.streams = append(h.streams, s)
			h.mu.Unlock()
			return s, nil
		case <-ctx.Done():
			return nil, ctx.Err()
		}
	}
	cl := config.VerifNewSubClient(maker)
	runnerDone := make(chan struct{})
	go func() {
		defer close(runnerDone)
		for ctx.Err() == nil {
			cl.RunOnce(ctx)
			h.mu.Lock()
			h.downs++
			h.cond.Broadcast()
			h.mu.Unlock()
		}
	}()
	const wait = 2 * time.Second
	dep := map[string]bool{}
	up, hold, holdBusy := false, false, false
	snapHold := false // token K: the Send of the resubscription snapshot is blocked
	var cur *c16stream
	touched := map[string]bool{} // names changed behind a blocked sender
	fail := ""
	seen := func(from int, name string) bool { // a message after index from mentions name
		for _, m := range h.msgs[from:] {
			for _, x := range append(append([]string{}, m.sub...), m.unsub...) {
				if x == name {
					return true
				}
			}
		}
		return false
	}
	goDown := func(step int, downsBefore int) {
		if !h.waitFor(wait, func() bool { return h.downs > downsBefore }) {
			fail = fmt.Sprintf("stalled@%d", step)
		}
		up = false
	}
	release := func(step int) {
		h.mu.Lock()
		ch := h.holdCh
		h.holdCh = nil
		from := len(h.msgs)
		downs := h.downs
		h.mu.Unlock()
		hold = false
		if ch != nil {
			close(ch)
		}
		if !h.waitFor(wait, func() bool { return h.entries == h.exits || cur.broken }) {
			fail = fmt.Sprintf("stalled@%d", step)
			return
		}
		names := touched
		touched = map[string]bool{}
		holdBusy = false
		ok := h.waitFor(wait, func() bool {
			if cur.broken {
				return true
			}
			for n := range names {
				if !seen(from, n) {
					return false
				}
			}
			return h.entries == h.exits
		})
		if !ok {
			fail = fmt.Sprintf("stalled@%d", step)
			return
		}
		h.mu.Lock()
		broken := cur.broken
		h.mu.Unlock()
		if broken {
			goDown(step, downs)
		}
	}
	for i, t := range toks {
		step := i + 1
		if fail != "" {
			break
		}
		switch {
		case (t[0] == 's' || t[0] == 'u') && len(t) > 1:
			name := t[1:]
			eff := dep[name] != (t[0] == 's')
			dep[name] = t[0] == 's'
			h.mu.Lock()
			from := len(h.msgs)
			downs := h.downs
			h.mu.Unlock()
			done := make(chan struct{})
			go func() {
				if t[0] == 's' {
					cl.Subscribe(name)
				} else {
					cl.Unsubscribe(name)
				}
				close(done)
			}()
			select {
			case <-done:
			case <-time.After(wait):
				fail = fmt.Sprintf("blocked@%d", step)
				continue
			}
			if !eff || !up {
				continue
			}
			if hold && holdBusy {
				touched[name] = true
				continue
			}
			if !h.waitFor(wait, func() bool { return seen(from, name) && (hold || h.entries == h.exits) }) {
				fail = fmt.Sprintf("stalled@%d", step)
				continue
			}
			if hold {
				holdBusy = true
				continue
			}
			h.mu.Lock()
			broken := cur.broken
			h.mu.Unlock()
			if broken {
				goDown(step, downs)
			}
		case t == "K":
			// a stream is created and the Send of its resubscription snapshot blocks (until L): what callers change meanwhile must
			// not be lost when the snapshot has gone out
			if up {
				continue
			}
			h.mu.Lock()
			downs := h.downs
			nStreams := len(h.streams)
			entries := h.entries
			nonEmpty := false
			for _, v := range dep {
				if v {
					nonEmpty = true
				}
			}
			if nonEmpty {
				h.holdCh = make(chan struct{})
			}
			h.mu.Unlock()
			select {
			case h.decisions <- "C":
			case <-time.After(wait):
				fail = fmt.Sprintf("stalled@%d", step)
				continue
			}
			if !nonEmpty {
				// nothing to resubscribe: the stream is simply up
				ok := h.waitFor(wait, func() bool { return h.downs > downs || (len(h.streams) > nStreams && h.recvIn[h.streams[nStreams].id]) })
				if !ok {
					fail = fmt.Sprintf("stalled@%d", step)
					continue
				}
				h.mu.Lock()
				cur = h.streams[nStreams]
				up = h.downs == downs
				h.mu.Unlock()
				continue
			}
			if !h.waitFor(wait, func() bool { return h.entries > entries }) {
				fail = fmt.Sprintf("stalled@%d", step)
				continue
			}
			h.mu.Lock()
			cur = h.streams[nStreams]
			h.mu.Unlock()
			snapHold = true
		case t == "L" && snapHold:
			h.mu.Lock()
			ch := h.holdCh
			h.holdCh = nil
			downs := h.downs
			h.mu.Unlock()
			snapHold = false
			if ch != nil {
				close(ch)
			}
			// the stream is up once Recv has been entered; then whatever piled up is sent and the sender is idle again
			if !h.waitFor(wait, func() bool { return h.downs > downs || h.recvIn[cur.id] }) {
				fail = fmt.Sprintf("stalled@%d", step)
				continue
			}
			time.Sleep(20 * time.Millisecond)
			if !h.waitFor(wait, func() bool { return h.entries == h.exits }) {
				fail = fmt.Sprintf("stalled@%d", step)
				continue
			}
			h.mu.Lock()
			up = h.downs == downs
			h.mu.Unlock()
		case t == "F" || t[0] == 'C':
			if t != "F" && t != "C" {
				if _, err := strconv.Atoi(t[1:]); err != nil {
					return "bad-op"
				}
			}
			if up {
				continue // a stream exists: the maker is not consulted
			}
			if false {
				if _, err := strconv.Atoi(t[1:]); err != nil {
					return "bad-op"
				}
			}
			h.mu.Lock()
			downs := h.downs
			nStreams := len(h.streams)
			h.mu.Unlock()
			select {
			case h.decisions <- t:
			case <-time.After(wait):
				fail = fmt.Sprintf("stalled@%d", step)
				continue
			}
			if t == "F" {
				goDown(step, downs)
				continue
			}
			// the stream is up once Recv has been entered (resubscribe done), or down again if resubscribe failed
			ok := h.waitFor(wait, func() bool {
				if h.downs > downs {
					return true
				}
				return len(h.streams) > nStreams && h.recvIn[h.streams[nStreams].id]
			})
			if !ok {
				fail = fmt.Sprintf("stalled@%d", step)
				continue
			}
			h.mu.Lock()
			cur = h.streams[nStreams]
			up = h.downs == downs
			h.mu.Unlock()
		case t == "R":
			if hold || snapHold {
				return "bad-op"
			}
			if up {
				h.mu.Lock()
				downs := h.downs
				h.mu.Unlock()
				cur.breakIt()
				goDown(step, downs)
			}
		case t == "H":
			if snapHold {
				return "bad-op"
			}
			if up && !hold {
				hold, holdBusy = true, false
				h.mu.Lock()
				h.holdCh = make(chan struct{})
				h.mu.Unlock()
			}
		case t == "L":
			if hold {
				release(step)
			}
		default:
			return "bad-op"
		}
	}
	if hold && fail == "" {
		release(len(toks) + 1)
	}
	if snapHold {
		return "bad-op" // the script must release the snapshot with L
	}
	// result
	h.mu.Lock()
	var parts []string
	byStream := map[int][]string{}
	for _, m := range h.msgs {
		byStream[m.stream] = append(byStream[m.stream], "+"+strings.Join(m.sub, ".")+"-"+strings.Join(m.unsub, "."))
	}
	for _, s := range h.streams {
		parts = append(parts, fmt.Sprintf("%d:%s", s.id, strings.Join(byStream[s.id], ",")))
	}
	if ch := h.holdCh; ch != nil {
		h.holdCh = nil
		close(ch)
	}
	h.mu.Unlock()
	out := strings.Join(parts, "|")
	if out == "" {
		out = "-"
	}
	if fail != "" {
		out += " " + fail
	} else if up {
		out += " up=1"
	} else {
		out += " up=0"
	}
	// shut down
	cancel()
	h.mu.Lock()
	for _, s := range h.streams {
		s.breakIt()
	}
	h.mu.Unlock()
	select {
	case <-runnerDone:
	case <-time.After(wait):
		if fail == "" {
			out += " hung-at-exit"
		}
	}
	return out
}

func (c16) loop(n int) string {
	attempts := 0
	var mu sync.Mutex
	ctx, cancel := context.WithCancel(context.Background())
	defer cancel()
	reached := make(chan struct{})
	maker := func(ctx context.Context) (config.VerifStream, error) {
		mu.Lock()
		attempts++
		if attempts == n {
			close(reached)
		}
		mu.Unlock()
		return nil, errors.New("scripted creation failure")
	}
	cl := config.VerifNewSubClient(maker)
	done := make(chan struct{})
	go func() { cl.Run(ctx); close(done) }()
	select {
	case <-reached:
	case <-time.After(time.Duration(n)*1300*time.Millisecond + 2*time.Second):
		mu.Lock()
		defer mu.Unlock()
		return fmt.Sprintf("attempts=%d", attempts)
	}
	cancel()
	select {
	case <-done:
	case <-time.After(3 * time.Second):
		return "run-does-not-return-on-cancel"
	}
	return fmt.Sprintf("attempts>=%d", n)
}

func (c c16) Exec(op string) string {
	f := hx.Fields(op)
	if len(f) < 2 {
		return "bad-op"
	}
	switch f[0] {
	case "c16.run":
		return recoverStr(func() string { return c.run(f[1:]) })
	case "c16.loop":
		n, err := strconv.Atoi(f[1])
		if err != nil || n < 1 || n > 10 {
			return "bad-op"
		}
		return c.loop(n)
	}
	return "bad-op"
}

func (c c16) Gen(r *hx.Run) {
	rng := r.Rng
	basic := []string{
		"C s1", "s1 C", "s1 C u1", "C s1 s2 u1", "F s1 C", "s1 s2 C R s3 u1 C", "C s1 R C", "s1 C1 C", "C2 s1 s2 C", "C H s1 s2 s3 L",
		"C s1 H u1 s1 L", "C H s1 u1 L", "C s1 H s2 u1 s1 L", "C H s1 s2 L R u2 C", "C2 H s1 s2 L C",
		"s1 s2 s3 s4 s5 s6 s7 s8 s9 s10 s11 s12 s13 s14 s15 s16 s17 s18 C",
		"C R s1 s2 s3 s4 s5 s6 s7 s8 s9 s10 s11 s12 s13 s14 s15 s16 s17 s18 s19 s20 u3 C",
		"C s1 s2 R u1 u2 s1 s2 u1 u2 s1 s2 u1 u2 s1 s2 u1 u2 s1 s2 u1 u2 s3 C",
		"C H s1 s2 s3 s4 s5 s6 s7 s8 s9 s10 s11 s12 s13 s14 s15 s16 s17 s18 s19 L",
	}
	// changes made while the resubscription snapshot is being sent
	basic = append(basic, "s1 K s2 L", "s1 K u1 L", "s1 s2 K u1 s3 L", "s1 K u1 s1 L", "s1 K s2 u2 L u1", "s1 C R s2 K u1 u2 s3 L s4", "K s1 L", "s1 K L s2")
	for i := 0; i < r.N(20, 400); i++ {
		var tk []string
		for j := 0; j < 1+rng.Intn(3); j++ {
			tk = append(tk, fmt.Sprintf("s%d", 1+rng.Intn(4)))
		}
		tk = append(tk, "K")
		for j := 0; j < rng.Intn(5); j++ {
			tk = append(tk, fmt.Sprintf("%c%d", "su"[rng.Intn(2)], 1+rng.Intn(5)))
		}
		tk = append(tk, "L")
		for j := 0; j < rng.Intn(3); j++ {
			tk = append(tk, fmt.Sprintf("%c%d", "su"[rng.Intn(2)], 1+rng.Intn(5)))
		}
		basic = append(basic, strings.Join(tk, " "))
	}
	for _, b := range basic {
		r.Do("c16.run "+b, true, "basic")
	}
	r.Do("c16.loop 2", true, "loop")
	if r.Thorough() {
		r.Do("c16.loop 4", true, "loop")
	}
	for i := 0; i < r.N(250, 5000); i++ {
		names := 1 + rng.Intn(4)
		if rng.Intn(5) == 0 {
			names = 18 + rng.Intn(7)
		}
		n := 1 + rng.Intn(14)
		if names > 4 {
			n = 20 + rng.Intn(20)
		}
		up, hold := false, false
		var toks []string
		for j := 0; j < n; j++ {
			x := rng.Intn(20)
			switch {
			case x < 11:
				toks = append(toks, fmt.Sprintf("%c%d", "ssu"[rng.Intn(3)], 1+rng.Intn(names)))
			case x < 14 && !up:
				if rng.Intn(4) == 0 {
					toks = append(toks, fmt.Sprintf("C%d", 1+rng.Intn(4)))
					up = true // may break later; R/C on a broken stream are handled by the runner
				} else {
					toks = append(toks, "C")
					up = true
				}
			case x < 15 && !up:
				toks = append(toks, "F")
			case x < 16 && up && !hold:
				toks = append(toks, "R")
				up = false
			case x < 18 && up && !hold:
				toks = append(toks, "H")
				hold = true
			case x < 20 && hold:
				toks = append(toks, "L")
				hold = false
			default:
				toks = append(toks, fmt.Sprintf("%c%d", "su"[rng.Intn(2)], 1+rng.Intn(names)))
			}
		}
		if hold {
			toks = append(toks, "L")
		}
		if rng.Intn(3) > 0 {
			toks = append(toks, "C") // end with a stream attempt so that tracking is observable (ignored when already up)
		}
		line := "c16.run " + strings.Join(toks, " ")
		r.Do(line, strings.ContainsAny(line, "FRHC") && (strings.ContainsAny(line, "FRH") || names > 16), "hist")
	}
}
