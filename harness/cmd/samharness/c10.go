package main

import (
	"bytes"
	"fmt"
	"math"
	"math/rand"
	"strconv"
	"strings"

	"github.com/samaritan-proxy/samaritan/proc/redis"

	"verifharness/hx"
)

// C10: RESP codec.
//
//	c10.dec <bufsize> <hexchunk>…   -> messages decoded from the chunked stream: m1;m2;… (or -)
//	c10.dece <bufsize> <hexchunk>…  -> the same; the read that delivers the last bytes returns io.EOF with them
//	c10.enc <value>                  -> hex of the encoder's output
//	c10.btoi <hex>                   -> ok <n> | err
//	c10.itoa <int>                   -> hex
type c10 struct{}

func init() { props["C10"] = func() hx.Prop { return c10{} } }

func (c10) Rule() string {
	return "values from the RESP grammar (depth<=5, biased text lengths around 0/1/31..33/511..513/4095..4097/8191..8193, ints at table and digit-count " +
		"boundaries and int64 extremes), concatenated into streams and cut into chunks (all-at-once, byte-at-a-time, random cuts, cuts next to CR/LF/type bytes) " +
		"for buffer sizes {32,33,64,4096,8192,random}; plus inline commands, encoder, btoi64 and itoa cases. Non-trivial = a message spans >= 2 reads, or crosses " +
		"the 512/8192 allocator or buffer-size threshold, or nests >= 2 levels, or uses an int outside the itoa table; distinct by op line hash"
}

func recoverStr(f func() string) (out string) {
	defer func() {
		if r := recover(); r != nil {
			out = fmt.Sprintf("panic %v", r)
		}
	}()
	return f()
}

func (c10) Exec(op string) string {
	f := hx.Fields(op)
	if len(f) < 2 {
		return "bad-op"
	}
	switch f[0] {
	case "c10.dec", "c10.dece":
		sz, err := strconv.Atoi(f[1])
		if err != nil {
			return "bad-op"
		}
		var chunks [][]byte
		for _, h := range f[2:] {
			b, err := hx.Unhex(h)
			if err != nil {
				return "bad-op"
			}
			chunks = append(chunks, b)
		}
		return recoverStr(func() string {
			d := redis.VerifNewDecoder(&hx.ChunkReader{Chunks: chunks, ErrWithLast: f[0] == "c10.dece"}, sz)
			var vals []*redis.RespValue
			for {
				v, err := d.Decode()
				if err != nil {
					break
				}
				vals = append(vals, v)
			}
			// render only now: a value overwritten by later decoding (slab aliasing) shows up here
			if len(vals) == 0 {
				return "-"
			}
			parts := make([]string, len(vals))
			for i, v := range vals {
				parts[i] = hx.Render(v)
			}
			return strings.Join(parts, ";")
		})
	case "c10.enc":
		v, err := hx.ParseValue(f[1])
		if err != nil {
			return "bad-op"
		}
		return recoverStr(func() string {
			var b bytes.Buffer
			if err := redis.VerifEncode(&b, 4096, v); err != nil {
				return "err"
			}
			return hx.Hex(b.Bytes())
		})
	case "c10.btoi":
		b, err := hx.Unhex(f[1])
		if err != nil {
			return "bad-op"
		}
		return recoverStr(func() string {
			n, err := redis.VerifBtoi64(b)
			if err != nil {
				return "err"
			}
			return "ok " + strconv.FormatInt(n, 10)
		})
	case "c10.itoa":
		n, err := strconv.ParseInt(f[1], 10, 64)
		if err != nil {
			return "bad-op"
		}
		return recoverStr(func() string { return hx.Hex([]byte(redis.VerifItoa(n))) })
	}
	return "bad-op"
}

var c10Lens = []int{0, 1, 2, 3, 15, 30, 31, 32, 33, 34, 62, 63, 64, 65, 100, 255, 256, 509, 510, 511, 512, 513, 514, 1000,
	4093, 4094, 4095, 4096, 4097, 4098, 8189, 8190, 8191, 8192, 8193, 8194, 8200, 16384, 20000}

func genInt(rng *rand.Rand) int64 {
	switch rng.Intn(8) {
	case 0:
		return []int64{0, 1, -1, -127, -128, -129, 32767, 32768, 32769, 9, 10, 99, 100, -9, -10, math.MaxInt64, math.MinInt64,
			math.MaxInt64 - 1, math.MinInt64 + 1, 999999999, 1000000000, -999999999, -1000000000, 99999999, 4294967296}[rng.Intn(25)]
	case 1:
		return int64(rng.Intn(33000)) - 200
	case 2:
		p := int64(1)
		for i := rng.Intn(19); i > 0; i-- {
			p *= 10
		}
		return (p + int64(rng.Intn(3)) - 1) * int64(1-2*rng.Intn(2))
	default:
		return int64(rng.Uint64())
	}
}

func genText(rng *rand.Rand, noLF bool, big bool) []byte {
	var n int
	switch rng.Intn(6) {
	case 0:
		n = c10Lens[rng.Intn(len(c10Lens))]
	case 1:
		n = rng.Intn(600)
	default:
		n = rng.Intn(24)
	}
	if !big && n > 700 {
		n = rng.Intn(40)
	}
	b := make([]byte, n)
	mode := rng.Intn(4)
	for i := range b {
		switch mode {
		case 0:
			b[i] = byte(rng.Intn(256))
		case 1:
			b[i] = "\r\n $*+-:0a"[rng.Intn(10)]
		default:
			b[i] = byte('a' + rng.Intn(26))
		}
		if noLF && b[i] == '\n' {
			b[i] = '\r'
		}
	}
	return b
}

func genValue(rng *rand.Rand, depth int, big bool) *redis.RespValue {
	k := rng.Intn(10)
	if depth <= 0 && k >= 7 {
		k = rng.Intn(7)
	}
	switch k {
	case 0:
		return &redis.RespValue{Type: redis.Integer, Int: genInt(rng)}
	case 1:
		return &redis.RespValue{Type: redis.SimpleString, Text: genText(rng, true, big)}
	case 2:
		return &redis.RespValue{Type: redis.Error, Text: genText(rng, true, big)}
	case 3:
		return &redis.RespValue{Type: redis.BulkString}
	case 4, 5:
		return &redis.RespValue{Type: redis.BulkString, Text: genText(rng, false, big)}
	case 6:
		return &redis.RespValue{Type: redis.Array}
	default:
		n := rng.Intn(5)
		if rng.Intn(10) == 0 {
			n = rng.Intn(40)
		}
		arr := make([]redis.RespValue, n)
		for i := range arr {
			arr[i] = *genValue(rng, depth-1, false)
		}
		return &redis.RespValue{Type: redis.Array, Array: arr}
	}
}

func depthOf(v *redis.RespValue) int {
	if v.Type != redis.Array {
		return 0
	}
	d := 0
	for i := range v.Array {
		if x := depthOf(&v.Array[i]); x > d {
			d = x
		}
	}
	return d + 1
}

// cut splits data into chunks according to a strategy.
func cut(rng *rand.Rand, data []byte, strategy int) [][]byte {
	if len(data) == 0 {
		return nil
	}
	var cuts []int
	switch strategy {
	case 0: // all at once
	case 1: // byte at a time (bounded)
		if len(data) <= 3000 {
			for i := 1; i < len(data); i++ {
				cuts = append(cuts, i)
			}
		} else {
			for i := 1; i < len(data); i += 1 + rng.Intn(700) {
				cuts = append(cuts, i)
			}
		}
	case 2: // random cuts
		n := 1 + rng.Intn(8)
		for i := 0; i < n; i++ {
			cuts = append(cuts, 1+rng.Intn(len(data)))
		}
	case 3: // cuts next to CR / LF / type bytes
		for i, c := range data {
			if (c == '\r' || c == '\n' || c == '$' || c == '*') && rng.Intn(3) == 0 {
				cuts = append(cuts, i+rng.Intn(3)-1)
			}
		}
	}
	seen := map[int]bool{}
	var cs []int
	for _, c := range cuts {
		if c > 0 && c < len(data) && !seen[c] {
			seen[c] = true
			cs = append(cs, c)
		}
	}
	// sort
	for i := range cs {
		for j := i + 1; j < len(cs); j++ {
			if cs[j] < cs[i] {
				cs[i], cs[j] = cs[j], cs[i]
			}
		}
	}
	var out [][]byte
	prev := 0
	for _, c := range cs {
		out = append(out, data[prev:c])
		prev = c
	}
	return append(out, data[prev:])
}

func decOp(sz int, chunks [][]byte) string {
	var sb strings.Builder
	fmt.Fprintf(&sb, "c10.dec %d", sz)
	for _, c := range chunks {
		sb.WriteString(" " + hx.Hex(c))
	}
	return sb.String()
}

func (c10) Gen(r *hx.Run) {
	rng := r.Rng
	sizes := []int{32, 33, 64, 4096, 8192}
	// 1. encoder, and streams of encoded values under many chunkings
	nStreams := r.N(700, 12000)
	for i := 0; i < nStreams; i++ {
		nmsg := 1 + rng.Intn(4)
		var data []byte
		nontriv := false
		big := rng.Intn(12) == 0
		for j := 0; j < nmsg; j++ {
			v := genValue(rng, 1+rng.Intn(4), big)
			if j == 0 && rng.Intn(3) == 0 {
				r.Do("c10.enc "+hx.Render(v), depthOf(v) >= 2 || v.Type == redis.Integer && (v.Int < -128 || v.Int > 32768), "enc")
			}
			w := hx.Wire(v)
			if depthOf(v) >= 2 || len(w) >= 512 {
				nontriv = true
			}
			data = append(data, w...)
		}
		sz := sizes[rng.Intn(len(sizes))]
		if rng.Intn(6) == 0 {
			sz = 32 + rng.Intn(300)
		}
		for s := 0; s < 4; s++ {
			if s == 1 && len(data) > 3000 && rng.Intn(4) != 0 {
				continue
			}
			ch := cut(rng, data, s)
			r.Do(decOp(sz, ch), nontriv || len(ch) >= 2, fmt.Sprintf("dec-cut%d", s))
			r.Do(strings.Replace(decOp(sz, ch), "c10.dec ", "c10.dece ", 1), nontriv || len(ch) >= 2, "dec-data-with-eof")
		}
	}
	// 2. exhaustive split points (two chunks, and byte-at-a-time) for short messages
	nShort := r.N(40, 200)
	for i := 0; i < nShort; i++ {
		v := genValue(rng, 2, false)
		w := hx.Wire(v)
		if len(w) > 64 {
			continue
		}
		w = append(w, hx.Wire(genValue(rng, 1, false))...)
		if len(w) > 120 {
			continue
		}
		for c := 1; c < len(w); c++ {
			r.Do(decOp(32, [][]byte{w[:c], w[c:]}), true, "dec-allsplits")
			r.Do(strings.Replace(decOp(32, [][]byte{w[:c], w[c:]}), "c10.dec ", "c10.dece ", 1), true, "dec-data-with-eof")
		}
	}
	// 3. inline commands (and their array form goes through the same decoder)
	for i := 0; i < r.N(300, 5000); i++ {
		nt := rng.Intn(5)
		var sb bytes.Buffer
		for j := 0; j < rng.Intn(3); j++ {
			sb.WriteByte(' ')
		}
		for j := 0; j < nt; j++ {
			l := 1 + rng.Intn(6)
			if rng.Intn(20) == 0 {
				l = c10Lens[rng.Intn(len(c10Lens))]
			}
			for k := 0; k < l; k++ {
				c := byte(33 + rng.Intn(94))
				if k == 0 && (c == '+' || c == '-' || c == ':' || c == '$' || c == '*') && j == 0 {
					c = 'x'
				}
				sb.WriteByte(c)
			}
			for k := 0; k <= rng.Intn(3); k++ {
				sb.WriteByte(' ')
			}
		}
		sb.WriteString("\r\n")
		data := append(sb.Bytes(), hx.Wire(genValue(rng, 1, false))...)
		r.Do(decOp(sizes[rng.Intn(len(sizes))], cut(rng, data, rng.Intn(4))), true, "dec-inline")
	}
	// 4. malformed / truncated streams (the decoder must agree with the model on what precedes the error)
	for i := 0; i < r.N(500, 8000); i++ {
		v := genValue(rng, 2, false)
		w := append(hx.Wire(genValue(rng, 1, false)), hx.Wire(v)...)
		switch rng.Intn(5) {
		case 0:
			w = w[:rng.Intn(len(w)+1)]
		case 1:
			if len(w) > 0 {
				w[rng.Intn(len(w))] = byte(rng.Intn(256))
			}
		case 2:
			p := rng.Intn(len(w) + 1)
			ins := [][]byte{[]byte("$-2\r\n"), []byte("*-2\r\n"), []byte("$536870913\r\n"), []byte("*1048577\r\n"), []byte(":12a\r\n"),
				[]byte(":\r\n"), []byte("$3\r\nabcd\r\n"), []byte("+ok\n"), []byte(":9223372036854775808\r\n"), []byte(":-9223372036854775809\r\n"),
				[]byte(":+5\r\n"), []byte(":-0\r\n"), []byte(":00000000000000000000000000000000000007\r\n"), []byte("\r\n"), []byte(" \r\n")}[rng.Intn(15)]
			w = append(append(append([]byte{}, w[:p]...), ins...), w[p:]...)
		case 3:
			p := rng.Intn(len(w) + 1)
			w = append(append(append([]byte{}, w[:p]...), byte("\r\n:$*+-"[rng.Intn(7)])), w[p:]...)
		case 4:
			if len(w) > 2 {
				p := rng.Intn(len(w) - 1)
				w = append(append([]byte{}, w[:p]...), w[p+1:]...)
			}
		}
		r.Do(decOp(sizes[rng.Intn(len(sizes))], cut(rng, w, rng.Intn(4))), true, "dec-malformed")
	}
	// 5. integer fast path vs the standard library
	alpha := []byte("-+0129a_ ")
	maxL := r.N(3, 4)
	var rec func(cur []byte)
	rec = func(cur []byte) {
		r.Do("c10.btoi "+hx.Hex(cur), true, "btoi-enum")
		if len(cur) == maxL {
			return
		}
		for _, c := range alpha {
			rec(append(append([]byte{}, cur...), c))
		}
	}
	rec(nil)
	for i := 0; i < r.N(3000, 200000); i++ {
		var s string
		switch rng.Intn(4) {
		case 0:
			s = strconv.FormatInt(genInt(rng), 10)
		case 1:
			s = strconv.FormatUint(rng.Uint64(), 10)
			if rng.Intn(2) == 0 {
				s = "-" + s
			}
		case 2:
			l := rng.Intn(22)
			b := make([]byte, l)
			for j := range b {
				b[j] = "0123456789-+ax"[rng.Intn(14)]
			}
			s = string(b)
		default:
			s = strings.Repeat("0", rng.Intn(25)) + strconv.Itoa(rng.Intn(1000))
			if rng.Intn(3) == 0 {
				s = "-" + s
			}
		}
		r.Do("c10.btoi "+hx.Hex([]byte(s)), true, "btoi-random")
	}
	// 6. itoa: the whole table range and boundaries (exhaustive), random elsewhere
	for i := int64(-200); i <= 33000; i++ {
		if r.Thorough() || i < -100 || i > 32700 || i%37 == 0 {
			r.Do("c10.itoa "+strconv.FormatInt(i, 10), i < -128 || i > 32768, "itoa-table")
		}
	}
	for i := 0; i < r.N(500, 20000); i++ {
		n := genInt(rng)
		r.Do("c10.itoa "+strconv.FormatInt(n, 10), n < -128 || n > 32768, "itoa-random")
	}
	// 7. a few large messages (allocator's own-allocation path, direct reads bypassing the window)
	for i := 0; i < r.N(6, 60); i++ {
		n := []int{70000, 262144, 300000, 1 << 20}[rng.Intn(r.N(3, 4))]
		body := make([]byte, n)
		rng.Read(body)
		v := &redis.RespValue{Type: redis.Array, Array: []redis.RespValue{{Type: redis.BulkString, Text: body}, {Type: redis.Integer, Int: 7}}}
		w := append(hx.Wire(v), hx.Wire(genValue(rng, 1, false))...)
		r.Do(decOp(sizes[3+rng.Intn(2)], cut(rng, w, 2)), true, "dec-large")
	}
}
