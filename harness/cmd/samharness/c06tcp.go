package main

import (
	"fmt"
	"net"
	"sort"
	"strconv"
	"strings"
	"sync"
	"time"

	"github.com/samaritan-proxy/samaritan/host"
	"github.com/samaritan-proxy/samaritan/pb/config/service"
	"github.com/samaritan-proxy/samaritan/proc/verifexport"

	"verifharness/hx"
)

// c06.tcp <R|L> <nbackends> <action>…   a real TCP processor over scripted backends (indexed in address order).
//
//	c        connect: the index of the backend that greeted, or x when the proxy closed the connection (kept open)
//	c<a>.<b> connect with the two random samples of the least-connection policy scripted
//	d<i>     backend i stops listening (dials are refused); u<i> listens again
//	r<i>     remove host i the way the controller does (a fresh equal object): number of held connections to i that get closed
//	a<i>     add host i (a fresh object)
//	k        close all held connections at both ends and wait until the proxy has released them
//	         (a client that closes alone leaves a half-closed relay, which still counts for least-connection)
//	-> results of the c and r actions, ','-separated
type greetBackend struct {
	idx  int
	addr string
	ln   net.Listener
	mu   sync.Mutex
	held []net.Conn
}

func (g *greetBackend) takeHeld() []net.Conn {
	g.mu.Lock()
	defer g.mu.Unlock()
	h := g.held
	g.held = nil
	return h
}

func (g *greetBackend) listen() error {
	ln, err := net.Listen("tcp", g.addr)
	if err != nil {
		return err
	}
	g.ln = ln
	go func() {
		for {
			c, err := ln.Accept()
			if err != nil {
				return
			}
			g.mu.Lock()
			g.held = append(g.held, c)
			g.mu.Unlock()
			c.Write([]byte{byte('0' + g.idx)})
		}
	}()
	return nil
}

func execC06TCP(f []string) string {
	if len(f) < 4 {
		return "bad-op"
	}
	policy := service.LoadBalancePolicy_ROUND_ROBIN
	if f[1] == "L" {
		policy = service.LoadBalancePolicy_LEAST_CONNECTION
	}
	n, err := strconv.Atoi(f[2])
	if err != nil || n < 0 || n > 8 {
		return "bad-op"
	}
	// allocate n addresses and index them in address (string) order, which is the order of Set.Healthy()
	var addrs []string
	for i := 0; i < n; i++ {
		l, err := net.Listen("tcp", "127.0.0.1:0")
		if err != nil {
			return "sockerr"
		}
		addrs = append(addrs, l.Addr().String())
		l.Close()
	}
	sort.Strings(addrs)
	bes := make([]*greetBackend, n)
	var hosts []*host.Host
	for i, a := range addrs {
		bes[i] = &greetBackend{idx: i, addr: a}
		if err := bes[i].listen(); err != nil {
			return "sockerr"
		}
		hosts = append(hosts, host.New(a))
	}
	objs := append([]*host.Host{}, hosts...) // every host object handed to the processor
	defer func() {
		for _, b := range bes {
			if b.ln != nil {
				b.ln.Close()
			}
			for _, c := range b.takeHeld() {
				c.Close()
			}
		}
	}()
	p, err := hx.NewTCPProc(policy, 5*time.Second, 0, hosts)
	if err != nil {
		return "procerr"
	}
	defer hx.DropScopes("service." + p.Name() + ".") // runs after the Stop registered below
	defer p.Stop()
	type heldConn struct {
		c   net.Conn
		idx int
	}
	var held []heldConn
	var out []string
	for _, a := range f[3:] {
		switch {
		case a[0] == 'c':
			if len(a) > 1 {
				p2 := strings.Split(a[1:], ".")
				if len(p2) != 2 {
					return "bad-op"
				}
				r1, _ := strconv.Atoi(p2[0])
				r2, _ := strconv.Atoi(p2[1])
				calls := 0
				verifexport.SetRandInt(func() int {
					calls++
					if calls == 1 {
						return r1
					}
					return r2
				})
			}
			c, err := net.Dial("tcp", p.Address())
			if err != nil {
				out = append(out, "x")
				continue
			}
			c.SetReadDeadline(time.Now().Add(2 * time.Second))
			b := make([]byte, 1)
			if _, err := c.Read(b); err != nil {
				c.Close()
				out = append(out, "x")
				continue
			}
			held = append(held, heldConn{c, int(b[0] - '0')})
			out = append(out, string(b))
		case a[0] == 'd' || a[0] == 'u' || a[0] == 'r' || a[0] == 'a':
			i, err := strconv.Atoi(a[1:])
			if err != nil || i < 0 || i >= n {
				return "bad-op"
			}
			switch a[0] {
			case 'd':
				if bes[i].ln != nil {
					bes[i].ln.Close()
					bes[i].ln = nil
				}
			case 'u':
				if bes[i].ln == nil {
					for t := 0; t < 50; t++ {
						if bes[i].listen() == nil {
							break
						}
						time.Sleep(10 * time.Millisecond)
					}
				}
			case 'a':
				h := host.New(addrs[i])
				objs = append(objs, h)
				p.OnSvcHostAdd([]*host.Host{h})
			case 'r':
				p.OnSvcHostRemove([]*host.Host{host.New(addrs[i])})
				closed := 0
				var rest []heldConn
				for _, h := range held {
					if h.idx != i {
						rest = append(rest, h)
						continue
					}
					h.c.SetReadDeadline(time.Now().Add(700 * time.Millisecond))
					b := make([]byte, 1)
					if _, err := h.c.Read(b); err != nil {
						if ne, ok := err.(net.Error); ok && ne.Timeout() {
							rest = append(rest, h) // still open
							continue
						}
						closed++
						h.c.Close()
					}
				}
				held = rest
				out = append(out, fmt.Sprintf("r%d", closed))
			}
		case a == "k":
			for _, h := range held {
				h.c.Close()
			}
			held = nil
			for _, b := range bes {
				for _, c := range b.takeHeld() {
					c.Close()
				}
			}
			for t := 0; t < 2000; t++ {
				busy := false
				for _, h := range objs {
					if h.ConnCount() != 0 {
						busy = true
					}
				}
				if !busy {
					break
				}
				time.Sleep(time.Millisecond)
			}
		default:
			return "bad-op"
		}
	}
	for _, h := range held {
		h.c.Close()
	}
	if len(out) == 0 {
		return "-"
	}
	return strings.Join(out, ",")
}
