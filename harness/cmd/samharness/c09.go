package main

import (
	"bytes"
	"fmt"
	"net"
	"os"
	"runtime"
	"strconv"
	"strings"
	"sync"
	"sync/atomic"
	"time"

	"github.com/samaritan-proxy/samaritan/host"
	"github.com/samaritan-proxy/samaritan/pb/common"
	"github.com/samaritan-proxy/samaritan/pb/config/protocol"
	pbredis "github.com/samaritan-proxy/samaritan/pb/config/protocol/redis"
	"github.com/samaritan-proxy/samaritan/pb/config/service"
	"github.com/samaritan-proxy/samaritan/proc"
	"github.com/samaritan-proxy/samaritan/proc/redis" // also registers the Redis builder

	"verifharness/hx"
)

// C09: stop and drain always complete and release what they hold.
//
//	c09.life <T|R> <backend r|s|c> <limit> <token>…   a real processor (proc.New) of the TCP or Redis protocol with one backend that is
//	     responsive (answers / echoes, closes when the proxy closes), silent (accepts, never answers, never closes) or closed (refuses)
//	   B  another socket occupies the service's port (bind will be retried)      b  it is released
//	   Pe Pb Pk  arm a park at: entry of Serve / between bind and publication of the listener / in Stop after it took the registry     Re Rb Rk  release
//	   S  Start        o  open a client connection and send one request / some bytes (O: 40 pipelined requests)      x<i> the client closes connection i
//	   D  StopListen   K  Stop (asynchronously)      w  wait 60 ms
//	   -> stop=<ok|hangs|none> port=<closed|open|unbound> served=<per connection: y served, n closed at once, r refused> down=<closed>/<opened> up=<closed>/<accepted> leaked=<0|n goroutines>
//	      measured 2.5 s after Stop was called (everything parked is released right after K … w)
type c09 struct{ iso *hx.Isolated }
type c09child struct{}

func init() {
	props["C09"] = func() hx.Prop { return &c09{iso: &hx.Isolated{Prop: "C09", Timeout: 40 * time.Second}} }
	props["C09-CHILD"] = func() hx.Prop { return c09child{} }
}

func (*c09) Rule() string {
	return "life cycles of real TCP and Redis processors: Stop and StopListen placed before the bind, during bind retries (port occupied), between bind and publication, right after start, with active connections, " +
		"with requests in flight to responsive, silent and closed backends; connection limits 0..3 with arrivals over the limit; bursts of 4..31 clients connecting at the same moment against limits 1..4 (exactly the limit is served); Stop of a Redis service while a backend connection's read loop is parked between the quit check of MakeRequestToHost and createClient. Non-trivial = Stop/StopListen at a parked point, or with an open connection, or a non-responsive backend; distinct by op line"
}
func (c *c09) Exec(op string) string { return c.iso.Exec(op) }
func (c09child) Rule() string        { return "" }
func (c09child) Gen(*hx.Run)         {}

var c09seq int

func (c09child) life(f []string) string {
	if len(f) < 4 {
		return "bad-op"
	}
	proto, mode := f[0], f[1]
	limit, err := strconv.Atoi(f[2])
	if err != nil || (proto != "T" && proto != "R") || (mode != "r" && mode != "s" && mode != "c") {
		return "bad-op"
	}
	baseG := runtime.NumGoroutine()
	// backend
	var beMu sync.Mutex
	var beConns []net.Conn
	beClosed := 0
	bln, err := net.Listen("tcp", "127.0.0.1:0")
	if err != nil {
		return "sockerr"
	}
	beAddr := bln.Addr().String()
	if mode == "c" {
		bln.Close()
	} else {
		go func() {
			for {
				c, err := bln.Accept()
				if err != nil {
					return
				}
				beMu.Lock()
				beConns = append(beConns, c)
				beMu.Unlock()
				go func(c net.Conn) {
					buf := make([]byte, 4096)
					for {
						n, err := c.Read(buf)
						if err != nil {
							beMu.Lock()
							beClosed++
							beMu.Unlock()
							if mode == "r" {
								c.Close()
							}
							return
						}
						if mode == "r" {
							if proto == "T" {
								c.Write(buf[:n])
							} else {
								// answer every command with +OK (READONLY, CLUSTER NODES → not a bulk: refresh fails, routing falls back to the seed host)
								for i := 0; i < strings.Count(string(buf[:n]), "*"); i++ {
									c.Write([]byte("+OK\r\n"))
								}
							}
						}
					}
				}(c)
			}
		}()
	}
	// the service's port
	pl, err := net.Listen("tcp", "127.0.0.1:0")
	if err != nil {
		return "sockerr"
	}
	port := pl.Addr().(*net.TCPAddr).Port
	pl.Close()
	svcAddr := fmt.Sprintf("127.0.0.1:%d", port)
	var blocker net.Listener
	ct, it := 300*time.Millisecond, 10*time.Minute
	cfg := &service.Config{
		Listener:       &service.Listener{Address: &common.Address{Ip: "127.0.0.1", Port: uint32(port)}, ConnectionLimit: uint32(limit)},
		ConnectTimeout: &ct,
		IdleTimeout:    &it,
	}
	if proto == "T" {
		cfg.Protocol = protocol.TCP
		cfg.ProtocolOptions = &service.Config_TcpOption{TcpOption: &protocol.TCPOption{}}
	} else {
		cfg.Protocol = protocol.Redis
		cfg.ProtocolOptions = &service.Config_RedisOption{RedisOption: &protocol.RedisOption{ReadStrategy: pbredis.ReadStrategy_MASTER}}
	}
	c09seq++
	p, err := proc.New(fmt.Sprintf("verif-c09-%d", c09seq), cfg, []*host.Host{host.New(beAddr)})
	if err != nil {
		return "procerr " + err.Error()
	}
	defer hx.DropScopes("service." + p.Name() + ".")
	// pause points
	var pmu sync.Mutex
	armed := map[string]bool{}
	gates := map[string]chan struct{}{"listener.serve.enter": make(chan struct{}), "listener.bound": make(chan struct{}), "listener.stop.taken": make(chan struct{})}
	proc.VerifSetPause(func(point string, obj interface{}) {
		pmu.Lock()
		a := armed[point]
		ch := gates[point]
		pmu.Unlock()
		if a {
			<-ch
		}
	})
	defer proc.VerifSetPause(nil)
	release := func(point string) {
		pmu.Lock()
		if armed[point] {
			armed[point] = false
			close(gates[point])
			gates[point] = make(chan struct{})
		}
		pmu.Unlock()
	}
	started := false
	stopCalled := false
	stopDone := make(chan struct{})
	var clients []net.Conn
	var served []byte
	for _, t := range f[3:] {
		switch t {
		case "B":
			if blocker == nil {
				blocker, err = net.Listen("tcp", svcAddr)
				if err != nil {
					return "sockerr"
				}
			}
		case "b":
			if blocker != nil {
				blocker.Close()
				blocker = nil
				time.Sleep(600 * time.Millisecond) // the bind is retried every 500 ms
			}
		case "Pe", "Pb", "Pk":
			pmu.Lock()
			armed[map[string]string{"Pe": "listener.serve.enter", "Pb": "listener.bound", "Pk": "listener.stop.taken"}[t]] = true
			pmu.Unlock()
		case "Rk":
			release("listener.stop.taken")
			time.Sleep(30 * time.Millisecond)
		case "Re":
			release("listener.serve.enter")
			time.Sleep(30 * time.Millisecond)
		case "Rb":
			release("listener.bound")
			time.Sleep(30 * time.Millisecond)
		case "S":
			if !started {
				started = true
				if err := p.Start(); err != nil {
					return "starterr"
				}
				time.Sleep(40 * time.Millisecond)
			}
		case "o", "O":
			c, err := net.DialTimeout("tcp", svcAddr, 300*time.Millisecond)
			if err != nil || blocker != nil {
				if c != nil {
					c.Close()
				}
				clients = append(clients, nil)
				served = append(served, 'r')
				continue
			}
			clients = append(clients, c)
			if proto == "T" {
				c.Write([]byte("hello"))
			} else {
				n := 1
				if t == "O" {
					n = 40 // more than the 32 replies a session keeps in order: its reader ends up waiting for room, not reading
				}
				c.Write(bytes.Repeat([]byte("*2\r\n$3\r\nget\r\n$1\r\nk\r\n"), n))
			}
			// served = the proxy does not close it at once
			c.SetReadDeadline(time.Now().Add(120 * time.Millisecond))
			var b [64]byte
			_, err = c.Read(b[:])
			c.SetReadDeadline(time.Time{})
			if ne, ok := err.(net.Error); err == nil || (ok && ne.Timeout()) {
				served = append(served, 'y')
			} else {
				served = append(served, 'n')
				c.Close()
				clients[len(clients)-1] = nil
			}
		case "D":
			p.StopListen()
			time.Sleep(30 * time.Millisecond)
		case "K":
			if !stopCalled {
				stopCalled = true
				go func() { p.Stop(); close(stopDone) }()
				time.Sleep(30 * time.Millisecond)
			}
		case "w":
			time.Sleep(60 * time.Millisecond)
		default:
			if t[0] == 'x' {
				i, err := strconv.Atoi(t[1:])
				if err != nil || i < 0 || i >= len(clients) {
					return "bad-op"
				}
				if clients[i] != nil {
					clients[i].Close()
					clients[i] = nil
					time.Sleep(30 * time.Millisecond)
				}
				continue
			}
			return "bad-op"
		}
	}
	release("listener.serve.enter")
	release("listener.bound")
	release("listener.stop.taken")
	stop := "none"
	if stopCalled {
		select {
		case <-stopDone:
			stop = "ok"
		case <-time.After(2500 * time.Millisecond):
			stop = "hangs"
			if f := os.Getenv("VERIF_C09_STACKS"); f != "" {
				buf := make([]byte, 1<<20)
				os.WriteFile(f, buf[:runtime.Stack(buf, true)], 0o644)
			}
		}
	}
	if blocker != nil {
		blocker.Close()
	}
	// what is left open?
	portState := "unbound"
	if started {
		if c, err := net.DialTimeout("tcp", svcAddr, 200*time.Millisecond); err == nil {
			c.Close()
			portState = "open"
		} else {
			portState = "closed"
		}
	}
	opened, downClosed := 0, 0
	for _, c := range clients {
		if c == nil {
			continue
		}
		opened++
		c.SetReadDeadline(time.Now().Add(150 * time.Millisecond))
		var b [64]byte
		for {
			_, err := c.Read(b[:])
			if err == nil {
				continue
			}
			if ne, ok := err.(net.Error); !(ok && ne.Timeout()) {
				downClosed++
			}
			break
		}
	}
	time.Sleep(50 * time.Millisecond)
	beMu.Lock()
	accepted, upClosed := len(beConns), beClosed
	beMu.Unlock()
	out := fmt.Sprintf("stop=%s port=%s served=%s down=%d/%d up=%d/%d", stop, portState, orDot(string(served)), downClosed, opened, upClosed, accepted)
	// cleanup and goroutine accounting (only meaningful when Stop returned)
	for _, c := range clients {
		if c != nil {
			c.Close()
		}
	}
	if mode != "c" {
		bln.Close()
	}
	beMu.Lock()
	for _, c := range beConns {
		c.Close()
	}
	beMu.Unlock()
	if !stopCalled {
		go func() { p.Stop(); close(stopDone) }()
		select {
		case <-stopDone:
		case <-time.After(2 * time.Second):
		}
	}
	leaked := 0
	if stop != "hangs" {
		for i := 0; i < 40; i++ {
			time.Sleep(25 * time.Millisecond)
			leaked = runtime.NumGoroutine() - baseG
			if leaked <= 0 {
				leaked = 0
				break
			}
		}
	}
	return out + fmt.Sprintf(" leaked=%d", leaked)
}

func orDot(s string) string {
	if s == "" {
		return "."
	}
	return s
}

func (c c09child) Exec(op string) string {
	f := hx.Fields(op)
	if len(f) >= 4 && f[0] == "c09.burst" {
		return recoverStr(func() string { return c.burst(f[1:]) })
	}
	if len(f) >= 2 && f[0] == "c09.table" {
		return recoverStr(func() string { return c.table(f[1:]) })
	}
	if len(f) == 1 && f[0] == "c09.create" {
		return recoverStr(c.parkCreate)
	}
	if len(f) == 1 && f[0] == "c09.replace" {
		return recoverStr(c.replace)
	}
	if len(f) == 2 && f[0] == "c09.redir" {
		return recoverStr(func() string { return c.redir(f[1]) })
	}
	if len(f) < 2 || f[0] != "c09.life" {
		return "bad-op"
	}
	return recoverStr(func() string { return c.life(f[1:]) })
}

// c09.redir <k|d|n>   a Redis processor in front of node A, which answers GET with MOVED to node B (no connection to B yet). The read
// loop of A's connection is parked right after the quit check of MakeRequestToHost (pause point upstream.request.checked reached
// from loopRead).  k: Stop is called while it is parked, 150 ms later it is released;  d: the same with node B silent (its accept
// is delayed by 200 ms);  n: it is released first, then Stop;  h: no parking — the connect to B hangs (full backlog) while Stop is
// called, then B accepts again and the connect completes about a second later: Stop must have waited for it and closed it.
//
//	-> stop=<ok|hangs> up=<closed>/<accepted> leaked=<goroutines>   (measured up to 2.5 s after Stop was called)
func (c09child) redir(mode string) string {
	if mode != "k" && mode != "d" && mode != "n" && mode != "h" && mode != "f" && mode != "g" && mode != "a" {
		return "bad-op"
	}
	// a: the routing table is loaded: node B (silent) owns every slot but that of key "ka", which node A owns and answers ASK for.  One
	// client's MGET fills B's queue — its session waits there for room, holding the turn on B's connection; a second client's GET ka
	// is answered ASK by A, whose read loop resends ASKING + GET as a group to B's connection and waits for the turn.  Then node A is
	// removed from the service (that stops A's connection whatever order Stop would take), then Stop.
	full := mode == "f" || mode == "g" || mode == "a"
	var bGot int32
	baseG := runtime.NumGoroutine()
	var mu sync.Mutex
	accepted, closed := 0, 0
	serveConn := func(c net.Conn, reply func(cmd string) string, delay time.Duration) {
		mu.Lock()
		accepted++
		mu.Unlock()
		defer func() {
			c.Close()
			mu.Lock()
			closed++
			mu.Unlock()
		}()
		time.Sleep(delay)
		dec := redis.VerifNewDecoder(c, 4096)
		for {
			v, err := dec.Decode()
			if err != nil {
				return
			}
			cmd := ""
			if len(v.Array) > 0 {
				cmd = strings.ToLower(string(v.Array[0].Text))
			}
			rep := reply(cmd)
			if rep == "" {
				continue // reads, never answers
			}
			if _, err := c.Write([]byte(rep)); err != nil {
				return
			}
		}
	}
	serveNode := func(ln net.Listener, reply func(cmd string) string, delay time.Duration) {
		for {
			c, err := ln.Accept()
			if err != nil {
				return
			}
			go serveConn(c, reply, delay)
		}
	}
	lnA, err := net.Listen("tcp", "127.0.0.1:0")
	if err != nil {
		return "sockerr"
	}
	defer lnA.Close()
	// mode h: connects to B hang (and complete about a second later, once B accepts again)
	var hang *hx.HangListener
	var lnB net.Listener
	addrB := ""
	if mode == "h" {
		hang, err = hx.NewHangListener()
		if err != nil {
			return "sockerr"
		}
		defer hang.Close()
		addrB = hang.Addr
	} else {
		lnB, err = net.Listen("tcp", "127.0.0.1:0")
		if err != nil {
			return "sockerr"
		}
		defer lnB.Close()
		addrB = lnB.Addr().String()
	}
	// mode a: the routing table is loaded — node A owns the slot of key "ka" only and answers ASK for it, node B owns every other slot
	kaSlot := hx.SlotOf([]byte("ka"))
	nodesA := func() string {
		t := fmt.Sprintf("ida %s@1 master - 0 0 1 connected %d\nidb %s@1 master - 0 0 1 connected 0-%d %d-16383\n", lnA.Addr().String(), kaSlot, addrB, kaSlot-1, kaSlot+1)
		return fmt.Sprintf("$%d\r\n%s\r\n", len(t), t)
	}
	go serveNode(lnA, func(cmd string) string {
		if mode == "a" && cmd == "cluster" {
			return nodesA()
		}
		if mode == "a" && cmd == "readonly" {
			return "+OK\r\n"
		}
		if cmd == "get" && mode == "a" {
			return fmt.Sprintf("-ASK %d %s\r\n", kaSlot, addrB)
		}
		if cmd == "get" {
			return "-MOVED 1 " + addrB + "\r\n"
		}
		return "-ERR not now\r\n"
	}, 0)
	bDelay := time.Duration(0)
	if mode == "d" {
		bDelay = 200 * time.Millisecond
	}
	replyB := func(cmd string) string {
		if mode == "a" && cmd == "cluster" {
			return nodesA()
		}
		if mode == "a" && cmd == "readonly" {
			return "+OK\r\n"
		}
		if full {
			atomic.AddInt32(&bGot, 1)
			return ""
		}
		if cmd == "get" {
			return "$1\r\nv\r\n"
		}
		return "-ERR not now\r\n"
	}
	if lnB != nil {
		go serveNode(lnB, replyB, bDelay)
	}
	reached, release := make(chan struct{}), make(chan struct{})
	var once sync.Once
	redis.VerifSetPause(func(point string, obj interface{}) {
		if point != "upstream.request.checked" || full {
			return
		}
		if mode == "h" {
			// only signal that the read loop is on its way to the (hanging) connect
			var pcs [32]uintptr
			n := runtime.Callers(2, pcs[:])
			fr := runtime.CallersFrames(pcs[:n])
			for {
				f, more := fr.Next()
				if strings.HasSuffix(f.Function, "(*client).loopRead") {
					once.Do(func() { close(reached) })
					return
				}
				if !more {
					return
				}
			}
		}
		var pcs [32]uintptr
		n := runtime.Callers(2, pcs[:])
		fr := runtime.CallersFrames(pcs[:n])
		for {
			f, more := fr.Next()
			if strings.HasSuffix(f.Function, "(*client).loopRead") {
				parked := false
				once.Do(func() { parked = true; close(reached) })
				if parked {
					<-release
				}
				return
			}
			if !more {
				return
			}
		}
	})
	defer redis.VerifSetPause(nil)
	ct := time.Second
	if mode == "h" {
		ct = 4 * time.Second // the pending connect completes with the SYN retransmission after about a second
	}
	cfg := &service.Config{
		Listener:        &service.Listener{Address: &common.Address{Ip: "127.0.0.1", Port: 0}},
		ConnectTimeout:  &ct,
		Protocol:        protocol.Redis,
		ProtocolOptions: &service.Config_RedisOption{RedisOption: &protocol.RedisOption{ReadStrategy: pbredis.ReadStrategy_MASTER}},
	}
	c09seq++
	hostsR := []*host.Host{host.New(lnA.Addr().String())}
	if mode == "a" {
		hostsR = append(hostsR, host.New(addrB))
	}
	p, err := proc.New(fmt.Sprintf("verif-c09r-%d", c09seq), cfg, hostsR)
	if err != nil {
		return "procerr"
	}
	defer hx.DropScopes("service." + p.Name() + ".")
	if err := p.Start(); err != nil {
		return "procerr"
	}
	// (Address reads the listener field without the lock Serve publishes it under: do not look while it is being written)
	time.Sleep(2 * time.Millisecond)
	for i := 0; i < 400 && p.Address() == ""; i++ {
		time.Sleep(time.Millisecond)
	}
	cl, err := hx.DialClient(p.Address())
	if err != nil {
		p.Stop()
		return "sockerr"
	}
	defer cl.C.Close()
	if full {
		// one MGET of 2100 keys: 2100 GETs to A, each answered MOVED to B, which reads and never answers. With 2049 of them
		// outstanding on B's connection (its two queues and the one in its writer's hand) the read loop of A's connection waits
		// in B's Send.  f: Stop;  g: node A is removed from the service first.
		if mode == "a" {
			time.Sleep(150 * time.Millisecond) // the routing table is loaded right after start
		}
		args := [][]byte{[]byte("mget")}
		nkeys := 2100
		for i := 0; len(args) <= nkeys; i++ {
			k := []byte(fmt.Sprintf("k%d", i))
			if mode == "a" && hx.SlotOf(k) == kaSlot {
				continue // (mode a: every key of the MGET belongs to node B; the session itself waits for room in B's queue)
			}
			args = append(args, k)
		}
		if err := cl.Write(args...); err != nil {
			p.Stop()
			return "sockerr"
		}
		// (B sees roughly a thousand of them: its connection's writer stops once 1024 requests wait for answers, and what it
		// encoded last may still sit in its buffer.)  Wait until nothing more arrives at B.
		last, still := int32(-1), 0
		for i := 0; i < 500 && still < 30; i++ {
			time.Sleep(10 * time.Millisecond)
			if n := atomic.LoadInt32(&bGot); n == last && n > 0 {
				still++
			} else {
				last, still = n, 0
			}
		}
		if atomic.LoadInt32(&bGot) == 0 {
			p.Stop()
			return "not-parked"
		}
		if mode == "a" {
			// a second client asks for ka: node A answers ASK, the read loop of A's connection resends ASKING and the GET as a
			// group to B's connection — whose turn the first client's session holds while it waits for room
			if c2, err := hx.DialClient(p.Address()); err == nil {
				defer c2.C.Close()
				c2.Write([]byte("get"), []byte("ka"))
			}
			time.Sleep(250 * time.Millisecond)
		}
		res := "ok"
		if mode == "g" || mode == "a" { // (a: the removal of node A stops A's connection whatever the order in which Stop would take them)
			rmDone := make(chan struct{})
			go func() { p.OnSvcHostRemove([]*host.Host{host.New(lnA.Addr().String())}); close(rmDone) }()
			select {
			case <-rmDone:
			case <-time.After(2500 * time.Millisecond):
				res = "hangs"
			}
		}
		stopDone := make(chan struct{})
		go func() { p.Stop(); close(stopDone) }()
		select {
		case <-stopDone:
		case <-time.After(2500 * time.Millisecond):
			res = "hangs"
		}
		cl.C.Close()
		leaked := 0
		for i := 0; i < 150; i++ {
			mu.Lock()
			a, c := accepted, closed
			mu.Unlock()
			leaked = runtime.NumGoroutine() - baseG - 2
			if a == c && leaked <= 0 {
				break
			}
			time.Sleep(10 * time.Millisecond)
		}
		if leaked < 0 {
			leaked = 0
		}
		mu.Lock()
		defer mu.Unlock()
		return fmt.Sprintf("stop=%s up=%d/%d leaked=%d", res, closed, accepted, leaked)
	}
	if err := cl.Write([]byte("get"), []byte("k")); err != nil {
		p.Stop()
		return "sockerr"
	}
	select {
	case <-reached:
	case <-time.After(3 * time.Second):
		close(release)
		p.Stop()
		return "not-parked"
	}
	stopDone := make(chan struct{})
	stop := func() { go func() { p.Stop(); close(stopDone) }() }
	wait := 2500 * time.Millisecond
	if mode == "h" {
		// the connect to B is pending (createClient holds the lock): Stop, then let B accept again
		time.Sleep(100 * time.Millisecond)
		stop()
		time.Sleep(200 * time.Millisecond)
		hang.Release(func(c net.Conn) { serveConn(c, replyB, 0) })
		close(release)
		wait = 4 * time.Second
	} else if mode == "n" {
		close(release)
		time.Sleep(50 * time.Millisecond)
		stop()
	} else {
		stop()
		time.Sleep(150 * time.Millisecond)
		close(release)
	}
	res := "hangs"
	select {
	case <-stopDone:
		res = "ok"
	case <-time.After(wait):
	}
	cl.C.Close()
	if mode == "h" {
		// a connection published after Stop's snapshot shows up only once its connect has completed
		time.Sleep(1200 * time.Millisecond)
	}
	leaked := 0
	for i := 0; i < 100; i++ {
		mu.Lock()
		a, c := accepted, closed
		mu.Unlock()
		leaked = runtime.NumGoroutine() - baseG - 2 // the two accept loops of this op
		if a == c && leaked <= 0 {
			break
		}
		time.Sleep(10 * time.Millisecond)
	}
	if leaked < 0 {
		leaked = 0
	}
	mu.Lock()
	defer mu.Unlock()
	return fmt.Sprintf("stop=%s up=%d/%d leaked=%d", res, closed, accepted, leaked)
}

// c09.replace   a Redis processor in front of one node.  A request makes the connection c1.  The host list is replaced by an equal one
// (OnSvcAllHostReplace): the connection table is emptied and c1 is stopped — its Start is parked before its final drain (pause point
// client.start.drain), so c1 has not yet taken itself out of the table.  A second request makes the connection c2.  c1 goes on and
// removes "its" address from the table.  A third request, then Stop.
//
//	-> stop=<ok|hangs> up=<closed>/<accepted> leaked=<goroutines>
func (c09child) replace() string {
	baseG := runtime.NumGoroutine()
	var mu sync.Mutex
	accepted, closed := 0, 0
	ln, err := net.Listen("tcp", "127.0.0.1:0")
	if err != nil {
		return "sockerr"
	}
	defer ln.Close()
	go func() {
		for {
			c, err := ln.Accept()
			if err != nil {
				return
			}
			mu.Lock()
			accepted++
			mu.Unlock()
			go func(c net.Conn) {
				defer func() {
					c.Close()
					mu.Lock()
					closed++
					mu.Unlock()
				}()
				dec := redis.VerifNewDecoder(c, 4096)
				for {
					v, err := dec.Decode()
					if err != nil {
						return
					}
					rep := "-ERR not now\r\n"
					if len(v.Array) > 0 && strings.EqualFold(string(v.Array[0].Text), "get") {
						rep = "$1\r\nv\r\n"
					} else if len(v.Array) > 0 && strings.EqualFold(string(v.Array[0].Text), "readonly") {
						rep = "+OK\r\n"
					}
					if _, err := c.Write([]byte(rep)); err != nil {
						return
					}
				}
			}(c)
		}
	}()
	reached, release := make(chan struct{}), make(chan struct{})
	var once sync.Once
	armed := false
	redis.VerifSetPause(func(point string, obj interface{}) {
		if point != "client.start.drain" {
			return
		}
		mu.Lock()
		a := armed
		mu.Unlock()
		if !a {
			return
		}
		parked := false
		once.Do(func() { parked = true; close(reached) })
		if parked {
			<-release
		}
	})
	defer redis.VerifSetPause(nil)
	ct := time.Second
	cfg := &service.Config{
		Listener:        &service.Listener{Address: &common.Address{Ip: "127.0.0.1", Port: 0}},
		ConnectTimeout:  &ct,
		Protocol:        protocol.Redis,
		ProtocolOptions: &service.Config_RedisOption{RedisOption: &protocol.RedisOption{ReadStrategy: pbredis.ReadStrategy_MASTER}},
	}
	c09seq++
	p, err := proc.New(fmt.Sprintf("verif-c09p-%d", c09seq), cfg, []*host.Host{host.New(ln.Addr().String())})
	if err != nil {
		return "procerr"
	}
	defer hx.DropScopes("service." + p.Name() + ".")
	if err := p.Start(); err != nil {
		return "procerr"
	}
	time.Sleep(2 * time.Millisecond)
	for i := 0; i < 400 && p.Address() == ""; i++ {
		time.Sleep(time.Millisecond)
	}
	cl, err := hx.DialClient(p.Address())
	if err != nil {
		p.Stop()
		return "sockerr"
	}
	defer cl.C.Close()
	get := func() bool {
		cl.C.SetDeadline(time.Now().Add(2 * time.Second))
		v, err := cl.Do([]byte("get"), []byte("k"))
		return err == nil && string(v.Text) == "v"
	}
	if !get() {
		p.Stop()
		return "setup-failed"
	}
	time.Sleep(50 * time.Millisecond) // the slot refresh of the start has used the connection too
	mu.Lock()
	armed = true
	mu.Unlock()
	replaced := make(chan struct{})
	go func() { p.OnSvcAllHostReplace([]*host.Host{host.New(ln.Addr().String())}); close(replaced) }()
	select {
	case <-reached:
	case <-time.After(3 * time.Second):
		close(release)
		p.Stop()
		return "not-parked"
	}
	ok2 := get() // makes c2
	close(release)
	select {
	case <-replaced:
	case <-time.After(3 * time.Second):
	}
	time.Sleep(50 * time.Millisecond)
	ok3 := get()
	res := "hangs"
	stopDone := make(chan struct{})
	go func() { p.Stop(); close(stopDone) }()
	select {
	case <-stopDone:
		res = "ok"
	case <-time.After(2500 * time.Millisecond):
	}
	cl.C.Close()
	leaked := 0
	for i := 0; i < 150; i++ {
		mu.Lock()
		a, c := accepted, closed
		mu.Unlock()
		leaked = runtime.NumGoroutine() - baseG - 1
		if a == c && leaked <= 0 {
			break
		}
		time.Sleep(10 * time.Millisecond)
	}
	if leaked < 0 {
		leaked = 0
	}
	mu.Lock()
	defer mu.Unlock()
	served := "served"
	if !ok2 || !ok3 {
		served = "unserved"
	}
	return fmt.Sprintf("stop=%s up=%d/%d leaked=%d %s", res, closed, accepted, leaked, served)
}

// c09.create   a request has to make a new backend connection; createClient is parked after its last look at quit, holding the connection
// table's lock, about to publish the connection (pause point upstream.client.checked); Stop is called; 200 ms later createClient goes on.
// Stop's snapshot of the table must wait for the lock, or the connection published after it is stopped by nobody.
//
//	-> stop=<ok|hangs> up=<closed>/<accepted> leaked=<goroutines>
func (c09child) parkCreate() string {
	baseG := runtime.NumGoroutine()
	var mu sync.Mutex
	accepted, closed := 0, 0
	var live []net.Conn
	ln, err := net.Listen("tcp", "127.0.0.1:0")
	if err != nil {
		return "sockerr"
	}
	defer ln.Close()
	go func() {
		for {
			c, err := ln.Accept()
			if err != nil {
				return
			}
			mu.Lock()
			accepted++
			live = append(live, c)
			mu.Unlock()
			go func(c net.Conn) {
				defer func() {
					c.Close()
					mu.Lock()
					closed++
					mu.Unlock()
				}()
				dec := redis.VerifNewDecoder(c, 4096)
				for {
					v, err := dec.Decode()
					if err != nil {
						return
					}
					rep := "-ERR not now\r\n"
					if len(v.Array) > 0 && strings.EqualFold(string(v.Array[0].Text), "get") {
						rep = "$1\r\nv\r\n"
					} else if len(v.Array) > 0 && strings.EqualFold(string(v.Array[0].Text), "readonly") {
						rep = "+OK\r\n"
					}
					if _, err := c.Write([]byte(rep)); err != nil {
						return
					}
				}
			}(c)
		}
	}()
	reached, release := make(chan struct{}), make(chan struct{})
	var once sync.Once
	armed := false
	redis.VerifSetPause(func(point string, obj interface{}) {
		if point != "upstream.client.checked" {
			return
		}
		mu.Lock()
		a := armed
		mu.Unlock()
		if !a {
			return
		}
		parked := false
		once.Do(func() { parked = true; close(reached) })
		if parked {
			<-release
		}
	})
	defer redis.VerifSetPause(nil)
	ct := time.Second
	cfg := &service.Config{
		Listener:        &service.Listener{Address: &common.Address{Ip: "127.0.0.1", Port: 0}},
		ConnectTimeout:  &ct,
		Protocol:        protocol.Redis,
		ProtocolOptions: &service.Config_RedisOption{RedisOption: &protocol.RedisOption{ReadStrategy: pbredis.ReadStrategy_MASTER}},
	}
	c09seq++
	p, err := proc.New(fmt.Sprintf("verif-c09q-%d", c09seq), cfg, []*host.Host{host.New(ln.Addr().String())})
	if err != nil {
		return "procerr"
	}
	defer hx.DropScopes("service." + p.Name() + ".")
	if err := p.Start(); err != nil {
		return "procerr"
	}
	time.Sleep(2 * time.Millisecond)
	for i := 0; i < 400 && p.Address() == ""; i++ {
		time.Sleep(time.Millisecond)
	}
	cl, err := hx.DialClient(p.Address())
	if err != nil {
		p.Stop()
		return "sockerr"
	}
	defer cl.C.Close()
	get := func() bool {
		cl.C.SetDeadline(time.Now().Add(2 * time.Second))
		v, err := cl.Do([]byte("get"), []byte("k"))
		return err == nil && string(v.Text) == "v"
	}
	if !get() {
		p.Stop()
		return "setup-failed"
	}
	// the node drops the connection: the next request has to make a new one
	mu.Lock()
	cs := live
	live = nil
	mu.Unlock()
	for _, c := range cs {
		c.Close()
	}
	time.Sleep(60 * time.Millisecond)
	mu.Lock()
	armed = true
	mu.Unlock()
	cl.C.SetDeadline(time.Now().Add(3 * time.Second))
	go cl.Write([]byte("get"), []byte("k"))
	select {
	case <-reached:
	case <-time.After(3 * time.Second):
		close(release)
		p.Stop()
		return "not-parked"
	}
	// createClient holds the table's lock, has seen quit open, and is about to publish the connection: Stop
	res := "hangs"
	stopDone := make(chan struct{})
	go func() { p.Stop(); close(stopDone) }()
	time.Sleep(200 * time.Millisecond)
	close(release)
	select {
	case <-stopDone:
		res = "ok"
	case <-time.After(2500 * time.Millisecond):
	}
	cl.C.Close()
	leaked := 0
	for i := 0; i < 150; i++ {
		mu.Lock()
		a, c := accepted, closed
		mu.Unlock()
		leaked = runtime.NumGoroutine() - baseG - 1
		if a == c && leaked <= 0 {
			break
		}
		time.Sleep(10 * time.Millisecond)
	}
	if leaked < 0 {
		leaked = 0
	}
	mu.Lock()
	defer mu.Unlock()
	return fmt.Sprintf("stop=%s up=%d/%d leaked=%d", res, closed, accepted, leaked)
}

// c09.table <tok>…   the connection table of a Redis processor in front of one node, driven through its public methods:
//
//	g  a GET (it makes a connection if the table holds none)         L  the node closes the connections it has (they end by themselves)
//	P  the next connection whose Start returns from its loops is parked before it takes itself out of the table (client.start.drain)
//	R  the host list is replaced by an equal one (in the background: it waits for the connections it stops)
//	E  the parked connection goes on
//
// then Stop.  -> stop=<ok|hangs> up=<closed>/<accepted> leaked=<goroutines> gets=<served>/<sent>
func (c09child) table(toks []string) string {
	baseG := runtime.NumGoroutine()
	var mu sync.Mutex
	accepted, closed := 0, 0
	var live []net.Conn
	ln, err := net.Listen("tcp", "127.0.0.1:0")
	if err != nil {
		return "sockerr"
	}
	defer ln.Close()
	go func() {
		for {
			c, err := ln.Accept()
			if err != nil {
				return
			}
			mu.Lock()
			accepted++
			live = append(live, c)
			mu.Unlock()
			go func(c net.Conn) {
				defer func() {
					c.Close()
					mu.Lock()
					closed++
					mu.Unlock()
				}()
				dec := redis.VerifNewDecoder(c, 4096)
				for {
					v, err := dec.Decode()
					if err != nil {
						return
					}
					rep := "-ERR not now\r\n"
					if len(v.Array) > 0 && strings.EqualFold(string(v.Array[0].Text), "get") {
						rep = "$1\r\nv\r\n"
					} else if len(v.Array) > 0 && strings.EqualFold(string(v.Array[0].Text), "readonly") {
						rep = "+OK\r\n"
					}
					if _, err := c.Write([]byte(rep)); err != nil {
						return
					}
				}
			}(c)
		}
	}()
	armed := false
	var parkedRelease chan struct{}
	reached := make(chan struct{}, 8)
	redis.VerifSetPause(func(point string, obj interface{}) {
		if point != "client.start.drain" {
			return
		}
		mu.Lock()
		a := armed
		var rel chan struct{}
		if a {
			armed = false
			rel = make(chan struct{})
			parkedRelease = rel
		}
		mu.Unlock()
		if rel != nil {
			reached <- struct{}{}
			<-rel
		}
	})
	defer redis.VerifSetPause(nil)
	ct := time.Second
	cfg := &service.Config{
		Listener:        &service.Listener{Address: &common.Address{Ip: "127.0.0.1", Port: 0}},
		ConnectTimeout:  &ct,
		Protocol:        protocol.Redis,
		ProtocolOptions: &service.Config_RedisOption{RedisOption: &protocol.RedisOption{ReadStrategy: pbredis.ReadStrategy_MASTER}},
	}
	c09seq++
	p, err := proc.New(fmt.Sprintf("verif-c09t-%d", c09seq), cfg, []*host.Host{host.New(ln.Addr().String())})
	if err != nil {
		return "procerr"
	}
	defer hx.DropScopes("service." + p.Name() + ".")
	if err := p.Start(); err != nil {
		return "procerr"
	}
	time.Sleep(2 * time.Millisecond)
	for i := 0; i < 400 && p.Address() == ""; i++ {
		time.Sleep(time.Millisecond)
	}
	time.Sleep(60 * time.Millisecond) // the slot refresh of the start (answered with an error) has made the first connection
	cl, err := hx.DialClient(p.Address())
	if err != nil {
		p.Stop()
		return "sockerr"
	}
	defer cl.C.Close()
	sent, served := 0, 0
	release := func() {
		mu.Lock()
		rel := parkedRelease
		parkedRelease = nil
		armed = false
		mu.Unlock()
		if rel != nil {
			close(rel)
		}
	}
	defer release()
	var bg sync.WaitGroup
	for _, t := range toks {
		switch t {
		case "g":
			sent++
			cl.C.SetDeadline(time.Now().Add(2 * time.Second))
			if v, err := cl.Do([]byte("get"), []byte("k")); err == nil && string(v.Text) == "v" {
				served++
			} else if err != nil {
				// the reply did not come: the stream is out of step, start a fresh client connection
				cl.C.Close()
				if cl, err = hx.DialClient(p.Address()); err != nil {
					p.Stop()
					return "sockerr"
				}
			}
		case "L":
			mu.Lock()
			cs := live
			live = nil
			mu.Unlock()
			for _, c := range cs {
				c.Close()
			}
			time.Sleep(40 * time.Millisecond)
		case "P":
			mu.Lock()
			armed = parkedRelease == nil
			mu.Unlock()
		case "R":
			bg.Add(1)
			go func() {
				defer bg.Done()
				p.OnSvcAllHostReplace([]*host.Host{host.New(ln.Addr().String())})
			}()
			select {
			case <-reached:
			case <-time.After(150 * time.Millisecond):
			}
		case "E":
			release()
			time.Sleep(40 * time.Millisecond)
		default:
			p.Stop()
			return "bad-op"
		}
	}
	release()
	done := make(chan struct{})
	go func() { bg.Wait(); close(done) }()
	select {
	case <-done:
	case <-time.After(3 * time.Second):
	}
	res := "hangs"
	stopDone := make(chan struct{})
	go func() { p.Stop(); close(stopDone) }()
	select {
	case <-stopDone:
		res = "ok"
	case <-time.After(2500 * time.Millisecond):
	}
	cl.C.Close()
	leaked := 0
	for i := 0; i < 150; i++ {
		mu.Lock()
		a, c := accepted, closed
		mu.Unlock()
		leaked = runtime.NumGoroutine() - baseG - 1
		if a == c && leaked <= 0 {
			break
		}
		time.Sleep(10 * time.Millisecond)
	}
	if leaked < 0 {
		leaked = 0
	}
	mu.Lock()
	defer mu.Unlock()
	return fmt.Sprintf("stop=%s up=%d/%d leaked=%d gets=%d/%d", res, closed, accepted, leaked, served, sent)
}

// c09.burst <limit> <clients> <rounds>   a real TCP processor with a connection limit in front of a backend that greets and
// holds every connection; per round all clients connect at the same moment, the connections are kept until everyone has its
// verdict, then closed.   -> served=<per round: clients that got the greeting>
func (c09child) burst(f []string) string {
	limit, err1 := strconv.Atoi(f[0])
	n, err2 := strconv.Atoi(f[1])
	rounds, err3 := strconv.Atoi(f[2])
	if err1 != nil || err2 != nil || err3 != nil || limit < 0 || n < 1 || n > 64 || rounds < 1 || rounds > 50 {
		return "bad-op"
	}
	ln, err := net.Listen("tcp", "127.0.0.1:0")
	if err != nil {
		return "sockerr"
	}
	defer ln.Close()
	var bmu sync.Mutex
	var held []net.Conn
	go func() {
		for {
			c, err := ln.Accept()
			if err != nil {
				return
			}
			bmu.Lock()
			held = append(held, c)
			bmu.Unlock()
			c.Write([]byte{'g'})
		}
	}()
	p, err := hx.NewTCPProc(service.LoadBalancePolicy_ROUND_ROBIN, 5*time.Second, uint32(limit), []*host.Host{host.New(ln.Addr().String())})
	if err != nil {
		return "procerr"
	}
	defer p.Stop()
	var out []string
	for r := 0; r < rounds; r++ {
		start := make(chan struct{})
		res := make(chan bool, n)
		conns := make(chan net.Conn, n)
		for i := 0; i < n; i++ {
			go func() {
				<-start
				c, err := net.Dial("tcp", p.Address())
				if err != nil {
					res <- false
					return
				}
				conns <- c
				c.SetReadDeadline(time.Now().Add(1500 * time.Millisecond))
				var b [1]byte
				_, err = c.Read(b[:])
				res <- err == nil
			}()
		}
		close(start)
		served := 0
		for i := 0; i < n; i++ {
			if <-res {
				served++
			}
		}
		out = append(out, strconv.Itoa(served))
		// wind the round down: close both ends and wait until the proxy has released its registrations
		close(conns)
		for c := range conns {
			c.Close()
		}
		bmu.Lock()
		for _, c := range held {
			c.Close()
		}
		held = nil
		bmu.Unlock()
		metric := hx.Metrics("service." + p.Name() + ".")
		for t := 0; t < 2000 && metric("downstream.cx_active") != 0; t++ {
			time.Sleep(time.Millisecond)
		}
	}
	return "served=" + strings.Join(out, ",")
}

func (c *c09) Gen(r *hx.Run) {
	rng := r.Rng
	scripts := []string{
		"S K", "S w K", "K", "Pe S K w Re", "Pe S D w Re K", "B S K", "B S w K", "B S D w K", "B S w b o K", "Pb S K w Rb", "Pb S D w Rb o K", "Pb S K w Rb o", "Pb S w Rb o K",
		"Pe S D w Re o K", "B S D w b o K", "S Pk K o Rk", "S o Pk K o w Rk", "S Pk K o o Rk", "S o K", "S o o K", "S o D o K", "S o D x0 K", "S D o K", "S o x0 K", "S o o x0 D o K", "S D", "S o D",
		"S O K", "S O w K", "S o O D K", "S O x0 K", "S O O K",
	}
	for _, proto := range []string{"T", "R"} {
		for _, mode := range []string{"r", "s", "c"} {
			for _, sc := range scripts {
				if !r.Thorough() && mode == "c" && rng.Intn(2) == 0 {
					continue
				}
				r.Do(fmt.Sprintf("c09.life %s %s 0 %s", proto, mode, sc), strings.ContainsAny(sc, "PBo") || mode != "r", "script")
			}
		}
		for _, sc := range []string{"S o o", "S o o o K", "S o o x0 o K", "S o o D o x1 o K"} {
			for _, lim := range []int{1, 2} {
				r.Do(fmt.Sprintf("c09.life %s r %d %s", proto, lim, sc), true, "limit")
			}
		}
	}
	// Stop while a backend connection's read loop follows a redirection (F-09h)
	for i := 0; i < r.N(2, 10); i++ {
		for _, m := range []string{"k", "n", "d", "h"} {
			r.Do("c09.redir "+m, true, "redir")
		}
		for _, m := range []string{"f", "g", "a"} {
			r.Do("c09.redir "+m, true, "redir-full-queue")
		}
		r.Do("c09.replace", true, "hosts-replaced-while-a-connection-ends")
		r.Do("c09.create", true, "stop-while-a-connection-is-being-published")
		// random walks over the connection table
		for w := 0; w < r.N(4, 12); w++ {
			var tk []string
			for j := 0; j < 4+rng.Intn(8); j++ {
				tk = append(tk, []string{"g", "g", "g", "L", "P", "R", "E"}[rng.Intn(7)])
			}
			r.Do("c09.table "+strings.Join(tk, " "), true, "table-walk")
		}
	}
	// bursts: many clients at the same moment against a connection limit
	for i := 0; i < r.N(6, 120); i++ {
		r.Do(fmt.Sprintf("c09.burst %d %d %d", 1+rng.Intn(4), 4+rng.Intn(28), r.N(4, 12)), true, "burst")
	}
	for i := 0; i < r.N(20, 600); i++ {
		proto := "TR"[rng.Intn(2):][:1]
		mode := "rrsc"[rng.Intn(4):][:1]
		limit := []int{0, 0, 1, 2, 3}[rng.Intn(5)]
		var toks []string
		if rng.Intn(4) == 0 {
			toks = append(toks, "B")
		}
		if rng.Intn(4) == 0 {
			// Stop or StopListen while Serve is parked at one of its life-cycle points, then let it go on
			k := rng.Intn(2)
			toks = append(toks, []string{"Pe", "Pb"}[k], "S")
			if x := rng.Intn(3); x < 2 {
				toks = append(toks, []string{"K", "D"}[x])
			}
			toks = append(toks, "w", []string{"Re", "Rb"}[k])
		} else {
			toks = append(toks, "S")
		}
		opened := 0
		for j := 0; j < rng.Intn(7); j++ {
			switch x := rng.Intn(10); {
			case x < 4:
				toks = append(toks, []string{"o", "o", "o", "O"}[rng.Intn(4)])
				opened++
			case x < 5 && opened > 0:
				toks = append(toks, fmt.Sprintf("x%d", rng.Intn(opened)))
			case x < 6:
				toks = append(toks, "D")
			case x < 7:
				toks = append(toks, "b")
			default:
				toks = append(toks, "w")
			}
		}
		toks = append(toks, "K")
		r.Do(fmt.Sprintf("c09.life %s %s %d %s", proto, mode, limit, strings.Join(toks, " ")), true, "hist")
	}
}
