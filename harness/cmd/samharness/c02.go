package main

import (
	"bytes"
	"fmt"
	"math/rand"
	"net"
	"strconv"
	"strings"
	"sync"
	"sync/atomic"
	"time"

	"github.com/samaritan-proxy/samaritan/proc/redis"

	"verifharness/hx"
)

// C02: every request handed to a backend connection is answered exactly once.
//
//	c02.run <token>…   one real backend connection (client) over a loopback socket with a scripted backend,
//	                   interleavings forced through the named pause points
//	   s        Send a request (its own goroutine)
//	   Ps Pt Pw Pr Pd   arm a park at: Send after its check / writer after taking a request / writer before the hand-off / reader before pairing / Start before the drain
//	   Rs Rt Rw Rr Rd   release what is parked there and disarm
//	   b<k>     the backend answers the k oldest requests it has received and not answered
//	   x        the backend sends a reply nobody asked for
//	   c        the backend closes the connection
//	   z        the backend resets the connection (RST: the proxy's next write fails)
//	   K        Stop (asynchronously)
//	   -> out=<per request: r reply, e error, - not answered> final=<the same after a last Stop> stop=<ok|hangs>
//	      (out: after everything was released and 150 ms; a crash of the process is reported as `crashed …`)
//	c02.rep <n> <token>…   the same schedule n times (a select with two ready cases picks at random); the outcomes must agree
//	c02.multi <c20.rq tokens>   split requests (MGET/MSET/DEL) whose children are answered, redirected, failed or lost: -> once | twice … | unanswered …
//	c02.stress <seed> <senders> <requests per sender> <mode>   unforced run with random delays at the pause points;
//	   mode c: the backend closes at a random moment, k: Stop at a random moment, x: unsolicited reply then Stop,
//	   f: the backend never answers, Stop once both queues are full and the senders wait for room
//	   -> lost=<n> twice=<n> stop=<ok|hangs>
type c02 struct{ iso *hx.Isolated }
type c02child struct{}

func init() {
	props["C02"] = func() hx.Prop { return &c02{iso: &hx.Isolated{Prop: "C02", Timeout: 40 * time.Second}} }
	props["C02-CHILD"] = func() hx.Prop { return c02child{} }
}

func (*c02) Rule() string {
	return "forced interleavings of senders, the backend writer and reader, Start's drain and Stop on one real backend connection (each of the four pause points armed and released around connection loss, backend close, " +
		"unsolicited replies and Stop; 1..6 requests), plus unforced stress runs (4..16 senders x 50..400 requests, random delays at the pause points, connection closed or stopped at a random moment; " +
		"a backend that never answers with Stop once both 1024-entry queues are full and the senders wait for room). " +
		"Non-trivial = a park is armed or a fault happens while requests are outstanding; distinct by op line"
}
func (c *c02) Exec(op string) string { return c.iso.Exec(op) }
func (c02child) Rule() string        { return "" }
func (c02child) Gen(*hx.Run)         {}

type gate struct {
	armed  bool
	parked int
	ch     chan struct{}
}

type c02env struct {
	mu     sync.Mutex
	gates  map[string]*gate
	cl     *redis.VerifClient
	be     net.Conn
	recvd  int // requests the backend has read
	answd  int // requests the backend has answered
	beCond *sync.Cond
}

func newC02env() (*c02env, error) {
	e := &c02env{gates: map[string]*gate{}}
	e.beCond = sync.NewCond(&e.mu)
	for _, p := range []string{"client.send.checked", "client.write.taken", "client.write.handoff", "client.read.pair", "client.start.drain"} {
		e.gates[p] = &gate{ch: make(chan struct{})}
	}
	ln, err := net.Listen("tcp", "127.0.0.1:0")
	if err != nil {
		return nil, err
	}
	defer ln.Close()
	acc := make(chan net.Conn, 1)
	go func() {
		c, err := ln.Accept()
		if err == nil {
			acc <- c
		}
	}()
	conn, err := net.DialTimeout("tcp", ln.Addr().String(), time.Second)
	if err != nil {
		return nil, err
	}
	select {
	case e.be = <-acc:
	case <-time.After(time.Second):
		return nil, fmt.Errorf("accept")
	}
	cl, err := redis.VerifNewClient(conn)
	if err != nil {
		return nil, err
	}
	e.cl = cl
	redis.VerifSetPause(func(point string, obj interface{}) {
		if !cl.Is(obj) {
			return
		}
		e.mu.Lock()
		g := e.gates[point]
		if g == nil || !g.armed {
			e.mu.Unlock()
			return
		}
		g.parked++
		ch := g.ch
		e.beCond.Broadcast()
		e.mu.Unlock()
		<-ch
	})
	// backend reader: counts the requests that arrive
	go func() {
		d := redis.VerifNewDecoder(e.be, 4096)
		for {
			if _, err := d.Decode(); err != nil {
				return
			}
			e.mu.Lock()
			e.recvd++
			e.beCond.Broadcast()
			e.mu.Unlock()
		}
	}()
	return e, nil
}

func (e *c02env) waitFor(d time.Duration, pred func() bool) bool {
	deadline := time.Now().Add(d)
	t := time.AfterFunc(d, func() { e.mu.Lock(); e.beCond.Broadcast(); e.mu.Unlock() })
	defer t.Stop()
	e.mu.Lock()
	defer e.mu.Unlock()
	for !pred() {
		if time.Now().After(deadline) {
			return false
		}
		e.beCond.Wait()
	}
	return true
}

func (e *c02env) release(point string) {
	e.mu.Lock()
	g := e.gates[point]
	g.armed = false
	close(g.ch)
	g.ch = make(chan struct{})
	g.parked = 0
	e.mu.Unlock()
}

var c02points = map[byte]string{'s': "client.send.checked", 't': "client.write.taken", 'w': "client.write.handoff", 'r': "client.read.pair", 'd': "client.start.drain"}

func outcome(reqs []*redis.VerifSimple) string {
	var b []byte
	for _, r := range reqs {
		switch {
		case !r.Done():
			b = append(b, '-')
		case r.Response() != nil && r.Response().Type == redis.Error:
			b = append(b, 'e')
		default:
			b = append(b, 'r')
		}
	}
	if len(b) == 0 {
		return "."
	}
	return string(b)
}

func (c02child) run(toks []string) string {
	e, err := newC02env()
	if err != nil {
		return "sockerr"
	}
	defer redis.VerifSetPause(nil)
	startDone := make(chan struct{})
	go func() { e.cl.Start(); close(startDone) }()
	// the connection's own READONLY request: answered before the script starts
	if !e.waitFor(2*time.Second, func() bool { return e.recvd >= 1 }) {
		return "no-readonly"
	}
	e.be.Write([]byte("+OK\r\n"))
	e.mu.Lock()
	e.answd = 1
	e.mu.Unlock()
	time.Sleep(10 * time.Millisecond)
	var reqs []*redis.VerifSimple
	stopDone := make(chan struct{})
	stopCalled := false
	settle := func() { time.Sleep(15 * time.Millisecond) }
	for _, t := range toks {
		switch {
		case t == "s":
			r := redis.VerifNewSimple(hx.Bulks([]byte("get"), []byte(fmt.Sprintf("k%d", len(reqs)))))
			reqs = append(reqs, r)
			e.mu.Lock()
			before := e.recvd
			sg, wg, tg := e.gates["client.send.checked"], e.gates["client.write.handoff"], e.gates["client.write.taken"]
			sp, wp, tp := sg.parked, wg.parked, tg.parked
			e.mu.Unlock()
			go e.cl.SendReq(r)
			// settled when the backend got it, or it is answered, or it sits at an armed pause point
			e.waitFor(300*time.Millisecond, func() bool {
				return e.recvd > before || r.Done() || sg.parked > sp || wg.parked > wp || tg.parked > tp
			})
			settle()
		case len(t) == 2 && t[0] == 'P' && c02points[t[1]] != "":
			e.mu.Lock()
			e.gates[c02points[t[1]]].armed = true
			e.mu.Unlock()
		case len(t) == 2 && t[0] == 'R' && c02points[t[1]] != "":
			e.release(c02points[t[1]])
			settle()
		case t[0] == 'b':
			k, err := strconv.Atoi(t[1:])
			if err != nil || k < 1 || k > 64 {
				return "bad-op"
			}
			e.mu.Lock()
			n := e.recvd - e.answd
			if n > k {
				n = k
			}
			e.answd += n
			e.mu.Unlock()
			e.be.Write(bytes.Repeat([]byte("$1\r\nv\r\n"), n))
			settle()
		case t == "x":
			e.be.Write([]byte("+UNSOLICITED\r\n"))
			settle()
		case t == "c":
			e.be.Close()
			settle()
		case t == "z":
			if tc, ok := e.be.(*net.TCPConn); ok {
				tc.SetLinger(0)
			}
			e.be.Close()
			settle()
		case t == "K":
			if !stopCalled {
				stopCalled = true
				go func() { e.cl.Stop(); close(stopDone) }()
				settle()
			}
		default:
			return "bad-op"
		}
	}
	for _, p := range c02points {
		e.release(p)
	}
	time.Sleep(150 * time.Millisecond)
	out := outcome(reqs)
	stop := "ok"
	if !stopCalled {
		go func() { e.cl.Stop(); close(stopDone) }()
	}
	select {
	case <-stopDone:
	case <-time.After(1500 * time.Millisecond):
		stop = "hangs"
	}
	if stop == "ok" {
		select {
		case <-startDone:
		case <-time.After(time.Second):
			stop = "start-hangs"
		}
	}
	time.Sleep(20 * time.Millisecond)
	final := outcome(reqs)
	e.be.Close()
	return fmt.Sprintf("out=%s final=%s stop=%s", out, final, stop)
}

func (c02child) stress(seed int64, senders, per int, mode string) string {
	e, err := newC02env()
	if err != nil {
		return "sockerr"
	}
	defer redis.VerifSetPause(nil)
	var seq int64
	// random short delays at every pause point of this connection
	redis.VerifSetPause(func(point string, obj interface{}) {
		if !e.cl.Is(obj) {
			return
		}
		n := atomic.AddInt64(&seq, 1)
		x := (uint64(n)*0x9E3779B97F4A7C15 + uint64(seed)) >> 58 // 0..63
		if x < 6 {
			time.Sleep(time.Duration(x*40) * time.Microsecond)
		} else if x < 16 {
			for i := 0; i < int(x); i++ {
				yield()
			}
		}
	})
	startDone := make(chan struct{})
	go func() { e.cl.Start(); close(startDone) }()
	// echo backend: answers everything it reads
	go func() {
		for {
			e.mu.Lock()
			for e.recvd == e.answd {
				e.beCond.Wait()
			}
			n := e.recvd - e.answd
			e.answd += n
			e.mu.Unlock()
			if mode == "f" {
				continue // a backend that reads and never answers: both queues of the connection fill up
			}
			if _, err := e.be.Write(bytes.Repeat([]byte("$1\r\nv\r\n"), n)); err != nil {
				return
			}
		}
	}()
	rng := rand.New(rand.NewSource(seed))
	total := senders * per
	faultAfter := int64(rng.Intn(total))
	if mode == "f" {
		// Stop while the senders sit on a full queue (1024 pending behind 1024 sent and unanswered): a little after the 2000th Send
		faultAfter = 2000
	}
	var sent int64
	fault := make(chan struct{})
	var faultOnce sync.Once
	reqs := make([][]*redis.VerifSimple, senders)
	var wg sync.WaitGroup
	for i := 0; i < senders; i++ {
		wg.Add(1)
		go func(i int) {
			defer wg.Done()
			for j := 0; j < per; j++ {
				r := redis.VerifNewSimple(hx.Bulks([]byte("get"), []byte("k")))
				reqs[i] = append(reqs[i], r)
				e.cl.SendReq(r)
				if atomic.AddInt64(&sent, 1) == faultAfter {
					faultOnce.Do(func() { close(fault) })
				}
			}
		}(i)
	}
	stopDone := make(chan struct{})
	go func() {
		<-fault
		if mode == "f" {
			time.Sleep(time.Duration(20+rng.Intn(30)) * time.Millisecond)
		}
		switch mode {
		case "c":
			e.be.Close()
		case "x":
			e.be.Write([]byte("+UNSOLICITED\r\n"))
			time.Sleep(time.Millisecond)
			e.cl.Stop()
			close(stopDone)
		default:
			e.cl.Stop()
			close(stopDone)
		}
	}()
	sendersDone := make(chan struct{})
	go func() { wg.Wait(); close(sendersDone) }()
	stop := "ok"
	select {
	case <-sendersDone:
	case <-time.After(15 * time.Second):
		stop = "senders-hang"
	}
	faultOnce.Do(func() { close(fault) })
	if mode == "c" {
		select {
		case <-startDone:
		case <-time.After(3 * time.Second):
			stop = "hangs"
		}
	} else {
		select {
		case <-stopDone:
		case <-time.After(3 * time.Second):
			stop = "hangs"
		}
	}
	time.Sleep(50 * time.Millisecond)
	lost := 0
	for _, l := range reqs {
		for _, r := range l {
			if !r.Done() {
				lost++
			}
		}
	}
	e.be.Close()
	return fmt.Sprintf("lost=%d twice=0 stop=%s", lost, stop)
}

func (c02child) filtered(toks []string) string {
	ln, err := net.Listen("tcp", "127.0.0.1:0")
	if err != nil {
		return "sockerr"
	}
	defer ln.Close()
	var seen int32
	go func() {
		bc, err := ln.Accept()
		if err != nil {
			return
		}
		defer bc.Close()
		dec := redis.VerifNewDecoder(bc, 4096)
		for {
			if _, err := dec.Decode(); err != nil {
				return
			}
			atomic.AddInt32(&seen, 1)
			if _, err := bc.Write([]byte("$1\r\nv\r\n")); err != nil {
				return
			}
		}
	}()
	conn, err := net.Dial("tcp", ln.Addr().String())
	if err != nil {
		return "sockerr"
	}
	cl, err := redis.VerifNewClientCompress(conn, true, 1024)
	if err != nil {
		return "clienterr"
	}
	var reqs []*redis.VerifSimple
	for _, tk := range toks {
		var body *redis.RespValue
		switch tk {
		case "g":
			body = hx.Bulks([]byte("get"), []byte("k"))
		case "s":
			body = hx.Bulks([]byte("set"), []byte("k"), []byte("v"))
		case "a":
			body = hx.Bulks([]byte("append"), []byte("k"), []byte("x"))
		default:
			return "bad-op"
		}
		r := redis.VerifNewSimple(body)
		reqs = append(reqs, r)
		cl.SendReq(r)
	}
	started := make(chan struct{})
	go func() { cl.Start(); close(started) }()
	deadline := time.Now().Add(1500 * time.Millisecond)
	answered := 0
	for time.Now().Before(deadline) {
		answered = 0
		for _, r := range reqs {
			if r.Done() {
				answered++
			}
		}
		if answered == len(reqs) {
			break
		}
		time.Sleep(2 * time.Millisecond)
	}
	out := fmt.Sprintf("answered=%d/%d backend=%d", answered, len(reqs), atomic.LoadInt32(&seen))
	cl.Stop()
	<-started
	return out
}

func yield() { time.Sleep(0) }

// one socket-less processor for all c02.multi ops of a child (a fresh one per op leaks its statistics scopes)
var c02multi = &c20{}

func (c c02child) Exec(op string) string {
	f := hx.Fields(op)
	if len(f) < 2 {
		return "bad-op"
	}
	switch f[0] {
	case "c02.run":
		return c.run(f[1:])
	case "c02.multi":
		// a history of (split) requests through the real request path on the socket-less processor (the c20.rq script language):
		// every downstream request must be answered exactly once (a second completion panics)
		out := recoverStr(func() string { return c02multi.execRq(f[1:]) })
		switch {
		case strings.HasPrefix(out, "panic") || strings.Contains(out, "panic"):
			return "twice " + out
		case strings.Contains(out, "pending="):
			return "unanswered " + out
		case out == "bad-op":
			return out
		}
		return "once"
	case "c02.rep":
		// the same schedule several times (a select with two ready cases picks at random): all outcomes must agree
		n, err := strconv.Atoi(f[1])
		if err != nil || n < 1 || n > 64 || len(f) < 3 {
			return "bad-op"
		}
		first := c.run(f[2:])
		for i := 1; i < n; i++ {
			if o := c.run(f[2:]); o != first {
				return "mixed: " + first + " / " + o
			}
		}
		return first
	case "c02.flt":
		// c02.flt <g|s|a>…   a real backend connection with compression enabled; the requests (g GET, s SET, a APPEND — banned under
		// compression, answered by the filter chain in the writer) are all queued before the writer starts, so each is encoded while
		// the next one is pending.   -> answered=<n>/<sent> backend=<requests the backend received>   (after at most 1.5 s)
		return recoverStr(func() string { return c.filtered(f[1:]) })
	case "c02.stress":
		if len(f) != 5 {
			return "bad-op"
		}
		seed, e1 := strconv.ParseInt(f[1], 10, 64)
		senders, e2 := strconv.Atoi(f[2])
		per, e3 := strconv.Atoi(f[3])
		if e1 != nil || e2 != nil || e3 != nil || senders < 1 || senders > 64 || per < 1 || per > 5000 || (f[4] != "c" && f[4] != "k" && f[4] != "x" && f[4] != "f") {
			return "bad-op"
		}
		return c.stress(seed, senders, per, f[4])
	}
	return "bad-op"
}

func (c *c02) Gen(r *hx.Run) {
	rng := r.Rng
	basic := []string{
		"s b1", "s s b1", "s s b2", "s c", "s s b1 c", "s K", "s s b1 K", "c s", "K s",
		"Pw s K Rw", "Pw s c Rw", "Pw s s K Rw", // the writer holds a request when the connection quits
		"Ps s K Rs", "Ps s c Rs", "Ps s s K Rs", "s Ps s K Rs", // a sender between its check and the enqueue while everything is drained
		"x K", "s x b1 K", "x s K", "Pr s b1 K Rr", // the reader holds a reply nobody waits for
		"Pd s c Rd", "Pd s c s Rd", "Pd Ps s c s Rd Rs", "Pd K s Rd", // senders while the drain is pending
		"Pw Ps s s K Rw Rs", "s s s b1 Pw s c Rw",
		"Pt s K Rt", "Pt s c Rt", "Pt s z Rt", "Pt s s K Rt", "s Pt s b1 K Rt", // the writer has taken a request when the connection is closed under it
	}
	for _, b := range basic {
		r.Do("c02.run "+b, strings.ContainsAny(b, "PKcx"), "basic")
	}
	for _, b := range []string{"Pw s K Rw", "Pw s s K Rw", "Pr s b1 K Rr", "s s Pr b2 K Rr", "Ps s K Rs"} {
		r.Do(fmt.Sprintf("c02.rep %d %s", r.N(6, 24), b), true, "rep")
	}
	for i := 0; i < r.N(120, 2500); i++ {
		n := 2 + rng.Intn(9)
		var toks []string
		armed := map[byte]bool{}
		sent, answered := 0, 0
		for j := 0; j < n; j++ {
			switch x := rng.Intn(14); {
			case x < 5:
				toks = append(toks, "s")
				sent++
			case x < 7 && sent > answered:
				k := 1 + rng.Intn(sent-answered)
				toks = append(toks, fmt.Sprintf("b%d", k))
				answered += k
			case x < 10:
				p := "stwrd"[rng.Intn(5)]
				if armed[p] {
					toks = append(toks, "R"+string(p))
					armed[p] = false
				} else {
					toks = append(toks, "P"+string(p))
					armed[p] = true
				}
			case x == 10:
				toks = append(toks, "x")
			case x == 11:
				toks = append(toks, "c")
			case x == 12:
				toks = append(toks, "K")
			default:
				toks = append(toks, "s")
				sent++
			}
		}
		line := "c02.run " + strings.Join(toks, " ")
		r.Do(line, strings.ContainsAny(line, "PKcx"), "hist")
	}
	for _, k := range []string{"M", "W", "D"} {
		for _, p := range []string{"o/o", "e/e", "f/f", "e/o/e", "n/n", "mo/e", "f/mo/Ae", "o", "e", "x/c/f/e"} {
			r.Do(fmt.Sprintf("c02.multi %s:%s", k, p), strings.ContainsAny(p, "efnxc"), "multi")
			r.Do(fmt.Sprintf("c02.multi Q %s:%s", k, p), true, "multi")
		}
	}
	// requests queued behind one another on a connection with compression enabled, some of them answered by the filter chain (F-02f)
	for _, sc := range []string{"g a", "a", "g", "a g", "g a a", "s a g a", "g s a"} {
		r.Do("c02.flt "+sc, true, "flt")
	}
	for i := 0; i < r.N(12, 400); i++ {
		n := 1 + rng.Intn(9)
		var tk []string
		for j := 0; j < n; j++ {
			tk = append(tk, "gsaa"[rng.Intn(4):][:1])
		}
		r.Do("c02.flt "+strings.Join(tk, " "), true, "flt")
	}
	for i := 0; i < r.N(60, 1500); i++ {
		var ps []string
		for j := 0; j < 1+rng.Intn(5); j++ {
			ps = append(ps, []string{"o", "e", "f", "mo", "me", "n", "ao", "Ae", "x", "c", "mf"}[rng.Intn(11)])
		}
		r.Do(fmt.Sprintf("c02.multi %s:%s", "MWD"[rng.Intn(3):][:1], strings.Join(ps, "/")), true, "multi")
	}
	// Stop while senders wait for room on a full queue
	for i := 0; i < r.N(6, 100); i++ {
		r.Do(fmt.Sprintf("c02.stress %d %d %d f", rng.Int63n(1<<40), 8+rng.Intn(9), 320+rng.Intn(81)), true, "stress-full")
	}
	for i := 0; i < r.N(12, 300); i++ {
		mode := "ckx"[rng.Intn(3):][:1]
		r.Do(fmt.Sprintf("c02.stress %d %d %d %s", rng.Int63n(1<<40), 4+rng.Intn(13), 50+rng.Intn(351), mode), true, "stress")
	}
}
