package main

import (
	"fmt"

	"github.com/samaritan-proxy/samaritan/proc/redis"

	"verifharness/hx"
)

// C12: key -> slot. Op: `c12 <hexkey>`; output: `<crc> <hextag> <slot>`.
type c12 struct{}

func init() { props["C12"] = func() hx.Prop { return c12{} } }

func (c12) Rule() string {
	return "keys: random bytes of length 0..40 (biased to braces), every {/}/a string up to length 6 (thorough: 8), " +
		"all 1-byte keys (thorough: all 2-byte keys); non-trivial = contains '{' or '}' or has length >= 2; distinct by key bytes"
}

func (c12) Exec(op string) string {
	f := hx.Fields(op)
	if len(f) != 2 || f[0] != "c12" {
		return "bad-op"
	}
	key, err := hx.Unhex(f[1])
	if err != nil {
		return "bad-op"
	}
	tag := redis.VerifHashtag(key)
	// the slot comes from the real routing function (upstream.chooseHost) over a
	// table whose entry i has address "i"
	slot, err := redis.VerifChooseSlot(key)
	if err != nil {
		slot = "err:" + err.Error()
	}
	return fmt.Sprintf("%d %s %s", redis.VerifCrc16(key), hx.Hex(tag), slot)
}

func nontrivialKey(k []byte) bool {
	if len(k) >= 2 {
		return true
	}
	for _, b := range k {
		if b == '{' || b == '}' {
			return true
		}
	}
	return false
}

func (c12) Gen(r *hx.Run) {
	do := func(k []byte, tag string) { r.Do("c12 "+hx.Hex(k), nontrivialKey(k), tag) }
	// all one-byte keys: hits every table row
	for b := 0; b < 256; b++ {
		do([]byte{byte(b)}, "one-byte")
	}
	if r.Thorough() {
		for a := 0; a < 256; a++ {
			for b := 0; b < 256; b++ {
				do([]byte{byte(a), byte(b)}, "two-byte")
			}
		}
	} else {
		for i := 0; i < 2000; i++ {
			do([]byte{byte(r.Rng.Intn(256)), byte(r.Rng.Intn(256))}, "two-byte")
		}
	}
	// every placement of braces in short keys over { } a
	maxLen := r.N(6, 8)
	alpha := []byte{'{', '}', 'a'}
	var rec func(cur []byte)
	rec = func(cur []byte) {
		do(cur, "brace-enum")
		if len(cur) == maxLen {
			return
		}
		for _, c := range alpha {
			rec(append(append([]byte{}, cur...), c))
		}
	}
	rec(nil)
	// random keys with brace bias
	n := r.N(3000, 100000)
	for i := 0; i < n; i++ {
		l := r.Rng.Intn(41)
		k := make([]byte, l)
		for j := range k {
			switch r.Rng.Intn(8) {
			case 0:
				k[j] = '{'
			case 1:
				k[j] = '}'
			default:
				k[j] = byte(r.Rng.Intn(256))
			}
		}
		do(k, "random")
	}
	// long keys
	for i := 0; i < r.N(20, 200); i++ {
		k := make([]byte, 1000+r.Rng.Intn(5000))
		r.Rng.Read(k)
		do(k, "long")
	}
	r.Exhaustive()
}
