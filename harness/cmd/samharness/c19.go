package main

import (
	"fmt"
	"sort"
	"strconv"
	"strings"

	"github.com/samaritan-proxy/samaritan/proc/redis"
	"github.com/samaritan-proxy/samaritan/proc/redis/hotkey"

	"verifharness/hx"
)

// C19: hot keys.
//
//	c19.cnt <cap> <op>…      ops: i<k> (Incr key k), l (Latch), f (Free); output: state after every op, '|'-separated;
//	                         state = "freq:k,k;freq:k" (forward walk; link inconsistencies appended), latch prints "L{k=v,…}" first
//	c19.ins <cap> <name:val,…>        -> resulting slice name:val,… | per-insert results (t/f)
//	c19.evict <now> <name:val:lut,…>  -> report after evictStale
//	c19.col <cap> <script>            tokens: a<counter>.<key>x<times>, c (collect), e (evictStale), t<m> (clock = m), T<m1>.<m2> (m1 once, then m2),
//	                                  s (a HOTKEY reader takes the report now; what it would print is appended after every later c/e)
//	                                  -> report after every c/e, '|'-separated, then "#" + accessed key names
type c19 struct{}

func init() { props["C19"] = func() hx.Prop { return c19{} } }

func (c19) Rule() string {
	return "counter: op sequences (Incr over alphabets of 1..cap+3 keys, Latch, Free) for capacities 0..6, 50, 255, compared state by state (forward walk with all back links checked); " +
		"bounded sorted insert with arbitrary values; stale eviction with arbitrary last-update minutes; collector runs with several counters, scripted clock (incl. a minute tick inside one collection). " +
		"Non-trivial = the sequence triggers >= 1 eviction and >= 1 promotion across a node boundary (counter), or has >= 2 entries (insert/evict/collector); distinct by op line"
}

func fmtLatch(m map[string]uint64) string {
	type kv struct {
		k int
		v uint64
	}
	var l []kv
	for k, v := range m {
		n, _ := strconv.Atoi(strings.TrimPrefix(k, "k"))
		l = append(l, kv{n, v})
	}
	sort.Slice(l, func(i, j int) bool { return l[i].k < l[j].k })
	var p []string
	for _, e := range l {
		p = append(p, fmt.Sprintf("k%d=%d", e.k, e.v))
	}
	return "L{" + strings.Join(p, ",") + "}"
}

func parseHots(s string, withLut bool) ([]hotkey.VerifHot, bool) {
	var out []hotkey.VerifHot
	if s == "-" {
		return out, true
	}
	for _, e := range strings.Split(s, ",") {
		p := strings.Split(e, ":")
		if (withLut && len(p) != 3) || (!withLut && len(p) != 2) {
			return nil, false
		}
		v, err := strconv.Atoi(p[1])
		if err != nil || v < 0 || v > 255 {
			return nil, false
		}
		h := hotkey.VerifHot{Name: p[0], Val: uint8(v)}
		if withLut {
			l, err := strconv.ParseInt(p[2], 10, 64)
			if err != nil {
				return nil, false
			}
			h.Lut = l
		}
		out = append(out, h)
	}
	return out, true
}

func fmtHots(hs []hotkey.VerifHot, withLut bool) string {
	if len(hs) == 0 {
		return "-"
	}
	var p []string
	for _, h := range hs {
		if withLut {
			p = append(p, fmt.Sprintf("%s:%d:%d", h.Name, h.Val, h.Lut))
		} else {
			p = append(p, fmt.Sprintf("%s:%d", h.Name, h.Val))
		}
	}
	return strings.Join(p, ",")
}

func (c19) Exec(op string) string {
	f := hx.Fields(op)
	if len(f) < 2 {
		return "bad-op"
	}
	switch f[0] {
	case "c19.flt":
		// c19.flt <cmd hex>:<key hex>…   request bodies [cmd, key, "v"] (or [cmd] when the key is '-') through the real hot-key filter of a
		// backend connection with a counter of capacity 255 -> the counter's content: <key hex>=<count>, sorted
		return recoverStr(func() string {
			var bodies []*redis.RespValue
			for _, tk := range f[1:] {
				p := strings.SplitN(tk, ":", 2)
				if len(p) != 2 {
					return "bad-op"
				}
				cmd, err := hx.Unhex(p[0])
				if err != nil {
					return "bad-op"
				}
				if p[1] == "-" {
					bodies = append(bodies, hx.Bulks(cmd))
					continue
				}
				key, err := hx.Unhex(p[1])
				if err != nil {
					return "bad-op"
				}
				bodies = append(bodies, hx.Bulks(cmd, key, []byte("v")))
			}
			m := redis.VerifHotKeyFilter(255, bodies)
			var rows []string
			for k, n := range m {
				rows = append(rows, fmt.Sprintf("%s=%d", hx.Hex([]byte(k)), n))
			}
			sort.Strings(rows)
			if len(rows) == 0 {
				return "-"
			}
			return strings.Join(rows, ",")
		})
	case "c19.share":
		// c19.share <cap> <op>…  two connections to one backend share its counter (Collector.AllocCounter); i<k>, l: the live one counts
		// and is read; F: the old one is stopped (its filter frees the counter); f: the live one is stopped too  -> dump after each op
		capa, err := strconv.Atoi(f[1])
		if err != nil || capa < 1 || capa > 255 {
			return "bad-op"
		}
		return recoverStr(func() string {
			col := hotkey.NewCollector(uint8(capa))
			old := col.AllocCounter("backend")
			live := col.AllocCounter("backend")
			var outs []string
			for _, o := range f[2:] {
				st := ""
				switch {
				case strings.HasPrefix(o, "i"):
					live.Incr("k" + o[1:])
				case o == "l":
					st = fmtLatch(live.Latch())
				case o == "F":
					if old != nil {
						old.Free()
						old = nil
					}
				case o == "f":
					live.Free()
				default:
					return "bad-op"
				}
				outs = append(outs, st+hotkey.VerifDump(live))
			}
			if len(outs) == 0 {
				return "-"
			}
			return strings.Join(outs, "|")
		})
	case "c19.cnt":
		capa, err := strconv.Atoi(f[1])
		if err != nil || capa < 0 || capa > 255 {
			return "bad-op"
		}
		return recoverStr(func() string {
			c := hotkey.NewCounter(uint8(capa), nil)
			var outs []string
			for _, o := range f[2:] {
				st := ""
				func() {
					defer func() {
						if r := recover(); r != nil {
							st = "panic"
						}
					}()
					switch {
					case strings.HasPrefix(o, "i"):
						c.Incr("k" + o[1:])
					case o == "l":
						st = fmtLatch(c.Latch())
					case o == "f":
						c.Free()
					default:
						st = "bad-op"
					}
				}()
				if st == "panic" || st == "bad-op" {
					outs = append(outs, st)
					break
				}
				outs = append(outs, st+hotkey.VerifDump(c))
			}
			if len(outs) == 0 {
				return "-"
			}
			return strings.Join(outs, "|")
		})
	case "c19.ins":
		if len(f) != 3 {
			return "bad-op"
		}
		capa, err := strconv.Atoi(f[1])
		in, ok := parseHots(f[2], false)
		if err != nil || !ok || capa < 0 || capa > 255 {
			return "bad-op"
		}
		return recoverStr(func() string {
			out, res := hotkey.VerifInsertAll(uint8(capa), in)
			var rs strings.Builder
			for _, r := range res {
				if r {
					rs.WriteByte('t')
				} else {
					rs.WriteByte('f')
				}
			}
			return fmtHots(out, false) + "|" + rs.String()
		})
	case "c19.evict":
		if len(f) != 3 {
			return "bad-op"
		}
		now, err := strconv.ParseInt(f[1], 10, 64)
		in, ok := parseHots(f[2], true)
		if err != nil || !ok {
			return "bad-op"
		}
		return recoverStr(func() string {
			col := hotkey.NewCollector(50)
			hotkey.VerifSetKeys(col, in)
			hotkey.VerifSetNow(func() int64 { return now })
			hotkey.VerifEvictStale(col)
			return fmtHots(hotkey.VerifKeys(col), true)
		})
	case "c19.col":
		if len(f) < 3 {
			return "bad-op"
		}
		capa, err := strconv.Atoi(f[1])
		if err != nil || capa < 1 || capa > 255 {
			return "bad-op"
		}
		return recoverStr(func() string {
			col := hotkey.NewCollector(uint8(capa))
			first, rest := int64(0), int64(0)
			calls := 0
			hotkey.VerifSetNow(func() int64 {
				calls++
				if calls == 1 {
					return first
				}
				return rest
			})
			accessed := map[string]bool{}
			var outs []string
			var snaps [][]hotkey.HotKey
			readSnaps := func() []string {
				// what a reader holding an earlier report prints now (handleHotKey reads the counters after HotKeys() returned)
				var rs []string
				for _, sn := range snaps {
					var hs []hotkey.VerifHot
					for _, k := range sn {
						hs = append(hs, hotkey.VerifHot{Name: k.Name, Val: k.Counter.Value(), Lut: k.Counter.LastUpdateTimeInMinute()})
					}
					rs = append(rs, fmtHots(hs, false))
				}
				return rs
			}
			for _, tok := range f[2:] {
				switch {
				case strings.HasPrefix(tok, "a"):
					var cn, times int
					var key string
					p := strings.SplitN(tok[1:], ".", 2)
					if len(p) != 2 {
						return "bad-op"
					}
					cn, _ = strconv.Atoi(p[0])
					q := strings.SplitN(p[1], "x", 2)
					if len(q) != 2 {
						return "bad-op"
					}
					key = q[0]
					times, _ = strconv.Atoi(q[1])
					c := col.AllocCounter(fmt.Sprintf("backend%d", cn))
					for i := 0; i < times; i++ {
						c.Incr(key)
					}
					accessed[key] = true
				case tok == "s":
					// a HOTKEY reader takes the report now (public API) and prints it later
					snaps = append(snaps, col.HotKeys())
				case tok == "c":
					calls = 0
					hotkey.VerifCollect(col)
					outs = append(outs, fmtHots(hotkey.VerifKeys(col), false))
					outs = append(outs, readSnaps()...)
				case tok == "e":
					calls = 1
					hotkey.VerifEvictStale(col)
					outs = append(outs, fmtHots(hotkey.VerifKeys(col), false))
					outs = append(outs, readSnaps()...)
				case strings.HasPrefix(tok, "t"):
					m, _ := strconv.ParseInt(tok[1:], 10, 64)
					first, rest = m, m
				case strings.HasPrefix(tok, "T"):
					p := strings.SplitN(tok[1:], ".", 2)
					if len(p) != 2 {
						return "bad-op"
					}
					first, _ = strconv.ParseInt(p[0], 10, 64)
					rest, _ = strconv.ParseInt(p[1], 10, 64)
				default:
					return "bad-op"
				}
			}
			var names []string
			for k := range accessed {
				names = append(names, k)
			}
			sort.Strings(names)
			if len(outs) == 0 {
				outs = []string{"-"}
			}
			return strings.Join(outs, "|") + " #" + strings.Join(names, ",")
		})
	}
	return "bad-op"
}

func (c19) Gen(r *hx.Run) {
	rng := r.Rng
	// key names through the hot-key filter: short, long (beyond any plausible truncation), sharing long prefixes, binary; commands without a key
	hexs := func(s string) string { return hx.Hex([]byte(s)) }
	for i := 0; i < r.N(60, 1200); i++ {
		base := strings.Repeat("k", []int{1, 8, 63, 64, 65, 127, 128, 129, 200, 255, 256, 257, 1000, 5000}[rng.Intn(14)])
		pool := []string{base, base + "a", base + "b", "short", string([]byte{0, 255, 13, 10, 32}), base[:len(base)/2+1]}
		var tk []string
		for j := 0; j < 1+rng.Intn(12); j++ {
			cmd := []string{"get", "set", "GET", "hget", "del", "eval", "cluster", "auth", "scan", "incr"}[rng.Intn(10)]
			if rng.Intn(12) == 0 {
				tk = append(tk, hexs(cmd)+":-")
				continue
			}
			tk = append(tk, hexs(cmd)+":"+hexs(pool[rng.Intn(len(pool))]))
		}
		r.Do("c19.flt "+strings.Join(tk, " "), true, "flt")
	}
	// counter sequences
	caps := []int{0, 1, 2, 3, 4, 5, 6, 50, 255}
	for i := 0; i < r.N(1500, 30000); i++ {
		capa := caps[rng.Intn(len(caps))]
		if rng.Intn(3) != 0 {
			capa = 1 + rng.Intn(6)
		}
		nk := 1 + rng.Intn(capa+3)
		if capa > 6 {
			nk = capa - 3 + rng.Intn(8)
		}
		n := 1 + rng.Intn(40)
		if capa > 6 {
			n = capa + rng.Intn(200)
		}
		ops := make([]string, n)
		hot := rng.Intn(nk)
		for j := range ops {
			switch x := rng.Intn(40); {
			case x == 0:
				ops[j] = "l"
			case x == 1:
				ops[j] = "f"
			case x < 14:
				ops[j] = fmt.Sprintf("i%d", hot)
			default:
				ops[j] = fmt.Sprintf("i%d", rng.Intn(nk))
			}
		}
		r.Do(fmt.Sprintf("c19.cnt %d %s", capa, strings.Join(ops, " ")), capa > 0 && nk > capa && n >= 6, "cnt")
		if capa >= 1 && i%3 == 0 {
			// the same history on the counter of a backend that two connections share; the old one is stopped somewhere in between
			sh := append([]string{}, ops...)
			for j := range sh {
				if sh[j] == "f" {
					sh[j] = "l" // the live connection is stopped last, if at all
				}
			}
			at := rng.Intn(len(sh) + 1)
			sh = append(sh[:at], append([]string{"F"}, sh[at:]...)...)
			if rng.Intn(3) == 0 {
				sh = append(sh, "f", "i1")
			}
			r.Do(fmt.Sprintf("c19.share %d %s", capa, strings.Join(sh, " ")), true, "shared-counter")
		}
	}
	if r.Thorough() {
		// all sequences of length <= 8 over 4 keys for cap 1..3
		for capa := 1; capa <= 3; capa++ {
			var rec func(cur []string)
			rec = func(cur []string) {
				if len(cur) > 0 {
					r.Do(fmt.Sprintf("c19.cnt %d %s", capa, strings.Join(cur, " ")), len(cur) >= 4, "cnt-enum")
				}
				if len(cur) == 8 {
					return
				}
				for k := 0; k < 4; k++ {
					rec(append(append([]string{}, cur...), fmt.Sprintf("i%d", k)))
				}
			}
			rec(nil)
		}
		r.Exhaustive()
	}
	// bounded sorted insert
	for i := 0; i < r.N(800, 20000); i++ {
		capa := 1 + rng.Intn(6)
		if rng.Intn(10) == 0 {
			capa = 50
		}
		n := rng.Intn(capa + 5)
		var es []string
		for j := 0; j < n; j++ {
			v := rng.Intn(6)
			if rng.Intn(4) == 0 {
				v = rng.Intn(256)
			}
			es = append(es, fmt.Sprintf("n%d:%d", j, v))
		}
		s := "-"
		if len(es) > 0 {
			s = strings.Join(es, ",")
		}
		r.Do(fmt.Sprintf("c19.ins %d %s", capa, s), n >= 2, "ins")
	}
	// stale eviction on a sorted report with arbitrary last-update minutes
	for i := 0; i < r.N(800, 20000); i++ {
		n := rng.Intn(8)
		v := 3 + rng.Intn(250)
		var es []string
		for j := 0; j < n; j++ {
			es = append(es, fmt.Sprintf("n%d:%d:%d", j, v, 100+rng.Intn(3)))
			v -= rng.Intn(1 + v/2)
			if v < 0 {
				v = 0
			}
		}
		s := "-"
		if len(es) > 0 {
			s = strings.Join(es, ",")
		}
		r.Do(fmt.Sprintf("c19.evict %d %s", 100+rng.Intn(3), s), n >= 2, "evict")
	}
	// collector runs
	for i := 0; i < r.N(150, 3000); i++ {
		capa := 1 + rng.Intn(5)
		var toks []string
		minute := 100
		toks = append(toks, fmt.Sprintf("t%d", minute))
		for p := 0; p < 1+rng.Intn(5); p++ {
			for a := 0; a < 1+rng.Intn(6); a++ {
				toks = append(toks, fmt.Sprintf("a%d.key%dx%d", rng.Intn(3), rng.Intn(capa+3), 1+rng.Intn(3000)))
			}
			switch rng.Intn(4) {
			case 0:
				toks = append(toks, fmt.Sprintf("T%d.%d", minute, minute+1)) // the minute ticks inside this collection
				minute++
			case 1:
				minute++
				toks = append(toks, fmt.Sprintf("t%d", minute))
			}
			toks = append(toks, "c")
			if rng.Intn(2) == 0 {
				toks = append(toks, fmt.Sprintf("t%d", minute), "e")
			}
		}
		if rng.Intn(2) == 0 {
			// HOTKEY readers that took the report earlier and print it after later collections
			for k := 0; k < 2; k++ {
				pos := 1 + rng.Intn(len(toks))
				toks = append(toks[:pos], append([]string{"s"}, toks[pos:]...)...)
			}
		}
		r.Do(fmt.Sprintf("c19.col %d %s", capa, strings.Join(toks, " ")), true, "col")
	}
}
