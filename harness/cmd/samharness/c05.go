package main

import (
	"bytes"
	"fmt"
	"io"
	"math/rand"
	"net"
	"os"
	"strconv"
	"strings"
	"sync"
	"time"

	"github.com/samaritan-proxy/samaritan/host"
	"github.com/samaritan-proxy/samaritan/pb/config/service"

	"verifharness/hx"
)

// C05: TCP relay.
//
//	c05.relay <seed> <action>…   one client connection through a real TCP processor to one scripted backend.
//	    actions: cw<n> client writes n bytes; bw<n> backend writes n bytes; cc / bc half-close (CloseWrite); p<ms> pause;
//	             a trailing "/<k>" on a write cuts it into k-byte writes
//	    -> b_got=<n> b_eof=<t|f> b_content=<ok|bad> c_got=<n> c_eof=<t|f> c_content=<ok|bad>
//	c05.multi <seed> <k> <n>     k concurrent connections, each echoing n distinct bytes both ways -> ok | bad <which>
type c05 struct{}

func init() { props["C05"] = func() hx.Prop { return c05{} } }

func (c05) Rule() string {
	return "real TCP processor (proc.New) between a scripted client and a scripted backend over loopback sockets: streams of 0..40 relay buffers in both directions, " +
		"write sizes from 1 byte to several buffers, pauses, every order of the two half-closes relative to the data of the opposite direction; several concurrent connections with distinct contents. " +
		"Non-trivial = a stream >= 2 buffers, or both directions carry data, or a half-close precedes data in the opposite direction; distinct by op line"
}

type side struct {
	conn net.Conn
	mu   sync.Mutex // got and eof are written by readAll while the script looks at them
	got  bytes.Buffer
	eof  bool
	done chan struct{}
}

func (s *side) gotLen() int {
	s.mu.Lock()
	defer s.mu.Unlock()
	return s.got.Len()
}

// gotBytes is a copy of what has arrived so far.
func (s *side) gotBytes() []byte {
	s.mu.Lock()
	defer s.mu.Unlock()
	return append([]byte{}, s.got.Bytes()...)
}

func (s *side) sawEOF() bool {
	s.mu.Lock()
	defer s.mu.Unlock()
	return s.eof
}

func (s *side) readAll() {
	buf := make([]byte, 32*1024)
	for {
		s.conn.SetReadDeadline(time.Now().Add(3 * time.Second))
		n, err := s.conn.Read(buf)
		s.mu.Lock()
		s.got.Write(buf[:n])
		if err != nil {
			s.eof = err == io.EOF
		}
		s.mu.Unlock()
		if err != nil {
			close(s.done)
			return
		}
	}
}

func stream(seed int64, tag byte, n int) []byte {
	r := rand.New(rand.NewSource(seed*7919 + int64(tag)))
	b := make([]byte, n)
	r.Read(b)
	return b
}

// c05.late <seed> <late 0|1>   idle timeout 500 ms.  The client sends one byte and then only reads; the backend sends a byte every 50 ms, so
// its direction is never idle.  After 800 ms — the client's direction has timed out meanwhile — the client sends one more byte (late=1), the
// backend then sends 2 MiB and finishes; the client is slow (pauses 1.5 s) and reads to the end.
//
//	-> got=<bytes the client received>/<bytes the backend sent> end=<eof|error>
func c05Late(seed int64, late bool) string {
	be, err := hx.NewBackend()
	if err != nil {
		return "sockerr"
	}
	defer be.Close()
	p, err := hx.NewTCPProc(service.LoadBalancePolicy_ROUND_ROBIN, 500*time.Millisecond, 0, []*host.Host{host.New(be.Addr)})
	if err != nil {
		return "procerr"
	}
	defer hx.DropScopes("service." + p.Name() + ".")
	defer p.Stop()
	const head, tail = 20, 2 << 20
	data := stream(seed, 'b', head+tail)
	goAhead := make(chan struct{})
	sdone := make(chan struct{})
	go func() {
		defer close(sdone)
		var c net.Conn
		select {
		case c = <-be.Conns:
		case <-time.After(5 * time.Second):
			return
		}
		defer c.Close()
		rdone := make(chan struct{})
		go func() { io.Copy(io.Discard, c); close(rdone) }()
		off := 0
		tick := time.NewTicker(50 * time.Millisecond)
		defer tick.Stop()
	loop:
		for {
			select {
			case <-tick.C:
				if off < head {
					c.Write(data[off : off+1])
					off++
				}
			case <-goAhead:
				break loop
			}
		}
		if _, err := c.Write(data[off:]); err == nil {
			c.(*net.TCPConn).CloseWrite()
		}
		select {
		case <-rdone:
		case <-time.After(5 * time.Second):
		}
	}()
	conn, err := net.Dial("tcp", p.Address())
	if err != nil {
		return "sockerr"
	}
	defer conn.Close()
	conn.Write([]byte("R"))
	got, wrong := 0, false
	buf := make([]byte, 4096)
	start := time.Now()
	passed := false
	end := "eof"
	conn.SetReadDeadline(time.Now().Add(15 * time.Second))
	for {
		if !passed && time.Since(start) > 800*time.Millisecond {
			passed = true
			if late {
				conn.Write([]byte("L"))
			}
			time.Sleep(50 * time.Millisecond)
			close(goAhead)
			time.Sleep(1500 * time.Millisecond)
		}
		n, err := conn.Read(buf)
		for i := 0; i < n; i++ {
			if got+i >= len(data) || buf[i] != data[got+i] {
				wrong = true
			}
		}
		got += n
		if err != nil {
			if err != io.EOF {
				end = "error"
			}
			break
		}
	}
	if !passed {
		close(goAhead)
	}
	select {
	case <-sdone:
	case <-time.After(6 * time.Second):
	}
	if wrong {
		end += "+wrong-bytes"
	}
	return fmt.Sprintf("got=%d/%d end=%s", got, len(data), end)
}

func (c05) Exec(op string) string {
	f := hx.Fields(op)
	if len(f) == 3 && f[0] == "c05.late" {
		seed, err := strconv.ParseInt(f[1], 10, 64)
		if err != nil || (f[2] != "0" && f[2] != "1") {
			return "bad-op"
		}
		return recoverStr(func() string { return c05Late(seed, f[2] == "1") })
	}
	if len(f) < 3 {
		return "bad-op"
	}
	seed, err := strconv.ParseInt(f[1], 10, 64)
	if err != nil {
		return "bad-op"
	}
	switch f[0] {
	case "c05.relay":
		return recoverStr(func() string {
			be, err := hx.NewBackend()
			if err != nil {
				return "sockerr"
			}
			defer be.Close()
			p, err := hx.NewTCPProc(service.LoadBalancePolicy_ROUND_ROBIN, 5*time.Second, 0, []*host.Host{host.New(be.Addr)})
			if err != nil {
				return "procerr " + err.Error()
			}
			defer hx.DropScopes("service." + p.Name() + ".") // runs after the Stop registered below
			defer p.Stop()
			cc, err := net.Dial("tcp", p.Address())
			if err != nil {
				return "sockerr"
			}
			defer cc.Close()
			var bc net.Conn
			select {
			case bc = <-be.Conns:
			case <-time.After(2 * time.Second):
				return "no-backend-conn"
			}
			defer bc.Close()
			cs := &side{conn: cc, done: make(chan struct{})}
			bs := &side{conn: bc, done: make(chan struct{})}
			go cs.readAll()
			go bs.readAll()
			// total to be sent per side, to cut the deterministic streams
			ctotal, btotal := 0, 0
			for _, a := range f[2:] {
				body := strings.SplitN(a, "/", 2)[0]
				if strings.HasPrefix(body, "cw") {
					n, _ := strconv.Atoi(body[2:])
					ctotal += n
				} else if strings.HasPrefix(body, "bw") {
					n, _ := strconv.Atoi(body[2:])
					btotal += n
				}
			}
			cdata, bdata := stream(seed, 'c', ctotal), stream(seed, 'b', btotal)
			cpos, bpos := 0, 0
			write := func(conn net.Conn, data []byte, chunk int) {
				if chunk <= 0 {
					chunk = len(data)
				}
				for len(data) > 0 {
					k := chunk
					if k > len(data) {
						k = len(data)
					}
					conn.SetWriteDeadline(time.Now().Add(3 * time.Second))
					if _, err := conn.Write(data[:k]); err != nil {
						return
					}
					data = data[k:]
				}
			}
			for _, a := range f[2:] {
				parts := strings.SplitN(a, "/", 2)
				chunk := 0
				if len(parts) == 2 {
					chunk, _ = strconv.Atoi(parts[1])
				}
				switch {
				case strings.HasPrefix(parts[0], "cw"):
					n, _ := strconv.Atoi(parts[0][2:])
					write(cc, cdata[cpos:cpos+n], chunk)
					cpos += n
				case strings.HasPrefix(parts[0], "bw"):
					n, _ := strconv.Atoi(parts[0][2:])
					write(bc, bdata[bpos:bpos+n], chunk)
					bpos += n
				case parts[0] == "cc":
					cc.(*net.TCPConn).CloseWrite()
				case parts[0] == "bc":
					bc.(*net.TCPConn).CloseWrite()
				case strings.HasPrefix(parts[0], "p"):
					ms, _ := strconv.Atoi(parts[0][1:])
					time.Sleep(time.Duration(ms) * time.Millisecond)
				default:
					return "bad-op"
				}
			}
			// wait until each side has everything it is owed (and its EOF when the peer half-closed)
			wait := func(s *side, want int, wantEOF bool) {
				deadline := time.Now().Add(3 * time.Second)
				for time.Now().Before(deadline) {
					select {
					case <-s.done:
						return
					default:
					}
					if !wantEOF && s.gotLen() >= want {
						time.Sleep(20 * time.Millisecond) // anything extra (duplicates) would show up now
						return
					}
					time.Sleep(2 * time.Millisecond)
				}
			}
			hasCC, hasBC := strings.Contains(" "+strings.Join(f[2:], " ")+" ", " cc "), strings.Contains(" "+strings.Join(f[2:], " ")+" ", " bc ")
			wait(bs, ctotal, hasCC)
			wait(cs, btotal, hasBC)
			res := func(s *side, sent []byte) string {
				select {
				case <-s.done:
				default:
				}
				got := s.gotBytes()
				content := "ok"
				if !bytes.Equal(got, sent[:minInt(len(got), len(sent))]) || len(got) > len(sent) {
					content = "bad"
				}
				eof := "f"
				select {
				case <-s.done:
					if s.sawEOF() {
						eof = "t"
					}
				default:
				}
				return fmt.Sprintf("got=%d eof=%s content=%s", len(got), eof, content)
			}
			b := res(bs, cdata)
			c := res(cs, bdata)
			return "b_" + strings.ReplaceAll(b, " ", " b_") + " c_" + strings.ReplaceAll(c, " ", " c_")
		})
	case "c05.paced":
		// c05.paced <seed> <idle ms> <gap ms> <count> <chunk>: a steady stream with gaps far below the idle timeout, lasting longer than it
		if len(f) != 6 {
			return "bad-op"
		}
		idle, _ := strconv.Atoi(f[2])
		gap, _ := strconv.Atoi(f[3])
		count, _ := strconv.Atoi(f[4])
		chunk, _ := strconv.Atoi(f[5])
		return recoverStr(func() string {
			be, err := hx.NewBackend()
			if err != nil {
				return "sockerr"
			}
			defer be.Close()
			p, err := hx.NewTCPProc(service.LoadBalancePolicy_ROUND_ROBIN, time.Duration(idle)*time.Millisecond, 0, []*host.Host{host.New(be.Addr)})
			if err != nil {
				return "procerr"
			}
			defer hx.DropScopes("service." + p.Name() + ".") // runs after the Stop registered below
			defer p.Stop()
			cc, err := net.Dial("tcp", p.Address())
			if err != nil {
				return "sockerr"
			}
			defer cc.Close()
			var bc net.Conn
			select {
			case bc = <-be.Conns:
			case <-time.After(2 * time.Second):
				return "no-backend-conn"
			}
			defer bc.Close()
			bs := &side{conn: bc, done: make(chan struct{})}
			go bs.readAll()
			data := stream(seed, 'p', count*chunk)
			// the backend answers every chunk with one byte so that both directions stay busy
			go func() {
				for i := 0; i < count; i++ {
					time.Sleep(time.Duration(gap) * time.Millisecond)
					bc.Write([]byte{1})
				}
			}()
			werr := ""
			for i := 0; i < count; i++ {
				if _, err := cc.Write(data[i*chunk : (i+1)*chunk]); err != nil {
					werr = "write-failed-at-" + strconv.Itoa(i)
					break
				}
				time.Sleep(time.Duration(gap) * time.Millisecond)
			}
			cc.(*net.TCPConn).CloseWrite()
			select {
			case <-bs.done:
			case <-time.After(3 * time.Second):
			}
			content := "ok"
			got := bs.gotBytes()
			if !bytes.Equal(got, data[:minInt(len(got), len(data))]) {
				content = "bad"
			}
			if werr != "" {
				content = werr
			}
			return fmt.Sprintf("b_got=%d b_content=%s", len(got), content)
		})
	case "c05.multi":
		if len(f) != 4 {
			return "bad-op"
		}
		k, _ := strconv.Atoi(f[2])
		n, _ := strconv.Atoi(f[3])
		return recoverStr(func() string {
			be, err := hx.NewBackend()
			if err != nil {
				return "sockerr"
			}
			defer be.Close()
			p, err := hx.NewTCPProc(service.LoadBalancePolicy_ROUND_ROBIN, 5*time.Second, 0, []*host.Host{host.New(be.Addr)})
			if err != nil {
				return "procerr"
			}
			defer hx.DropScopes("service." + p.Name() + ".") // runs after the Stop registered below
			defer p.Stop()
			// backend: reads a 1-byte id then streams stream(seed,'B'+id) while reading the client's stream
			go func() {
				for bc := range be.Conns {
					go func(bc net.Conn) {
						defer bc.Close()
						id := make([]byte, 1)
						if _, err := io.ReadFull(bc, id); err != nil {
							return
						}
						wdone := make(chan struct{})
						go func() {
							bc.Write(stream(seed, 'B'+id[0], n))
							close(wdone)
						}()
						got, _ := io.ReadAll(bc)
						<-wdone
						if !bytes.Equal(got, stream(seed, 'C'+id[0], n)) {
							bc.Write([]byte("MISMATCH"))
						}
						bc.(*net.TCPConn).CloseWrite()
					}(bc)
				}
			}()
			var wg sync.WaitGroup
			bad := make([]string, k)
			for i := 0; i < k; i++ {
				wg.Add(1)
				go func(i int) {
					defer wg.Done()
					target := p.Address()
					if os.Getenv("VERIF_C05_DIRECT") != "" {
						target = be.Addr
					}
					cc, err := net.Dial("tcp", target)
					if err != nil {
						bad[i] = "dial"
						return
					}
					defer cc.Close()
					cc.SetDeadline(time.Now().Add(8 * time.Second))
					go func() {
						cc.Write([]byte{byte(i)})
						data := stream(seed, 'C'+byte(i), n)
						for len(data) > 0 {
							c := 1 + rand.Intn(20000)
							if c > len(data) {
								c = len(data)
							}
							cc.Write(data[:c])
							data = data[c:]
						}
						cc.(*net.TCPConn).CloseWrite()
					}()
					got, _ := io.ReadAll(cc)
					if !bytes.Equal(got, stream(seed, 'B'+byte(i), n)) {
						bad[i] = fmt.Sprintf("conn%d:got%d", i, len(got))
					}
				}(i)
			}
			wg.Wait()
			for _, b := range bad {
				if b != "" {
					return "bad " + b
				}
			}
			return "ok"
		})
	}
	return "bad-op"
}

func minInt(a, b int) int {
	if a < b {
		return a
	}
	return b
}

func (c05) Gen(r *hx.Run) {
	rng := r.Rng
	sizes := []int{0, 1, 2, 100, 16383, 16384, 16385, 32768, 40000, 100000, 16384 * 40}
	for i := 0; i < r.N(90, 1500); i++ {
		var acts []string
		na := 1 + rng.Intn(6)
		ccDone, bcDone := false, false
		nt := false
		for j := 0; j < na; j++ {
			switch x := rng.Intn(10); {
			case x < 3 && !ccDone:
				n := sizes[rng.Intn(len(sizes)-1)]
				if rng.Intn(12) == 0 {
					n = sizes[len(sizes)-1]
				}
				a := fmt.Sprintf("cw%d", n)
				if rng.Intn(2) == 0 && n > 0 {
					a += fmt.Sprintf("/%d", []int{1, 7, 1000, 16384, 20000}[rng.Intn(5)]*maxInt(1, n/4000))
				}
				acts = append(acts, a)
				if n >= 32768 {
					nt = true
				}
			case x < 6 && !bcDone:
				n := sizes[rng.Intn(len(sizes)-1)]
				a := fmt.Sprintf("bw%d", n)
				if rng.Intn(2) == 0 && n > 0 {
					a += fmt.Sprintf("/%d", []int{1, 7, 1000, 16384, 20000}[rng.Intn(5)]*maxInt(1, n/4000))
				}
				acts = append(acts, a)
				if n >= 32768 {
					nt = true
				}
			case x == 6 && !ccDone:
				acts = append(acts, "cc")
				ccDone = true
			case x == 7 && !bcDone:
				acts = append(acts, "bc")
				bcDone = true
			case x == 8:
				acts = append(acts, fmt.Sprintf("p%d", 1+rng.Intn(30)))
			}
		}
		if len(acts) == 0 {
			acts = []string{"cc"}
		}
		s := strings.Join(acts, " ")
		if strings.Contains(s, "cw") && strings.Contains(s, "bw") {
			nt = true
		}
		r.Do(fmt.Sprintf("c05.relay %d %s", rng.Intn(1000), s), nt || ccDone || bcDone, "relay")
	}
	// the half-close orders explicitly
	for _, s := range []string{"cc bw50000 bc", "bc cw50000 cc", "cc p20 bw1 p20 bw1 bc", "cw1 cc p30 bw70000/1000 bc", "cc bc", "bc cc", "cw0 cc bw16384 bc", "bw16385 bc p30 cw16385 cc"} {
		r.Do("c05.relay 7 "+s, true, "relay-halfclose")
	}
	// a busy direction must not hit the idle timeout
	r.Do(fmt.Sprintf("c05.paced %d 400 20 45 300", rng.Intn(1000)), true, "paced")
	if r.Thorough() {
		r.Do(fmt.Sprintf("c05.paced %d 800 90 30 2000", rng.Intn(1000)), true, "paced")
		r.Do(fmt.Sprintf("c05.paced %d 300 10 100 17000", rng.Intn(1000)), true, "paced")
	}
	for i := 0; i < r.N(4, 40); i++ {
		r.Do(fmt.Sprintf("c05.multi %d %d %d", rng.Intn(1000), 2+rng.Intn(7), 20000+rng.Intn(200000)), true, "multi")
	}
}

func maxInt(a, b int) int {
	if a > b {
		return a
	}
	return b
}
