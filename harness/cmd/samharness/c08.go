package main

import (
	"errors"
	"fmt"
	"io"
	"net"
	"os"
	"sort"
	"strconv"
	"strings"
	"sync"
	"time"

	"github.com/samaritan-proxy/samaritan/config"
	"github.com/samaritan-proxy/samaritan/controller"
	"github.com/samaritan-proxy/samaritan/host"
	"github.com/samaritan-proxy/samaritan/pb/common"
	pbhc "github.com/samaritan-proxy/samaritan/pb/config/hc"
	"github.com/samaritan-proxy/samaritan/pb/config/protocol"
	"github.com/samaritan-proxy/samaritan/pb/config/service"
	"github.com/samaritan-proxy/samaritan/proc"

	"verifharness/hx"
)

// C08: configured services vs running processors.
//
//	c08.hist <step>…   d+<n> / d-<n> dependency added / removed; c<n>.<id><v|i> configuration (valid / invalid);
//	                   e<n>+<a,b>-<c,d> endpoint update (added, removed; either part may be empty: "e1+-3");
//	                   c<n>.<id>u a configuration that passes Validate() but from which no processor can be made; c<n>.nil an update without one;
//	                   k<j> the controller consumes j pending events (all pending events are consumed at the end)
//	   -> store <n>:<cfg id|->:<endpoints|nil>;… | procs <n>:<cfg id>:<hosts sorted>;…
type c08 struct{}

func init() { props["C08"] = func() hx.Prop { return c08{} } }

func (c08) Rule() string {
	return "histories of dependency, configuration and endpoint updates through the real config store handlers into the real controller event handler with a recording processor builder " +
		"(creation fails iff the configuration is invalid), the controller consuming events immediately, in batches, or only at the end. " +
		"Non-trivial = the history contains an address in both lists of one update, a removal before any addition, an invalid configuration later corrected, or a remove + re-add of a service; distinct by op line"
}

type recProc struct {
	name  string
	cfg   *service.Config
	hosts *host.Set
}

func (p *recProc) Name() string            { return p.name }
func (p *recProc) Address() string         { return "" }
func (p *recProc) Config() *service.Config { return p.cfg }
func (p *recProc) OnSvcHostAdd(hs []*host.Host) error {
	p.hosts.Add(hs...)
	return nil
}
func (p *recProc) OnSvcHostRemove(hs []*host.Host) error {
	p.hosts.Remove(hs...)
	return nil
}
func (p *recProc) OnSvcAllHostReplace(hs []*host.Host) error {
	p.hosts.ReplaceAll(hs)
	return nil
}
func (p *recProc) OnSvcConfigUpdate(c *service.Config) error {
	if c != nil && c.Protocol == protocol.MySQL {
		return errors.New("no processor can be made from this configuration")
	}
	if err := c.Validate(); err != nil {
		return err
	}
	p.cfg = c
	return nil
}
func (p *recProc) Start() error      { return nil }
func (p *recProc) StopListen() error { return nil }
func (p *recProc) Stop() error       { return nil }

func c08Config(id int, valid bool) *service.Config {
	d := time.Duration(id) * time.Second
	ct := time.Second
	c := &service.Config{
		Listener:        &service.Listener{Address: &common.Address{Ip: "127.0.0.1", Port: 12345}},
		ConnectTimeout:  &ct,
		IdleTimeout:     &d,
		Protocol:        protocol.TCP,
		ProtocolOptions: &service.Config_TcpOption{TcpOption: &protocol.TCPOption{}},
	}
	if !valid {
		c.Listener = nil // fails Validate
	}
	return c
}

func c08Endpoints(s string) []*service.Endpoint {
	var out []*service.Endpoint
	for _, a := range strings.Split(s, ",") {
		if a == "" {
			continue
		}
		n, _ := strconv.Atoi(a)
		out = append(out, &service.Endpoint{Address: &common.Address{Ip: "10.0.0.1", Port: uint32(1000 + n)}})
	}
	return out
}

// aliasRun: a service with n endpoints is announced; while the controller turns the announcement into a processor, k endpoints
// are removed one by one; then everything pending is consumed. -> missing=<hosts the store has and the processor lacks> extra=<the reverse>
func aliasRun(n, k int) string {
	return recoverStr(func() string {
		controller.VerifSetNewProc(func(name string, cfg *service.Config, hosts []*host.Host) (proc.Proc, error) {
			return &recProc{name: name, cfg: cfg, hosts: host.NewSet(hosts...)}, nil
		})
		store := config.VerifNewStore(4096)
		ctl, _ := controller.New(store.Subscribe())
		var eps []*service.Endpoint
		for i := 0; i < n; i++ {
			eps = append(eps, &service.Endpoint{Address: &common.Address{Ip: fmt.Sprintf("10.%d.%d.%d", i>>16, (i>>8)&255, i&255), Port: 1000}})
		}
		store.VerifDependencyUpdate([]*service.Service{{Name: "svc"}}, nil)
		store.VerifSvcEndpointUpdate("svc", eps, nil)
		store.VerifSvcConfigUpdate("svc", c08Config(1, true)) // announces the service
		done := make(chan struct{})
		go func() {
			defer close(done)
			ctl.VerifHandleEvent(<-store.Subscribe())
		}()
		for i := 0; i < k; i++ {
			store.VerifSvcEndpointUpdate("svc", nil, []*service.Endpoint{eps[i*(n/k)]})
		}
		<-done
		for {
			select {
			case evt := <-store.Subscribe():
				ctl.VerifHandleEvent(evt)
				continue
			default:
			}
			break
		}
		want := map[string]bool{}
		for _, sw := range store.VerifDump() {
			for _, e := range sw.Endpoints {
				want[fmt.Sprintf("%s:%d", e.Address.Ip, e.Address.Port)] = true
			}
		}
		missing, extra := len(want), 0
		for _, p := range ctl.GetAllProcs() {
			for _, h := range p.(*recProc).hosts.All() {
				if want[h.Addr] {
					missing--
				} else {
					extra++
				}
			}
		}
		return fmt.Sprintf("missing=%d extra=%d", missing, extra)
	})
}

// c08.hcoff   a real TCP processor with a health check (20 ms interval, thresholds 1) in front of two backends, one of which is down and
// marked unhealthy; the configuration is replaced by the same one without a health check (a valid configuration: a service may have none);
// the backend comes back; four connections are made.
//
//	-> update=<ok|error|panic> cfg=<the processor's configuration has no health check: 1|0> served=<connections relayed to each backend>
// c08.hc <mode>   the same processor set-up as c08.hcoff, for other updates of the health check section:
//
//	int   the section has no checker ("if the checker is null, then TCP checker will be selected"); the update changes only the interval
//	atcp  a service is created whose health check has an atcp action with an expectation and nothing to send -> new=<ok|error|panic>
//	rej   the section uses the redis checker, the second backend accepts connections and never answers (unhealthy); an update whose
//	      atcp action is broken is rejected: the checker in force stays, the silent backend stays out
func c08Hc(mode string) string {
	broken := &pbhc.HealthCheck{Interval: 20 * time.Millisecond, Timeout: 100 * time.Millisecond, FallThreshold: 1, RiseThreshold: 1,
		Checker: &pbhc.HealthCheck_AtcpChecker{AtcpChecker: &pbhc.ATCPChecker{Action: []*pbhc.ATCPChecker_Action{{Expect: []byte("\"x\"")}}}}}
	ct := 300 * time.Millisecond
	idle := time.Minute
	mk := func(h *pbhc.HealthCheck) *service.Config {
		return &service.Config{
			Listener:        &service.Listener{Address: &common.Address{Ip: "127.0.0.1", Port: 0}},
			ConnectTimeout:  &ct,
			IdleTimeout:     &idle,
			Protocol:        protocol.TCP,
			ProtocolOptions: &service.Config_TcpOption{TcpOption: &protocol.TCPOption{}},
			HealthCheck:     h,
		}
	}
	c08seq++
	name := fmt.Sprintf("verif-c08h-%d-%d", os.Getpid(), c08seq)
	defer hx.DropScopes("service." + strings.Replace(name, ".", "_", -1) + ".")
	if mode == "atcp" {
		res := "ok"
		func() {
			defer func() {
				if r := recover(); r != nil {
					res = "panic"
				}
			}()
			p, err := proc.New(name, mk(broken), []*host.Host{host.New("127.0.0.1:1")})
			if err != nil {
				res = "error"
			} else {
				p.Stop()
			}
		}()
		return "new=" + res
	}
	// backends that answer every read with +PONG (what the redis checker and the probe connections read)
	serve := func(b *hx.Backend, silent bool) {
		for c := range b.Conns {
			go func(c net.Conn) {
				defer c.Close()
				buf := make([]byte, 256)
				for {
					if _, err := c.Read(buf); err != nil {
						return
					}
					if !silent {
						c.Write([]byte("+PONG\r\n"))
					}
				}
			}(c)
		}
	}
	up, err := hx.NewBackend()
	if err != nil {
		return "sockerr"
	}
	defer up.Close()
	go serve(up, false)
	other, err := hx.NewBackend()
	if err != nil {
		return "sockerr"
	}
	defer other.Close()
	go serve(other, mode == "rej")
	first := &pbhc.HealthCheck{Interval: 20 * time.Millisecond, Timeout: 100 * time.Millisecond, FallThreshold: 1, RiseThreshold: 1}
	if mode == "rej" {
		first.Checker = &pbhc.HealthCheck_RedisChecker{RedisChecker: &pbhc.RedisChecker{}}
	}
	p, err := proc.New(name, mk(first), []*host.Host{host.New(up.Addr), host.New(other.Addr)})
	if err != nil {
		return "procerr " + err.Error()
	}
	if err := p.Start(); err != nil {
		return "procerr"
	}
	defer p.Stop()
	time.Sleep(2 * time.Millisecond)
	for i := 0; i < 400 && p.Address() == ""; i++ {
		time.Sleep(time.Millisecond)
	}
	time.Sleep(300 * time.Millisecond)
	second := &pbhc.HealthCheck{Interval: 30 * time.Millisecond, Timeout: 100 * time.Millisecond, FallThreshold: 1, RiseThreshold: 1}
	if mode == "rej" {
		second = broken
	}
	upd := "ok"
	func() {
		defer func() {
			if r := recover(); r != nil {
				upd = "panic"
			}
		}()
		if err := p.OnSvcConfigUpdate(mk(second)); err != nil {
			upd = "error"
		}
	}()
	time.Sleep(300 * time.Millisecond)
	okConns := 0
	for i := 0; i < 4; i++ {
		c, err := net.DialTimeout("tcp", p.Address(), time.Second)
		if err != nil {
			continue
		}
		c.Write([]byte("PING\r\n"))
		c.SetReadDeadline(time.Now().Add(500 * time.Millisecond))
		b := make([]byte, 1)
		if _, err := io.ReadFull(c, b); err == nil {
			okConns++
		}
		c.Close()
	}
	return fmt.Sprintf("update=%s answered=%d/4", upd, okConns)
}

// c08.ep <mode>   the real store and controller with the recording processor:
//
//	retype  endpoints 1 and 2 are known as main hosts; endpoint 2 is announced again as a backup host
//	noaddr  an endpoint update carries an endpoint without an address next to endpoint 2
//
//	-> store=<endpoints with type> procs=<hosts with type> | panic
func c08Ep(mode string) string {
	controller.VerifSetNewProc(func(name string, cfg *service.Config, hosts []*host.Host) (proc.Proc, error) {
		return &recProc{name: name, cfg: cfg, hosts: host.NewSet(hosts...)}, nil
	})
	store := config.VerifNewStore(64)
	ctl, _ := controller.New(store.Subscribe())
	consume := func() {
		for {
			select {
			case evt := <-store.Subscribe():
				ctl.VerifHandleEvent(evt)
				continue
			default:
			}
			return
		}
	}
	ep := func(n int, t service.Endpoint_Type) *service.Endpoint {
		return &service.Endpoint{Address: &common.Address{Ip: "10.0.0.1", Port: uint32(1000 + n)}, Type: t}
	}
	store.VerifDependencyUpdate([]*service.Service{{Name: "svc"}}, nil)
	store.VerifSvcConfigUpdate("svc", c08Config(1, true))
	store.VerifSvcEndpointUpdate("svc", []*service.Endpoint{ep(1, service.Endpoint_MAIN)}, nil)
	consume()
	switch mode {
	case "retype":
		store.VerifSvcEndpointUpdate("svc", []*service.Endpoint{ep(2, service.Endpoint_MAIN)}, nil)
		consume()
		store.VerifSvcEndpointUpdate("svc", []*service.Endpoint{ep(2, service.Endpoint_BACKUP)}, nil)
	case "noaddr":
		store.VerifSvcEndpointUpdate("svc", []*service.Endpoint{{Type: service.Endpoint_MAIN}, ep(2, service.Endpoint_MAIN)}, nil)
	case "down":
		// endpoint 2 is announced in state DOWN ("When state is DOWN, this host will not be selected for load balancing")
		e2 := ep(2, service.Endpoint_MAIN)
		e2.State = service.Endpoint_DOWN
		store.VerifSvcEndpointUpdate("svc", []*service.Endpoint{e2}, nil)
		consume()
		var us []string
		for _, p := range ctl.GetAllProcs() {
			for _, h := range p.(*recProc).hosts.Healthy() {
				port, _ := strconv.Atoi(h.Addr[strings.LastIndex(h.Addr, ":")+1:])
				us = append(us, strconv.Itoa(port-1000))
			}
		}
		sort.Strings(us)
		return "usable=" + strings.Join(us, ",")
	default:
		return "bad-op"
	}
	consume()
	var st, pr []string
	for _, sw := range store.VerifDump() {
		for _, e := range sw.Endpoints {
			if e.Address == nil {
				st = append(st, "?")
				continue
			}
			st = append(st, fmt.Sprintf("%d%s", int(e.Address.Port)-1000, strings.ToLower(e.Type.String()[:1])))
		}
	}
	for _, p := range ctl.GetAllProcs() {
		for _, h := range p.(*recProc).hosts.All() {
			port, _ := strconv.Atoi(h.Addr[strings.LastIndex(h.Addr, ":")+1:])
			pr = append(pr, fmt.Sprintf("%d%s", port-1000, strings.ToLower(h.Type.String()[:1])))
		}
	}
	sort.Strings(st)
	sort.Strings(pr)
	return "store=" + strings.Join(st, ",") + " procs=" + strings.Join(pr, ",")
}

// c08.limit   a real TCP processor with a connection limit of 1; a configuration update raises the limit to 3; three clients connect and
// hold their connections.  -> cfg=<the limit the processor's configuration reports> served=<clients whose connection is relayed>
func c08Limit() string {
	be, err := hx.NewBackend()
	if err != nil {
		return "sockerr"
	}
	defer be.Close()
	go func() {
		for c := range be.Conns {
			go func(c net.Conn) { io.Copy(c, c); c.Close() }(c)
		}
	}()
	ct := 300 * time.Millisecond
	idle := time.Minute
	mk := func(limit uint32) *service.Config {
		return &service.Config{
			Listener:        &service.Listener{Address: &common.Address{Ip: "127.0.0.1", Port: 0}, ConnectionLimit: limit},
			ConnectTimeout:  &ct,
			IdleTimeout:     &idle,
			Protocol:        protocol.TCP,
			ProtocolOptions: &service.Config_TcpOption{TcpOption: &protocol.TCPOption{}},
		}
	}
	c08seq++
	name := fmt.Sprintf("verif-c08l-%d-%d", os.Getpid(), c08seq)
	defer hx.DropScopes("service." + strings.Replace(name, ".", "_", -1) + ".")
	p, err := proc.New(name, mk(1), []*host.Host{host.New(be.Addr)})
	if err != nil {
		return "procerr"
	}
	if err := p.Start(); err != nil {
		return "procerr"
	}
	defer p.Stop()
	time.Sleep(2 * time.Millisecond)
	for i := 0; i < 400 && p.Address() == ""; i++ {
		time.Sleep(time.Millisecond)
	}
	if err := p.OnSvcConfigUpdate(mk(3)); err != nil {
		return "update-error"
	}
	served := 0
	var held []net.Conn
	for i := 0; i < 3; i++ {
		c, err := net.DialTimeout("tcp", p.Address(), time.Second)
		if err != nil {
			continue
		}
		held = append(held, c)
		c.Write([]byte("x"))
		c.SetReadDeadline(time.Now().Add(500 * time.Millisecond))
		b := make([]byte, 1)
		if _, err := io.ReadFull(c, b); err == nil {
			served++
		}
	}
	for _, c := range held {
		c.Close()
	}
	return fmt.Sprintf("cfg=%d served=%d", p.Config().GetListener().GetConnectionLimit(), served)
}

func c08HcOff() string {
	up, err := hx.NewBackend()
	if err != nil {
		return "sockerr"
	}
	defer up.Close()
	down, err := hx.NewBackend()
	if err != nil {
		return "sockerr"
	}
	downAddr := down.Addr
	down.Close()
	echo := func(b *hx.Backend) {
		for c := range b.Conns {
			go func(c net.Conn) { io.Copy(c, c); c.Close() }(c)
		}
	}
	go echo(up)
	ct := 300 * time.Millisecond
	idle := time.Minute
	mk := func(withHC bool) *service.Config {
		cfg := &service.Config{
			Listener:        &service.Listener{Address: &common.Address{Ip: "127.0.0.1", Port: 0}},
			ConnectTimeout:  &ct,
			IdleTimeout:     &idle,
			Protocol:        protocol.TCP,
			ProtocolOptions: &service.Config_TcpOption{TcpOption: &protocol.TCPOption{}},
		}
		if withHC {
			cfg.HealthCheck = &pbhc.HealthCheck{Interval: 20 * time.Millisecond, Timeout: 100 * time.Millisecond, FallThreshold: 1, RiseThreshold: 1}
		}
		return cfg
	}
	c08seq++
	name := fmt.Sprintf("verif-c08h-%d-%d", os.Getpid(), c08seq)
	p, err := proc.New(name, mk(true), []*host.Host{host.New(up.Addr), host.New(downAddr)})
	if err != nil {
		return "procerr " + err.Error()
	}
	defer hx.DropScopes("service." + strings.Replace(name, ".", "_", -1) + ".")
	if err := p.Start(); err != nil {
		return "procerr"
	}
	defer p.Stop()
	time.Sleep(2 * time.Millisecond)
	for i := 0; i < 400 && p.Address() == ""; i++ {
		time.Sleep(time.Millisecond)
	}
	time.Sleep(150 * time.Millisecond) // several check rounds: the backend that is down is marked unhealthy
	upd := "ok"
	func() {
		defer func() {
			if r := recover(); r != nil {
				upd = "panic"
			}
		}()
		if err := p.OnSvcConfigUpdate(mk(false)); err != nil {
			upd = "error"
		}
	}()
	cfgOff := 0
	if p.Config().GetHealthCheck() == nil {
		cfgOff = 1
	}
	// the backend comes back on its address
	ln, err := net.Listen("tcp", downAddr)
	if err != nil {
		return "sockerr"
	}
	defer ln.Close()
	var mu sync.Mutex
	back := 0
	go func() {
		for {
			c, err := ln.Accept()
			if err != nil {
				return
			}
			mu.Lock()
			back++
			mu.Unlock()
			go func(c net.Conn) { io.Copy(c, c); c.Close() }(c)
		}
	}()
	time.Sleep(100 * time.Millisecond)
	before := up.Accepted()
	okConns := 0
	for i := 0; i < 4; i++ {
		c, err := net.DialTimeout("tcp", p.Address(), time.Second)
		if err != nil {
			continue
		}
		c.Write([]byte("x"))
		c.SetReadDeadline(time.Now().Add(time.Second))
		b := make([]byte, 1)
		if _, err := io.ReadFull(c, b); err == nil {
			okConns++
		}
		c.Close()
	}
	mu.Lock()
	defer mu.Unlock()
	return fmt.Sprintf("update=%s cfg=%d served=%d+%d/%d", upd, cfgOff, up.Accepted()-before, back, okConns)
}

var c08seq int

func (c08) Exec(op string) string {
	if op == "c08.limit" {
		return recoverStr(c08Limit)
	}
	if op == "c08.hcoff" {
		return recoverStr(c08HcOff)
	}
	if f := hx.Fields(op); len(f) == 2 && f[0] == "c08.ep" {
		return recoverStr(func() string { return c08Ep(f[1]) })
	}
	if f := hx.Fields(op); len(f) == 2 && f[0] == "c08.hc" {
		return recoverStr(func() string { return c08Hc(f[1]) })
	}
	f := hx.Fields(op)
	if len(f) == 3 && f[0] == "c08.alias" {
		n, e1 := strconv.Atoi(f[1])
		k, e2 := strconv.Atoi(f[2])
		if e1 != nil || e2 != nil || n < 1 || k < 1 || k > n {
			return "bad-op"
		}
		return aliasRun(n, k)
	}
	if len(f) < 2 || (f[0] != "c08.hist" && f[0] != "c08.strict") {
		return "bad-op"
	}
	return recoverStr(func() string {
		controller.VerifSetNewProc(func(name string, cfg *service.Config, hosts []*host.Host) (proc.Proc, error) {
			if cfg == nil || cfg.Validate() != nil {
				return nil, errors.New("invalid config")
			}
			if cfg.Protocol == protocol.MySQL {
				// like proc.New: the protocol is in the enum (Validate accepts it) but has no builder
				return nil, errors.New("no builder")
			}
			return &recProc{name: name, cfg: cfg, hosts: host.NewSet(hosts...)}, nil
		})
		store := config.VerifNewStore(4096)
		ctl, _ := controller.New(store.Subscribe())
		consume := func(max int) {
			for i := 0; max < 0 || i < max; i++ {
				select {
				case evt := <-store.Subscribe():
					ctl.VerifHandleEvent(evt)
				default:
					return
				}
			}
		}
		svcName := func(n string) string { return "svc" + n }
		for _, st := range f[1:] {
			switch st[0] {
			case 'd':
				svc := []*service.Service{{Name: svcName(st[2:])}}
				if st[1] == '+' {
					store.VerifDependencyUpdate(svc, nil)
				} else {
					store.VerifDependencyUpdate(nil, svc)
				}
			case 'c':
				p := strings.SplitN(st[1:], ".", 2)
				if len(p) != 2 || len(p[1]) < 2 {
					return "bad-op"
				}
				if p[1] == "nil" {
					// a map entry without a value on the wire
					store.VerifSvcConfigUpdate(svcName(p[0]), nil)
					continue
				}
				id, _ := strconv.Atoi(p[1][:len(p[1])-1])
				cfg := c08Config(id, p[1][len(p[1])-1] != 'i')
				if p[1][len(p[1])-1] == 'u' {
					cfg.Protocol = protocol.MySQL // passes Validate, no processor can be made from it
				}
				store.VerifSvcConfigUpdate(svcName(p[0]), cfg)
			case 'e':
				i := strings.Index(st, "+")
				j := strings.LastIndex(st, "-")
				if i < 0 || j < i {
					return "bad-op"
				}
				store.VerifSvcEndpointUpdate(svcName(st[1:i]), c08Endpoints(st[i+1:j]), c08Endpoints(st[j+1:]))
			case 'k':
				n, _ := strconv.Atoi(st[1:])
				consume(n)
			default:
				return "bad-op"
			}
		}
		consume(-1)
		// dump
		var sp []string
		for name, sw := range store.VerifDump() {
			cfg := "-"
			if sw.Config != nil {
				cfg = strconv.Itoa(int(*sw.Config.IdleTimeout / time.Second))
			}
			eps := "nil"
			if sw.Endpoints != nil {
				var as []int
				for _, e := range sw.Endpoints {
					as = append(as, int(e.Address.Port)-1000)
				}
				sort.Ints(as)
				var ss []string
				for _, a := range as {
					ss = append(ss, strconv.Itoa(a))
				}
				eps = "[" + strings.Join(ss, ",") + "]"
			}
			sp = append(sp, fmt.Sprintf("%s:%s:%s", strings.TrimPrefix(name, "svc"), cfg, eps))
		}
		sort.Strings(sp)
		var pp []string
		for _, p := range ctl.GetAllProcs() {
			rp := p.(*recProc)
			var as []int
			for _, h := range rp.hosts.All() {
				port, _ := strconv.Atoi(h.Addr[strings.LastIndex(h.Addr, ":")+1:])
				as = append(as, port-1000)
			}
			sort.Ints(as)
			var ss []string
			for _, a := range as {
				ss = append(ss, strconv.Itoa(a))
			}
			pp = append(pp, fmt.Sprintf("%s:%d:[%s]", strings.TrimPrefix(rp.name, "svc"), int(*rp.cfg.IdleTimeout/time.Second), strings.Join(ss, ",")))
		}
		sort.Strings(pp)
		return "store " + strings.Join(sp, ";") + " | procs " + strings.Join(pp, ";")
	})
}

func (c08) Gen(r *hx.Run) {
	rng := r.Rng
	for i := 0; i < r.N(2500, 60000); i++ {
		ns := 1 + rng.Intn(3)
		na := 1 + rng.Intn(4)
		n := 2 + rng.Intn(10)
		var steps []string
		cfgID := 0
		for j := 0; j < ns; j++ {
			if rng.Intn(4) != 0 {
				steps = append(steps, fmt.Sprintf("d+%d", j+1))
			}
		}
		pickAddrs := func() string {
			k := rng.Intn(3)
			var as []string
			for q := 0; q < k; q++ {
				as = append(as, strconv.Itoa(1+rng.Intn(na)))
			}
			return strings.Join(as, ",")
		}
		for j := 0; j < n; j++ {
			s := 1 + rng.Intn(ns)
			switch x := rng.Intn(12); {
			case x < 2:
				steps = append(steps, fmt.Sprintf("d+%d", s))
			case x == 2:
				steps = append(steps, fmt.Sprintf("d-%d", s))
			case x < 6:
				cfgID++
				v := "v"
				switch rng.Intn(10) {
				case 0, 1:
					v = "i"
				case 2:
					v = "u" // passes Validate(), no processor can be made from it
				case 3:
					// a map entry without a value on the wire
					steps = append(steps, fmt.Sprintf("c%d.nil", s))
					continue
				}
				steps = append(steps, fmt.Sprintf("c%d.%d%s", s, cfgID, v))
			case x < 10:
				steps = append(steps, fmt.Sprintf("e%d+%s-%s", s, pickAddrs(), pickAddrs()))
			default:
				steps = append(steps, fmt.Sprintf("k%d", rng.Intn(4)))
			}
		}
		r.Do("c08.hist "+strings.Join(steps, " "), n >= 4, "hist")
	}
	for _, h := range []string{
		"d+1 c1.1v e1+1,2- e1+1-1",            // F-08a: address in both lists
		"d+1 c1.1i e1+1- c1.2v",               // F-08b: invalid configuration later corrected
		"d+1 c1.1v e1+-9 e1+1-",               // F-08c: removal before any addition
		"d+1 c1.1v e1+1- d-1 d+1 c1.2v e1+2-", // remove and re-add
		"d+1 c1.1v e1+1- c1.2i c1.3v",         // valid, invalid, valid
		"d+1 e1+1,2- c1.1v k1 e1+-1 e1+3-",    // store ahead of the controller
		"d+1 e1+1- c1.1v c1.nil c1.2v",        // F-08e: an update without a configuration between two configurations
		"d+1 c1.1u e1+1- c1.2v",               // F-08e: valid but no processor can be made from it, later corrected
	} {
		r.Do("c08.hist "+h, true, "hist-shapes")
	}
	// F-08f: the health check is removed from the configuration of a running service
	r.Do("c08.hcoff", true, "health-check-removed")
	// F-08g/h/i: other updates of the health check section
	for _, m := range []string{"int", "atcp", "rej"} {
		r.Do("c08.hc "+m, true, "health-check-updated")
	}
	for _, m := range []string{"retype", "noaddr"} {
		r.Do("c08.ep "+m, true, "endpoint-update-shapes")
	}
	// F-08e: the announcement is read while endpoints are being removed
	r.Do("c08.alias 30000 40", true, "announce-while-endpoints-change")
	r.Do(fmt.Sprintf("c08.alias %d %d", 5000+rng.Intn(20000), 10+rng.Intn(30)), true, "announce-while-endpoints-change")
}
