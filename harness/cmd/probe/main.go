package main

import (
	"fmt"
	"net"
	"os"
	"time"

	"github.com/samaritan-proxy/samaritan/host"
	"github.com/samaritan-proxy/samaritan/pb/common"
	"github.com/samaritan-proxy/samaritan/pb/config/protocol"
	pbredis "github.com/samaritan-proxy/samaritan/pb/config/protocol/redis"
	"github.com/samaritan-proxy/samaritan/pb/config/service"
	"github.com/samaritan-proxy/samaritan/proc"
	_ "github.com/samaritan-proxy/samaritan/proc/redis"
)

func main() {
	n := 40
	if len(os.Args) > 1 {
		fmt.Sscan(os.Args[1], &n)
	}
	be, _ := net.Listen("tcp", "127.0.0.1:0")
	go func() {
		for {
			c, err := be.Accept()
			if err != nil {
				return
			}
			go func() { buf := make([]byte, 4096); for { if _, err := c.Read(buf); err != nil { return } } }() // silent: reads, never answers
		}
	}()
	ct := time.Second
	cfg := &service.Config{
		Listener:        &service.Listener{Address: &common.Address{Ip: "127.0.0.1", Port: 0}},
		ConnectTimeout:  &ct,
		Protocol:        protocol.Redis,
		ProtocolOptions: &service.Config_RedisOption{RedisOption: &protocol.RedisOption{ReadStrategy: pbredis.ReadStrategy_MASTER}},
	}
	p, err := proc.New("probe", cfg, []*host.Host{host.New(be.Addr().String())})
	if err != nil {
		panic(err)
	}
	p.Start()
	time.Sleep(50 * time.Millisecond)
	c, err := net.Dial("tcp", p.Address())
	if err != nil {
		panic(err)
	}
	for i := 0; i < n; i++ {
		c.Write([]byte("*2\r\n$3\r\nget\r\n$1\r\nk\r\n"))
	}
	time.Sleep(200 * time.Millisecond)
	done := make(chan struct{})
	go func() { p.Stop(); close(done) }()
	select {
	case <-done:
		fmt.Println("requests", n, "stop=ok")
	case <-time.After(3 * time.Second):
		fmt.Println("requests", n, "stop=hangs")
	}
}
