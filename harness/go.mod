module verifharness

go 1.13

require (
	github.com/golang/snappy v0.0.1
	github.com/samaritan-proxy/samaritan v0.0.0
)

replace github.com/samaritan-proxy/samaritan => /repo
