module verifharness

go 1.13

require github.com/samaritan-proxy/samaritan v0.0.0

replace github.com/samaritan-proxy/samaritan => /repo
