-- Root of the `SamVerif` library: models, specs, proofs and property theorems.
import SamVerif.Model.Go
import SamVerif.Gen.Crc
import SamVerif.Spec.Crc
import SamVerif.Props.C12
import SamVerif.Props.C10
import SamVerif.Props.C18
import SamVerif.Props.C17
import SamVerif.Props.C19
import SamVerif.Props.C14
import SamVerif.Props.C15
import SamVerif.Props.C06
import SamVerif.Props.C05
import SamVerif.Props.C13
import SamVerif.Props.C11
import SamVerif.Props.C08
import SamVerif.Props.C20
import SamVerif.Props.C16
