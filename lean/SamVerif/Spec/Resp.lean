/-
C10 specification side: which values are RESP values the codec must round-trip
(`wf`), and nesting depth.
-/
import SamVerif.Model.Resp
namespace SamVerif.Resp

mutual
/-- A RESP value in the sense of the property: simple/error text has no LF (it is a
line of at most 64 KiB), integers are 64-bit, bulk and array lengths are within the decoder's limits.
(The nesting limit is a separate hypothesis `depth v ≤ maxArrayDepth` of the theorems.) -/
def wf : Resp → Bool
  | .int i => decide (minInt64 ≤ i) && decide (i ≤ maxInt64)
  | .simple t => t.all (· != LF) && decide (t.length + 2 ≤ maxLineLen)
  | .err t => t.all (· != LF) && decide (t.length + 2 ≤ maxLineLen)
  | .bulk none => true
  | .bulk (some t) => decide (t.length ≤ maxBulkStringLen)
  | .arr none => true
  | .arr (some vs) => decide (vs.length ≤ maxArrayLen) && wfList vs
def wfList : List Resp → Bool
  | [] => true
  | v :: vs => wf v && wfList vs
end

mutual
def depth : Resp → Nat
  | .arr (some vs) => depthList vs + 1
  | _ => 0
def depthList : List Resp → Nat
  | [] => 0
  | v :: vs => max (depth v) (depthList vs)
end

end SamVerif.Resp
