/-
C14 specification side: which of the commands the proxy forwards can never modify data,
per the Redis command table (flag `readonly`, Redis 5). Deliberately conservative: a name is
listed only where it is beyond doubt; SORT (STORE), GEORADIUS* (STORE/STOREDIST) and GEOADD
are writes.
-/
namespace SamVerif.Spec.RedisFlags

def b (s : String) : List UInt8 := s.toUTF8.toList

/-- commands with the `readonly` flag among those the proxy supports -/
def neverModify : List (List UInt8) := [
  [100,117,109,112], -- dump
  [112,116,116,108], -- pttl
  [116,116,108], -- ttl
  [116,121,112,101], -- type
  [101,120,105,115,116,115], -- exists
  [98,105,116,99,111,117,110,116], -- bitcount
  [98,105,116,112,111,115], -- bitpos
  [103,101,116], -- get
  [103,101,116,98,105,116], -- getbit
  [103,101,116,114,97,110,103,101], -- getrange
  [115,116,114,108,101,110], -- strlen
  [108,105,110,100,101,120], -- lindex
  [108,108,101,110], -- llen
  [108,114,97,110,103,101], -- lrange
  [104,101,120,105,115,116,115], -- hexists
  [104,103,101,116], -- hget
  [104,103,101,116,97,108,108], -- hgetall
  [104,107,101,121,115], -- hkeys
  [104,108,101,110], -- hlen
  [104,109,103,101,116], -- hmget
  [104,115,116,114,108,101,110], -- hstrlen
  [104,118,97,108,115], -- hvals
  [104,115,99,97,110], -- hscan
  [115,99,97,114,100], -- scard
  [115,100,105,102,102], -- sdiff
  [115,105,110,116,101,114], -- sinter
  [115,105,115,109,101,109,98,101,114], -- sismember
  [115,109,101,109,98,101,114,115], -- smembers
  [115,114,97,110,100,109,101,109,98,101,114], -- srandmember
  [115,117,110,105,111,110], -- sunion
  [115,115,99,97,110], -- sscan
  [122,99,97,114,100], -- zcard
  [122,99,111,117,110,116], -- zcount
  [122,108,101,120,99,111,117,110,116], -- zlexcount
  [122,114,97,110,103,101], -- zrange
  [122,114,97,110,103,101,98,121,108,101,120], -- zrangebylex
  [122,114,97,110,103,101,98,121,115,99,111,114,101], -- zrangebyscore
  [122,114,97,110,107], -- zrank
  [122,114,101,118,114,97,110,103,101], -- zrevrange
  [122,114,101,118,114,97,110,103,101,98,121,108,101,120], -- zrevrangebylex
  [122,114,101,118,114,97,110,103,101,98,121,115,99,111,114,101], -- zrevrangebyscore
  [122,114,101,118,114,97,110,107], -- zrevrank
  [122,115,99,111,114,101], -- zscore
  [122,115,99,97,110], -- zscan
  [112,102,99,111,117,110,116], -- pfcount
  [103,101,111,100,105,115,116], -- geodist
  [103,101,111,104,97,115,104], -- geohash
  [103,101,111,112,111,115] -- geopos
]

/-- a command (lower-case name) that can modify data -/
def canModify (lname : List UInt8) : Bool := !neverModify.contains lname

end SamVerif.Spec.RedisFlags
