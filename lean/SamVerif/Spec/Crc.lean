/-
C12 specification: CRC16/XMODEM computed bit by bit, and the Redis Cluster
hash-tag rule.  Nothing here mentions the implementation's table.
-/
namespace SamVerif.Spec.Crc

/-- One step of the shift register: polynomial x^16 + x^12 + x^5 + 1 (0x1021),
MSB first, no reflection. -/
def bitStep (c : BitVec 16) : BitVec 16 :=
  if c.msb then (c <<< 1) ^^^ 0x1021#16 else c <<< 1

def bitStep8 (c : BitVec 16) : BitVec 16 :=
  bitStep (bitStep (bitStep (bitStep (bitStep (bitStep (bitStep (bitStep c)))))))

/-- Feed one byte: xor it into the high byte, then eight shift steps. -/
def byteStep (c : BitVec 16) (b : BitVec 8) : BitVec 16 :=
  bitStep8 (c ^^^ (b.setWidth 16 <<< 8))

/-- CRC16/XMODEM: init 0, no final xor. -/
def crc (key : List UInt8) : BitVec 16 :=
  key.foldl (fun c b => byteStep c b.toBitVec) 0#16

/-- Hash tag per the Redis Cluster specification: if the key contains a `{`
and there is a `}` to the right of the first `{` and there is at least one
character between them, the tag is what lies between the first `{` and the
first `}` after it; otherwise the whole key. -/
def hashtag (key : List UInt8) : List UInt8 :=
  match key.dropWhile (· != 0x7b) with
  | [] => key                                  -- no '{'
  | _ :: afterOpen =>
    let tag := afterOpen.takeWhile (· != 0x7d)
    if tag.length = afterOpen.length then key    -- no '}' after it
    else if tag = [] then key                    -- "{}" : nothing between
    else tag

def slot (key : List UInt8) : Nat := (crc (hashtag key)).toNat % 16384

end SamVerif.Spec.Crc
