/-
C19 — hot keys: counters are exact for tracked keys and bounded in size; the report is
bounded, duplicate-free and ordered.

`Hotkey.incr/latch` model counter.go at the level of the frequency list (ascending
frequency nodes, FIFO keys per node); `Hotkey.insert/evictStale` model the collector's
bounded descending slice. Tied to the Go code by the differential run (state compared
after every operation, every link of the real pointer structure checked).
-/
import SamVerif.Proofs.Hotkey
namespace SamVerif.Props.C19
open SamVerif.Hotkey SamVerif.Proofs.Hotkey

/-- the counter invariant: no key twice, at most `cap` keys, well-shaped frequency list -/
def Inv (c : Counter) : Prop :=
  (∀ j, (keysOf c.nodes).count j ≤ 1) ∧ size c.nodes ≤ c.cap ∧ Shape c.nodes

/-- **One access** on a counter of positive capacity never fails and keeps the invariant. -/
theorem incr_inv (c : Counter) (k : Nat) (hc : 0 < c.cap) (h : Inv c) :
    ∃ c', incr c k = some c' ∧ Inv c' ∧ c'.cap = c.cap := by
  obtain ⟨hnd, hsz, hsh⟩ := h
  unfold incr
  by_cases hk : (keysOf c.nodes).contains k
  · simp only [hk, ↓reduceIte]
    have hcnt : (keysOf c.nodes).count k = 1 := by
      have : 0 < (keysOf c.nodes).count k := List.count_pos_iff.mpr (by simpa using hk)
      have := hnd k; omega
    refine ⟨_, rfl, ⟨?_, ?_, shape_promote k _ hsh⟩, rfl⟩
    · intro j; simp only; rw [count_promote k _ j hcnt]; exact hnd j
    · simp only; rw [length_promote k _ hcnt]; exact hsz
  · simp only [hk, Bool.false_eq_true, ↓reduceIte]
    have hk0 : (keysOf c.nodes).count k = 0 := List.count_eq_zero.mpr (by simpa using hk)
    by_cases hfull : size c.nodes ≥ c.cap
    · simp only [hfull, ↓reduceIte]
      have hne : c.nodes ≠ [] := by
        intro e; rw [e] at hfull; simp [size, keysOf] at hfull; omega
      obtain ⟨ns', he⟩ := evict_some_of_shape c.nodes hsh hne
      simp only [he]
      obtain ⟨f, v, vs, rest, _, hcv⟩ := count_evict c.nodes ns' he
      have hl := length_evict c.nodes ns' he
      refine ⟨_, rfl, ⟨?_, ?_, shape_admitKey k _ (shape_evict _ _ hsh he)⟩, rfl⟩
      · intro j
        simp only
        rw [count_admitKey]
        have h1 := hcv j
        have h2 := hnd j
        by_cases hj : j = k
        · subst hj
          have := hcv j
          simp only [↓reduceIte]; omega
        · simp only [hj, ↓reduceIte]; omega
      · simp only; rw [length_admitKey]; omega
    · simp only [hfull, ↓reduceIte]
      refine ⟨_, rfl, ⟨?_, ?_, shape_admitKey k _ hsh⟩, rfl⟩
      · intro j
        simp only
        rw [count_admitKey]
        have h2 := hnd j
        by_cases hj : j = k
        · subst hj; simp only [↓reduceIte]; omega
        · simp only [hj, ↓reduceIte]; omega
      · simp only; rw [length_admitKey]; omega

/-- operations on a counter -/
inductive Op where
  | incr (k : Nat)
  | latch
  | free

def step (c : Counter) : Op → Option Counter
  | .incr k => incr c k
  | .latch => some (latch c).2
  | .free => some { c with nodes := [] }

def run (c : Counter) : List Op → Option Counter
  | [] => some c
  | o :: os => match step c o with
    | none => none
    | some c' => run c' os

theorem inv_empty (cap : Nat) : Inv { cap := cap, nodes := [] } := by
  refine ⟨by simp [keysOf], by simp [size, keysOf], shape_nil⟩

/-- **Bounded and duplicate-free for every history**: from the empty counter of any positive
capacity, every sequence of accesses, latches and frees runs without failure and ends in a
state that tracks at most `cap` keys, no key twice, frequencies strictly ascending. -/
theorem run_inv (cap : Nat) (hc : 0 < cap) (ops : List Op) :
    ∃ c', run { cap := cap, nodes := [] } ops = some c' ∧ Inv c' ∧ c'.cap = cap := by
  suffices H : ∀ (c : Counter), c.cap = cap → Inv c → ∃ c', run c ops = some c' ∧ Inv c' ∧ c'.cap = cap from
    H _ rfl (inv_empty cap)
  induction ops with
  | nil => intro c hcap hinv; exact ⟨c, rfl, hinv, hcap⟩
  | cons o os ih =>
    intro c hcap hinv
    cases o with
    | incr k =>
      obtain ⟨c', h1, h2, h3⟩ := incr_inv c k (by omega) hinv
      simp only [run, step, h1]
      exact ih c' (by omega) h2
    | latch =>
      simp only [run, step, latch]
      exact ih _ hcap (by have := inv_empty c.cap; exact this)
    | free =>
      simp only [run, step]
      exact ih _ hcap (by have := inv_empty c.cap; exact this)

/-- **Exact counts**: an access to a tracked key adds exactly one to its count … -/
theorem incr_tracked_count (c c' : Counter) (k f : Nat) (h : lookup c.nodes k = some f)
    (hi : incr c k = some c') : lookup c'.nodes k = some (f + 1) := by
  unfold incr at hi
  have hk : (keysOf c.nodes).contains k = true := by
    unfold lookup at h
    cases hf : c.nodes.find? (fun n => n.2.contains k) with
    | none => rw [hf] at h; simp at h
    | some n =>
      have hm := List.mem_of_find?_eq_some hf
      have hp := List.find?_some hf
      simp only [keysOf, List.contains_eq_mem, List.mem_flatten, List.mem_map, decide_eq_true_eq]
      exact ⟨n.2, ⟨n, hm, rfl⟩, by simpa using hp⟩
  simp only [hk, ↓reduceIte, Option.some.injEq] at hi
  subst hi
  exact lookup_promote_self k _ f h

/-- … and leaves the count of every other key untouched. -/
theorem incr_tracked_others (c c' : Counter) (k j : Nat) (hj : j ≠ k)
    (hk : (keysOf c.nodes).contains k = true) (hi : incr c k = some c') :
    lookup c'.nodes j = lookup c.nodes j := by
  unfold incr at hi
  simp only [hk, ↓reduceIte, Option.some.injEq] at hi
  subst hi
  exact lookup_promote_other k j hj _

/-- **Eviction takes a key with the lowest count**: the victim is the oldest key of the first
node, and under the invariant no node has a smaller frequency. -/
theorem evict_min (ns ns' : Nodes) (hs : Shape ns) (he : evict ns = some ns') :
    ∃ f v vs rest, ns = (f, v :: vs) :: rest ∧ ∀ n ∈ ns, f ≤ n.1 := by
  obtain ⟨f, v, vs, rest, hns, _⟩ := count_evict ns ns' he
  refine ⟨f, v, vs, rest, hns, ?_⟩
  intro n hn
  rw [hns] at hn hs
  simp only [List.mem_cons] at hn
  rcases hn with hn | hn
  · subst hn; exact Nat.le_refl _
  · exact Nat.le_of_lt ((List.pairwise_cons.mp hs.2).1 n hn)

/-! ### the report: bounded, ordered -/

def Desc (l : List Hot) : Prop := l.Pairwise (fun a b => a.val ≥ b.val)

theorem insert_length_le (cap : Nat) (data : List Hot) (key : Hot) (h : data.length ≤ cap) :
    (Hotkey.insert cap data key).length ≤ cap := by
  unfold Hotkey.insert
  simp only
  split
  · split
    · simp [List.length_append, List.length_take, List.length_drop]; omega
    · simp [List.length_take]; omega
  · split
    · simp; omega
    · exact h

/-- **For every assignment of heat values** (whatever the probabilistic increments did): a
collection inserts the keys one by one into a fresh bounded slice, so the report never
lists more keys than the capacity. -/
theorem collect_length_le (cap : Nat) (keys : List Hot) :
    (keys.foldl (Hotkey.insert cap) []).length ≤ cap := by
  suffices H : ∀ (acc : List Hot), acc.length ≤ cap → (keys.foldl (Hotkey.insert cap) acc).length ≤ cap from
    H [] (by simp)
  induction keys with
  | nil => intro acc h; exact h
  | cons k ks ih => intro acc h; exact ih _ (insert_length_le cap acc k h)

theorem insertDesc_mem (h x : Hot) (l : List Hot) (hx : x ∈ insertDesc h l) : x = h ∨ x ∈ l := by
  induction l with
  | nil => simp [insertDesc] at hx; exact Or.inl hx
  | cons y ys ih =>
    simp only [insertDesc] at hx
    split at hx
    · simp only [List.mem_cons] at hx
      rcases hx with hx | hx
      · right; simp [hx]
      · rcases ih hx with h1 | h1
        · left; exact h1
        · right; simp [h1]
    · simp only [List.mem_cons] at hx
      rcases hx with hx | hx | hx
      · left; exact hx
      · right; simp [hx]
      · right; simp [hx]

theorem insertDesc_desc (h : Hot) (l : List Hot) (hl : Desc l) : Desc (insertDesc h l) := by
  induction l with
  | nil => simp [insertDesc, Desc]
  | cons y ys ih =>
    unfold Desc at hl ⊢
    rw [List.pairwise_cons] at hl
    simp only [insertDesc]
    split
    · rename_i hgt
      rw [List.pairwise_cons]
      refine ⟨?_, ih hl.2⟩
      intro x hx
      rcases insertDesc_mem h x ys hx with h1 | h1
      · subst h1; omega
      · exact hl.1 x h1
    · rename_i hle
      rw [List.pairwise_cons, List.pairwise_cons]
      refine ⟨?_, hl.1, hl.2⟩
      intro x hx
      simp only [List.mem_cons] at hx
      rcases hx with hx | hx
      · subst hx; omega
      · have := hl.1 x hx; omega

/-- **After a stale-eviction pass the report is ordered by non-increasing heat**, whatever
the last-update minutes of its entries were (repaired behaviour). -/
theorem evictStale_desc (now : Int) (data : List Hot) : Desc (evictStale now data) := by
  unfold evictStale
  generalize (halveStale now data).filter (fun h => h.val != 0) = l
  induction l with
  | nil => simp [sortDesc, Desc]
  | cons x xs ih => exact insertDesc_desc x _ ih

/-- F-19a, the behaviour before the repair (commit 654e167): halving only the stale entry
breaks the order — hot (20, stale) and warm (19, fresh) become hot=10, warm=19. -/
theorem evictStaleOld_counterexample :
    evictStaleOld 101 [⟨0, 20, 100⟩, ⟨1, 19, 101⟩] = [⟨0, 10, 101⟩, ⟨1, 19, 101⟩] ∧
    ¬ Desc (evictStaleOld 101 [⟨0, 20, 100⟩, ⟨1, 19, 101⟩]) := by
  constructor
  · decide
  · unfold Desc; decide

/-! Non-vacuity -/
example : run { cap := 2, nodes := [] } [.incr 1, .incr 2, .incr 2, .incr 3, .incr 3, .incr 3, .latch, .incr 4]
    = some { cap := 2, nodes := [(1, [4])] } := by decide
example : (run { cap := 2, nodes := [] } [.incr 1, .incr 2, .incr 2, .incr 3]).map (·.nodes) = some [(1, [3]), (2, [2])] := by decide

end SamVerif.Props.C19

#print axioms SamVerif.Props.C19.incr_inv
#print axioms SamVerif.Props.C19.run_inv
#print axioms SamVerif.Props.C19.incr_tracked_count
#print axioms SamVerif.Props.C19.incr_tracked_others
#print axioms SamVerif.Props.C19.evict_min
#print axioms SamVerif.Props.C19.collect_length_le
#print axioms SamVerif.Props.C19.evictStale_desc
#print axioms SamVerif.Props.C19.evictStaleOld_counterexample
