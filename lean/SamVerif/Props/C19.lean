/-
C19 — hot keys: counters are exact for tracked keys and bounded in size; the report is
bounded, duplicate-free and ordered.

`Hotkey.incr/latch` model counter.go at the level of the frequency list (ascending
frequency nodes, FIFO keys per node); `Hotkey.insert/evictStale` model the collector's
bounded descending slice. Tied to the Go code by the differential run (state compared
after every operation, every link of the real pointer structure checked).
-/
import SamVerif.Proofs.Hotkey
import SamVerif.Gen.Hotkey
import SamVerif.Gen.Filters
import SamVerif.Model.HotShare
namespace SamVerif.Props.C19
open SamVerif.Hotkey SamVerif.Proofs.Hotkey

/-- the counter invariant: no key twice, at most `cap` keys, well-shaped frequency list -/
def Inv (c : Counter) : Prop :=
  (∀ j, (keysOf c.nodes).count j ≤ 1) ∧ size c.nodes ≤ c.cap ∧ Shape c.nodes

/-- **One access** on a counter of positive capacity never fails and keeps the invariant. -/
theorem incr_inv (c : Counter) (k : Nat) (hc : 0 < c.cap) (h : Inv c) :
    ∃ c', incr c k = some c' ∧ Inv c' ∧ c'.cap = c.cap := by
  obtain ⟨hnd, hsz, hsh⟩ := h
  unfold incr
  by_cases hk : (keysOf c.nodes).contains k
  · simp only [hk, ↓reduceIte]
    have hcnt : (keysOf c.nodes).count k = 1 := by
      have : 0 < (keysOf c.nodes).count k := List.count_pos_iff.mpr (by simpa using hk)
      have := hnd k; omega
    refine ⟨_, rfl, ⟨?_, ?_, shape_promote k _ hsh⟩, rfl⟩
    · intro j; simp only; rw [count_promote k _ j hcnt]; exact hnd j
    · simp only; rw [length_promote k _ hcnt]; exact hsz
  · simp only [hk, Bool.false_eq_true, ↓reduceIte]
    have hk0 : (keysOf c.nodes).count k = 0 := List.count_eq_zero.mpr (by simpa using hk)
    by_cases hfull : size c.nodes ≥ c.cap
    · simp only [hfull, ↓reduceIte]
      have hne : c.nodes ≠ [] := by
        intro e; rw [e] at hfull; simp [size, keysOf] at hfull; omega
      obtain ⟨ns', he⟩ := evict_some_of_shape c.nodes hsh hne
      simp only [he]
      obtain ⟨f, v, vs, rest, _, hcv⟩ := count_evict c.nodes ns' he
      have hl := length_evict c.nodes ns' he
      refine ⟨_, rfl, ⟨?_, ?_, shape_admitKey k _ (shape_evict _ _ hsh he)⟩, rfl⟩
      · intro j
        simp only
        rw [count_admitKey]
        have h1 := hcv j
        have h2 := hnd j
        by_cases hj : j = k
        · subst hj
          have := hcv j
          simp only [↓reduceIte]; omega
        · simp only [hj, ↓reduceIte]; omega
      · simp only; rw [length_admitKey]; omega
    · simp only [hfull, ↓reduceIte]
      refine ⟨_, rfl, ⟨?_, ?_, shape_admitKey k _ hsh⟩, rfl⟩
      · intro j
        simp only
        rw [count_admitKey]
        have h2 := hnd j
        by_cases hj : j = k
        · subst hj; simp only [↓reduceIte]; omega
        · simp only [hj, ↓reduceIte]; omega
      · simp only; rw [length_admitKey]; omega

/-- operations on a counter -/
inductive Op where
  | incr (k : Nat)
  | latch
  | free

def step (c : Counter) : Op → Option Counter
  | .incr k => incr c k
  | .latch => some (latch c).2
  | .free => some { c with nodes := [] }

def run (c : Counter) : List Op → Option Counter
  | [] => some c
  | o :: os => match step c o with
    | none => none
    | some c' => run c' os

theorem inv_empty (cap : Nat) : Inv { cap := cap, nodes := [] } := by
  refine ⟨by simp [keysOf], by simp [size, keysOf], shape_nil⟩

/-- **Bounded and duplicate-free for every history**: from the empty counter of any positive
capacity, every sequence of accesses, latches and frees runs without failure and ends in a
state that tracks at most `cap` keys, no key twice, frequencies strictly ascending. -/
theorem run_inv (cap : Nat) (hc : 0 < cap) (ops : List Op) :
    ∃ c', run { cap := cap, nodes := [] } ops = some c' ∧ Inv c' ∧ c'.cap = cap := by
  suffices H : ∀ (c : Counter), c.cap = cap → Inv c → ∃ c', run c ops = some c' ∧ Inv c' ∧ c'.cap = cap from
    H _ rfl (inv_empty cap)
  induction ops with
  | nil => intro c hcap hinv; exact ⟨c, rfl, hinv, hcap⟩
  | cons o os ih =>
    intro c hcap hinv
    cases o with
    | incr k =>
      obtain ⟨c', h1, h2, h3⟩ := incr_inv c k (by omega) hinv
      simp only [run, step, h1]
      exact ih c' (by omega) h2
    | latch =>
      simp only [run, step, latch]
      exact ih _ hcap (by have := inv_empty c.cap; exact this)
    | free =>
      simp only [run, step]
      exact ih _ hcap (by have := inv_empty c.cap; exact this)

/-- **Exact counts**: an access to a tracked key adds exactly one to its count … -/
theorem incr_tracked_count (c c' : Counter) (k f : Nat) (h : lookup c.nodes k = some f)
    (hi : incr c k = some c') : lookup c'.nodes k = some (f + 1) := by
  unfold incr at hi
  have hk : (keysOf c.nodes).contains k = true := by
    unfold lookup at h
    cases hf : c.nodes.find? (fun n => n.2.contains k) with
    | none => rw [hf] at h; simp at h
    | some n =>
      have hm := List.mem_of_find?_eq_some hf
      have hp := List.find?_some hf
      simp only [keysOf, List.contains_eq_mem, List.mem_flatten, List.mem_map, decide_eq_true_eq]
      exact ⟨n.2, ⟨n, hm, rfl⟩, by simpa using hp⟩
  simp only [hk, ↓reduceIte, Option.some.injEq] at hi
  subst hi
  exact lookup_promote_self k _ f h

/-- … and leaves the count of every other key untouched. -/
theorem incr_tracked_others (c c' : Counter) (k j : Nat) (hj : j ≠ k)
    (hk : (keysOf c.nodes).contains k = true) (hi : incr c k = some c') :
    lookup c'.nodes j = lookup c.nodes j := by
  unfold incr at hi
  simp only [hk, ↓reduceIte, Option.some.injEq] at hi
  subst hi
  exact lookup_promote_other k j hj _

/-- **Eviction takes a key with the lowest count**: the victim is the oldest key of the first
node, and under the invariant no node has a smaller frequency. -/
theorem evict_min (ns ns' : Nodes) (hs : Shape ns) (he : evict ns = some ns') :
    ∃ f v vs rest, ns = (f, v :: vs) :: rest ∧ ∀ n ∈ ns, f ≤ n.1 := by
  obtain ⟨f, v, vs, rest, hns, _⟩ := count_evict ns ns' he
  refine ⟨f, v, vs, rest, hns, ?_⟩
  intro n hn
  rw [hns] at hn hs
  simp only [List.mem_cons] at hn
  rcases hn with hn | hn
  · subst hn; exact Nat.le_refl _
  · exact Nat.le_of_lt ((List.pairwise_cons.mp hs.2).1 n hn)

/-! ### the report: bounded, ordered -/

def Desc (l : List Hot) : Prop := l.Pairwise (fun a b => a.val ≥ b.val)

theorem insert_length_le (cap : Nat) (data : List Hot) (key : Hot) (h : data.length ≤ cap) :
    (Hotkey.insert cap data key).length ≤ cap := by
  unfold Hotkey.insert
  simp only
  split
  · split
    · simp [List.length_append, List.length_take, List.length_drop]; omega
    · simp [List.length_take]; omega
  · split
    · simp; omega
    · exact h

/-- **For every assignment of heat values** (whatever the probabilistic increments did): a
collection inserts the keys one by one into a fresh bounded slice, so the report never
lists more keys than the capacity. -/
theorem collect_length_le (cap : Nat) (keys : List Hot) :
    (keys.foldl (Hotkey.insert cap) []).length ≤ cap := by
  suffices H : ∀ (acc : List Hot), acc.length ≤ cap → (keys.foldl (Hotkey.insert cap) acc).length ≤ cap from
    H [] (by simp)
  induction keys with
  | nil => intro acc h; exact h
  | cons k ks ih => intro acc h; exact ih _ (insert_length_le cap acc k h)

theorem insertDesc_mem (h x : Hot) (l : List Hot) (hx : x ∈ insertDesc h l) : x = h ∨ x ∈ l := by
  induction l with
  | nil => simp [insertDesc] at hx; exact Or.inl hx
  | cons y ys ih =>
    simp only [insertDesc] at hx
    split at hx
    · simp only [List.mem_cons] at hx
      rcases hx with hx | hx
      · right; simp [hx]
      · rcases ih hx with h1 | h1
        · left; exact h1
        · right; simp [h1]
    · simp only [List.mem_cons] at hx
      rcases hx with hx | hx | hx
      · left; exact hx
      · right; simp [hx]
      · right; simp [hx]

theorem insertDesc_desc (h : Hot) (l : List Hot) (hl : Desc l) : Desc (insertDesc h l) := by
  induction l with
  | nil => simp [insertDesc, Desc]
  | cons y ys ih =>
    unfold Desc at hl ⊢
    rw [List.pairwise_cons] at hl
    simp only [insertDesc]
    split
    · rename_i hgt
      rw [List.pairwise_cons]
      refine ⟨?_, ih hl.2⟩
      intro x hx
      rcases insertDesc_mem h x ys hx with h1 | h1
      · subst h1; omega
      · exact hl.1 x h1
    · rename_i hle
      rw [List.pairwise_cons, List.pairwise_cons]
      refine ⟨?_, hl.1, hl.2⟩
      intro x hx
      simp only [List.mem_cons] at hx
      rcases hx with hx | hx
      · subst hx; omega
      · have := hl.1 x hx; omega

/-- **After a stale-eviction pass the report is ordered by non-increasing heat**, whatever
the last-update minutes of its entries were (repaired behaviour). -/
theorem evictStale_desc (now : Int) (data : List Hot) : Desc (evictStale now data) := by
  unfold evictStale
  generalize (halveStale now data).filter (fun h => h.val != 0) = l
  induction l with
  | nil => simp [sortDesc, Desc]
  | cons x xs ih => exact insertDesc_desc x _ ih

/-- F-19a, the behaviour before the repair (commit 654e167): halving only the stale entry
breaks the order — hot (20, stale) and warm (19, fresh) become hot=10, warm=19. -/
theorem evictStaleOld_counterexample :
    evictStaleOld 101 [⟨0, 20, 100⟩, ⟨1, 19, 101⟩] = [⟨0, 10, 101⟩, ⟨1, 19, 101⟩] ∧
    ¬ Desc (evictStaleOld 101 [⟨0, 20, 100⟩, ⟨1, 19, 101⟩]) := by
  constructor
  · decide
  · unfold Desc; decide

/-! ### the bounded insert keeps the order, lists nothing twice; the report over any number of periods -/

theorem take_len_takeWhile (p : Hot → Bool) : ∀ l : List Hot, l.take (l.takeWhile p).length = l.takeWhile p := by
  intro l
  induction l with
  | nil => rfl
  | cons x xs ih =>
    simp only [List.takeWhile_cons]
    split
    · simp [ih]
    · simp

theorem drop_len_takeWhile (p : Hot → Bool) : ∀ l : List Hot, l.drop (l.takeWhile p).length = l.dropWhile p := by
  intro l
  induction l with
  | nil => rfl
  | cons x xs ih =>
    simp only [List.takeWhile_cons, List.dropWhile_cons]
    split
    · simp [ih]
    · simp

theorem dropWhile_le (v : Nat) : ∀ l : List Hot, Desc l → ∀ b ∈ l.dropWhile (fun h => h.val > v), b.val ≤ v := by
  intro l
  induction l with
  | nil => intro _ b hb; simp at hb
  | cons x xs ih =>
    intro hd b hb
    unfold Desc at hd
    rw [List.pairwise_cons] at hd
    simp only [List.dropWhile_cons] at hb
    split at hb
    · exact ih hd.2 b hb
    · rename_i hx
      simp only [decide_eq_true_eq, Nat.not_lt] at hx
      simp only [List.mem_cons] at hb
      rcases hb with hb | hb
      · subst hb; exact hx
      · have := hd.1 b hb; omega

theorem takeWhile_gt (v : Nat) : ∀ (l : List Hot), ∀ a ∈ l.takeWhile (fun h => h.val > v), a.val > v := by
  intro l
  induction l with
  | nil => intro a ha; simp at ha
  | cons x xs ih =>
    intro a ha
    simp only [List.takeWhile_cons] at ha
    split at ha
    · rename_i hx
      simp only [List.mem_cons] at ha
      rcases ha with ha | ha
      · subst ha; simpa using hx
      · exact ih a ha
    · simp at ha

theorem length_takeWhile_le' (p : Hot → Bool) : ∀ l : List Hot, (l.takeWhile p).length ≤ l.length := by
  intro l
  induction l with
  | nil => simp
  | cons x xs ih =>
    simp only [List.takeWhile_cons]
    split
    · simp only [List.length_cons]; omega
    · simp

/-- the slice with the key put at the search position is ordered -/
theorem shifted_desc (data : List Hot) (key : Hot) (hd : Desc data) :
    Desc (data.take (searchPos data key.val) ++ key :: data.drop (searchPos data key.val)) := by
  unfold searchPos
  rw [take_len_takeWhile, drop_len_takeWhile]
  have hsplit : data = data.takeWhile (fun h => h.val > key.val) ++ data.dropWhile (fun h => h.val > key.val) :=
    (List.takeWhile_append_dropWhile).symm
  unfold Desc at hd ⊢
  rw [hsplit, List.pairwise_append] at hd
  rw [List.pairwise_append, List.pairwise_cons]
  refine ⟨hd.1, ⟨fun b hb => dropWhile_le key.val data (by unfold Desc; rw [hsplit, List.pairwise_append]; exact hd) b hb, hd.2.1⟩, ?_⟩
  intro a ha b hb
  simp only [List.mem_cons] at hb
  rcases hb with hb | hb
  · subst hb; exact Nat.le_of_lt (takeWhile_gt _ data a ha)
  · exact hd.2.2 a ha b hb

/-- **The bounded insert keeps the report ordered by non-increasing heat.** -/
theorem insert_desc (cap : Nat) (data : List Hot) (key : Hot) (hd : Desc data) : Desc (Hotkey.insert cap data key) := by
  unfold Hotkey.insert
  simp only
  split
  · split
    · exact shifted_desc data key hd
    · exact List.Pairwise.sublist (List.take_sublist _ _) (shifted_desc data key hd)
  · rename_i hge
    split
    · -- every entry is strictly hotter than the key: it goes last
      have hlen : (data.takeWhile (fun h => h.val > key.val)).length = data.length := by
        unfold searchPos at hge
        have := length_takeWhile_le' (fun h : Hot => decide (h.val > key.val)) data
        omega
      have hall : data.takeWhile (fun h => h.val > key.val) = data := by
        have := take_len_takeWhile (fun h => h.val > key.val) data
        rw [hlen, List.take_length] at this
        exact this.symm
      unfold Desc at hd ⊢
      rw [List.pairwise_append]
      refine ⟨hd, by simp, ?_⟩
      intro a ha b hb
      simp only [List.mem_singleton] at hb
      subst hb
      rw [← hall] at ha
      exact Nat.le_of_lt (takeWhile_gt _ data a ha)
    · exact hd

/-- the bounded insert only ever lists the key or what was listed -/
theorem insert_mem (cap : Nat) (data : List Hot) (key x : Hot) (hx : x ∈ Hotkey.insert cap data key) : x = key ∨ x ∈ data := by
  unfold Hotkey.insert at hx
  simp only at hx
  have hsh : ∀ y, y ∈ data.take (searchPos data key.val) ++ key :: data.drop (searchPos data key.val) → y = key ∨ y ∈ data := by
    intro y hy
    simp only [List.mem_append, List.mem_cons] at hy
    rcases hy with hy | hy | hy
    · exact Or.inr (List.mem_of_mem_take hy)
    · exact Or.inl hy
    · exact Or.inr (List.mem_of_mem_drop hy)
  split at hx
  · split at hx
    · exact hsh x hx
    · exact hsh x (List.mem_of_mem_take hx)
  · split at hx
    · simp only [List.mem_append, List.mem_singleton] at hx
      rcases hx with hx | hx
      · exact Or.inr hx
      · exact Or.inl hx
    · exact Or.inr hx

def names (l : List Hot) : List Nat := l.map (·.name)

/-- the bounded insert never lists a name twice when the key's name is new -/
theorem insert_names_nodup (cap : Nat) (data : List Hot) (key : Hot) (hn : (names data).Nodup)
    (hnew : key.name ∉ names data) : (names (Hotkey.insert cap data key)).Nodup := by
  have hsh : (names (data.take (searchPos data key.val) ++ key :: data.drop (searchPos data key.val))).Nodup := by
    have hperm : (data.take (searchPos data key.val) ++ key :: data.drop (searchPos data key.val)).Perm (key :: data) := by
      have : (data.take (searchPos data key.val) ++ key :: data.drop (searchPos data key.val)).Perm
          (key :: (data.take (searchPos data key.val) ++ data.drop (searchPos data key.val))) := List.perm_middle
      rw [List.take_append_drop] at this
      exact this
    unfold names
    rw [(hperm.map _).nodup_iff]
    simp only [List.map_cons, List.nodup_cons]
    exact ⟨hnew, hn⟩
  unfold Hotkey.insert
  simp only
  split
  · split
    · exact hsh
    · unfold names at hsh ⊢
      exact List.Nodup.sublist ((List.take_sublist _ _).map _) hsh
  · split
    · unfold names at hn hnew ⊢
      rw [List.map_append, List.nodup_append]
      refine ⟨hn, by simp, ?_⟩
      intro a ha b hb
      simp only [List.map_cons, List.map_nil, List.mem_singleton] at hb
      subst hb
      intro e; subst e; exact hnew ha
    · exact hn


/-! ### the report over any number of collection periods -/

theorem collect_fold (cap : Nat) (P : List Hot → Prop) (hP : ∀ acc key, P acc → P (Hotkey.insert cap acc key)) :
    ∀ (keys acc : List Hot), P acc → P (keys.foldl (Hotkey.insert cap) acc) := by
  intro keys
  induction keys with
  | nil => intro acc h; exact h
  | cons k ks ih => intro acc h; exact ih _ (hP acc k h)

/-- a collection orders the report by non-increasing heat, whatever the counters' values -/
theorem collect_desc (cap : Nat) (ins : List Hot) : Desc (ins.foldl (Hotkey.insert cap) []) :=
  collect_fold cap Desc (fun acc key h => insert_desc cap acc key h) ins [] (by simp [Desc])

theorem collect_mem (cap : Nat) (ins : List Hot) : ∀ (acc : List Hot) (x : Hot),
    x ∈ ins.foldl (Hotkey.insert cap) acc → x ∈ acc ∨ x ∈ ins := by
  induction ins with
  | nil => intro acc x hx; exact Or.inl hx
  | cons k ks ih =>
    intro acc x hx
    rcases ih _ x hx with h | h
    · rcases insert_mem cap acc k x h with e | e
      · subst e; right; simp
      · left; exact e
    · right; simp [h]

/-- a collection never lists a name twice: every name is inserted once (the names come out of maps) -/
theorem collect_names_nodup (cap : Nat) : ∀ (ins acc : List Hot), (names (acc ++ ins)).Nodup →
    (names (ins.foldl (Hotkey.insert cap) acc)).Nodup := by
  intro ins
  induction ins with
  | nil => intro acc h; simpa using h
  | cons k ks ih =>
    intro acc h
    simp only [List.foldl_cons]
    apply ih
    unfold names at h ⊢
    simp only [List.map_append, List.map_cons] at h ⊢
    rw [List.nodup_append] at h ⊢
    obtain ⟨h1, h2, h3⟩ := h
    rw [List.nodup_cons] at h2
    have hknew : k.name ∉ List.map (·.name) acc := fun e => h3 _ e _ (by simp) rfl
    refine ⟨insert_names_nodup cap acc k h1 hknew, h2.2, ?_⟩
    intro a ha b hb
    simp only [List.mem_map] at ha
    obtain ⟨x, hx, hxa⟩ := ha
    rcases insert_mem cap acc k x hx with e | e
    · subst e; subst hxa; intro e2; subst e2; exact h2.1 hb
    · exact h3 a (by simp only [List.mem_map]; exact ⟨x, e, hxa⟩) b (by simp [hb])

theorem insertDesc_perm (h : Hot) (l : List Hot) : (insertDesc h l).Perm (h :: l) := by
  induction l with
  | nil => simp [insertDesc]
  | cons x xs ih =>
    simp only [insertDesc]
    split
    · exact (List.Perm.cons x ih).trans (List.Perm.swap h x xs)
    · exact List.Perm.refl _

theorem sortDesc_perm (l : List Hot) : (sortDesc l).Perm l := by
  induction l with
  | nil => simp [sortDesc]
  | cons x xs ih => exact (insertDesc_perm x _).trans (List.Perm.cons x ih)

theorem names_halveStale (now : Int) (data : List Hot) : names (halveStale now data) = names data := by
  unfold names halveStale
  rw [List.map_map]
  apply List.map_congr_left
  intro h _
  simp only [Function.comp]
  split <;> rfl

/-- stale eviction lists only names that were listed, none twice -/
theorem evictStale_names (now : Int) (data : List Hot) (hn : (names data).Nodup) :
    (names (evictStale now data)).Nodup ∧ ∀ n ∈ names (evictStale now data), n ∈ names data := by
  unfold evictStale
  have hp := (sortDesc_perm ((halveStale now data).filter (fun h => h.val != 0))).map (·.name)
  have hsub : ((halveStale now data).filter (fun h => h.val != 0)).map (·.name) |>.Sublist (names data) := by
    rw [← names_halveStale now data]
    exact (List.filter_sublist).map _
  constructor
  · unfold names
    rw [hp.nodup_iff]
    exact List.Nodup.sublist hsub hn
  · intro n hn'
    unfold names at hn'
    exact hsub.subset (hp.subset hn')

theorem evictStale_length (now : Int) (data : List Hot) : (evictStale now data).length ≤ data.length := by
  unfold evictStale
  rw [(sortDesc_perm _).length_eq]
  have : (halveStale now data).length = data.length := by simp [halveStale]
  rw [← this]
  exact List.length_filter_le _ _

/-- reports reachable over any number of periods: a collection inserts, in any order, entries with
pairwise different names, each either a listed name or a name accessed in the period (`acc`: every
name ever accessed); a stale eviction at any minute -/
inductive Report (cap : Nat) (acc : List Nat) : List Hot → Prop
  | init : Report cap acc []
  | collect {keys : List Hot} (ins : List Hot) (hn : (names ins).Nodup)
      (hacc : ∀ h ∈ ins, h.name ∈ names keys ∨ h.name ∈ acc) :
      Report cap acc keys → Report cap acc (ins.foldl (Hotkey.insert cap) [])
  | evict {keys : List Hot} (now : Int) : Report cap acc keys → Report cap acc (evictStale now keys)

/-- **The HOTKEY report is well formed after every history of collections and evictions**: never
more keys than the capacity, no key twice, ordered by non-increasing heat, only keys that were
accessed — whatever values the probabilistic counters took and in whatever order the maps were
iterated. -/
theorem report_well_formed (cap : Nat) (acc : List Nat) (keys : List Hot) (h : Report cap acc keys) :
    keys.length ≤ cap ∧ (names keys).Nodup ∧ Desc keys ∧ ∀ n ∈ names keys, n ∈ acc := by
  induction h with
  | init => simp [names, Desc]
  | collect ins hn hacc _ ih =>
    refine ⟨collect_length_le cap ins, collect_names_nodup cap ins [] (by simpa using hn), collect_desc cap ins, ?_⟩
    intro n hn'
    unfold names at hn'
    simp only [List.mem_map] at hn'
    obtain ⟨x, hx, hxn⟩ := hn'
    rcases collect_mem cap ins [] x hx with e | e
    · simp at e
    · rcases hacc x e with h1 | h1
      · subst hxn; exact ih.2.2.2 _ h1
      · subst hxn; exact h1
  | evict now _ ih =>
    have := evictStale_names now _ ih.2.1
    exact ⟨Nat.le_trans (evictStale_length now _) ih.1, this.1, evictStale_desc now _, fun n hn' => ih.2.2.2 n (this.2 n hn')⟩

/-- not vacuous: capacity 2, three periods -/
example : Report 2 [1, 2, 3] [⟨3, 9, 5⟩, ⟨1, 2, 6⟩] := by
  have h1 : Report 2 [1, 2, 3] ([⟨1, 5, 5⟩, ⟨2, 7, 5⟩].foldl (Hotkey.insert 2) []) :=
    Report.collect _ (by decide) (by decide) Report.init
  have h2 := Report.collect (cap := 2) (acc := [1, 2, 3]) [⟨2, 7, 5⟩, ⟨3, 9, 5⟩, ⟨1, 5, 5⟩] (by decide) (by decide) h1
  have h3 := Report.evict (cap := 2) (acc := [1, 2, 3]) 6 h2
  have h4 := Report.collect (cap := 2) (acc := [1, 2, 3]) [⟨1, 2, 6⟩, ⟨3, 9, 5⟩] (by decide) (by decide) h3
  exact h4

/-! Non-vacuity -/
example : run { cap := 2, nodes := [] } [.incr 1, .incr 2, .incr 2, .incr 3, .incr 3, .incr 3, .latch, .incr 4]
    = some { cap := 2, nodes := [(1, [4])] } := by decide
example : (run { cap := 2, nodes := [] } [.incr 1, .incr 2, .incr 2, .incr 3]).map (·.nodes) = some [(1, [3]), (2, [2])] := by decide


/-- **The code the model was written against.** The statements of the modelled functions,
regenerated from the current source on every run, are the ones the model was written against;
any edit to one of them makes this obligation fail and starts a search for a failing input. -/
theorem filters_match_model :
    Gen.Filters.hotKeyDo =
      ["key := f.extractKey(cmd, req.Body())",
      "if len(key) > 0 && f.counter != nil { f.counter.Incr(key) }",
      "return Continue"] ∧
    Gen.Filters.hotKeyExtractKey =
      ["if len(v.Array) <= 1 { return \"\" }",
      "switch cmd { case \"eval\", \"cluster\", \"auth\", \"scan\": return \"\" default: return string(v.Array[1].Text) }"] := by
  refine ⟨rfl, rfl⟩

/-- **The code the model was written against.** The statements of the modelled functions,
regenerated from the current source on every run, are the ones the model was written against;
any edit to one of them makes this obligation fail and starts a search for a failing input. -/
theorem code_matches_model :
    Gen.Hotkey.incr =
      ["c.mu.Lock()",
      "item, ok := c.items[key]",
      "if ok { c.increment(item) c.mu.Unlock() return }",
      "if uint8(len(c.items)) >= c.capacity { c.evict() }",
      "item = &itemNode{key: key}",
      "c.add(item)",
      "c.mu.Unlock()"] ∧
    Gen.Hotkey.latch =
      ["c.mu.Lock()",
      "res := make(map[string]uint64, len(c.items))",
      "for key, item := range c.items { res[key] = item.freqNode.freq }",
      "c.reset()",
      "c.mu.Unlock()",
      "return res"] ∧
    Gen.Hotkey.reset =
      ["c.items = make(map[string]*itemNode)",
      "c.freqHead = nil"] ∧
    Gen.Hotkey.increment =
      ["curFreqNode := item.freqNode",
      "curFreq := curFreqNode.freq",
      "var targetFreqNode *freqNode",
      "if curFreqNode.next == nil || curFreqNode.next.freq != curFreq+1 { targetFreqNode = &freqNode{freq: curFreq + 1} curFreqNode.InsertAfterMe(targetFreqNode) } else { targetFreqNode = curFreqNode.next }",
      "item.Free()",
      "targetFreqNode.AppendItem(item)",
      "if curFreqNode.itemHead != nil { return }",
      "if c.freqHead == curFreqNode { c.freqHead = targetFreqNode }",
      "curFreqNode.Free()"] ∧
    Gen.Hotkey.add =
      ["c.items[item.key] = item",
      "if c.freqHead != nil && c.freqHead.freq == 1 { c.freqHead.AppendItem(item) return }",
      "fnode := &freqNode{freq: 1}",
      "fnode.AppendItem(item)",
      "if c.freqHead != nil { c.freqHead.InsertBeforeMe(fnode) }",
      "c.freqHead = fnode"] ∧
    Gen.Hotkey.evict =
      ["fnode := c.freqHead",
      "item := fnode.itemHead",
      "delete(c.items, item.key)",
      "fnode.PopItem()",
      "if fnode.itemHead != nil { return }",
      "c.freqHead = fnode.next",
      "fnode.Free()"] ∧
    Gen.Hotkey.popItem =
      ["if n.itemHead == nil { return nil }",
      "if n.itemHead == n.itemTail { item := n.itemHead n.itemHead = nil n.itemTail = nil return item }",
      "item := n.itemHead",
      "item.next.prev = nil",
      "n.itemHead = item.next",
      "return item"] ∧
    Gen.Hotkey.appendItem =
      ["item.freqNode = n",
      "if n.itemHead == nil { n.itemHead = item n.itemTail = item return }",
      "item.prev = n.itemTail",
      "item.next = nil",
      "n.itemTail.next = item",
      "n.itemTail = item"] ∧
    Gen.Hotkey.insert =
      ["l := len(s.data)",
      "i := sort.Search(l, func(i int) bool { return s.data[i].Counter.Value() <= key.Counter.Value() })",
      "if uint8(l) < s.capacity { s.data = append(s.data, key) success = true }",
      "if i < l { copy(s.data[i+1:], s.data[i:]) s.data[i] = key success = true }",
      "return"] ∧
    Gen.Hotkey.collect =
      ["c.rwmu.RLock()",
      "accessedKeyNames := make(map[string]uint64)",
      "for _, counter := range c.counters { for key, hitCount := range counter.Latch() { accessedKeyNames[key] += hitCount } }",
      "c.rwmu.RUnlock()",
      "if len(accessedKeyNames) == 0 { return }",
      "c.rwmu.RLock()",
      "curHotKeys := make(map[string]*logrithmCounter, len(c.keys))",
      "for _, key := range c.keys { curHotKeys[key.Name] = key.Counter }",
      "c.rwmu.RUnlock()",
      "res := newSortedHotKeys(c.capacity)",
      "for keyName, cur := range curHotKeys { visits := accessedKeyNames[keyName] counter := new(logrithmCounter) *counter = *cur counter.ReaptIncr(visits) key := HotKey{Name: keyName, Counter: counter} res.Insert(key) delete(accessedKeyNames, keyName) }",
      "for keyName, hitCount := range accessedKeyNames { counter := new(logrithmCounter) counter.ReaptIncr(hitCount) key := HotKey{Name: keyName, Counter: counter} res.Insert(key) }",
      "c.rwmu.Lock()",
      "c.keys = res.Data()",
      "c.rwmu.Unlock()"] ∧
    Gen.Hotkey.evictStale =
      ["c.rwmu.Lock()",
      "defer c.rwmu.Unlock()",
      "curTimeInMinute := nowInMinute()",
      "halved := make([]HotKey, 0, len(c.keys))",
      "for _, key := range c.keys { counter := new(logrithmCounter) *counter = *key.Counter if curTimeInMinute > counter.LastUpdateTimeInMinute() { counter.Halve() } halved = append(halved, HotKey{Name: key.Name, Counter: counter}) }",
      "keys := make([]HotKey, 0, len(halved))",
      "for _, key := range halved { if key.Counter.Value() != 0 { keys = append(keys, key) } }",
      "sort.SliceStable(keys, func(i, j int) bool { return keys[i].Counter.Value() > keys[j].Counter.Value() })",
      "c.keys = keys"] ∧
    Gen.Hotkey.hotKeys =
      ["c.rwmu.RLock()",
      "defer c.rwmu.RUnlock()",
      "return c.keys"] ∧
    Gen.Hotkey.allocCounter =
      ["c.rwmu.Lock()",
      "defer c.rwmu.Unlock()",
      "counter, ok := c.counters[name]",
      "if ok { atomic.AddInt32(&counter.refs, 1) return counter }",
      "cb := func() { c.rwmu.Lock() if atomic.AddInt32(&counter.refs, -1) <= 0 && c.counters[name] == counter { delete(c.counters, name) } c.rwmu.Unlock() }",
      "counter = NewCounter(c.capacity, cb)",
      "counter.refs = 1",
      "c.counters[name] = counter",
      "return counter"] ∧
    Gen.Hotkey.free =
      ["if c.freeCb != nil { c.freeCb() }",
      "if atomic.LoadInt32(&c.refs) > 0 { return }",
      "c.mu.Lock()",
      "c.reset()",
      "c.mu.Unlock()"] ∧
    Gen.Hotkey.halve =
      ["if c.val == 0 { return }",
      "c.val = c.val >> 1",
      "c.lut = nowInMinute()"] := by
  refine ⟨rfl, rfl, rfl, rfl, rfl, rfl, rfl, rfl, rfl, rfl, rfl, rfl, rfl, rfl, rfl⟩

end SamVerif.Props.C19

namespace SamVerif.Props.C19s
open SamVerif.Hotkey SamVerif.HotShare

theorem run_own (ops : List Op) : ∀ (s t s' : Shared), s.old = false → s.c = t.c → run s ops = some s' →
    ∃ t', run t (own ops) = some t' ∧ t'.c = s'.c := by
  induction ops with
  | nil => intro s t s' _ hc h; simp only [run] at h; cases h; exact ⟨t, rfl, hc.symm⟩
  | cons o os ih =>
    intro s t s' ho hc h
    simp only [run] at h
    split at h
    · rename_i s1 hs
      cases o with
      | incr k =>
        simp only [step, Option.map_eq_some_iff] at hs
        obtain ⟨c', hc', rfl⟩ := hs
        obtain ⟨t2, h2, e2⟩ := ih { s with c := c' } { t with c := c' } s' ho rfl h
        have e : own (.incr k :: os) = .incr k :: own os := by simp [own]
        refine ⟨t2, ?_, e2⟩
        rw [e]; simp only [run, step, ← hc, hc', Option.map_some]
        exact h2
      | latch =>
        simp only [step] at hs; cases hs
        obtain ⟨t2, h2, e2⟩ := ih { s with c := (latch s.c).2 } { t with c := (latch t.c).2 } s' ho (by simp [hc]) h
        have e : own (.latch :: os) = .latch :: own os := by simp [own]
        refine ⟨t2, ?_, e2⟩
        rw [e]; simp only [run, step]
        exact h2
      | allocOther =>
        simp only [step] at hs; cases hs
        obtain ⟨t2, h2, e2⟩ := ih { s with refs := s.refs + 1 } t s' ho hc h
        exact ⟨t2, by simpa [own] using h2, e2⟩
      | freeOther =>
        simp only [step, ho, Bool.false_eq_true, ↓reduceIte] at hs
        split at hs
        · cases hs
        · cases hs
          obtain ⟨t2, h2, e2⟩ := ih { c := s.c, refs := s.refs - 1 } t s' rfl hc h
          exact ⟨t2, by simpa [own] using h2, e2⟩
    · cases h

/-- **The live connection's counter is not touched by the other connections to its backend** (F-19c, since 61d3b92): after any
history of its own accesses and of other connections being made and stopped, the counter holds what its own accesses alone
produce — so the exactness and capacity theorems above speak about it. -/
theorem live_counter_is_its_own (c : Counter) (ops : List Op) (s' : Shared) (h : run { c := c } ops = some s') :
    ∃ t', run { c := c } (own ops) = some t' ∧ t'.c = s'.c :=
  run_own ops _ _ s' rfl rfl h

/-- **Before 61d3b92**: a successor is made, the old connection is stopped — the successor's counter is empty again -/
theorem old_free_resets_the_successors_counter :
    ∃ s, run { old := true, c := { cap := 3, nodes := [] } } [.incr 1, .incr 1, .allocOther, .freeOther] = some s ∧ s.c.nodes = [] := by
  refine ⟨_, rfl, rfl⟩

example : ∃ s, run { c := { cap := 3, nodes := [] } } [.incr 1, .incr 1, .allocOther, .freeOther] = some s ∧ s.c.nodes ≠ [] := by
  refine ⟨_, rfl, by decide⟩

end SamVerif.Props.C19s

#print axioms SamVerif.Props.C19.incr_inv
#print axioms SamVerif.Props.C19.run_inv
#print axioms SamVerif.Props.C19.incr_tracked_count
#print axioms SamVerif.Props.C19.incr_tracked_others
#print axioms SamVerif.Props.C19.evict_min
#print axioms SamVerif.Props.C19.collect_length_le
#print axioms SamVerif.Props.C19.evictStale_desc
#print axioms SamVerif.Props.C19.evictStaleOld_counterexample
#print axioms SamVerif.Props.C19.code_matches_model
#print axioms SamVerif.Props.C19.insert_desc
#print axioms SamVerif.Props.C19.insert_mem
#print axioms SamVerif.Props.C19.insert_names_nodup
#print axioms SamVerif.Props.C19.evictStale_names
#print axioms SamVerif.Props.C19.report_well_formed
#print axioms SamVerif.Props.C19.filters_match_model
#print axioms SamVerif.Props.C19s.live_counter_is_its_own
#print axioms SamVerif.Props.C19s.old_free_resets_the_successors_counter
