/-
C06 — TCP: connections go only to current healthy hosts, per the balancing policy.

`HostSet.rrPick/randomPick/leastConnPick` model proc/internal/lb/lb.go; the candidate list
they index is `Healthy()` of the host set, characterised by C15's `usable_correct`.
-/
import SamVerif.Props.C15
import SamVerif.Gen.Lb
import SamVerif.Gen.Relay
import SamVerif.Proofs.TcpConn
namespace SamVerif.Props.C06
open SamVerif.HostSet

theorem count_range : ∀ (n j : Nat), j < n → (List.range n).count j = 1 := by
  intro n
  induction n with
  | zero => intro j h; omega
  | succ n ih =>
    intro j h
    rw [List.range_succ, List.count_append]
    by_cases hj : j = n
    · subst hj
      have : (List.range j).count j = 0 := List.count_eq_zero.mpr (by simp)
      simp [this]
    · have hne : (n == j) = false := by simp; exact fun e => hj e.symm
      rw [ih j (by omega)]
      simp [List.count_cons, hne]

/-- residues of `n` consecutive counter values: exactly one hits `r` -/
theorem count_window (n c r : Nat) (hn : 0 < n) (hr : r < n) :
    ((List.range n).map (fun j => (c + j) % n)).count r = 1 := by
  -- (c + j) % n = r  ↔  j = j0  for the unique j0 < n
  let q := c % n
  have hq : q < n := Nat.mod_lt _ hn
  let j0 := if q ≤ r then r - q else r + n - q
  have hj0 : j0 < n := by simp only [j0]; split <;> omega
  have key : ∀ j, j < n → ((c + j) % n = r ↔ j = j0) := by
    intro j hj
    have e : (c + j) % n = (q + j) % n := by
      simp only [q]; rw [Nat.add_mod, Nat.mod_eq_of_lt hj]
    rw [e]
    by_cases hlt : q + j < n
    · rw [Nat.mod_eq_of_lt hlt]; simp only [j0]; split <;> omega
    · have : (q + j) % n = q + j - n := by
        rw [Nat.mod_eq_sub_mod (by omega)]; exact Nat.mod_eq_of_lt (by omega)
      rw [this]; simp only [j0]; split <;> omega
  rw [List.count_eq_countP, List.countP_map]
  have : List.countP ((fun x => x == r) ∘ fun j => (c + j) % n) (List.range n)
      = List.countP (fun j => j == j0) (List.range n) := by
    apply List.countP_congr
    intro j hj
    have hjn : j < n := List.mem_range.mp hj
    simp only [Function.comp, beq_iff_eq]
    exact key j hjn
  rw [this, ← List.count_eq_countP]
  exact count_range n j0 hj0

/-- **Round robin is exactly fair.** For every host count `n > 0`, every starting counter
value and every `k`: among `n·k` consecutive selections each of the `n` (unchanged) hosts is
selected exactly `k` times. Concurrent accepts obtain distinct consecutive counter values from
the atomic increment, so the statement covers every interleaving. -/
theorem rr_fair (n : Nat) (hn : 0 < n) (r : Nat) (hr : r < n) : ∀ (k start : Nat),
    ((List.range (n * k)).map (fun j => rrPick (start + j) n)).count r = k := by
  intro k
  induction k with
  | zero => intro start; simp
  | succ k ih =>
    intro start
    have hsplit : List.range (n * (k + 1)) = List.range (n * k) ++ (List.range n).map (· + n * k) := by
      rw [Nat.mul_succ, List.range_add]
      congr 1
      apply List.map_congr_left; intro a _; omega
    rw [hsplit, List.map_append, List.count_append, ih start, List.map_map]
    have : ((fun j => rrPick (start + j) n) ∘ fun x => x + n * k) = fun j => (start + n * k + 1 + j) % n := by
      funext j; simp only [Function.comp, rrPick]; congr 1; omega
    rw [this, count_window n (start + n * k + 1) r hn hr]

/-- **Random only picks members of the candidate list.** -/
theorem random_member (r n : Nat) (hn : 0 < n) : randomPick r n < n := Nat.mod_lt _ hn

/-- **Round robin only picks members of the candidate list.** -/
theorem rr_member (c n : Nat) (hn : 0 < n) : rrPick c n < n := Nat.mod_lt _ hn

/-- **Least connection picks a member and never the strictly busier of its two samples.** -/
theorem leastconn_member (r1 r2 : Nat) (conns : List Nat) (hn : 0 < conns.length) :
    leastConnPick r1 r2 conns < conns.length := by
  unfold leastConnPick
  simp only
  split <;> exact Nat.mod_lt _ hn

theorem leastconn_not_busier (r1 r2 : Nat) (conns : List Nat) :
    conns.getD (leastConnPick r1 r2 conns) 0 ≤ conns.getD (r1 % conns.length) 0 ∧
    conns.getD (leastConnPick r1 r2 conns) 0 ≤ conns.getD (r2 % conns.length) 0 := by
  unfold leastConnPick
  simp only
  split <;> omega

/-- **Only current healthy members of the preferred tier are candidates**: the list the
balancers index is `Healthy()`, which after every history equals the members flagged healthy in
the preferred tier (C15); an index below its length therefore denotes such a host, and with an
empty list there is nothing to pick (the client connection is closed). -/
theorem pick_from_usable (attr : Nat → Nat × Bool) (ops : List C15.Op)
    (hw : ∀ op ∈ ops, ∀ o ∈ C15.objsOf op, Proofs.HostSet.WF attr o) (idx : Nat)
    (hidx : idx < (healthy (C15.run init ops)).length) :
    (healthy (C15.run init ops))[idx] ∈ usableSpec (C15.run init ops) := by
  have := C15.usable_correct attr ops hw
  rw [← this]
  exact List.getElem_mem hidx

/-- tie to the source: the balancers index the candidate list with the expressions the model
assumes (pre-increment counter modulo the length; random number modulo the length; two samples,
the first returned only if strictly less busy). -/
theorem balancer_shapes :
    Gen.Lb.rrIndex = ["rrb.index.Inc() % uint64(len(hosts))"] ∧
    Gen.Lb.randomIndex = ["randInt() % len(hosts)"] ∧
    Gen.Lb.leastConnIndex = ["randInt() % len(hosts)", "randInt() % len(hosts)"] ∧
    Gen.Lb.leastConnChoice = "host1.ConnCount() < host2.ConnCount() => return host1" := by decide

/-! Non-vacuity -/
example : (List.range 6).map (fun j => rrPick (4 + j) 3) = [2, 0, 1, 2, 0, 1] := by decide
example : leastConnPick 0 1 [5, 2, 9] = 1 := by decide

/-! ### the life of a relayed connection -/

section conn
open SamVerif.TcpConn

/-- **With no usable host (or a failed dial) the client connection is closed**, and nothing is
counted for any host. -/
theorem no_host_closes_client (pre : List Label) (t t' : T) (h : run {} pre = some t)
    (usable dialOk : Bool) (hno : ¬ (usable = true ∧ dialOk = true)) (hs : step t (.start usable dialOk) = some t') :
    t'.phase = .returned ∧ t'.cOpen = false ∧ t'.sOpen = false ∧ t'.count = 0 := by
  have hi := inv_run pre _ t inv_init h
  have hi' := inv_step t t' _ hi hs
  simp only [step] at hs
  by_cases hp0 : t.phase = .selecting
  · rw [if_pos hp0, if_neg hno] at hs
    injection hs with hs
    have hp : t'.phase = .returned := by rw [← hs]
    exact ⟨hp, (hi'.closed hp).1, (hi'.closed hp).2, by rw [hi'.counted, hp]; rfl⟩
  · rw [if_neg hp0] at hs; cases hs

/-- **A connection counts for its host exactly while it is relayed** — after every history. -/
theorem counted_while_relayed (ls : List Label) (t : T) (h : run {} ls = some t) :
    t.count = if t.phase = .relaying then 1 else 0 := (inv_run ls _ t inv_init h).counted

/-- **Established connections to a removed host are closed** (and those of a stopping processor):
once the picked host's removal latch is closed, let the connection's own goroutines run in any
order — the two copy loops, the watcher, HandleConn's return; peers may do what they like
before.  Every such schedule has at most `mu t ≤ 4` steps, and when none of them can move any
more HandleConn has returned, both sockets are closed, the host's count is back and the watcher
goroutine is gone. -/
theorem removal_closes_connection (pre : List Label) (t : T) (h : run {} pre = some t)
    (he : t.phase ≠ .selecting) (hg : t.latch = true ∨ t.quit = true)
    (ls : List Label) (hint : ∀ l ∈ ls, internal l = true) (t' : T) (hr : run t ls = some t') :
    ls.length ≤ mu t ∧
    ((∀ l, internal l = true → step t' l = none) →
      t'.phase = .returned ∧ t'.cOpen = false ∧ t'.sOpen = false ∧ t'.count = 0 ∧ t'.watcher ≠ .armed) := by
  have hi := inv_run pre _ t inv_init h
  obtain ⟨hm, hi', he', hg'⟩ := wind_down ls t t' hi he hg hint hr
  refine ⟨by omega, ?_⟩
  intro hstuck
  have hdone : t'.phase = .returned ∧ t'.watcher ≠ .armed := by
    apply Classical.byContradiction
    intro hn
    obtain ⟨l, hl, hen⟩ := progress t' hi' he' hg' hn
    rw [hstuck l hl] at hen
    cases hen
  exact ⟨hdone.1, (hi'.closed hdone.1).1, (hi'.closed hdone.1).2, by rw [hi'.counted, hdone.1]; rfl, hdone.2⟩

/-- not vacuous: a relayed connection whose host is removed while the client → backend loop has
already ended; the watcher fires, the other loop breaks, HandleConn returns -/
example : ∃ t, run {} [.start true true, .peerEnds true, .hostRemoved, .watcherFire, .loopBreaks false, .ret] = some t
    ∧ t.phase = .returned ∧ t.count = 0 ∧ t.cOpen = false := ⟨_, rfl, by decide⟩

end conn

/-- **The code the model was written against.** -/
theorem code_matches_model :
    Gen.Relay.handleConn =
      ["cconn := netutil.New(conn)",
      "cconn.SetReadTimeout(*p.cfg.IdleTimeout)",
      "healthyHosts := p.hostSet.Healthy()",
      "if len(healthyHosts) == 0 { p.Warnf(\"No available host\") return }",
      "host := p.lb.PickHost(healthyHosts)",
      "sconn, err := p.dial(host)",
      "if err != nil { p.Warnf(\"Dial to host[%s] failed: %v\", host, err) p.stats.Upstream.CxConnectFail.Inc() return }",
      "defer sconn.Close()",
      "host.IncConnCount()",
      "p.stats.Upstream.CxTotal.Inc()",
      "p.stats.Upstream.CxActive.Inc()",
      "defer func() { host.DecConnCount() p.stats.Upstream.CxDestroyTotal.Inc() p.stats.Upstream.CxActive.Dec() }()",
      "done := make(chan struct{})",
      "finished := make(chan struct{})",
      "defer close(finished)",
      "go func() { select { case <-host.WaitRemoved(): p.Infof(\"host: %s removed, conn will close...\", host.Addr) sconn.Close() cconn.Close() return case <-p.quit: sconn.Close() cconn.Close() return case <-finished: return } }()",
      "go func() { p.pipeConn(cconn, sconn) close(done) }()",
      "p.pipeConn(sconn, cconn)",
      "<-done"] := rfl

end SamVerif.Props.C06

#print axioms SamVerif.Props.C06.rr_fair
#print axioms SamVerif.Props.C06.random_member
#print axioms SamVerif.Props.C06.leastconn_member
#print axioms SamVerif.Props.C06.leastconn_not_busier
#print axioms SamVerif.Props.C06.pick_from_usable
#print axioms SamVerif.Props.C06.balancer_shapes
#print axioms SamVerif.Props.C06.code_matches_model
#print axioms SamVerif.Props.C06.no_host_closes_client
#print axioms SamVerif.Props.C06.counted_while_relayed
#print axioms SamVerif.Props.C06.removal_closes_connection
