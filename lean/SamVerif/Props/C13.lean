/-
C13 — transparent compression never changes what clients read back.

`Compress.*` models filter_compress.go (as repaired by 871a36a and 1178625) for an arbitrary
codec satisfying `decomp (comp v) = some v`; header, value positions and guards are regenerated
from the source (`Gen.Compress`). Tied by the differential run through the real filter chain
with the real snappy.
-/
import SamVerif.Model.Compress
import SamVerif.Gen.Filters
namespace SamVerif.Props.C13
open SamVerif SamVerif.Compress

/-- **What reaches the backend** is the original value, or the header followed by the codec's
stream for exactly that value, and then strictly shorter than the original. -/
theorem stored_is_original_or_frame (C : Codec) (thr : Nat) (v : Bytes) :
    compressValue C thr v = v ∨
    (compressValue C thr v = hdr ++ C.comp v ∧ (hdr ++ C.comp v).length < v.length ∧
      C.decomp ((hdr ++ C.comp v).drop hdr.length) = some v) := by
  unfold compressValue
  by_cases h1 : v.length < thr
  · left; rw [if_pos h1]
  · rw [if_neg h1]
    by_cases h2 : isFramed v = true
    · left; rw [if_pos h2]
    · rw [if_neg h2]
      simp only []
      by_cases h3 : (hdr ++ C.comp v).length ≥ v.length
      · left; rw [if_pos h3]
      · right
        rw [if_neg h3]
        refine ⟨rfl, by omega, ?_⟩
        rw [List.drop_left]; exact C.roundtrip v

theorem isFramed_frame (C : Codec) (v : Bytes) : isFramed (hdr ++ C.comp v) = true := by
  unfold isFramed; simp

/-- **Read back.** For every codec, threshold and value that does not itself start with the
header: one filter pass on the write and one decompression hook on the read return the value. -/
theorem read_back (C : Codec) (thr : Nat) (v : Bytes) (hv : isFramed v = false) :
    decompressValue C (compressValue C thr v) = v := by
  rcases stored_is_original_or_frame C thr v with h | ⟨h, _, hd⟩
  · rw [h]; unfold decompressValue; simp [hv]
  · rw [h]; unfold decompressValue; simp only [isFramed_frame, ↓reduceIte, hd]

/-- **Resends are harmless** (F-13a): running the filter again on the same request, as every
MOVED/ASK resend does, leaves the value as the first pass left it. -/
theorem resend_idempotent (C : Codec) (thr : Nat) (v : Bytes) :
    compressValue C thr (compressValue C thr v) = compressValue C thr v := by
  rcases stored_is_original_or_frame C thr v with h | ⟨h, _, _⟩
  · rw [h, h]
  · rw [h]
    unfold compressValue
    by_cases h1 : (hdr ++ C.comp v).length < thr
    · rw [if_pos h1]
    · rw [if_neg h1, if_pos (isFramed_frame C v)]

theorem decompress_plain (C : Codec) (v : Bytes) (hv : isFramed v = false) : decompressValue C v = v := by
  unfold decompressValue; simp [hv]

/-- **Any number of redirections, any number of reply hooks, compression switched off in
between or not**: after `k ≥ 0` filter passes at any thresholds … the value read back through
`j ≥ 1` decompression hooks is the value written. (Decompression does not depend on the enable
switch, so this also covers reading after compression has been switched off.) -/
theorem read_back_general (C : Codec) (thr : Nat) (v : Bytes) (hv : isFramed v = false) (k j : Nat) :
    iter (decompressValue C) (j + 1) (iter (compressValue C thr) k v) = v := by
  have hk : ∀ k, iter (compressValue C thr) (k + 1) v = compressValue C thr v := by
    intro k
    induction k with
    | zero => rfl
    | succ k ih =>
      -- iter f (k+2) v = iter f (k+1) (f v); push one application to the outside
      have push : ∀ (n : Nat) (x : Bytes), iter (compressValue C thr) (n + 1) x = compressValue C thr (iter (compressValue C thr) n x) := by
        intro n
        induction n with
        | zero => intro x; rfl
        | succ n ihn => intro x; simp only [iter] at ihn ⊢; exact ihn _
      rw [push (k + 1) v, ih, resend_idempotent]
  have hj : ∀ j (x : Bytes), isFramed x = false → iter (decompressValue C) j x = x := by
    intro j
    induction j with
    | zero => intro x _; rfl
    | succ j ih => intro x hx; simp only [iter]; rw [decompress_plain C x hx]; exact ih x hx
  cases k with
  | zero =>
    simp only [iter]
    rw [decompress_plain C v hv]; exact hj j v hv
  | succ k =>
    rw [hk k]
    simp only [iter]
    rw [read_back C thr v hv]; exact hj j v hv

/-- **Commands disabled under compression are rejected locally** while compression is enabled. -/
theorem banned_rejected_locally (C : Codec) (thr : Nat) (cmd : Bytes) (args : List Bytes)
    (h : cmd ∈ Gen.Commands.bannedCmdsInCps) : filterDo C true thr cmd args = .rejected := by
  unfold filterDo
  have : Gen.Commands.bannedCmdsInCps.contains cmd = true := by
    rw [List.contains_iff_mem]; exact h
  simp only [Bool.not_true, Bool.false_eq_true, ↓reduceIte, this]

/-- tie: which commands carry values where (SET/GETSET/SETNX at 2; HSET/HMSET/HSETNX/PSETEX/SETEX
at 3; every second argument from there), and the guards the model mirrors -/
theorem positions_and_guards :
    valuePositions [115,101,116] 3 = [2] ∧                       -- set k v
    valuePositions [115,101,116,101,120] 4 = [3] ∧               -- setex k ttl v
    valuePositions [104,109,115,101,116] 6 = [3, 5] ∧            -- hmset k f v f v
    valuePositions [103,101,116] 2 = [] ∧                        -- get k : nothing
    Gen.Compress.hdrLen = hdr.length ∧
    Gen.Compress.thresholdGuard = "uint32(len(r.Text)) < cfg.Threshold" ∧
    Gen.Compress.framedSkipGuard = "bytes.HasPrefix(r.Text, cpsHdrs[cfg.Algorithm])" ∧
    Gen.Compress.notShorterGuard = "b.Len() >= len(src)" ∧
    Gen.Compress.decompressChecks.contains "!bytes.Equal(CRLF, src[len(cpsMagicNumber)+1:cpsHdrLen])" = true := by
  decide

/-! Non-vacuity: the identity codec satisfies the assumption; a value that gets framed exists
whenever the codec shrinks it by more than the header (checked on the real snappy by the harness) -/
def idCodec : Codec where
  comp v := v
  decomp s := some s
  roundtrip := by intro v; rfl

example : compressValue idCodec 4 [1,2,3,4,5,6,7,8] = [1,2,3,4,5,6,7,8] := by decide
example : isFramed [40, 80, 36, 0, 13, 88] = false := by decide     -- resembles a frame, is not one (F-13b)
example : isFramed [40, 80, 36, 0, 13, 10, 7] = true := by decide

/-- **The code the model was written against.** The statements of the modelled functions,
regenerated from the current source on every run, are the ones the model was written against;
any edit to one of them makes this obligation fail and starts a search for a failing input. -/
theorem code_matches_model :
    Gen.Filters.compressDo =
      ["if f.cfg == nil { return Continue }",
      "cfg := f.cfg.GetRedisOption().GetCompression()",
      "if cfg == nil { return Continue }",
      "if _, ok := wkSkipCheckCmdsInDecps[cmd]; !ok { req.RegisterHook(func(request *simpleRequest) { f.Decompress(request.resp) }) }",
      "if !cfg.Enable { return Continue }",
      "if _, ok := bannedCmdsInCps[cmd]; ok { errStr := fmt.Sprintf(\"ERR command '%s' is disabled in compress mode\", cmd) req.SetResponse(newError(errStr)) return Stop }",
      "f.Compress(cfg, cmd, req.body)",
      "return Continue"] ∧
    Gen.Filters.compressCompress =
      ["// get the offset of first value in resp array, there are two kind command: // 1) command key value // 2) command key field1 value1 [field2 value2]... // command key time value var offset int",
      "switch command { case \"set\", \"getset\", \"setnx\": offset = 2 case \"hset\", \"hmset\", \"hsetnx\", \"psetex\", \"setex\": offset = 3 default: return }",
      "for i := offset; i < len(resp.Array); i += 2 { r := resp.Array[i] if uint32(len(r.Text)) < cfg.Threshold { continue } if bytes.HasPrefix(r.Text, cpsHdrs[cfg.Algorithm]) { continue } r.Text = f.compress(r.Text, cfg.Algorithm) resp.Array[i] = r }"] ∧
    Gen.Filters.compressDecompress =
      ["switch resp.Type { case Integer, Error: return case Array: for idx, r := range resp.Array { f.Decompress(&r) resp.Array[idx] = r } default: if dst, err := f.decompress(resp.Text); err == nil { resp.Text = dst } }"] ∧
    Gen.Filters.compress =
      ["b := newBuffer()",
      "defer b.Close()",
      "w, err := compressor.NewWriter(algorithm.String(), b)",
      "if err != nil { return src }",
      "b.Write(cpsHdrs[algorithm])",
      "if _, err := w.Write(src); err != nil { w.Close() return src }",
      "w.Close()",
      "if b.Len() >= len(src) { return src }",
      "n := copy(src, b.Bytes())",
      "return src[:n]"] ∧
    Gen.Filters.decompress =
      ["if len(src) < cpsHdrLen { return nil, errMissingCpsHdr }",
      "if !bytes.Equal([]byte(cpsMagicNumber), src[:len(cpsMagicNumber)]) { return nil, errMissingCpsMagicNumber }",
      "algorithm, ok := redis.Compression_Algorithm_name[int32(src[len(cpsMagicNumber)])]",
      "if !ok { return nil, errInvalidCpsAlgorithm }",
      "if !bytes.Equal(CRLF, src[len(cpsMagicNumber)+1:cpsHdrLen]) { return nil, errMissingCpsHdr }",
      "br := newReader()",
      "defer br.Close()",
      "r, err := compressor.NewReader(algorithm, br)",
      "if err != nil { return nil, errUnsupportedCpsAlgorithm }",
      "br.Reset(src[cpsHdrLen:])",
      "b := newBuffer()",
      "defer b.Close()",
      "_, err = b.ReadFrom(r)",
      "if err != nil { return nil, err }",
      "dst := make([]byte, b.Len())",
      "copy(dst, b.Bytes())",
      "return dst, nil"] := by
  refine ⟨rfl, rfl, rfl, rfl, rfl⟩

end SamVerif.Props.C13

#print axioms SamVerif.Props.C13.stored_is_original_or_frame
#print axioms SamVerif.Props.C13.read_back
#print axioms SamVerif.Props.C13.resend_idempotent
#print axioms SamVerif.Props.C13.read_back_general
#print axioms SamVerif.Props.C13.banned_rejected_locally
#print axioms SamVerif.Props.C13.positions_and_guards
#print axioms SamVerif.Props.C13.code_matches_model
