/-
C12 — key → slot equals the Redis Cluster specification.

`Gen.Crc.*` is regenerated from /repo's source on every run (table, `crc16`,
`hashtag`, the slot mask in `chooseHost`); `Spec.Crc.*` is the bitwise
CRC16/XMODEM and the hash-tag rule of the Redis Cluster specification.
Every theorem is for all keys (any bytes, any length).
-/
import SamVerif.Proofs.Crc
import SamVerif.Proofs.Hashtag
namespace SamVerif.Props.C12
open SamVerif

/-- The proxy's table-driven CRC equals bitwise CRC16/XMODEM for every key. -/
theorem crc16_eq_spec (key : List UInt8) : Gen.Crc.crc16 key = Spec.Crc.crc key := by
  unfold Gen.Crc.crc16 Spec.Crc.crc
  simp only
  have hstep : (fun (crc : BitVec 16) (b : UInt8) =>
      ((crc <<< 8) &&& 65280#16) ^^^
        (Gen.Crc.tab.getD (((crc >>> 8) &&& 255#16) ^^^ (b.toBitVec.setWidth 16)).toNat 0#16))
      = (fun c b => Spec.Crc.byteStep c b.toBitVec) := by
    funext c b; exact Proofs.Crc.step_eq c b.toBitVec
  rw [hstep]

/-- The proxy's hash tag is the specification's hash tag for every key and every
placement of `{` and `}`. -/
theorem hashtag_eq_spec (key : List UInt8) : Gen.Crc.hashtag key = Spec.Crc.hashtag key := by
  unfold Gen.Crc.hashtag Spec.Crc.hashtag
  simp only
  have hopen := Proofs.Hashtag.scan_eq key 0x7b key.length 0 (by omega) (by omega)
  have e1 : (123#8 : BitVec 8) = (0x7b : UInt8).toBitVec := by decide
  have e2 : (125#8 : BitVec 8) = (0x7d : UInt8).toBitVec := by decide
  rw [e1, e2, hopen]
  simp only [List.drop_zero, Nat.zero_add]
  generalize hi : (key.takeWhile (· != 0x7b)).length = i
  have hsum := Proofs.Hashtag.takeWhile_length_add_dropWhile (· != 0x7b) key
  have hdrop := Proofs.Hashtag.dropWhile_eq_drop (· != 0x7b) key
  rw [hi] at hsum hdrop
  rw [hdrop]
  by_cases hin : i = key.length
  · -- no '{'
    subst hin
    simp
  · have hlt : i < key.length := by
      have : (key.drop i).length = key.length - i := by simp
      omega
    have hne : (i == key.length) = false := by simp [hin]
    simp only [hne, Bool.false_eq_true, ↓reduceIte]
    rw [List.drop_eq_getElem_cons hlt]
    simp only
    have hclose := Proofs.Hashtag.scan_eq key 0x7d (key.length - (i+1)) (i+1) rfl (by omega)
    rw [hclose]
    generalize hrest : key.drop (i+1) = rest
    have hrl : rest.length = key.length - (i+1) := by rw [← hrest]; simp
    generalize htag : rest.takeWhile (· != 0x7d) = tag
    have htl : tag.length ≤ rest.length := by
      rw [← htag]; exact (List.takeWhile_sublist _).length_le
    have htake : rest.take tag.length = tag := by
      rw [← htag]; exact Proofs.Hashtag.take_takeWhile_length _ _
    by_cases c1 : tag.length = rest.length
    · have : (i + 1 + tag.length == key.length) = true := by simp; omega
      rw [if_pos (by simp [this]), if_pos c1]
    · have n1 : (i + 1 + tag.length == key.length) = false := by simp; omega
      by_cases c2 : tag = []
      · subst c2; simp [c1]
      · have n2 : (i + 1 + tag.length == i + 1) = false := by
          have : tag.length ≠ 0 := by
            intro h; exact c2 (List.eq_nil_of_length_eq_zero h)
          simp; omega
        simp only [n1, n2, Bool.or_self, Bool.false_eq_true, ↓reduceIte, c1, c2]
        rw [Proofs.Hashtag.slice_drop_take, hrest, htake]

/-- `hash & (slotNum-1)` is reduction modulo 16384. -/
theorem slot_eq_spec (key : List UInt8) : Gen.Crc.slotOf key = Spec.Crc.slot key := by
  unfold Gen.Crc.slotOf Spec.Crc.slot
  rw [crc16_eq_spec, hashtag_eq_spec]
  simp only [BitVec.toNat_and, BitVec.toNat_ofNat]
  exact Nat.and_two_pow_sub_one_eq_mod _ 14

/-- The slot is always a valid index of the 16384-entry routing table. -/
theorem slot_lt (key : List UInt8) : Gen.Crc.slotOf key < Gen.Crc.slotNum := by
  rw [slot_eq_spec]; unfold Spec.Crc.slot Gen.Crc.slotNum; omega

/-- Keys that share a hash tag are routed by the same slot. -/
theorem same_tag_same_slot (k1 k2 : List UInt8)
    (h : Spec.Crc.hashtag k1 = Spec.Crc.hashtag k2) : Gen.Crc.slotOf k1 = Gen.Crc.slotOf k2 := by
  rw [slot_eq_spec, slot_eq_spec]; unfold Spec.Crc.slot; rw [h]

/-- A key `prefix{tag}suffix` with a non-empty tag free of `{`/`}` in its prefix
and tag is routed exactly like the bare tag. -/
theorem tagged_key_routes_as_tag (pre tag suf : List UInt8)
    (hpre : ∀ x ∈ pre, x ≠ 0x7b) (htag : ∀ x ∈ tag, x ≠ 0x7d) (hne : tag ≠ []) :
    Gen.Crc.slotOf (pre ++ [0x7b] ++ tag ++ [0x7d] ++ suf) = (Spec.Crc.crc tag).toNat % 16384 := by
  rw [slot_eq_spec]
  unfold Spec.Crc.slot
  congr 2
  unfold Spec.Crc.hashtag
  have h1 : (pre ++ [0x7b] ++ tag ++ [0x7d] ++ suf).dropWhile (· != 0x7b)
      = 0x7b :: (tag ++ [0x7d] ++ suf) := by
    simp only [List.append_assoc]
    rw [List.dropWhile_append_of_pos (by intro x hx; simpa using hpre x hx)]
    simp
  rw [h1]
  simp only
  have h2 : (tag ++ [0x7d] ++ suf).takeWhile (· != 0x7d) = tag := by
    simp only [List.append_assoc]
    rw [List.takeWhile_append_of_pos (by intro x hx; simpa using htag x hx)]
    simp
  rw [h2]
  have : ¬ tag.length = (tag ++ [0x7d] ++ suf).length := by simp
  simp [hne]

/-! Non-vacuity / check values -/

/-- The standard check value of CRC16/XMODEM: "123456789" ↦ 0x31C3. -/
example : Gen.Crc.crc16 [0x31,0x32,0x33,0x34,0x35,0x36,0x37,0x38,0x39] = 0x31c3#16 := by decide +kernel
example : Spec.Crc.crc [0x31,0x32,0x33,0x34,0x35,0x36,0x37,0x38,0x39] = 0x31c3#16 := by decide +kernel
/-- "foo{bar}baz" has tag "bar"; "{}x" and "a{b" are their own tags. -/
example : Gen.Crc.hashtag [0x66,0x6f,0x6f,0x7b,0x62,0x61,0x72,0x7d,0x62,0x61,0x7a] = [0x62,0x61,0x72] := by rw [hashtag_eq_spec]; decide
example : Gen.Crc.hashtag [0x7b,0x7d,0x78] = [0x7b,0x7d,0x78] := by rw [hashtag_eq_spec]; decide
example : Gen.Crc.hashtag [0x61,0x7b,0x62] = [0x61,0x7b,0x62] := by rw [hashtag_eq_spec]; decide
/-- first `{`, first `}` after it: "{a}{b}" ↦ "a";  "}{a}" ↦ "a";  "{{a}}" ↦ "{a" -/
example : Spec.Crc.hashtag [0x7b,0x61,0x7d,0x7b,0x62,0x7d] = [0x61] := by decide
example : Spec.Crc.hashtag [0x7d,0x7b,0x61,0x7d] = [0x61] := by decide
example : Spec.Crc.hashtag [0x7b,0x7b,0x61,0x7d,0x7d] = [0x7b,0x61] := by decide

end SamVerif.Props.C12

#print axioms SamVerif.Props.C12.crc16_eq_spec
#print axioms SamVerif.Props.C12.hashtag_eq_spec
#print axioms SamVerif.Props.C12.slot_eq_spec
#print axioms SamVerif.Props.C12.slot_lt
#print axioms SamVerif.Props.C12.same_tag_same_slot
#print axioms SamVerif.Props.C12.tagged_key_routes_as_tag
