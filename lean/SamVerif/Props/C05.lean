/-
C05 — TCP relay: bytes unmodified, in order, both ways, with half-close.

PARTIAL by nature: the substance of this property lives in io.CopyBuffer, net.TCPConn and the
kernel; the theorems cover the glue (two copy loops, half-close order, independence of the two
directions) for every chunking and every interleaving. The weight of the check is on the
differential run over real sockets.
-/
import SamVerif.Model.Relay
import SamVerif.Gen.Relay
namespace SamVerif.Props.C05
open SamVerif.Relay

/-- conservation: what was delivered plus what sits in the buffer is exactly the prefix of the
sent stream that has been read -/
def Dir.Inv (d : Dir) : Prop :=
  d.delivered ++ d.buf = d.sent.take d.pos ∧ d.pos ≤ d.sent.length ∧ (d.eof = true → d.delivered = d.sent ∧ d.srcClosed = true)

theorem dir_init_inv : Dir.Inv Dir.init := by simp [Dir.Inv, Dir.init]

theorem dir_step_inv (d d' : Dir) (l : Label) (h : Dir.Inv d) (hs : d.step l = some d') : Dir.Inv d' := by
  obtain ⟨h1, h2, h3⟩ := h
  cases l with
  | send data =>
    simp only [Dir.step] at hs
    split at hs
    · simp at hs
    · rename_i hc
      simp only [Option.some.injEq] at hs; subst hs
      refine ⟨?_, ?_, ?_⟩
      · simp only; rw [List.take_append_of_le_length h2]; exact h1
      · simp only [List.length_append]; omega
      · intro he; have := (h3 he).2; simp at hc; rw [this] at hc; simp at hc
  | close =>
    simp only [Dir.step, Option.some.injEq] at hs; subst hs
    exact ⟨h1, h2, fun he => ⟨(h3 he).1, rfl⟩⟩
  | read n =>
    simp only [Dir.step] at hs
    split at hs
    · rename_i hc
      obtain ⟨hb, hn0, hnb, hpn, he⟩ := hc
      simp only [Option.some.injEq] at hs; subst hs
      refine ⟨?_, hpn, ?_⟩
      · simp only
        rw [hb, List.append_nil] at h1
        rw [h1]
        rw [← List.take_add]
      · intro he'; simp only at he'; rw [he] at he'; simp at he'
    · simp at hs
  | write =>
    simp only [Dir.step] at hs
    split at hs
    · simp at hs
    · rename_i hne
      simp only [Option.some.injEq] at hs; subst hs
      refine ⟨by simpa using h1, h2, ?_⟩
      intro he
      have := h3 he
      -- after EOF the buffer is empty: delivered = sent and delivered ++ buf is a prefix of sent
      have hl := congrArg List.length h1
      simp only [List.length_append, List.length_take] at hl
      have : d.buf = [] := by
        have hd := this.1
        rw [hd] at hl
        apply List.eq_nil_of_length_eq_zero
        omega
      exact absurd this hne
  | fin =>
    simp only [Dir.step] at hs
    split at hs
    · rename_i hc
      obtain ⟨hcl, hp, hb, he⟩ := hc
      simp only [Option.some.injEq] at hs; subst hs
      refine ⟨h1, h2, fun _ => ⟨?_, hcl⟩⟩
      rw [hb, List.append_nil, hp, List.take_length] at h1
      exact h1
    · simp at hs

def State.Inv (s : State) : Prop := Dir.Inv s.a2b ∧ Dir.Inv s.b2a

/-- **Relay correctness for every chunking and every interleaving.** After any schedule of
sends, half-closes and copy-loop steps of the two directions, each side has received exactly a
prefix of what the other side sent — nothing added, dropped, duplicated or reordered — and a
side that sees end-of-stream has received everything the other side sent before half-closing. -/
theorem relay_stream (sched : List (Bool × Label)) (s : State) (h : run State.init sched = some s) :
    (∃ k, s.a2b.delivered ++ s.a2b.buf = s.a2b.sent.take k) ∧
    (∃ k, s.b2a.delivered ++ s.b2a.buf = s.b2a.sent.take k) ∧
    (s.a2b.eof = true → s.a2b.delivered = s.a2b.sent) ∧
    (s.b2a.eof = true → s.b2a.delivered = s.b2a.sent) := by
  have key : ∀ (sched : List (Bool × Label)) (s0 s : State), State.Inv s0 → run s0 sched = some s → State.Inv s := by
    intro sched
    induction sched with
    | nil => intro s0 s h0 hr; simp only [run, Option.some.injEq] at hr; subst hr; exact h0
    | cons x xs ih =>
      intro s0 s h0 hr
      obtain ⟨d, l⟩ := x
      simp only [run] at hr
      cases hst : step s0 d l with
      | none => simp [hst] at hr
      | some s1 =>
        simp only [hst] at hr
        apply ih s1 s _ hr
        unfold step at hst
        cases d
        · simp only [Bool.false_eq_true, ↓reduceIte, Option.map_eq_some_iff] at hst
          obtain ⟨d', hd', hs1⟩ := hst
          subst hs1
          exact ⟨h0.1, dir_step_inv _ _ _ h0.2 hd'⟩
        · simp only [↓reduceIte, Option.map_eq_some_iff] at hst
          obtain ⟨d', hd', hs1⟩ := hst
          subst hs1
          exact ⟨dir_step_inv _ _ _ h0.1 hd', h0.2⟩
  have hinv := key sched State.init s ⟨dir_init_inv, dir_init_inv⟩ h
  exact ⟨⟨_, hinv.1.1⟩, ⟨_, hinv.2.1⟩, fun he => (hinv.1.2.2 he).1, fun he => (hinv.2.2.2 he).1⟩

/-- **The two directions are independent**: a step of one direction leaves the other direction
untouched, so one side finishing (or stalling) never disables or alters the opposite flow. -/
theorem half_close_independent (s s' : State) (l : Label) :
    (step s true l = some s' → s'.b2a = s.b2a) ∧ (step s false l = some s' → s'.a2b = s.a2b) := by
  constructor
  · intro h; simp only [step, ↓reduceIte, Option.map_eq_some_iff] at h; obtain ⟨d, _, hs⟩ := h; subst hs; rfl
  · intro h; simp only [step, Bool.false_eq_true, ↓reduceIte, Option.map_eq_some_iff] at h; obtain ⟨d, _, hs⟩ := h; subst hs; rfl

/-- **A finished sender is always drained**: while a direction whose sender has half-closed has
not yet delivered end-of-stream, some copy-loop step of that direction is enabled — whatever
state the other direction is in. (Each such step decreases `2·(unread) + |buffer ≠ ∅| + 1`, so
the direction completes after finitely many of its own steps.) -/
theorem finished_sender_progress (d : Dir) (h : Dir.Inv d) (hc : d.srcClosed = true) (he : d.eof = false) :
    (d.step .write).isSome ∨ (d.step .fin).isSome ∨ (d.step (.read (min bufSize (d.sent.length - d.pos)))).isSome := by
  by_cases hb : d.buf = []
  · by_cases hp : d.pos = d.sent.length
    · right; left; simp [Dir.step, hc, hp, hb, he]
    · right; right
      have h2 := h.2.1
      have : 0 < min bufSize (d.sent.length - d.pos) := by simp [bufSize]; omega
      simp only [Dir.step, hb, he, true_and, and_true]
      have c2 : min bufSize (d.sent.length - d.pos) ≤ bufSize := Nat.min_le_left _ _
      have c3 : d.pos + min bufSize (d.sent.length - d.pos) ≤ d.sent.length := by
        have := Nat.min_le_right bufSize (d.sent.length - d.pos); omega
      simp [this, c2, c3]
  · left; simp [Dir.step, hb]

/-! Non-vacuity: client sends 3 bytes in two reads and half-closes while the backend is still sending -/
example : (run State.init [(true, .send [1,2,3]), (false, .send [9]), (true, .read 2), (true, .close), (true, .write),
    (true, .read 1), (false, .read 1), (true, .write), (true, .fin), (false, .write)]).map
      (fun s => (s.a2b.delivered, s.a2b.eof, s.b2a.delivered, s.b2a.eof)) = some ([1,2,3], true, [9], false) := by decide

/-- **The code the model was written against.** The statements of the modelled functions,
regenerated from the current source on every run, are the ones the model was written against;
any edit to one of them makes this obligation fail and starts a search for a failing input. -/
theorem code_matches_model :
    Gen.Relay.handleConn =
      ["cconn := netutil.New(conn)",
      "cconn.SetReadTimeout(*p.cfg.IdleTimeout)",
      "healthyHosts := p.hostSet.Healthy()",
      "if len(healthyHosts) == 0 { p.Warnf(\"No available host\") return }",
      "host := p.lb.PickHost(healthyHosts)",
      "sconn, err := p.dial(host)",
      "if err != nil { p.Warnf(\"Dial to host[%s] failed: %v\", host, err) p.stats.Upstream.CxConnectFail.Inc() return }",
      "defer sconn.Close()",
      "host.IncConnCount()",
      "p.stats.Upstream.CxTotal.Inc()",
      "p.stats.Upstream.CxActive.Inc()",
      "defer func() { host.DecConnCount() p.stats.Upstream.CxDestroyTotal.Inc() p.stats.Upstream.CxActive.Dec() }()",
      "done := make(chan struct{})",
      "finished := make(chan struct{})",
      "defer close(finished)",
      "go func() { select { case <-host.WaitRemoved(): p.Infof(\"host: %s removed, conn will close...\", host.Addr) sconn.Close() cconn.Close() return case <-p.quit: sconn.Close() cconn.Close() return case <-finished: return } }()",
      "go func() { p.pipeConn(cconn, sconn) close(done) }()",
      "p.pipeConn(sconn, cconn)",
      "<-done"] ∧
    Gen.Relay.pipeConn =
      ["_, err := copyBuffer(dst, src, nil)",
      "if err == nil { err = errors.New(\"read EOF\") }",
      "p.Debugf(\"%s -> %s -> %s closed: %s\", src.RemoteAddr(), p.Address(), dst.RemoteAddr(), err)",
      "if err := closeWrite(dst); err != nil { dst.Close() }",
      "if err := closeRead(src); err != nil { src.Close() }"] ∧
    Gen.Relay.copyBuffer =
      ["if len(buf) != 0 { return io.CopyBuffer(dst, src, buf) }",
      "buf = getBuffer()",
      "written, err = io.CopyBuffer(dst, src, buf)",
      "putBuffer(buf)",
      "return"] ∧
    Gen.Relay.closeRead =
      ["if closer, ok := conn.(closeReader); ok { return closer.CloseRead() }",
      "return nil"] ∧
    Gen.Relay.closeWrite =
      ["if closer, ok := conn.(closeWriter); ok { return closer.CloseWrite() }",
      "return nil"] ∧
    Gen.Relay.dial =
      ["rawConn, err := dialTimeout(\"tcp\", host.Addr, *p.cfg.ConnectTimeout)",
      "if err != nil { if _, ok := err.(interface { Timeout() bool }); ok { p.stats.Upstream.CxConnectTimeout.Inc() } return nil, err }",
      "conn := netutil.New(rawConn)",
      "conn.SetReadTimeout(*p.cfg.IdleTimeout)",
      "stats := &netutil.Stats{ ReadTotal: p.stats.Upstream.CxRxBytesTotal, WriteTotal: p.stats.Upstream.CxTxBytesTotal, Duration: p.stats.Upstream.CxLengthSec, }",
      "conn.SetStats(stats)",
      "conn.SetInBytesCounter(host.ConnBytesInCounter())",
      "conn.SetOutBytesCounter(host.ConnBytesOutCounter())",
      "return conn, nil"] := by
  refine ⟨rfl, rfl, rfl, rfl, rfl, rfl⟩

end SamVerif.Props.C05

#print axioms SamVerif.Props.C05.relay_stream
#print axioms SamVerif.Props.C05.half_close_independent
#print axioms SamVerif.Props.C05.finished_sender_progress
#print axioms SamVerif.Props.C05.code_matches_model
