/-
C16 — discovery subscriptions track the dependency set and survive stream failures.

`Sub.step` is the labelled transition system of config/discovery.go's svcDiscoveryClient as
repaired (6c6850f: callers never block — pending changes in an unbounded slice under the lock;
a349465: only the latest pending change of a service is sent).  The statements of every function
involved are regenerated from the source on every run and compared with what the model was
written against (`code_matches_model`); behaviour is tied by the differential run of the real
client against scripted streams under a forced schedule.
-/
import SamVerif.Proofs.Sub
import SamVerif.Gen.Sub
namespace SamVerif.Props.C16
open SamVerif.Sub

/-- **Tracking.** In every reachable state — any interleaving of caller, run loop, sender and
receiver steps, with stream creation, Send and Recv failing wherever they like — whenever a
stream is up with nothing pending and nothing in flight, the services subscribed on it
(subscribe requests minus unsubscribe requests sent on that stream) are exactly the current
dependency set. -/
theorem tracks_dependencies (ls : List Label) (s : St) (h : run {} ls = some s)
    (hidle : s.phase = .idle) (hp : s.pending = []) : ∀ k, s.server k = s.subscribed k := by
  have hi := inv_run ls _ s inv_init h
  intro k
  have := hi.tracks (applyOps s.server s.pending) (by simp [target, hidle]) k
  simpa [hp, applyOps] using this

/-- **Bounded catch-up, sender parked.** From any reachable state with the stream up and the
sender parked, one request brings the server's set to the dependency set (if no further change
arrives meanwhile). -/
theorem catches_up_in_one_message (ls : List Label) (s : St) (h : run {} ls = some s)
    (hidle : s.phase = .idle) (hp : s.pending ≠ []) :
    ∃ s', run s [.take, .sent] = some s' ∧ s'.phase = .idle ∧ s'.pending = [] ∧
      (∀ k, s'.subscribed k = s.subscribed k) ∧ ∀ k, s'.server k = s.subscribed k := by
  have hi := inv_run ls _ s inv_init h
  refine ⟨{ s with phase := .idle, pending := [], server := applyMsgSU s.server (mkMsg s.pending) }, ?_, rfl, rfl, fun _ => rfl, ?_⟩
  · simp [run, step, hidle, hp]
  · intro k
    show applyMsgSU s.server (mkMsg s.pending) k = s.subscribed k
    rw [applyMsgSU_mkMsg]
    exact hi.tracks _ (by simp [target, hidle]) k

/-- **Bounded catch-up, request in flight.** With a request in flight, at most two requests. -/
theorem catches_up_in_two_messages (ls : List Label) (s : St) (m : Msg) (h : run {} ls = some s)
    (hsend : s.phase = .sending m) :
    (s.pending = [] → ∃ s', run s [.sent] = some s' ∧ s'.phase = .idle ∧ ∀ k, s'.server k = s.subscribed k) ∧
    (s.pending ≠ [] → ∃ s', run s [.sent, .take, .sent] = some s' ∧ s'.phase = .idle ∧ s'.pending = [] ∧
      ∀ k, s'.server k = s.subscribed k) := by
  have hi := inv_run ls _ s inv_init h
  constructor
  · intro hp
    refine ⟨{ s with phase := .idle, server := applyMsgSU s.server m }, by simp [run, step, hsend], rfl, ?_⟩
    intro k
    have := hi.tracks (applyOps (applyMsgSU s.server m) s.pending) (by simp [target, hsend]) k
    simpa [hp, applyOps] using this
  · intro hp
    refine ⟨{ s with phase := .idle, pending := [], server := applyMsgSU (applyMsgSU s.server m) (mkMsg s.pending) }, ?_, rfl, rfl, ?_⟩
    · simp [run, step, hsend, hp]
    · intro k
      show applyMsgSU (applyMsgSU s.server m) (mkMsg s.pending) k = s.subscribed k
      rw [applyMsgSU_mkMsg]
      exact hi.tracks _ (by simp [target, hsend]) k

/-- Every request the sender builds means the same under both readings of the protocol
(subscribe-then-unsubscribe, unsubscribe-then-subscribe): no service is in both lists. -/
theorem request_unambiguous (server : NSet) (pending : Ops) (k : Nat) :
    applyMsgSU server (mkMsg pending) k = applyMsgUS server (mkMsg pending) k ∧
    ¬ (k ∈ (mkMsg pending).subs ∧ k ∈ (mkMsg pending).unsubs) :=
  ⟨by rw [applyMsgSU_mkMsg, applyMsgUS_mkMsg], mkMsg_disjoint pending k⟩

/-- **Callers never block**: Subscribe and Unsubscribe are enabled in every state — stream
down, being established, sender busy — however many changes are already pending. -/
theorem caller_never_blocks (s : St) (n : Nat) : (step s (.sub n)).isSome ∧ (step s (.unsub n)).isSome := by
  constructor <;> simp only [step] <;> split <;> rfl

/-- **No deadlock**: in every state the run loop has an enabled step of its own. -/
theorem run_loop_never_stuck (s : St) :
    (step s .connect).isSome ∨ (step s .resubSent).isSome ∨ (step s .sent).isSome ∨ (step s .recvFail).isSome := by
  cases hp : s.phase with
  | down => left; simp [step, hp]
  | snap l => right; left; simp [step, hp]
  | idle => right; right; right; simp [step, hp]
  | sending m => right; right; left; simp [step, hp]

/-- after any failure the client is back where a new stream can be created, with the
dependency set intact: it never stops retrying and loses nothing while the stream is down -/
theorem failure_returns_to_retry (s s' : St) (l : Label)
    (hl : l = .resubFail ∨ l = .sendFail ∨ l = .recvFail) (h : step s l = some s') :
    s'.phase = .down ∧ s'.subscribed = s.subscribed ∧ (step s' .connect).isSome := by
  rcases hl with rfl | rfl | rfl <;> simp only [step] at h <;>
    (cases hp : s.phase <;> simp [hp] at h <;> subst h <;> simp [step])

def recoveryLabel (l : Label) : Prop := l = .connect ∨ l = .resubSent ∨ l = .take ∨ l = .sent

/-- **Recovery from every reachable state.** Whatever has happened — any number of failed stream
creations, failed resubscriptions, failed sends and receives, at any point, with any changes made
by callers in between — from the state reached there is a run of at most four steps of the run
loop alone (create the stream, resubscribe, take the pending batch, send it; no step of a caller
is needed, none fails) after which a stream is up, nothing is pending and the services subscribed
on the stream are exactly the dependency set. Together with `run_loop_never_stuck` (the loop
always has a step) and `failure_returns_to_retry`: the client never ends up in a state from which
it cannot get back in sync. -/
theorem recovers_from_every_state (ls : List Label) (s : St) (h : run {} ls = some s) :
    ∃ (rec : List Label) (s' : St), rec.length ≤ 4 ∧ (∀ l ∈ rec, recoveryLabel l) ∧ run s rec = some s' ∧
      s'.phase = .idle ∧ s'.pending = [] ∧ (∀ k, s'.subscribed k = s.subscribed k) ∧ ∀ k, s'.server k = s.subscribed k := by
  have hi := inv_run ls _ s inv_init h
  cases hp : s.phase with
  | idle =>
    by_cases hpe : s.pending = []
    · refine ⟨[], s, by simp, by simp, rfl, hp, hpe, fun _ => rfl, ?_⟩
      intro k
      have := hi.tracks (applyOps s.server s.pending) (by simp [target, hp]) k
      simpa [hpe, applyOps] using this
    · refine ⟨[.take, .sent], { s with phase := .idle, pending := [], server := applyMsgSU s.server (mkMsg s.pending) },
        by simp, ?_, by simp [run, step, hp, hpe], rfl, rfl, fun _ => rfl, ?_⟩
      · intro l hl; simp only [List.mem_cons, List.mem_nil_iff, or_false] at hl
        rcases hl with e | e <;> subst e <;> simp [recoveryLabel]
      · intro k
        show applyMsgSU s.server (mkMsg s.pending) k = s.subscribed k
        rw [applyMsgSU_mkMsg]
        exact hi.tracks _ (by simp [target, hp]) k
  | sending m =>
    by_cases hpe : s.pending = []
    · refine ⟨[.sent], { s with phase := .idle, server := applyMsgSU s.server m }, by simp, ?_, by simp [run, step, hp], rfl, hpe, fun _ => rfl, ?_⟩
      · intro l hl; simp only [List.mem_singleton] at hl; subst hl; simp [recoveryLabel]
      · intro k
        have := hi.tracks (applyOps (applyMsgSU s.server m) s.pending) (by simp [target, hp]) k
        simpa [hpe, applyOps] using this
    · refine ⟨[.sent, .take, .sent],
        { s with phase := .idle, pending := [], server := applyMsgSU (applyMsgSU s.server m) (mkMsg s.pending) },
        by simp, ?_, by simp [run, step, hp, hpe], rfl, rfl, fun _ => rfl, ?_⟩
      · intro l hl; simp only [List.mem_cons, List.mem_nil_iff, or_false] at hl
        rcases hl with e | e | e <;> subst e <;> simp [recoveryLabel]
      · intro k
        show applyMsgSU (applyMsgSU s.server m) (mkMsg s.pending) k = s.subscribed k
        rw [applyMsgSU_mkMsg]
        exact hi.tracks _ (by simp [target, hp]) k
  | snap l =>
    by_cases hpe : s.pending = []
    · refine ⟨[.resubSent], { s with phase := .idle, server := memSet l }, by simp, ?_, by simp [run, step, hp], rfl, hpe, fun _ => rfl, ?_⟩
      · intro x hx; simp only [List.mem_singleton] at hx; subst hx; simp [recoveryLabel]
      · intro k
        have := hi.tracks (applyOps (memSet l) s.pending) (by simp [target, hp]) k
        simpa [hpe, applyOps] using this
    · refine ⟨[.resubSent, .take, .sent],
        { s with phase := .idle, pending := [], server := applyMsgSU (memSet l) (mkMsg s.pending) },
        by simp, ?_, by simp [run, step, hp, hpe], rfl, rfl, fun _ => rfl, ?_⟩
      · intro x hx; simp only [List.mem_cons, List.mem_nil_iff, or_false] at hx
        rcases hx with e | e | e <;> subst e <;> simp [recoveryLabel]
      · intro k
        show applyMsgSU (memSet l) (mkMsg s.pending) k = s.subscribed k
        rw [applyMsgSU_mkMsg]
        exact hi.tracks _ (by simp [target, hp]) k
  | down =>
    refine ⟨[.connect, .resubSent],
      { s with phase := .idle, pending := [], server := memSet (s.names.filter s.subscribed) },
      by simp, ?_, by simp [run, step, hp], rfl, rfl, fun _ => rfl, ?_⟩
    · intro x hx; simp only [List.mem_cons, List.mem_nil_iff, or_false] at hx
      rcases hx with e | e <;> subst e <;> simp [recoveryLabel]
    · intro k
      show memSet (s.names.filter s.subscribed) k = s.subscribed k
      unfold memSet
      cases hk : s.subscribed k with
      | true => simp [List.mem_filter, hk, hi.support k hk]
      | false => simp [List.mem_filter, hk]

/-- more than sixteen changes while no stream exists, then a stream: tracked (non-vacuity, and
the shape of F-16a) -/
example :
    let ls := ((List.range 20).map Label.sub) ++ [.connect, .resubSent, .unsub 3, .sub 40, .take, .sent]
    ∃ s, run {} ls = some s ∧ s.phase = .idle ∧ s.pending = [] ∧
      (List.range 50).all (fun k => s.server k == s.subscribed k) = true ∧ s.server 19 = true ∧ s.server 3 = false :=
  ⟨_, rfl, rfl, rfl, by decide, by decide, by decide⟩

/-- **The old batching was ambiguous (F-16b)**: before a349465 `Unsubscribe x; Subscribe x` and
`Subscribe x; Unsubscribe x` behind a busy sender produced the same request, so no reading of a
request by the server can track both histories. -/
theorem old_batching_ambiguous :
    mkMsgOld [(1, false), (1, true)] = mkMsgOld [(1, true), (1, false)] ∧
    ¬ ∃ f : NSet → Msg → NSet, ∀ (s : NSet) (ops : Ops) (k : Nat), f s (mkMsgOld ops) k = applyOps s ops k := by
  refine ⟨by decide, ?_⟩
  rintro ⟨f, hf⟩
  have h1 := hf (fun _ => false) [(1, false), (1, true)] 1
  have h2 := hf (fun _ => false) [(1, true), (1, false)] 1
  have he : mkMsgOld [(1, false), (1, true)] = mkMsgOld [(1, true), (1, false)] := by decide
  rw [he] at h1
  rw [h1] at h2
  simp [applyOps, upd] at h2

/-! ## tie to the code -/

/-- The statements of the client's functions (regenerated from the working tree on every
run) are the ones the model was written against: critical sections under `c.Lock()`, no
blocking operation inside them (the wake-up is a `select` with `default`), `takePending`
keeping only the latest change of a service, `resubscribe` clearing the pending changes in the
same critical section as the snapshot, and a retry loop that returns only when the context
is done. -/
theorem code_matches_model :
    Gen.Sub.subscribe =
      ["c.Lock()",
      "defer c.Unlock()",
      "_, ok := c.subscribed[svcName]",
      "if ok { return }",
      "c.subscribed[svcName] = struct{}{}",
      "c.addPendingLocked(svcName, true)"] ∧
    Gen.Sub.unsubscribe =
      ["c.Lock()",
      "defer c.Unlock()",
      "_, ok := c.subscribed[svcName]",
      "if !ok { return }",
      "delete(c.subscribed, svcName)",
      "c.addPendingLocked(svcName, false)"] ∧
    Gen.Sub.addPendingLocked =
      ["c.pending = append(c.pending, subscriptionChange{svcName, subscribe})",
      "select { case c.notify <- struct{}{}: default: }"] ∧
    Gen.Sub.takePending =
      ["c.Lock()",
      "pending := c.pending",
      "c.pending = nil",
      "c.Unlock()",
      "latest := make(map[string]int, len(pending))",
      "for i, change := range pending { latest[change.svcName] = i }",
      "for i, change := range pending { if latest[change.svcName] != i { continue } if change.subscribe { subscribed = append(subscribed, change.svcName) } else { unsubscribed = append(unsubscribed, change.svcName) } }",
      "return"] ∧
    Gen.Sub.resubscribe =
      ["c.Lock()",
      "svcNames := make([]string, 0, len(c.subscribed))",
      "for svcName := range c.subscribed { svcNames = append(svcNames, svcName) }",
      "c.pending = nil",
      "c.Unlock()",
      "if len(svcNames) == 0 { return nil }",
      "return stream.Send(svcNames, nil)"] ∧
    Gen.Sub.loopSend =
      ["for { select { case <-c.notify: case <-stop: return } subscribed, unsubscribed := c.takePending() if len(subscribed) == 0 && len(unsubscribed) == 0 { continue } err := stream.Send(subscribed, unsubscribed) if err != nil { logger.Warnf(\"Send to service %s discovery stream failed: %v\", c.scope, err) return } }"] ∧
    Gen.Sub.loopRecv =
      ["for { if err := stream.Recv(); err != nil { logger.Warnf(\"Recv from service %s stream failed: %v\", c.scope, err) return } }"] ∧
    Gen.Sub.runOnce =
      ["stream, err := c.newStream(ctx)",
      "if err != nil { logger.Warnf(\"Fail to create service %s discovery stream: %v\", c.scope, err) return }",
      "if err := c.resubscribe(stream); err != nil { logger.Warnf(\"Resubscribe services on %s discovery stream failed: %v\", c.scope, err) return }",
      "recvDone := make(chan struct{})",
      "defer func() { <-recvDone }()",
      "go func() { defer close(recvDone) c.loopRecv(stream) }()",
      "c.loopSend(stream, recvDone)"] ∧
    Gen.Sub.runLoop =
      ["jitter := 0.2",
      "baseInterval := time.Second",
      "for { c.run(ctx) select { case <-ctx.Done(): return default: } interval := time.Duration((1 + (2*rand.Float64()-1)*jitter) * float64(baseInterval)) logger.Warnf(\"The discovery loop of service %s terminated unexpectedly, retry after %s\", c.scope, interval) t := time.NewTimer(interval) select { case <-t.C: case <-ctx.Done(): return } }"] := by
  refine ⟨rfl, rfl, rfl, rfl, rfl, rfl, rfl, rfl, rfl⟩

end SamVerif.Props.C16

#print axioms SamVerif.Props.C16.tracks_dependencies
#print axioms SamVerif.Props.C16.catches_up_in_one_message
#print axioms SamVerif.Props.C16.catches_up_in_two_messages
#print axioms SamVerif.Props.C16.request_unambiguous
#print axioms SamVerif.Props.C16.caller_never_blocks
#print axioms SamVerif.Props.C16.run_loop_never_stuck
#print axioms SamVerif.Props.C16.failure_returns_to_retry
#print axioms SamVerif.Props.C16.old_batching_ambiguous
#print axioms SamVerif.Props.C16.code_matches_model
#print axioms SamVerif.Props.C16.recovers_from_every_state
