/-
C09 — stop and drain always complete and release what they hold.

`Listener.step` is the life cycle of proc/listener.go as repaired:
  (F-09a c3fc390) Serve closes done on every return path, Stop only waits for a Serve that started
  (F-09b da662b2) the bound listener is published under the lock and quit/drain are re-checked
and the protocol handlers return once their connection is closed whatever the backends do:
  (F-09c c5dbe92) the session writer watches quit while waiting for a request's completion
  (F-09d baff886) the slot refresh watches quit while waiting for CLUSTER NODES
  (F-09e e64b695, F-09f a7cb271) stopping a TCP service closes both sides of every relay, half-closed ones included
The statements of all the functions involved are regenerated from the source on every run and
compared (`code_matches_model`); behaviour is tied by running real TCP and Redis processors
through scripted life cycles, with Stop/StopListen placed at pause points before the bind,
during bind retries, between bind and publication, and with connections open towards
responsive, silent and closed backends.
-/
import SamVerif.Proofs.Listener
import SamVerif.Gen.Listener
import SamVerif.Proofs.UpStop
import SamVerif.Proofs.ProcStop
import SamVerif.Gen.Session
import SamVerif.Proofs.RedirStop
import SamVerif.Proofs.TableReplace
import SamVerif.Gen.Upstream
namespace SamVerif.Props.C09
open SamVerif.Listener

def init (limit : Nat) : L := { limit := limit }

/-- **What Stop leaves behind.** In every reachable state in which Stop has returned — wherever
in the listener's life it was called: before Serve ran, before or during the bind, between the
bind and the publication of the listener, with connections open — the port is not held, the
registry is gone and no handler goroutine is left; Serve has returned or will return without
ever binding. -/
theorem stop_releases (limit : Nat) (ls : List Label) (s : L) (h : run (init limit) ls = some s)
    (hr : s.stopPc = .returned) :
    s.lnOpen = false ∧ s.reg = none ∧ s.handlers = [] ∧
    (s.serve = .returned ∨ s.serve = .notCalled ∨ s.serve = .entered) ∧ step s .checkOk = none := by
  have h1 := inv1_run ls _ s (inv1_init limit) h
  have h4 := inv4_run ls _ s (inv1_init limit) (inv4_init limit) h
  have hq : s.quit = true := h1.quitSet (by rw [hr]; intro h; cases h)
  have hreg : s.reg = none := h1.regGone.mpr (by simp [hr])
  have hserve : s.serve = .returned ∨ s.serve = .notCalled ∨ s.serve = .entered := by
    rcases h4.stopRet hr with hs | hd
    · rcases h1.sawStartedOk (by simp [hr]) hs with h | h | h
      · exact Or.inr (Or.inl h)
      · exact Or.inr (Or.inr h)
      · exact Or.inl h
    · exact Or.inl (h1.doneIff.mp hd)
  have hopen : s.lnOpen = false := by
    cases ho : s.lnOpen with
    | false => rfl
    | true =>
      rcases h1.openWhen ho with hb | hb <;> rcases hserve with h | h | h <;> rw [hb] at h <;> cases h
  have hh : s.handlers = [] := by
    rcases hserve with h | h | h
    · exact h1.noHandlersEnd h
    · exact h1.noHandlersEarly (Or.inl h)
    · exact h1.noHandlersEarly (Or.inr (Or.inl h))
  refine ⟨hopen, hreg, hh, hserve, ?_⟩
  simp [step, hq]

/-- steps of the listener's own goroutines and of the Stop call in progress (everything but the
environment: clients closing, Stop/Drain being called, the processor being started) -/
def internal : Label → Bool
  | .clientClose _ | .stopQuit | .drainClose | .serveEnter => false
  | _ => true

/-- **Stop is never stuck.** In every reachable state in which Stop has been called and has not
returned, Stop itself or one of the listener's goroutines has an enabled step — before the bind,
while the bind is retried, between bind and publication, in the accept loop, while handlers are
still running (their connections have been closed by Stop, so they return). -/
theorem stop_never_stuck (limit : Nat) (ls : List Label) (s : L) (h : run (init limit) ls = some s)
    (hc : s.stopPc ≠ .idle) (hr : s.stopPc ≠ .returned) : ∃ l, internal l = true ∧ (step s l).isSome = true := by
  have h1 := inv1_run ls _ s (inv1_init limit) h
  have h2 := inv2_run ls _ s (inv2_init limit) h
  have h4 := inv4_run ls _ s (inv1_init limit) (inv4_init limit) h
  have hq : s.quit = true := h1.quitSet hc
  cases hp : s.stopPc with
  | idle => exact absurd hp hc
  | returned => exact absurd hp hr
  | quitClosed => exact ⟨.stopTake, rfl, by simp [step, hp]⟩
  | regTaken => exact ⟨.stopLn, rfl, by simp [step, hp]⟩
  | lnClosed => exact ⟨.stopConns, rfl, by simp [step, hp]⟩
  | connsClosed =>
    by_cases hss : s.sawStarted = false
    · exact ⟨.stopWait, rfl, by simp [step, hp, hss]⟩
    · cases hsv : s.serve with
      | returned =>
        have := h1.doneIff.mpr hsv
        exact ⟨.stopWait, rfl, by simp [step, hp, this]⟩
      | notCalled =>
        exfalso
        have hsw : s.sawStarted = true := by
          cases hx : s.sawStarted with
          | true => rfl
          | false => exact absurd hx hss
        have hst := h4.sawStartedLe hsw
        exact (h1.startedIff.mp hst) hsv
      | entered => exact ⟨.seeQuit, rfl, by simp [step, hsv, hq]⟩
      | checked => exact ⟨.bindOk, rfl, by simp [step, hsv]⟩
      | bound => exact ⟨.publish, rfl, by simp [step, hsv]⟩
      | serving =>
        have hpub := h1.servingPub (Or.inl hsv)
        have hclosed : s.lnOpen = false := by
          cases ho : s.lnOpen with
          | false => rfl
          | true =>
            rcases h1.lnClosedByStop hq hpub ho with hx | hx
            · rw [hp] at hx; cases hx
            · rw [hp] at hx; cases hx.1
        exact ⟨.acceptFail, rfl, by simp [step, hsv, hclosed]⟩
      | waitConns =>
        cases hh : s.handlers with
        | nil => exact ⟨.connsDone, rfl, by simp [step, hsv, hh]⟩
        | cons x rest =>
          obtain ⟨id, b⟩ := x
          cases b with
          | false => exact ⟨.handlerAdd id, rfl, by
              have hreg : s.reg = none := h1.regGone.mpr (by simp [hp])
              simp [step, hh, hreg]⟩
          | true =>
            have hm : (id, true) ∈ s.handlers := by rw [hh]; exact List.mem_cons_self
            have hcl : id ∈ s.closed := by
              rcases h2 id hm with ⟨r, hreg, _⟩ | hcl | hx
              · have : s.reg = none := h1.regGone.mpr (by simp [hp])
                rw [this] at hreg; cases hreg
              · exact hcl
              · rcases hx.1 with hx1 | hx1 <;> rw [hp] at hx1 <;> cases hx1
            exact ⟨.handlerExit id, rfl, by simp [step, hm, hcl]⟩

/-- **Drain stops accepting.** Once StopListen has finished, no connection is accepted any
more — also when it ran before the listener was published. -/
theorem drain_stops_accepting (limit : Nat) (ls : List Label) (s : L) (h : run (init limit) ls = some s)
    (hd : s.drainPc = .finished) : step s .accept = none := by
  have h1 := inv1_run ls _ s (inv1_init limit) h
  have h4 := inv4_run ls _ s (inv1_init limit) (inv4_init limit) h
  have hdr : s.drain = true := h4.drainSet (by rw [hd]; intro h; cases h)
  simp only [step]
  by_cases hc : s.serve = .serving ∧ s.lnOpen = true
  · exfalso
    have := h4.lnClosedByDrain hdr (h1.servingPub (Or.inl hc.1)) hc.2
    rw [hd] at this; cases this
  · simp [hc]

/-- **Drain leaves established connections alone**: neither step of StopListen touches a
handler, the registry, or any connection. -/
theorem drain_leaves_connections (s s' : L) (l : Label) (hl : l = .drainClose ∨ l = .drainLn)
    (h : step s l = some s') : s'.handlers = s.handlers ∧ s'.reg = s.reg ∧ s'.closed = s.closed := by
  rcases hl with rfl | rfl <;> simp only [step] at h <;> split at h <;> (try cases h) <;> simp_all

/-- **The limit is never exceeded**, and **a connection under the limit is always served**. -/
theorem limit_never_exceeded (limit : Nat) (hl : 0 < limit) (ls : List Label) (s : L)
    (h : run (init limit) ls = some s) : registered s ≤ limit := by
  suffices hx : ∀ (ls : List Label) (a b : L), Inv3 a → run a ls = some b → Inv3 b ∧ b.limit = a.limit by
    have := hx ls (init limit) s (by intro _; simp [registered, init]) h
    have h3 := this.1
    rw [Inv3, this.2] at h3
    exact h3 hl
  intro ls
  induction ls with
  | nil => intro a b ha hab; simp [run] at hab; subst hab; exact ⟨ha, rfl⟩
  | cons l ls ih =>
    intro a b ha hab
    simp only [run] at hab
    cases hs : step a l with
    | none => simp [hs] at hab
    | some a1 =>
      simp only [hs] at hab
      have h1 := inv3_step a a1 l ha hs
      have h2 := ih a1 b h1.1 hab
      exact ⟨h2.1, by rw [h2.2, h1.2]⟩

theorem under_limit_served (s : L) (id : Nat) (r : List Nat) (hm : (id, false) ∈ s.handlers)
    (hr : s.reg = some r) (hl : s.limit = 0 ∨ r.length < s.limit) :
    ∃ s', step s (.handlerAdd id) = some s' ∧ (id, true) ∈ s'.handlers ∧ s'.reg = some (id :: r) := by
  have hlim : limitHit s.limit r.length = false := by
    rcases hl with h | h <;> simp [limitHit, h]
  refine ⟨{ s with handlers := (id, true) :: s.handlers.erase (id, false), reg := some (id :: r) }, ?_, by simp, rfl⟩
  simp [step, hm, hr, hlim]

/-! ### termination of Stop -/

def wServe : ServePc → Nat
  | .notCalled => 0 | .entered => 4 | .checked => 5 | .bound => 3 | .serving => 2 | .waitConns => 1 | .returned => 0
def wStop : StopPc → Nat
  | .idle => 0 | .quitClosed => 4 | .regTaken => 3 | .lnClosed => 2 | .connsClosed => 1 | .returned => 0
def wDrain : DrainPc → Nat | .idle => 0 | .drainClosed => 1 | .finished => 0
def wHandlers : List (Nat × Bool) → Nat
  | [] => 0
  | (_, true) :: r => 1 + wHandlers r
  | (_, false) :: r => 2 + wHandlers r

def mu (s : L) : Nat := wServe s.serve + wStop s.stopPc + wDrain s.drainPc + wHandlers s.handlers

theorem wHandlers_erase (l : List (Nat × Bool)) (x : Nat × Bool) (h : x ∈ l) :
    wHandlers (l.erase x) + (if x.2 then 1 else 2) = wHandlers l := by
  induction l with
  | nil => cases h
  | cons y r ih =>
    by_cases hxy : y = x
    · subst hxy
      obtain ⟨a, b⟩ := y
      cases b <;> simp [wHandlers] <;> omega
    · have hx : x ∈ r := by
        cases h with
        | head => exact absurd rfl hxy
        | tail _ h => exact h
      have := ih hx
      have he : (y :: r).erase x = y :: r.erase x := by
        simp [hxy]
      rw [he]
      obtain ⟨a, b⟩ := y
      cases b <;> simp [wHandlers] <;> omega

/-- steps that cannot go on for ever once quit is closed: everything internal except accepting
yet another client while the listener is still open -/
def winding : Label → Bool
  | .clientClose _ | .stopQuit | .drainClose | .serveEnter | .accept | .checkOk => false
  | _ => true

theorem winding_step_decreases (s s' : L) (l : Label) (hl : winding l = true) (hs : step s l = some s') :
    mu s' < mu s := by
  cases l with
  | clientClose a => cases hl
  | stopQuit => cases hl
  | drainClose => cases hl
  | serveEnter => cases hl
  | accept => cases hl
  | checkOk => cases hl
  | handlerAdd a =>
    simp only [step] at hs
    by_cases hm : (a, false) ∈ s.handlers
    · rw [if_pos hm] at hs
      have he := wHandlers_erase s.handlers (a, false) hm
      simp at he
      cases hr : s.reg with
      | none => simp only [hr] at hs; injection hs with hs; subst hs; simp only [mu]; omega
      | some r =>
        simp only [hr] at hs
        by_cases hlim : limitHit s.limit r.length = true
        · rw [if_pos hlim] at hs; injection hs with hs; subst hs; simp only [mu]; omega
        · rw [if_neg hlim] at hs; injection hs with hs; subst hs; simp only [mu, wHandlers]; omega
    · simp [hm] at hs
  | handlerExit a =>
    simp only [step] at hs
    by_cases hc : (a, true) ∈ s.handlers ∧ a ∈ s.closed
    · rw [if_pos hc] at hs; injection hs with hs; subst hs
      have he := wHandlers_erase s.handlers (a, true) hc.1
      simp at he
      simp only [mu]; omega
    · simp [hc] at hs
  | _ =>
    simp only [step] at hs <;> (repeat' split at hs) <;> (try cases hs) <;>
      simp_all [mu, wServe, wStop, wDrain] <;> omega


/-- **Stop terminates.** Every step of Stop and of the listener's goroutines other than accepting
yet another client strictly decreases `mu`; and once Stop has closed the listener (`stop_never_stuck`
shows it gets there) nothing is accepted any more.  So from the moment Stop is called at most
`mu s` + (connections accepted in the meantime) steps remain before it returns. -/
theorem no_accept_after_stop_closed_the_listener (limit : Nat) (ls : List Label) (s : L)
    (h : run (init limit) ls = some s)
    (hp : s.stopPc = .lnClosed ∨ s.stopPc = .connsClosed ∨ s.stopPc = .returned) : step s .accept = none := by
  have h1 := inv1_run ls _ s (inv1_init limit) h
  have hq : s.quit = true := h1.quitSet (by rcases hp with h | h | h <;> rw [h] <;> intro h' <;> cases h')
  simp only [step]
  by_cases hc : s.serve = .serving ∧ s.lnOpen = true
  · exfalso
    rcases h1.lnClosedByStop hq (h1.servingPub (Or.inl hc.1)) hc.2 with hx | hx
    · rcases hp with h | h | h <;> rw [h] at hx <;> cases hx
    · rcases hp with h | h | h <;> rw [h] at hx <;> cases hx.1
  · simp [hc]

/-! ### the repaired defects as theorems about the old behaviour -/

/-- F-09a: Serve used to return on quit without closing done; Stop then waits for ever -/
def stepOldNoDone (s : L) : Label → Option L
  | .seeQuit => if s.serve = .entered ∧ (s.quit ∨ s.drain) then some { s with serve := .returned } else none
  | l => step s l

def runWith (f : L → Label → Option L) (s : L) : List Label → Option L
  | [] => some s
  | l :: ls => match f s l with | some s' => runWith f s' ls | none => none

theorem old_stop_before_bind_hangs :
    ∃ s, runWith stepOldNoDone (init 0) [.serveEnter, .stopQuit, .stopTake, .stopLn, .stopConns, .seeQuit] = some s ∧
      s.stopPc = .connsClosed ∧ s.serve = .returned ∧
      ∀ l, internal l = true → stepOldNoDone s l = none := by
  refine ⟨_, rfl, rfl, rfl, ?_⟩
  intro l hl
  cases l <;> first | rfl | (cases hl) | simp [stepOldNoDone, step, init]

/-- F-09b: without the re-check after publication a Stop that ran between bind and publication
leaves the port open and accepting, and waits for ever -/
def stepOldNoRecheck (s : L) : Label → Option L
  | .publish => if s.serve = .bound then some { s with serve := .serving, lnPublished := true } else none
  | l => step s l

theorem old_stop_between_bind_and_publication :
    ∃ s, runWith stepOldNoRecheck (init 0)
      [.serveEnter, .checkOk, .bindOk, .stopQuit, .stopTake, .stopLn, .stopConns, .publish] = some s ∧
      s.stopPc = .connsClosed ∧ s.lnOpen = true ∧ (stepOldNoRecheck s .accept).isSome = true ∧
      stepOldNoRecheck s .stopWait = none ∧ stepOldNoRecheck s .acceptFail = none :=
  ⟨_, rfl, rfl, rfl, rfl, rfl, rfl⟩

/-- the same two histories on the model of the code as it is now -/
example : ∃ s, run (init 0) [.serveEnter, .stopQuit, .stopTake, .stopLn, .stopConns, .seeQuit, .stopWait] = some s ∧
    s.stopPc = .returned := ⟨_, rfl, rfl⟩
example : ∃ s, run (init 0)
    [.serveEnter, .checkOk, .bindOk, .stopQuit, .stopTake, .stopLn, .stopConns, .publish, .acceptFail, .connsDone, .stopWait]
      = some s ∧ s.stopPc = .returned ∧ s.lnOpen = false := ⟨_, rfl, rfl, rfl⟩

/-- non-vacuity: Stop with one registered and one not yet registered connection -/
example : ∃ s, run (init 0)
    [.serveEnter, .checkOk, .bindOk, .publish, .accept, .handlerAdd 0, .accept, .stopQuit, .stopTake, .stopLn,
     .stopConns, .handlerAdd 1, .acceptFail, .handlerExit 0, .connsDone, .stopWait] = some s ∧
    s.stopPc = .returned ∧ s.handlers = [] ∧ s.closed = [1, 0] := ⟨_, rfl, rfl, rfl, rfl⟩

/-! ## tie to the code -/

theorem code_matches_model :
    Gen.Listener.serve =
      ["ip := l.cfg.GetAddress().GetIp()",
      "port := l.cfg.GetAddress().GetPort()",
      "address := fmt.Sprintf(\"%s:%d\", ip, port)",
      "l.mu.Lock()",
      "l.started = true",
      "l.mu.Unlock()",
      "defer close(l.done)",
      "verifPause(\"listener.serve.enter\", l)",
      "var ln net.Listener",
      "for { select { case <-l.quit: return nil case <-l.drain: return nil default: } var err error ln, err = defaultListenFunc(\"tcp\", address) if err == nil { break } l.Warnf(\"listen on %s failed: %v, will keep trying...\", address, err) t := time.NewTimer(time.Millisecond * 500) select { case <-t.C: case <-l.drain: return nil case <-l.quit: return nil } }",
      "verifPause(\"listener.bound\", l)",
      "l.mu.Lock()",
      "l.ln = ln",
      "l.mu.Unlock()",
      "select { case <-l.quit: ln.Close() case <-l.drain: ln.Close() default: }",
      "l.Infof(\"start serving at %s\", ln.Addr().String())",
      "l.serve()",
      "l.Infof(\"stop serving at %s, waiting all conns done\", ln.Addr().String())",
      "l.connsWg.Wait()",
      "l.Infof(\"all conns done\")",
      "return nil"] ∧
    Gen.Listener.acceptLoop =
      ["var tempDelay time.Duration",
      "for { conn, err := l.ln.Accept() if err != nil { if nerr, ok := err.(net.Error); ok && nerr.Temporary() { if tempDelay == 0 { tempDelay = 5 * time.Millisecond } else { tempDelay *= 2 } if max := 1 * time.Second; tempDelay > max { tempDelay = max } l.Warnf(\"accept failed: %v; retrying in %s\", err, tempDelay) timer := time.NewTimer(tempDelay) select { case <-timer.C: case <-l.quit: timer.Stop() return } continue } select { case <-l.drain: return case <-l.quit: return default: } l.Warnf(\"done serving; accept failed: %v\", err) return } l.connsWg.Add(1) go func(conn net.Conn) { l.handleRawConn(conn) l.connsWg.Done() }(conn) }"] ∧
    Gen.Listener.handleRawConn =
      ["conn := l.wrapRawConn(rawConn)",
      "connCreatedAt := time.Now()",
      "if !l.addConn(conn) { conn.Close() return }",
      "l.Debugf(\"%s -> %s created\", conn.RemoteAddr(), l.ln.Addr().String())",
      "defer func() { conn.Close() l.removeConn(conn) l.Debugf(\"%s -> %s finished, duration: %s\", conn.RemoteAddr(), l.ln.Addr().String(), time.Since(connCreatedAt).String()) }()",
      "if l.connHandleFn == nil { l.Warnf(\"conn handle fn is nil, will close conn immediately\") return }",
      "l.connHandleFn(conn)"] ∧
    Gen.Listener.addConn =
      ["l.mu.Lock()",
      "defer l.mu.Unlock()",
      "if l.conns == nil { return false }",
      "if l.connsLimit() { l.stats.CxRestricted.Inc() l.Warnf(\"connections limit, %s -> %s, will close\", conn.RemoteAddr().String(), l.ln.Addr().String()) return false }",
      "l.conns[conn] = struct{}{}",
      "l.stats.CxTotal.Inc()",
      "l.stats.CxActive.Inc()",
      "return true"] ∧
    Gen.Listener.removeConn =
      ["l.mu.Lock()",
      "defer l.mu.Unlock()",
      "if l.conns == nil { return }",
      "if _, ok := l.conns[conn]; !ok { return }",
      "delete(l.conns, conn)",
      "l.stats.CxDestroyTotal.Inc()",
      "l.stats.CxActive.Dec()"] ∧
    Gen.Listener.connsLimit =
      ["limit := l.cfg.ConnectionLimit",
      "if limit == 0 || uint32(len(l.conns)) < limit { return false }",
      "return true"] ∧
    Gen.Listener.drain =
      ["l.drainOnce.Do(func() { close(l.drain) })",
      "if ln := l.published(); ln != nil { ln.Close() }",
      "return nil"] ∧
    Gen.Listener.stop =
      ["l.quitOnce.Do(func() { close(l.quit) })",
      "l.mu.Lock()",
      "started := l.started",
      "conns := l.conns",
      "l.conns = nil",
      "ln := l.ln",
      "for range conns { l.stats.CxDestroyTotal.Inc() l.stats.CxActive.Dec() }",
      "l.mu.Unlock()",
      "verifPause(\"listener.stop.taken\", l)",
      "if ln != nil { ln.Close() }",
      "for conn := range conns { conn.Close() }",
      "if started { <-l.done }",
      "return nil"] ∧
    Gen.Listener.redisStop =
      ["p.u.Stop()",
      "p.l.Stop()",
      "p.wg.Wait()",
      "return nil"] ∧
    Gen.Listener.tcpStop =
      ["p.quitOnce.Do(func() { close(p.quit) })",
      "p.hm.Stop()",
      "p.ln.Stop()",
      "p.wg.Wait()",
      "return nil"] ∧
    Gen.Listener.upstreamStop =
      ["close(u.quit)",
      "if atomic.LoadInt32(&u.started) == 1 { <-u.done }"] ∧
    Gen.Listener.upstreamServe =
      ["atomic.StoreInt32(&u.started, 1)",
      "var wg sync.WaitGroup",
      "wg.Add(2)",
      "go func() { defer wg.Done() u.loopRefreshSlots() }()",
      "go func() { defer wg.Done() u.hkc.Run(u.quit) }()",
      "wg.Wait()",
      "u.clientsMu.Lock()",
      "clients := u.loadClients()",
      "u.clientsMu.Unlock()",
      "for _, c := range clients { c.Stop() }",
      "close(u.done)"] ∧
    Gen.Listener.sessionLoopWrite =
      ["var ( req *rawRequest err error )",
      "for { select { case <-s.quit: return case req = <-s.processingReqs: } select { case <-req.done: default: if err = s.enc.Flush(); err != nil { goto FAIL } select { case <-req.done: case <-s.quit: return } } resp := req.Response() if err = s.enc.Encode(resp); err != nil { goto FAIL } if len(s.processingReqs) != 0 { continue } if err = s.enc.Flush(); err != nil { goto FAIL } }",
      "FAIL: s.p.logger.Warnf(\"loop write exit: %v\", err)"] ∧
    Gen.Listener.refreshWaits =
      ["if err != nil | return",
      "go | select <-req.done | return",
      "u.MakeRequestToHost",
      "select <-giveUp | select <-u.quit | return",
      "select <-giveUp | select default | return",
      "if resp.Type == Error | return",
      "if resp.Type != BulkString | return",
      "if err != nil | return"] ∧
    Gen.Listener.tcpWatcher =
      ["if len(healthyHosts) == 0 | return",
      "if err != nil | return",
      "defer | sconn.Close",
      "go | select <-host.WaitRemoved() | sconn.Close",
      "go | select <-host.WaitRemoved() | cconn.Close",
      "go | select <-host.WaitRemoved() | return",
      "go | select <-p.quit | sconn.Close",
      "go | select <-p.quit | cconn.Close",
      "go | select <-p.quit | return",
      "go | select <-finished | return"] := by
  refine ⟨rfl, rfl, rfl, rfl, rfl, rfl, rfl, rfl, rfl, rfl, rfl, rfl, rfl, rfl, rfl⟩

/-! ### added: completion under every schedule / interference -/
def closing (p : StopPc) : Prop := p = .lnClosed ∨ p = .connsClosed ∨ p = .returned

theorem closing_stays (s s' : L) (l : Label) (hc : closing s.stopPc) (hs : step s l = some s') : closing s'.stopPc := by
  unfold closing at *
  cases l <;> simp only [step] at hs <;> (repeat' split at hs) <;> (try cases hs) <;> simp_all

theorem run_append (s : L) (a b : List Label) : run s (a ++ b) = (run s a).bind fun s1 => run s1 b := by
  induction a generalizing s with
  | nil => rfl
  | cons l ls ih =>
    simp only [List.cons_append, run]
    cases step s l with
    | none => rfl
    | some s1 => exact ih s1

theorem run_snoc (s s1 s2 : L) (pre : List Label) (l : Label) (h : run s pre = some s1) (hs : step s1 l = some s2) :
    run s (pre ++ [l]) = some s2 := by
  rw [run_append, h]; simp [run, hs]

/-- **Stop completes under every schedule.** Once Stop has closed the listener, let Stop and the
listener's goroutines run in any order (clients may close connections, nothing else happens from
outside): every such schedule has at most `mu s` steps, and when nothing can move any more Stop
has returned. -/
theorem stop_completes (limit : Nat) : ∀ (ls : List Label) (pre : List Label) (s : L),
    run (init limit) pre = some s → closing s.stopPc → (∀ l ∈ ls, internal l = true) →
    ∀ s', run s ls = some s' →
      mu s' + ls.length ≤ mu s ∧ closing s'.stopPc ∧ ∃ pre', run (init limit) pre' = some s' := by
  intro ls
  induction ls with
  | nil => intro pre s h hc _ s' hr; simp [run] at hr; subst hr; exact ⟨by simp, hc, pre, h⟩
  | cons l ls ih =>
    intro pre s h hc hint s' hr
    simp only [run] at hr
    cases hs : step s l with
    | none => simp [hs] at hr
    | some s1 =>
      simp only [hs] at hr
      have hl := hint l (by simp)
      -- the step is a winding one: nothing is accepted any more and the bind loop cannot start over
      have hw : winding l = true := by
        cases l with
        | accept =>
          have := no_accept_after_stop_closed_the_listener limit pre s h hc
          rw [this] at hs; cases hs
        | checkOk =>
          have h1 := inv1_run pre _ s (inv1_init limit) h
          have hq : s.quit = true := h1.quitSet (by rcases hc with h | h | h <;> rw [h] <;> intro h' <;> cases h')
          simp [step, hq] at hs
        | clientClose a => cases hl
        | stopQuit => cases hl
        | drainClose => cases hl
        | serveEnter => cases hl
        | _ => rfl
      have hdec := winding_step_decreases s s1 l hw hs
      have hreach := run_snoc (init limit) s s1 pre l h hs
      have := ih (pre ++ [l]) s1 hreach (closing_stays s s1 l hc hs) (fun x hx => hint x (by simp [hx])) s' hr
      exact ⟨by simp only [List.length_cons]; omega, this.2.1, this.2.2⟩

theorem stuck_means_returned (limit : Nat) (pre : List Label) (s : L) (h : run (init limit) pre = some s)
    (hc : closing s.stopPc) (hstuck : ∀ l, internal l = true → step s l = none) : s.stopPc = .returned := by
  cases hp : s.stopPc with
  | returned => rfl
  | idle => rcases hc with h | h | h <;> rw [hp] at h <;> cases h
  | quitClosed => rcases hc with h | h | h <;> rw [hp] at h <;> cases h
  | regTaken => rcases hc with h | h | h <;> rw [hp] at h <;> cases h
  | lnClosed =>
    obtain ⟨l, hl, hen⟩ := stop_never_stuck limit pre s h (by rw [hp]; intro h; cases h) (by rw [hp]; intro h; cases h)
    rw [hstuck l hl] at hen; cases hen
  | connsClosed =>
    obtain ⟨l, hl, hen⟩ := stop_never_stuck limit pre s h (by rw [hp]; intro h; cases h) (by rw [hp]; intro h; cases h)
    rw [hstuck l hl] at hen; cases hen

/-- **The code the model was written against.** The statements of the modelled functions,
regenerated from the current source on every run, are the ones the model was written against;
any edit to one of them makes this obligation fail and starts a search for a failing input. -/
theorem session_loops_match_model :
    Gen.Session.serve =
      ["writeDone := make(chan struct{})",
      "go func() { s.loopWrite() s.conn.Close() s.doQuit() close(writeDone) }()",
      "s.loopRead()",
      "s.conn.Close()",
      "s.doQuit()",
      "<-writeDone",
      "close(s.done)"] ∧
    Gen.Session.loopRead =
      ["for { v, err := s.dec.Decode() if err != nil { if err != io.EOF { s.p.logger.Warnf(\"loop read exit: %v\", err) } return } req := newRawRequest(v) s.p.handleRequest(req) select { case s.processingReqs <- req: case <-s.quit: return } }"] ∧
    Gen.Session.loopWrite =
      ["var ( req *rawRequest err error )",
      "for { select { case <-s.quit: return case req = <-s.processingReqs: } select { case <-req.done: default: if err = s.enc.Flush(); err != nil { goto FAIL } select { case <-req.done: case <-s.quit: return } } resp := req.Response() if err = s.enc.Encode(resp); err != nil { goto FAIL } if len(s.processingReqs) != 0 { continue } if err = s.enc.Flush(); err != nil { goto FAIL } }",
      "FAIL: s.p.logger.Warnf(\"loop write exit: %v\", err)"] := by
  refine ⟨rfl, rfl, rfl⟩

/-- **The code the model was written against.** The statements of the modelled functions,
regenerated from the current source on every run, are the ones the model was written against;
any edit to one of them makes this obligation fail and starts a search for a failing input. -/
theorem table_removal_matches_model :
    Gen.Upstream.createClient =
      ["u.clientsMu.Lock()",
      "select { case <-u.quit: u.clientsMu.Unlock() return nil, errors.New(upstreamExited) default: }",
      "c, ok := u.loadClients()[addr]",
      "u.clientsMu.Unlock()",
      "if ok { return c, nil }",
      "conn, err := netutil.Dial(\"tcp\", addr, *u.cfg.ConnectTimeout)",
      "if err != nil { return nil, err }",
      "options := []clientOption{ withKeyCounter(u.hkc.AllocCounter(addr)), withRedirectionCb(u.handleRedirection), withClusterDownCb(u.handleClusterDown), }",
      "c, err = newClient(conn, u.cfg, u.logger, options...)",
      "if err != nil { conn.Close() return nil, err }",
      "u.clientsMu.Lock()",
      "defer u.clientsMu.Unlock()",
      "select { case <-u.quit: conn.Close() return nil, errors.New(upstreamExited) default: }",
      "verifPause(\"upstream.client.checked\", u)",
      "if existing, ok := u.loadClients()[addr]; ok { conn.Close() return existing, nil }",
      "go func() { c.Start() u.removeEndedClient(addr, c) }()",
      "u.addClientLocked(addr, c)",
      "return c, nil"] ∧
    Gen.Upstream.removeClient =
      ["u.clientsMu.Lock()",
      "defer u.clientsMu.Unlock()",
      "u.removeClientLocked(addr)"] ∧
    Gen.Upstream.removeEndedClient =
      ["u.clientsMu.Lock()",
      "defer u.clientsMu.Unlock()",
      "if cur, ok := u.loadClients()[addr]; !ok || cur != c { return }",
      "u.removeClientLocked(addr)"] ∧
    Gen.Upstream.resetAllClients =
      ["old := u.loadClients()",
      "u.clientsMu.Lock()",
      "u.updateClients(make(map[string]*client))",
      "u.clientsMu.Unlock()",
      "for _, client := range old { client.Stop() }"] := by
  refine ⟨rfl, rfl, rfl, rfl⟩

end SamVerif.Props.C09

/-! ### stopping the Redis upstream while a read loop follows a redirection -/

namespace SamVerif.Props.C09u
open SamVerif.UpStop


/-- **Stopping the upstream completes and leaves no connection behind** (as repaired): from the
moment Stop has closed quit, every schedule of Serve's wind-down, of the read loop that is in the
middle of a redirection and of the pending dial is finite, and when nothing can move any more
Stop has returned and neither the client whose read loop it was nor the one the redirection
created is running. -/
theorem upstream_stop_completes (pre : List Label) (u : U) (h : run { fixed := true } pre = some u)
    (hc : stopCalled u.sp) (ls : List Label) (hint : ∀ l ∈ ls, internal l = true) (u' : U) (hr : run u ls = some u') :
    ls.length ≤ mu u ∧
    ((∀ l, internal l = true → step u' l = none) → u'.sp = .returned ∧ u'.aRunning = false ∧ u'.bRunning = false) := by
  have hi := inv_run pre _ u inv_init h
  obtain ⟨hm, hi', hc'⟩ := wind_down ls u u' hi hc hint hr
  refine ⟨by omega, ?_⟩
  intro hstuck
  have hret : u'.sp = .returned := by
    apply Classical.byContradiction
    intro hn
    obtain ⟨l, hl, hen⟩ := progress u' hi' hc' hn
    rw [hstuck l hl] at hen; cases hen
  exact ⟨hret, hi'.ret hret⟩

/-- F-09h, the behaviour before the repair: Serve stopped the clients while holding clientsMu.
A read loop that has passed the quit check of MakeRequestToHost just before Stop closes quit then
waits for the lock in createClient, while Serve — holding the lock — waits for that read loop to
end: nothing can move any more and Stop has not returned. -/
theorem old_stop_holding_the_lock_deadlocks :
    ∃ u, run { fixed := false } [.redirect, .stopQuit, .stopLock] = some u ∧ u.sp ≠ .returned ∧ ∀ l, step u l = none := by
  refine ⟨_, rfl, by decide, ?_⟩
  intro l
  cases l <;> rfl

/-- the same schedule on the repaired code: the lock is released, the read loop gets it, sees quit, and everything winds down -/
example : ∃ u, run { fixed := true } [.redirect, .stopQuit, .stopLock, .stopUnlock, .rlLock, .stopA, .stopReturn] = some u
    ∧ u.sp = .returned ∧ u.aRunning = false := ⟨_, rfl, by decide⟩

/-- a connection established just before Stop is in Serve's snapshot and stopped with the rest -/
example : ∃ u, run { fixed := true } [.redirect, .rlLock, .dialDone, .stopQuit, .stopLock, .stopUnlock, .stopA, .stopB, .stopReturn] = some u
    ∧ u.sp = .returned ∧ u.bRunning = false := ⟨_, rfl, by decide⟩

/-- a connect still in progress when Stop takes its snapshot: when it completes quit is closed, the new connection is closed
instead of being published (nothing is left behind although Stop did not wait for it) -/
example : ∃ u, run { fixed := true } [.redirect, .rlLock, .stopQuit, .stopLock, .stopUnlock, .dialDone, .stopA, .stopReturn] = some u
    ∧ u.sp = .returned ∧ u.bRunning = false ∧ u.rl = .done := ⟨_, rfl, by decide⟩

end SamVerif.Props.C09u

namespace SamVerif.Props.C09s
open SamVerif.ProcStop


/-- **Stop of a Redis service returns whatever its clients have in flight** (as repaired, F-09i:
upstream first): for every queue capacity, every number of requests a client has pipelined to a
backend that never answers, and every interleaving of the session's reader and writer with Stop —
from the moment the listener has closed the connection every schedule is finite, and when nothing
can move any more Stop has returned and both loops of the session are gone. -/
theorem stop_returns_behind_unanswered_requests (cap n : Nat) (hcap : 0 < cap) (pre : List Label) (p : P)
    (h : run { upstreamFirst := true, cap := cap, toRead := n } pre = some p) (hc : p.connClosed = true)
    (ls : List Label) (p' : P) (hr : run p ls = some p') :
    ls.length ≤ mu p ∧ ((∀ l, step p' l = none) → p'.stopPc = 3 ∧ p'.rd = .exited ∧ p'.wr = .exited) := by
  have hi := inv_run pre _ p (inv_init cap n hcap) h
  obtain ⟨hm, hi', hc'⟩ := wind_down ls p p' hi hc hr
  refine ⟨by omega, ?_⟩
  intro hstuck
  have hret : p'.stopPc = 3 := by
    apply Classical.byContradiction
    intro hn
    obtain ⟨l, hen⟩ := progress p' hi' hc' hn
    rw [hstuck l] at hen; cases hen
  exact ⟨hret, hi'.ret hret⟩

/-- the requests of F-09i: 34 pipelined requests, a queue of 32 — the writer holds the first, 32 are queued, the reader holds the 34th -/
def fill : List Label :=
  [.rDecode, .rEnqueue, .wTake] ++ (List.replicate 32 [Label.rDecode, Label.rEnqueue]).flatten ++ [.rDecode]

/-- F-09i, the behaviour before the repair (listener first): the listener closes the connection,
the reader waits for room, the writer for a reply, neither reads from the connection — nothing can
move any more and Stop has not returned (the upstream, whose Stop would answer the requests, comes
after the listener). -/
theorem old_stop_order_hangs :
    ∃ p, run { upstreamFirst := false, cap := 32, toRead := 34 } (fill ++ [.stopListener]) = some p ∧
      p.stopPc ≠ 3 ∧ ∀ l, step p l = none := by
  refine ⟨_, rfl, by decide, ?_⟩
  intro l
  cases l <;> rfl

/-- the same history on the repaired order winds down -/
example : ∃ p, run { upstreamFirst := true, cap := 32, toRead := 34 }
    (fill ++ [.stopUpstream, .stopListener, .wWriteFails, .rQuit, .stopWaited]) = some p ∧ p.stopPc = 3 := ⟨_, rfl, by decide⟩


end SamVerif.Props.C09s

namespace SamVerif.Props.C09r
open SamVerif.RedirStop

/-- any number of pending redirections, any room in the silent node's queue, either order of the two connections -/
def start (aFirst held : Bool) (room pending : Nat) : S := { aFirst := aFirst, room := room, pendingRedir := pending, held := held }

/-- **Stop returns although a read loop is resending into the full queue of a silent node** (F-09j, since 9cd2b0b): whatever
the order in which the connections are stopped, whatever is pending — once Serve has begun to stop the connections, every
schedule is finite (at most `mu` steps) and a schedule that cannot be continued has ended with Stop returned, the read loop
gone and the silent node's connection closed. -/
theorem stop_returns_with_a_reader_in_a_full_queue (aFirst held : Bool) (room pending : Nat) (ls : List Label) (s : S)
    (hr : run (start aFirst held room pending) ls = some s) (hp : s.pc ≠ .running) :
    (∀ ls' s', run s ls' = some s' → ls'.length ≤ mu s) ∧
    (∀ ls' s', run s ls' = some s' → (∀ l, step s' l = none) → s'.pc = .returned ∧ s'.rd = .exited ∧ s'.bLoops = false) := by
  have h0 : Inv (start aFirst held room pending) := by constructor <;> simp [start]
  obtain ⟨hi, ha, _, _⟩ := run_facts _ s ls h0 hr
  refine ⟨fun ls' s' h' => by have := (run_facts s s' ls' hi h').2.2.2; omega, ?_⟩
  intro ls' s' h' hstuck
  obtain ⟨hi', ha', hp', _⟩ := run_facts s s' ls' hi h'
  have hab : s'.abort = true := by rw [ha'.1, ha.1]; rfl
  have hta : s'.turnAbort = true := by rw [ha'.2, ha.2]; rfl
  have hret : s'.pc = .returned := by
    by_cases hc : s'.pc = .returned
    · exact hc
    · obtain ⟨l, hl⟩ := progress s' hi' hab hta (hp' hp) hc
      rw [hstuck l] at hl; cases hl
  refine ⟨hret, ?_, ?_⟩
  · cases hrd : s'.rd with
    | exited => rfl
    | reading =>
      have := hstuck .readerExits
      simp [step, hrd, (hi'.2 (Or.inr hret)).1] at this
    | queuing =>
      have := hstuck .queueGivesUp
      simp [step, hrd, hab, hta, (hi'.2 (Or.inr hret)).1] at this
    | sending =>
      have := hstuck .aborted
      simp [step, hrd, hab, (hi'.2 (Or.inr hret)).1] at this
  · cases hb : s'.bLoops with
    | false => rfl
    | true =>
      have := hstuck .bExits
      simp [step, hb, (hi'.2 (Or.inr hret)).2] at this

/-- **Before 9cd2b0b**: `Send` gave up only on the *target's* quit.  One redirection pending, no room in the silent node's queue,
the redirecting connection first in the map: Stop closes its quit and waits for a read loop that waits for room — nothing can move. -/
theorem old_send_ignores_its_own_quit :
    ∃ s, run { abort := false, aFirst := true, room := 0, pendingRedir := 1 } [.reply, .stop, .close] = some s ∧
      s.pc = .waitFirst ∧ s.rd = .sending ∧ ∀ l, step s l = none := by
  refine ⟨_, rfl, rfl, rfl, ?_⟩
  intro l; cases l <;> rfl

/-- the same schedule now: the read loop gives up, ends, and Stop goes on to the silent node's connection and returns -/
example : ∃ s, run (start true false 0 1) [.reply, .stop, .close, .aborted, .readerExits, .waited, .close, .bExits, .waited] = some s ∧
    s.pc = .returned := ⟨_, rfl, rfl⟩

/-- **With the turn guarded by a mutex** (cf7dbc3 … 058c6b1, my own repair of F-04d): a session's Send for the silent node has the turn and
waits for room; the read loop that follows an ASK waits for the turn inside `Lock()`, which no quit can interrupt — Stop closes its
connection's quit and waits for it for ever (F-09l). -/
theorem old_turn_wait_ignores_every_quit :
    ∃ s, run { turnAbort := false, aFirst := true, room := 0, pendingRedir := 1, held := true } [.reply, .stop, .close] = some s ∧
      s.pc = .waitFirst ∧ s.rd = .queuing ∧ ∀ l, step s l = none := by
  refine ⟨_, rfl, rfl, rfl, ?_⟩
  intro l; cases l <;> rfl

/-- the same schedule now: the wait for the turn gives up, Stop returns -/
example : ∃ s, run (start true true 0 1) [.reply, .stop, .close, .queueGivesUp, .readerExits, .waited, .close, .bExits, .holderLeaves, .waited] = some s ∧
    s.pc = .returned := ⟨_, rfl, rfl⟩

end SamVerif.Props.C09r

namespace SamVerif.Props.C09t
open SamVerif.TableReplace

/-- **No connection is left running after Stop** (F-09k, since 00e042f): after any history of requests making connections, host
lists being replaced, backends closing connections and ended connections taking themselves out of the table, the Stop of the
upstream — which stops what the table holds — leaves no connection running that nobody has told to stop. -/
theorem stop_leaves_nothing_running (ls : List Label) (s s' : T) (hr : run {} ls = some s) (hs : step s .stop = some s') :
    s'.running = [] := by
  have h : Inv s := inv_run {} s ls (by refine ⟨rfl, ?_, ?_, ?_, ?_⟩ <;> simp) hr
  obtain ⟨_, h1, _, _, _⟩ := h
  simp only [step] at hs
  split at hs
  · rename_i id ht
    cases hs
    show s.running.filter (· != id) = []
    rw [List.filter_eq_nil_iff]
    intro a ha; have := h1 a ha; rw [ht] at this; cases this; simp
  · cases hs
    cases hr' : s.running with
    | nil => rfl
    | cons a as => rename_i ht; have := h1 a (by simp [hr']); rw [ht] at this; cases this

/-- at most one connection per address is running at any time -/
theorem at_most_one_running (ls : List Label) (s : T) (hr : run {} ls = some s) (a b : Nat) (ha : a ∈ s.running) (hb : b ∈ s.running) :
    a = b := by
  have h : Inv s := inv_run {} s ls (by refine ⟨rfl, ?_, ?_, ?_, ?_⟩ <;> simp) hr
  have := h.2.1 a ha; rw [h.2.1 b hb] at this; cases this; rfl

/-- **Before 00e042f** an ended connection removed whatever the table held for its address: the hosts are replaced while connection 0
exists; before connection 0 has taken itself out, a request makes connection 1; connection 0 then removes connection 1 from the
table; the next request makes connection 2; Stop stops connection 2 — connection 1 runs on, used and stopped by nobody. -/
theorem old_removal_by_address_orphans_a_connection :
    ∃ s, run { old := true } [.create, .replaceAll, .create, .ended 0, .create, .stop] = some s ∧ s.running = [1] := by
  refine ⟨_, rfl, rfl⟩

example : ∃ s, run {} [.create, .replaceAll, .create, .ended 0, .stop] = some s ∧ s.running = [] ∧ s.stopping = [1] := ⟨_, rfl, rfl, rfl⟩

end SamVerif.Props.C09t

#print axioms SamVerif.Props.C09.stop_releases
#print axioms SamVerif.Props.C09.stop_never_stuck
#print axioms SamVerif.Props.C09.winding_step_decreases
#print axioms SamVerif.Props.C09.no_accept_after_stop_closed_the_listener
#print axioms SamVerif.Props.C09.drain_stops_accepting
#print axioms SamVerif.Props.C09.drain_leaves_connections
#print axioms SamVerif.Props.C09.limit_never_exceeded
#print axioms SamVerif.Props.C09.under_limit_served
#print axioms SamVerif.Props.C09.old_stop_before_bind_hangs
#print axioms SamVerif.Props.C09.old_stop_between_bind_and_publication
#print axioms SamVerif.Props.C09.code_matches_model
#print axioms SamVerif.Props.C09.stop_completes
#print axioms SamVerif.Props.C09.stuck_means_returned
#print axioms SamVerif.Props.C09u.upstream_stop_completes
#print axioms SamVerif.Props.C09u.old_stop_holding_the_lock_deadlocks
#print axioms SamVerif.Props.C09s.stop_returns_behind_unanswered_requests
#print axioms SamVerif.Props.C09s.old_stop_order_hangs
#print axioms SamVerif.Props.C09.session_loops_match_model
#print axioms SamVerif.Props.C09r.stop_returns_with_a_reader_in_a_full_queue
#print axioms SamVerif.Props.C09r.old_send_ignores_its_own_quit
#print axioms SamVerif.Props.C09t.stop_leaves_nothing_running
#print axioms SamVerif.Props.C09t.at_most_one_running
#print axioms SamVerif.Props.C09t.old_removal_by_address_orphans_a_connection
#print axioms SamVerif.Props.C09.table_removal_matches_model
#print axioms SamVerif.Props.C09r.old_turn_wait_ignores_every_quit
