/-
C08 — running services converge to the configured services and endpoints.

`Conf.*` models the three update handlers of config/config.go (events emitted) and the
controller's event handling, both as repaired (4703615, 8aac5e2, 48e428b). Tied by the
differential run through the real handlers into the real controller with a recording builder.
-/
import SamVerif.Proofs.Conf
import SamVerif.Gen.Conf
import SamVerif.Model.HcReset
namespace SamVerif.Props.C08
open SamVerif.Conf SamVerif.Proofs.Conf

/-- discovery updates, and the controller taking `k` pending events -/
inductive Op where
  | depAdd (n : Nat)
  | depRemove (n : Nat)
  | cfg (n : Nat) (c : Cfg)
  | eps (n : Nat) (added removed : List Nat)
  | consume (k : Nat)

structure Sys where
  store : Store
  queue : List Event      -- emitted, not yet handled by the controller (the event channel)
  procs : Procs

def Sys.init : Sys := { store := fun _ => none, queue := [], procs := fun _ => none }

def step (y : Sys) : Op → Sys
  | .depAdd n => let r := depAdd y.store n; { y with store := r.1, queue := y.queue ++ r.2 }
  | .depRemove n => let r := depRemove y.store n; { y with store := r.1, queue := y.queue ++ r.2 }
  | .cfg n c => let r := cfgUpdate y.store n c; { y with store := r.1, queue := y.queue ++ r.2 }
  | .eps n a r' => let r := epsUpdate y.store n a r'; { y with store := r.1, queue := y.queue ++ r.2 }
  | .consume k => { y with procs := drain y.procs (y.queue.take k), queue := y.queue.drop k }

def run (y : Sys) (ops : List Op) : Sys := ops.foldl step y

theorem drain_append (p : Procs) (a b : List Event) : drain p (a ++ b) = drain (drain p a) b := by
  simp [drain, List.foldl_append]

/-- the invariant relates the store to the processors *as they will be once the pending events
are handled*; it holds after every history, whatever the relative speed of store and controller -/
theorem inv_run (ops : List Op) : ∀ (y : Sys), Inv y.store (drain y.procs y.queue) →
    Inv (run y ops).store (drain (run y ops).procs (run y ops).queue) := by
  induction ops with
  | nil => intro y h; exact h
  | cons op rest ih =>
    intro y h
    simp only [run, List.foldl_cons]
    apply ih
    cases op with
    | depAdd n => simp only [step, drain_append]; exact inv_depAdd _ _ n h
    | depRemove n => simp only [step, drain_append]; exact inv_depRemove _ _ n h
    | cfg n c => simp only [step, drain_append]; exact inv_cfgUpdate _ _ n c h
    | eps n a r => simp only [step, drain_append]; exact inv_epsUpdate _ _ n a r h
    | consume k =>
      simp only [step]
      rw [← drain_append, List.take_append_drop]; exact h

/-- **Convergence.** After any history of dependency, configuration and endpoint updates,
interleaved in any way with the controller's progress, once the pending events are handled:
a service with a valid latest configuration and a known endpoint list has exactly one
processor, with that configuration and exactly that host set; … -/
theorem converges_valid (ops : List Op) (n : Nat) (c : Cfg) (e : List Nat)
    (hs : (run Sys.init ops).store n = some { cfg := some c, eps := some e }) (hv : c.valid = true) :
    ∃ pr, drain (run Sys.init ops).procs (run Sys.init ops).queue n = some pr ∧ pr.cfg = c ∧
      ∀ x, x ∈ pr.hosts ↔ x ∈ e := by
  have h := inv_run ops Sys.init (by simpa [Sys.init, drain] using inv_init) n
  rw [hs] at h
  simp only [Good, hv, ↓reduceIte] at h
  exact h.2

/-- … and a service that is not a dependency (never added, or removed), or whose configuration
or endpoint list is not known yet, has none. Updates for unknown services are ignored. -/
theorem converges_none (ops : List Op) (n : Nat)
    (hs : (run Sys.init ops).store n = none ∨
          (∃ sv, (run Sys.init ops).store n = some sv ∧ (sv.cfg = none ∨ sv.eps = none))) :
    drain (run Sys.init ops).procs (run Sys.init ops).queue n = none := by
  have h := inv_run ops Sys.init (by simpa [Sys.init, drain] using inv_init) n
  rcases hs with hs | ⟨sv, hs, hcase⟩
  · rw [hs] at h; simpa [Good] using h
  · rw [hs] at h
    obtain ⟨cfg0, eps0⟩ := sv
    rcases hcase with hc | he
    · simp only at hc; subst hc
      cases eps0 <;> simp [Good] at h
      · exact h
      · exact h.2
    · simp only at he; subst he
      cases cfg0 <;> simpa [Good] using h

/-- F-08d (recorded finding, not repaired): when the latest configuration is invalid the
processor created under an earlier valid configuration keeps running. The invariant allows
exactly that and nothing else: no processor, or one with a valid configuration and the right
hosts. -/
theorem latest_invalid_partial (ops : List Op) (n : Nat) (c : Cfg) (e : List Nat)
    (hs : (run Sys.init ops).store n = some { cfg := some c, eps := some e }) (hv : c.valid = false) :
    drain (run Sys.init ops).procs (run Sys.init ops).queue n = none ∨
    ∃ pr, drain (run Sys.init ops).procs (run Sys.init ops).queue n = some pr ∧ pr.cfg.valid = true ∧
      ∀ x, x ∈ pr.hosts ↔ x ∈ e := by
  have h := inv_run ops Sys.init (by simpa [Sys.init, drain] using inv_init) n
  rw [hs] at h
  simp only [Good, hv, Bool.false_eq_true, ↓reduceIte] at h
  exact h.2

/-- the witness of F-08d in the model: valid configuration, endpoints, then an invalid one -/
theorem latest_invalid_counterexample :
    (drain (run Sys.init [.depAdd 1, .cfg 1 ⟨1, true⟩, .eps 1 [1] [], .cfg 1 ⟨2, false⟩]).procs
      (run Sys.init [.depAdd 1, .cfg 1 ⟨1, true⟩, .eps 1 [1] [], .cfg 1 ⟨2, false⟩]).queue 1).map (·.cfg.id) = some 1 := by
  decide

/-- F-08a, the behaviour before the repair: additions applied before removals lose an address
that is in both lists of one update. -/
theorem old_order_counterexample :
    (applyOld (fun n => if n = 1 then some ⟨⟨1, true⟩, [1, 2]⟩ else none) (.endpoints 1 [1] [1]) 1).map (·.hosts) = some [2] ∧
    (apply (fun n => if n = 1 then some ⟨⟨1, true⟩, [1, 2]⟩ else none) (.endpoints 1 [1] [1]) 1).map (·.hosts) = some [2, 1] := by
  decide

/-! Non-vacuity: the three repaired shapes converge -/
example : ((run Sys.init [.depAdd 1, .cfg 1 ⟨1, false⟩, .eps 1 [1] [], .cfg 1 ⟨2, true⟩, .consume 9]).procs 1).map
    (fun p => (p.cfg.id, p.hosts)) = some (2, [1]) := by decide
example : ((run Sys.init [.depAdd 1, .cfg 1 ⟨1, true⟩, .eps 1 [] [9], .eps 1 [1] [], .consume 9]).procs 1).map
    (fun p => (p.cfg.id, p.hosts)) = some (1, [1]) := by decide

/-- **The code the model was written against.** The statements of the modelled functions,
regenerated from the current source on every run, are the ones the model was written against;
any edit to one of them makes this obligation fail and starts a search for a failing input. -/
theorem code_matches_model :
    Gen.Conf.handleDependencyUpdate =
      ["c.Lock()",
      "defer c.Unlock()",
      "for _, svc := range added { sw, ok := c.sws[svc.Name] if ok { continue } sw = &serviceWrapper{Service: svc} c.sws[svc.Name] = sw }",
      "for _, svc := range removed { sw, ok := c.sws[svc.Name] if !ok { continue } delete(c.sws, svc.Name) c.emitSvcRemoveEvent(sw) }"] ∧
    Gen.Conf.handleSvcConfigUpdate =
      ["c.Lock()",
      "defer c.Unlock()",
      "sw, ok := c.sws[svcName]",
      "if !ok { return }",
      "if newCfg == nil { return }",
      "oldCfg := sw.Config",
      "sw.Config = newCfg",
      "if sw.Endpoints == nil { return }",
      "if oldCfg != nil { c.emitSvcConfigEvent(svcName, newCfg) }",
      "c.emitSvcAddEvent(sw)"] ∧
    Gen.Conf.handleSvcEndpointUpdate =
      ["c.Lock()",
      "defer c.Unlock()",
      "added, removed = withAddress(added), withAddress(removed)",
      "if len(added) == 0 && len(removed) == 0 { return }",
      "sw, ok := c.sws[svcName]",
      "if !ok { return }",
      "oldEndpoints := sw.Endpoints",
      "validRemoved := make([]*service.Endpoint, 0, len(removed))",
      "for _, endpoint := range removed { i, ok := isContainEndpoint(sw.Endpoints, endpoint) if !ok { continue } sw.Endpoints = append(sw.Endpoints[:i], sw.Endpoints[i+1:]...) validRemoved = append(validRemoved, endpoint) }",
      "validAdded := make([]*service.Endpoint, 0, len(added))",
      "for _, endpoint := range added { i, ok := isContainEndpoint(sw.Endpoints, endpoint) if ok { if !sw.Endpoints[i].Equal(endpoint) { sw.Endpoints[i] = endpoint validAdded = append(validAdded, endpoint) } continue } sw.Endpoints = append(sw.Endpoints, endpoint) validAdded = append(validAdded, endpoint) }",
      "if sw.Config == nil || sw.Endpoints == nil { return }",
      "switch oldEndpoints { case nil: c.emitSvcAddEvent(sw) default: c.emitSvcEndpointEvent(svcName, validAdded, validRemoved) }"] ∧
    Gen.Conf.isContainEndpoint =
      ["for i := 0; i < len(endpoints); i++ { if !endpoints[i].Address.Equal(endpoint.Address) { continue } return i, true }",
      "return 0, false"] ∧
    Gen.Conf.emitSvcAddEvent =
      ["endpoints := sw.Endpoints",
      "if endpoints != nil { endpoints = append(make([]*service.Endpoint, 0, len(endpoints)), endpoints...) }",
      "evt := &SvcAddEvent{ Name: sw.Service.Name, Config: sw.Config, Endpoints: endpoints, }",
      "c.evtCh <- evt"] ∧
    Gen.Conf.emitSvcEndpointEvent =
      ["if len(added) == 0 && len(removed) == 0 { return }",
      "evt := &SvcEndpointEvent{ Name: svcName, Added: added, Removed: removed, }",
      "c.evtCh <- evt"] ∧
    Gen.Conf.handleEvent =
      ["switch evt := evt.(type) { case *config.SvcAddEvent: c.handleSvcAdd(evt.Name, evt.Config, evt.Endpoints) case *config.SvcRemoveEvent: c.handleSvcDel(evt.Name) case *config.SvcConfigEvent: c.handleSvcConfigUpdate(evt.Name, evt.Config) case *config.SvcEndpointEvent: c.handleSvcEndpointsRemove(evt.Name, evt.Removed) c.handleSvcEndpointsAdd(evt.Name, evt.Added) default: logger.Warnf(\"unkown event: %v\", evt) }"] ∧
    Gen.Conf.handleSvcAdd =
      ["if _, ok := c.getProc(svcName); ok { return }",
      "c.tryEnsureProc(svcName, cfg, endpointsToHosts(endpoints))"] ∧
    Gen.Conf.handleSvcDel =
      ["if p, ok := c.getProc(svcName); ok { p.Stop() c.removeProc(p) }"] ∧
    Gen.Conf.tryEnsureProc =
      ["if svcName == \"\" { logger.Debugf(\"empty service name\") return }",
      "if err := cfg.Validate(); cfg == nil || err != nil { logger.Debugf(\"invalid config\") return }",
      "proc, err := newProc(svcName, cfg, hosts)",
      "if err != nil { logger.Warnf(\"Create processor %s failed: %v\", svcName, err) return }",
      "if err := proc.Start(); err != nil { logger.Warnf(\"Start processor %s failed: %v\", svcName, err) return }",
      "c.addProc(proc)",
      "return proc"] ∧
    Gen.Conf.handleSvcEndpointsAdd =
      ["if len(endpoints) == 0 { return }",
      "procName := svcName",
      "p, ok := c.getProc(procName)",
      "if !ok { logger.Warnf(\"failed to get proc of service when add endpoints: %s\", svcName) return }",
      "hosts := endpointsToHosts(endpoints)",
      "p.OnSvcHostAdd(hosts)",
      "logger.Infof(\"Add hosts %v to processor %s\", hosts, procName)"] ∧
    Gen.Conf.handleSvcEndpointsRemove =
      ["if len(endpoints) == 0 { return }",
      "procName := svcName",
      "p, ok := c.getProc(procName)",
      "if !ok { logger.Warnf(\"failed to get proc of service when remove endpoints: %s\", svcName) return }",
      "hosts := endpointsToHosts(endpoints)",
      "p.OnSvcHostRemove(hosts)",
      "logger.Infof(\"Remove hosts %v from processor %s\", hosts, procName)"] ∧
    Gen.Conf.ctlHandleSvcConfigUpdate =
      ["proc, ok := c.getProc(svcName)",
      "if !ok { logger.Warnf(\"failed to get proc of service when update config: %s\", svcName) return }",
      "if err := proc.OnSvcConfigUpdate(newCfg); err != nil { logger.Warnf(\"failed to update svc config: %v\", err) }"] := by
  refine ⟨rfl, rfl, rfl, rfl, rfl, rfl, rfl, rfl, rfl, rfl, rfl, rfl, rfl⟩

/-- **The code the model was written against.** The statements of the modelled functions,
regenerated from the current source on every run, are the ones the model was written against;
any edit to one of them makes this obligation fail and starts a search for a failing input. -/
theorem proc_config_update_matches_model :
    Gen.Conf.tcpOnSvcConfigUpdate =
      ["if newHC := c.GetHealthCheck(); !p.cfg.GetHealthCheck().Equal(newHC) { var err error if p.hm == nil { p.hm, err = hc.NewMonitor(newHC, p.hostSet, p.Logger) if err == nil { p.hm.Start() } } else if newHC == nil { p.hm.Stop() p.hm = nil for _, h := range p.hostSet.All() { p.hostSet.MarkHostHealthy(h) } } else { err = p.hm.ResetHealthCheck(newHC) } if err != nil { return err } }",
      "if newPolicy := c.GetLbPolicy(); p.cfg.GetLbPolicy() != newPolicy { p.lb = lb.New(newPolicy) }",
      "if !p.cfg.Equal(c) { p.cfg = c }",
      "return nil"] ∧
    Gen.Conf.resetHealthCheck =
      ["if m == nil { return nil }",
      "if err := config.Validate(); err != nil { return err }",
      "sameChecker := config.Checker == nil && m.config.Checker == nil || config.Checker != nil && config.Checker.Equal(m.config.Checker)",
      "if !sameChecker { checker, err := newChecker(config) if err != nil { return err } m.checker = checker }",
      "m.config = config",
      "m.strategyUpdateCh <- struct{}{}",
      "return nil"] ∧
    Gen.Conf.newMonitor =
      ["if logger == nil { logger = loggerpkg.Get() }",
      "if config == nil { logger.Infof(\"health check config is null, healthy check will be disabled\") return nil, nil }",
      "if err := config.Validate(); err != nil { logger.Infof(\"invalid health check config: %v, will use default\", err) config = defaultConfig }",
      "checker, err := newChecker(config)",
      "if err != nil { return nil, err }",
      "ctx, cancel := context.WithCancel(context.Background())",
      "m := &Monitor{ logger: logger, ctx: ctx, cancel: cancel, done: make(chan struct{}), config: config, strategyUpdateCh: make(chan struct{}, 1), checker: checker, hostSet: hostSet, }",
      "return m, nil"] ∧
    Gen.Conf.decodePayload =
      ["if len(b) == 0 { return \"\", ErrPayloadEmpty }",
      "var isHexData = b[0] == 'b'",
      "if !isHexData { return strconv.Unquote(string(b)) }",
      "var err error",
      "var rawData = string(b[1:])",
      "if rawData, err = strconv.Unquote(rawData); err != nil { return \"\", err }",
      "var payload []byte",
      "payload, err = hex.DecodeString(rawData)",
      "if err != nil { return \"\", err }",
      "return string(payload), err"] := by
  refine ⟨rfl, rfl, rfl, rfl⟩

end SamVerif.Props.C08

namespace SamVerif.Props.C08h
open SamVerif.HcReset

/-- **An update of the health check is applied whole or not at all, and never crashes** (F-08g, F-08i): a rejected update leaves the
section in force *and the checker in use* as they were; an accepted one puts the new section in force with the checker it asks for. -/
theorem reset_all_or_nothing (m : Mon) (new : Section) (h : Consistent m) :
    (reset m new).2 ≠ .panic ∧
    ((reset m new).2 = .error → (reset m new).1 = m) ∧
    ((reset m new).2 = .ok → (reset m new).1.cfg = new ∧ Consistent (reset m new).1) := by
  unfold reset Consistent kindOf at *
  by_cases hv : new.valid <;> by_cases hc : new.checker = m.cfg.checker <;> by_cases hb : new.buildable <;> simp_all

/-- before 14b5f8c: a section without a checker could not be updated at all -/
theorem old_update_without_checker_panics (m : Mon) (new : Section) (hv : new.valid = true) (hn : new.checker = none) :
    (resetOld m new).2 = .panic := by
  simp [resetOld, hv, hn]

/-- before b695112: a rejected update left a checker in use that no section asks for -/
theorem old_rejected_update_swaps_the_checker :
    let m : Mon := { cfg := { interval := 20, checker := some .redis }, inUse := .redis }
    let new : Section := { interval := 20, checker := some .atcp, buildable := false }
    (resetOld m new).2 = .error ∧ (resetOld m new).1.cfg = m.cfg ∧ (resetOld m new).1.inUse = .tcp ∧ ¬ Consistent (resetOld m new).1 := by
  refine ⟨rfl, rfl, rfl, ?_⟩
  simp [Consistent, kindOf, resetOld]

end SamVerif.Props.C08h

#print axioms SamVerif.Props.C08.inv_run
#print axioms SamVerif.Props.C08.converges_valid
#print axioms SamVerif.Props.C08.converges_none
#print axioms SamVerif.Props.C08.latest_invalid_partial
#print axioms SamVerif.Props.C08.latest_invalid_counterexample
#print axioms SamVerif.Props.C08.old_order_counterexample
#print axioms SamVerif.Props.C08.code_matches_model
#print axioms SamVerif.Props.C08.proc_config_update_matches_model
#print axioms SamVerif.Props.C08h.reset_all_or_nothing
#print axioms SamVerif.Props.C08h.old_update_without_checker_panics
#print axioms SamVerif.Props.C08h.old_rejected_update_swaps_the_checker
