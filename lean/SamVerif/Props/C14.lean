/-
C14 — only supported commands reach backends; writes only reach masters.

`Gen.Commands` (the command tables, the read-only set, how findHandler normalises names) is
regenerated from handler.go / redis.go on every run. `Dispatch.dispatch/candidates` model
handleRequest + handlers + chooseHost and are tied by the differential run through the real
request path. `Spec.RedisFlags.neverModify` is the hand-written list of commands Redis flags
read-only.
-/
import SamVerif.Model.Dispatch
import SamVerif.Spec.RedisFlags
import SamVerif.Gen.Upstream
import SamVerif.Gen.ScanText
import SamVerif.Model.ScanWalk
namespace SamVerif.Props.C14
open SamVerif SamVerif.Dispatch

/-- **The proxy's read-only set is sound**: every command it may send to a replica is one
Redis itself flags as never modifying data. (F-14a/b: `geoadd` and `sort` used to be in it.) -/
theorem readonly_sound : ∀ c ∈ Gen.Commands.readOnlyCommands, c ∈ Spec.RedisFlags.neverModify := by
  decide

/-- **Writes only reach masters**: a forwarded command that can modify data is sent to the
master owning the key's slot under every read strategy, whatever the number of replicas. -/
theorem write_goes_to_master (s : Strategy) (child : Bytes) (nReplicas : Nat)
    (h : Spec.RedisFlags.canModify (asciiLower child) = true) :
    candidates s (isReadOnly child) nReplicas = [.M] := by
  have hro : isReadOnly child = false := by
    unfold isReadOnly
    cases hc : Gen.Commands.readOnlyCommands.contains (asciiLower child) with
    | false => rfl
    | true =>
      have hm : asciiLower child ∈ Gen.Commands.readOnlyCommands := by simpa using hc
      have := readonly_sound _ hm
      unfold Spec.RedisFlags.canModify at h
      simp [this] at h
  simp [candidates, hro]

/-- **Replicas only when the strategy permits**: under MASTER nothing ever goes to a replica. -/
theorem master_strategy_only_master (ro : Bool) (n : Nat) : candidates .master ro n = [.M] := by
  cases ro <;> simp [candidates]

/-- the candidate list is never empty and under REPLICA with at least one replica contains no master -/
theorem replica_strategy (n : Nat) (hn : 0 < n) : ∀ r ∈ candidates .replica true n, r = .R := by
  intro r hr
  have hne : (List.replicate n Role.R).isEmpty = false := by
    cases n with
    | zero => omega
    | succ k => rfl
  simp only [candidates, Bool.not_true, Bool.false_eq_true, ↓reduceIte, hne] at hr
  exact List.eq_of_mem_replicate hr

theorem candidates_nonempty (s : Strategy) (ro : Bool) (n : Nat) : candidates s ro n ≠ [] := by
  unfold candidates
  cases ro
  · simp
  · cases s <;> simp only [Bool.not_true, Bool.false_eq_true, ↓reduceIte] <;>
      (split <;> (first | (simp; done) | (rename_i h; intro e; rw [e] at h; simp at h) | (rename_i h; simp at h ⊢; exact h)))

/-- **Unsupported names are rejected locally**: a name that is not in the supported set after
ASCII lower-casing — whatever its bytes and letter case — is answered with an error and
nothing is forwarded, for every argument count. -/
theorem unsupported_rejected (name : Bytes) (n : Nat) (h : handlerOf (asciiLower name) = none) :
    dispatch name n = .unsupported ∨ dispatch name n = .invalid := by
  unfold dispatch
  by_cases h0 : n = 0
  · right; simp [h0]
  · left; simp [h0, h]

theorem asciiLower_idem (b : Bytes) : asciiLower (asciiLower b) = asciiLower b := by
  unfold asciiLower
  rw [List.map_map]
  apply List.map_congr_left
  intro c _
  simp only [Function.comp]
  by_cases h : 65 ≤ c ∧ c ≤ 90
  · have h2 : ¬ (65 ≤ c + 32 ∧ c + 32 ≤ 90) := by
      obtain ⟨h1, h3⟩ := h
      rw [UInt8.le_iff_toNat_le] at h1 h3
      intro ⟨_, h5⟩
      rw [UInt8.le_iff_toNat_le] at h5
      have : (c + 32).toNat = c.toNat + 32 := by
        rw [UInt8.toNat_add]; simp at h1 h3 ⊢; omega
      simp at h1 h3 h5; omega
    simp [h, h2]
  · simp [h]

/-- **Letter case does not matter** for whether and how a command is handled. -/
theorem case_insensitive (name : Bytes) :
    handlerOf (asciiLower (asciiLower name)) = handlerOf (asciiLower name) := by
  rw [asciiLower_idem]

/-- **Commands answered by the proxy itself**: PING, QUIT, SELECT, INFO, TIME, HOTKEY. -/
theorem local_commands :
    handlerOf [112,105,110,103] = some .ping ∧ handlerOf [113,117,105,116] = some .quit ∧
    handlerOf [115,101,108,101,99,116] = some .select ∧ handlerOf [105,110,102,111] = some .info ∧
    handlerOf [116,105,109,101] = some .time ∧ handlerOf [104,111,116,107,101,121] = some .hotkey := by
  decide

theorem local_never_forwards (name : Bytes) (n : Nat) (k : Kind)
    (hk : handlerOf (asciiLower name) = some k)
    (hl : k = .ping ∨ k = .quit ∨ k = .select ∨ k = .info ∨ k = .time ∨ k = .hotkey) (hn : 0 < n) :
    dispatch name n = .answered k := by
  unfold dispatch
  have : ¬ n = 0 := by omega
  rcases hl with h | h | h | h | h | h <;> subst h <;> simp [this, hk]

/-- KEYS, MULTI, EXEC, SUBSCRIBE, CLUSTER, FLUSHALL, BLPOP, BRPOP … are not supported. -/
theorem well_known_unsupported :
    handlerOf [107,101,121,115] = none ∧ handlerOf [109,117,108,116,105] = none ∧
    handlerOf [101,120,101,99] = none ∧ handlerOf [115,117,98,115,99,114,105,98,101] = none ∧
    handlerOf [99,108,117,115,116,101,114] = none ∧ handlerOf [102,108,117,115,104,97,108,108] = none ∧
    handlerOf [98,108,112,111,112] = none ∧ handlerOf [98,114,112,111,112] = none := by
  decide

/-- Children of split requests carry supported names (the request's own name, `set`, `get`). -/
theorem mset_mget_children_supported :
    handlerOf setName = some .simple ∧ handlerOf getName = some .simple ∧
    isReadOnly setName = false ∧ isReadOnly getName = true := by decide

/-- findHandler normalises names with the ASCII-only lower-casing (F-14c: it used
`strings.ToLower`, under which "HKEYS" found the hkeys handler). -/
theorem normaliser_is_ascii : Gen.Commands.findHandlerNormaliser = "asciiLower" := by decide

/-! Non-vacuity -/
example : dispatch [77,83,69,84] 5 = .forward [(setName, 1), (setName, 3)] := by decide
example : Spec.RedisFlags.canModify [115,111,114,116] = true := by decide      -- sort
example : candidates .both true 2 = [.M, .R, .R] := by decide

/-- **The code the model was written against.** The statements of the modelled functions,
regenerated from the current source on every run, are the ones the model was written against;
any edit to one of them makes this obligation fail and starts a search for a failing input. -/
theorem code_matches_model :
    Gen.Upstream.chooseHost =
      ["hash := crc16(hashtag(routingKey))",
      "inst := u.slots[hash&(slotNum-1)]",
      "if inst == nil { return u.randomHost() }",
      "if !req.IsReadOnly() { return inst.Addr, nil }",
      "// read-only requests var candidates []string",
      "readStrategy := redis.ReadStrategy_MASTER",
      "if option := u.cfg.GetRedisOption(); option != nil { readStrategy = option.ReadStrategy }",
      "switch readStrategy { case redis.ReadStrategy_MASTER: candidates = append(candidates, inst.Addr) case redis.ReadStrategy_BOTH: candidates = append(candidates, inst.Addr) fallthrough case redis.ReadStrategy_REPLICA: for _, replica := range inst.Replicas { candidates = append(candidates, replica.Addr) } }",
      "if len(candidates) == 0 { candidates = append(candidates, inst.Addr) }",
      "i := 0",
      "l := len(candidates)",
      "if l > 1 { i = int(time.Now().UnixNano()) % l }",
      "return candidates[i], nil"] ∧
    Gen.Upstream.doSlotsRefresh =
      ["v := newArray( *newBulkString(\"cluster\"), *newBulkString(\"nodes\"), )",
      "req := newSimpleRequest(v)",
      "addr, err := u.randomHost()",
      "if err != nil { return err }",
      "giveUp := make(chan struct{})",
      "timer := time.NewTimer(slotsRefTimeout)",
      "defer timer.Stop()",
      "go func() { select { case <-req.done: return case <-u.quit: case <-timer.C: } close(giveUp) }()",
      "req.abort = giveUp",
      "u.MakeRequestToHost(addr, req)",
      "select { case <-req.done: case <-giveUp: select { case <-req.done: case <-u.quit: return errors.New(upstreamExited) default: return errors.New(\"no answer to cluster nodes from \" + addr) } }",
      "resp := req.Response()",
      "if resp.Type == Error { return errors.New(string(resp.Text)) }",
      "if resp.Type != BulkString { return errInvalidClusterNodes }",
      "insts, err := parseClusterNodes(string(resp.Text))",
      "if err != nil { return err }",
      "for _, inst := range insts { for _, slot := range inst.Slots { if slot < 0 || slot >= slotNum { continue } u.slots[slot] = inst } }",
      "return nil"] := by
  refine ⟨rfl, rfl⟩

/-- **The code the model was written against.** The statements of the modelled functions,
regenerated from the current source on every run, are the ones the model was written against;
any edit to one of them makes this obligation fail and starts a search for a failing input. -/
theorem scan_walk_matches_model :
    Gen.ScanText.handleScan =
      ["scanReq, err := newScanRequest(req)",
      "if err != nil { req.SetResponse(newError(err.Error())) return }",
      "nodeIdx, simpleReq := scanReq.Convert()",
      "addrs := scanAddrs(u)",
      "if int(nodeIdx) >= len(addrs) { req.SetResponse(respScanTerm) return }",
      "u.MakeRequestToHost(addrs[nodeIdx], simpleReq)"] ∧
    Gen.ScanText.scanAddrs =
      ["var ( addrs []string seen = make(map[string]struct{}) )",
      "for i := range u.slots { inst := u.slots[i] if inst == nil { continue } if _, ok := seen[inst.Addr]; !ok { seen[inst.Addr] = struct{}{} addrs = append(addrs, inst.Addr) } }",
      "if len(addrs) == 0 { for _, h := range u.Hosts() { addrs = append(addrs, h.Addr) } return addrs }",
      "sort.Strings(addrs)",
      "return addrs"] := by
  refine ⟨rfl, rfl⟩

end SamVerif.Props.C14

namespace SamVerif.Props.C14s
open SamVerif.ScanWalk

/-- **SCAN is sent to masters only, and to every master** (under every read strategy): once the routing table knows any slot, the
nodes a SCAN iteration walks over are exactly the masters of the table — no replica, no configured host that owns nothing, and no
master left out (so every key is met once). -/
theorem scan_walks_exactly_the_masters (table : List (Option Nat)) (hosts : List Nat) (h : ∃ m, some m ∈ table) (a : Nat) :
    a ∈ scanAddrs table hosts ↔ some a ∈ table := by
  obtain ⟨m, hm⟩ := h
  have hne : ((table.filterMap id).eraseDups).isEmpty = false := by
    have : m ∈ (table.filterMap id).eraseDups := by
      rw [List.mem_eraseDups, List.mem_filterMap]; exact ⟨some m, hm, rfl⟩
    cases hl : (table.filterMap id).eraseDups with
    | nil => rw [hl] at this; cases this
    | cons x xs => rfl
  unfold scanAddrs
  simp only [hne, Bool.false_eq_true, ↓reduceIte, List.mem_mergeSort, List.mem_eraseDups, List.mem_filterMap, id]
  constructor
  · rintro ⟨x, hx, rfl⟩; exact hx
  · intro ha; exact ⟨some a, ha, rfl⟩

/-- with no slot known the walk falls back to the configured hosts -/
theorem scan_falls_back_to_hosts (table : List (Option Nat)) (hosts : List Nat) (h : ∀ m, some m ∉ table) :
    scanAddrs table hosts = hosts := by
  have : (table.filterMap id) = [] := by
    rw [List.filterMap_eq_nil_iff]
    intro x hx
    cases x with
    | none => rfl
    | some m => exact absurd hx (h m)
  simp [scanAddrs, this]

/-- the hypothesis is met by any table that knows a slot; a replica (9) among the configured hosts is not walked -/
example : 9 ∉ scanAddrs [some 7, none, some 3, some 7] [1, 2, 3, 7, 9] := by
  rw [scan_walks_exactly_the_masters _ _ ⟨7, by simp⟩]; simp

end SamVerif.Props.C14s

#print axioms SamVerif.Props.C14.readonly_sound
#print axioms SamVerif.Props.C14.write_goes_to_master
#print axioms SamVerif.Props.C14.master_strategy_only_master
#print axioms SamVerif.Props.C14.replica_strategy
#print axioms SamVerif.Props.C14.unsupported_rejected
#print axioms SamVerif.Props.C14.case_insensitive
#print axioms SamVerif.Props.C14.local_commands
#print axioms SamVerif.Props.C14.local_never_forwards
#print axioms SamVerif.Props.C14.well_known_unsupported
#print axioms SamVerif.Props.C14.normaliser_is_ascii
#print axioms SamVerif.Props.C14.code_matches_model
#print axioms SamVerif.Props.C14.scan_walk_matches_model
#print axioms SamVerif.Props.C14s.scan_walks_exactly_the_masters
#print axioms SamVerif.Props.C14s.scan_falls_back_to_hosts
