/-
C15 — host set and health checking keep a consistent view of usable hosts.

`HostSet.*` models host/host.go (as repaired by a910fb8) with object identity, and the
monitor's rise/fall counting; tied to the Go code by the differential run on the real
host.Set (public API) and the real Monitor with a scripted checker.
-/
import SamVerif.Proofs.HostSet
import SamVerif.Proofs.HostSetConc
import SamVerif.Gen.HostSet
namespace SamVerif.Props.C15
open SamVerif.HostSet SamVerif.Proofs.HostSet

/-- operations on the set -/
inductive Op where
  | add (os : List Obj)
  | remove (os : List Obj)
  | replaceAll (os : List Obj)
  | mark (o : Obj) (healthy : Bool)

def objsOf : Op → List Obj
  | .add os => os
  | .remove os => os
  | .replaceAll os => os
  | .mark o _ => [o]

def step (s : State) : Op → State
  | .add os => add s os
  | .remove os => remove s os
  | .replaceAll os => replaceAll s os
  | .mark o h => (mark s o h).1

def run (s : State) (ops : List Op) : State := ops.foldl step s

theorem regOk_mark (attr : Nat → Nat × Bool) (s : State) (o : Obj) (h : Bool) (hr : RegOk attr s) :
    RegOk attr (mark s o h).1 := by
  unfold mark
  by_cases hfl : s.flag o.id = h
  · simpa [hfl] using hr
  · simp only [hfl, ↓reduceIte]; exact hr

/-- the invariant holds after every history of well-formed operations (objects are immutable:
the same id always carries the same address and type) -/
theorem inv_run (attr : Nat → Nat × Bool) : ∀ (ops : List Op) (s : State),
    (∀ op ∈ ops, ∀ o ∈ objsOf op, WF attr o) → Inv s → RegOk attr s →
    Inv (run s ops) ∧ RegOk attr (run s ops) := by
  intro ops
  induction ops with
  | nil => intro s _ h hr; exact ⟨h, hr⟩
  | cons op rest ih =>
    intro s hw h hr
    have hwo := hw op (by simp)
    have hrest : ∀ op' ∈ rest, ∀ o ∈ objsOf op', WF attr o := fun op' h' => hw op' (by simp [h'])
    cases op with
    | add os => have := inv_add attr os s hwo h hr; exact ih _ hrest this.1 this.2
    | remove os => have := inv_remove attr os s hwo h hr; exact ih _ hrest this.1 this.2
    | replaceAll os => have := inv_replaceAll attr os s hwo h hr; exact ih _ hrest this.1 this.2
    | mark o hl =>
      have hc := consistent_of_wf attr s o (hwo o (by simp [objsOf])) hr
      exact ih _ hrest (inv_mark s o hl h hc) (regOk_mark attr s o hl hr)

theorem regOk_init (attr : Nat → Nat × Bool) : RegOk attr init := by
  intro i x h; simp [init] at h

/-- **The usable hosts are exactly the members currently marked healthy in the preferred
tier**: after every sequence of additions, removals, replacements and health marks (for any
objects, members or not, fresh or re-used, same address under another type, duplicates in one
call), what `Healthy()` returns equals the specification computed from membership, type and
health flag alone. -/
theorem usable_correct (attr : Nat → Nat × Bool) (ops : List Op)
    (hw : ∀ op ∈ ops, ∀ o ∈ objsOf op, WF attr o) :
    healthy (run init ops) = usableSpec (run init ops) :=
  healthy_eq_spec _ (inv_run attr ops init hw inv_init (regOk_init attr)).1

/-- insertion by address keeps the list strictly ascending in address (hence no address twice) -/
theorem insertByAddr_sorted (p : Nat × Nat) (l : List (Nat × Nat))
    (hl : l.Pairwise (fun x y => x.1 < y.1)) : (insertByAddr p l).Pairwise (fun x y => x.1 < y.1) := by
  induction l with
  | nil => simp [insertByAddr]
  | cons x xs ih =>
    rw [List.pairwise_cons] at hl
    simp only [insertByAddr]
    split
    · rename_i hlt
      rw [List.pairwise_cons]
      refine ⟨?_, ih hl.2⟩
      intro y hy
      have : y = p ∨ y ∈ xs := by
        clear ih hl
        induction xs with
        | nil => simp [insertByAddr] at hy; exact Or.inl hy
        | cons z zs ihz =>
          simp only [insertByAddr] at hy
          split at hy
          · simp only [List.mem_cons] at hy
            rcases hy with hy | hy
            · right; simp [hy]
            · rcases ihz hy with h | h
              · left; exact h
              · right; simp [h]
          · split at hy
            · right; exact hy
            · simp only [List.mem_cons] at hy
              rcases hy with hy | hy | hy
              · left; exact hy
              · right; simp [hy]
              · right; simp [hy]
      rcases this with h | h
      · subst h; exact hlt
      · exact hl.1 y h
    · split
      · rw [List.pairwise_cons]; exact hl
      · rename_i h1 h2
        rw [List.pairwise_cons, List.pairwise_cons]
        refine ⟨?_, hl.1, hl.2⟩
        intro y hy
        simp only [List.mem_cons] at hy
        rcases hy with hy | hy
        · subst hy; omega
        · have := hl.1 y hy; omega

/-- **Sorted by address, no duplicates**: the usable list is strictly ascending in address. -/
theorem usable_sorted (s : State) : (usableSpec s).Pairwise (fun x y => x.1 < y.1) := by
  have key : ∀ (l : List (Nat × Nat)), (l.foldr insertByAddr []).Pairwise (fun x y => x.1 < y.1) := by
    intro l
    induction l with
    | nil => simp
    | cons x xs ih => exact insertByAddr_sorted x _ ih
  unfold usableSpec
  simp only
  split <;> exact key _

/-- **A removed host is never reported**: right after `Remove`, nothing is stored under the
address, whatever object the caller passed (the stored one or an equal copy) … -/
theorem removed_not_member (s : State) (o : Obj) : (removeOne s o).all o.addr = none := by
  simp [removeOne, upd]

/-- … and the removal latch of the object that *was stored* is closed (so that connections
established to it are closed; F-06a). -/
theorem remove_latches_stored (s : State) (o : Obj) (st : Nat) (h : s.all o.addr = some st) :
    (removeOne s o).removed st = true := by
  simp only [removeOne, upd, h]
  by_cases hs : st = o.id <;> simp [hs]

/-! ### hysteresis -/

/-- number of most recent outcomes equal to `v` (history newest first) -/
def trail (v : Bool) : List Bool → Nat
  | [] => 0
  | x :: xs => if x = v then trail v xs + 1 else 0

/-- the counters never exceed the current run of equal outcomes -/
theorem counts_le_trail (rise fall : Nat) : ∀ (outs : List Bool) (h : Health) (hist : List Bool),
    h.fail ≤ trail false hist → h.succ ≤ trail true hist →
    (runChecks rise fall h outs).fail ≤ trail false (outs.reverse ++ hist) ∧
    (runChecks rise fall h outs).succ ≤ trail true (outs.reverse ++ hist) := by
  intro outs
  induction outs with
  | nil => intro h hist h1 h2; exact ⟨h1, h2⟩
  | cons o os ih =>
    intro h hist h1 h2
    simp only [runChecks, List.reverse_cons, List.append_assoc, List.singleton_append]
    apply ih
    · cases o
      · simp only [check, Bool.false_eq_true, ↓reduceIte, trail]
        split <;> simp only [] <;> omega
      · simp only [check, ↓reduceIte, trail, Bool.true_eq_false]
        split <;> simp only [] <;> omega
    · cases o
      · simp only [check, Bool.false_eq_true, ↓reduceIte, trail]
        split <;> simp only [] <;> omega
      · simp only [check, ↓reduceIte, trail]
        split <;> simp only [] <;> omega

/-- **Hysteresis.** Whatever the earlier check outcomes were: if a check result flips the
host's health, then at least `threshold + 1` most recent outcomes (this one included) were all
contrary to the previous state — any opposite result in between restarted the count — and this
holds for falling and for rising alike. -/
theorem flip_needs_run (rise fall : Nat) (outs : List Bool) (o : Bool) :
    ((runChecks rise fall ⟨true, 0, 0⟩ outs).healthy = true →
      (check rise fall (runChecks rise fall ⟨true, 0, 0⟩ outs) o).healthy = false →
      fall + 1 ≤ trail false (o :: outs.reverse)) ∧
    ((runChecks rise fall ⟨true, 0, 0⟩ outs).healthy = false →
      (check rise fall (runChecks rise fall ⟨true, 0, 0⟩ outs) o).healthy = true →
      rise + 1 ≤ trail true (o :: outs.reverse)) := by
  have hj := counts_le_trail rise fall outs ⟨true, 0, 0⟩ [] (by simp [trail]) (by simp [trail])
  simp only [List.append_nil] at hj
  generalize runChecks rise fall ⟨true, 0, 0⟩ outs = h at hj
  obtain ⟨hj1, hj2⟩ := hj
  constructor
  · intro hh hh'
    cases o
    · simp only [check, Bool.false_eq_true, ↓reduceIte] at hh'
      simp only [trail, ↓reduceIte]
      split at hh'
      · omega
      · simp only at hh'; rw [hh] at hh'; simp at hh'
    · simp only [check, ↓reduceIte] at hh'
      split at hh'
      · simp at hh'
      · simp only at hh'; rw [hh] at hh'; simp at hh'
  · intro hh hh'
    cases o
    · simp only [check, Bool.false_eq_true, ↓reduceIte] at hh'
      split at hh'
      · simp at hh'
      · simp only at hh'; rw [hh] at hh'; simp at hh'
    · simp only [check, ↓reduceIte] at hh'
      simp only [trail, ↓reduceIte]
      split at hh'
      · omega
      · simp only at hh'; rw [hh] at hh'; simp at hh'

/-! Non-vacuity: the controller-style history of F-15c -/
def o1 : Obj := ⟨1, 7, true⟩
def o2 : Obj := ⟨2, 7, true⟩
def o3 : Obj := ⟨3, 7, true⟩
example : healthy (run init [.add [o1], .remove [o2], .add [o3], .mark o1 false]) = [(7, 3)] := by decide
example : runChecks 2 2 ⟨true, 0, 0⟩ [false, false, true, false, false, false] = ⟨false, 0, 0⟩ := by decide


/-! ### whatever leaves the set is latched -/

/-- the invariant behind "removal closes established connections": an object that was stored
and is not stored any more has its removal latch closed, or it is still the object stored under
its address.  `Latched s0 s`: every object stored in `s0` is stored at the same address in `s` or latched in `s`. -/
def Latched (s0 s : State) : Prop := ∀ a old, s0.all a = some old → s.all a = some old ∨ s.removed old = true

theorem latched_refl (s : State) : Latched s s := fun _ _ h => Or.inl h

theorem addOne_keeps_or_latches (s : State) (o : Obj) (a old : Nat) (h : s.all a = some old) :
    (addOne s o).all a = some old ∨ (addOne s o).removed old = true := by
  unfold addOne
  split
  · exact Or.inl h
  · rename_i hne
    by_cases ha : a = o.addr
    · subst ha
      by_cases hid : old = o.id
      · left; simp [addOneRepl, upd, hid]
      · right
        have ht : storedTier s o.addr (some o.id) = some (typOf s old) := by
          simp [storedTier, h, hid]
        simp [addOneRepl, ht, h, upd]
    · left; simp [addOneRepl, upd, ha, h]

theorem addOne_removed_mono (s : State) (o : Obj) (i : Nat) (h : s.removed i = true) : (addOne s o).removed i = true := by
  unfold addOne
  split
  · exact h
  · simp only [addOneRepl]
    split <;> simp [upd, h] <;> (intro _; exact h)

theorem removeOne_keeps_or_latches (s : State) (o : Obj) (a old : Nat) (h : s.all a = some old) :
    (removeOne s o).all a = some old ∨ (removeOne s o).removed old = true := by
  by_cases ha : a = o.addr
  · subst ha
    right
    simp [removeOne, h, upd]
  · left; simp [removeOne, upd, ha, h]

theorem removeOne_removed_mono (s : State) (o : Obj) (i : Nat) (h : s.removed i = true) : (removeOne s o).removed i = true := by
  simp only [removeOne]
  cases hs : s.all o.addr <;> simp [upd, h]

theorem mark_all_removed (s : State) (o : Obj) (hl : Bool) : (mark s o hl).1.all = s.all ∧ (mark s o hl).1.removed = s.removed := by
  unfold mark
  split <;> exact ⟨rfl, rfl⟩

theorem latched_fold (f : State → Obj → State)
    (hk : ∀ s o a old, s.all a = some old → (f s o).all a = some old ∨ (f s o).removed old = true)
    (hm : ∀ s o i, s.removed i = true → (f s o).removed i = true) :
    ∀ (os : List Obj) (s0 s : State), Latched s0 s → (∀ i, s0.removed i = true → s.removed i = true) →
      Latched s0 (os.foldl f s) ∧ (∀ i, s0.removed i = true → (os.foldl f s).removed i = true) := by
  intro os
  induction os with
  | nil => intro s0 s h hmono; exact ⟨h, hmono⟩
  | cons o os ih =>
    intro s0 s h hmono
    apply ih s0 (f s o)
    · intro a old hold
      rcases h a old hold with h1 | h1
      · exact hk s o a old h1
      · exact Or.inr (hm s o old h1)
    · intro i hi; exact hm s o i (hmono i hi)

/-- **Whatever leaves the set is latched, after every history.**  For every sequence of additions
(also of hosts that are already members, as equal or as differently typed objects), removals,
replacements and health marks: an object that was stored at the start is still the stored object of
its address, or its removal latch is closed — so the connections established through it are told. -/
theorem retired_objects_are_latched : ∀ (ops : List Op) (s0 s : State), Latched s0 s →
    (∀ i, s0.removed i = true → s.removed i = true) →
    Latched s0 (run s ops) ∧ (∀ i, s0.removed i = true → (run s ops).removed i = true) := by
  intro ops
  induction ops with
  | nil => intro s0 s h hm; exact ⟨h, hm⟩
  | cons op rest ih =>
    intro s0 s h hm
    simp only [run, List.foldl_cons]
    apply ih
    all_goals
      cases op with
      | add os =>
        have := latched_fold addOne addOne_keeps_or_latches addOne_removed_mono os s0 s h hm
        first | exact this.1 | exact this.2
      | remove os =>
        have := latched_fold removeOne removeOne_keeps_or_latches removeOne_removed_mono os s0 s h hm
        first | exact this.1 | exact this.2
      | replaceAll os =>
        have h1 := latched_fold removeOne removeOne_keeps_or_latches removeOne_removed_mono (stored s) s0 s h hm
        have h2 := latched_fold addOne addOne_keeps_or_latches addOne_removed_mono os s0 _ h1.1 h1.2
        first | exact h2.1 | exact h2.2
      | mark o hl =>
        have hx := mark_all_removed s o hl
        first
          | (intro a old hold; simp only [step]; rw [hx.1, hx.2]; exact h a old hold)
          | (intro i hi; simp only [step]; rw [hx.2]; exact hm i hi)

/-- the defect that was repaired (F-06b): re-adding a member as a fresh equal object replaced the
stored object without latching it; the later removal latched the newcomer only -/
example :
    let o1 : Obj := ⟨1, 7, true⟩
    let o2 : Obj := ⟨2, 7, true⟩
    let s := run init [.add [o1], .add [o2], .remove [o2]]
    s.all 7 = none ∧ s.removed 1 = true := by
  refine ⟨by decide, by decide⟩

/-! ### concurrent interleavings of marks with set operations -/

theorem run_append (s : State) (xs ys : List Op) : run s (xs ++ ys) = run (run s xs) ys := by
  unfold run; exact List.foldl_append

/-- an atomic state is the result of a history of atomic operations -/
theorem atomic_history (attr : Nat → Nat × Bool) (a : State) (h : Atomic attr a) :
    ∃ aops : List Op, (∀ op ∈ aops, ∀ o ∈ objsOf op, WF attr o) ∧ a = run init aops := by
  induction h with
  | init => exact ⟨[], by simp, rfl⟩
  | addOne o hw _ ih =>
    obtain ⟨aops, hW, hE⟩ := ih
    refine ⟨aops ++ [.add [o]], ?_, ?_⟩
    · intro op hop x hx
      simp only [List.mem_append, List.mem_singleton] at hop
      rcases hop with hop | hop
      · exact hW op hop x hx
      · subst hop; simp only [objsOf, List.mem_singleton] at hx; subst hx; exact hw
    · rw [run_append, ← hE]; rfl
  | removeOne o hw _ ih =>
    obtain ⟨aops, hW, hE⟩ := ih
    refine ⟨aops ++ [.remove [o]], ?_, ?_⟩
    · intro op hop x hx
      simp only [List.mem_append, List.mem_singleton] at hop
      rcases hop with hop | hop
      · exact hW op hop x hx
      · subst hop; simp only [objsOf, List.mem_singleton] at hx; subst hx; exact hw
    · rw [run_append, ← hE]; rfl
  | mark o p hw _ ih =>
    obtain ⟨aops, hW, hE⟩ := ih
    refine ⟨aops ++ [.mark o p], ?_, ?_⟩
    · intro op hop x hx
      simp only [List.mem_append, List.mem_singleton] at hop
      rcases hop with hop | hop
      · exact hW op hop x hx
      · subst hop; simp only [objsOf, List.mem_singleton] at hx; subst hx; exact hw
    · rw [run_append, ← hE]; rfl

/-- **Concurrent marks refine atomic ones.** `MarkHostHealthy`/`MarkHostUnhealthy` flip the flag
outside the lock and update the maps under it; additions, removals and replacements (which hold
the lock throughout) may run in between, in any number and order, for any objects.  After every
such interleaving (at most one mark in flight per host object, as the monitor guarantees) there
is a history of *atomic* operations whose state has exactly the same members, maps, latches and
registry, and the same flags except for the marks still in flight. -/
theorem concurrent_refines_atomic (attr : Nat → Nat × Bool) (cops : List COp) (c : CS)
    (hw : ∀ op ∈ cops, ∀ o ∈ op.objs, WF attr o) (h : crun { st := init } cops = some c) :
    ∃ aops : List Op, (∀ op ∈ aops, ∀ o ∈ objsOf op, WF attr o) ∧
      c.st = withFlag (run init aops) c.st.flag ∧
      ∀ i, c.pend i = false → (run init aops).flag i = c.st.flag i := by
  obtain ⟨a, ha, hst, hag⟩ := ghost_run attr cops _ c hw (ghost_init attr) h
  obtain ⟨aops, hW, hE⟩ := atomic_history attr a ha
  exact ⟨aops, hW, by rw [← hE]; exact hst, by rw [← hE]; exact hag⟩

/-- **With no mark in flight the usable hosts are exactly the healthy members of the preferred
tier** — after any concurrent interleaving. -/
theorem concurrent_usable_correct (attr : Nat → Nat × Bool) (cops : List COp) (c : CS)
    (hw : ∀ op ∈ cops, ∀ o ∈ op.objs, WF attr o) (h : crun { st := init } cops = some c)
    (hrest : ∀ i, c.pend i = false) : healthy c.st = usableSpec c.st := by
  obtain ⟨a, ha, hst, hag⟩ := ghost_run attr cops _ c hw (ghost_init attr) h
  have hf : a.flag = c.st.flag := funext fun i => hag i (hrest i)
  have : c.st = a := by rw [hst, ← hf]; rfl
  rw [this]
  exact healthy_eq_spec a (atomic_inv attr a ha).1

theorem mem_insertByAddr (p y : Nat × Nat) : ∀ (l : List (Nat × Nat)), y ∈ insertByAddr p l → y = p ∨ y ∈ l := by
  intro l
  induction l with
  | nil => intro hy; simp [insertByAddr] at hy; exact Or.inl hy
  | cons z zs ih =>
    intro hy
    simp only [insertByAddr] at hy
    split at hy
    · simp only [List.mem_cons] at hy
      rcases hy with hy | hy
      · right; simp [hy]
      · rcases ih hy with h | h
        · left; exact h
        · right; simp [h]
    · split at hy
      · right; exact hy
      · simp only [List.mem_cons] at hy
        rcases hy with hy | hy | hy
        · left; exact hy
        · right; simp [hy]
        · right; simp [hy]

theorem mem_entries (s : State) (m : Nat → Option Nat) (y : Nat × Nat) (h : y ∈ entries s m) : m y.1 = some y.2 := by
  unfold entries at h
  have key : ∀ (l : List (Nat × Nat)), y ∈ l.foldr insertByAddr [] → y ∈ l := by
    intro l
    induction l with
    | nil => intro hy; simp at hy
    | cons x xs ih =>
      intro hy
      simp only [List.foldr_cons] at hy
      rcases mem_insertByAddr x y _ hy with e | e
      · simp [e]
      · exact List.mem_cons_of_mem _ (ih e)
  have := key _ h
  simp only [List.mem_filterMap, Option.map_eq_some_iff] at this
  obtain ⟨a, _, i, hi, he⟩ := this
  subst he
  exact hi

/-- **Even with marks in flight, only members are reported** — whatever `Healthy()` returns at any
point of any interleaving is an object currently stored under that address (so a removed host is
never reported or selected), and it is flagged healthy unless a mark on it is in flight. -/
theorem concurrent_reports_members_only (attr : Nat → Nat × Bool) (cops : List COp) (c : CS)
    (hw : ∀ op ∈ cops, ∀ o ∈ op.objs, WF attr o) (h : crun { st := init } cops = some c)
    (y : Nat × Nat) (hy : y ∈ healthy c.st) :
    c.st.all y.1 = some y.2 ∧ (c.pend y.2 = false → c.st.flag y.2 = true) := by
  obtain ⟨a, ha, hst, hag⟩ := ghost_run attr cops _ c hw (ghost_init attr) h
  have hi := (atomic_inv attr a ha).1
  have hh : healthy c.st = healthy a := by rw [hst]; rfl
  have hall : c.st.all = a.all := by rw [hst]; rfl
  rw [hh] at hy
  have hmem : a.all y.1 = some y.2 ∧ a.flag y.2 = true := by
    unfold healthy at hy
    simp only at hy
    split at hy
    · have := (hi.backup y.1 y.2).mp (mem_entries a a.hBackup y hy); exact ⟨this.1, this.2.2⟩
    · have := (hi.main y.1 y.2).mp (mem_entries a a.hMain y hy); exact ⟨this.1, this.2.2⟩
  exact ⟨by rw [hall]; exact hmem.1, fun hp => by rw [← hag y.2 hp]; exact hmem.2⟩

/-- the premises are satisfiable and the interleaving matters: host 1 (address 7) is marked
unhealthy; between the two halves of the mark it is removed and re-added as a fresh object -/
example : ∃ c, crun { st := init }
    [.add [⟨1, 7, true⟩], .cas ⟨1, 7, true⟩ false, .remove [⟨1, 7, true⟩], .add [⟨2, 7, true⟩], .apply ⟨1, 7, true⟩] = some c
    ∧ healthy c.st = [(7, 2)] := ⟨_, rfl, by decide⟩

/-- **Why one mark per object at a time matters** (the monitor checks every host once per round
and waits for the round to finish): were two marks of the same object allowed to overlap — the
CAS of "unhealthy", the CAS of "healthy", then the locked halves in that order — the object would
end flagged healthy, a member, and missing from the usable hosts. -/
theorem overlapping_marks_would_lose_a_host :
    let o : Obj := ⟨1, 7, true⟩
    let s0 := add init [o]
    let s1 := markCas s0 o false
    let s2 := markCas s1 o true
    let s3 := (markApply s2 o true).1
    let s4 := (markApply s3 o false).1
    s4.flag 1 = true ∧ s4.all 7 = some 1 ∧ healthy s4 = [] ∧ usableSpec s4 = [(7, 1)] := by
  decide

/-- **The code the model was written against.** The statements of the modelled functions,
regenerated from the current source on every run, are the ones the model was written against;
any edit to one of them makes this obligation fail and starts a search for a failing input. -/
theorem code_matches_model :
    Gen.HostSet.setAdd =
      ["if len(hosts) == 0 { return }",
      "for _, host := range hosts { if old, ok := set.all[host.Addr]; ok && old != host { if IsEqual(old, host) { continue } set.dropHealthy(old) old.markRemoved() } set.all[host.Addr] = host if host.IsHealthy() { set.putHealthy(host) } }",
      "set.buildHealthyCache()"] ∧
    Gen.HostSet.setRemove =
      ["if len(hosts) == 0 { return }",
      "for _, host := range hosts { if stored, ok := set.all[host.Addr]; ok { delete(set.all, host.Addr) stored.markRemoved() set.dropHealthy(stored) } host.markRemoved() }",
      "set.removeFromHealthy(hosts...)"] ∧
    Gen.HostSet.dropHealthy =
      ["switch h.Type { case TypeMain: delete(set.healthyMain, h.Addr) case TypeBackup: delete(set.healthyBackup, h.Addr) }"] ∧
    Gen.HostSet.addToHealthy =
      ["if len(host) == 0 { return }",
      "for _, h := range host { if h == nil { continue } switch h.Type { case TypeMain: set.healthyMain[h.Addr] = h case TypeBackup: set.healthyBackup[h.Addr] = h default: continue } }",
      "set.buildHealthyCache()"] ∧
    Gen.HostSet.putHealthy =
      ["switch h.Type { case TypeMain: set.healthyMain[h.Addr] = h case TypeBackup: set.healthyBackup[h.Addr] = h }"] ∧
    Gen.HostSet.removeFromHealthy =
      ["if len(host) == 0 { return }",
      "for _, h := range host { if h == nil { continue } switch h.Type { case TypeMain: delete(set.healthyMain, h.Addr) case TypeBackup: delete(set.healthyBackup, h.Addr) default: continue } }",
      "set.buildHealthyCache()"] ∧
    Gen.HostSet.buildHealthyCache =
      ["hostMap := set.healthy()",
      "keys := make([]string, 0, len(hostMap))",
      "for k := range hostMap { keys = append(keys, k) }",
      "sort.Strings(keys)",
      "hosts := make([]*Host, 0, len(hostMap))",
      "for _, k := range keys { hosts = append(hosts, hostMap[k]) }",
      "set.healthyCache.Store(hosts)"] ∧
    Gen.HostSet.markHealthy =
      ["if !host.setHealthy() { return false }",
      "verifPause(\"set.mark.flagged\", host)",
      "set.Lock()",
      "defer set.Unlock()",
      "if stored, ok := set.all[host.Addr]; !ok || stored != host { return false }",
      "set.addToHealthy(host)",
      "return true"] ∧
    Gen.HostSet.markUnhealthy =
      ["if !host.setUnhealthy() { return false }",
      "verifPause(\"set.mark.flagged\", host)",
      "set.Lock()",
      "defer set.Unlock()",
      "if stored, ok := set.all[host.Addr]; !ok || stored != host { return false }",
      "set.removeFromHealthy(host)",
      "return true"] ∧
    Gen.HostSet.healthyTier =
      ["healthyHosts := set.healthyMain",
      "if len(healthyHosts) == 0 { healthyHosts = set.healthyBackup }",
      "return healthyHosts"] ∧
    Gen.HostSet.healthyList =
      ["hosts, _ := set.healthyCache.Load().([]*Host)",
      "return hosts"] ∧
    Gen.HostSet.replaceAll =
      ["set.Lock()",
      "defer set.Unlock()",
      "for addr, host := range set.all { delete(set.all, addr) host.markRemoved() set.dropHealthy(host) }",
      "set.add(hosts...)",
      "set.buildHealthyCache()"] ∧
    Gen.HostSet.setHealthyFlag =
      ["stats.successfulCount.Store(0)",
      "stats.failedCount.Store(0)",
      "return stats.isHealthy.CAS(false, true)"] ∧
    Gen.HostSet.setUnhealthyFlag =
      ["stats.successfulCount.Store(0)",
      "stats.failedCount.Store(0)",
      "return stats.isHealthy.CAS(true, false)"] ∧
    Gen.HostSet.incFailed =
      ["stats.successfulCount.Store(0)",
      "return stats.failedCount.Inc()"] ∧
    Gen.HostSet.incSuccessful =
      ["stats.failedCount.Store(0)",
      "return stats.successfulCount.Inc()"] ∧
    Gen.HostSet.markRemoved =
      ["h.removeOnce.Do(func() { close(h.removeCh) })"] ∧
    Gen.HostSet.checkHostAndUpdateStatus =
      ["if m.checkHost(host) { if host.IncSuccessfulCount() > uint64(m.config.RiseThreshold) { if m.hostSet.MarkHostHealthy(host) { m.logger.Infof(\"Host %s is healthy\", host) } } return }",
      "if host.IncFailedCount() > uint64(m.config.FallThreshold) { if m.hostSet.MarkHostUnhealthy(host) { m.logger.Warnf(\"Host %s is unhealthy\", host) } }"] ∧
    Gen.HostSet.checkHosts =
      ["hosts := m.hostSet.All()",
      "var ( concurrency = MinInt(len(hosts), MaximumConcurrency) hostCh = make(chan *hostpkg.Host, concurrency) wg sync.WaitGroup )",
      "go func() { for _, host := range hosts { hostCh <- host } close(hostCh) }()",
      "for i := 0; i < concurrency; i++ { wg.Add(1) go func() { for host := range hostCh { m.checkHostAndUpdateStatus(host) } wg.Done() }() }",
      "wg.Wait()"] := by
  refine ⟨rfl, rfl, rfl, rfl, rfl, rfl, rfl, rfl, rfl, rfl, rfl, rfl, rfl, rfl, rfl, rfl, rfl, rfl, rfl⟩

end SamVerif.Props.C15

#print axioms SamVerif.Props.C15.usable_correct
#print axioms SamVerif.Props.C15.usable_sorted
#print axioms SamVerif.Props.C15.retired_objects_are_latched
#print axioms SamVerif.Props.C15.removed_not_member
#print axioms SamVerif.Props.C15.remove_latches_stored
#print axioms SamVerif.Props.C15.flip_needs_run
#print axioms SamVerif.Props.C15.concurrent_refines_atomic
#print axioms SamVerif.Props.C15.concurrent_usable_correct
#print axioms SamVerif.Props.C15.concurrent_reports_members_only
#print axioms SamVerif.Props.C15.overlapping_marks_would_lose_a_host
#print axioms SamVerif.Props.C15.code_matches_model
