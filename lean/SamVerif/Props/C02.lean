/-
C02 — every request handed to a backend connection is answered exactly once, whatever the
timing of connection loss, backend close and shutdown.

`Client.step` is the labelled transition system of proc/redis/upstream.go's `client` as repaired:
  508a3c1  the writer answers the request it holds when the connection quits           (F-02a)
  65fa5ab  Send enqueues under a read lock, the final drain starts under the write lock  (F-02b/c)
  87ff5ea  the reader does not wait for ever for the request of an unsolicited reply     (F-02d)
  2a2e081  the writer's exit closes the quit latch                                        (F-02e)
The statements of the functions involved are regenerated from the source on every run and
compared with what the model was written against (`code_matches_model`); behaviour is tied by
the differential run of the real connection under forced interleavings (pause points), where
the driver explores every interleaving of the model that the forced schedule allows and checks
that the observed outcome is one of them.
-/
import SamVerif.Proofs.Client
import SamVerif.Gen.Client
namespace SamVerif.Props.C02
open SamVerif.Client

/-- **Never twice.** In every reachable state — any interleaving of senders, writer, reader,
Start's tail, Stop and connection failures — no Send call has been completed more than once. -/
theorem answered_at_most_once (cap : Nat) (ls : List Label) (s : Cl) (h : run (init cap) ls = some s) (id : Nat) :
    (ansIds s).count id ≤ 1 := by
  have hi := inv_run ls _ s (inv_init cap) h
  have hp := hi.part id
  have hf := hi.fresh id
  unfold cnt at hp
  omega

/-- **Exactly once.** Once the connection is done (Start has returned), every Send call made
so far — before, during or after the shutdown — has been completed exactly once, and nothing is
left in a queue, in the writer's hand or inside Send; a Send call that is still waiting for its turn
is answered as soon as it takes it (`waiting_send_after_done_answered`: the turn is free). -/
theorem all_answered_when_done (cap : Nat) (ls : List Label) (s : Cl) (h : run (init cap) ls = some s)
    (hd : s.done = true) : places s = s.waiting ∧ ∀ id ∈ s.accepted, id ∉ s.waiting → (ansIds s).count id = 1 := by
  have hi := inv_run ls _ s (inv_init cap) h
  have hfin := hi.doneIff.mp hd
  have hq := hi.finishedEmpty hfin
  have hw := hi.writerGone (Or.inr (Or.inr hfin))
  have hl := hi.drainedNoLocked (hi.drainedIff.mpr (Or.inr hfin))
  have hpl : places s = s.waiting := by simp [places, hl, hq.1, hq.2, inWriter, hw]
  refine ⟨hpl, ?_⟩
  intro id hid hnw
  have hp := hi.part id
  have hf := hi.fresh id
  have hpos : 0 < s.accepted.count id := List.count_pos_iff.mpr hid
  have hz : s.waiting.count id = 0 := List.count_eq_zero.mpr hnw
  unfold cnt at hp
  rw [hpl, hz] at hp
  omega

/-- a Send call that arrives after the drain waits for its turn like every other -/
theorem send_after_done_accepted (s : Cl) (id : Nat) (hf : id ∉ s.accepted) :
    ∃ s', step s (.sendBegin id) = some s' ∧ id ∈ s'.waiting := by
  refine ⟨{ s with accepted := id :: s.accepted, waiting := id :: s.waiting }, by simp [step, hf], by simp⟩

/-- … and after the drain the turn is free and whoever takes it is answered on the spot -/
theorem waiting_send_after_done_answered (s : Cl) (id : Nat) (hi : Client.Inv s) (hd : s.drained = true) (hw : id ∈ s.waiting) :
    ∃ s', step s (.turnTake id) = some s' ∧ (id, How.error) ∈ s'.answered := by
  have hl := hi.drainedNoLocked hd
  refine ⟨answer { s with waiting := s.waiting.erase id } id .error, by simp [step, hw, hl, hd], ?_⟩
  simp [answer]

/-! ### termination: nobody waits for ever -/

/-- steps of the connection's own goroutines (everything but a new Send call, Stop, and the
network breaking) -/
def internal : Label → Bool
  | .sendBegin _ | .stop | .connBreak => false
  | _ => true

def wW : WPc → Nat | .top => 1 | .hold _ => 6 | .handoff _ => 4 | .exited => 0
def wR : RPc → Nat | .decode => 2 | .have => 1 | .exited => 0
def wS : SPc → Nat | .waitReader => 5 | .waitWriter => 4 | .lockDrain => 3 | .drain => 2 | .finished => 0

/-- a bound on the work the connection's goroutines can still do without new input -/
def mu (s : Cl) : Nat :=
  12 * s.waiting.length + 10 * s.locked.length + 8 * s.pending.length + wW s.writer + 2 * s.processing.length + wR s.reader + wS s.starter

theorem length_erase_of_mem' (l : List Nat) (a : Nat) (h : a ∈ l) : (l.erase a).length + 1 = l.length := by
  have := List.length_erase_of_mem h
  have hp : 0 < l.length := List.length_pos_of_mem h
  omega

/-- **Every internal step makes progress**: the measure strictly decreases, so without new
Send calls the connection's goroutines come to rest after at most `mu s` steps. -/
theorem internal_step_decreases (s s' : Cl) (l : Label) (hl : internal l = true) (hs : step s l = some s') :
    mu s' < mu s := by
  cases l with
  | sendBegin a => cases hl
  | stop => cases hl
  | connBreak => cases hl
  | sendEnq a =>
    simp only [step] at hs
    by_cases hc : a ∈ s.locked ∧ s.pending.length < s.cap
    · rw [if_pos hc] at hs; injection hs with hs; subst hs
      have := length_erase_of_mem' s.locked a hc.1
      simp only [mu, List.length_append, List.length_singleton]; omega
    · simp [hc] at hs
  | sendQuit a =>
    simp only [step] at hs
    by_cases hc : a ∈ s.locked ∧ s.quit = true
    · rw [if_pos hc] at hs; injection hs with hs; subst hs
      have := length_erase_of_mem' s.locked a hc.1
      simp only [mu, answer]; omega
    · simp [hc] at hs
  | turnTake a =>
    simp only [step] at hs
    by_cases hc : a ∈ s.waiting ∧ s.locked = []
    · rw [if_pos hc] at hs
      have := length_erase_of_mem' s.waiting a hc.1
      by_cases hd : s.drained = true
      · rw [if_pos hd] at hs; injection hs with hs; subst hs
        simp only [mu, answer]; omega
      · rw [if_neg hd] at hs; injection hs with hs; subst hs
        simp only [mu, hc.2, List.length_nil, List.length_cons]; omega
    · simp [hc] at hs
  | turnQuit a =>
    simp only [step] at hs
    by_cases hc : a ∈ s.waiting ∧ s.quit = true
    · rw [if_pos hc] at hs; injection hs with hs; subst hs
      have := length_erase_of_mem' s.waiting a hc.1
      simp only [mu, answer]; omega
    · simp [hc] at hs
  | turnAbort a =>
    simp only [step] at hs
    by_cases hc : a ∈ s.waiting ∧ a ∈ s.abortable
    · rw [if_pos hc] at hs; injection hs with hs; subst hs
      have := length_erase_of_mem' s.waiting a hc.1
      simp only [mu, answer]; omega
    · simp [hc] at hs
  | sendAbort a =>
    simp only [step] at hs
    by_cases hc : a ∈ s.locked ∧ a ∈ s.abortable
    · rw [if_pos hc] at hs; injection hs with hs; subst hs
      have := length_erase_of_mem' s.locked a hc.1
      simp only [mu, answer]; omega
    · simp [hc] at hs
  | wTake =>
    simp only [step] at hs
    cases hw : s.writer <;> simp only [hw] at hs <;> first | (cases hs; done) | skip
    cases hpq : s.pending with
    | nil => simp [hpq] at hs
    | cons a rest =>
      simp only [hpq] at hs; injection hs with hs; subst hs
      simp only [mu, hw, hpq, wW, List.length_cons]; omega
  | wQuitTop =>
    simp only [step] at hs
    by_cases hc : s.writer = .top ∧ s.quit = true
    · rw [if_pos hc] at hs; injection hs with hs; subst hs
      simp only [mu, hc.1, wW]; omega
    · simp [hc] at hs
  | wFilterStop =>
    simp only [step] at hs
    cases hw : s.writer <;> simp only [hw] at hs <;> first | (cases hs; done) | skip
    injection hs with hs; subst hs
    simp only [mu, answer, hw, wW]; omega
  | wEncodeOk =>
    simp only [step] at hs
    cases hw : s.writer <;> simp only [hw] at hs <;> first | (cases hs; done) | skip
    injection hs with hs; subst hs
    simp only [mu, hw, wW]; omega
  | wEncodeFail =>
    simp only [step] at hs
    cases hw : s.writer <;> simp only [hw] at hs <;> first | (cases hs; done) | skip
    injection hs with hs; subst hs
    simp only [mu, answer, hw, wW]; omega
  | wHandoff =>
    simp only [step] at hs
    cases hw : s.writer <;> simp only [hw] at hs <;> first | (cases hs; done) | skip
    by_cases hc : s.processing.length < s.cap
    · rw [if_pos hc] at hs; injection hs with hs; subst hs
      simp only [mu, hw, wW, List.length_append, List.length_singleton]; omega
    · simp [hc] at hs
  | wHandoffQuit =>
    simp only [step] at hs
    cases hw : s.writer <;> simp only [hw] at hs <;> first | (cases hs; done) | skip
    by_cases hc : s.quit = true
    · rw [if_pos hc] at hs; injection hs with hs; subst hs
      simp only [mu, answer, hw, wW]; omega
    · simp [hc] at hs
  | rDecodeOk =>
    simp only [step] at hs
    by_cases hc : s.reader = .decode
    · rw [if_pos hc] at hs; injection hs with hs; subst hs
      simp only [mu, hc, wR]; omega
    · simp [hc] at hs
  | rDecodeErr =>
    simp only [step] at hs
    by_cases hc : s.reader = .decode
    · rw [if_pos hc] at hs; injection hs with hs; subst hs
      simp only [mu, hc, wR]; omega
    · simp [hc] at hs
  | rPair =>
    simp only [step] at hs
    cases hr : s.reader <;> simp only [hr] at hs <;> first | (cases hs; done) | skip
    cases hpq : s.processing with
    | nil => simp [hpq] at hs
    | cons a rest =>
      simp only [hpq] at hs; injection hs with hs; subst hs
      simp only [mu, answer, hr, hpq, wR, List.length_cons]; omega
  | rPairQuit =>
    simp only [step] at hs
    by_cases hc : s.reader = .have ∧ s.quit = true
    · rw [if_pos hc] at hs; injection hs with hs; subst hs
      simp only [mu, hc.1, wR]; omega
    · simp [hc] at hs
  | sReaderGone =>
    simp only [step] at hs
    by_cases hc : s.starter = .waitReader ∧ s.reader = .exited
    · rw [if_pos hc] at hs; injection hs with hs; subst hs
      simp only [mu, hc.1, wS]; omega
    · simp [hc] at hs
  | sWriterGone =>
    simp only [step] at hs
    by_cases hc : s.starter = .waitWriter ∧ s.writer = .exited
    · rw [if_pos hc] at hs; injection hs with hs; subst hs
      simp only [mu, hc.1, wS]; omega
    · simp [hc] at hs
  | sLock =>
    simp only [step] at hs
    by_cases hc : s.starter = .lockDrain ∧ s.locked = []
    · rw [if_pos hc] at hs; injection hs with hs; subst hs
      simp only [mu, hc.1, wS]; omega
    · simp [hc] at hs
  | sDrainPending =>
    simp only [step] at hs
    cases hst : s.starter <;> simp only [hst] at hs <;> first | (cases hs; done) | skip
    cases hpq : s.pending with
    | nil => simp [hpq] at hs
    | cons a rest =>
      simp only [hpq] at hs; injection hs with hs; subst hs
      simp only [mu, answer, hpq, hst, wS, List.length_cons]; omega
  | sDrainProcessing =>
    simp only [step] at hs
    cases hst : s.starter <;> simp only [hst] at hs <;> first | (cases hs; done) | skip
    cases hpq : s.processing with
    | nil => simp [hpq] at hs
    | cons a rest =>
      simp only [hpq] at hs; injection hs with hs; subst hs
      simp only [mu, answer, hpq, hst, wS, List.length_cons]; omega
  | sDrainDone =>
    simp only [step] at hs
    by_cases hc : s.starter = .drain ∧ s.pending = [] ∧ s.processing = []
    · rw [if_pos hc] at hs; injection hs with hs; subst hs
      simp only [mu, hc.1, wS]; omega
    · simp [hc] at hs

/-- the writer never leaves without closing the quit latch -/
def WQ (s : Cl) : Prop := s.writer = .exited → s.quit = true

theorem wq_step (s s' : Cl) (l : Label) (h : WQ s) (hs : step s l = some s') : WQ s' := by
  unfold WQ at *
  cases l <;> simp only [step] at hs <;> (repeat' split at hs) <;> (try cases hs) <;> simp_all [answer]

theorem wq_run (ls : List Label) : ∀ (s s' : Cl), WQ s → run s ls = some s' → WQ s' := by
  induction ls with
  | nil => intro s s' hi h; simp [run] at h; subst h; exact hi
  | cons l ls ih =>
    intro s s' hi h
    simp only [run] at h
    cases hs : step s l with
    | none => simp [hs] at h
    | some s1 => simp only [hs] at h; exact ih s1 s' (wq_step s s1 l hi hs) h

/-- **Shutdown always completes.** In every reachable state in which the quit latch is closed
(Stop was called, the reader saw the connection fail, or the writer left) and Start has not
returned yet, one of the connection's own goroutines has an enabled step.  With
`internal_step_decreases`: after at most `mu s` such steps the connection is done, so Stop
returns and — by `all_answered_when_done` — every request has its answer. -/
theorem progress_after_quit (cap : Nat) (ls : List Label) (s : Cl) (h : run (init cap) ls = some s)
    (hq : s.quit = true) (hnd : s.done = false) : ∃ l, internal l = true ∧ (step s l).isSome = true := by
  have hi := inv_run ls _ s (inv_init cap) h
  cases hl : s.locked with
  | cons a rest => exact ⟨.sendQuit a, rfl, by simp [step, hl, hq]⟩
  | nil =>
    cases hst : s.starter with
    | waitReader =>
      cases hr : s.reader with
      | decode => exact ⟨.rDecodeErr, rfl, by simp [step, hr]⟩
      | «have» => exact ⟨.rPairQuit, rfl, by simp [step, hr, hq]⟩
      | exited => exact ⟨.sReaderGone, rfl, by simp [step, hr, hst]⟩
    | waitWriter =>
      cases hw : s.writer with
      | top => exact ⟨.wQuitTop, rfl, by simp [step, hw, hq]⟩
      | hold a => exact ⟨.wEncodeFail, rfl, by simp [step, hw]⟩
      | handoff a => exact ⟨.wHandoffQuit, rfl, by simp [step, hw, hq]⟩
      | exited => exact ⟨.sWriterGone, rfl, by simp [step, hw, hst]⟩
    | lockDrain => exact ⟨.sLock, rfl, by simp [step, hst, hl]⟩
    | drain =>
      cases hp : s.pending with
      | cons a rest => exact ⟨.sDrainPending, rfl, by simp [step, hst, hp]⟩
      | nil =>
        cases hpr : s.processing with
        | cons a rest => exact ⟨.sDrainProcessing, rfl, by simp [step, hst, hpr]⟩
        | nil => exact ⟨.sDrainDone, rfl, by simp [step, hst, hp, hpr]⟩
    | finished =>
      have := hi.doneIff.mpr hst
      rw [this] at hnd; cases hnd

/-- **A lost connection is noticed.** In every reachable state in which the connection is
broken, a request is still in flight and Start has not returned, one of the connection's own
goroutines has an enabled step: no request sits in a queue of a dead connection with every
goroutine parked. -/
theorem progress_after_connection_loss (cap : Nat) (hcap : 0 < cap) (ls : List Label) (s : Cl)
    (h : run (init cap) ls = some s) (hc : s.connOk = false) (hfl : places s ≠ []) (hnd : s.done = false) :
    ∃ l, internal l = true ∧ (step s l).isSome = true := by
  have hi := inv_run ls _ s (inv_init cap) h
  have hwq : WQ s := wq_run ls _ s (by intro h; cases h) h
  have hcapS : s.cap = cap := by
    have : ∀ (ls : List Label) (a b : Cl), run a ls = some b → b.cap = a.cap := by
      intro ls
      induction ls with
      | nil => intro a b hab; simp [run] at hab; subst hab; rfl
      | cons l ls ih =>
        intro a b hab
        simp only [run] at hab
        cases hs : step a l with
        | none => simp [hs] at hab
        | some a1 =>
          simp only [hs] at hab
          have h1 := ih a1 b hab
          have h2 : a1.cap = a.cap := by
            cases l <;> simp only [step] at hs <;> (repeat' split at hs) <;> (try cases hs) <;> simp_all [answer]
          rw [h1, h2]
    exact this ls _ s h
  by_cases hq : s.quit = true
  · exact progress_after_quit cap ls s h hq hnd
  · have hst : s.starter = .waitReader := by
      by_cases hx : s.starter = .waitReader
      · exact hx
      · exact absurd (hi.readerGone hx).2 hq
    cases hr : s.reader with
    | decode => exact ⟨.rDecodeErr, rfl, by simp [step, hr]⟩
    | exited => exact ⟨.sReaderGone, rfl, by simp [step, hr, hst]⟩
    | «have» =>
      cases hpr : s.processing with
      | cons a rest => exact ⟨.rPair, rfl, by simp [step, hr, hpr]⟩
      | nil =>
        cases hw : s.writer with
        | exited => exact absurd (hwq hw) hq
        | hold a => exact ⟨.wEncodeOk, rfl, by simp [step, hw]⟩
        | handoff a => exact ⟨.wHandoff, rfl, by simp [step, hw, hpr, hcapS, hcap]⟩
        | top =>
          cases hp : s.pending with
          | cons a rest => exact ⟨.wTake, rfl, by simp [step, hw, hp]⟩
          | nil =>
            cases hl : s.locked with
            | nil =>
              cases hwt : s.waiting with
              | nil => simp [places, hwt, hl, hp, hpr, inWriter, hw] at hfl
              | cons a rest =>
                refine ⟨.turnTake a, rfl, ?_⟩
                by_cases hd : s.drained = true <;> simp [step, hwt, hl, hd]
            | cons a rest => exact ⟨.sendEnq a, rfl, by simp [step, hl, hp, hcapS, hcap]⟩

/-! ### the defects that were repaired, as theorems about the old behaviour -/

/-- F-02a: if the writer just returns on quit with a request in hand (the old code), a history
exists after which the connection is done and the request was never answered. -/
def stepOldHandoffQuit (s : Cl) : Label → Option Cl
  | .wHandoffQuit =>
    match s.writer with
    | .handoff _ => if s.quit then some { s with writer := .exited, connOk := false } else none
    | _ => none
  | l => step s l

def runWith (f : Cl → Label → Option Cl) (s : Cl) : List Label → Option Cl
  | [] => some s
  | l :: ls => match f s l with | some s' => runWith f s' ls | none => none

theorem old_writer_drops_request :
    ∃ s, runWith stepOldHandoffQuit (init 4)
      [.sendBegin 0, .turnTake 0, .sendEnq 0, .wTake, .wEncodeOk, .stop, .wHandoffQuit, .rDecodeErr, .sReaderGone,
       .sWriterGone, .sLock, .sDrainDone] = some s ∧ s.done = true ∧ (ansIds s).count 0 = 0 :=
  ⟨_, rfl, rfl, by decide⟩

/-- F-02b: if Send does not hold the read lock across its check and its enqueue (the old code:
the drain may start while a sender is between the two), the request is enqueued after the
drain and never answered. -/
def stepOldNoLock (s : Cl) : Label → Option Cl
  | .sLock => if s.starter = .lockDrain then some { s with starter := .drain, drained := true } else none
  | l => step s l

theorem old_send_races_drain :
    ∃ s, runWith stepOldNoLock (init 4)
      [.sendBegin 0, .turnTake 0, .stop, .rDecodeErr, .sReaderGone, .wQuitTop, .sWriterGone, .sLock, .sDrainDone, .sendEnq 0]
      = some s ∧ s.done = true ∧ (ansIds s).count 0 = 0 ∧ s.pending = [0] :=
  ⟨_, rfl, rfl, by decide, rfl⟩

/-- the same two histories on the model of the code as it is now -/
example : ∃ s, run (init 4)
    [.sendBegin 0, .turnTake 0, .sendEnq 0, .wTake, .wEncodeOk, .stop, .wHandoffQuit, .rDecodeErr, .sReaderGone,
     .sWriterGone, .sLock, .sDrainDone] = some s ∧ s.done = true ∧ (ansIds s).count 0 = 1 :=
  ⟨_, rfl, rfl, by decide⟩
example : run (init 4)
    [.sendBegin 0, .turnTake 0, .stop, .rDecodeErr, .sReaderGone, .wQuitTop, .sWriterGone, .sLock] = none := rfl

/-! ### split requests -/

/-- while children are outstanding the downstream request is not answered; when the last of
its `n ≥ 1` children completes (each exactly once, by the theorems above) it is answered
exactly once -/
theorem split_answered_exactly_once (n k : Nat) (hn : 0 < n) (hk : k ≤ n) :
    (childrenDone { wait := n } k).rawAnswered = (if k = n then 1 else 0) ∧
    (childrenDone { wait := n } k).wait = n - k := by
  suffices h : ∀ (k : Nat) (m : Multi), k ≤ m.wait → 0 < m.wait →
      (childrenDone m k).wait = m.wait - k ∧
      (childrenDone m k).rawAnswered = m.rawAnswered + (if k = m.wait then 1 else 0) by
    have := h k { wait := n } hk hn
    simp at this
    exact ⟨by simpa using this.2, this.1⟩
  intro k
  induction k with
  | zero => intro m _ hp; simp [childrenDone]; omega
  | succ k ih =>
    intro m hk hp
    simp only [childrenDone]
    by_cases h1 : m.wait = 1
    · have hk0 : k = 0 := by omega
      subst hk0
      simp [childrenDone, childDone, h1]
    · have hw : 0 < (childDone m).wait := by simp [childDone]; omega
      have := ih (childDone m) (by simp [childDone]; omega) hw
      have hne : m.wait - 1 ≠ 0 := by omega
      simp only [childDone, hne, if_false] at this ⊢
      constructor
      · omega
      · rw [this.2]
        by_cases hkk : k = m.wait - 1
        · have : k + 1 = m.wait := by omega
          simp [hkk, this]; omega
        · have : ¬ k + 1 = m.wait := by omega
          simp [hkk, this]

/-- a child completing twice (or a completion path that answers without counting) is what makes a
second answer possible: with one extra completion after the last, the counter model stays at
one answer only because `Nat` subtraction saturates — the code's counter would go negative and
the request has already been answered; the exactly-once property of the children is what rules
this out -/
example : (childrenDone { wait := 2 } 2).rawAnswered = 1 := by decide

/-- (since 9cd2b0b) a request resent by another connection's read loop carries that connection's quit as `abort`: its Send may give up
while it waits for room — it is then answered with an error, exactly once, like a Send that sees this connection's own quit.  All the
theorems above quantify over `sendAbort` as over every other label. -/
example : ∃ s, run { cap := 0, abortable := [7] } [.sendBegin 7, .turnTake 7, .sendAbort 7] = some s ∧ s.answered = [(7, .error)] ∧ s.locked = [] :=
  ⟨_, rfl, rfl, rfl⟩

/-! ## tie to the code -/


/-! ### added: completion / composition -/
theorem quit_stays (s s' : Cl) (l : Label) (hq : s.quit = true) (hs : step s l = some s') : s'.quit = true := by
  cases l <;> simp only [step] at hs <;> (repeat' split at hs) <;> (try cases hs) <;> simp_all [answer]

theorem run_append (s : Cl) (a b : List Label) :
    run s (a ++ b) = (run s a).bind fun s1 => run s1 b := by
  induction a generalizing s with
  | nil => rfl
  | cons l ls ih =>
    simp only [List.cons_append, run]
    cases step s l with
    | none => rfl
    | some s1 => exact ih s1

theorem quit_stays_run (ls : List Label) : ∀ (s s' : Cl), s.quit = true → run s ls = some s' → s'.quit = true := by
  induction ls with
  | nil => intro s s' hq h; simp [run] at h; subst h; exact hq
  | cons l ls ih =>
    intro s s' hq h
    simp only [run] at h
    cases hs : step s l with
    | none => simp [hs] at h
    | some s1 => simp only [hs] at h; exact ih s1 s' (quit_stays s s1 l hq hs) h

theorem mu_decreases_run (ls : List Label) (hint : ∀ l ∈ ls, internal l = true) :
    ∀ (s s' : Cl), run s ls = some s' → mu s' + ls.length ≤ mu s := by
  induction ls with
  | nil => intro s s' h; simp [run] at h; subst h; simp
  | cons l ls ih =>
    intro s s' h
    simp only [run] at h
    cases hs : step s l with
    | none => simp [hs] at h
    | some s1 =>
      simp only [hs] at h
      have h1 := internal_step_decreases s s1 l (hint l (by simp)) hs
      have h2 := ih (fun x hx => hint x (by simp [hx])) s1 s' h
      simp only [List.length_cons]; omega

/-- **Shutdown completes under every schedule.** From any reachable state in which the quit latch
is closed, let the connection's own goroutines run in any order, with no further Send calls:
they cannot take more than `mu s` steps, and when none of them can move any more Start has
returned — so Stop returns and (by `all_answered_when_done`) every request has its one answer.
No fairness assumption is needed: every schedule is finite and ends there. -/
theorem shutdown_completes (cap : Nat) (pre : List Label) (s : Cl) (h : run (init cap) pre = some s)
    (hq : s.quit = true) (ls : List Label) (hint : ∀ l ∈ ls, internal l = true) (s' : Cl)
    (hrun : run s ls = some s') :
    ls.length ≤ mu s ∧ ((∀ l, internal l = true → step s' l = none) → s'.done = true) := by
  constructor
  · have := mu_decreases_run ls hint s s' hrun; omega
  · intro hstuck
    have hreach : run (init cap) (pre ++ ls) = some s' := by
      rw [run_append, h]; exact hrun
    have hq' := quit_stays_run ls s s' hq hrun
    cases hd : s'.done with
    | true => rfl
    | false =>
      obtain ⟨l, hl, hen⟩ := progress_after_quit cap (pre ++ ls) s' hreach hq' hd
      rw [hstuck l hl] at hen
      cases hen

/-! ### the write buffer (F-02f) -/

/-- the write buffer holds something only while the writer still has a request to write -/
def WB (s : Cl) : Prop :=
  (s.writer = .top ∨ ∃ id, s.writer = .handoff id) → s.pending = [] → s.unflushed = []

theorem wb_step (s s' : Cl) (l : Label) (hi : Inv s) (hw : WB s) (hs : step s l = some s') : WB s' := by
  have hlate := hi.writerGone
  unfold WB at *
  cases l <;> simp only [step] at hs <;> (repeat' split at hs) <;> (try cases hs) <;>
    (simp_all [answer, lateStarter])


theorem wb_run (ls : List Label) : ∀ (s s' : Cl), Inv s → WB s → run s ls = some s' → WB s' := by
  induction ls with
  | nil => intro s s' _ hw h; simp [run] at h; subst h; exact hw
  | cons l ls ih =>
    intro s s' hi hw h
    simp only [run] at h
    cases hs : step s l with
    | none => simp [hs] at h
    | some s1 => simp only [hs] at h; exact ih s1 s' (inv_step s s1 l hi hs) (wb_step s s1 l hi hw hs) h

/-- **Nothing is left in the write buffer of an idle writer.** After every interleaving of
senders, writer, reader, filter rejections, Stop and connection loss: whenever the writer is
back at the top of its loop (or about to hand over) with no request pending, everything it
encoded has been flushed to the backend — so a request accepted for a healthy connection does
not wait for some later request to push it out (F-02f). -/
theorem nothing_left_in_the_write_buffer (cap : Nat) (ls : List Label) (s : Cl) (h : run (init cap) ls = some s)
    (ht : s.writer = .top) (hp : s.pending = []) : s.unflushed = [] :=
  wb_run ls _ s (inv_init cap) (by intro _ _; rfl) h (Or.inl ht) hp

/-- F-02f, the behaviour before the repair: request 0 is encoded while request 1 is pending (so it
is not flushed), request 1 is then answered by a filter (a command banned under compression), and
the writer goes back to sleep with request 0 still in its buffer: the backend never sees it. -/
theorem old_filter_stop_leaves_a_request_unflushed :
    ∃ s s', run (init 4) [.sendBegin 0, .turnTake 0, .sendEnq 0, .sendBegin 1, .turnTake 1, .sendEnq 1, .wTake, .wEncodeOk, .wHandoff, .wTake] = some s ∧
      oldFilterStop s = some s' ∧ s'.writer = .top ∧ s'.pending = [] ∧ s'.unflushed = [0] ∧ s'.processing = [0] := by
  refine ⟨_, _, rfl, rfl, ?_⟩
  decide

/-- **The code the model was written against.** The statements of the modelled functions,
regenerated from the current source on every run, are the ones the model was written against;
any edit to one of them makes this obligation fail and starts a search for a failing input. -/
theorem code_matches_model :
    Gen.Client.send =
      ["if len(reqs) == 0 { return }",
      "c.groupOnce.Do(func() { c.groupSem = make(chan struct{}, 1) })",
      "select { case c.groupSem <- struct{}{}: case <-c.quit: for _, req := range reqs { req.SetResponse(newError(backendExited)) } return case <-reqs[0].abort: for _, req := range reqs { req.SetResponse(newError(backendExited)) } return }",
      "defer func() { <-c.groupSem }()",
      "for _, req := range reqs { c.send(req) }"] ∧
    Gen.Client.sendOne =
      ["c.sendMu.RLock()",
      "if c.drained { c.sendMu.RUnlock() req.SetResponse(newError(backendExited)) return }",
      "verifPause(\"client.send.checked\", c)",
      "select { case <-c.quit: c.sendMu.RUnlock() req.SetResponse(newError(backendExited)) case <-req.abort: c.sendMu.RUnlock() req.SetResponse(newError(backendExited)) case c.pendingReqs <- req: c.sendMu.RUnlock() }"] ∧
    Gen.Client.start =
      ["writeDone := make(chan struct{})",
      "go func() { c.loopWrite() c.conn.Close() c.quitOnce.Do(func() { close(c.quit) }) close(writeDone) }()",
      "c.loopRead()",
      "c.conn.Close()",
      "c.quitOnce.Do(func() { close(c.quit) })",
      "<-writeDone",
      "c.sendMu.Lock()",
      "c.drained = true",
      "c.sendMu.Unlock()",
      "verifPause(\"client.start.drain\", c)",
      "c.drainRequests()",
      "close(c.done)"] ∧
    Gen.Client.stop =
      ["c.quitOnce.Do(func() { close(c.quit) })",
      "c.conn.Close()",
      "<-c.done",
      "c.filter.Reset()"] ∧
    Gen.Client.loopWrite =
      ["var ( req *simpleRequest err error )",
      "for { select { case <-c.quit: return case req = <-c.pendingReqs: } verifPause(\"client.write.taken\", c) switch c.filter.Do(req) { case Continue: case Stop: if len(c.pendingReqs) == 0 { if err = c.enc.Flush(); err != nil { c.logger.Warnf(\"loop write exit: %v\", err) return } } continue } err = c.enc.Encode(req.Body()) if err != nil { goto FAIL } if len(c.pendingReqs) == 0 { if err = c.enc.Flush(); err != nil { goto FAIL } } verifPause(\"client.write.handoff\", c) select { case <-c.quit: req.SetResponse(newError(backendExited)) return case c.processingReqs <- req: } }",
      "FAIL: req.SetResponse(newError(err.Error()))",
      "c.logger.Warnf(\"loop write exit: %v\", err)"] ∧
    Gen.Client.loopRead =
      ["for { resp, err := c.dec.Decode() if err != nil { if err != io.EOF && !strings.Contains(err.Error(), \"use of closed network connection\") { c.logger.Warnf(\"loop read exit: %v\", err) } return } verifPause(\"client.read.pair\", c) var req *simpleRequest select { case req = <-c.processingReqs: case <-c.quit: return } c.handleResp(req, resp) }"] ∧
    Gen.Client.drainRequests =
      ["for { select { case req := <-c.pendingReqs: req.SetResponse(newError(backendExited)) case req := <-c.processingReqs: req.SetResponse(newError(backendExited)) default: return } }"] ∧
    Gen.Client.isValid =
      ["b := r.body",
      "if b.Type != Array || len(b.Array) == 0 { return }",
      "for _, v := range b.Array { if v.Type != BulkString || v.Text == nil { return } }",
      "return true"] ∧
    Gen.Client.rawSetResponse =
      ["r.finishedAt = time.Now()",
      "r.resp = v",
      "for i := len(r.hooks) - 1; i >= 0; i-- { hook := r.hooks[i] hook(r) }",
      "close(r.done)"] ∧
    Gen.Client.simpleSetResponse =
      ["r.finishedAt = time.Now()",
      "r.resp = resp",
      "for i := len(r.hooks) - 1; i >= 0; i-- { hook := r.hooks[i] hook(r) }",
      "close(r.done)"] ∧
    Gen.Client.msetChildDone =
      ["wait := r.childWait.Dec()",
      "if wait == 0 { r.setResponse() }"] ∧
    Gen.Client.mgetChildDone =
      ["wait := r.childWait.Dec()",
      "if wait == 0 { r.setResponse() }"] ∧
    Gen.Client.sumChildDone =
      ["wait := r.childWait.Dec()",
      "if wait == 0 { r.setResponse() }"] := by
  refine ⟨rfl, rfl, rfl, rfl, rfl, rfl, rfl, rfl, rfl, rfl, rfl, rfl, rfl⟩

end SamVerif.Props.C02

#print axioms SamVerif.Props.C02.answered_at_most_once
#print axioms SamVerif.Props.C02.all_answered_when_done
#print axioms SamVerif.Props.C02.send_after_done_accepted
#print axioms SamVerif.Props.C02.waiting_send_after_done_answered
#print axioms SamVerif.Props.C02.internal_step_decreases
#print axioms SamVerif.Props.C02.progress_after_quit
#print axioms SamVerif.Props.C02.progress_after_connection_loss
#print axioms SamVerif.Props.C02.split_answered_exactly_once
#print axioms SamVerif.Props.C02.old_writer_drops_request
#print axioms SamVerif.Props.C02.old_send_races_drain
#print axioms SamVerif.Props.C02.code_matches_model
#print axioms SamVerif.Props.C02.shutdown_completes
#print axioms SamVerif.Props.C02.nothing_left_in_the_write_buffer
#print axioms SamVerif.Props.C02.old_filter_stop_leaves_a_request_unflushed
