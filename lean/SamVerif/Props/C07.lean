/-
C07 — the proxy heals after connection loss and topology change.

`Upstream.cstep` models the table of backend connections for one address (lookup, one shared
connect attempt whose entry is removed on completion — the repair of F-07a —, a connection
ending and removing itself), `Upstream.rstep` the slot table against the cluster's layout
(MOVED → resend + refresh trigger; refresh → table := layout; a failed refresh stays armed).
Function statements are regenerated from the source and compared (`code_matches_model`); behaviour
is tied by the differential run of a real Redis processor over real sockets against a scripted
cluster whose nodes drop connections, go down, come back and hand slots over.
-/
import SamVerif.Proofs.Upstream
import SamVerif.Gen.Upstream
namespace SamVerif.Props.C07
open SamVerif.Upstream

/-- **Errors only while unreachable.** A request for an address fails only if the node does not
accept connections, or the end of its previous connection has not been processed yet (the
connection still sits in the table for the moment it takes its goroutine to remove it). -/
theorem error_only_when_unreachable (s : CState) (h : request s = .failed) : s.up = false ∨ s.table = .ended := by
  unfold request at h
  cases ht : s.table <;> simp [ht] at h
  · cases hc : s.call <;> simp [hc] at h
    left; exact h
  · right; rfl

/-- **Healing.** Whatever happened before — connections lost, the node restarted, connects
refused — once the node accepts connections and the old connection (if any) has removed itself,
a request is served: over the connection in the table, or over a new one. -/
theorem heals (ls : List CLabel) (s : CState) (_h : crun {} ls = some s) (hup : s.up = true)
    (hne : s.table ≠ .ended) : request s = .served ∨ request s = .waiting := by
  unfold request
  cases ht : s.table
  · cases hc : s.call <;> simp [hup]
  · simp
  · exact absurd ht hne

/-- an ended connection always removes itself, and a waiting request's attempt always finishes:
neither state lasts -/
theorem transient_states_end (s : CState) :
    (s.table = .ended → (cstep s .selfRemove).isSome = true) ∧
    (s.call = .running → ∃ s', cstep s .attemptEnd = some s' ∧ s'.call = .none ∧
        (s.up = true → s.table = .absent → s'.table = .alive)) := by
  constructor
  · intro h; simp [cstep, h]
  · intro h
    refine ⟨{ s with call := .none, table := if s.up ∧ s.table = .absent then .alive else s.table }, by simp [cstep, h], rfl, ?_⟩
    intro hu ht; simp [hu, ht]

/-- **The defect that was repaired (F-07a).** With the finished attempt left in the table of
attempts, one lost connection is enough: the node is up, nothing is left of the old connection,
and yet every request fails — for every continuation of the history. -/
theorem old_never_heals_after_connection_loss :
    ∃ s, oldRun {} [.attemptBegin, .attemptEnd, .connLost, .selfRemove] = some s ∧
      s.up = true ∧ s.table = .absent ∧
      ∀ ls s', oldRun s ls = some s' → oldRequest s' = .failed := by
  refine ⟨{ up := true, table := .absent, call := .doneOk }, rfl, rfl, rfl, ?_⟩
  suffices hinv : ∀ (ls : List CLabel) (a b : OldState), a.table = .absent → a.call = .doneOk →
      oldRun a ls = some b → b.table = .absent ∧ b.call = .doneOk by
    intro ls s' h
    have := hinv ls _ s' rfl rfl h
    simp [oldRequest, this.1, this.2]
  intro ls
  induction ls with
  | nil => intro a b h1 h2 h; simp [oldRun] at h; subst h; exact ⟨h1, h2⟩
  | cons l ls ih =>
    intro a b h1 h2 h
    simp only [oldRun] at h
    cases hs : oldStep a l with
    | none => simp [hs] at h
    | some a1 =>
      simp only [hs] at h
      have : a1.table = .absent ∧ a1.call = .doneOk := by
        cases l <;> simp [oldStep, h1, h2] at hs <;> (try subst hs) <;> simp_all
      exact ih a1 b this.1 this.2 h

/-- … and after a refused first connect the cached error is handed out for ever, also once the node is up -/
theorem old_never_heals_after_refused_connect :
    ∃ s, oldRun {} [.nodeDown, .attemptBegin, .attemptEnd, .nodeUp] = some s ∧ s.up = true ∧
      ∀ ls s', oldRun s ls = some s' → oldRequest s' = .failed := by
  refine ⟨{ up := true, table := .absent, call := .doneErr }, rfl, rfl, ?_⟩
  suffices hinv : ∀ (ls : List CLabel) (a b : OldState), a.table = .absent → a.call = .doneErr →
      oldRun a ls = some b → b.table = .absent ∧ b.call = .doneErr by
    intro ls s' h
    have := hinv ls _ s' rfl rfl h
    simp [oldRequest, this.1, this.2]
  intro ls
  induction ls with
  | nil => intro a b h1 h2 h; simp [oldRun] at h; subst h; exact ⟨h1, h2⟩
  | cons l ls ih =>
    intro a b h1 h2 h
    simp only [oldRun] at h
    cases hs : oldStep a l with
    | none => simp [hs] at h
    | some a1 =>
      simp only [hs] at h
      have : a1.table = .absent ∧ a1.call = .doneErr := by
        cases l <;> simp [oldStep, h1, h2] at hs <;> (try subst hs) <;> simp_all
      exact ih a1 b this.1 this.2 h

/-- the same histories on the model of the code as it is now -/
example : ∃ s, crun {} [.attemptBegin, .attemptEnd, .connLost, .selfRemove] = some s ∧ request s = .served :=
  ⟨_, rfl, rfl⟩
example : ∃ s, crun {} [.nodeDown, .attemptBegin, .attemptEnd, .nodeUp] = some s ∧ request s = .served :=
  ⟨_, rfl, rfl⟩

/-! ## convergence of the routing table -/

/-- **A redirection arms a refresh**, a failed refresh stays armed (it is retried), and a
request that is not redirected changes nothing. -/
theorem redirect_arms_refresh (s s' : RState) (slot seed : Nat) (h : rstep s (.request slot seed) = some s') :
    (s'.redirects = s.redirects ∧ s'.refreshArmed = s.refreshArmed) ∨
    (s'.redirects = s.redirects + 1 ∧ s'.refreshArmed = true) := by
  simp only [rstep] at h
  split at h <;> injection h with h <;> subst h <;> simp

theorem failed_refresh_stays_armed (s s' : RState) (h : rstep s .refreshFail = some s') : s'.refreshArmed = true := by
  simp only [rstep] at h
  split at h
  · injection h with h; subst h; assumption
  · cases h

/-- **One successful refresh is enough.** After it, and until the cluster changes its layout
again, no request is redirected: every keyed request is delivered first to the node that owns
its slot. -/
theorem no_redirect_after_refresh (s s1 : RState) (h : rstep s .refreshOk = some s1)
    (reqs : List (Nat × Nat)) :
    ∃ s2, rrun s1 (reqs.map fun p => RLabel.request p.1 p.2) = some s2 ∧ s2.redirects = s1.redirects := by
  have htab : ∀ k, s1.table k = some (s1.truth k) := by
    simp only [rstep] at h
    split at h
    · injection h with h; subst h; intro k; rfl
    · cases h
  induction reqs with
  | nil => exact ⟨s1, rfl, rfl⟩
  | cons p rest ih =>
    obtain ⟨slot, seed⟩ := p
    obtain ⟨s2, h2, hr⟩ := ih
    refine ⟨s2, ?_, hr⟩
    simp only [List.map_cons, rrun, rstep, firstNode, htab, Option.getD_some, if_true]
    exact h2

/-- the bounded convergence the property asks for: a request that hits a stale entry is
redirected (and served by the owner), that arms a refresh, and the first refresh that succeeds
ends the redirections -/
theorem converges_after_first_redirect (s : RState) (slot seed : Nat)
    (hstale : firstNode s slot seed ≠ s.truth slot) :
    ∃ s1 s2, rstep s (.request slot seed) = some s1 ∧ s1.refreshArmed = true ∧
      rstep s1 .refreshOk = some s2 ∧ ∀ k sd, firstNode s2 k sd = s2.truth k := by
  refine ⟨{ s with redirects := s.redirects + 1, refreshArmed := true },
    { s with redirects := s.redirects + 1, table := fun k => some (s.truth k), refreshArmed := false },
    by simp [rstep, hstale], rfl, by simp [rstep], ?_⟩
  intro k sd; simp [firstNode]

/-! ## tie to the code -/

theorem code_matches_model :
    Gen.Upstream.handleRedirection =
      ["err := strings.Split(string(resp.Text), \" \")",
      "if len(err) < 3 { req.SetResponse(resp) return }",
      "hostAddr := err[2]",
      "switch strings.ToLower(err[0]) { case MOVED: u.stats.Counter(\"moved\").Inc() u.MakeRequestToHost(hostAddr, req) case ASK: askingReq := newSimpleRequest(newArray( *newBulkString(ASKING), )) askingReq.abort = req.abort u.MakeRequestToHost(hostAddr, askingReq, req) default: req.SetResponse(resp) return }",
      "u.triggerSlotsRefresh()"] ∧
    Gen.Upstream.getClient =
      ["c, ok := u.loadClients()[addr]",
      "if ok { return c, nil }",
      "v, loaded := u.createClientCalls.LoadOrStore(addr, &createClientCall{ done: make(chan struct{}), })",
      "call := v.(*createClientCall)",
      "if loaded { <-call.done return call.res, call.err }",
      "c, err := u.createClient(addr)",
      "call.res, call.err = c, err",
      "close(call.done)",
      "u.createClientCalls.Delete(addr)",
      "return c, err"] ∧
    Gen.Upstream.createClient =
      ["u.clientsMu.Lock()",
      "select { case <-u.quit: u.clientsMu.Unlock() return nil, errors.New(upstreamExited) default: }",
      "c, ok := u.loadClients()[addr]",
      "u.clientsMu.Unlock()",
      "if ok { return c, nil }",
      "conn, err := netutil.Dial(\"tcp\", addr, *u.cfg.ConnectTimeout)",
      "if err != nil { return nil, err }",
      "options := []clientOption{ withKeyCounter(u.hkc.AllocCounter(addr)), withRedirectionCb(u.handleRedirection), withClusterDownCb(u.handleClusterDown), }",
      "c, err = newClient(conn, u.cfg, u.logger, options...)",
      "if err != nil { conn.Close() return nil, err }",
      "u.clientsMu.Lock()",
      "defer u.clientsMu.Unlock()",
      "select { case <-u.quit: conn.Close() return nil, errors.New(upstreamExited) default: }",
      "verifPause(\"upstream.client.checked\", u)",
      "if existing, ok := u.loadClients()[addr]; ok { conn.Close() return existing, nil }",
      "go func() { c.Start() u.removeEndedClient(addr, c) }()",
      "u.addClientLocked(addr, c)",
      "return c, nil"] ∧
    Gen.Upstream.removeClient =
      ["u.clientsMu.Lock()",
      "defer u.clientsMu.Unlock()",
      "u.removeClientLocked(addr)"] ∧
    Gen.Upstream.makeRequestToHost =
      ["for _, req := range reqs { u.stats.RqTotal.Inc() req.RegisterHook(func(req *simpleRequest) { if req.Response().Type == Error { u.stats.RqFailureTotal.Inc() } else { u.stats.RqSuccessTotal.Inc() } u.stats.RqDurationMs.Record(uint64(req.Duration() / time.Millisecond)) }) }",
      "fail := func(msg string) { for _, req := range reqs { req.SetResponse(newError(msg)) } }",
      "select { case <-u.quit: fail(upstreamExited) return default: }",
      "verifPause(\"upstream.request.checked\", u)",
      "c, err := u.getClient(addr)",
      "if err != nil { u.triggerSlotsRefresh() fail(err.Error()) return }",
      "c.Send(reqs...)"] ∧
    Gen.Upstream.triggerSlotsRefresh =
      ["select { case u.slotsRefreshCh <- struct{}{}: default: }",
      "if u.slotsRefTriggerHook != nil { u.slotsRefTriggerHook() }"] ∧
    Gen.Upstream.loopRefreshSlots =
      ["u.triggerSlotsRefresh()",
      "for { select { case <-u.quit: return case <-time.After(slotsRefFreq): case <-u.slotsRefreshCh: } u.refreshSlots() t := time.NewTimer(slotsRefMinRate) select { case <-t.C: case <-u.quit: t.Stop() return } }"] ∧
    Gen.Upstream.refreshSlots =
      ["scope := u.stats.NewChild(\"slots_refresh\")",
      "scope.Counter(\"total\").Inc()",
      "err := u.doSlotsRefresh()",
      "if err == nil { u.logger.Debugf(\"refresh slots success\") scope.Counter(\"success_total\").Inc() u.slotsLastUpdateTime = time.Now() return }",
      "scope.Counter(\"failure_total\").Inc()",
      "u.logger.Warnf(\"fail to refresh slots: %v, will retry...\", err)",
      "u.triggerSlotsRefresh()",
      "return"] ∧
    Gen.Upstream.doSlotsRefresh =
      ["v := newArray( *newBulkString(\"cluster\"), *newBulkString(\"nodes\"), )",
      "req := newSimpleRequest(v)",
      "addr, err := u.randomHost()",
      "if err != nil { return err }",
      "giveUp := make(chan struct{})",
      "timer := time.NewTimer(slotsRefTimeout)",
      "defer timer.Stop()",
      "go func() { select { case <-req.done: return case <-u.quit: case <-timer.C: } close(giveUp) }()",
      "req.abort = giveUp",
      "u.MakeRequestToHost(addr, req)",
      "select { case <-req.done: case <-giveUp: select { case <-req.done: case <-u.quit: return errors.New(upstreamExited) default: return errors.New(\"no answer to cluster nodes from \" + addr) } }",
      "resp := req.Response()",
      "if resp.Type == Error { return errors.New(string(resp.Text)) }",
      "if resp.Type != BulkString { return errInvalidClusterNodes }",
      "insts, err := parseClusterNodes(string(resp.Text))",
      "if err != nil { return err }",
      "for _, inst := range insts { for _, slot := range inst.Slots { if slot < 0 || slot >= slotNum { continue } u.slots[slot] = inst } }",
      "return nil"] ∧
    Gen.Upstream.chooseHost =
      ["hash := crc16(hashtag(routingKey))",
      "inst := u.slots[hash&(slotNum-1)]",
      "if inst == nil { return u.randomHost() }",
      "if !req.IsReadOnly() { return inst.Addr, nil }",
      "// read-only requests var candidates []string",
      "readStrategy := redis.ReadStrategy_MASTER",
      "if option := u.cfg.GetRedisOption(); option != nil { readStrategy = option.ReadStrategy }",
      "switch readStrategy { case redis.ReadStrategy_MASTER: candidates = append(candidates, inst.Addr) case redis.ReadStrategy_BOTH: candidates = append(candidates, inst.Addr) fallthrough case redis.ReadStrategy_REPLICA: for _, replica := range inst.Replicas { candidates = append(candidates, replica.Addr) } }",
      "if len(candidates) == 0 { candidates = append(candidates, inst.Addr) }",
      "i := 0",
      "l := len(candidates)",
      "if l > 1 { i = int(time.Now().UnixNano()) % l }",
      "return candidates[i], nil"] := by
  refine ⟨rfl, rfl, rfl, rfl, rfl, rfl, rfl, rfl, rfl, rfl⟩

/-- **The code the model was written against.** -/
theorem new_client_matches_model :
    Gen.Upstream.newClient =
      ["userTimeout := time.Second * 10",
      "sock := conn",
      "if w, ok := conn.(*netutil.Conn); ok { sock = w.Conn }",
      "if err := syscall.SetTCPUserTimeout(sock, userTimeout); err != nil { return nil, err }",
      "c := &client{ cfg: cfg, logger: logger, conn: conn, enc: newEncoder(conn, 4096), dec: newDecoder(conn, 8192), pendingReqs: make(chan *simpleRequest, 1024), processingReqs: make(chan *simpleRequest, 1024), quit: make(chan struct{}), done: make(chan struct{}), }",
      "for _, option := range options { option(c) }",
      "if err := c.initFilters(); err != nil { return nil, err }",
      "readOnlyReq := newSimpleRequest(newStringArray(\"readonly\"))",
      "c.Send(readOnlyReq)",
      "return c, nil"] := rfl

end SamVerif.Props.C07

#print axioms SamVerif.Props.C07.error_only_when_unreachable
#print axioms SamVerif.Props.C07.heals
#print axioms SamVerif.Props.C07.transient_states_end
#print axioms SamVerif.Props.C07.old_never_heals_after_connection_loss
#print axioms SamVerif.Props.C07.old_never_heals_after_refused_connect
#print axioms SamVerif.Props.C07.redirect_arms_refresh
#print axioms SamVerif.Props.C07.failed_refresh_stays_armed
#print axioms SamVerif.Props.C07.no_redirect_after_refresh
#print axioms SamVerif.Props.C07.converges_after_first_redirect
#print axioms SamVerif.Props.C07.code_matches_model
#print axioms SamVerif.Props.C07.new_client_matches_model
