/-
C18 — SCAN through the proxy visits every node once and terminates.

`Gen.Scan.parseCursor/genCursor/pastLastNode` are regenerated from request.go / handler.go
on every run; `Scan.request/reply/iterate` model newScanRequest + Convert + handleScan and
are tied to the real code by the differential run (real handleRequest on a socket-less
processor, scripted node replies).
-/
import SamVerif.Proofs.ScanIter
import SamVerif.Gen.ScanText
namespace SamVerif.Props.C18
open SamVerif SamVerif.Gen.Scan SamVerif.Resp SamVerif.Scan SamVerif.Proofs.Resp SamVerif.Proofs.Scan
open SamVerif.Proofs.ScanIter

/-- **Lossless cursor encoding**: for every node index and every node cursor below 2^48,
unpacking the packed cursor returns exactly (node index, node cursor). -/
theorem parse_gen (i : BitVec 16) (c : BitVec 64) (hc : c.toNat < 2^48) :
    parseCursor (genCursor i c) = (i, c) := by
  have h := parseCursor_toNat (genCursor i c)
  rw [genCursor_toNat i c hc] at h
  have hi := i.isLt
  have e1 : (i.toNat * 2^48 + c.toNat) / 2^48 = i.toNat := by omega
  have e2 : (i.toNat * 2^48 + c.toNat) % 2^48 = c.toNat := by omega
  rw [e1, e2] at h
  have ha : (parseCursor (genCursor i c)).1 = i := BitVec.eq_of_toNat_eq (congrArg Prod.fst h)
  have hb : (parseCursor (genCursor i c)).2 = c := BitVec.eq_of_toNat_eq (congrArg Prod.snd h)
  exact Prod.ext ha hb

/-- **A cursor past the last node yields the terminating reply** (cursor "0", no keys),
not an error: for every number of nodes, every node index a cursor can carry (up to 65535, i.e. every cursor
up to 2^64 − 1) that is not below it, and every node cursor.  (Before the repair of F-18a the cursor was read as a
signed number and this held up to node index 32767 only: `SCAN 18446744073709551615` was answered "invalid cursor".) -/
theorem past_last_is_terminal (n i c : Nat) (hi : i ≤ 65535) (hc : c < 2^48) (h : n ≤ i) :
    (request n scanCmd [packed i c]).1 = .local respScanTerm := by
  rw [request_packed_term n i c hi hc h]


theorem request_fwd_more (n : Nat) (idx : BitVec 16) (nc : BitVec 64) (v : BitVec 64) (c : Bytes) (more : List Bytes)
   (h1 : parseScanCursor c = some v) (h2 : parseCursor v = (idx, nc)) (h3 : pastLastNode idx n = false) :
    request n scanCmd (c :: more) = (.fwd idx.toNat (scanCmd :: natDigits nc.toNat :: more), idx) := by
  unfold request
  simp only [h1, h2, h3, Bool.false_eq_true, ↓reduceIte]

/-- **MATCH / COUNT pass through**: whatever follows the cursor is forwarded unchanged, and
the cursor argument is replaced by the node's own cursor. -/
theorem args_pass_through (n i c : Nat) (more : List Bytes) (hn : n ≤ 32767) (hi : i < n) (hc : c < 2^48) :
    (request n scanCmd (packed i c :: more)).1 = .fwd i (scanCmd :: natDigits c :: more) := by
  have e2 : (BitVec.ofNat 16 i).toNat = i := by
    rw [BitVec.toNat_ofNat]; exact Nat.mod_eq_of_lt (by omega)
  have e3 : (BitVec.ofNat 64 c).toNat = c := by
    rw [BitVec.toNat_ofNat]; exact Nat.mod_eq_of_lt (by omega)
  have hp : pastLastNode (BitVec.ofNat 16 i) n = false := by
    rw [pastLast_ofNat n i (by omega)]; exact decide_eq_false (by omega)
  have := request_fwd_more n _ _ _ _ more (parse_packed i c (by omega) hc) (parseCursor_packed i c (by omega) hc) hp
  rw [this, e2, e3]

/-- **SCAN through the proxy terminates and covers every node once, in order.**
For any number of nodes up to 32767, if every node's own SCAN (a hypothesis: the Redis
guarantee, `Path`) reaches 0 from 0 after `k_j` calls returning `keys_j`, then a client
starting at cursor 0 and feeding each returned cursor back reaches cursor 0 after at
most `Σ k_j + 1` calls and is returned exactly `keys_0 ++ keys_1 ++ …` — every node
visited once, in host order, no key from anywhere else. -/
theorem scan_terminates_covers (nodes : List Node) (hlen : nodes.length ≤ 32767)
    (paths : List (List Bytes × Nat))
    (hp : AllPaths nodes paths)
    (fuel : Nat) (hf : (paths.map (·.2)).sum + 1 ≤ fuel) :
    (iterate nodes fuel [48]).2 = ((paths.map (·.1)).flatten, true) := by
  have := iterate_suffix nodes hlen nodes paths [] (by simp) hp fuel hf
  have e : packed 0 0 = [48] := by unfold packed; simp [natDigits_eq_zero_iff]
  simpa [e] using this



/-! Non-vacuity: two nodes, the first answering 0 → 7 → 0 with one key each, the second 0 → 0. -/
def node0 : Node := fun c => if c = 0 then some (7, [[97]]) else if c = 7 then some (0, [[98]]) else none
def node1 : Node := fun c => if c = 0 then some (0, [[99]]) else none

example : AllPaths [node0, node1] [([[97], [98]], 2), ([[99]], 1)] :=
  .cons (.more 0 7 [[97]] [[98]] 1 (by simp [node0]) (by decide) (by decide) (.last 7 [[98]] (by simp [node0])))
    (.cons (.last 0 [[99]] (by simp [node1])) .nil)

/-- **The code the model was written against.** The statements of the modelled functions,
regenerated from the current source on every run, are the ones the model was written against;
any edit to one of them makes this obligation fail and starts a search for a failing input. -/
theorem code_matches_model :
    Gen.ScanText.newScanRequest =
      ["body := raw.Body()",
      "if len(body.Array) < 2 { return nil, errors.New(invalidRequest) }",
      "cursor, err := parseScanCursor(body.Array[1].Text)",
      "if err != nil { return nil, errors.New(invalidCursor) }",
      "r := &scanRequest{raw: raw}",
      "r.nodeIdx, r.nodeCursor = r.parseCursor(cursor)",
      "return r, nil"] ∧
    Gen.ScanText.parseScanCursor =
      ["if cursor, err := strconv.ParseUint(string(b), 10, 64); err == nil { return cursor, nil }",
      "cursor, err := btoi64(b)",
      "return uint64(cursor), err"] ∧
    Gen.ScanText.convert =
      ["sreq = newSimpleRequest(r.raw.Body())",
      "sreq.RegisterHook(func(req *simpleRequest) { r.raw.SetResponse(req.Response()) })",
      "sreq.Body().Array[1].Text = []byte(strconv.FormatUint(r.nodeCursor, 10))",
      "sreq.RegisterHook(func(req *simpleRequest) { resp := req.Response() if resp.Type != Array || len(resp.Array) == 0 { return } nodeNextCursor, err := btoi64(resp.Array[0].Text) if err != nil { return } if nodeNextCursor == 0 { r.nodeIdx++ } nextCursor := r.genCursor(r.nodeIdx, uint64(nodeNextCursor)) resp.Array[0].Text = []byte(strconv.FormatUint(nextCursor, 10)) })",
      "return r.nodeIdx, sreq"] ∧
    Gen.ScanText.handleScan =
      ["scanReq, err := newScanRequest(req)",
      "if err != nil { req.SetResponse(newError(err.Error())) return }",
      "nodeIdx, simpleReq := scanReq.Convert()",
      "addrs := scanAddrs(u)",
      "if int(nodeIdx) >= len(addrs) { req.SetResponse(respScanTerm) return }",
      "u.MakeRequestToHost(addrs[nodeIdx], simpleReq)"] ∧
    Gen.ScanText.scanAddrs =
      ["var ( addrs []string seen = make(map[string]struct{}) )",
      "for i := range u.slots { inst := u.slots[i] if inst == nil { continue } if _, ok := seen[inst.Addr]; !ok { seen[inst.Addr] = struct{}{} addrs = append(addrs, inst.Addr) } }",
      "if len(addrs) == 0 { for _, h := range u.Hosts() { addrs = append(addrs, h.Addr) } return addrs }",
      "sort.Strings(addrs)",
      "return addrs"] := by
  refine ⟨rfl, rfl, rfl, rfl, rfl⟩

end SamVerif.Props.C18

#print axioms SamVerif.Props.C18.parse_gen
#print axioms SamVerif.Props.C18.past_last_is_terminal
#print axioms SamVerif.Props.C18.args_pass_through
#print axioms SamVerif.Props.C18.scan_terminates_covers
#print axioms SamVerif.Props.C18.code_matches_model
