/-
C20 — connection and request statistics are conserved.

`Stats.cstep` models the listener's registry with the TCP processor's upstream connection
counters, `Stats.rstep` the Redis request counters (see Model/Stats.lean).  The moves of every
counter in the code, with their guards, are regenerated into `Gen.Stats` on every run and
compared here with what the model was written against (`code_moves_match_model`); the
behaviour is tied by the differential run (`c20.cx` through a real TCP processor and real
sockets, `c20.rq` through the real request path of a socket-less Redis processor), with the
counters read from the public stats store.

Model as repaired: `listener.Stop` settles the connections it takes out of the registry
(dd73cea); `stop_without_settling_breaks_conservation` keeps the witness of the defect.
-/
import SamVerif.Proofs.Stats
import SamVerif.Gen.Stats
namespace SamVerif.Props.C20
open SamVerif.Stats

/-! ## connections -/

/-- **Connection counters are conserved after every history**: for downstream and upstream
alike, total = destroyed + (connections in flight) and the gauge equals the number in flight,
after any sequence of accepts (under the limit, over the limit, after Stop, with no healthy
host, with a failing dial), closes, StopListen and Stop. -/
theorem conn_conserved (limit : Nat) (evs : List CEv) :
    let s := crun (cinit limit) evs
    s.ds.total = s.ds.destroyed + regSize s ∧ s.ds.active = (regSize s : Int) ∧
    s.us.total = s.us.destroyed + s.ups.length ∧ s.us.active = (s.ups.length : Int) :=
  let h := cinv_run evs _ (cinv_init limit)
  ⟨h.dsTotal, h.dsActive, h.usTotal, h.usActive⟩

/-- **Gauges never wrap below zero.** -/
theorem gauges_never_negative (limit : Nat) (evs : List CEv) :
    0 ≤ (crun (cinit limit) evs).ds.active ∧ 0 ≤ (crun (cinit limit) evs).us.active := by
  have h := cinv_run evs _ (cinv_init limit)
  rw [h.dsActive, h.usActive]
  exact ⟨Int.natCast_nonneg _, Int.natCast_nonneg _⟩

/-- **At quiescence the books balance**: no connection in flight → both gauges are zero and
total = destroyed on both sides; whatever happened before, including a Stop with open
connections. -/
theorem conn_quiescent_balanced (limit : Nat) (evs : List CEv)
    (hq : (crun (cinit limit) evs).quiescent) :
    let s := crun (cinit limit) evs
    s.ds.active = 0 ∧ s.ds.total = s.ds.destroyed ∧ s.us.active = 0 ∧ s.us.total = s.us.destroyed := by
  have h := cinv_run evs _ (cinv_init limit)
  obtain ⟨hr, hu⟩ := hq
  refine ⟨?_, ?_, ?_, ?_⟩
  · rw [h.dsActive, hr]; rfl
  · have := h.dsTotal; omega
  · rw [h.usActive, hu]; rfl
  · have := h.usTotal; rw [hu] at this; simpa using this

/-- Stop leaves nothing registered. -/
theorem stop_clears_registry (s : CState) : regSize (cstep s .stop) = 0 := by
  unfold cstep
  cases hr : s.reg with
  | none => simp [regSize, hr]
  | some r => simp [regSize]

/-- after Stop nothing is ever registered again -/
theorem stopped_stays_empty (s : CState) (hs : s.reg = none) (evs : List CEv) :
    (crun s evs).reg = none := by
  induction evs generalizing s with
  | nil => exact hs
  | cons e es ih =>
    apply ih
    cases e with
    | drain => exact hs
    | stop => simp [cstep, hs]
    | accept id a b => simp [cstep, hs]
    | finish id =>
      have hrem : ∀ t : CState, t.reg = none → (removeConn t id).reg = none := by
        intro t ht; simp [removeConn, ht]
      simp only [cstep]
      apply hrem
      split
      · exact hs
      · exact hs

/-- the registry never exceeds the connection limit -/
theorem limit_respected (limit : Nat) (hl : 0 < limit) (evs : List CEv) :
    regSize (crun (cinit limit) evs) ≤ limit := by
  suffices h : ∀ s : CState, s.limit = limit → regSize s ≤ limit →
      regSize (crun s evs) ≤ limit from h _ rfl (by simp [cinit, regSize])
  induction evs with
  | nil => intro s _ h; exact h
  | cons e es ih =>
    intro s hlim h
    have := limit_step s e (by omega) (by omega)
    exact ih _ (by rw [this.1, hlim]) (by rw [← hlim]; exact this.2)

/-- The defect that was repaired (F-20a), kept as a theorem about the old behaviour: if Stop
only clears the registry, a history `accept; stop; finish` ends quiescent with the gauge still
raised and total ≠ destroyed. -/
def cstepOld (s : CState) : CEv → CState
  | .stop => { s with reg := none }
  | e => cstep s e

theorem stop_without_settling_breaks_conservation :
    let s := [CEv.accept 0 true true, .stop, .finish 0].foldl cstepOld (cinit 0)
    s.quiescent ∧ s.ds.active = 1 ∧ s.ds.total = 1 ∧ s.ds.destroyed = 0 := by
  refine ⟨⟨by decide, by decide⟩, by decide, by decide, by decide⟩

/-- the same history on the model of the code as it is now -/
example :
    let s := crun (cinit 0) [CEv.accept 0 true true, .stop, .finish 0]
    s.quiescent ∧ s.ds.active = 0 ∧ s.ds.total = 1 ∧ s.ds.destroyed = 1 ∧ s.us.total = 1 ∧ s.us.destroyed = 1 := by
  refine ⟨⟨by decide, by decide⟩, by decide, by decide, by decide, by decide, by decide⟩

/-- non-vacuity: a history with a rejection over the limit, a failed dial, no host and a stop
with an open connection reaches quiescence with non-trivial counters -/
example :
    let s := crun (cinit 1) [.accept 0 true true, .accept 1 true true, .finish 0, .accept 2 true false,
      .accept 3 false true, .accept 4 true true, .stop, .finish 4, .accept 5 true true]
    s.quiescent ∧ s.ds.total = 4 ∧ s.restricted = 1 ∧ s.connFail = 1 ∧ s.us.total = 2 := by
  refine ⟨⟨by decide, by decide⟩, by decide, by decide, by decide, by decide⟩

/-! ## requests -/

/-- **Request counters are conserved after every history**: downstream, upstream and per
command, total = success + failure + (what is still in flight), where an upstream request in
flight weighs as many times as it has been sent (every send counts a total and registers one
more completion hook — MOVED and ASK resends included). -/
theorem req_conserved (evs : List REv) :
    let s := rrun {} evs
    s.ds.total = s.ds.ok + s.ds.bad + s.raws.length ∧
    s.us.total = s.us.ok + s.us.bad + wsum (fun h => h) s.sims ∧
    ∀ c, (s.cmd c).total = (s.cmd c).ok + (s.cmd c).bad + wsum (cmdWeight c) s.raws :=
  let h := rinv_run evs _ rinv_init
  ⟨h.ds, h.us, h.cmd⟩

/-- **At quiescence**: total requests = successful + failed, downstream, upstream and for
every command. -/
theorem req_quiescent_balanced (evs : List REv) (hq : (rrun {} evs).quiescent) :
    let s := rrun {} evs
    s.ds.total = s.ds.ok + s.ds.bad ∧ s.us.total = s.us.ok + s.us.bad ∧
    ∀ c, (s.cmd c).total = (s.cmd c).ok + (s.cmd c).bad := by
  have h := rinv_run evs _ rinv_init
  obtain ⟨hr, hs⟩ := hq
  refine ⟨?_, ?_, ?_⟩
  · have := h.ds; rw [hr] at this; simpa using this
  · have := h.us; rw [hs] at this; simpa [wsum] using this
  · intro c; have := h.cmd c; rw [hr] at this; simpa [wsum] using this

/-- non-vacuity: GET redirected twice (MOVED, then ASK with its ASKING request) and answered,
then an MGET with one failing child -/
example :
    let s := rrun {} (evalScript false 0
      [some ⟨.single cGet, [[.moved, .ask, .reply]]⟩, some ⟨.mget, [[.reply], [.fail]]⟩, some ⟨.invalid, []⟩])
    s.quiescent ∧ s.ds = ⟨3, 2, 1⟩ ∧ s.us = ⟨6, 5, 1⟩ ∧ s.moved = 1 := by
  refine ⟨⟨by decide, by decide⟩, by decide, by decide, by decide⟩

/-! ### scripted histories end quiescent -/

theorem rrun_cons (s : RState) (e : REv) (es : List REv) : rrun s (e :: es) = rrun (rstep s e) es := rfl
theorem rrun_append (s : RState) (a b : List REv) : rrun s (a ++ b) = rrun (rrun s a) b := by
  simp [rrun, List.foldl_append]
theorem rrun_nil (s : RState) : rrun s [] = s := rfl

/-- a child that has been sent `h` times and is the only upstream request in flight is settled
by its plan, whatever the plan -/
theorem child_settles : ∀ (plan : List Step) (sid fr h : Nat) (s : RState), sid < fr →
    s.sims = [(sid, h)] →
    (rrun s (evalChild sid plan fr).1).sims = [] ∧ (rrun s (evalChild sid plan fr).1).raws = s.raws := by
  intro plan
  induction plan with
  | nil =>
    intro sid fr h s hlt hs
    simp [evalChild, rrun_cons, rrun_nil, rstep, hs, takeKey]
  | cons c rest ih =>
    intro sid fr h s hlt hs
    have hne : ¬ sid = fr := by omega
    cases c with
    | reply => simp [evalChild, rrun_cons, rrun_nil, rstep, hs, takeKey]
    | fail => simp [evalChild, rrun_cons, rrun_nil, rstep, hs, takeKey]
    | movedDead => simp [evalChild, rrun_cons, rrun_nil, rstep, hs, bump, takeKey]
    | moved =>
      have := ih sid fr (h + 1) (rstep (rstep s .moved) (.simSend sid)) hlt (by simp [rstep, hs, bump])
      simp only [evalChild, rrun_cons]
      exact ⟨this.1, by rw [this.2]; simp [rstep]⟩
    | ask =>
      have := ih sid (fr + 1) (h + 1)
        (rstep (rstep (rstep s (.simSend fr)) (.simSend sid)) (.simDone fr false)) (by omega)
        (by simp [rstep, hs, bump, takeKey, hne])
      simp only [evalChild, rrun_cons]
      exact ⟨this.1, by rw [this.2]; simp [rstep, hs, bump, takeKey, hne]⟩
    | askRefused =>
      have := ih sid (fr + 1) (h + 1)
        (rstep (rstep (rstep s (.simSend fr)) (.simSend sid)) (.simDone fr true)) (by omega)
        (by simp [rstep, hs, bump, takeKey, hne])
      simp only [evalChild, rrun_cons]
      exact ⟨this.1, by rw [this.2]; simp [rstep, hs, bump, takeKey, hne]⟩

theorem children_settle (quit : Bool) : ∀ (plans : List (List Step)) (fr : Nat) (s : RState), s.sims = [] →
    (rrun s (evalChildren quit fr plans).1).sims = [] ∧ (rrun s (evalChildren quit fr plans).1).raws = s.raws := by
  intro plans
  induction plans with
  | nil => intro fr s hs; exact ⟨hs, rfl⟩
  | cons p ps ih =>
    intro fr s hs
    simp only [evalChildren, rrun_cons, rrun_append]
    have h1 : (rstep s (.simSend fr)).sims = [(fr, 1)] := by simp [rstep, hs, bump]
    have hc : (rrun (rstep s (.simSend fr)) (evalChildQ quit fr (fr + 1) p).1).sims = [] ∧
        (rrun (rstep s (.simSend fr)) (evalChildQ quit fr (fr + 1) p).1).raws = s.raws := by
      unfold evalChildQ
      cases quit with
      | true => simp [rrun_cons, rrun_nil, rstep, hs, bump, takeKey]
      | false =>
        have := child_settles p fr (fr + 1) 1 (rstep s (.simSend fr)) (by omega) h1
        simp only [Bool.false_eq_true, if_false]
        exact ⟨this.1, by rw [this.2]; simp [rstep]⟩
    have := ih (evalChildQ quit fr (fr + 1) p).2.1 _ hc.1
    exact ⟨this.1, by rw [this.2, hc.2]⟩

theorem rawDone_settles (t : RState) (id : Nat) (c : Option Nat) (e : Bool) (h : t.raws = [(id, c)]) :
    (rstep t (.rawDone id e)).raws = [] ∧ (rstep t (.rawDone id e)).sims = t.sims := by
  simp [rstep, h, takeKey]

theorem req_settles (quit : Bool) (fresh : Nat) (r : Req) (s : RState) (hr : s.raws = []) (hs : s.sims = []) :
    (rrun s (evalReq quit fresh r).1).raws = [] ∧ (rrun s (evalReq quit fresh r).1).sims = [] := by
  have key : ∀ (c : Option Nat) (plans : List (List Step)) (e : Bool),
      (rrun s (.rawNew fresh c :: (evalChildren quit (fresh + 1) plans).1 ++ [.rawDone fresh e])).raws = [] ∧
      (rrun s (.rawNew fresh c :: (evalChildren quit (fresh + 1) plans).1 ++ [.rawDone fresh e])).sims = [] := by
    intro c plans e
    have h0 : (rstep s (.rawNew fresh c)).sims = [] := by simp [rstep, hs]
    have hch := children_settle quit plans (fresh + 1) (rstep s (.rawNew fresh c)) h0
    have hraws : (rrun (rstep s (.rawNew fresh c)) (evalChildren quit (fresh + 1) plans).1).raws = [(fresh, c)] := by
      rw [hch.2]; simp [rstep, hr]
    rw [List.cons_append, rrun_cons, rrun_append, rrun_cons, rrun_nil]
    have hd := rawDone_settles _ fresh c e hraws
    exact ⟨hd.1, by rw [hd.2]; exact hch.1⟩
  unfold evalReq
  cases r.kind <;> first
    | exact key _ _ _
    | simp [rrun_cons, rrun_nil, rstep, hr, hs, takeKey]

/-- **Every scripted history ends quiescent**: whatever the requests, their children's plans and
the point at which the upstream quits, once the script has run nothing is in flight — so by
`req_quiescent_balanced` the model's counters balance for every script the differential runs. -/
theorem script_quiescent : ∀ (script : List (Option Req)) (quit : Bool) (fresh : Nat) (s : RState),
    s.raws = [] → s.sims = [] → (rrun s (evalScript quit fresh script)).quiescent := by
  intro script
  induction script with
  | nil => intro quit fresh s hr hs; exact ⟨hr, hs⟩
  | cons x rest ih =>
    intro quit fresh s hr hs
    cases x with
    | none => simp only [evalScript]; exact ih true fresh s hr hs
    | some r =>
      simp only [evalScript, rrun_append]
      have := req_settles quit fresh r s hr hs
      exact ih quit _ _ this.1 this.2

/-! ## tie to the code: where every counter moves -/

/-- The counter moves of the code (regenerated from the working tree on every run) are the
ones the model was written against. -/
theorem code_moves_match_model :
    Gen.Stats.addConn =
      ["if l.conns == nil | return",
      "if l.connsLimit() | l.stats.CxRestricted.Inc",
      "if l.connsLimit() | return",
      "l.stats.CxTotal.Inc",
      "l.stats.CxActive.Inc"] ∧
    Gen.Stats.removeConn =
      ["if l.conns == nil | return",
      "if !ok | return",
      "l.stats.CxDestroyTotal.Inc",
      "l.stats.CxActive.Dec"] ∧
    Gen.Stats.listenerStop =
      ["range conns | l.stats.CxDestroyTotal.Inc",
      "range conns | l.stats.CxActive.Dec"] ∧
    Gen.Stats.handleRawConn =
      ["if !l.addConn(conn) | conn.Close",
      "if !l.addConn(conn) | return",
      "defer | conn.Close",
      "defer | l.removeConn",
      "if l.connHandleFn == nil | return",
      "l.connHandleFn"] ∧
    Gen.Stats.tcpHandleConn =
      ["if len(healthyHosts) == 0 | return",
      "if err != nil | p.stats.Upstream.CxConnectFail.Inc",
      "if err != nil | return",
      "p.stats.Upstream.CxTotal.Inc",
      "p.stats.Upstream.CxActive.Inc",
      "defer | p.stats.Upstream.CxDestroyTotal.Inc",
      "defer | p.stats.Upstream.CxActive.Dec",
      "go | select <-host.WaitRemoved() | return",
      "go | select <-p.quit | return",
      "go | select <-finished | return"] ∧
    Gen.Stats.handleRequest =
      ["p.stats.Downstream.RqTotal.Inc",
      "hook | case req.Response().Type = Error | p.stats.Downstream.RqFailureTotal.Inc",
      "hook | default of req.Response().Type | p.stats.Downstream.RqSuccessTotal.Inc",
      "if !req.IsValid() | return",
      "if !ok | return",
      "cmdStats.Total.Inc",
      "hook | case req.Response().Type = Error | cmdStats.Error.Inc",
      "hook | default of req.Response().Type | cmdStats.Success.Inc",
      "hook | if latency > p.cfg.slowReqThresholdInMicros | p.stats.Counter(\"rq_slow_total\").Inc"] ∧
    Gen.Stats.makeRequestToHost =
      ["range reqs | u.stats.RqTotal.Inc",
      "range reqs | req.RegisterHook",
      "range reqs | hook | if req.Response().Type == Error | u.stats.RqFailureTotal.Inc",
      "range reqs | hook | else of req.Response().Type == Error | u.stats.RqSuccessTotal.Inc",
      "func | range reqs | req.SetResponse",
      "select <-u.quit | return",
      "if err != nil | return",
      "c.Send"] ∧
    Gen.Stats.handleRedirection =
      ["if len(err) < 3 | req.SetResponse",
      "if len(err) < 3 | return",
      "case strings.ToLower(err[0]) = MOVED | u.stats.Counter(\"moved\").Inc",
      "case strings.ToLower(err[0]) = MOVED | u.MakeRequestToHost",
      "case strings.ToLower(err[0]) = ASK | u.MakeRequestToHost",
      "default of strings.ToLower(err[0]) | req.SetResponse",
      "default of strings.ToLower(err[0]) | return"] ∧
    Gen.Stats.rawSetResponse =
      ["r.finishedAt = time.Now()",
      "r.resp = v",
      "for i := len(r.hooks) - 1; i >= 0; i-- { hook := r.hooks[i] hook(r) }",
      "close(r.done)"] ∧
    Gen.Stats.simpleSetResponse =
      ["r.finishedAt = time.Now()",
      "r.resp = resp",
      "for i := len(r.hooks) - 1; i >= 0; i-- { hook := r.hooks[i] hook(r) }",
      "close(r.done)"] := by
  refine ⟨rfl, rfl, rfl, rfl, rfl, rfl, rfl, rfl, rfl, rfl⟩

end SamVerif.Props.C20

#print axioms SamVerif.Props.C20.conn_conserved
#print axioms SamVerif.Props.C20.gauges_never_negative
#print axioms SamVerif.Props.C20.conn_quiescent_balanced
#print axioms SamVerif.Props.C20.stop_clears_registry
#print axioms SamVerif.Props.C20.stopped_stays_empty
#print axioms SamVerif.Props.C20.limit_respected
#print axioms SamVerif.Props.C20.stop_without_settling_breaks_conservation
#print axioms SamVerif.Props.C20.req_conserved
#print axioms SamVerif.Props.C20.req_quiescent_balanced
#print axioms SamVerif.Props.C20.script_quiescent
#print axioms SamVerif.Props.C20.code_moves_match_model
