/-
C03 — on a stable cluster the proxy behaves like a single Redis server.

`Upstream.proxyExec` delivers every keyed command to the node owning the key's slot and executes
it on that node's key space; split commands are delivered key by key and re-assembled in
argument order.  `Upstream.execSingle` is one server holding all the data.  The slot function is
property C12, the byte-exact relaying of keys and values property C10; here keys and values are
abstract.  Function statements (routing by the first argument, the split and merge of multi-key
commands, the slot lookup) are regenerated from the source and compared; behaviour is tied by
the differential run of a real Redis processor over real sockets against a scripted cluster,
with the single-server semantics as the reference, binary keys and values included.
-/
import SamVerif.Proofs.Upstream
import SamVerif.Gen.Upstream
namespace SamVerif.Props.C03
open SamVerif.Upstream

def runSingle (s : KV) : List Cmd → KV × List (List Nat)
  | [] => (s, [])
  | c :: rest => let (s1, r) := execSingle s c; let (s2, rs) := runSingle s1 rest; (s2, r :: rs)

def runProxy (c : Cluster) : List Cmd → Cluster × List (List Nat)
  | [] => (c, [])
  | cmd :: rest => let (c1, r) := proxyExec c cmd; let (c2, rs) := runProxy c1 rest; (c2, r :: rs)

theorem step_refines (c : Cluster) (s : KV) (cmd : Cmd) (h : Represents c s) :
    Represents (proxyExec c cmd).1 (execSingle s cmd).1 ∧ (proxyExec c cmd).2 = (execSingle s cmd).2 := by
  cases cmd with
  | one c1 k =>
    have := represents_exec1 c s c1 k h
    exact ⟨this.1, by simp [proxyExec, execSingle, this.2]⟩
  | many cs => exact represents_many cs c s h

/-- **Refinement.** For every slot function, every slot-to-node layout, every single-key
command (given by what it leaves under its key and what it answers), every split command and
every program of them: if the cluster's key spaces together hold exactly the single server's
data, each key on the node owning its slot, then the proxy's replies are the single server's
replies, command by command, and afterwards the cluster again holds exactly the single server's
data. -/
theorem proxy_refines_single (prog : List Cmd) : ∀ (c : Cluster) (s : KV), Represents c s →
    (runProxy c prog).2 = (runSingle s prog).2 ∧ Represents (runProxy c prog).1 (runSingle s prog).1 := by
  induction prog with
  | nil => intro c s h; exact ⟨rfl, h⟩
  | cons cmd rest ih =>
    intro c s h
    have h1 := step_refines c s cmd h
    have h2 := ih _ _ h1.1
    simp only [runProxy, runSingle]
    exact ⟨by rw [h1.2, h2.1], h2.2⟩

/-- the empty cluster represents the empty server, whatever the layout -/
theorem empty_represents (slot : Key → Nat) (owner : Nat → Nat) :
    Represents ⟨slot, owner, fun _ _ => none⟩ (fun _ => none) := by
  intro k; exact ⟨rfl, fun _ _ => rfl⟩

/-- every keyed command is delivered first to the node that owns the key's slot: with a loaded
table a stable cluster sends no redirection (the redirection side is C04's `nodeAnswer`) -/
theorem delivered_to_the_owner (c : Cluster) (cmd : Cmd1) (k : Key) :
    nodeAnswer ⟨c.owner (c.slot k), none⟩ (c.nodeOf k) true false = .serve := by
  simp [nodeAnswer, Cluster.nodeOf]

/-- non-vacuity: SET on three keys spread over two nodes, an MGET over them and a DEL of two -/
example :
    let set (v : Nat) : Cmd1 := ⟨fun _ => some v, fun _ => 1⟩
    let get : Cmd1 := ⟨id, fun o => o.getD 0⟩
    let del : Cmd1 := ⟨fun _ => none, fun o => if o.isSome then 1 else 0⟩
    let c0 : Cluster := ⟨fun k => k % 4, fun s => s % 2, fun _ _ => none⟩
    let prog := [Cmd.one (set 7) 1, .one (set 8) 2, .one (set 9) 3, .many [(get, 1), (get, 2), (get, 3), (get, 4)],
                 .many [(del, 1), (del, 4)], .many [(get, 1), (get, 2)]]
    (runProxy c0 prog).2 = [[1], [1], [1], [7, 8, 9, 0], [1, 0], [0, 8]] ∧
    (runProxy c0 prog).1.data 1 3 = some 9 ∧ (runProxy c0 prog).1.data 0 3 = none := by
  refine ⟨by decide, by decide, by decide⟩

/-! ## tie to the code -/

theorem code_matches_model :
    Gen.Upstream.makeRequest =
      ["addr, err := u.chooseHost(routingKey, req)",
      "if err != nil { req.SetResponse(newError(err.Error())) return }",
      "u.MakeRequestToHost(addr, req)"] ∧
    Gen.Upstream.chooseHost =
      ["hash := crc16(hashtag(routingKey))",
      "inst := u.slots[hash&(slotNum-1)]",
      "if inst == nil { return u.randomHost() }",
      "if !req.IsReadOnly() { return inst.Addr, nil }",
      "// read-only requests var candidates []string",
      "readStrategy := redis.ReadStrategy_MASTER",
      "if option := u.cfg.GetRedisOption(); option != nil { readStrategy = option.ReadStrategy }",
      "switch readStrategy { case redis.ReadStrategy_MASTER: candidates = append(candidates, inst.Addr) case redis.ReadStrategy_BOTH: candidates = append(candidates, inst.Addr) fallthrough case redis.ReadStrategy_REPLICA: for _, replica := range inst.Replicas { candidates = append(candidates, replica.Addr) } }",
      "if len(candidates) == 0 { candidates = append(candidates, inst.Addr) }",
      "i := 0",
      "l := len(candidates)",
      "if l > 1 { i = int(time.Now().UnixNano()) % l }",
      "return candidates[i], nil"] ∧
    Gen.Upstream.handleSimpleCommand =
      ["body := req.Body()",
      "if len(body.Array) < 2 { req.SetResponse(newError(invalidRequest)) return }",
      "simpleReq := newSimpleRequest(body)",
      "simpleReq.RegisterHook(func(simpleReq *simpleRequest) { req.SetResponse(simpleReq.Response()) })",
      "key := body.Array[1].Text",
      "u.MakeRequest(key, simpleReq)"] ∧
    Gen.Upstream.handleSumResultCommand =
      ["sumResultReq, err := newSumResultRequest(req)",
      "if err != nil { req.SetResponse(newError(err.Error())) return }",
      "simpleReqs := sumResultReq.Split()",
      "for i := 0; i < len(simpleReqs); i++ { simpleReq := simpleReqs[i] key := simpleReq.Body().Array[1].Text u.MakeRequest(key, simpleReq) }"] ∧
    Gen.Upstream.handleMGet =
      ["mgetReq, err := newMGetRequest(req)",
      "if err != nil { req.SetResponse(newError(err.Error())) return }",
      "simpleReqs := mgetReq.Split()",
      "for i := 0; i < len(simpleReqs); i++ { simpleReq := simpleReqs[i] key := simpleReq.Body().Array[1].Text u.MakeRequest(key, simpleReq) }"] ∧
    Gen.Upstream.handleMSet =
      ["msetReq, err := newMSetRequest(req)",
      "if err != nil { req.SetResponse(newError(err.Error())) return }",
      "simpleReqs := msetReq.Split()",
      "for i := 0; i < len(simpleReqs); i++ { simpleReq := simpleReqs[i] key := simpleReq.Body().Array[1].Text u.MakeRequest(key, simpleReq) }"] ∧
    Gen.Upstream.mgetSplit =
      ["if r.children != nil { return r.children }",
      "v := r.raw.Body().Array",
      "sreqs := make([]*simpleRequest, 0, len(v)-1)",
      "for i := 1; i < len(v); i++ { sv := &RespValue{ Type: Array, Array: []RespValue{ {Type: BulkString, Text: []byte(\"get\")}, v[i], }, } sreq := newSimpleRequest(sv) sreq.RegisterHook(r.onChildDone) sreqs = append(sreqs, sreq) }",
      "r.children = sreqs",
      "r.childWait.Store(int32(len(sreqs)))",
      "return sreqs"] ∧
    Gen.Upstream.msetSplit =
      ["if r.children != nil { return r.children }",
      "v := r.raw.Body().Array",
      "sreqs := make([]*simpleRequest, 0, len(v)/2)",
      "for i := 0; i < len(v)/2; i++ { sv := &RespValue{ Type: Array, Array: []RespValue{ {Type: BulkString, Text: []byte(\"set\")}, v[2*i+1], v[2*(i+1)], }, } sreq := newSimpleRequest(sv) sreq.RegisterHook(r.onChildDone) sreqs = append(sreqs, sreq) }",
      "r.children = sreqs",
      "r.childWait.Store(int32(len(sreqs)))",
      "return sreqs"] ∧
    Gen.Upstream.sumSplit =
      ["if r.children != nil { return r.children }",
      "v := r.raw.Body().Array",
      "sreqs := make([]*simpleRequest, 0, len(v)-1)",
      "for i := 1; i < len(v); i++ { sv := &RespValue{ Type: Array, Array: []RespValue{ v[0], v[i], }, } sreq := newSimpleRequest(sv) sreq.RegisterHook(r.onChildDone) sreqs = append(sreqs, sreq) }",
      "r.children = sreqs",
      "r.childWait.Store(int32(len(sreqs)))",
      "return sreqs"] := by
  refine ⟨rfl, rfl, rfl, rfl, rfl, rfl, rfl, rfl, rfl⟩

end SamVerif.Props.C03

#print axioms SamVerif.Props.C03.proxy_refines_single
#print axioms SamVerif.Props.C03.empty_represents
#print axioms SamVerif.Props.C03.delivered_to_the_owner
#print axioms SamVerif.Props.C03.code_matches_model
