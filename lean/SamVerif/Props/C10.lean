/-
C10 — RESP codec: decode and encode are inverse (stream level).

`decode` is the decoder of codec.go written over an abstract byte source; it is instantiated
with the specification source `streamSrc` (a plain byte list and the reader buffer size) for
the round-trip theorems, and with `Reader.src` (bufio.go's buffered reader over a connection
that delivers arbitrary non-empty chunks) for `chunking_independent`: the two agree, for every
chunking.  The tie of `decode`/`encode` and of the `Reader` model to the Go code is the
differential run (DESIGN.md §4 C10).
-/
import SamVerif.Spec.Resp
import SamVerif.Proofs.Resp
import SamVerif.Proofs.RespRefine
import SamVerif.Gen.Codec
import SamVerif.Gen.Bufio
namespace SamVerif.Props.C10
open SamVerif.Resp SamVerif.Proofs.Resp

theorem all_ne_LF {t : Bytes} (h : t.all (· != LF) = true) : ∀ c ∈ t, c ≠ LF := by
  intro c hc
  rw [List.all_eq_true] at h
  simpa using h c hc

mutual
/-- Encoding then decoding yields the same value and consumes exactly the encoded bytes,
for every well-formed value, every continuation of the stream, every buffer size ≥ 32. -/
theorem decode_encode_fuel (sz : Nat) (hsz : 32 ≤ sz) :
    (v : Resp) → wf v = true → ∀ (fuel : Nat) (rest : Bytes), depth v < fuel →
      decode streamSrc fuel ⟨sz, encode v ++ rest⟩ = some (v, ⟨sz, rest⟩)
  | .int i, h, fuel, rest, hf => by
    obtain ⟨f, rfl⟩ : ∃ f, fuel = f + 1 := ⟨fuel - 1, by omega⟩
    simp only [wf, Bool.and_eq_true, decide_eq_true_eq] at h
    have := decodeInt_stream sz hsz i h.1 h.2 rest
    simp [decode, encode, maxBulkStringLen, maxArrayLen, tColon] at this ⊢
    simp [this]
  | .simple t, h, fuel, rest, hf => by
    obtain ⟨f, rfl⟩ : ∃ f, fuel = f + 1 := ⟨fuel - 1, by omega⟩
    simp only [wf, Bool.and_eq_true, decide_eq_true_eq] at h
    have := decodeText_stream sz t (all_ne_LF h.1) h.2 rest
    simp [decode, encode, maxBulkStringLen, maxArrayLen, tColon, tPlus] at this ⊢
    simp [this]
  | .err t, h, fuel, rest, hf => by
    obtain ⟨f, rfl⟩ : ∃ f, fuel = f + 1 := ⟨fuel - 1, by omega⟩
    simp only [wf, Bool.and_eq_true, decide_eq_true_eq] at h
    have := decodeText_stream sz t (all_ne_LF h.1) h.2 rest
    simp [decode, encode, maxBulkStringLen, maxArrayLen, tColon, tPlus, tMinus] at this ⊢
    simp [this]
  | .bulk none, h, fuel, rest, hf => by
    obtain ⟨f, rfl⟩ : ∃ f, fuel = f + 1 := ⟨fuel - 1, by omega⟩
    have := decodeInt_stream sz hsz (-1) (by decide) (by decide) rest
    simp [decode, encode, maxBulkStringLen, maxArrayLen, tColon, tPlus, tMinus, tDollar, decodeBulk] at this ⊢
    simp [this]
  | .bulk (some t), h, fuel, rest, hf => by
    obtain ⟨f, rfl⟩ : ∃ f, fuel = f + 1 := ⟨fuel - 1, by omega⟩
    simp only [wf, decide_eq_true_eq] at h
    have hi := decodeInt_stream sz hsz (t.length : Int) (by unfold minInt64; omega)
      (by unfold maxInt64; unfold maxBulkStringLen at h; omega) (t ++ (crlf ++ rest))
    have hr := readFull_stream sz t rest
    have hmax : ¬ ((t.length : Int) > (maxBulkStringLen : Int)) := by omega
    simp [decode, encode, maxBulkStringLen, maxArrayLen, tColon, tPlus, tMinus, tDollar, decodeBulk] at hi hr ⊢
    simp [hi, hr]
    have e1 : ¬ ((t.length : Int) < -1) := by omega
    have e2 : ¬ ((536870912 : Int) < (t.length : Int)) := by unfold maxBulkStringLen at h; omega
    have e3 : (t ++ crlf)[t.length]?.getD 0 = CR := by simp [crlf]
    have e4 : (t ++ crlf)[t.length + 1]?.getD 0 = LF := by simp [crlf]
    simp [e1, e2, e3, e4]
  | .arr none, h, fuel, rest, hf => by
    obtain ⟨f, rfl⟩ : ∃ f, fuel = f + 1 := ⟨fuel - 1, by omega⟩
    have := decodeInt_stream sz hsz (-1) (by decide) (by decide) rest
    simp [decode, encode, maxBulkStringLen, maxArrayLen, tColon, tPlus, tMinus, tDollar, tStar] at this ⊢
    simp [this]
  | .arr (some vs), h, fuel, rest, hf => by
    obtain ⟨f, rfl⟩ : ∃ f, fuel = f + 1 := ⟨fuel - 1, by omega⟩
    simp only [wf, Bool.and_eq_true, decide_eq_true_eq] at h
    simp only [depth] at hf
    have hi := decodeInt_stream sz hsz (vs.length : Int) (by unfold minInt64; omega)
      (by unfold maxInt64; have := h.1; unfold maxArrayLen at this; omega) (encodeList vs ++ rest)
    have hn := decodeN_encode_fuel sz hsz vs h.2 f rest (by omega)
    have e1 : ¬ ((vs.length : Int) < -1) := by omega
    have e2 : ¬ ((1048576 : Int) < (vs.length : Int)) := by have := h.1; unfold maxArrayLen at this; omega
    have e3 : ((vs.length : Int) == -1) = false := by simp
    simp [decode, encode, maxArrayLen, tColon, tPlus, tMinus, tDollar, tStar] at hi ⊢
    simp [hi, e1, e2, e3, hn]
theorem decodeN_encode_fuel (sz : Nat) (hsz : 32 ≤ sz) :
    (vs : List Resp) → wfList vs = true → ∀ (fuel : Nat) (rest : Bytes), depthList vs < fuel →
      decodeN (decode streamSrc fuel) vs.length ⟨sz, encodeList vs ++ rest⟩ = some (vs, ⟨sz, rest⟩)
  | [], _, _, _, _ => by simp [decodeN, encodeList]
  | v :: vs, h, fuel, rest, hf => by
    simp only [wfList, Bool.and_eq_true] at h
    simp only [depthList] at hf
    have h1 := decode_encode_fuel sz hsz v h.1 fuel (encodeList vs ++ rest) (by omega)
    have h2 := decodeN_encode_fuel sz hsz vs h.2 fuel rest (by omega)
    simp [decodeN, encodeList, h1, h2]
end


mutual
theorem depth_lt_encode : (v : Resp) → depth v < (encode v).length
  | .int _ => by simp [depth, encode]
  | .simple _ => by simp [depth, encode]
  | .err _ => by simp [depth, encode]
  | .bulk none => by simp [depth, encode]
  | .bulk (some _) => by simp [depth, encode]
  | .arr none => by simp [depth, encode]
  | .arr (some vs) => by
    have := depthList_le_encode vs
    have hc : crlf.length = 2 := rfl
    simp only [depth, encode, List.length_cons, List.length_append]; omega
theorem depthList_le_encode : (vs : List Resp) → depthList vs ≤ (encodeList vs).length
  | [] => by simp [depthList]
  | v :: vs => by
    have h1 := depth_lt_encode v
    have h2 := depthList_le_encode vs
    simp [depthList, encodeList]; omega
end

/-- **Round trip.** For every well-formed RESP value, every continuation `rest` of the
stream and every reader buffer size ≥ 32: decoding the encoding yields the value and
leaves exactly `rest` unconsumed. (`hd`: nesting within the decoder's limit of 32 levels, the
bound that C11 requires.) -/
theorem decode_encode (sz : Nat) (hsz : 32 ≤ sz) (v : Resp) (h : wf v = true) (hd : depth v ≤ maxArrayDepth)
    (rest : Bytes) :
    decodeStream sz (encode v ++ rest) = some (v, rest) := by
  unfold decodeStream
  have := decode_encode_fuel sz hsz v h (maxArrayDepth + 1) rest (by omega)
  rw [this]

/-- **Canonical bytes re-encode to themselves**: bytes in the image of the encoder decode
to a value whose encoding is those bytes. -/
theorem reencode_canonical (sz : Nat) (hsz : 32 ≤ sz) (v : Resp) (h : wf v = true) (hd : depth v ≤ maxArrayDepth) :
    (decodeStream sz (encode v)).map (fun p => encode p.1) = some (encode v) := by
  have := decode_encode sz hsz v h hd []
  simp at this
  simp [this]

theorem encode_ne_nil (v : Resp) : encode v ≠ [] := by
  cases v with
  | int _ => simp [encode]
  | simple _ => simp [encode]
  | err _ => simp [encode]
  | bulk t => cases t <;> simp [encode]
  | arr a => cases a <;> simp [encode]

/-- **Concatenation.** A concatenation of encoded messages decodes to exactly those
messages, in order, ending cleanly (every message consumed exactly its own bytes). -/
theorem decodeAll_encodeList (sz : Nat) (hsz : 32 ≤ sz) :
    ∀ (vs : List Resp), wfList vs = true → depthList vs ≤ maxArrayDepth → ∀ fuel, vs.length < fuel →
      decodeAllStream sz fuel (encodeList vs) = (vs, true)
  | [], _, _, fuel, hf => by
    obtain ⟨f, rfl⟩ : ∃ f, fuel = f + 1 := ⟨fuel - 1, by simp at hf; omega⟩
    simp [decodeAllStream, encodeList]
  | v :: vs, h, hdep, fuel, hf => by
    obtain ⟨f, rfl⟩ : ∃ f, fuel = f + 1 := ⟨fuel - 1, by simp at hf; omega⟩
    simp only [wfList, Bool.and_eq_true] at h
    simp only [depthList] at hdep
    have hd := decode_encode sz hsz v h.1 (by omega) (encodeList vs)
    have ih := decodeAll_encodeList sz hsz vs h.2 (by omega) f (by simp at hf; omega)
    have hne : (encode v ++ encodeList vs).isEmpty = false := by
      have := encode_ne_nil v
      cases he : encode v with
      | nil => exact absurd he this
      | cons => rfl
    simp [decodeAllStream, encodeList, hne, hd, ih]

/-! ### tie to the source: constants regenerated from codec.go / bufio.go / resp.go -/

/-- The limits, type bytes and delimiters the model uses are the ones in the source,
and the buffer sizes the proxy uses are within the theorems' range (≥ 32). -/
theorem constants_match_source :
    Gen.Codec.maxArrayLen = maxArrayLen ∧ Gen.Codec.maxBulkStringLen = maxBulkStringLen ∧
    Gen.Codec.maxArrayDepth = maxArrayDepth ∧ Gen.Codec.maxLineLen = maxLineLen ∧
    Gen.Codec.cr = CR.toNat ∧ Gen.Codec.lf = LF.toNat ∧
    Gen.Codec.simpleString = tPlus.toNat ∧ Gen.Codec.error = tMinus.toNat ∧ Gen.Codec.integer = tColon.toNat ∧
    Gen.Codec.bulkString = tDollar.toNat ∧ Gen.Codec.array = tStar.toNat ∧
    32 ≤ Gen.Codec.upstream_newDecoder_bufSize ∧ 32 ≤ Gen.Codec.session_newDecoder_bufSize ∧
    32 ≤ Gen.Codec.defaultBufferSize := by decide

/-- Not one of the five RESP type bytes. -/
def notTypeByte (c : UInt8) : Bool :=
  c != tColon && c != tPlus && c != tMinus && c != tDollar && c != tStar

/-- **Inline commands.** An inline command (non-empty tokens without space or LF,
separated by single spaces, not starting with a type byte) decodes to the same request
as its array-of-bulk-strings form, consuming exactly its line. -/
theorem inline_eq_array (sz : Nat) (hsz : 32 ≤ sz) (t : Bytes) (ts : List Bytes)
    (hc : ∀ u ∈ t :: ts, u ≠ [] ∧ u.length ≤ maxBulkStringLen ∧ ∀ c ∈ u, c ≠ SP ∧ c ≠ LF)
    (hlen : (t :: ts).length ≤ maxArrayLen) (hline : (joinSP (t :: ts)).length + 2 ≤ maxLineLen)
    (hfirst : ∀ c rest', t = c :: rest' → notTypeByte c = true) (rest : Bytes) :
    decodeStream sz (joinSP (t :: ts) ++ (crlf ++ rest))
      = decodeStream sz (encode (.arr (some ((t :: ts).map (fun u => .bulk (some u))))) ++ rest) := by
  -- right-hand side by the round-trip theorem
  have hwf : wf (.arr (some ((t :: ts).map (fun u => Resp.bulk (some u))))) = true := by
    simp only [wf, Bool.and_eq_true, decide_eq_true_eq, List.length_map]
    refine ⟨hlen, ?_⟩
    have : ∀ (l : List Bytes), (∀ u ∈ l, u.length ≤ maxBulkStringLen) →
        wfList (l.map (fun u => Resp.bulk (some u))) = true := by
      intro l hl
      induction l with
      | nil => simp [wfList]
      | cons a as ih =>
        simp [wfList, wf, hl a (by simp), ih (fun u hu => hl u (by simp [hu]))]
    exact this _ (fun u hu => (hc u hu).2.1)
  have hdep : depth (.arr (some ((t :: ts).map (fun u => Resp.bulk (some u))))) ≤ maxArrayDepth := by
    have : ∀ (l : List Bytes), depthList (l.map (fun u => Resp.bulk (some u))) = 0 := by
      intro l; induction l with
      | nil => rfl
      | cons a as ih => simp [depthList, depth, ih]
    simp only [depth, this]; decide
  rw [decode_encode sz hsz _ hwf hdep rest]
  -- left-hand side: the inline path
  have hnoLF := joinSP_no_LF (t :: ts) (fun u hu c hcu => ((hc u hu).2.2 c hcu).2)
  have htext := decodeText_stream sz (joinSP (t :: ts)) hnoLF hline rest
  have hsplit := splitSpaces_joinSP (t :: ts) (by simp) (fun u hu c hcu => ((hc u hu).2.2 c hcu).1)
    (fun u hu => (hc u hu).1)
  obtain ⟨c, t', ht⟩ : ∃ c t', t = c :: t' := by
    cases t with
    | nil => exact absurd rfl (hc [] (by simp)).1
    | cons c t' => exact ⟨c, t', rfl⟩
  have hnt := hfirst c t' ht
  obtain ⟨d, hd⟩ : ∃ d, joinSP (t :: ts) ++ (crlf ++ rest) = c :: d := by
    subst ht
    cases ts with
    | nil => exact ⟨t' ++ (crlf ++ rest), by simp [joinSP]⟩
    | cons a as => exact ⟨t' ++ SP :: (joinSP (a :: as) ++ (crlf ++ rest)), by simp [joinSP]⟩
  unfold decodeStream
  rw [hd] at htext ⊢
  simp only [notTypeByte, Bool.and_eq_true, bne_iff_ne, ne_eq] at hnt
  simp [decode, hnt.1.1.1.1, hnt.1.1.1.2, hnt.1.1.2, hnt.1.2, hnt.2, decodeInline, htext, hsplit]

/-! ### independence of the chunking -/

/-- **Chunking does not matter.** For every way the connection cuts the byte stream into
non-empty reads, every reader buffer size ≥ 1 and every nesting budget: decoding from the
buffered reader gives exactly what decoding from the plain byte stream gives — the same value
with the same bytes left (those in the reader's window followed by the chunks not read yet), or
a failure in both. -/
theorem chunking_independent (size : Nat) (hsize : 0 < size) (chunks : List Bytes)
    (hne : ∀ c ∈ chunks, c ≠ []) (fuel : Nat) :
    match decode Reader.src fuel ⟨size, [], chunks, false⟩, decode streamSrc fuel ⟨size, chunks.flatten⟩ with
    | some (v, r), some (w, s) => v = w ∧ s.data = r.win ++ r.chunks.flatten
    | none, none => True
    | _, _ => False := by
  have hrel : Rel ⟨size, [], chunks, false⟩ ⟨size, chunks.flatten⟩ :=
    ⟨rfl, rfl, by simp, hne, by simp, hsize⟩
  have := decode_sim reader_sim fuel _ _ hrel
  cases h1 : decode Reader.src fuel ⟨size, [], chunks, false⟩ with
  | none =>
    cases h2 : decode streamSrc fuel ⟨size, chunks.flatten⟩ with
    | none => trivial
    | some q => rw [h1, h2] at this; obtain ⟨_, _⟩ := q; exact this
  | some p =>
    obtain ⟨v, r⟩ := p
    cases h2 : decode streamSrc fuel ⟨size, chunks.flatten⟩ with
    | none => rw [h1, h2] at this; exact this
    | some q =>
      obtain ⟨w, s⟩ := q
      rw [h1, h2] at this
      exact ⟨this.1, this.2.data⟩

/-- **Round trip through any chunking.** Encode a well-formed value, append any continuation,
cut the bytes into non-empty chunks any way you like: the buffered reader (buffer ≥ 32) decodes
the value and leaves exactly the continuation. -/
theorem decode_encode_chunked (size : Nat) (hsz : 32 ≤ size) (v : Resp) (h : wf v = true)
    (hd : depth v ≤ maxArrayDepth) (rest : Bytes) (chunks : List Bytes) (hne : ∀ c ∈ chunks, c ≠ [])
    (hcut : chunks.flatten = encode v ++ rest) :
    ∃ r, decode Reader.src (maxArrayDepth + 1) ⟨size, [], chunks, false⟩ = some (v, r) ∧
      r.win ++ r.chunks.flatten = rest := by
  have hs := decode_encode_fuel size hsz v h (maxArrayDepth + 1) rest (by omega)
  have hc := chunking_independent size (by omega) chunks hne (maxArrayDepth + 1)
  rw [hcut, hs] at hc
  cases h1 : decode Reader.src (maxArrayDepth + 1) ⟨size, [], chunks, false⟩ with
  | none => rw [h1] at hc; exact hc.elim
  | some p =>
    obtain ⟨w, r⟩ := p
    rw [h1] at hc
    exact ⟨r, by rw [hc.1], hc.2.symm⟩

/-- non-vacuity: a message cut inside the length, inside the CRLF and inside the payload -/
example : ∃ r, decode Reader.src 33 ⟨32, [], [[36], [51, 13], [10, 97], [98, 99, 13], [10, 43]], false⟩
    = some (.bulk (some [97, 98, 99]), r) ∧ r.win ++ r.chunks.flatten = [43] := ⟨_, rfl, rfl⟩

/-! Non-vacuity: a 3-level nested array with null, empty and binary members. -/
def sample : Resp :=
  .arr (some [.int (-9223372036854775808), .bulk none, .bulk (some []), .arr none, .arr (some []),
    .arr (some [.simple [13, 43], .err [0, 255], .arr (some [.bulk (some [10, 13, 0]), .int 32769])])])

example : wf sample = true := by decide
example : depth sample = 3 := by decide
example : depth sample ≤ maxArrayDepth := by decide

/-- **The code the model was written against.** The statements of the modelled functions,
regenerated from the current source on every run, are the ones the model was written against;
any edit to one of them makes this obligation fail and starts a search for a failing input. -/
theorem reader_matches_model :
    Gen.Bufio.fill =
      ["if b.err != nil { return b.err }",
      "if b.rderr != nil { b.err = b.rderr return b.err }",
      "if b.r > 0 { n := copy(b.buf, b.buf[b.r:b.w]) b.r = 0 b.w = n }",
      "n, err := b.rd.Read(b.buf[b.w:])",
      "if n > 0 { b.w += n b.rderr = err return nil }",
      "if err != nil { b.err = err } else { b.err = io.ErrNoProgress }",
      "return b.err"] ∧
    Gen.Bufio.read =
      ["if b.err != nil || len(p) == 0 { return 0, b.err }",
      "if b.buffered() == 0 { if b.rderr != nil { b.err = b.rderr return 0, b.err } if len(p) >= len(b.buf) { n, err := b.rd.Read(p) if err != nil { b.err = err } return n, b.err } if b.fill() != nil { return 0, b.err } }",
      "n := copy(p, b.buf[b.r:b.w])",
      "b.r += n",
      "return n, nil"] ∧
    Gen.Bufio.readByte =
      ["if b.err != nil { return 0, b.err }",
      "if b.buffered() == 0 { if b.fill() != nil { return 0, b.err } }",
      "c := b.buf[b.r]",
      "b.r++",
      "return c, nil"] ∧
    Gen.Bufio.peekByte =
      ["if b.err != nil { return 0, b.err }",
      "if b.buffered() == 0 { if b.fill() != nil { return 0, b.err } }",
      "c := b.buf[b.r]",
      "return c, nil"] ∧
    Gen.Bufio.readSlice =
      ["if b.err != nil { return nil, b.err }",
      "for { var index = bytes.IndexByte(b.buf[b.r:b.w], delim) if index >= 0 { limit := b.r + index + 1 slice := b.buf[b.r:limit] b.r = limit return slice, nil } if b.buffered() == len(b.buf) { b.r = b.w return b.buf, bufio.ErrBufferFull } if b.fill() != nil { return nil, b.err } }"] ∧
    Gen.Bufio.readBytes =
      ["var full [][]byte",
      "var last []byte",
      "var size int",
      "for last == nil { f, err := b.ReadSlice(delim) if err != nil { if err != bufio.ErrBufferFull { return nil, b.err } dup := b.slice.Make(len(f)) copy(dup, f) full = append(full, dup) } else { last = f } size += len(f) if size > maxLineLen { return nil, ErrLineTooLong } }",
      "var n int",
      "var buf = b.slice.Make(size)",
      "for _, frag := range full { n += copy(buf[n:], frag) }",
      "copy(buf[n:], last)",
      "return buf, nil"] ∧
    Gen.Bufio.readFull =
      ["if b.err != nil || n == 0 { return nil, b.err }",
      "// NOTE: use customize slice allocator to reduce allocs. var buf = b.slice.Make(n)",
      "if _, err := io.ReadFull(b, buf); err != nil { return nil, err }",
      "return buf, nil"] := by
  refine ⟨rfl, rfl, rfl, rfl, rfl, rfl, rfl⟩

end SamVerif.Props.C10

#print axioms SamVerif.Props.C10.decode_encode
#print axioms SamVerif.Props.C10.reencode_canonical
#print axioms SamVerif.Props.C10.decodeAll_encodeList
#print axioms SamVerif.Props.C10.chunking_independent
#print axioms SamVerif.Props.C10.decode_encode_chunked
#print axioms SamVerif.Props.C10.inline_eq_array
#print axioms SamVerif.Props.C10.constants_match_source
#print axioms SamVerif.Props.C10.reader_matches_model
