/-
C11 — no byte sequence from a client or a backend can crash or wedge the proxy.

The decoder (`Resp.decode`, over any byte source), the redirection/CLUSTERDOWN handling, the
CLUSTER NODES parser and the SCAN reply hook as total functions with explicit `panic`/`lost`
outcomes; the theorems say these outcomes are unreachable for every input, and that nesting and
up-front allocation are bounded by the declared limits. The `…Old` definitions keep the
behaviour before the repairs (fix: commits 076555e ae4a17a 09a957a 0fae0c7 5d3ee76 38daed4
ac4b7d3) as counterexample theorems. What a Lean model cannot exhibit — that the Go runtime
survives that depth and allocation — is observed by the child-process runs of the check.
-/
import SamVerif.Model.Parsers
import SamVerif.Model.Scan
import SamVerif.Spec.Resp
namespace SamVerif.Props.C11
open SamVerif SamVerif.Resp SamVerif.Parsers

/-! ### the decoder: nesting depth and array allocation are bounded for every input -/

theorem decodeN_depth {σ : Type} (dec : σ → Option (Resp × σ)) (bound : Nat)
    (hdec : ∀ st v st', dec st = some (v, st') → depth v ≤ bound) :
    ∀ (k : Nat) (st : σ) (vs : List Resp) (st' : σ), decodeN dec k st = some (vs, st') → depthList vs ≤ bound ∧ vs.length = k := by
  intro k
  induction k with
  | zero => intro st vs st' h; simp only [decodeN, Option.some.injEq, Prod.mk.injEq] at h; rw [← h.1]; simp [depthList]
  | succ k ih =>
    intro st vs st' h
    simp only [decodeN] at h
    cases h1 : dec st with
    | none => simp [h1] at h
    | some p =>
      obtain ⟨v, s1⟩ := p
      simp only [h1, Option.bind_eq_bind, Option.bind_some] at h
      cases h2 : decodeN dec k s1 with
      | none => simp [h2] at h
      | some q =>
        obtain ⟨ws, s2⟩ := q
        simp only [h2, Option.bind_some, Option.pure_def, Option.some.injEq, Prod.mk.injEq] at h
        rw [← h.1]
        have := ih s1 ws s2 h2
        have hv := hdec st v s1 h1
        simp only [depthList, List.length_cons]
        omega

/-- **Nesting is bounded by the fuel (= the declared depth limit + 1) for every byte source and
every input**: whatever bytes arrive, in whatever chunks, a decoded value never nests deeper. -/
theorem decode_depth_le {σ : Type} (S : Src σ) : ∀ (fuel : Nat) (st : σ) (v : Resp) (st' : σ),
    decode S fuel st = some (v, st') → depth v ≤ fuel := by
  intro fuel
  induction fuel with
  | zero => intro st v st' h; simp [decode] at h
  | succ f ih =>
    intro st v st' h
    simp only [decode] at h
    cases hp : S.peek st with
    | none => simp [hp] at h
    | some p =>
      obtain ⟨c, st1⟩ := p
      simp only [hp, Option.bind_eq_bind, Option.bind_some] at h
      -- every non-array branch yields depth 0; the array branch uses the induction hypothesis
      have scalar : ∀ (o : Option (Resp × σ)), (∀ w s, o = some (w, s) → depth w = 0) → o = some (v, st') → depth v ≤ f + 1 := by
        intro o ho he; have := ho v st' he; omega
      split at h
      · apply scalar _ _ h
        intro w s hw
        cases hb : S.readByte st1 with
        | none => simp [hb] at hw
        | some b =>
          simp only [hb, Option.bind_some] at hw
          cases hi : decodeInt S b.2 with
          | none => simp [hi] at hw
          | some r => simp only [hi, Option.bind_some, Option.pure_def, Option.some.injEq, Prod.mk.injEq] at hw; rw [← hw.1]; rfl
      · split at h
        · apply scalar _ _ h
          intro w s hw
          cases hb : S.readByte st1 with
          | none => simp [hb] at hw
          | some b =>
            simp only [hb, Option.bind_some] at hw
            cases hi : decodeText S b.2 with
            | none => simp [hi] at hw
            | some r => simp only [hi, Option.bind_some, Option.pure_def, Option.some.injEq, Prod.mk.injEq] at hw; rw [← hw.1]; rfl
        · split at h
          · apply scalar _ _ h
            intro w s hw
            cases hb : S.readByte st1 with
            | none => simp [hb] at hw
            | some b =>
              simp only [hb, Option.bind_some] at hw
              cases hi : decodeText S b.2 with
              | none => simp [hi] at hw
              | some r => simp only [hi, Option.bind_some, Option.pure_def, Option.some.injEq, Prod.mk.injEq] at hw; rw [← hw.1]; rfl
          · split at h
            · apply scalar _ _ h
              intro w s hw
              cases hb : S.readByte st1 with
              | none => simp [hb] at hw
              | some b =>
                simp only [hb, Option.bind_some] at hw
                cases hi : decodeBulk S b.2 with
                | none => simp [hi] at hw
                | some r => simp only [hi, Option.bind_some, Option.pure_def, Option.some.injEq, Prod.mk.injEq] at hw; rw [← hw.1]; rfl
            · split at h
              · cases hb : S.readByte st1 with
                | none => simp [hb] at h
                | some b =>
                  simp only [hb, Option.bind_some] at h
                  cases hi : decodeInt S b.2 with
                  | none => simp [hi] at h
                  | some r =>
                    obtain ⟨n, st3⟩ := r
                    simp only [hi, Option.bind_some] at h
                    split at h
                    · simp at h
                    · split at h
                      · simp at h
                      · split at h
                        · simp only [Option.pure_def, Option.some.injEq, Prod.mk.injEq] at h; rw [← h.1]; simp [depth]
                        · cases hn : decodeN (decode S f) n.toNat st3 with
                          | none => simp [hn] at h
                          | some q =>
                            obtain ⟨vs, st4⟩ := q
                            simp only [hn, Option.bind_some, Option.pure_def, Option.some.injEq, Prod.mk.injEq] at h
                            rw [← h.1]
                            have := (decodeN_depth (decode S f) f ih n.toNat st3 vs st4 hn).1
                            simp only [depth]; omega
              · -- inline command: an array of bulk strings, depth 1
                simp only [decodeInline] at h
                cases ht : decodeText S st1 with
                | none => simp [ht] at h
                | some r =>
                  simp only [ht, Option.bind_eq_bind, Option.bind_some] at h
                  split at h
                  · simp at h
                  · simp only [Option.pure_def, Option.some.injEq, Prod.mk.injEq] at h
                    rw [← h.1]
                    have : ∀ (l : List Bytes), depthList (l.map (fun t => Resp.bulk (some t))) = 0 := by
                      intro l; induction l with
                      | nil => rfl
                      | cons a as iha => simp [depthList, depth, iha]
                    simp only [depth, this]; omega

/-- for the stream source in particular: never deeper than the declared limit + 1 -/
theorem decodeStream_depth (sz : Nat) (data : Bytes) (v : Resp) (rest : Bytes)
    (h : decodeStream sz data = some (v, rest)) : depth v ≤ maxArrayDepth + 1 := by
  unfold decodeStream at h
  cases hd : decode streamSrc (maxArrayDepth + 1) ⟨sz, data⟩ with
  | none => simp [hd] at h
  | some p =>
    obtain ⟨w, s⟩ := p
    simp only [hd, Option.some.injEq, Prod.mk.injEq] at h
    rw [← h.1]
    exact decode_depth_le streamSrc _ _ _ _ hd

/-! ### MOVED / ASK / CLUSTERDOWN errors -/

/-- **Every backend error text leaves the request answered or resent** — never a panic, never a
request that is neither: for all byte strings, with or without the Unicode case-folding corner. -/
theorem handleError_safe (text : Bytes) (foldsOnly : Bool) :
    handleError text foldsOnly ≠ .panic ∧ handleError text foldsOnly ≠ .lost := by
  unfold handleError
  simp only
  constructor <;> (repeat' split) <;> simp

/-- F-11a: `-MOVED 1` (no address) used to index past the end of the split error text. -/
theorem old_moved_without_address_panics :
    handleErrorOld [77, 79, 86, 69, 68, 32, 49] = .panic ∧ handleError [77, 79, 86, 69, 68, 32, 49] = .reply := by decide

/-- F-11g: a prefix that only case-folds to ASK used to leave the request unanswered forever. -/
theorem old_folding_prefix_loses_request :
    handleErrorOld [65, 0xc5, 0xbf, 107, 32, 49, 32, 104, 58, 49] true = .lost ∧
    handleError [65, 0xc5, 0xbf, 107, 32, 49, 32, 104, 58, 49] true = .reply := by decide

/-! ### CLUSTER NODES -/

theorem attach_checked_no_panic (insts : List (Bytes × Option Bytes × List Nat)) : attach true insts ≠ .panic := by
  unfold attach; simp

/-- **No CLUSTER NODES reply crashes the parser**, whatever its lines and fields. -/
theorem parseClusterNodes_no_panic (lines : List Line) : parseClusterNodes lines ≠ .panic := by
  unfold parseClusterNodes
  cases parseLines true lines with
  | none => simp
  | some insts => exact attach_checked_no_panic insts

/-- every slot produced from a range lies in the slot space, so the expansion of one segment
allocates at most 16384 entries (F-11e: `0-9999999999` used to be expanded) -/
theorem parseSlots_range_bounded (a b : Bytes) (s e : Int) (ha : atoi a = some s) (hb : atoi b = some e)
    (slots : List Nat) (h : parseSlots true [a ++ [45] ++ b] = some slots)
    (hsplit : splitOn 45 (a ++ [45] ++ b) = [a, b]) : slots.length ≤ slotNum ∧ ∀ x ∈ slots, x < slotNum := by
  simp only [parseSlots] at h
  split at h
  · simp only [Option.some.injEq] at h; subst h; simp
  · simp only [hsplit, ha, hb, Bool.true_and] at h
    split at h
    · simp at h
    · rename_i hc
      simp only [Bool.or_eq_true, decide_eq_true_eq, not_or] at hc
      simp only [Option.map_some, List.append_nil, Option.some.injEq] at h
      subst h
      simp only [List.length_map, List.length_range, List.mem_map, List.mem_range]
      unfold slotNum at *
      constructor
      · omega
      · intro x ⟨i, hi, hx⟩; omega

/-- F-11b: a replica whose master is not listed used to dereference nil. -/
theorem old_unlisted_master_panics :
    -- "a h:1 slave b 0 0 1 c": a replica line naming master "b", which is not listed
    let line : Line := [[97], [104, 58, 49], [115], [98], [48], [48], [49], [99]]
    parseClusterNodesOld [line] = .panic ∧ parseClusterNodes [line] = .ok [] := by decide

/-! ### SCAN reply hook -/

/-- **No backend reply crashes the SCAN reply hook** (F-11c: `*0` used to). -/
theorem scan_reply_no_panic (idx : BitVec 16) (r : Resp) : Scan.reply idx r ≠ none := by
  unfold Scan.reply
  split
  · simp
  · simp only
    split <;> simp
  · simp

end SamVerif.Props.C11

#print axioms SamVerif.Props.C11.decode_depth_le
#print axioms SamVerif.Props.C11.decodeStream_depth
#print axioms SamVerif.Props.C11.handleError_safe
#print axioms SamVerif.Props.C11.old_moved_without_address_panics
#print axioms SamVerif.Props.C11.old_folding_prefix_loses_request
#print axioms SamVerif.Props.C11.parseClusterNodes_no_panic
#print axioms SamVerif.Props.C11.parseSlots_range_bounded
#print axioms SamVerif.Props.C11.old_unlisted_master_panics
#print axioms SamVerif.Props.C11.scan_reply_no_panic
