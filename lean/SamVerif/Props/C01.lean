/-
C01 — replies come back in request order, exactly one per request.

`Session.step` models one downstream connection (reader → bounded in-flight queue → writer,
requests completing in any order in between), `Session.wstep` the pairing of replies with
requests on a backend connection.  Function statements are regenerated from the source on every
run (`code_matches_model`); behaviour is tied by the differential run: real sessions over
loopback sockets on a socket-less processor with three backend nodes answering in forced orders,
fragmented request bytes, several concurrent connections — and pipelines over one real backend
connection with fragmented replies.  Error replies are single lines since 94de197 (F-01a).
-/
import SamVerif.Proofs.Session
import SamVerif.Gen.Session
import SamVerif.Proofs.Compose
import SamVerif.Proofs.SessFlush
namespace SamVerif.Props.C01
open SamVerif.Session

/-- **Replies are written in request order.** After any interleaving of the reader, the writer
and the completions of the requests (any order, any delay, any backend), the replies written so
far are exactly those of requests `0, 1, …, m-1` in this order, for some `m`. -/
theorem replies_in_request_order (cap : Nat) (ls : List Label) (s : Sess) (h : run { cap := cap } ls = some s) :
    s.written = List.range s.written.length := by
  have hi := inv_run ls _ s (inv_init cap) h
  have := hi.line
  unfold line at this
  rw [List.append_assoc, List.append_assoc] at this
  exact prefix_of_range _ _ _ this

/-- **One reply per request, never more**: no request's reply is written twice, and a reply is
only written for a request that has completed. -/
theorem at_most_one_reply (cap : Nat) (ls : List Label) (s : Sess) (h : run { cap := cap } ls = some s) :
    s.written.Nodup ∧ ∀ id ∈ s.written, id ∈ s.completed ∧ id < s.nread := by
  have hi := inv_run ls _ s (inv_init cap) h
  have hr := replies_in_request_order cap ls s h
  refine ⟨by rw [hr]; exact List.nodup_range, ?_⟩
  intro id hid
  refine ⟨hi.doneWritten id hid, ?_⟩
  have : id ∈ line s := by simp [line, hid]
  rw [hi.line] at this
  exact List.mem_range.mp this

/-- **Exactly one reply per request at rest**: when every request read so far has completed
and neither the reader's enqueue nor the writer has a step left, every request read has had its
reply written — in order. -/
theorem all_replied_at_rest (cap : Nat) (hcap : 0 < cap) (ls : List Label) (s : Sess)
    (h : run { cap := cap } ls = some s)
    (hall : ∀ id, id < s.nread → id ∈ s.completed)
    (hrest : step s .enqueue = none ∧ step s .take = none ∧ step s .write = none) :
    s.written = List.range s.nread := by
  have hi := inv_run ls _ s (inv_init cap) h
  have hcapS : s.cap = cap := by
    have : ∀ (ls : List Label) (a b : Sess), run a ls = some b → b.cap = a.cap := by
      intro ls
      induction ls with
      | nil => intro a b hab; simp [run] at hab; subst hab; rfl
      | cons l ls ih =>
        intro a b hab
        simp only [run] at hab
        cases hs : step a l with
        | none => simp [hs] at hab
        | some a1 =>
          simp only [hs] at hab
          have h1 := ih a1 b hab
          have h2 : a1.cap = a.cap := by
            cases l <;> simp only [step] at hs <;> (repeat' split at hs) <;> (try cases hs) <;> simp_all
          rw [h1, h2]
    exact this ls _ s h
  obtain ⟨he, ht, hw⟩ := hrest
  have hline := hi.line
  -- the writer holds nothing: otherwise that request is complete and `write` is enabled
  have hwait : s.waiting = none := by
    cases hwv : s.waiting with
    | none => rfl
    | some id =>
      exfalso
      have hid : id ∈ line s := by simp [line, hwv]
      rw [hline] at hid
      have := hall id (List.mem_range.mp hid)
      simp [step, hwv, this] at hw
  have hq : s.queue = [] := by
    cases hqv : s.queue with
    | nil => rfl
    | cons id rest => simp [step, hwait, hqv] at ht
  have hin : s.inHand = none := by
    cases hiv : s.inHand with
    | none => rfl
    | some id => simp [step, hiv, hq, hcapS, hcap] at he
  simpa [line, hwait, hq, hin] using hline

/-- non-vacuity: three requests completing in reverse order are replied to in request order -/
example : ∃ s, run { cap := 32 }
    [.read, .enqueue, .read, .enqueue, .read, .enqueue, .take, .complete 2, .complete 1, .complete 0,
     .write, .take, .write, .take, .write] = some s ∧ s.written = [0, 1, 2] ∧ s.completed = [2, 1, 0] :=
  ⟨_, rfl, rfl, rfl⟩

/-- the writer cannot overtake: with request 0 outstanding nothing is written although 1 and 2 are complete -/
example : ∃ s, run { cap := 32 }
    [.read, .enqueue, .read, .enqueue, .read, .enqueue, .take, .complete 2, .complete 1] = some s ∧
    s.written = [] ∧ step s .write = none :=
  ⟨_, rfl, rfl, rfl⟩

/-! ## backend connection: reply j belongs to request j -/

/-- **Pairing.** On a backend connection, after any interleaving of its writer and reader, the
j-th reply has been given to the j-th request that was encoded onto the connection — whatever
other requests (of the same or of other downstream connections) are multiplexed on it. -/
theorem reply_j_goes_to_request_j (ls : List WLabel) (w : Wire) (h : wrun {} ls = some w)
    (j : Nat) (id k : Nat) (hj : w.paired[j]? = some (id, k)) : k = j ∧ w.wire[j]? = some id := by
  have hi := winv_run ls _ w winv_init h
  have hlt : j < w.paired.length := by
    cases hlt : decide (j < w.paired.length) with
    | true => exact of_decide_eq_true hlt
    | false =>
      have : w.paired.length ≤ j := Nat.le_of_not_lt (of_decide_eq_false hlt)
      rw [List.getElem?_eq_none this] at hj; cases hj
  have hk : (w.paired.map (·.2))[j]? = some k := by rw [List.getElem?_map, hj]; rfl
  have hid : (w.paired.map (·.1))[j]? = some id := by rw [List.getElem?_map, hj]; rfl
  constructor
  · rw [hi.index] at hk
    have hjl : j < w.replies := by
      have := congrArg List.length hi.index
      simp at this; omega
    rw [List.getElem?_range hjl] at hk
    injection hk with hk; exact hk.symm
  · rw [← hi.order, List.append_assoc]
    rw [List.getElem?_append_left (by simpa using hlt)]
    exact hid

example : ∃ w, wrun {} [.encode 7, .handoff, .encode 3, .encode 9] = none ∧
    wrun {} [.encode 7, .handoff, .encode 3, .handoff, .pair, .encode 9, .handoff, .pair, .pair] = some w ∧
    w.paired = [(7, 0), (3, 1), (9, 2)] ∧ w.wire = [7, 3, 9] :=
  ⟨_, rfl, rfl, rfl, rfl⟩

/-! ## tie to the code -/

theorem code_matches_model :
    Gen.Session.serve =
      ["writeDone := make(chan struct{})",
      "go func() { s.loopWrite() s.conn.Close() s.doQuit() close(writeDone) }()",
      "s.loopRead()",
      "s.conn.Close()",
      "s.doQuit()",
      "<-writeDone",
      "close(s.done)"] ∧
    Gen.Session.loopRead =
      ["for { v, err := s.dec.Decode() if err != nil { if err != io.EOF { s.p.logger.Warnf(\"loop read exit: %v\", err) } return } req := newRawRequest(v) s.p.handleRequest(req) select { case s.processingReqs <- req: case <-s.quit: return } }"] ∧
    Gen.Session.loopWrite =
      ["var ( req *rawRequest err error )",
      "for { select { case <-s.quit: return case req = <-s.processingReqs: } select { case <-req.done: default: if err = s.enc.Flush(); err != nil { goto FAIL } select { case <-req.done: case <-s.quit: return } } resp := req.Response() if err = s.enc.Encode(resp); err != nil { goto FAIL } if len(s.processingReqs) != 0 { continue } if err = s.enc.Flush(); err != nil { goto FAIL } }",
      "FAIL: s.p.logger.Warnf(\"loop write exit: %v\", err)"] ∧
    Gen.Session.mgetSetResponse =
      ["v := make([]RespValue, len(r.children))",
      "for i, child := range r.children { v[i] = *child.Response() }",
      "r.raw.SetResponse(&RespValue{ Type: Array, Array: v, })"] ∧
    Gen.Session.sumSetResponse =
      ["total := int64(0)",
      "errCount := 0",
      "for _, child := range r.children { resp := child.Response() switch resp.Type { case Integer: total += resp.Int default: errCount++ } }",
      "if errCount == 0 { r.raw.SetResponse(newInteger(total)) } else { r.raw.SetResponse(newError(fmt.Sprintf(\"finished with %d error(s)\", errCount))) }"] ∧
    Gen.Session.newError =
      ["if strings.ContainsAny(s, \"\\r\\n\") { s = strings.NewReplacer(\"\\r\", \" \", \"\\n\", \" \").Replace(s) }",
      "return &RespValue{ Type: Error, Text: []byte(s), }"] ∧
    Gen.Session.clientLoopRead =
      ["for { resp, err := c.dec.Decode() if err != nil { if err != io.EOF && !strings.Contains(err.Error(), \"use of closed network connection\") { c.logger.Warnf(\"loop read exit: %v\", err) } return } verifPause(\"client.read.pair\", c) var req *simpleRequest select { case req = <-c.processingReqs: case <-c.quit: return } c.handleResp(req, resp) }"] ∧
    Gen.Session.queueCap = 32 := by
  refine ⟨rfl, rfl, rfl, rfl, rfl, rfl, rfl, rfl⟩

/-! ### added: completion / composition -/
/-- **Traffic on other connections does not matter (projection).** In the composed system — any
number of downstream connections over any number of shared backend connections, every step of
every party interleaved freely — the state of each downstream connection is one it reaches
running alone: whatever the others do shows on it at most as the timing of completions. -/
theorem other_connections_do_not_matter (cap : Nat) (ls : List Compose.CLabel) (s : Compose.Sys)
    (h : Compose.run (Compose.init cap) ls = some s) (c : Nat) :
    ∃ own : List Label, run { cap := cap } own = some (s.sess c) :=
  Compose.reach_run cap ls _ s (Compose.reach_init cap) h c

/-- hence on every connection of the composed system the replies are those of its requests
`0 … m-1`, in order, each once -/
theorem composed_replies_in_request_order (cap : Nat) (ls : List Compose.CLabel) (s : Compose.Sys)
    (h : Compose.run (Compose.init cap) ls = some s) (c : Nat) :
    (s.sess c).written = List.range (s.sess c).written.length ∧ (s.sess c).written.Nodup := by
  obtain ⟨own, ho⟩ := other_connections_do_not_matter cap ls s h c
  exact ⟨replies_in_request_order cap own _ ho, (at_most_one_reply cap own _ ho).1⟩

/-- **The k-th reply is the result of the k-th request.** The reply written at position `k` of
connection `c` belongs to request `(c, k)`, and what completed it was either the proxy itself or
the `j`-th reply of a backend connection whose `j`-th encoded request was `(c, k)` — never a
reply to another request, of this or any other connection. -/
theorem kth_reply_is_result_of_kth_request (cap : Nat) (ls : List Compose.CLabel) (s : Compose.Sys)
    (h : Compose.run (Compose.init cap) ls = some s) (c k id : Nat) (hk : (s.sess c).written[k]? = some id) :
    id = k ∧ ((∃ w j, ((c, k), (w, j)) ∈ s.results ∧ (s.wires w).wire[j]? = some (c, k)) ∨ (c, k) ∈ s.locals) := by
  obtain ⟨own, ho⟩ := other_connections_do_not_matter cap ls s h c
  have hr := replies_in_request_order cap own _ ho
  have hid : id = k := by
    rw [hr] at hk
    have hlt : k < (s.sess c).written.length := by
      rcases Nat.lt_or_ge k (s.sess c).written.length with h1 | h1
      · exact h1
      · rw [List.getElem?_eq_none (by simpa using h1)] at hk; cases hk
    rw [List.getElem?_range hlt] at hk
    injection hk with hk; exact hk.symm
  subst hid
  refine ⟨rfl, ?_⟩
  have hmem : id ∈ (s.sess c).written := List.mem_of_getElem? hk
  have hdone := ((at_most_one_reply cap own _ ho).2 id hmem).1
  have hp := Compose.pinv_run ls _ s (Compose.pinv_init cap) h
  rcases hp.done c id hdone with ⟨w, j, hwj⟩ | hl
  · exact Or.inl ⟨w, j, hwj, hp.res _ w j hwj⟩
  · exact Or.inr hl

/-- the composed theorems are not vacuous: two connections pipelining over one shared backend
connection, the second connection's request encoded first, replies written on both -/
example : ∃ s, Compose.run (Compose.init 32)
    [.sess 0 .read, .sess 1 .read, .sess 0 .enqueue, .sess 1 .enqueue, .encode 7 (1, 0), .handoff 7, .encode 7 (0, 0),
     .handoff 7, .sess 0 .take, .pair 7 true, .pair 7 true, .sess 0 .write, .sess 1 .take, .sess 1 .write] = some s
    ∧ (s.sess 0).written = [0] ∧ (s.sess 1).written = [0]
    ∧ s.results = [((0, 0), (7, 1)), ((1, 0), (7, 0))] := by
  refine ⟨_, rfl, ?_⟩
  decide

end SamVerif.Props.C01

namespace SamVerif.Props.C01f
open SamVerif.SessFlush

/-- **Nothing finished waits in the write buffer while the writer is blocked** (after F-01b): in every reachable state in
which the writer waits — for a request to arrive, or for the answer to the request at the head of the queue — every reply
encoded so far has been flushed to the client. -/
theorem blocked_writer_has_flushed (ls : List Label) (s : W) (hr : run {} ls = some s) (hb : blocked s) : s.buf = [] := by
  have h : Inv s := inv_run {} s ls (by refine ⟨rfl, ?_, ?_⟩ <;> simp) hr
  rcases hb with ⟨h1, h2⟩ | ⟨id, h1, _⟩
  · exact h.2.2 h1 h2
  · exact h.2.1 id h1

/-- the writer before 58f2ae2: two requests are queued, the first is answered, the second is not — the first reply sits in
the buffer while the writer is blocked on the second -/
theorem old_writer_blocks_with_a_reply_in_the_buffer :
    ∃ s, run { old := true } [.enqueue 0, .enqueue 1, .complete 0, .take, .look, .encode, .take, .look] = some s ∧
      blocked s ∧ s.buf = [0] ∧ s.sent = [] := by
  refine ⟨_, rfl, Or.inr ⟨1, rfl, by decide⟩, rfl, rfl⟩

/-- the same schedule now: the reply of request 0 is with the client -/
example : ∃ s, run {} [.enqueue 0, .enqueue 1, .complete 0, .take, .look, .encode, .take, .look] = some s ∧
      blocked s ∧ s.buf = [] ∧ s.sent = [0] := ⟨_, rfl, Or.inr ⟨1, rfl, by decide⟩, rfl, rfl⟩

end SamVerif.Props.C01f

#print axioms SamVerif.Props.C01.replies_in_request_order
#print axioms SamVerif.Props.C01.at_most_one_reply
#print axioms SamVerif.Props.C01.all_replied_at_rest
#print axioms SamVerif.Props.C01.reply_j_goes_to_request_j
#print axioms SamVerif.Props.C01.code_matches_model
#print axioms SamVerif.Props.C01.other_connections_do_not_matter
#print axioms SamVerif.Props.C01.composed_replies_in_request_order
#print axioms SamVerif.Props.C01.kth_reply_is_result_of_kth_request
#print axioms SamVerif.Props.C01f.blocked_writer_has_flushed
#print axioms SamVerif.Props.C01f.old_writer_blocks_with_a_reply_in_the_buffer
