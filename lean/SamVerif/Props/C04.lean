/-
C04 — slot migration and failover are invisible to clients.

`Upstream.follow` is the proxy's handling of MOVED and ASK (`client.handleResp` →
`upstream.handleRedirection`) against `Upstream.nodeAnswer`, what a Redis Cluster node answers
for a slot that is stable, migrating or importing.  Function statements are regenerated from the
source and compared; behaviour is tied by the differential run of a real Redis processor over
real sockets against a scripted cluster whose slots are migrated key by key, handed over at
once, and whose masters are replaced by replicas, with the single-server semantics as the
reference.  A failed connect triggers a refresh since F-04b was repaired.
-/
import SamVerif.Proofs.Upstream
import SamVerif.Gen.Upstream
namespace SamVerif.Props.C04
open SamVerif.Upstream

/-- **Redirections end at the node that has to execute the command, within two hops, and the
client never sees them.** Whatever node the proxy's table names first — the owner, the migration
target, or any other node (a table that is stale in any way) — and whatever the migration state
of the slot, following MOVED and ASK as the proxy does reaches, after at most two redirections,
the node that holds the key: the owner, or the migration target when the key is not (or no
longer) on the owner.  The command is executed there and only there: the nodes passed on the way
answered with a redirection and executed nothing. -/
theorem redirections_end_at_the_holder (t : Truth) (present : Bool) (first : Nat)
    (hdst : ∀ d, t.target = some d → d ≠ t.owner) :
    ∃ r, follow t present 3 first false = some (holder t present, r) ∧ r ≤ 2 :=
  follow_finds_holder t present first hdst

/-- with a loaded, current table nothing is redirected -/
theorem no_redirect_when_table_is_current (t : Truth) (hstable : t.target = none) :
    follow t true 3 t.owner false = some (t.owner, 0) := by
  simp [follow, nodeAnswer, hstable]

/-- every phase of a migration, as the property lists them -/
example : follow ⟨0, none⟩ true 3 0 false = some (0, 0) := rfl                 -- stable
example : follow ⟨0, some 1⟩ true 3 0 false = some (0, 0) := rfl               -- migrating, key still on the source
example : follow ⟨0, some 1⟩ false 3 0 false = some (1, 1) := rfl              -- migrating, key already moved (ASK)
example : follow ⟨1, none⟩ true 3 0 false = some (1, 1) := rfl                 -- finalised, table stale (MOVED)
example : follow ⟨0, some 1⟩ false 3 1 false = some (1, 2) := rfl              -- table already points at the target (MOVED, then ASK)
example : follow ⟨0, some 1⟩ false 3 2 false = some (1, 2) := rfl              -- table points at a third node

/-! ## tie to the code -/

theorem code_matches_model :
    Gen.Upstream.handleResp =
      ["if v.Type != Error { req.SetResponse(v) return }",
       "i := bytes.Index(v.Text, []byte(\" \"))",
       "var errPrefix []byte",
       "if i != -1 { errPrefix = v.Text[:i] }",
       "switch { case bytes.EqualFold(errPrefix, []byte(MOVED)), bytes.EqualFold(errPrefix, []byte(ASK)): if c.onRedirection != nil { c.onRedirection(req, v) return } case bytes.EqualFold(errPrefix, []byte(CLUSTERDOWN)): if c.onClusterDown != nil { c.onClusterDown(req, v) return } }",
       "req.SetResponse(v)"] ∧
    Gen.Upstream.handleRedirection =
      ["err := strings.Split(string(resp.Text), \" \")",
       "if len(err) < 3 { req.SetResponse(resp) return }",
       "hostAddr := err[2]",
       "switch strings.ToLower(err[0]) { case MOVED: u.stats.Counter(\"moved\").Inc() u.MakeRequestToHost(hostAddr, req) case ASK: askingReq := newSimpleRequest(newArray( *newBulkString(ASKING), )) u.MakeRequestToHost(hostAddr, askingReq) u.MakeRequestToHost(hostAddr, req) default: req.SetResponse(resp) return }",
       "u.triggerSlotsRefresh()"] ∧
    Gen.Upstream.handleClusterDown =
      ["u.triggerSlotsRefresh()",
       "req.SetResponse(resp)"] ∧
    Gen.Upstream.makeRequestToHost =
      ["u.stats.RqTotal.Inc()",
       "req.RegisterHook(func(req *simpleRequest) { if req.Response().Type == Error { u.stats.RqFailureTotal.Inc() } else { u.stats.RqSuccessTotal.Inc() } u.stats.RqDurationMs.Record(uint64(req.Duration() / time.Millisecond)) })",
       "select { case <-u.quit: req.SetResponse(newError(upstreamExited)) return default: }",
       "c, err := u.getClient(addr)",
       "if err != nil { u.triggerSlotsRefresh() req.SetResponse(newError(err.Error())) return }",
       "c.Send(req)"] := by
  refine ⟨rfl, rfl, rfl, rfl⟩

end SamVerif.Props.C04

#print axioms SamVerif.Props.C04.redirections_end_at_the_holder
#print axioms SamVerif.Props.C04.no_redirect_when_table_is_current
#print axioms SamVerif.Props.C04.code_matches_model
