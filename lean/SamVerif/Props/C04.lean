/-
C04 — slot migration and failover are invisible to clients.

`Upstream.follow` is the proxy's handling of MOVED and ASK (`client.handleResp` →
`upstream.handleRedirection`) against `Upstream.nodeAnswer`, what a Redis Cluster node answers
for a slot that is stable, migrating or importing.  Function statements are regenerated from the
source and compared; behaviour is tied by the differential run of a real Redis processor over
real sockets against a scripted cluster whose slots are migrated key by key, handed over at
once, and whose masters are replaced by replicas, with the single-server semantics as the
reference.  A failed connect triggers a refresh since F-04b was repaired.
-/
import SamVerif.Proofs.Upstream
import SamVerif.Gen.Upstream
import SamVerif.Proofs.ClusterRef
import SamVerif.Model.AskPair
namespace SamVerif.Props.C04
open SamVerif.Upstream

/-- **Redirections end at the node that has to execute the command, within two hops, and the
client never sees them.** Whatever node the proxy's table names first — the owner, the migration
target, or any other node (a table that is stale in any way) — and whatever the migration state
of the slot, following MOVED and ASK as the proxy does reaches, after at most two redirections,
the node that holds the key: the owner, or the migration target when the key is not (or no
longer) on the owner.  The command is executed there and only there: the nodes passed on the way
answered with a redirection and executed nothing. -/
theorem redirections_end_at_the_holder (t : Truth) (present : Bool) (first : Nat)
    (hdst : ∀ d, t.target = some d → d ≠ t.owner) :
    ∃ r, follow t present 3 first false = some (holder t present, r) ∧ r ≤ 2 :=
  follow_finds_holder t present first hdst

/-- with a loaded, current table nothing is redirected -/
theorem no_redirect_when_table_is_current (t : Truth) (hstable : t.target = none) :
    follow t true 3 t.owner false = some (t.owner, 0) := by
  simp [follow, nodeAnswer, hstable]

/-- every phase of a migration, as the property lists them -/
example : follow ⟨0, none⟩ true 3 0 false = some (0, 0) := rfl                 -- stable
example : follow ⟨0, some 1⟩ true 3 0 false = some (0, 0) := rfl               -- migrating, key still on the source
example : follow ⟨0, some 1⟩ false 3 0 false = some (1, 1) := rfl              -- migrating, key already moved (ASK)
example : follow ⟨1, none⟩ true 3 0 false = some (1, 1) := rfl                 -- finalised, table stale (MOVED)
example : follow ⟨0, some 1⟩ false 3 1 false = some (1, 2) := rfl              -- table already points at the target (MOVED, then ASK)
example : follow ⟨0, some 1⟩ false 3 2 false = some (1, 2) := rfl              -- table points at a third node


/-! ### added: completion under every schedule / interference -/
def followAdv (t : Truth) (present : Bool) : Nat → Nat → Bool → List Bool → Option (Nat × Nat)
  | 0, _, _, _ => none
  | fuel + 1, node, asking, steals =>
    match nodeAnswer t node present asking with
    | .serve => some (node, 0)
    | .moved n => (followAdv t present fuel n false steals).map fun r => (r.1, r.2 + 1)
    | .ask n =>
      match steals with
      | true :: rest => (followAdv t present fuel n false rest).map fun r => (r.1, r.2 + 1)
      | _ :: rest => (followAdv t present fuel n true rest).map fun r => (r.1, r.2 + 1)
      | [] => (followAdv t present fuel n true []).map fun r => (r.1, r.2 + 1)

def bump1 (r : Nat × Nat) : Nat × Nat := (r.1, r.2 + 1)

theorem adv_serve (t : Truth) (p : Bool) (f node : Nat) (asking : Bool) (st : List Bool)
    (h : nodeAnswer t node p asking = .serve) : followAdv t p (f + 1) node asking st = some (node, 0) := by
  simp [followAdv, h]

theorem adv_moved (t : Truth) (p : Bool) (f node n : Nat) (asking : Bool) (st : List Bool)
    (h : nodeAnswer t node p asking = .moved n) :
    followAdv t p (f + 1) node asking st = (followAdv t p f n false st).map bump1 := by
  simp only [followAdv, h]; rfl

theorem adv_ask_stolen (t : Truth) (p : Bool) (f node n : Nat) (asking : Bool) (rest : List Bool)
    (h : nodeAnswer t node p asking = .ask n) :
    followAdv t p (f + 1) node asking (true :: rest) = (followAdv t p f n false rest).map bump1 := by
  simp only [followAdv, h]; rfl

theorem adv_ask_kept (t : Truth) (p : Bool) (f node n : Nat) (asking : Bool) (rest : List Bool)
    (h : nodeAnswer t node p asking = .ask n) :
    followAdv t p (f + 1) node asking (false :: rest) = (followAdv t p f n true rest).map bump1 := by
  simp only [followAdv, h]; rfl

theorem adv_ask_nil (t : Truth) (p : Bool) (f node n : Nat) (asking : Bool)
    (h : nodeAnswer t node p asking = .ask n) :
    followAdv t p (f + 1) node asking [] = (followAdv t p f n true []).map bump1 := by
  simp only [followAdv, h]; rfl

/-- from the owner of a migrating slot whose key has moved: each theft costs a round trip
target → owner, then the command is served by the target -/
theorem from_owner (owner dst : Nat) (hne : dst ≠ owner) : ∀ (steals : List Bool) (fuel : Nat),
    2 + 2 * steals.length ≤ fuel →
    ∃ r, followAdv ⟨owner, some dst⟩ false fuel owner false steals = some (dst, r) ∧ r ≤ 1 + 2 * steals.length := by
  have hown : ∀ a, nodeAnswer ⟨owner, some dst⟩ owner false a = .ask dst := by intro a; simp [nodeAnswer]
  have hdstA : nodeAnswer ⟨owner, some dst⟩ dst false true = .serve := by simp [nodeAnswer, hne]
  have hdstN : nodeAnswer ⟨owner, some dst⟩ dst false false = .moved owner := by simp [nodeAnswer, hne]
  intro steals
  induction steals with
  | nil =>
    intro fuel hf
    obtain ⟨f, rfl⟩ : ∃ f, fuel = f + 2 := ⟨fuel - 2, by simp at hf; omega⟩
    refine ⟨1, ?_, by omega⟩
    rw [adv_ask_nil _ _ _ _ _ _ (hown false), adv_serve _ _ _ _ _ _ hdstA]; rfl
  | cons b rest ih =>
    intro fuel hf
    obtain ⟨f, rfl⟩ : ∃ f, fuel = f + 4 := ⟨fuel - 4, by simp at hf; omega⟩
    cases b with
    | false =>
      refine ⟨1, ?_, by omega⟩
      rw [adv_ask_kept _ _ _ _ _ _ _ (hown false), adv_serve _ _ _ _ _ _ hdstA]; rfl
    | true =>
      obtain ⟨r, h1, h2⟩ := ih (f + 2) (by simp at hf ⊢; omega)
      refine ⟨r + 2, ?_, by simp; omega⟩
      rw [adv_ask_stolen _ _ _ _ _ _ _ (hown false), adv_moved _ _ _ _ _ _ _ hdstN, h1]; rfl

/-- **Interference only costs hops.** ASKING and the redirected command are two separate sends;
other traffic on the target's connection can consume the one-shot flag in between (`steals`: for
each ASK followed, whether that happens).  However often it happens, the command still ends at
the node that has to execute it and is executed there once; each theft costs two more
redirections.  A client never sees any of it. -/
theorem interference_only_costs_hops (t : Truth) (present : Bool)
    (hdst : ∀ d, t.target = some d → d ≠ t.owner) (steals : List Bool) (first : Nat) :
    ∃ r, followAdv t present (3 + 2 * steals.length) first false steals = some (holder t present, r) ∧
      r ≤ 2 + 2 * steals.length := by
  obtain ⟨owner, target⟩ := t
  obtain ⟨f, hfuel⟩ : ∃ f, 3 + 2 * steals.length = f + 2 := ⟨1 + 2 * steals.length, by omega⟩
  rw [hfuel]
  unfold holder
  cases target with
  | none =>
    by_cases hf : first = owner
    · subst hf
      exact ⟨0, adv_serve _ _ _ _ _ _ (by simp [nodeAnswer]), by omega⟩
    · refine ⟨1, ?_, by omega⟩
      rw [adv_moved _ _ _ _ owner _ _ (by simp [nodeAnswer, hf]), adv_serve _ _ _ _ _ _ (by simp [nodeAnswer])]; rfl
  | some dst =>
    have hne : dst ≠ owner := hdst dst rfl
    cases present with
    | true =>
      by_cases hf : first = owner
      · subst hf
        exact ⟨0, adv_serve _ _ _ _ _ _ (by simp [nodeAnswer]), by omega⟩
      · refine ⟨1, ?_, by omega⟩
        have hm : nodeAnswer ⟨owner, some dst⟩ first true false = .moved owner := by
          by_cases hfd : first = dst
          · simp [nodeAnswer, hfd, hne]
          · have : ¬ dst = first := fun h => hfd h.symm
            simp [nodeAnswer, hf, this]
        rw [adv_moved _ _ _ _ owner _ _ hm, adv_serve _ _ _ _ _ _ (by simp [nodeAnswer])]; rfl
    | false =>
      by_cases hf : first = owner
      · subst hf
        obtain ⟨r, h1, h2⟩ := from_owner first dst hne steals (f + 2) (by omega)
        exact ⟨r, h1, by omega⟩
      · obtain ⟨r, h1, h2⟩ := from_owner owner dst hne steals (f + 1) (by omega)
        refine ⟨r + 1, ?_, by omega⟩
        have hm : nodeAnswer ⟨owner, some dst⟩ first false false = .moved owner := by
          by_cases hfd : first = dst
          · simp [nodeAnswer, hfd, hne]
          · have : ¬ dst = first := fun h => hfd h.symm
            simp [nodeAnswer, hf, this]
        rw [adv_moved _ _ _ _ owner _ _ hm, h1]; rfl

/-- **The reference used by the differential runs agrees with the theorem.** What
`Drive.Cluster.route` predicts for a keyed command in a calm cluster (every node reachable at the
address the proxy knows, no lagging views) is execution on the key's holder after at most two
redirections — the executable reference is `follow`, not a second opinion. -/
theorem reference_route_is_the_proven_walk (c : Drive.Cluster.Cl) (hc : Drive.Cluster.Calm c) (k : Drive.Cluster.Bytes) (present : Bool)
    (hdst : ∀ d, (Drive.Cluster.truthOf c (Drive.Cluster.slotOf k)).target = some d →
      d ≠ (Drive.Cluster.truthOf c (Drive.Cluster.slotOf k)).owner) :
    ∃ r, r ≤ 2 ∧ Drive.Cluster.route c k present =
      (some (holder (Drive.Cluster.truthOf c (Drive.Cluster.slotOf k)) (present && !c.movedKeys.contains k)), r, decide (r > 0)) :=
  Drive.Cluster.route_reaches_holder c hc k present hdst

/-- **The code the model was written against.** The statements of the modelled functions,
regenerated from the current source on every run, are the ones the model was written against;
any edit to one of them makes this obligation fail and starts a search for a failing input. -/
theorem code_matches_model :
    Gen.Upstream.getClient =
      ["c, ok := u.loadClients()[addr]",
      "if ok { return c, nil }",
      "v, loaded := u.createClientCalls.LoadOrStore(addr, &createClientCall{ done: make(chan struct{}), })",
      "call := v.(*createClientCall)",
      "if loaded { <-call.done return call.res, call.err }",
      "c, err := u.createClient(addr)",
      "call.res, call.err = c, err",
      "close(call.done)",
      "u.createClientCalls.Delete(addr)",
      "return c, err"] ∧
    Gen.Upstream.createClient =
      ["u.clientsMu.Lock()",
      "select { case <-u.quit: u.clientsMu.Unlock() return nil, errors.New(upstreamExited) default: }",
      "c, ok := u.loadClients()[addr]",
      "u.clientsMu.Unlock()",
      "if ok { return c, nil }",
      "conn, err := netutil.Dial(\"tcp\", addr, *u.cfg.ConnectTimeout)",
      "if err != nil { return nil, err }",
      "options := []clientOption{ withKeyCounter(u.hkc.AllocCounter(addr)), withRedirectionCb(u.handleRedirection), withClusterDownCb(u.handleClusterDown), }",
      "c, err = newClient(conn, u.cfg, u.logger, options...)",
      "if err != nil { conn.Close() return nil, err }",
      "u.clientsMu.Lock()",
      "defer u.clientsMu.Unlock()",
      "select { case <-u.quit: conn.Close() return nil, errors.New(upstreamExited) default: }",
      "verifPause(\"upstream.client.checked\", u)",
      "if existing, ok := u.loadClients()[addr]; ok { conn.Close() return existing, nil }",
      "go func() { c.Start() u.removeEndedClient(addr, c) }()",
      "u.addClientLocked(addr, c)",
      "return c, nil"] ∧
    Gen.Upstream.removeClient =
      ["u.clientsMu.Lock()",
      "defer u.clientsMu.Unlock()",
      "u.removeClientLocked(addr)"] ∧
    Gen.Upstream.makeRequestToHost =
      ["for _, req := range reqs { u.stats.RqTotal.Inc() req.RegisterHook(func(req *simpleRequest) { if req.Response().Type == Error { u.stats.RqFailureTotal.Inc() } else { u.stats.RqSuccessTotal.Inc() } u.stats.RqDurationMs.Record(uint64(req.Duration() / time.Millisecond)) }) }",
      "fail := func(msg string) { for _, req := range reqs { req.SetResponse(newError(msg)) } }",
      "select { case <-u.quit: fail(upstreamExited) return default: }",
      "verifPause(\"upstream.request.checked\", u)",
      "c, err := u.getClient(addr)",
      "if err != nil { u.triggerSlotsRefresh() fail(err.Error()) return }",
      "c.Send(reqs...)"] ∧
    Gen.Upstream.handleResp =
      ["if v.Type != Error { req.SetResponse(v) return }",
      "i := bytes.Index(v.Text, []byte(\" \"))",
      "var errPrefix []byte",
      "if i != -1 { errPrefix = v.Text[:i] }",
      "switch { case bytes.EqualFold(errPrefix, []byte(MOVED)), bytes.EqualFold(errPrefix, []byte(ASK)): if c.onRedirection != nil { req.abort = c.quit c.onRedirection(req, v) return } case bytes.EqualFold(errPrefix, []byte(CLUSTERDOWN)): if c.onClusterDown != nil { c.onClusterDown(req, v) return } }",
      "req.SetResponse(v)"] ∧
    Gen.Upstream.handleRedirection =
      ["err := strings.Split(string(resp.Text), \" \")",
      "if len(err) < 3 { req.SetResponse(resp) return }",
      "hostAddr := err[2]",
      "switch strings.ToLower(err[0]) { case MOVED: u.stats.Counter(\"moved\").Inc() u.MakeRequestToHost(hostAddr, req) case ASK: askingReq := newSimpleRequest(newArray( *newBulkString(ASKING), )) askingReq.abort = req.abort u.MakeRequestToHost(hostAddr, askingReq, req) default: req.SetResponse(resp) return }",
      "u.triggerSlotsRefresh()"] ∧
    Gen.Upstream.handleClusterDown =
      ["u.triggerSlotsRefresh()",
      "req.SetResponse(resp)"] := by
  refine ⟨rfl, rfl, rfl, rfl, rfl, rfl, rfl⟩

end SamVerif.Props.C04

namespace SamVerif.Props.C04a
open SamVerif.AskPair

theorem exec_blocks (sends : List Send) : ∀ flag, ∀ r ∈ exec flag (queue sends), r.2 = true := by
  induction sends with
  | nil => intro flag r hr; simp [queue, exec] at hr
  | cons s rest ih =>
    intro flag r hr
    cases s with
    | direct id =>
      simp only [queue, List.flatMap_cons, block, List.cons_append, List.nil_append, exec, Bool.not_false, Bool.true_or,
        List.mem_cons] at hr
      rcases hr with rfl | hr
      · rfl
      · exact ih false r hr
    | redirected id =>
      simp only [queue, List.flatMap_cons, block, List.cons_append, List.nil_append, exec, Bool.not_true, Bool.false_or,
        List.mem_cons] at hr
      rcases hr with rfl | hr
      · rfl
      · exact ih false r hr

/-- **A redirected command is served by the node it was redirected to, whatever else is sent to that node** (F-04d, since cf7dbc3):
for every sequence of sends on the shared connection — direct requests of any clients and redirected requests with their ASKING, in
any order — every command is served; none is answered MOVED because somebody else's command took its ASKING. -/
theorem every_command_served (sends : List Send) : ∀ r ∈ exec false (queue sends), r.2 = true :=
  exec_blocks sends false

/-- every command sent is executed exactly once, in the order of the sends -/
theorem executed_once_in_order (sends : List Send) :
    (exec false (queue sends)).map (·.1) = sends.map (fun s => match s with | .direct id => id | .redirected id => id) := by
  suffices h : ∀ flag, (exec flag (queue sends)).map (·.1) = sends.map (fun s => match s with | .direct id => id | .redirected id => id) from h false
  induction sends with
  | nil => intro _; rfl
  | cons s rest ih =>
    intro flag
    cases s <;> simp [queue, block, exec] <;> exact ih _

/-- **Before cf7dbc3** ASKING and the command were two sends: another client's request for that node could be enqueued between
them — it takes the ASKING, the redirected command is answered MOVED. -/
theorem old_two_sends_can_be_separated :
    exec false [.asking, .cmd 2 false, .cmd 1 true] = [(2, true), (1, false)] := by decide

end SamVerif.Props.C04a

#print axioms SamVerif.Props.C04.redirections_end_at_the_holder
#print axioms SamVerif.Props.C04.no_redirect_when_table_is_current
#print axioms SamVerif.Props.C04.code_matches_model
#print axioms SamVerif.Props.C04.interference_only_costs_hops
#print axioms SamVerif.Props.C04.reference_route_is_the_proven_walk
#print axioms SamVerif.Props.C04a.every_command_served
#print axioms SamVerif.Props.C04a.executed_once_in_order
#print axioms SamVerif.Props.C04a.old_two_sends_can_be_separated
