/-
C17 — hot-restart frames and hand-over order.

`Gen.Hotrestart` (message type numbers, the dispatch switch, the call order inside each
handler, the read buffer size, the methods `instance` declares) is regenerated from the
source on every run; `Hot.readMsg`/`sendMsg` are a hand-written model of rpc.go tied by
the differential run over real unix sockets.
-/
import SamVerif.Model.Hot
import SamVerif.Gen.HotText
namespace SamVerif.Props.C17
open SamVerif SamVerif.Hot

/-- **Dispatch.** For every request type 0…255 the parent's reaction, as interpreted from
the handlers in the source, is the specified one: the matching step once and the matching
acknowledgement (for terminate: acknowledge, then kill), unknown types → unknown reply and
no action. (256 rows, checked by the kernel against the regenerated tables.) -/
theorem dispatch_matches_spec : ∀ t : Fin 256, parentStep t.val = specStep t.val := by
  decide +kernel

/-- **Every step of the Instance interface is implemented by the process instance itself**
(a missing one would be promoted from the embedded Restarter and recurse forever). -/
theorem instance_declares_interface :
    ∀ m ∈ Gen.Hotrestart.instanceIface, m ∈ Gen.Hotrestart.instanceOwnMethods := by
  decide

/-- the message constructors carry the types the protocol names -/
theorem reply_types :
    Gen.Hotrestart.shutdownAdminReq = 1 ∧ Gen.Hotrestart.shutdownAdminReply = 2 ∧
    Gen.Hotrestart.shutdownLocalConfReq = 3 ∧ Gen.Hotrestart.shutdownLocalConfReply = 4 ∧
    Gen.Hotrestart.drainListenersReq = 5 ∧ Gen.Hotrestart.drainListenersReply = 6 ∧
    Gen.Hotrestart.terminateReq = 7 ∧ Gen.Hotrestart.terminateReply = 8 ∧
    Gen.Hotrestart.unknownReply = 9 ∧ Gen.Hotrestart.readBufSize = 4096 := by decide

/-- `readMessage` never panics, whatever arrives and whatever the buffer size. -/
theorem read_never_panics (bufSize : Nat) (d : Bytes) : readMsg bufSize d ≠ .panic := by
  unfold readMsg
  simp only
  split
  · simp
  · split
    · simp
    · split
      · rename_i h1 h2 h3
        omega
      · simp

/-- **A frame is rejected exactly when it is shorter than its header or than its declared
length**; otherwise it is accepted with exactly the declared bytes. -/
theorem read_rejects_iff (bufSize : Nat) (d : Bytes) :
    readMsg bufSize d = .err ↔
      (min d.length bufSize < 3 ∨
       min d.length bufSize - 3 < ((d.take bufSize).getD 1 0).toNat * 256 + ((d.take bufSize).getD 2 0).toNat) := by
  unfold readMsg
  simp only
  constructor
  · intro h
    split at h
    · left; assumption
    · split at h
      · right; assumption
      · split at h <;> simp at h
  · intro h
    rcases h with h | h
    · simp [h]
    · by_cases h3 : min d.length bufSize < 3
      · simp [h3]
      · rw [if_neg h3, if_pos h]

/-- **Round trip.** Every frame (any type, any payload up to the read size) written by
`sendMessage` is read back exactly: type, length, payload. -/
theorem read_send (bufSize typ : Nat) (data : Bytes) (ht : typ < 256) (hl : 3 + data.length ≤ bufSize)
    (hl2 : data.length < 65536) :
    readMsg bufSize (sendMsg typ data.length data) = .ok typ data.length data := by
  unfold readMsg sendMsg
  have e1 : data.take data.length = data := List.take_length
  simp only [e1, Nat.sub_self, List.replicate_zero, List.append_nil]
  have hlen : ([UInt8.ofNat typ, UInt8.ofNat (data.length / 256), UInt8.ofNat (data.length % 256)] ++ data).length
      = 3 + data.length := by simp only [List.length_append, List.length_cons, List.length_nil]
  have htake : ([UInt8.ofNat typ, UInt8.ofNat (data.length / 256), UInt8.ofNat (data.length % 256)] ++ data).take bufSize
      = [UInt8.ofNat typ, UInt8.ofNat (data.length / 256), UInt8.ofNat (data.length % 256)] ++ data := by
    apply List.take_of_length_le; rw [hlen]; exact hl
  rw [htake, hlen]
  have hmin : min (3 + data.length) bufSize = 3 + data.length := by omega
  rw [hmin]
  have b0 : (UInt8.ofNat typ).toNat = typ := UInt8.toNat_ofNat_of_lt' ht
  have b1 : (UInt8.ofNat (data.length / 256)).toNat = data.length / 256 :=
    UInt8.toNat_ofNat_of_lt' (by show data.length / 256 < 256; omega)
  have b2 : (UInt8.ofNat (data.length % 256)).toNat = data.length % 256 :=
    UInt8.toNat_ofNat_of_lt' (by show data.length % 256 < 256; omega)
  have hdecl : data.length / 256 * 256 + data.length % 256 = data.length := by omega
  simp [b0, b1, b2, hdecl]
  have n1 : ¬ (3 + data.length < 3) := by omega
  have n2 : ¬ (bufSize < 3 + data.length) := by omega
  rw [if_neg n1, if_neg n2]

/-- **Hand-over trace.** For every sequence of well-formed requests (any types) sent by one
child, the parent performs exactly the specified steps, in the order requested, each
acknowledged with the matching reply. -/
theorem handover_trace (reqs : List (Fin 256)) :
    child 4096 (reqs.map (fun t => sendMsg t.val 2 [123, 125])) = reqs.flatMap (fun t => specStep t.val) := by
  unfold child
  induction reqs with
  | nil => rfl
  | cons t ts ih =>
    simp only [List.map_cons, List.flatMap_cons]
    have := read_send 4096 t.val [123, 125] t.isLt (by decide) (by decide)
    simp only [List.length_cons, List.length_nil] at this
    rw [this, ih]
    simp only
    rw [dispatch_matches_spec t]

/-- **A child that disappears does not prevent a later child from completing the hand-over**:
the children are served one after the other; whatever the earlier children sent (including
unreadable frames, or nothing), the later child's requests are performed and acknowledged. -/
theorem later_child_completes (earlier : List (List Bytes)) (reqs : List (Fin 256)) :
    parent 4096 (earlier ++ [reqs.map (fun t => sendMsg t.val 2 [123, 125])])
      = parent 4096 earlier ++ reqs.flatMap (fun t => specStep t.val) := by
  unfold parent
  simp [List.flatMap_append, handover_trace]

/-! ### any grouping of the requests into reads (F-17d) -/

theorem frame_eq (t : Fin 256) : frame t = [UInt8.ofNat t.val, 0, 2, 123, 125] := by
  simp [frame, sendMsg]

theorem parseMsg_frame (t : Fin 256) (rest : Bytes) :
    parseMsg (frame t ++ rest) = some ((t.val, 2, [123, 125]), rest) := by
  rw [frame_eq]
  simp [parseMsg]

theorem parseAll_frames (ts : List (Fin 256)) (fuel : Nat) (hf : ts.length ≤ fuel) (hne : ts ≠ []) :
    parseAll fuel ((ts.map frame).flatten) = ts.map fun t => (t.val, 2, [123, 125]) := by
  induction ts generalizing fuel with
  | nil => exact absurd rfl hne
  | cons t ts ih =>
    cases fuel with
    | zero => simp at hf
    | succ fuel =>
      simp only [List.map_cons, List.flatten_cons, parseAll, parseMsg_frame]
      cases ts with
      | nil => simp
      | cons t2 ts2 =>
        have hne2 : ((List.map frame (t2 :: ts2)).flatten).isEmpty = false := by
          simp [frame_eq]
        rw [hne2]
        simp only [Bool.false_eq_true, ↓reduceIte]
        rw [ih fuel (by simpa using hf) (by simp)]


/-- **Every request is performed once, in the order requested, and acknowledged — however the requests are grouped into reads.**
A child sends the request frames `groups.flatten`; the stream socket delivers them to the parent in reads of any grouping (each read:
some consecutive frames, at most the 4096 bytes of the read buffer, i.e. up to 819 frames).  The parent performs exactly the specified
steps, in the order requested, each with the matching reply (unknown types with the unknown reply). -/
theorem handover_trace_any_grouping (groups : List (List (Fin 256))) (hsz : ∀ g ∈ groups, g ≠ [] ∧ 5 * g.length ≤ 4096) :
    childReads 4096 (groups.map fun g => (g.map frame).flatten) = groups.flatten.flatMap (fun t => specStep t.val) := by
  unfold childReads
  induction groups with
  | nil => rfl
  | cons g gs ih =>
    obtain ⟨hne, hlen⟩ := hsz g (by simp)
    have hl : ((g.map frame).flatten).length = 5 * g.length := by
      clear hne hlen ih hsz
      induction g with
      | nil => rfl
      | cons t ts ih => simp only [List.map_cons, List.flatten_cons, List.length_append, ih, frame_eq, List.length_cons, List.length_nil]; omega
    have htake : ((g.map frame).flatten).take 4096 = (g.map frame).flatten := List.take_of_length_le (by omega)
    simp only [List.map_cons, List.flatMap_cons, List.flatten_cons, List.flatMap_append]
    rw [ih (fun g' hg' => hsz g' (by simp [hg']))]
    congr 1
    unfold readMsgs
    rw [htake, parseAll_frames g _ (by omega) hne]
    clear hl htake hne hlen ih hsz
    induction g with
    | nil => rfl
    | cons t ts ih => simp only [List.map_cons, List.flatMap_cons, ih, dispatch_matches_spec t]

/-- before 0f56e69 one read was one request: the second frame of a read was dropped -/
theorem old_one_frame_per_read :
    child 4096 [frame 5 ++ frame 1] = specStep 5 ∧ childReads 4096 [frame 5 ++ frame 1] = specStep 5 ++ specStep 1 := by
  constructor <;> decide

/-! ### the behaviour before the repair (`fix:` commits c234c2d, 8d6f9ce), kept as counterexamples -/

/-- F-17a: a frame declaring 3 payload bytes but carrying 2 was accepted (with an invented
zero byte) by the old check. -/
theorem old_accepts_short_frame :
    readMsgOld 4096 [1, 0, 3, 120, 121] = .ok 1 3 [120, 121, 0] := by decide +kernel

/-- the repaired code rejects it -/
theorem new_rejects_short_frame : readMsg 4096 [1, 0, 3, 120, 121] = .err := by decide

/-- F-17b: with the old check a full 4096-byte read declaring 4094 payload bytes panicked
(slice bounds 4097 > 4096). -/
theorem old_panics_on_full_buffer :
    readMsgOld 4096 ([1, 15, 254] ++ List.replicate 4093 7) = .panic := by decide +kernel

/-! Non-vacuity -/
example : child 4096 [sendMsg 1 2 [123,125], sendMsg 5 2 [123,125], sendMsg 7 2 [123,125]] =
    [.act "ShutdownAdmin", .reply 2, .act "DrainListeners", .reply 6, .reply 8, .act "kill"] := by decide +kernel

/-- **The code the model was written against.** The statements of the modelled functions,
regenerated from the current source on every run, are the ones the model was written against;
any edit to one of them makes this obligation fail and starts a search for a failing input. -/
theorem control_loop_matches_model :
    Gen.HotText.handleChild =
      ["logger.Info(\"Child connected\")",
      "defer func() { logger.Info(\"Child disconnected\") }()",
      "go func() { <-r.quit conn.Close() }()",
      "for { select { case <-r.quit: return default: } msgs, err := readMessages(conn) for _, msg := range msgs { logger.Debugf(\"Receive message %v from child\", msg) r.dispatch(conn, msg) } if err != nil { if ne, ok := err.(*net.OpError); ok && ne.Err == io.EOF { return } logger.Warnf(\"Read msg from child failed: %v\", err) } }"] ∧
    Gen.HotText.dispatch =
      ["var handle func(from *net.UnixConn, data []byte)",
      "switch msg.Type { case shutdownLocalConfReq: handle = r.handleShutdownLocalConfRequest case shutdownAdminReq: handle = r.handleShutdownAdminRequest case drainListenersReq: handle = r.handleDrainListenersRequest case terminateReq: handle = r.handleTerminateRequest default: handle = r.handleUnknownRequest }",
      "handle(conn, msg.Data)"] ∧
    Gen.HotText.readMessage =
      ["b := make([]byte, 4096)",
      "n, _, _, _, err := conn.ReadMsgUnix(b, nil)",
      "if err != nil { return nil, err }",
      "msg, _, err := parseMessage(b[:n])",
      "return msg, err"] ∧
    Gen.HotText.readMessages =
      ["b := make([]byte, 4096)",
      "n, _, _, _, err := conn.ReadMsgUnix(b, nil)",
      "if err != nil { return nil, err }",
      "b = b[:n]",
      "var msgs []*message",
      "for { msg, rest, err := parseMessage(b) if err != nil { return msgs, err } msgs = append(msgs, msg) if len(rest) == 0 { return msgs, nil } b = rest }"] ∧
    Gen.HotText.parseMessage =
      ["if len(b) < 3 { return nil, nil, errors.New(\"invalid header\") }",
      "msg := new(message)",
      "msg.Type = messageType(b[0])",
      "msg.Len = uint16(b[1])<<8 | uint16(b[2])",
      "end := 3 + int(msg.Len)",
      "if len(b) < end { return nil, nil, errors.New(\"incomplete data\") }",
      "msg.Data = b[3:end]",
      "return msg, b[end:], nil"] ∧
    Gen.HotText.sendMessage =
      ["b := make([]byte, 3+msg.Len)",
      "b[0] = byte(msg.Type)",
      "b[1] = byte(msg.Len >> 8)",
      "b[2] = byte(msg.Len)",
      "copy(b[3:], msg.Data)",
      "_, _, err := conn.WriteMsgUnix(b, nil, nil)",
      "return err"] := by
  refine ⟨rfl, rfl, rfl, rfl, rfl, rfl⟩

end SamVerif.Props.C17

#print axioms SamVerif.Props.C17.dispatch_matches_spec
#print axioms SamVerif.Props.C17.instance_declares_interface
#print axioms SamVerif.Props.C17.read_never_panics
#print axioms SamVerif.Props.C17.read_rejects_iff
#print axioms SamVerif.Props.C17.read_send
#print axioms SamVerif.Props.C17.handover_trace
#print axioms SamVerif.Props.C17.later_child_completes
#print axioms SamVerif.Props.C17.old_accepts_short_frame
#print axioms SamVerif.Props.C17.old_panics_on_full_buffer
#print axioms SamVerif.Props.C17.control_loop_matches_model
#print axioms SamVerif.Props.C17.handover_trace_any_grouping
#print axioms SamVerif.Props.C17.old_one_frame_per_read
