/-
C16 model: the discovery subscription client (`config/discovery.go`, svcDiscoveryClient) as a
labelled transition system, as repaired (6c6850f: pending changes in an unbounded slice under the
lock, one-slot wake-up; a349465: only the latest pending change of a service is sent).

Threads: the caller (`Subscribe`/`Unsubscribe`), the run loop (`run`: new stream → `resubscribe`
→ `loopSend`, retried for ever by `Run`), the receiver (`loopRecv`).  Every label is one atomic
step of one thread: the critical sections under the client's lock, and the stream calls.
-/
namespace SamVerif.Sub

abbrev NSet := Nat → Bool

def upd (s : NSet) (n : Nat) (b : Bool) : NSet := fun k => if k = n then b else s k

/-- a pending change: service, subscribe? -/
abbrev Ops := List (Nat × Bool)

def applyOps (s : NSet) : Ops → NSet
  | [] => s
  | (n, b) :: r => applyOps (upd s n b) r

structure Msg where
  subs : List Nat
  unsubs : List Nat
deriving Repr, DecidableEq

/-- what a request does to the server's set, under the two possible readings of a request that
names a service in both lists -/
def applyMsgSU (s : NSet) (m : Msg) : NSet :=
  fun k => if k ∈ m.unsubs then false else if k ∈ m.subs then true else s k
def applyMsgUS (s : NSet) (m : Msg) : NSet :=
  fun k => if k ∈ m.subs then true else if k ∈ m.unsubs then false else s k

/-- `takePending`: keep only the latest change of each service -/
def latestOnly : Ops → Ops
  | [] => []
  | (n, b) :: r => if r.any (fun p => p.1 == n) then latestOnly r else (n, b) :: latestOnly r

def mkMsg (ops : Ops) : Msg :=
  { subs := ((latestOnly ops).filter (fun p => p.2)).map (·.1),
    unsubs := ((latestOnly ops).filter (fun p => !p.2)).map (·.1) }

/-- the batching before a349465: every change goes to its list -/
def mkMsgOld (ops : Ops) : Msg :=
  { subs := (ops.filter (fun p => p.2)).map (·.1), unsubs := (ops.filter (fun p => !p.2)).map (·.1) }

inductive Phase
  | down                       -- no stream: between attempts, or creating one
  | snap (names : List Nat)    -- resubscribe has taken its snapshot and cleared the pending changes
  | idle                       -- stream up, send loop parked
  | sending (m : Msg)          -- send loop has taken a batch, Send in progress
deriving Repr, DecidableEq

structure St where
  subscribed : NSet := fun _ => false
  /-- every service ever named (support of `subscribed`, to enumerate the snapshot) -/
  names : List Nat := []
  pending : Ops := []
  /-- what the requests sent on the current stream add up to -/
  server : NSet := fun _ => false
  phase : Phase := .down

inductive Label
  | sub (n : Nat) | unsub (n : Nat)
  | connectFail | connect
  | resubSent | resubFail
  | take | sent | sendFail
  | recvFail
deriving Repr, DecidableEq

def memSet (l : List Nat) : NSet := fun k => decide (k ∈ l)

def addName (l : List Nat) (n : Nat) : List Nat := if n ∈ l then l else l ++ [n]

/-- `none`: the label is not enabled -/
def step (s : St) : Label → Option St
  | .sub n =>
    if s.subscribed n then some s
    else some { s with subscribed := upd s.subscribed n true, pending := s.pending ++ [(n, true)], names := addName s.names n }
  | .unsub n =>
    if s.subscribed n then some { s with subscribed := upd s.subscribed n false, pending := s.pending ++ [(n, false)] }
    else some s
  | .connectFail => if s.phase = .down then some s else none
  | .connect =>
    if s.phase = .down then
      some { s with phase := .snap (s.names.filter s.subscribed), pending := [], server := fun _ => false }
    else none
  | .resubSent =>
    match s.phase with
    | .snap l => some { s with phase := .idle, server := memSet l }
    | _ => none
  | .resubFail =>
    match s.phase with
    | .snap _ => some { s with phase := .down }
    | _ => none
  | .take =>
    if s.phase = .idle ∧ s.pending ≠ [] then some { s with phase := .sending (mkMsg s.pending), pending := [] } else none
  | .sent =>
    match s.phase with
    | .sending m => some { s with phase := .idle, server := applyMsgSU s.server m }
    | _ => none
  | .sendFail =>
    match s.phase with
    | .sending _ => some { s with phase := .down }
    | _ => none
  | .recvFail =>
    match s.phase with
    | .idle => some { s with phase := .down }
    | .sending _ => some { s with phase := .down }
    | _ => none

def run (s : St) : List Label → Option St
  | [] => some s
  | l :: ls => match step s l with | some s' => run s' ls | none => none

end SamVerif.Sub
