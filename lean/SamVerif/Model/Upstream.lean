/-
Upstream-level models (`proc/redis/upstream.go`), shared by C07, C04 and C03.

1. `Conn*`: the table of backend connections for one address: lookup, else one shared connect
   attempt (`getClient`/`createClient`, the entry removed on completion since the repair of
   F-07a), a connection ending and removing itself from the table.
2. `Route*`: the slot table against the cluster's true layout: a request goes to the node the
   table names; a node that does not own the slot answers MOVED, the request is resent to the
   named node and a refresh is triggered; a refresh replaces the table by the layout some node
   reports, a failed refresh re-arms itself.
-/
namespace SamVerif.Upstream

/-! ### connections to one backend address -/

inductive Slot1 | absent | alive | ended      -- ended: the connection is over but still in the table
deriving Repr, DecidableEq

inductive Call | none | running
deriving Repr, DecidableEq

structure CState where
  up : Bool := true          -- the node accepts connections
  table : Slot1 := .absent   -- what `u.clients[addr]` holds
  call : Call := .none       -- `u.createClientCalls[addr]`
deriving Repr, DecidableEq

inductive Outcome | served | failed | waiting
deriving Repr, DecidableEq

inductive CLabel
  | nodeDown | nodeUp
  | connLost         -- the established connection is reset or the node went away: its loops end
  | selfRemove       -- the ended connection removes itself from the table (`Start` returned)
  | attemptBegin     -- a request finds nothing in the table and no attempt running: it starts one
  | attemptEnd       -- the attempt finishes: on success the connection enters the table; the entry is removed
deriving Repr, DecidableEq

def cstep (s : CState) : CLabel → Option CState
  | .nodeDown => some { s with up := false }
  | .nodeUp => some { s with up := true }
  | .connLost => if s.table = .alive then some { s with table := .ended } else none
  | .selfRemove => if s.table = .ended then some { s with table := .absent } else none
  | .attemptBegin => if s.table = .absent ∧ s.call = .none then some { s with call := .running } else none
  | .attemptEnd =>
    if s.call = .running then
      some { s with call := .none, table := if s.up ∧ s.table = .absent then .alive else s.table }
    else none

def crun (s : CState) : List CLabel → Option CState
  | [] => some s
  | l :: ls => match cstep s l with | some s' => crun s' ls | none => none

/-- what a request for this address gets in state `s` (`MakeRequestToHost` → `getClient` → `Send`) -/
def request (s : CState) : Outcome :=
  match s.table with
  | .alive => .served
  | .ended => .failed          -- `Send` on a connection that has quit: "backend exited"
  | .absent =>
    match s.call with
    | .running => .waiting     -- shares the attempt in progress
    | .none => if s.up then .served else .failed   -- makes an attempt of its own

/-- the behaviour before the repair: a finished attempt stays in `createClientCalls` for ever -/
inductive OldCall | none | running | doneOk | doneErr
deriving Repr, DecidableEq

structure OldState where
  up : Bool := true
  table : Slot1 := .absent
  call : OldCall := .none
deriving Repr, DecidableEq

def oldStep (s : OldState) : CLabel → Option OldState
  | .nodeDown => some { s with up := false }
  | .nodeUp => some { s with up := true }
  | .connLost => if s.table = .alive then some { s with table := .ended } else none
  | .selfRemove => if s.table = .ended then some { s with table := .absent } else none
  | .attemptBegin => if s.table = .absent ∧ s.call = .none then some { s with call := .running } else none
  | .attemptEnd =>
    if s.call = .running then
      (if s.up then some { s with call := .doneOk, table := .alive } else some { s with call := .doneErr })
    else none

def oldRun (s : OldState) : List CLabel → Option OldState
  | [] => some s
  | l :: ls => match oldStep s l with | some s' => oldRun s' ls | none => none

def oldRequest (s : OldState) : Outcome :=
  match s.table with
  | .alive => .served
  | .ended => .failed
  | .absent =>
    match s.call with
    | .running => .waiting
    | .none => if s.up then .served else .failed
    | .doneOk => .failed      -- handed the connection the finished attempt produced: it has ended
    | .doneErr => .failed     -- handed the cached error

/-! ### routing table against the true layout -/

structure RState where
  table : Nat → Option Nat      -- the proxy's slot table (none: not loaded for this slot)
  truth : Nat → Nat             -- the cluster's layout
  refreshArmed : Bool := false  -- a refresh has been triggered and not run yet
  redirects : Nat := 0

inductive RLabel
  | request (slot : Nat) (seed : Nat)   -- a keyed request; `seed`: the random host used when the table has no entry
  | refreshOk                           -- some node answers CLUSTER NODES: the table becomes the layout
  | refreshFail                         -- the chosen node does not answer or the reply is unusable
  | reshard (slot node : Nat)           -- the cluster hands a slot to another node
  | periodic                            -- the periodic timer arms a refresh

def upd (f : Nat → Option Nat) (k : Nat) (v : Option Nat) : Nat → Option Nat := fun x => if x = k then v else f x
def updN (f : Nat → Nat) (k v : Nat) : Nat → Nat := fun x => if x = k then v else f x

/-- the node a request is first delivered to -/
def firstNode (s : RState) (slot seed : Nat) : Nat := (s.table slot).getD seed

def rstep (s : RState) : RLabel → Option RState
  | .request slot seed =>
    if firstNode s slot seed = s.truth slot then some s
    else some { s with redirects := s.redirects + 1, refreshArmed := true }   -- MOVED: resend to the owner, trigger a refresh
  | .refreshOk => if s.refreshArmed then some { s with table := fun k => some (s.truth k), refreshArmed := false } else none
  | .refreshFail => if s.refreshArmed then some s else none                    -- stays armed: retried
  | .reshard slot node => some { s with truth := updN s.truth slot node }
  | .periodic => some { s with refreshArmed := true }

def rrun (s : RState) : List RLabel → Option RState
  | [] => some s
  | l :: ls => match rstep s l with | some s' => rrun s' ls | none => none

/-- the node that executes a request: the first node if it owns the slot, else the one MOVED names -/
def servedBy (s : RState) (slot _seed : Nat) : Nat := s.truth slot


/-! ### following redirections (C04) -/

/-- the cluster's state for one slot while a request is in flight -/
structure Truth where
  owner : Nat                 -- the node that owns the slot
  target : Option Nat         -- the node the slot is being migrated to, if any (≠ owner)

inductive Ans | serve | moved (n : Nat) | ask (n : Nat)
deriving Repr, DecidableEq

/-- what a Redis node answers to a keyed command: `present`: the key exists on the owner;
`asking`: the connection's one-shot ASKING flag is set -/
def nodeAnswer (t : Truth) (node : Nat) (present asking : Bool) : Ans :=
  if node = t.owner then
    match t.target with
    | some dst => if present then .serve else .ask dst
    | none => .serve
  else if t.target = some node ∧ asking then .serve
  else .moved t.owner

/-- the proxy's handling (`handleResp` → `handleRedirection`): MOVED: resend to the named node;
ASK: send ASKING, then resend to the named node.  Returns the node that executes the command and
the number of redirections followed; `none`: out of fuel. -/
def follow (t : Truth) (present : Bool) : Nat → Nat → Bool → Option (Nat × Nat)
  | 0, _, _ => none
  | fuel + 1, node, asking =>
    match nodeAnswer t node present asking with
    | .serve => some (node, 0)
    | .moved n => (follow t present fuel n false).map fun r => (r.1, r.2 + 1)
    | .ask n => (follow t present fuel n true).map fun r => (r.1, r.2 + 1)

/-- where the command has to be executed: on the owner, or — when the slot is migrating and the
key is not (any more) on the owner — on the target -/
def holder (t : Truth) (present : Bool) : Nat :=
  match t.target with
  | some dst => if present then t.owner else dst
  | none => t.owner

/-! ### one server against a partitioned key space (C03) -/

abbrev Key := Nat
abbrev Val := Nat
abbrev KV := Key → Option Val

def kvUpd (s : KV) (k : Key) (v : Option Val) : KV := fun x => if x = k then v else s x

/-- a single-key command: what it leaves under the key and what it answers, from what was there -/
structure Cmd1 where
  eff : Option Val → Option Val
  rep : Option Val → Nat

def exec1 (s : KV) (c : Cmd1) (k : Key) : KV × Nat := (kvUpd s k (c.eff (s k)), c.rep (s k))

/-- a command on the single server: one key, or one per-key command over several keys combined
in argument order (MGET: the list of GET replies; MSET: OK; DEL/EXISTS/TOUCH/UNLINK: the sum) -/
inductive Cmd
  | one (c : Cmd1) (k : Key)
  | many (cs : List (Cmd1 × Key))      -- per-key commands in argument order

def execMany (s : KV) : List (Cmd1 × Key) → KV × List Nat
  | [] => (s, [])
  | (c, k) :: rest =>
    let (s1, r) := exec1 s c k
    let (s2, rs) := execMany s1 rest
    (s2, r :: rs)

def execSingle (s : KV) : Cmd → KV × List Nat
  | .one c k => let (s', r) := exec1 s c k; (s', [r])
  | .many cs => execMany s cs

/-- the cluster: one key space per node, a slot function and the layout -/
structure Cluster where
  slot : Key → Nat
  owner : Nat → Nat
  data : Nat → KV

def Cluster.nodeOf (c : Cluster) (k : Key) : Nat := c.owner (c.slot k)

/-- the proxy: a keyed command is delivered to the node the (loaded) table names for the key's
slot and executed there; split commands are delivered per key and re-assembled by argument index -/
def proxy1 (c : Cluster) (cmd : Cmd1) (k : Key) : Cluster × Nat :=
  let n := c.nodeOf k
  let (d, r) := exec1 (c.data n) cmd k
  ({ c with data := fun m => if m = n then d else c.data m }, r)

def proxyMany (c : Cluster) : List (Cmd1 × Key) → Cluster × List Nat
  | [] => (c, [])
  | (cmd, k) :: rest =>
    let (c1, r) := proxy1 c cmd k
    let (c2, rs) := proxyMany c1 rest
    (c2, r :: rs)

def proxyExec (c : Cluster) : Cmd → Cluster × List Nat
  | .one cmd k => let (c', r) := proxy1 c cmd k; (c', [r])
  | .many cs => proxyMany c cs

/-- the cluster holds exactly the single server's data, every key on the node owning its slot -/
def Represents (c : Cluster) (s : KV) : Prop :=
  ∀ k, c.data (c.nodeOf k) k = s k ∧ ∀ n, n ≠ c.nodeOf k → c.data n k = none

end SamVerif.Upstream
